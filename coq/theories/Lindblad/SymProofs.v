(* Proofs about the model of generate_lindbladian (Sym.v). *)
From Coq Require Import String List Bool QArith Qcanon Ring Lia.
From PTN Require Import Lindblad.Sym.
Import ListNotations.
Local Close Scope Q_scope.

(* ============================================================================================ *)
(* Dictionaries                                                                                  *)
(* ============================================================================================ *)
Section DictLemmas.
  Context {V : Type}.
  Implicit Types (d : dict V) (k : string) (v : V).

  Lemma dget_In : forall d k v, dget k d = Some v -> In (k, v) d.
  Proof.
    induction d as [|[k' v'] r IH]; simpl; intros k v H; [discriminate|].
    destruct (String.eqb k k') eqn:E.
    - apply String.eqb_eq in E. inversion H; subst. now left.
    - right. now apply IH.
  Qed.

  Lemma In_dget_some : forall d k v, In (k, v) d -> exists v', dget k d = Some v'.
  Proof.
    induction d as [|[k' v'] r IH]; simpl; intros k v H; [contradiction|].
    destruct (String.eqb k k') eqn:E; [eauto|].
    destruct H as [H|H]; [inversion H; subst; rewrite String.eqb_refl in E; discriminate|].
    eapply IH; eauto.
  Qed.

  Lemma dget_dset_same : forall d k v, dget k (dset k v d) = Some v.
  Proof.
    induction d as [|[k' v'] r IH]; simpl; intros k v.
    - now rewrite String.eqb_refl.
    - destruct (String.eqb k k') eqn:E; simpl; rewrite E; auto.
  Qed.

  Lemma dget_dset_other : forall d k k' v, k <> k' -> dget k (dset k' v d) = dget k d.
  Proof.
    induction d as [|[k0 v0] r IH]; simpl; intros k k' v Hn.
    - destruct (String.eqb k k') eqn:E; [apply String.eqb_eq in E; contradiction|reflexivity].
    - destruct (String.eqb k' k0) eqn:E; simpl.
      + apply String.eqb_eq in E; subst k0.
        destruct (String.eqb k k') eqn:E2; [apply String.eqb_eq in E2; contradiction|reflexivity].
      + destruct (String.eqb k k0); auto.
  Qed.

  Lemma dget_dset : forall d k k' v v', dget k (dset k' v' d) = Some v -> (k = k' /\ v = v') \/ dget k d = Some v.
  Proof.
    intros d k k' v v' H. destruct (string_dec k k') as [->|Hn].
    - rewrite dget_dset_same in H. inversion H. now left.
    - rewrite dget_dset_other in H by assumption. now right.
  Qed.

  Lemma dget_dset_mono : forall d k k' v v', dget k d = Some v -> exists v0, dget k (dset k' v' d) = Some v0.
  Proof.
    intros d k k' v v' H. destruct (string_dec k k') as [->|Hn].
    - rewrite dget_dset_same. eauto.
    - rewrite dget_dset_other by assumption. eauto.
  Qed.

  (* d.update(ws): what can be read afterwards was in d or is one of the written pairs *)
  Lemma dget_dupdate : forall ws d k v, dget k (dupdate d ws) = Some v -> In (k, v) ws \/ dget k d = Some v.
  Proof.
    unfold dupdate. induction ws as [|[k' v'] ws IH]; simpl; intros d k v H; [now right|].
    apply IH in H. destruct H as [H|H]; [left; now right|].
    apply dget_dset in H. destruct H as [[-> ->]|H]; [left; now left|now right].
  Qed.

  Lemma dupdate_mono : forall ws d k v, dget k d = Some v -> exists v0, dget k (dupdate d ws) = Some v0.
  Proof.
    unfold dupdate. induction ws as [|[k' v'] ws IH]; simpl; intros d k v H; [eauto|].
    destruct (dget_dset_mono d k k' v v' H) as [v0 H0]. eapply IH; eauto.
  Qed.

  Lemma dupdate_mem : forall ws d k v, In (k, v) ws -> exists v0, dget k (dupdate d ws) = Some v0.
  Proof.
    unfold dupdate. induction ws as [|[k' v'] ws IH]; simpl; intros d k v H; [contradiction|].
    destruct H as [H|H].
    - inversion H; subst. eapply (dupdate_mono ws). apply dget_dset_same.
    - eapply IH; eauto.
  Qed.
End DictLemmas.

Lemma dget_map_snd : forall {V W} (f : V -> W) (d : dict V) k,
  dget k (map (fun kv => (fst kv, f (snd kv))) d) = option_map f (dget k d).
Proof.
  induction d as [|[k' v'] r IH]; simpl; intros k; [reflexivity|].
  destruct (String.eqb k k'); auto.
Qed.

Lemma mget_In : forall t e b, mget e t = Some b -> exists e', In (e', b) t /\ mexp_eqb e e' = true.
Proof.
  induction t as [|[e' b'] r IH]; simpl; intros e b H; [discriminate|].
  destruct (mexp_eqb e e') eqn:E.
  - inversion H; subst. exists e'. split; [now left|assumption].
  - destruct (IH _ _ H) as [e0 [H1 H2]]. exists e0. split; [now right|assumption].
Qed.

Lemma mexp_eqb_eq : forall a b, mexp_eqb a b = true -> a = b.
Proof.
  induction a; destruct b; simpl; intros H; try discriminate.
  - apply andb_true_iff in H. destruct H as [H1 H2]. apply String.eqb_eq in H2.
    destruct s, s0; simpl in H1; try discriminate; now subst.
  - f_equal; auto.
  - f_equal; auto.
  - f_equal; auto.
  - apply andb_true_iff in H. destruct H. f_equal; auto.
Qed.

(* ============================================================================================ *)
(* Structure of the generated pieces                                                             *)
(* ============================================================================================ *)
Lemma bind_Ok : forall {X Y} (r : result X) (f : X -> result Y) y,
  bind r f = Ok y -> exists x, r = Ok x /\ f x = Ok y.
Proof. intros X Y [x|k|] f y H; simpl in H; try discriminate. eauto. Qed.

Ltac bind_inv H :=
  let x := fresh "x" in let H1 := fresh "E" in
  apply bind_Ok in H; destruct H as [x [H1 H]].

Definition la_rel (inv : label -> option bool) (suf : string) (kv kv' : string * label) : Prop :=
  fst kv' = fst kv /\
  exists b, inv (snd kv) = Some b /\ snd kv' = if b then snd kv else (snd kv ++ suf)%string.

Lemma local_action_F2 : forall inv suf p p',
  local_action inv suf p = Ok p' -> Forall2 (la_rel inv suf) p p'.
Proof.
  induction p as [|[s l] r IH]; simpl; intros p' H.
  - inversion H. constructor.
  - destruct (inv l) as [b|] eqn:E; [|discriminate]. bind_inv H. inversion H; subst.
    constructor; [|auto]. split; [reflexivity|]. exists b. auto.
Qed.

Lemma F2_la_lookup : forall inv suf p p' s l,
  Forall2 (la_rel inv suf) p p' -> In (s, l) p -> exists b, inv l = Some b.
Proof.
  induction 1 as [|a a' q q' [_ [b [Hb _]]] _ IH]; intros Hin; [contradiction|].
  destruct Hin as [Hin|Hin]; [subst a; simpl in Hb; eauto|auto].
Qed.

Lemma F2_impl_In : forall {X Y} (R R' : X -> Y -> Prop) q q',
  Forall2 R q q' -> (forall a b, In a q -> R a b -> R' a b) -> Forall2 R' q q'.
Proof.
  induction 1 as [|a b q q' H HF IH]; intros HR; constructor.
  - apply HR; [now left|assumption].
  - apply IH. intros a0 b0 Hin. apply HR. now right.
Qed.

Lemma F2_fst : forall {X Y} (R : string * X -> string * Y -> Prop) p p',
  Forall2 R p p' -> (forall a b, R a b -> fst b = fst a) -> map fst p' = map fst p.
Proof. induction 1; simpl; intros HR; [reflexivity|]. f_equal; auto. Qed.

Definition bra_rel (symd : dict bool) (t : term) (st : sterm) : Prop :=
  st_frac st = (-1 * fst (fst t))%Q /\ st_coef st = snd (fst t) /\ st_ket st = [] /\
  local_action (fun l => dget l symd) "_T" (snd t) = Ok (st_bra st).

Lemma ham_bra_terms_F2 : forall symd ts t2,
  ham_bra_terms symd ts = Ok t2 -> Forall2 (bra_rel symd) ts t2.
Proof.
  induction ts as [|[[f c] p] r IH]; simpl; intros t2 H.
  - inversion H. constructor.
  - bind_inv H. bind_inv H. inversion H; subst. constructor; [|auto].
    repeat split; assumption.
Qed.

Definition jump_rel (reald : dict bool) (t : term) (st : sterm) : Prop :=
  st_frac st = fst (fst t) /\ st_coef st = (snd (fst t) ++ "*j")%string /\ st_ket st = snd t /\
  local_action (fun l => dget l reald) "_conj" (snd t) = Ok (st_bra st).

Lemma jump_terms_F2 : forall i reald js t3,
  jump_terms i reald js = Ok t3 -> Forall2 (jump_rel reald) js t3.
Proof.
  induction js as [|[[f c] p] r IH]; simpl; intros t3 H.
  - inversion H. constructor.
  - bind_inv H. bind_inv H. bind_inv H. inversion H; subst. constructor; [|auto].
    repeat split; assumption.
Qed.

Lemma transpose_writes_In : forall sym d tw,
  transpose_writes d sym = Ok tw ->
  forall k e, In (k, e) d -> exists b, sym e = Some b /\ (b = false -> In ((k ++ "_T")%string, MT e) tw).
Proof.
  unfold transpose_writes. induction d as [|[k0 e0] d IH]; simpl; intros tw H k e Hin; [contradiction|].
  bind_inv H. destruct (sym e0) as [[|]|] eqn:E0; try discriminate; inversion H; subst.
  - destruct Hin as [Hin|Hin].
    + inversion Hin; subst. exists true. split; [assumption|discriminate].
    + destruct (IH _ E k e Hin) as [b [H1 H2]]. exists b. auto.
  - destruct Hin as [Hin|Hin].
    + inversion Hin; subst. exists false. split; [assumption|]. intros _. now left.
    + destruct (IH _ E k e Hin) as [b [H1 H2]]. exists b. split; [assumption|]. intros Hb. right. auto.
Qed.

Lemma In_dget_NoDup : forall {V} (d : dict V) k v, NoDup (map fst d) -> In (k, v) d -> dget k d = Some v.
Proof.
  induction d as [|[k' v'] r IH]; simpl; intros k v Hnd Hin; [contradiction|].
  inversion Hnd; subst. destruct Hin as [Hin|Hin].
  - inversion Hin; subst. now rewrite String.eqb_refl.
  - destruct (String.eqb k k') eqn:E.
    + apply String.eqb_eq in E. subst k'. exfalso. apply H1. apply in_map_iff. exists (k, v). auto.
    + auto.
Qed.

Lemma in_base_writes : forall {V} sr (d : dict V) k v, In (k, v) d -> In (k, MBase sr k) (base_writes sr d).
Proof. intros. unfold base_writes. apply in_map_iff. exists (k, v). auto. Qed.

Lemma in_ham_T_writes : forall hc l, In (l, false) hc -> In ((l ++ "_T")%string, MT (MBase SHam l)) (ham_T_writes hc).
Proof. intros. unfold ham_T_writes. apply in_flat_map. exists (l, false). split; [assumption|now left]. Qed.

Lemma in_conj_writes : forall jd X fl, In (X, fl) jd -> f_real fl = false ->
  In ((X ++ "_conj")%string, MConj (MBase SJump X)) (conj_writes jd).
Proof.
  intros. unfold conj_writes. apply in_flat_map. exists (X, fl). split; [assumption|]. simpl. rewrite H0. now left.
Qed.

Lemma in_adj_writes : forall jd X fl, In (X, fl) jd -> f_id fl = false -> f_herm fl = false ->
  In ((X ++ "_H")%string, MH (MBase SJump X)) (adj_writes jd).
Proof.
  intros. unfold adj_writes. apply in_flat_map. exists (X, fl). split; [assumption|]. simpl. rewrite H0, H1. now left.
Qed.

(* ============================================================================================ *)
(* Label closure                                                                                 *)
(* ============================================================================================ *)
Definition labels_of (st : sterm) : list label := (map snd (st_ket st) ++ map snd (st_bra st))%list.

Lemma Forall2_In_r : forall {X Y} (R : X -> Y -> Prop) l l' y,
  Forall2 R l l' -> In y l' -> exists x, In x l /\ R x y.
Proof.
  induction 1 as [|a b l l' H HF IH]; intros Hin; [contradiction|].
  destruct Hin as [<-|Hin]; [exists a; split; [now left|assumption]|].
  destruct (IH Hin) as [x [H1 H2]]. exists x. split; [now right|assumption].
Qed.

Lemma Forall2_In_l : forall {X Y} (R : X -> Y -> Prop) l l' x,
  Forall2 R l l' -> In x l -> exists y, In y l' /\ R x y.
Proof.
  induction 1 as [|a b l l' H HF IH]; intros Hin; [contradiction|].
  destruct Hin as [<-|Hin]; [exists b; split; [now left|assumption]|].
  destruct (IH Hin) as [y [H1 H2]]. exists y. split; [now right|assumption].
Qed.

(* labels of a locally transformed tensor product *)
Lemma la_labels : forall inv suf p p' l',
  Forall2 (la_rel inv suf) p p' -> In l' (map snd p') ->
  exists l b, In l (map snd p) /\ inv l = Some b /\ l' = if b then l else (l ++ suf)%string.
Proof.
  intros inv suf p p' l' HF Hin. apply in_map_iff in Hin. destruct Hin as [[s' m'] [<- Hin]].
  destruct (Forall2_In_r _ _ _ _ HF Hin) as [[s m] [H1 [_ [b [Hb H2]]]]]. simpl in *.
  exists m, b. split; [|auto]. apply in_map_iff. exists (s, m). auto.
Qed.

Lemma la_labels_l : forall inv suf p p' l,
  Forall2 (la_rel inv suf) p p' -> In l (map snd p) -> exists b, inv l = Some b.
Proof.
  intros inv suf p p' l HF Hin. apply in_map_iff in Hin. destruct Hin as [[s m] [<- Hin]].
  eapply F2_la_lookup; eauto.
Qed.

Lemma product_closure : forall sgn i idd hermd js jop t4 w4 l4,
  product_terms sgn i idd hermd jop js = Ok (t4, w4, l4) ->
  forall st, In st t4 -> forall l, In l (labels_of st) -> exists e, In (l, e) w4.
Proof.
  intros sgn i idd hermd. induction js as [|[[f c] p] js IH]; intros jop t4 w4 l4 H st Hst l Hl.
  - simpl in H. inversion H; subst. contradiction.
  - cbn [product_terms] in H.
    bind_inv H. rename x into padj. bind_inv H. destruct x as [[pm jop'] lg1]. cbn [fst snd] in H.
    bind_inv H. rename x into pmt. bind_inv H. rename x into tw. bind_inv H. destruct x as [[tr0 wr] lr].
    cbn [fst snd] in H. injection H as Ht Hw4 Hl4. subst t4 w4 l4.
    apply local_action_F2 in E1.
    assert (Hpm : forall m, In m (map snd pm) -> exists e b, dget m jop' = Some e /\ mget e (j_sym i) = Some b).
    { intros m Hm. destruct (la_labels_l _ _ _ _ _ E1 Hm) as [b Hb].
      destruct (dget m jop') as [e|]; [|discriminate]. eauto. }
    destruct Hst as [<-|[<-|Hst]].
    + unfold labels_of in Hl. cbn [st_ket st_bra map] in Hl. rewrite app_nil_r in Hl.
      destruct (Hpm _ Hl) as [e [b [He _]]]. exists e. apply in_or_app. left. apply dget_In. exact He.
    + unfold labels_of in Hl. cbn [st_ket st_bra map app] in Hl.
      destruct (la_labels _ _ _ _ _ E1 Hl) as [m [b [Hm [Hb ->]]]].
      destruct (dget m jop') as [e|] eqn:Em; [|discriminate].
      destruct b.
      * exists e. apply in_or_app. left. apply dget_In. exact Em.
      * destruct (transpose_writes_In _ _ _ E2 m e (dget_In _ _ _ Em)) as [b' [Hb' Hin]].
        rewrite Hb in Hb'. inversion Hb'; subst b'. exists (MT e).
        apply in_or_app. right. apply in_or_app. left. auto.
    + destruct (IH _ _ _ _ E3 st Hst l Hl) as [e He]. exists e.
      apply in_or_app. right. apply in_or_app. now right.
Qed.

Lemma closure_struct : forall sgn i g,
  generate_struct sgn i = Ok g ->
  forall st, In st (g_terms g) -> forall l, In l (labels_of st) -> exists e, In (l, e) (g_writes g).
Proof.
  intros sgn i g Hgen st Hst l Hl. unfold generate_struct in Hgen.
  bind_inv Hgen. rename x into t2. bind_inv Hgen. rename x into t3.
  bind_inv Hgen. destruct x as [[t4 w4] l4]. cbn [fst snd] in Hgen. injection Hgen as Hg. subst g.
  cbn [g_terms g_writes] in *.
  apply ham_bra_terms_F2 in E. apply jump_terms_F2 in E0.
  assert (Hh : forall t l0, In t (h_terms i) -> In l0 (map snd (snd t)) -> exists b, In (l0, b) (h_conv i)).
  { intros t l0 Ht Hl0. destruct (Forall2_In_l _ _ _ _ E Ht) as [st' [_ [_ [_ [_ Hla]]]]].
    apply local_action_F2 in Hla. destruct (la_labels_l _ _ _ _ _ Hla Hl0) as [b Hb].
    exists b. apply dget_In. exact Hb. }
  assert (Hj : forall t l0, In t (map deal (j_ops i)) -> In l0 (map snd (snd t)) -> exists fl, In (l0, fl) (j_dict i)).
  { intros t l0 Ht Hl0. destruct (Forall2_In_l _ _ _ _ E0 Ht) as [st' [_ [_ [_ [_ Hla]]]]].
    apply local_action_F2 in Hla. destruct (la_labels_l _ _ _ _ _ Hla Hl0) as [b Hb].
    rewrite dget_map_snd in Hb. destruct (dget l0 (j_dict i)) as [fl|] eqn:El; [|discriminate].
    exists fl. apply dget_In. exact El. }
  apply in_app_or in Hst. destruct Hst as [Hst|Hst].
  - (* Hamiltonian, ket copy *)
    unfold ham_ket_terms in Hst. apply in_map_iff in Hst. destruct Hst as [[[f c] p] [<- Ht]].
    unfold labels_of in Hl. cbn [st_ket st_bra map] in Hl. rewrite app_nil_r in Hl.
    destruct (Hh _ _ Ht Hl) as [b Hb]. exists (MBase SHam l). apply in_or_app. left. eapply in_base_writes; eauto.
  - apply in_app_or in Hst. destruct Hst as [Hst|Hst].
    + (* Hamiltonian, bra copy *)
      destruct (Forall2_In_r _ _ _ _ E Hst) as [t [Ht [_ [_ [Hk Hla]]]]].
      unfold labels_of in Hl. rewrite Hk in Hl. cbn [map app] in Hl.
      apply local_action_F2 in Hla. destruct (la_labels _ _ _ _ _ Hla Hl) as [m [b [Hm [Hb ->]]]].
      apply dget_In in Hb. destruct b.
      * exists (MBase SHam m). apply in_or_app. left. eapply in_base_writes; eauto.
      * exists (MT (MBase SHam m)). apply in_or_app. right. apply in_or_app. left. apply in_ham_T_writes. exact Hb.
    + apply in_app_or in Hst. destruct Hst as [Hst|Hst].
      * (* jump terms *)
        destruct (Forall2_In_r _ _ _ _ E0 Hst) as [t [Ht [_ [_ [Hk Hla]]]]].
        unfold labels_of in Hl. rewrite Hk in Hl. apply in_app_or in Hl. destruct Hl as [Hl|Hl].
        -- destruct (Hj _ _ Ht Hl) as [fl Hfl]. exists (MBase SJump l).
           apply in_or_app. right. apply in_or_app. right. apply in_or_app. right. apply in_or_app. left.
           eapply in_base_writes; eauto.
        -- apply local_action_F2 in Hla. destruct (la_labels _ _ _ _ _ Hla Hl) as [m [b [Hm [Hb ->]]]].
           rewrite dget_map_snd in Hb. destruct (dget m (j_dict i)) as [fl|] eqn:El; [|discriminate].
           simpl in Hb. inversion Hb; subst b. apply dget_In in El. destruct (f_real fl) eqn:Er.
           ++ exists (MBase SJump m).
              apply in_or_app. right. apply in_or_app. right. apply in_or_app. right. apply in_or_app. left.
              eapply in_base_writes; eauto.
           ++ exists (MConj (MBase SJump m)).
              apply in_or_app. right. apply in_or_app. right. apply in_or_app. left.
              eapply in_conj_writes; eauto.
      * (* products *)
        destruct (product_closure _ _ _ _ _ _ _ _ _ E1 st Hst l Hl) as [e He]. exists e.
        apply in_or_app. right. apply in_or_app. right. apply in_or_app. right. apply in_or_app. now right.
Qed.

(* every operator label of a generated term is a key of the generated conversion dictionary *)
Theorem label_closure : forall sgn i ts conv co,
  generate sgn i = Ok (ts, conv, co) ->
  forall t, In t ts -> forall k l, In (k, l) (snd t) -> dmem l conv = true.
Proof.
  intros sgn i ts conv co H t Ht k l Hkl. unfold generate in H. bind_inv H. rename x into g.
  injection H as Hts Hconv Hco. subst ts conv co.
  apply in_map_iff in Ht. destruct Ht as [st [<- Hst]]. unfold render in Hkl. cbn [snd] in Hkl.
  assert (Hl : In l (labels_of st)).
  { unfold labels_of. apply in_app_or in Hkl. apply in_or_app.
    destruct Hkl as [Hkl|Hkl]; [left|right]; unfold add_suffix in Hkl; apply in_map_iff in Hkl;
      destruct Hkl as [[s m] [Hm Hin]]; simpl in Hm; inversion Hm; subst; apply in_map_iff; exists (s, l); auto. }
  destruct (closure_struct _ _ _ E st Hst l Hl) as [e He].
  destruct (dupdate_mem (g_writes g) [] l e He) as [v Hv]. unfold dmem. now rewrite Hv.
Qed.

(* every coefficient name of a generated term is a key of the generated coefficient mapping,
   provided the caller's mappings name the coefficients of the caller's terms *)
Lemma coef_closure_struct : forall sgn i g,
  generate_struct sgn i = Ok g ->
  (forall t, In t (h_terms i) -> In (snd (fst t)) (h_coeffs i)) ->
  (forall t, In t (map deal (j_ops i)) -> In (snd (fst t)) (j_coeffs i)) ->
  forall st, In st (g_terms g) -> exists e, In (st_coef st, e) (g_cwrites g).
Proof.
  intros sgn i g Hgen Hh Hj st Hst. unfold generate_struct in Hgen.
  bind_inv Hgen. rename x into t2. bind_inv Hgen. rename x into t3.
  bind_inv Hgen. destruct x as [[t4 w4] l4]. cbn [fst snd] in Hgen. injection Hgen as Hg. subst g.
  cbn [g_terms g_cwrites] in *.
  apply ham_bra_terms_F2 in E. apply jump_terms_F2 in E0.
  assert (Hjc : forall t, In t (map deal (j_ops i)) ->
            In ((snd (fst t) ++ "*j")%string, CI (CBase SJump (snd (fst t)))) (ham_cwrites (h_coeffs i) ++ jump_cwrites (j_coeffs i))).
  { intros t Ht. apply in_or_app. right. unfold jump_cwrites. apply in_map_iff. exists (snd (fst t)). auto. }
  assert (Hhc : forall t, In t (h_terms i) ->
            In (snd (fst t), CBase SHam (snd (fst t))) (ham_cwrites (h_coeffs i) ++ jump_cwrites (j_coeffs i))).
  { intros t Ht. apply in_or_app. left. right. apply in_map_iff. exists (snd (fst t)). auto. }
  apply in_app_or in Hst. destruct Hst as [Hst|Hst].
  - unfold ham_ket_terms in Hst. apply in_map_iff in Hst. destruct Hst as [[[f c] p] [<- Ht]].
    eexists. apply (Hhc _ Ht).
  - apply in_app_or in Hst. destruct Hst as [Hst|Hst].
    + destruct (Forall2_In_r _ _ _ _ E Hst) as [t [Ht [_ [Hc _]]]]. rewrite Hc. eexists. apply (Hhc _ Ht).
    + apply in_app_or in Hst. destruct Hst as [Hst|Hst].
      * destruct (Forall2_In_r _ _ _ _ E0 Hst) as [t [Ht [_ [Hc _]]]]. rewrite Hc. eexists. apply (Hjc _ Ht).
      * assert (G : forall js jop t4' w4' l4', product_terms sgn i (snd (init_jop (j_dict i)))
                      (map (fun kv => (fst kv, f_herm (snd kv))) (j_dict i)) jop js = Ok (t4', w4', l4') ->
                    forall st', In st' t4' -> exists t, In t js /\ st_coef st' = (snd (fst t) ++ "*j")%string).
        { clear. induction js as [|[[f c] p] js IH]; intros jop t4' w4' l4' H st' Hst'.
          - simpl in H. inversion H; subst. contradiction.
          - cbn [product_terms] in H.
            bind_inv H. bind_inv H. destruct x0 as [[pm jop'] lg1]. cbn [fst snd] in H.
            bind_inv H. bind_inv H. bind_inv H. destruct x2 as [[tr0 wr] lr].
            cbn [fst snd] in H. injection H as Ht Hw4 Hl4. subst t4' w4' l4'.
            destruct Hst' as [<-|[<-|Hst']].
            + exists (f, c, p). split; [now left|reflexivity].
            + exists (f, c, p). split; [now left|reflexivity].
            + destruct (IH _ _ _ _ E3 st' Hst') as [t [H1 H2]]. exists t. split; [now right|assumption]. }
        destruct (G _ _ _ _ _ E1 st Hst) as [t [Ht Hc]]. rewrite Hc. eexists. apply (Hjc _ Ht).
Qed.

(* ============================================================================================ *)
(* The abstract algebra                                                                          *)
(* ============================================================================================ *)
Section Laws.
  Variable A : alg.
  Local Notation C := (aC A).
  Local Notation M := (aM A).
  Local Notation L := (aL A).
  Local Notation "x +m y" := (madd A x y) (at level 50, left associativity).
  Local Notation "x *m y" := (mmul A x y) (at level 40, left associativity).
  Local Notation "-m x" := (mopp A x) (at level 35, right associativity).
  Local Notation "a 'o' x" := (smul A a x) (at level 39, right associativity).
  Local Notation "x +c y" := (cadd A x y) (at level 50, left associativity).
  Local Notation "x *c y" := (cmul A x y) (at level 40, left associativity).
  Local Notation "-c x" := (copp A x) (at level 35, right associativity).
  Local Notation "0m" := (m0 A).
  Local Notation "1m" := (m1 A).
  Local Notation "0c" := (c0 A).
  Local Notation "1c" := (c1 A).

  (* scalars: a commutative ring with i and an image of Q *)
  Hypothesis Cring : ring_theory 0c 1c (cadd A) (cmul A) (fun x y => x +c -c y) (copp A) eq.
  Hypothesis qC_proper : forall p q : Q, Qeq p q -> qC A p = qC A q.
  Hypothesis qC_add : forall p q, qC A (p + q)%Q = qC A p +c qC A q.
  Hypothesis qC_mul : forall p q, qC A (p * q)%Q = qC A p *c qC A q.
  Hypothesis qC_1 : qC A 1%Q = 1c.
  (* operators: an associative unital algebra over the scalars *)
  Hypothesis madd_assoc : forall x y z, x +m (y +m z) = (x +m y) +m z.
  Hypothesis madd_comm : forall x y, x +m y = y +m x.
  Hypothesis madd_0_l : forall x, 0m +m x = x.
  Hypothesis madd_opp_r : forall x, x +m -m x = 0m.
  Hypothesis mmul_assoc : forall x y z, x *m (y *m z) = (x *m y) *m z.
  Hypothesis mmul_1_l : forall x, 1m *m x = x.
  Hypothesis mmul_1_r : forall x, x *m 1m = x.
  Hypothesis mmul_add_l : forall x y z, x *m (y +m z) = x *m y +m x *m z.
  Hypothesis mmul_add_r : forall x y z, (x +m y) *m z = x *m z +m y *m z.
  Hypothesis smul_add_r : forall a x y, a o (x +m y) = a o x +m a o y.
  Hypothesis smul_add_l : forall a b x, (a +c b) o x = a o x +m b o x.
  Hypothesis smul_smul : forall a b x, a o (b o x) = (a *c b) o x.
  Hypothesis smul_1 : forall x, 1c o x = x.
  Hypothesis smul_mul_l : forall a x y, (a o x) *m y = a o (x *m y).
  Hypothesis smul_mul_r : forall a x y, x *m (a o y) = a o (x *m y).
  Hypothesis mopp_smul : forall x, -m x = (-c 1c) o x.
  (* transpose, entrywise conjugate, adjoint *)
  Hypothesis mT_mul : forall x y, mT A (x *m y) = mT A y *m mT A x.
  Hypothesis mT_1 : mT A 1m = 1m.
  Hypothesis mT_invol : forall x, mT A (mT A x) = x.
  Hypothesis mH_mul : forall x y, mH A (x *m y) = mH A y *m mH A x.
  Hypothesis mH_1 : mH A 1m = 1m.
  Hypothesis mH_invol : forall x, mH A (mH A x) = x.
  Hypothesis mT_conj : forall x, mT A (mconj A x) = mH A x.
  (* trace *)
  Hypothesis tr_add : forall x y, tr A (x +m y) = tr A x +c tr A y.
  Hypothesis tr_smul : forall a x, tr A (a o x) = a *c tr A x.
  Hypothesis tr_cyc : forall x y, tr A (x *m y) = tr A (y *m x).
  (* single-site operators inside the whole system *)
  Hypothesis emb_mul : forall s a b, emb A s (lmul A a b) = emb A s a *m emb A s b.
  Hypothesis emb_1 : forall s, emb A s (l1 A) = 1m.
  Hypothesis emb_T : forall s a, emb A s (lT A a) = mT A (emb A s a).
  Hypothesis emb_conj : forall s a, emb A s (lconj A a) = mconj A (emb A s a).
  Hypothesis emb_H : forall s a, emb A s (lH A a) = mH A (emb A s a).
  Hypothesis emb_comm : forall s t a b, s <> t -> emb A s a *m emb A t b = emb A t b *m emb A s a.

  Add Ring CR : Cring.

  (* ---- derived facts -------------------------------------------------------------------- *)
  Lemma madd_0_r : forall x, x +m 0m = x.
  Proof. intros. rewrite madd_comm. apply madd_0_l. Qed.

  Lemma madd_cancel_idem : forall x, x +m x = x -> x = 0m.
  Proof.
    intros x H. transitivity ((x +m x) +m -m x).
    - rewrite <- madd_assoc, madd_opp_r, madd_0_r. reflexivity.
    - rewrite H. apply madd_opp_r.
  Qed.

  Lemma smul_0_r : forall a, a o 0m = 0m.
  Proof. intros. apply madd_cancel_idem. rewrite <- smul_add_r. now rewrite madd_0_l. Qed.

  Lemma mmul_0_l : forall x, 0m *m x = 0m.
  Proof. intros. apply madd_cancel_idem. rewrite <- mmul_add_r. now rewrite madd_0_l. Qed.

  Lemma mmul_0_r : forall x, x *m 0m = 0m.
  Proof. intros. apply madd_cancel_idem. rewrite <- mmul_add_l. now rewrite madd_0_l. Qed.

  Lemma qC_opp : forall q, qC A (- q)%Q = -c qC A q.
  Proof.
    intros q. assert (H : qC A (- q)%Q +c qC A q = 0c +c 0c).
    { rewrite <- qC_add. rewrite (qC_proper (- q + q)%Q (0 + 0)%Q) by ring. rewrite qC_add.
      assert (Z : qC A 0%Q = 0c).
      { assert (Z2 : qC A 0%Q +c qC A 0%Q = qC A 0%Q) by (rewrite <- qC_add; apply qC_proper; ring).
        transitivity ((qC A 0%Q +c qC A 0%Q) +c -c qC A 0%Q); [ring|rewrite Z2; ring]. }
      now rewrite Z. }
    transitivity ((qC A (- q)%Q +c qC A q) +c -c qC A q); [ring|rewrite H; ring].
  Qed.

  Lemma qC_half2 : qC A (1 # 2) +c qC A (1 # 2) = 1c.
  Proof. rewrite <- qC_add. rewrite <- qC_1. apply qC_proper. reflexivity. Qed.

  (* sums *)
  Local Notation msum := (msum A).

  Lemma msum_cons : forall x xs, msum (x :: xs) = x +m msum xs.
  Proof. reflexivity. Qed.

  Lemma msum_app : forall xs ys, msum (xs ++ ys) = msum xs +m msum ys.
  Proof.
    induction xs; simpl; intros; [now rewrite madd_0_l|]. rewrite IHxs. apply madd_assoc.
  Qed.

  Lemma msum_map_add : forall {T} (f g : T -> M) l,
    msum (map (fun t => f t +m g t) l) = msum (map f l) +m msum (map g l).
  Proof.
    induction l; simpl; [now rewrite madd_0_l|]. rewrite IHl.
    rewrite !madd_assoc. f_equal. rewrite <- !madd_assoc. f_equal. apply madd_comm.
  Qed.

  Lemma msum_mul_r : forall xs r, msum xs *m r = msum (map (fun x => x *m r) xs).
  Proof. induction xs; simpl; intros; [apply mmul_0_l|]. now rewrite mmul_add_r, IHxs. Qed.

  Lemma msum_mul_l : forall xs r, r *m msum xs = msum (map (fun x => r *m x) xs).
  Proof. induction xs; simpl; intros; [apply mmul_0_r|]. now rewrite mmul_add_l, IHxs. Qed.

  Lemma msum_smul : forall a xs, a o msum xs = msum (map (fun x => a o x) xs).
  Proof. induction xs; simpl; [apply smul_0_r|]. now rewrite smul_add_r, IHxs. Qed.

  Lemma msum_ext : forall {T} (f g : T -> M) l, (forall t, In t l -> f t = g t) -> msum (map f l) = msum (map g l).
  Proof.
    induction l; simpl; intros H; [reflexivity|]. rewrite H by now left. f_equal. apply IHl. intros; apply H; now right.
  Qed.

  (* products of pairwise commuting factors *)
  Definition prodM (xs : list M) : M := fold_right (mmul A) 1m xs.
  Definition comm (x y : M) : Prop := x *m y = y *m x.

  Lemma prodM_app : forall xs ys, prodM (xs ++ ys) = prodM xs *m prodM ys.
  Proof.
    induction xs; simpl; intros; [now rewrite mmul_1_l|]. rewrite IHxs. apply mmul_assoc.
  Qed.

  Lemma comm_prod : forall z xs, Forall (comm z) xs -> comm z (prodM xs).
  Proof.
    unfold comm. induction 1; simpl; [now rewrite mmul_1_l, mmul_1_r|].
    rewrite mmul_assoc, H, <- mmul_assoc, IHForall. apply mmul_assoc.
  Qed.

  Lemma prodM_rev : forall xs, ForallOrdPairs comm xs -> prodM (rev xs) = prodM xs.
  Proof.
    induction 1; simpl; [reflexivity|].
    rewrite prodM_app, IHForallOrdPairs. simpl. rewrite mmul_1_r.
    symmetry. apply comm_prod. assumption.
  Qed.

  Lemma mT_prod : forall xs, mT A (prodM xs) = prodM (rev (map (mT A) xs)).
  Proof.
    induction xs; simpl; [apply mT_1|]. rewrite mT_mul, IHxs, prodM_app. simpl. now rewrite mmul_1_r.
  Qed.

  Lemma mH_prod : forall xs, mH A (prodM xs) = prodM (rev (map (mH A) xs)).
  Proof.
    induction xs; simpl; [apply mH_1|]. rewrite mH_mul, IHxs, prodM_app. simpl. now rewrite mmul_1_r.
  Qed.

  (* prod (x_i y_i) = prod x_i * prod y_i when every y_i commutes with the later x_j *)
  Lemma prodM_zip : forall ps : list (M * M),
    ForallOrdPairs (fun p q => comm (snd p) (fst q)) ps ->
    prodM (map (fun p => fst p *m snd p) ps) = prodM (map fst ps) *m prodM (map snd ps).
  Proof.
    induction 1 as [|[x y] ps Hx Hps IH]; simpl; [now rewrite mmul_1_l|].
    rewrite IH. rewrite <- !mmul_assoc. f_equal. rewrite !mmul_assoc. f_equal.
    apply comm_prod. apply Forall_map. assumption.
  Qed.

  (* ---- tensor products as operators -------------------------------------------------------- *)
  Local Notation tpval := (tpval A).
  Definition factors (vl : label -> L) (t : tp) : list M :=
    map (fun kv => emb A (fst kv) (vl (snd kv))) t.

  Lemma tpval_prod : forall vl t, tpval vl t = prodM (factors vl t).
  Proof. induction t; simpl; [reflexivity|]. now rewrite IHt. Qed.

  Lemma tpval_ext : forall v v' t, (forall s l, In (s, l) t -> v l = v' l) -> tpval v t = tpval v' t.
  Proof.
    induction t as [|[s l] t IH]; simpl; intros H; [reflexivity|].
    rewrite (H s l) by now left. f_equal. apply IH. intros; eapply H; right; eauto.
  Qed.

  Lemma FOP_map : forall {X Y} (R : Y -> Y -> Prop) (f : X -> Y) l,
    ForallOrdPairs (fun a b => R (f a) (f b)) l -> ForallOrdPairs R (map f l).
  Proof.
    induction 1; simpl; constructor; auto. apply Forall_map. assumption.
  Qed.

  Lemma FOP_impl : forall {X} (R R' : X -> X -> Prop) l,
    (forall a b, R a b -> R' a b) -> ForallOrdPairs R l -> ForallOrdPairs R' l.
  Proof.
    intros X R R' l H. induction 1 as [|a l Ha Hl IH]; constructor; [|exact IH].
    eapply Forall_impl; [|exact Ha]. intros b. apply H.
  Qed.

  Lemma NoDup_FOP : forall {X} (t : list (string * X)),
    NoDup (map fst t) -> ForallOrdPairs (fun a b => fst a <> fst b) t.
  Proof.
    induction t as [|[s x] t IH]; simpl; intros H; constructor.
    - inversion H; subst. apply Forall_forall. intros [s' x'] Hin. simpl. intros ->.
      apply H2. apply in_map_iff. exists (s', x'). auto.
    - apply IH. now inversion H.
  Qed.

  (* factors over distinct sites commute, whatever the local operators are *)
  Lemma sites_comm : forall {X} (f g : string * X -> M) (t : list (string * X)),
    NoDup (map fst t) ->
    (forall a b, fst a <> fst b -> comm (f a) (g b)) ->
    ForallOrdPairs (fun a b => comm (f a) (g b)) t.
  Proof.
    intros X f g t Hnd H. eapply FOP_impl; [|apply NoDup_FOP; eassumption]. auto.
  Qed.

  (* the bra copy of a transposed tensor product *)
  Lemma tpval_T : forall (v v' : label -> L) (p p' : tp),
    NoDup (map fst p) ->
    Forall2 (fun kv kv' => fst kv' = fst kv /\ v' (snd kv') = lT A (v (snd kv))) p p' ->
    mT A (tpval v' p') = tpval v p.
  Proof.
    intros v v' p p' Hnd HF.
    assert (E : factors v' p' = map (mT A) (factors v p)).
    { clear Hnd. induction HF as [|[s l] [s' l'] p p' [H1 H2] HF IH]; simpl in *; [reflexivity|].
      subst s'. rewrite H2, emb_T, IH. reflexivity. }
    rewrite !tpval_prod, E, mT_prod, map_map.
    rewrite (map_ext _ (fun x => x)) by (intros; apply mT_invol). rewrite map_id.
    apply prodM_rev. unfold factors. apply FOP_map.
    apply sites_comm; [assumption|]. intros a b Hab. apply emb_comm. assumption.
  Qed.

  (* the bra copy of a conjugated tensor product *)
  Lemma tpval_conj_T : forall (v v' : label -> L) (p p' : tp),
    Forall2 (fun kv kv' => fst kv' = fst kv /\ v' (snd kv') = lconj A (v (snd kv))) p p' ->
    mT A (tpval v' p') = mH A (tpval v p).
  Proof.
    intros v v' p p' HF.
    assert (E : factors v' p' = map (mconj A) (factors v p)).
    { induction HF as [|[s l] [s' l'] p p' [H1 H2] HF IH]; simpl in *; [reflexivity|].
      subst s'. rewrite H2, emb_conj, IH. reflexivity. }
    rewrite !tpval_prod, E, mT_prod, mH_prod, !map_map.
    f_equal. f_equal. apply map_ext. intros. apply mT_conj.
  Qed.

  (* L^dagger L of a tensor product, site by site *)
  Lemma tpval_LdL : forall (v v' : label -> L) (p p' : tp),
    NoDup (map fst p) ->
    Forall2 (fun kv kv' => fst kv' = fst kv /\
               emb A (fst kv) (v' (snd kv')) = mH A (emb A (fst kv) (v (snd kv))) *m emb A (fst kv) (v (snd kv))) p p' ->
    tpval v' p' = mH A (tpval v p) *m tpval v p.
  Proof.
    intros v v' p p' Hnd HF.
    set (F := fun kv : string * label => emb A (fst kv) (v (snd kv))).
    assert (E : factors v' p' = map (fun pr => fst pr *m snd pr) (map (fun kv => (mH A (F kv), F kv)) p)).
    { clear Hnd. induction HF as [|[s l] [s' l'] p p' [H1 H2] HF IH]; simpl in *; [reflexivity|].
      subst s'. rewrite H2, IH. reflexivity. }
    rewrite !tpval_prod, E, prodM_zip.
    - rewrite !map_map. simpl. f_equal.
      change (factors v p) with (map F p).
      rewrite mH_prod, map_map. symmetry. apply prodM_rev. apply FOP_map.
      apply sites_comm; [assumption|]. intros a b Hab. unfold F, comm.
      rewrite <- !emb_H. apply emb_comm. assumption.
    - apply FOP_map. simpl. apply sites_comm; [assumption|]. intros a b Hab. unfold F, comm.
      rewrite <- !emb_H. apply emb_comm. assumption.
  Qed.


  (* ---- denotation of the generated terms ------------------------------------------------- *)
  Section Den.
  Variables (hval jval : label -> L) (hcoef jcoef : cname -> C).
  Variable val : label -> L.
  Variable cval : cname -> C.
  Variable rho : M.
  Local Notation meval := (meval A hval jval).
  Local Notation ceval := (ceval A hcoef jcoef).
  Local Notation denote := (denote A val cval).
  Local Notation denote_all := (denote_all A val cval).
  Local Notation msub := (msub A).
  Local Notation ham_op := (ham_op A hval hcoef).

  Lemma denote_ket_only : forall f c p,
    denote {| st_frac := f; st_coef := c; st_ket := p; st_bra := [] |} rho
    = (qC A f *c cval c) o (tpval val p *m rho).
  Proof. intros. unfold Sym.denote. simpl. now rewrite mT_1, mmul_1_r. Qed.

  Lemma denote_bra_only : forall f c p,
    denote {| st_frac := f; st_coef := c; st_ket := []; st_bra := p |} rho
    = (qC A f *c cval c) o (rho *m mT A (tpval val p)).
  Proof. intros. unfold Sym.denote. simpl. now rewrite mmul_1_l. Qed.

  Lemma denote_all_app : forall xs ys, denote_all (xs ++ ys) rho = denote_all xs rho +m denote_all ys rho.
  Proof. intros. unfold Sym.denote_all. rewrite map_app. apply msum_app. Qed.

  Lemma qC_neg1 : forall f, qC A (-1 * f)%Q = -c 1c *c qC A f.
  Proof.
    intros f. rewrite (qC_proper (-1 * f)%Q (- f)%Q) by ring. rewrite qC_opp. ring.
  Qed.

  (* -- Hamiltonian part -- *)
  Definition ket_of (t : term) : sterm :=
    let '(f, c, p) := t in {| st_frac := f; st_coef := c; st_ket := p; st_bra := [] |}.

  Section HamPart.
    Variable symd : dict bool.
    Variable ts : list term.
    Hypothesis Hnd : forall t, In t ts -> NoDup (map fst (snd t)).
    Hypothesis Hlab : forall t s l b, In t ts -> In (s, l) (snd t) -> dget l symd = Some b ->
      val l = hval l /\ (b = true -> lT A (hval l) = hval l) /\
      (b = false -> val (l ++ "_T")%string = lT A (hval l)).
    Hypothesis Hco : forall t, In t ts -> cval (snd (fst t)) = hcoef (snd (fst t)).

    Lemma ham_ket_sum : forall ts', incl ts' ts -> (forall t, In t ts' -> exists st, bra_rel symd t st) ->
      denote_all (map ket_of ts') rho
      = msum (map (fun t : term => (qC A (fst (fst t)) *c hcoef (snd (fst t))) o (tpval hval (snd t) *m rho)) ts').
    Proof.
      induction ts' as [|[[f c] p] r IH]; intros Hin Hbra; [reflexivity|].
      unfold Sym.denote_all in *. simpl map. simpl msum. rewrite IH.
      - f_equal. rewrite denote_ket_only. simpl.
        assert (I0 : In (f, c, p) ts) by (apply Hin; now left).
        pose proof (Hco _ I0) as Hc0. simpl in Hc0. rewrite Hc0. f_equal. f_equal.
        apply tpval_ext. intros s l Hsl.
        destruct (Hbra (f, c, p)) as [st [_ [_ [_ Hla]]]]; [now left|]. simpl in Hla.
        apply local_action_F2 in Hla.
        destruct (F2_la_lookup _ _ _ _ s l Hla Hsl) as [b Hb].
        destruct (Hlab (f, c, p) s l b I0 Hsl Hb) as [H1 _]. exact H1.
      - intros t Ht. apply Hin. now right.
      - intros t Ht. apply Hbra. now right.
    Qed.

    Lemma ham_bra_sum : forall ts' t2, incl ts' ts -> Forall2 (bra_rel symd) ts' t2 ->
      denote_all t2 rho
      = msum (map (fun t : term => (qC A (-1 * fst (fst t))%Q *c hcoef (snd (fst t))) o (rho *m tpval hval (snd t))) ts').
    Proof.
      intros ts' t2 Hin HF. induction HF as [|[[f c] p] st r r2 [Hf [Hc [Hk Hla]]] HF IH]; [reflexivity|].
      unfold Sym.denote_all in *. simpl map. simpl msum. rewrite IH by (intros t Ht; apply Hin; now right).
      f_equal. destruct st as [sf sc sk sb]. simpl in *. subst sf sc sk.
      rewrite denote_bra_only.
      assert (I0 : In (f, c, p) ts) by (apply Hin; now left).
      pose proof (Hco _ I0) as Hc0. simpl in Hc0. rewrite Hc0. f_equal. f_equal.
      apply local_action_F2 in Hla.
      apply (tpval_T hval val p sb); [apply (Hnd _ I0)|].
      eapply F2_impl_In; [exact Hla|].
      intros [s l] [s' l'] Hsl [H1 [b [Hb H2]]]. simpl in *. split; [exact H1|]. subst l'.
      destruct (Hlab (f, c, p) s l b I0 Hsl Hb) as [Hv [Ht Hf]].
      destruct b; [rewrite Hv; symmetry; auto|auto].
    Qed.

    Lemma ham_algebra :
      msub (ham_op ts *m rho) (rho *m ham_op ts)
      = msum (map (fun t : term => (qC A (fst (fst t)) *c hcoef (snd (fst t))) o (tpval hval (snd t) *m rho)) ts)
        +m msum (map (fun t : term => (qC A (-1 * fst (fst t))%Q *c hcoef (snd (fst t))) o (rho *m tpval hval (snd t))) ts).
    Proof.
      unfold Sym.msub, Sym.ham_op. f_equal.
      - rewrite msum_mul_r, map_map. apply msum_ext. intros t _. apply smul_mul_l.
      - rewrite mopp_smul, msum_mul_l, msum_smul, !map_map. apply msum_ext. intros t _.
        rewrite smul_mul_r, smul_smul. f_equal. rewrite qC_neg1. ring.
    Qed.

    Lemma ham_part : forall t2, Forall2 (bra_rel symd) ts t2 ->
      denote_all (map ket_of ts ++ t2) rho = msub (ham_op ts *m rho) (rho *m ham_op ts).
    Proof.
      intros t2 HF. rewrite denote_all_app, ham_algebra.
      rewrite (ham_bra_sum ts t2 (incl_refl _) HF). f_equal.
      apply ham_ket_sum; [apply incl_refl|].
      intros t Ht. clear - HF Ht. induction HF; [contradiction|]. destruct Ht as [<-|Ht]; eauto.
    Qed.
  End HamPart.


  (* -- jump operator terms L (x) conj L -- *)
  Section JumpPart.
    Variable reald : dict bool.
    Variable js : list term.
    Hypothesis Hlabj : forall t s l b, In t js -> In (s, l) (snd t) -> dget l reald = Some b ->
      val l = jval l /\ (b = true -> lconj A (jval l) = jval l) /\
      (b = false -> val (l ++ "_conj")%string = lconj A (jval l)).
    Hypothesis Hcoj : forall t, In t js ->
      cval (snd (fst t) ++ "*j")%string = ci A *c jcoef (snd (fst t)).

    Lemma jump_sum1 : forall js' t3, incl js' js -> Forall2 (jump_rel reald) js' t3 ->
      denote_all t3 rho
      = msum (map (fun t : term => (qC A (fst (fst t)) *c (ci A *c jcoef (snd (fst t))))
                                 o (tpval jval (snd t) *m rho *m mH A (tpval jval (snd t)))) js').
    Proof.
      intros js' t3 Hin HF. induction HF as [|[[f c] p] st r r2 [Hf [Hc [Hk Hla]]] HF IH]; [reflexivity|].
      unfold Sym.denote_all in *. simpl map. simpl msum. rewrite IH by (intros t Ht; apply Hin; now right).
      f_equal. destruct st as [sf sc sk sb]. simpl in *. subst sf sc sk.
      unfold Sym.denote. simpl.
      assert (I0 : In (f, c, p) js) by (apply Hin; now left).
      pose proof (Hcoj _ I0) as Hc0. simpl in Hc0. rewrite Hc0.
      apply local_action_F2 in Hla.
      f_equal. f_equal; [f_equal|].
      - apply tpval_ext. intros s l Hsl.
        destruct (F2_la_lookup _ _ _ _ s l Hla Hsl) as [b Hb].
        destruct (Hlabj (f, c, p) s l b I0 Hsl Hb) as [H1 _]. exact H1.
      - apply (tpval_conj_T jval val p sb).
        eapply F2_impl_In; [exact Hla|].
        intros [s l] [s' l'] Hsl [H1 [b [Hb H2]]]. simpl in *. split; [exact H1|]. subst l'.
        destruct (Hlabj (f, c, p) s l b I0 Hsl Hb) as [Hv [Ht Hf]].
        destruct b; [rewrite Hv; symmetry; auto|auto].
    Qed.
  End JumpPart.

  (* -- products L^dagger L on the ket copy and their transposes on the bra copy -- *)
  Section ProdPart.
    Variable i : input.
    Let jd := j_dict i.
    Let hermd : dict bool := map (fun kv => (fst kv, f_herm (snd kv))) jd.
    Let idd : dict bool := snd (init_jop jd).
    Hypothesis Hbase : forall X fl, In (X, fl) jd -> val X = jval X.
    Hypothesis Hadj : forall X fl, In (X, fl) jd -> f_id fl = false -> f_herm fl = false ->
      val (X ++ "_H")%string = lH A (jval X).
    Hypothesis Hherm_sound : forall X fl, In (X, fl) jd -> f_herm fl = true -> lH A (jval X) = jval X.
    Hypothesis Hid_sound : forall X fl, In (X, fl) jd -> f_id fl = true -> jval X = l1 A.
    Hypothesis Hid_herm : forall X fl, In (X, fl) jd -> f_id fl = true -> f_herm fl = true.
    Hypothesis Hsym_sound : forall e, mget e (j_sym i) = Some true -> lT A (meval e) = meval e.

    Lemma idd_true : forall k, dget k idd = Some true -> exists fl, dget k jd = Some fl /\ f_id fl = true.
    Proof.
      intros k H. unfold idd, init_jop in H.
      assert (G : forall l (st : dict mexp * dict bool),
                 dget k (snd (fold_left (fun (st : dict mexp * dict bool) (kv : string * jflags) =>
                     if negb (f_id (snd kv)) && negb (f_herm (snd kv))
                     then (dset (fst kv ++ "_H")%string (MH (MBase SJump (fst kv))) (fst st),
                           dset (fst kv ++ "_H")%string false (snd st))
                     else st) l st)) = Some true -> dget k (snd st) = Some true).
      { induction l as [|kv l IH]; simpl; intros st Hst; [exact Hst|].
        apply IH in Hst. destruct (negb (f_id (snd kv)) && negb (f_herm (snd kv))); [|exact Hst].
        simpl in Hst. apply dget_dset in Hst. destruct Hst as [[_ Hst]|Hst]; [discriminate|exact Hst]. }
      apply G in H. simpl in H. rewrite dget_map_snd in H.
      destruct (dget k jd) as [fl|]; simpl in H; [|discriminate]. exists fl. split; [reflexivity|congruence].
    Qed.

    Lemma hermd_get : forall X b, dget X hermd = Some b -> exists fl, dget X jd = Some fl /\ f_herm fl = b.
    Proof.
      intros X b H. unfold hermd in H. rewrite dget_map_snd in H.
      destruct (dget X jd) as [fl|]; simpl in H; [|discriminate]. exists fl. split; [reflexivity|congruence].
    Qed.

    Definition site_rel (kv kv' : string * label) : Prop :=
      fst kv' = fst kv /\
      emb A (fst kv) (val (snd kv')) = mH A (emb A (fst kv) (jval (snd kv))) *m emb A (fst kv) (jval (snd kv)).

    Lemma lookup_Ok : forall {V} k (d : dict V) v, lookup k d = Ok v -> dget k d = Some v.
    Proof. unfold lookup. intros V k d v H. destruct (dget k d); [now inversion H|discriminate]. Qed.

    Lemma multiply_loop_spec : forall (P : tp) psuf self,
      Forall2 (la_rel (fun l => dget l hermd) "_H") psuf self ->
      (forall s X, In (s, X) psuf -> dget s P = Some X) ->
      forall conv res conv' lg,
      multiply_loop self P idd conv = Ok (res, conv', lg) ->
      (forall k e, dget k conv = Some e -> val k = meval e) ->
      (forall k e, In (k, e) lg -> val k = meval e) ->
      (forall k e, dget k conv' = Some e -> val k = meval e) /\ Forall2 site_rel psuf res.
    Proof.
      intros P psuf self HF. induction HF as [|[s X] [s' oa] psuf self [H1 [b [Hb H2]]] HF IH];
        intros HP conv res conv' lg Hm Hinv Hlg.
      - simpl in Hm. inversion Hm; subst. split; [assumption|constructor].
      - simpl in H1, Hb, H2. subst s'. cbn [multiply_loop] in Hm.
        rewrite (HP s X (or_introl eq_refl)) in Hm.
        assert (HP' : forall s0 X0, In (s0, X0) psuf -> dget s0 P = Some X0) by (intros; apply HP; now right).
        destruct (hermd_get _ _ Hb) as [fl [Hfl Hhb]].
        pose proof (dget_In _ _ _ Hfl) as Ifl.
        pose proof (Hbase _ _ Ifl) as HvX.
        bind_inv Hm. apply lookup_Ok in E. destruct x as [|].
        + (* the adjoint factor is flagged as identity: the product is the other factor *)
          bind_inv Hm. destruct x as [[res0 conv0] lg0]. cbn [fst snd] in Hm. injection Hm as Hr Hc Hl. subst res conv' lg.
          destruct (IH HP' _ _ _ _ E0 Hinv Hlg) as [Hc' HF'].
          split; [exact Hc'|]. constructor; [|exact HF']. split; [reflexivity|]. cbn [fst snd].
          rewrite HvX.
          destruct (idd_true _ E) as [fl' [Hfl' Hid']]. pose proof (dget_In _ _ _ Hfl') as Ifl'.
          destruct b; simpl in H2; subst oa.
          * rewrite Hfl in Hfl'. inversion Hfl'; subst fl'.
            rewrite (Hid_sound _ _ Ifl Hid'), emb_1, mH_1, mmul_1_l. reflexivity.
          * assert (Hidf : f_id fl = false).
            { destruct (f_id fl) eqn:Ef; [|reflexivity]. rewrite (Hid_herm _ _ Ifl Ef) in Hhb. discriminate. }
            pose proof (Hadj _ _ Ifl Hidf Hhb) as HvH.
            rewrite (Hbase _ _ Ifl'), (Hid_sound _ _ Ifl' Hid') in HvH.
            assert (E1 : emb A s (jval X) = 1m).
            { rewrite <- (mH_invol (emb A s (jval X))), <- emb_H, <- HvH, emb_1. apply mH_1. }
            rewrite E1, mH_1, mmul_1_l. reflexivity.
        + bind_inv Hm. apply lookup_Ok in E0. destruct x as [|].
          * (* impossible: the factor is an identity but its adjoint is not *)
            exfalso. destruct (idd_true _ E0) as [fl' [Hfl' Hid']].
            rewrite Hfl in Hfl'. inversion Hfl'; subst fl'.
            rewrite (Hid_herm _ _ Ifl Hid') in Hhb. subst b. simpl in H2. subst oa. rewrite E in E0. discriminate.
          * bind_inv Hm. apply lookup_Ok in E1. bind_inv Hm. apply lookup_Ok in E2.
            bind_inv Hm. destruct x1 as [[res0 conv0] lg0]. cbn [fst snd] in Hm. injection Hm as Hr Hc Hl. subst res conv' lg.
            assert (Hlab : val ((oa ++ "_mult_") ++ X)%string = lmul A (val oa) (val X)).
            { rewrite (Hlg _ (MMul x x0)) by now left. simpl.
              rewrite <- (Hinv _ _ E1), <- (Hinv _ _ E2). reflexivity. }
            destruct (IH HP' _ _ _ _ E3) as [Hc' HF'].
            { intros k e Hk. apply dget_dset in Hk. destruct Hk as [[-> ->]|Hk]; [|auto].
              apply Hlg. now left. }
            { intros k e Hk. apply Hlg. now right. }
            split; [exact Hc'|]. constructor; [|exact HF']. split; [reflexivity|]. cbn [fst snd].
            rewrite Hlab, emb_mul, HvX. f_equal.
            destruct b; simpl in H2.
            -- subst oa. rewrite HvX. rewrite <- emb_H, (Hherm_sound _ _ Ifl Hhb). reflexivity.
            -- assert (Hidf : f_id fl = false).
               { destruct (f_id fl) eqn:Ef; [|reflexivity]. rewrite (Hid_herm _ _ Ifl Ef) in Hhb. discriminate. }
               subst oa. rewrite (Hadj _ _ Ifl Hidf Hhb). apply emb_H.
    Qed.


    Lemma In_keys_dmem : forall {V} (d : dict V) k, In k (map fst d) -> dmem k d = true.
    Proof.
      intros V d k H. apply in_map_iff in H. destruct H as [[k' v] [<- H]].
      destruct (In_dget_some _ _ _ H) as [v' Hv]. unfold dmem. simpl. now rewrite Hv.
    Qed.

    Lemma multiply_spec : forall p padj jop pm jop' lg,
      NoDup (map fst p) ->
      Forall2 (la_rel (fun l => dget l hermd) "_H") p padj ->
      multiply padj p idd jop = Ok (pm, jop', lg) ->
      (forall k e, dget k jop = Some e -> val k = meval e) ->
      (forall k e, In (k, e) lg -> val k = meval e) ->
      (forall k e, dget k jop' = Some e -> val k = meval e) /\ Forall2 site_rel p pm.
    Proof.
      intros p padj jop pm jop' lg Hnd HF Hm Hinv Hlg. unfold multiply in Hm.
      bind_inv Hm. destruct x as [[res c'] l0]. cbn [fst snd] in Hm. injection Hm as Hr Hc Hl. subst c' l0.
      destruct (multiply_loop_spec p p padj HF (fun s X => In_dget_NoDup p s X Hnd) _ _ _ _ E Hinv Hlg) as [Hc' HF'].
      split; [exact Hc'|].
      assert (Hk : map fst res = map fst p).
      { eapply F2_fst; [exact HF'|]. intros a b [H _]. exact H. }
      assert (Hnoop : forall (other acc : tp), (forall kv, In kv other -> dmem (fst kv) acc = true) ->
                fold_left (fun a kv => if dmem (fst kv) a then a else (a ++ [kv])%list) other acc = acc).
      { clear. induction other as [|kv other IH]; simpl; intros acc H; [reflexivity|].
        rewrite (H kv) by now left. apply IH. intros; apply H; now right. }
      rewrite Hnoop in Hr; [subst pm; exact HF'|].
      intros kv Hkv. apply In_keys_dmem. rewrite Hk. apply in_map. exact Hkv.
    Qed.

    Definition prod_summand (sgn : bool) (t : term) : M :=
      let f := fst (fst t) in
      let g := ci A *c jcoef (snd (fst t)) in
      let Lk := tpval jval (snd t) in
      let LL := mH A Lk *m Lk in
      (qC A (-1 * f / 2)%Q *c g) o (LL *m rho)
      +m (qC A (if sgn then (-1 * (-1 * f / 2))%Q else (-1 * f / 2)%Q) *c g) o (rho *m LL).

    Lemma product_sum : forall sgn js jop t4 w4 l4,
      product_terms sgn i idd hermd jop js = Ok (t4, w4, l4) ->
      (forall t, In t js -> NoDup (map fst (snd t))) ->
      (forall t, In t js -> cval (snd (fst t) ++ "*j")%string = ci A *c jcoef (snd (fst t))) ->
      (forall k e, dget k jop = Some e -> val k = meval e) ->
      (forall k e, In (k, e) w4 -> val k = meval e) ->
      (forall k e, In (k, e) l4 -> val k = meval e) ->
      denote_all t4 rho = msum (map (prod_summand sgn) js).
    Proof.
      intros sgn. induction js as [|[[f c] p] js IH]; intros jop t4 w4 l4 H Hnd Hco Hinv Hw Hl.
      - simpl in H. inversion H. reflexivity.
      - cbn [product_terms] in H.
        bind_inv H. rename x into padj. bind_inv H. destruct x as [[pm jop'] lg1]. cbn [fst snd] in H.
        bind_inv H. rename x into pmt. bind_inv H. rename x into tw. bind_inv H. destruct x as [[tr0 wr] lr].
        cbn [fst snd] in H. injection H as Ht Hw4 Hl4. subst t4 w4 l4.
        assert (I0 : In (f, c, p) ((f, c, p) :: js)) by now left.
        pose proof (Hnd _ I0) as Hndp. cbn [snd] in Hndp.
        apply local_action_F2 in E.
        destruct (multiply_spec p padj jop pm jop' lg1 Hndp E E0 Hinv) as [Hinv' HF'].
        { intros k e Hk. apply Hl. apply in_or_app. now left. }
        unfold Sym.denote_all in *. cbn [map]. rewrite !msum_cons.
        rewrite (IH jop' tr0 wr lr E3).
        + rewrite madd_assoc. f_equal. unfold prod_summand. cbn [fst snd].
          rewrite denote_ket_only, denote_bra_only.
          pose proof (Hco _ I0) as Hc0. cbn [fst snd] in Hc0. rewrite Hc0.
          assert (EL : tpval val pm = mH A (tpval jval p) *m tpval jval p).
          { apply tpval_LdL; [exact Hndp|]. exact HF'. }
          assert (ET : mT A (tpval val pmt) = tpval val pm).
          { apply local_action_F2 in E1. apply tpval_T.
            - erewrite F2_fst; [exact Hndp|exact HF'|]. intros a b [Hab _]. exact Hab.
            - eapply F2_impl_In; [exact E1|].
              intros [s m] [s' m'] Hsm [H1 [b [Hb H2]]]. cbn [fst snd] in *. split; [exact H1|]. subst m'.
              destruct (dget m jop') as [e|] eqn:Em; [|discriminate].
              destruct b; cbv iota.
              + rewrite (Hinv' _ _ Em). symmetry. apply Hsym_sound. exact Hb.
              + destruct (transpose_writes_In _ _ _ E2 m e (dget_In _ _ _ Em)) as [b' [Hb' Hin]].
                rewrite Hb in Hb'. inversion Hb'; subst b'.
                rewrite (Hw _ (MT e)); [cbn [Sym.meval]; rewrite (Hinv' _ _ Em); reflexivity|].
                apply in_or_app. right. apply in_or_app. left. auto. }
          rewrite ET, EL. destruct sgn; reflexivity.
        + intros t Ht. apply Hnd. now right.
        + intros t Ht. apply Hco. now right.
        + exact Hinv'.
        + intros k e Hk. apply Hw. apply in_or_app. right. apply in_or_app. now right.
        + intros k e Hk. apply Hl. apply in_or_app. now right.
    Qed.

    Lemma init_jop_entries : forall k e, dget k (fst (init_jop jd)) = Some e ->
      In (k, e) (base_writes SJump jd) \/ In (k, e) (adj_writes jd).
    Proof.
      intros k e H. unfold init_jop in H.
      assert (G : forall l (st : dict mexp * dict bool),
                 dget k (fst (fold_left (fun (st : dict mexp * dict bool) (kv : string * jflags) =>
                     if negb (f_id (snd kv)) && negb (f_herm (snd kv))
                     then (dset (fst kv ++ "_H")%string (MH (MBase SJump (fst kv))) (fst st),
                           dset (fst kv ++ "_H")%string false (snd st))
                     else st) l st)) = Some e -> dget k (fst st) = Some e \/ In (k, e) (adj_writes l)).
      { induction l as [|kv l IHl]; simpl; intros st Hst; [now left|].
        apply IHl in Hst. unfold adj_writes. simpl.
        destruct (negb (f_id (snd kv)) && negb (f_herm (snd kv))).
        - destruct Hst as [Hst|Hst]; [|right; apply in_or_app; now right].
          simpl in Hst. apply dget_dset in Hst. destruct Hst as [[-> ->]|Hst]; [right; now left|now left].
        - destruct Hst as [Hst|Hst]; [now left|right; exact Hst]. }
      apply G in H. destruct H as [H|H]; [left|now right].
      simpl in H. apply dget_In in H. exact H.
    Qed.
  End ProdPart.

  (* -- the algebra of one dissipator -- *)
  Lemma qC_half_neg : forall f, qC A (-1 * f / 2)%Q = -c 1c *c (qC A f *c qC A (1 # 2)).
  Proof.
    intros f. rewrite (qC_proper (-1 * f / 2)%Q (- (f * (1 # 2)))%Q).
    - rewrite qC_opp, qC_mul. ring.
    - unfold Qdiv. change (Qinv 2%Q) with (1 # 2)%Q. ring.
  Qed.

  Lemma qC_half_pos : forall f, qC A (-1 * (-1 * f / 2))%Q = qC A f *c qC A (1 # 2).
  Proof.
    intros f. rewrite (qC_proper (-1 * (-1 * f / 2))%Q (f * (1 # 2))%Q).
    - apply qC_mul.
    - unfold Qdiv. change (Qinv 2%Q) with (1 # 2)%Q. ring.
  Qed.

  Lemma dissipator_algebra : forall (sgn : bool) (f : Q) (g : C) (Lk : M),
    (qC A f *c (ci A *c g)) o (Lk *m rho *m mH A Lk)
    +m ((qC A (-1 * f / 2)%Q *c (ci A *c g)) o (mH A Lk *m Lk *m rho)
        +m (qC A (if sgn then (-1 * (-1 * f / 2))%Q else (-1 * f / 2)%Q) *c (ci A *c g)) o (rho *m (mH A Lk *m Lk)))
    = ci A o ((qC A f *c g) o dissipator A sgn Lk rho).
  Proof.
    intros sgn f g Lk. unfold dissipator, Sym.msub.
    destruct sgn.
    - rewrite qC_half_neg, qC_half_pos.
      rewrite !mopp_smul, !smul_add_r, !smul_smul, madd_assoc.
      f_equal; [f_equal|]; f_equal; ring.
    - rewrite qC_half_neg.
      rewrite !mopp_smul, !smul_add_r, !smul_smul, madd_assoc.
      f_equal; [f_equal|]; f_equal; ring.
  Qed.


  (* ---- the generated term list denotes the Lindblad right-hand side ----------------------- *)
  Theorem denote_generate : forall (sgn : bool) (i : input) (g : gen),
    let js := map deal (j_ops i) in
    generate_struct sgn i = Ok g ->
    (* the identifiers of a tensor product (a dict) are distinct *)
    (forall t, In t (h_terms i) -> NoDup (map fst (snd t))) ->
    (forall t, In t js -> NoDup (map fst (snd t))) ->
    (* every coefficient name has a value *)
    (forall t, In t (h_terms i) -> In (snd (fst t)) (h_coeffs i)) ->
    (forall t, In t js -> In (snd (fst t)) (j_coeffs i)) ->
    (* soundness of the classifier flags *)
    (forall l, In (l, true) (h_conv i) -> lT A (hval l) = hval l) ->
    (forall X fl, In (X, fl) (j_dict i) -> f_real fl = true -> lconj A (jval X) = jval X) ->
    (forall X fl, In (X, fl) (j_dict i) -> f_herm fl = true -> lH A (jval X) = jval X) ->
    (forall X fl, In (X, fl) (j_dict i) -> f_id fl = true -> jval X = l1 A) ->
    (forall X fl, In (X, fl) (j_dict i) -> f_id fl = true -> f_herm fl = true) ->
    (forall e, mget e (j_sym i) = Some true -> lT A (meval e) = meval e) ->
    (* the valuation agrees with every assignment made to the dictionaries *)
    (forall l e, In (l, e) (g_log g) -> val l = meval e) ->
    (forall c e, In (c, e) (g_cwrites g) -> cval c = ceval e) ->
    denote_all (g_terms g) rho = lindblad_rhs A hval jval hcoef jcoef sgn (h_terms i) js rho.
  Proof.
    intros sgn i g js Hgen Hnd_h Hnd_j Hco_h Hco_j Hsym_h Hreal Hherm Hid Hid_herm Hsym_j Hval Hcval.
      unfold generate_struct in Hgen.
      bind_inv Hgen. rename x into t2. bind_inv Hgen. rename x into t3.
      bind_inv Hgen. destruct x as [[t4 w4] l4]. cbn [fst snd] in Hgen. injection Hgen as Hg. subst g.
      unfold g_log in Hval. cbn [g_terms g_writes g_cwrites g_jlog] in *.
      apply ham_bra_terms_F2 in E. apply jump_terms_F2 in E0.
      change (ham_ket_terms i) with (map ket_of (h_terms i)).
      rewrite app_assoc, denote_all_app. unfold lindblad_rhs. f_equal.
      - (* Hamiltonian *)
        apply (ham_part (h_conv i) (h_terms i)); [exact Hnd_h| |intros t Ht|exact E].
        + intros t s l b Ht Hsl Hb. apply dget_In in Hb.
          assert (Hv : val l = hval l).
          { apply (Hval l (MBase SHam l)). apply in_or_app. left. apply in_or_app. left.
            eapply in_base_writes; eauto. }
          split; [exact Hv|]. split.
          * intros ->. apply Hsym_h. exact Hb.
          * intros ->. apply (Hval _ (MT (MBase SHam l))). apply in_or_app. left.
            apply in_or_app. right. apply in_or_app. left. apply in_ham_T_writes. exact Hb.
        + apply (Hcval _ (CBase SHam (snd (fst t)))). right. apply in_or_app. left.
          apply in_map_iff. exists (snd (fst t)). split; [reflexivity|]. apply Hco_h. exact Ht.
      - (* jump operators *)
        assert (Hcoj : forall t, In t js -> cval (snd (fst t) ++ "*j")%string = ci A *c jcoef (snd (fst t))).
        { intros t Ht. apply (Hcval _ (CI (CBase SJump (snd (fst t))))). right. apply in_or_app. right.
          unfold jump_cwrites. apply in_map_iff. exists (snd (fst t)). split; [reflexivity|]. apply Hco_j. exact Ht. }
        assert (Hbase : forall X fl, In (X, fl) (j_dict i) -> val X = jval X).
        { intros X fl HX. apply (Hval X (MBase SJump X)). apply in_or_app. right. apply in_or_app. left.
          eapply in_base_writes; eauto. }
        assert (Hadj : forall X fl, In (X, fl) (j_dict i) -> f_id fl = false -> f_herm fl = false ->
                  val (X ++ "_H")%string = lH A (jval X)).
        { intros X fl HX H1 H2. apply (Hval _ (MH (MBase SJump X))). apply in_or_app. right.
          apply in_or_app. right. apply in_or_app. left. eapply in_adj_writes; eauto. }
        rewrite denote_all_app.
        rewrite (jump_sum1 (map (fun kv => (fst kv, f_real (snd kv))) (j_dict i)) js) with (js' := js) (t3 := t3);
          [|idtac|exact Hcoj|apply incl_refl|exact E0].
        + rewrite (product_sum i Hbase Hadj Hherm Hid Hid_herm Hsym_j sgn js _ t4 w4 l4 E1 Hnd_j Hcoj).
          * rewrite <- msum_map_add. unfold jump_sum. rewrite msum_smul, map_map.
            apply msum_ext. intros [[f c] p] _. unfold prod_summand. cbn [fst snd].
            apply dissipator_algebra.
          * intros k e Hk. destruct (init_jop_entries i k e Hk) as [H|H];
              apply Hval; apply in_or_app; right; apply in_or_app; [left|right; apply in_or_app; left]; exact H.
          * intros k e Hk. apply Hval. apply in_or_app. left.
            apply in_or_app. right. apply in_or_app. right. apply in_or_app. right. apply in_or_app. right. exact Hk.
          * intros k e Hk. apply Hval. apply in_or_app. right.
            apply in_or_app. right. apply in_or_app. right. exact Hk.
        + intros t s l b Ht Hsl Hb. rewrite dget_map_snd in Hb.
          destruct (dget l (j_dict i)) as [fl|] eqn:El; [|discriminate]. simpl in Hb. inversion Hb; subst b.
          apply dget_In in El. split; [eapply Hbase; eauto|]. split.
          * intros Hr. eapply Hreal; eauto.
          * intros Hr. apply (Hval _ (MConj (MBase SJump l))). apply in_or_app. left.
            apply in_or_app. right. apply in_or_app. right. apply in_or_app. left.
            eapply in_conj_writes; eauto.
    Qed.

  End Den.

  (* ---- the generated Lindbladian read through its own dictionaries ----------------------- *)
  Section Tables.
    Variables (hval jval : label -> L) (hcoef jcoef : cname -> C).
    Local Notation meval := (meval A hval jval).
    Local Notation ceval := (ceval A hcoef jcoef).

    Lemma denote_all_ext : forall v v' cv cv' ts rho,
      (forall st, In st ts -> forall l, In l (labels_of st) -> v l = v' l) ->
      (forall st, In st ts -> cv (st_coef st) = cv' (st_coef st)) ->
      denote_all A v cv ts rho = denote_all A v' cv' ts rho.
    Proof.
      intros v v' cv cv' ts rho Hv Hc. unfold denote_all. f_equal. apply map_ext_in. intros st Hst.
      unfold denote. rewrite (Hc st Hst).
      assert (Hk : tpval v (st_ket st) = tpval v' (st_ket st)).
      { apply tpval_ext. intros s l Hsl. apply (Hv st Hst). unfold labels_of. apply in_or_app. left.
        apply in_map_iff. exists (s, l). auto. }
      assert (Hb : tpval v (st_bra st) = tpval v' (st_bra st)).
      { apply tpval_ext. intros s l Hsl. apply (Hv st Hst). unfold labels_of. apply in_or_app. right.
        apply in_map_iff. exists (s, l). auto. }
      now rewrite Hk, Hb.
    Qed.

    (* a valuation that agrees with the final table and, outside it, with the assignment log *)
    Definition val_of (g : gen) (l : label) : L :=
      match dget l (dupdate [] (g_writes g)) with
      | Some e => meval e
      | None => match dget l (g_log g) with Some e => meval e | None => l1 A end
      end.
    Definition cval_of (g : gen) (c : cname) : C :=
      match dget c (dupdate [] (g_cwrites g)) with
      | Some e => ceval e
      | None => match dget c (g_cwrites g) with Some e => ceval e | None => 1c end
      end.

    Theorem denote_gen_rhs : forall (sgn : bool) (i : input) (g : gen) (rho : M),
      let js := map deal (j_ops i) in
      generate_struct sgn i = Ok g ->
      (forall t, In t (h_terms i) -> NoDup (map fst (snd t))) ->
      (forall t, In t js -> NoDup (map fst (snd t))) ->
      (forall t, In t (h_terms i) -> In (snd (fst t)) (h_coeffs i)) ->
      (forall t, In t js -> In (snd (fst t)) (j_coeffs i)) ->
      (forall l, In (l, true) (h_conv i) -> lT A (hval l) = hval l) ->
      (forall X fl, In (X, fl) (j_dict i) -> f_real fl = true -> lconj A (jval X) = jval X) ->
      (forall X fl, In (X, fl) (j_dict i) -> f_herm fl = true -> lH A (jval X) = jval X) ->
      (forall X fl, In (X, fl) (j_dict i) -> f_id fl = true -> jval X = l1 A) ->
      (forall X fl, In (X, fl) (j_dict i) -> f_id fl = true -> f_herm fl = true) ->
      (forall e, mget e (j_sym i) = Some true -> lT A (meval e) = meval e) ->
      (* no label (coefficient name) is assigned two different values *)
      (forall l e e', In (l, e) (g_log g) -> In (l, e') (g_log g) -> meval e = meval e') ->
      (forall c e e', In (c, e) (g_cwrites g) -> In (c, e') (g_cwrites g) -> ceval e = ceval e') ->
      denote_gen A hval jval hcoef jcoef g rho = lindblad_rhs A hval jval hcoef jcoef sgn (h_terms i) js rho.
    Proof.
      intros sgn i g rho js Hgen Hnd_h Hnd_j Hco_h Hco_j Hsym_h Hreal Hherm Hid Hid_herm Hsym_j Hfun Hcfun.
      subst js.
      rewrite <- (denote_generate hval jval hcoef jcoef (val_of g) (cval_of g) rho sgn i g Hgen
                   Hnd_h Hnd_j Hco_h Hco_j Hsym_h Hreal Hherm Hid Hid_herm Hsym_j).
      - unfold denote_gen. apply denote_all_ext.
        + intros st Hst l Hl. destruct (closure_struct _ _ _ Hgen st Hst l Hl) as [e He].
          destruct (dupdate_mem (g_writes g) [] l e He) as [v Hv].
          unfold table_val, val_of. now rewrite Hv.
        + intros st Hst. destruct (coef_closure_struct _ _ _ Hgen Hco_h Hco_j st Hst) as [e He].
          destruct (dupdate_mem (g_cwrites g) [] (st_coef st) e He) as [v Hv].
          unfold table_coef, cval_of. now rewrite Hv.
      - intros l e He. unfold val_of.
        destruct (dget l (dupdate [] (g_writes g))) as [e0|] eqn:E0.
        + apply dget_dupdate in E0. destruct E0 as [E0|E0]; [|discriminate].
          apply (Hfun l); [|exact He]. unfold g_log. apply in_or_app. now left.
        + destruct (In_dget_some _ _ _ He) as [e1 H1]. rewrite H1. apply dget_In in H1. now apply (Hfun l).
      - intros c e He. unfold cval_of.
        destruct (dget c (dupdate [] (g_cwrites g))) as [e0|] eqn:E0.
        + apply dget_dupdate in E0. destruct E0 as [E0|E0]; [|discriminate]. now apply (Hcfun c).
        + destruct (In_dget_some _ _ _ He) as [e1 H1]. rewrite H1. apply dget_In in H1. now apply (Hcfun c).
    Qed.
  End Tables.

  (* ---- trace ---------------------------------------------------------------------------- *)
  Lemma smul_0_l : forall x, 0c o x = 0m.
  Proof.
    intros. apply madd_cancel_idem. rewrite <- smul_add_l. f_equal. ring.
  Qed.

  Lemma tr_0 : tr A 0m = 0c.
  Proof. rewrite <- (smul_0_l 0m), tr_smul. ring. Qed.

  Lemma tr_opp : forall x, tr A (-m x) = -c tr A x.
  Proof. intros. rewrite mopp_smul, tr_smul. ring. Qed.

  Lemma tr_msum_zero : forall xs, (forall x, In x xs -> tr A x = 0c) -> tr A (msum xs) = 0c.
  Proof.
    induction xs; simpl; intros H; [apply tr_0|].
    rewrite tr_add, (H a) by now left. rewrite IHxs by (intros; apply H; now right). ring.
  Qed.

  Lemma dissipator_trace : forall Lk rho, tr A (dissipator A false Lk rho) = 0c.
  Proof.
    intros Lk rho. unfold dissipator, Sym.msub.
    rewrite !tr_add, !tr_opp, !tr_smul.
    rewrite (tr_cyc (Lk *m rho) (mH A Lk)), mmul_assoc.
    rewrite (tr_cyc rho (mH A Lk *m Lk)).
    set (t := tr A (mH A Lk *m Lk *m rho)). set (h := qC A (1 # 2)).
    transitivity (t *c (1c +c -c (h +c h))); [ring|]. unfold h. rewrite qC_half2. ring.
  Qed.

  (* the GKSL generator annihilates the trace: d/dt tr rho = 0 *)
  Theorem gksl_trace_zero : forall hval jval hcoef jcoef hs js rho,
    tr A (lindblad_rhs A hval jval hcoef jcoef false hs js rho) = 0c.
  Proof.
    intros. unfold lindblad_rhs, Sym.msub. rewrite !tr_add, tr_opp, tr_smul.
    rewrite (tr_cyc rho). unfold jump_sum. rewrite tr_msum_zero.
    - ring.
    - intros x Hx. apply in_map_iff in Hx. destruct Hx as [t [<- _]].
      rewrite tr_smul, dissipator_trace. ring.
  Qed.

  (* ---- the dense construction ----------------------------------------------------------- *)
  Lemma qC_neg_half : qC A (-1 # 2) = -c qC A (1 # 2).
  Proof. rewrite <- qC_opp. apply qC_proper. reflexivity. Qed.

  Lemma exact_terms_dissipator : forall (sgn : bool) (c k : C) (Lk rho : M),
    c *c c = k -> exact_terms A sgn c Lk rho = ci A o (k o dissipator A sgn Lk rho).
  Proof.
    intros sgn c k Lk rho <-. unfold exact_terms, dissipator, Sym.msub.
    destruct sgn; rewrite ?qC_neg_half, !mopp_smul, !smul_add_r, !smul_smul;
      (f_equal; [f_equal|]); f_equal; ring.
  Qed.

  (* symbolic and dense constructions agree under rate = (dense coefficient)^2 *)
  Theorem symbolic_eq_dense : forall hval jval hcoef jcoef (sgn : bool) hs js (cls : list (C * M)) rho,
    Forall2 (fun (t : term) cl =>
               snd cl = tpval jval (snd t) /\
               fst cl *c fst cl = qC A (fst (fst t)) *c jcoef (snd (fst t))) js cls ->
    lindblad_rhs A hval jval hcoef jcoef sgn hs js rho
    = exact_lindbladian A sgn (ham_op A hval hcoef hs) cls rho.
  Proof.
    intros hval jval hcoef jcoef sgn hs js cls rho HF. unfold lindblad_rhs, exact_lindbladian. f_equal.
    unfold jump_sum. rewrite msum_smul, map_map.
    induction HF as [|[[f c] p] [cc Lk] js cls [H1 H2] HF IH]; [reflexivity|].
    cbn [map fst snd] in *. rewrite !msum_cons, IH. f_equal. subst Lk.
    symmetry. apply exact_terms_dissipator. exact H2.
  Qed.

End Laws.

(* ============================================================================================ *)
(* The instance Q(i): the laws hold, and the current sign is refuted on it                       *)
(* ============================================================================================ *)
Lemma G_eq : forall a b : G, fst a = fst b -> snd a = snd b -> a = b.
Proof. intros [a1 a2] [b1 b2]; simpl; intros; now subst. Qed.

Ltac g_ring := intros; repeat match goal with x : G |- _ => destruct x end;
  apply G_eq; unfold Gadd, Gmul, Gopp, Gconj, Gid, G0, G1, Gi; simpl; ring.

Lemma G_ring : ring_theory G0 G1 Gadd Gmul (fun x y => Gadd x (Gopp y)) Gopp eq.
Proof. constructor; g_ring. Qed.

Lemma Q2Qc_add : forall p q, Q2Qc (p + q) = (Q2Qc p + Q2Qc q)%Qc.
Proof.
  intros. unfold Qcplus. apply Q2Qc_eq_iff. simpl. now rewrite !Qred_correct.
Qed.

Lemma Q2Qc_mul : forall p q, Q2Qc (p * q) = (Q2Qc p * Q2Qc q)%Qc.
Proof.
  intros. unfold Qcmult. apply Q2Qc_eq_iff. simpl. now rewrite !Qred_correct.
Qed.

Lemma Gq_proper : forall p q : Q, Qeq p q -> Gq p = Gq q.
Proof. intros p q H. unfold Gq. f_equal. now apply Q2Qc_eq_iff. Qed.

Lemma Gq_add : forall p q, Gq (p + q) = Gadd (Gq p) (Gq q).
Proof. intros. unfold Gq, Gadd. simpl. rewrite Q2Qc_add. f_equal; try ring. Qed.

Lemma Gq_mul : forall p q, Gq (p * q) = Gmul (Gq p) (Gq q).
Proof. intros. unfold Gq, Gmul. simpl. rewrite Q2Qc_mul. f_equal; try ring. Qed.

(* the semantic theorem instantiated with Q(i): all hypotheses on the algebra are discharged *)
Theorem Galg_denote_gen_rhs : forall (hval jval : label -> G) (hcoef jcoef : cname -> G)
    (sgn : bool) (i : input) (g : gen) (rho : G),
  let js := map deal (j_ops i) in
  generate_struct sgn i = Ok g ->
  (forall t, In t (h_terms i) -> NoDup (map fst (snd t))) ->
  (forall t, In t js -> NoDup (map fst (snd t))) ->
  (forall t, In t (h_terms i) -> In (snd (fst t)) (h_coeffs i)) ->
  (forall t, In t js -> In (snd (fst t)) (j_coeffs i)) ->
  (forall X fl, In (X, fl) (j_dict i) -> f_real fl = true -> Gconj (jval X) = jval X) ->
  (forall X fl, In (X, fl) (j_dict i) -> f_herm fl = true -> Gconj (jval X) = jval X) ->
  (forall X fl, In (X, fl) (j_dict i) -> f_id fl = true -> jval X = G1) ->
  (forall X fl, In (X, fl) (j_dict i) -> f_id fl = true -> f_herm fl = true) ->
  (forall l e e', In (l, e) (g_log g) -> In (l, e') (g_log g) -> meval Galg hval jval e = meval Galg hval jval e') ->
  (forall c e e', In (c, e) (g_cwrites g) -> In (c, e') (g_cwrites g) -> ceval Galg hcoef jcoef e = ceval Galg hcoef jcoef e') ->
  denote_gen Galg hval jval hcoef jcoef g rho = lindblad_rhs Galg hval jval hcoef jcoef sgn (h_terms i) js rho.
Proof.
  intros hval jval hcoef jcoef sgn i g rho js Hgen H1 H2 H3 H4 H6 H7 H8 H9 H10 H11.
  apply (denote_gen_rhs Galg); try assumption; try exact G_ring; try exact Gq_proper; try exact Gq_add;
    try exact Gq_mul; try reflexivity.
  all: simpl; g_ring.
Qed.

(* the code as it stands (bug_sign = true) on the smallest input: one site of dimension 1, no
   Hamiltonian, L = 1, rate 1.  The generator applied to rho = 1 is i: its trace is not 0, so the
   generated superoperator is not trace preserving (and not the GKSL generator, which gives 0). *)
Lemma witness_value_current : G_apply true witness_input G1 = Some Gi.
Proof.
  unfold G_apply. vm_compute generate_struct. cbv iota.
  f_equal; try (apply G_eq; apply Qc_is_canon; vm_compute; reflexivity).
Qed.

Lemma witness_value_fixed : G_apply false witness_input G1 = Some G0.
Proof.
  unfold G_apply. vm_compute generate_struct. cbv iota.
  f_equal; try (apply G_eq; apply Qc_is_canon; vm_compute; reflexivity).
Qed.

Lemma Gi_neq_G0 : Gi <> G0.
Proof.
  intros H. apply (f_equal snd) in H. simpl in H. apply Q2Qc_eq_iff in H. discriminate H.
Qed.

Theorem gksl_refuted_current :
  exists (i : input) (g : gen),
    generate_struct true i = Ok g /\
    tr Galg (denote_gen Galg (fun _ => G1) (fun _ => G1) (fun _ => G1) (fun _ => G1) g (m1 Galg)) <> c0 Galg.
Proof.
  exists witness_input.
  pose proof witness_value_current as H. unfold G_apply in H.
  destruct (generate_struct true witness_input) as [g| |] eqn:E; try discriminate.
  exists g. split; [reflexivity|]. injection H as H. simpl. unfold Gid. rewrite H. exact Gi_neq_G0.
Qed.

(* ============================================================================================ *)
(* The theorems with bundled hypotheses                                                          *)
(* ============================================================================================ *)
Ltac use_laws HL := destruct HL; eauto.

Theorem lindblad_form : forall (A : alg), alg_laws A ->
  forall (hval jval : label -> aL A) (hcoef jcoef : cname -> aC A) (sgn : bool) (i : input) (g : gen) (rho : aM A),
  generate_struct sgn i = Ok g ->
  wf_input i -> sound_flags A hval jval i -> functional_tables A hval jval hcoef jcoef g ->
  denote_gen A hval jval hcoef jcoef g rho
  = lindblad_rhs A hval jval hcoef jcoef sgn (h_terms i) (map deal (j_ops i)) rho.
Proof.
  intros A HL hval jval hcoef jcoef sgn i g rho Hgen [W1 [W2 [W3 W4]]] [S1 [S2 [S3 [S4 [S5 S6]]]]] [F1 F2].
  destruct HL. apply (denote_gen_rhs A); assumption.
Qed.

(* the same for any valuation that agrees with the assignments (not only the table's own) *)
Theorem lindblad_form_val : forall (A : alg), alg_laws A ->
  forall (hval jval : label -> aL A) (hcoef jcoef : cname -> aC A) (val : label -> aL A) (cval : cname -> aC A)
         (sgn : bool) (i : input) (g : gen) (rho : aM A),
  generate_struct sgn i = Ok g ->
  wf_input i -> sound_flags A hval jval i ->
  (forall l e, In (l, e) (g_log g) -> val l = meval A hval jval e) ->
  (forall c e, In (c, e) (g_cwrites g) -> cval c = ceval A hcoef jcoef e) ->
  denote_all A val cval (g_terms g) rho
  = lindblad_rhs A hval jval hcoef jcoef sgn (h_terms i) (map deal (j_ops i)) rho.
Proof.
  intros A HL hval jval hcoef jcoef val cval sgn i g rho Hgen [W1 [W2 [W3 W4]]] [S1 [S2 [S3 [S4 [S5 S6]]]]] F1 F2.
  destruct HL. apply (denote_generate A); assumption.
Qed.

Theorem gksl_form_fixed : forall (A : alg), alg_laws A ->
  forall (hval jval : label -> aL A) (hcoef jcoef : cname -> aC A) (i : input) (g : gen) (rho : aM A),
  generate_struct false i = Ok g ->
  wf_input i -> sound_flags A hval jval i -> functional_tables A hval jval hcoef jcoef g ->
  denote_gen A hval jval hcoef jcoef g rho
  = lindblad_rhs A hval jval hcoef jcoef false (h_terms i) (map deal (j_ops i)) rho.
Proof. intros. now apply lindblad_form. Qed.

Theorem gksl_trace_zero_laws : forall (A : alg), alg_laws A ->
  forall hval jval hcoef jcoef hs js rho,
  tr A (lindblad_rhs A hval jval hcoef jcoef false hs js rho) = c0 A.
Proof. intros A HL. destruct HL. apply (gksl_trace_zero A); assumption. Qed.

Theorem symbolic_eq_dense_laws : forall (A : alg), alg_laws A ->
  forall hval jval hcoef jcoef (sgn : bool) hs js (cls : list (aC A * aM A)) rho,
  Forall2 (fun (t : term) cl =>
             snd cl = tpval A jval (snd t) /\
             cmul A (fst cl) (fst cl) = cmul A (qC A (fst (fst t))) (jcoef (snd (fst t)))) js cls ->
  lindblad_rhs A hval jval hcoef jcoef sgn hs js rho
  = exact_lindbladian A sgn (ham_op A hval hcoef hs) cls rho.
Proof. intros A HL. destruct HL. apply (symbolic_eq_dense A); assumption. Qed.

Theorem Galg_laws : alg_laws Galg.
Proof.
  constructor; try exact G_ring; try exact Gq_proper; try exact Gq_add; try exact Gq_mul;
    try reflexivity; simpl; g_ring.
Qed.

(* the generated dictionaries do not depend on the sign variant *)
Lemma product_terms_sign : forall i idd hermd js jop t4 w4 l4,
  product_terms true i idd hermd jop js = Ok (t4, w4, l4) ->
  exists t4', product_terms false i idd hermd jop js = Ok (t4', w4, l4).
Proof.
  intros i idd hermd. induction js as [|[[f c] p] js IH]; intros jop t4 w4 l4 H.
  - simpl in H. inversion H; subst. eexists. reflexivity.
  - cbn [product_terms] in *.
    bind_inv H. bind_inv H. destruct x0 as [[pm jop'] lg1]. cbn [fst snd] in H.
    bind_inv H. bind_inv H. bind_inv H. destruct x2 as [[tr0 wr] lr].
    cbn [fst snd] in H. injection H as Ht Hw4 Hl4. subst t4 w4 l4.
    destruct (IH _ _ _ _ E3) as [t' Ht'].
    rewrite E. cbn [bind]. rewrite E0. cbn [bind fst snd]. rewrite E1. cbn [bind]. rewrite E2. cbn [bind].
    rewrite Ht'. cbn [bind fst snd]. eexists. reflexivity.
Qed.

Theorem dictionaries_sign_independent : forall i ts conv co,
  generate true i = Ok (ts, conv, co) -> exists ts', generate false i = Ok (ts', conv, co).
Proof.
  intros i ts conv co H. unfold generate in *. bind_inv H. injection H as H1 H2 H3. subst.
  unfold generate_struct in *. bind_inv E. bind_inv E. bind_inv E. destruct x2 as [[t4 w4] l4].
  injection E as Hg. subst x.
  destruct (product_terms_sign _ _ _ _ _ _ _ _ E2) as [t4' H4].
  rewrite E0. cbn [bind]. rewrite E1. cbn [bind]. rewrite H4. cbn [bind fst snd g_terms g_writes g_cwrites].
  eexists. reflexivity.
Qed.

(* with the GKSL sign the generated superoperator annihilates the trace *)
Theorem generated_trace_zero_fixed : forall (A : alg), alg_laws A ->
  forall (hval jval : label -> aL A) (hcoef jcoef : cname -> aC A) (i : input) (g : gen) (rho : aM A),
  generate_struct false i = Ok g ->
  wf_input i -> sound_flags A hval jval i -> functional_tables A hval jval hcoef jcoef g ->
  tr A (denote_gen A hval jval hcoef jcoef g rho) = c0 A.
Proof.
  intros. rewrite (gksl_form_fixed A H hval jval hcoef jcoef i g rho) by assumption.
  now apply gksl_trace_zero_laws.
Qed.

(* coefficient names of the rendered terms are keys of the rendered coefficient mapping *)
Theorem coeff_closure : forall sgn i ts conv co,
  generate sgn i = Ok (ts, conv, co) -> wf_input i ->
  forall t, In t ts -> dmem (snd (fst t)) co = true.
Proof.
  intros sgn i ts conv co H [_ [_ [W3 W4]]] t Ht. unfold generate in H. bind_inv H. rename x into g.
  injection H as Hts Hconv Hco. subst ts conv co.
  apply in_map_iff in Ht. destruct Ht as [st [<- Hst]]. unfold render. cbn [fst snd].
  destruct (coef_closure_struct _ _ _ E W3 W4 st Hst) as [e He].
  destruct (dupdate_mem (g_cwrites g) [] _ e He) as [v Hv]. unfold dmem. now rewrite Hv.
Qed.

(* lindblad_rhs with the GKSL sign, written out *)
Lemma rhs_is_gksl : forall (A : alg) hval jval hcoef jcoef hs js rho,
  lindblad_rhs A hval jval hcoef jcoef false hs js rho
  = let H := ham_op A hval hcoef hs in
    let half := qC A (1 # 2) in
    madd A (madd A (mmul A H rho) (mopp A (mmul A rho H)))
      (smul A (ci A)
         (msum A (map (fun t : term =>
            let gamma := cmul A (qC A (fst (fst t))) (jcoef (snd (fst t))) in
            let Lk := tpval A jval (snd t) in
            let LdL := mmul A (mH A Lk) Lk in
            smul A gamma
              (madd A (madd A (mmul A (mmul A Lk rho) (mH A Lk))
                              (mopp A (smul A half (mmul A LdL rho))))
                      (mopp A (smul A half (mmul A rho LdL))))) js))).
Proof. reflexivity. Qed.

(* the witness lies inside the domain of the semantic theorem *)
Lemma meval_const_G1 : forall e, meval Galg (fun _ => G1) (fun _ => G1) e = G1.
Proof.
  induction e as [[|] l|e IH|e IH|e IH|a IHa b IHb]; simpl; try reflexivity;
    rewrite ?IH, ?IHa, ?IHb; apply G_eq; apply Qc_is_canon; vm_compute; reflexivity.
Qed.

Theorem gksl_refuted_current_full :
  exists (i : input) (g : gen),
    generate_struct true i = Ok g /\
    wf_input i /\
    sound_flags Galg (fun _ => G1) (fun _ => G1) i /\
    functional_tables Galg (fun _ => G1) (fun _ => G1) (fun _ => G1) (fun _ => G1) g /\
    tr Galg (denote_gen Galg (fun _ => G1) (fun _ => G1) (fun _ => G1) (fun _ => G1) g (m1 Galg)) <> c0 Galg.
Proof.
  exists witness_input. eexists. split; [vm_compute; reflexivity|]. split; [|split; [|split]].
  - unfold wf_input. simpl. split; [intros t []|]. split; [|split; [intros t []|]].
    + intros t [<-|[]]. simpl. repeat constructor. simpl. tauto.
    + intros t [<-|[]]. simpl. auto.
  - unfold sound_flags. simpl. repeat split; try (intros; contradiction); intros;
      try (apply G_eq; apply Qc_is_canon; vm_compute; reflexivity); try reflexivity.
    destruct H as [H|[]]. inversion H; subst. reflexivity.
  - unfold functional_tables. split.
    + intros l e e' _ _. now rewrite !meval_const_G1.
    + intros c e e' H1 H2. simpl in H1, H2.
      destruct H1 as [H1|[H1|[H1|[]]]]; destruct H2 as [H2|[H2|[H2|[]]]];
        inversion H1; inversion H2; subst; try reflexivity; try discriminate.
  - change (Gi <> G0). exact Gi_neq_G0.
Qed.

(* ============================================================================================ *)
(* The computable freshness check implies functional_tables                                      *)
(* ============================================================================================ *)
Lemma erase_src_meval : forall (A : alg) (hval jval : label -> aL A),
  (forall l, hval l = jval l) ->
  forall e e', erase_src e = erase_src e' -> meval A hval jval e = meval A hval jval e'.
Proof.
  intros A hval jval Hs. induction e as [s l|e IH|e IH|e IH|a IHa b IHb]; destruct e' as [s' l'|e'|e'|e'|a' b'];
    simpl; intros H; try discriminate.
  - inversion H; subst. destruct s, s'; auto.
  - inversion H. f_equal. auto.
  - inversion H. f_equal. auto.
  - inversion H. f_equal. auto.
  - inversion H. f_equal; auto.
Qed.

Lemma cexp_eqb_ceval : forall (A : alg) (hcoef jcoef : cname -> aC A),
  hcoef "1"%string = c1 A ->
  forall e e', cexp_eqb e e' = true -> ceval A hcoef jcoef e = ceval A hcoef jcoef e'.
Proof.
  intros A hcoef jcoef H1. induction e as [|s c|e IH]; destruct e' as [|s' c'|e']; simpl; intros H;
    try discriminate; try reflexivity.
  - destruct s'; [|discriminate]. apply String.eqb_eq in H. subst. simpl. now rewrite H1.
  - destruct s; [|discriminate]. apply String.eqb_eq in H. subst. simpl. now rewrite H1.
  - destruct s, s'; simpl in H; try discriminate; apply String.eqb_eq in H; now subst.
  - destruct s; discriminate.
  - f_equal. auto.
Qed.

Theorem tables_check_sound : forall (A : alg) (hval jval : label -> aL A) (hcoef jcoef : cname -> aC A) sgn i g,
  generate_struct sgn i = Ok g -> tables_check sgn i = true ->
  (forall l, hval l = jval l) -> hcoef "1"%string = c1 A ->
  functional_tables A hval jval hcoef jcoef g.
Proof.
  intros A hval jval hcoef jcoef sgn i g Hg Hc Hs H1. unfold tables_check in Hc. rewrite Hg in Hc.
  apply andb_true_iff in Hc. destruct Hc as [Hm Hcc]. split.
  - intros l e e' He He'. unfold log_functional_syn in Hm.
    rewrite forallb_forall in Hm. specialize (Hm _ He). rewrite forallb_forall in Hm. specialize (Hm _ He').
    simpl in Hm. rewrite String.eqb_refl in Hm. simpl in Hm.
    apply erase_src_meval; [assumption|]. now apply mexp_eqb_eq.
  - intros c e e' He He'. unfold clog_functional_syn in Hcc.
    rewrite forallb_forall in Hcc. specialize (Hcc _ He). rewrite forallb_forall in Hcc. specialize (Hcc _ He').
    simpl in Hcc. rewrite String.eqb_refl in Hcc. simpl in Hcc.
    now apply cexp_eqb_ceval.
Qed.
