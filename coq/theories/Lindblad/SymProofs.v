(* Proofs about the model of generate_lindbladian (Sym.v). *)
From Coq Require Import String List Bool QArith Qcanon Ring Lia.
From PTN Require Import Lindblad.Sym.
Import ListNotations.
Local Close Scope Q_scope.

(* ============================================================================================ *)
(* Dictionaries                                                                                  *)
(* ============================================================================================ *)
Section DictLemmas.
  Context {V : Type}.
  Implicit Types (d : dict V) (k : string) (v : V).

  Lemma dget_In : forall d k v, dget k d = Some v -> In (k, v) d.
  Proof.
    induction d as [|[k' v'] r IH]; simpl; intros k v H; [discriminate|].
    destruct (String.eqb k k') eqn:E.
    - apply String.eqb_eq in E. inversion H; subst. now left.
    - right. now apply IH.
  Qed.

  Lemma In_dget_some : forall d k v, In (k, v) d -> exists v', dget k d = Some v'.
  Proof.
    induction d as [|[k' v'] r IH]; simpl; intros k v H; [contradiction|].
    destruct (String.eqb k k') eqn:E; [eauto|].
    destruct H as [H|H]; [inversion H; subst; rewrite String.eqb_refl in E; discriminate|].
    eapply IH; eauto.
  Qed.

  Lemma dget_dset_same : forall d k v, dget k (dset k v d) = Some v.
  Proof.
    induction d as [|[k' v'] r IH]; simpl; intros k v.
    - now rewrite String.eqb_refl.
    - destruct (String.eqb k k') eqn:E; simpl; rewrite E; auto.
  Qed.

  Lemma dget_dset_other : forall d k k' v, k <> k' -> dget k (dset k' v d) = dget k d.
  Proof.
    induction d as [|[k0 v0] r IH]; simpl; intros k k' v Hn.
    - destruct (String.eqb k k') eqn:E; [apply String.eqb_eq in E; contradiction|reflexivity].
    - destruct (String.eqb k' k0) eqn:E; simpl.
      + apply String.eqb_eq in E; subst k0.
        destruct (String.eqb k k') eqn:E2; [apply String.eqb_eq in E2; contradiction|reflexivity].
      + destruct (String.eqb k k0); auto.
  Qed.

  Lemma dget_dset : forall d k k' v v', dget k (dset k' v' d) = Some v -> (k = k' /\ v = v') \/ dget k d = Some v.
  Proof.
    intros d k k' v v' H. destruct (string_dec k k') as [->|Hn].
    - rewrite dget_dset_same in H. inversion H. now left.
    - rewrite dget_dset_other in H by assumption. now right.
  Qed.

  Lemma dget_dset_mono : forall d k k' v v', dget k d = Some v -> exists v0, dget k (dset k' v' d) = Some v0.
  Proof.
    intros d k k' v v' H. destruct (string_dec k k') as [->|Hn].
    - rewrite dget_dset_same. eauto.
    - rewrite dget_dset_other by assumption. eauto.
  Qed.

  (* d.update(ws): what can be read afterwards was in d or is one of the written pairs *)
  Lemma dget_dupdate : forall ws d k v, dget k (dupdate d ws) = Some v -> In (k, v) ws \/ dget k d = Some v.
  Proof.
    unfold dupdate. induction ws as [|[k' v'] ws IH]; simpl; intros d k v H; [now right|].
    apply IH in H. destruct H as [H|H]; [left; now right|].
    apply dget_dset in H. destruct H as [[-> ->]|H]; [left; now left|now right].
  Qed.

  Lemma dupdate_mono : forall ws d k v, dget k d = Some v -> exists v0, dget k (dupdate d ws) = Some v0.
  Proof.
    unfold dupdate. induction ws as [|[k' v'] ws IH]; simpl; intros d k v H; [eauto|].
    destruct (dget_dset_mono d k k' v v' H) as [v0 H0]. eapply IH; eauto.
  Qed.

  Lemma dupdate_mem : forall ws d k v, In (k, v) ws -> exists v0, dget k (dupdate d ws) = Some v0.
  Proof.
    unfold dupdate. induction ws as [|[k' v'] ws IH]; simpl; intros d k v H; [contradiction|].
    destruct H as [H|H].
    - inversion H; subst. eapply (dupdate_mono ws). apply dget_dset_same.
    - eapply IH; eauto.
  Qed.
End DictLemmas.

Lemma dget_map_snd : forall {V W} (f : V -> W) (d : dict V) k,
  dget k (map (fun kv => (fst kv, f (snd kv))) d) = option_map f (dget k d).
Proof.
  induction d as [|[k' v'] r IH]; simpl; intros k; [reflexivity|].
  destruct (String.eqb k k'); auto.
Qed.

Lemma mget_In : forall t e b, mget e t = Some b -> exists e', In (e', b) t /\ mexp_eqb e e' = true.
Proof.
  induction t as [|[e' b'] r IH]; simpl; intros e b H; [discriminate|].
  destruct (mexp_eqb e e') eqn:E.
  - inversion H; subst. exists e'. split; [now left|assumption].
  - destruct (IH _ _ H) as [e0 [H1 H2]]. exists e0. split; [now right|assumption].
Qed.

Lemma mexp_eqb_eq : forall a b, mexp_eqb a b = true -> a = b.
Proof.
  induction a; destruct b; simpl; intros H; try discriminate.
  - apply andb_true_iff in H. destruct H as [H1 H2]. apply String.eqb_eq in H2.
    destruct s, s0; simpl in H1; try discriminate; now subst.
  - f_equal; auto.
  - f_equal; auto.
  - f_equal; auto.
  - apply andb_true_iff in H. destruct H. f_equal; auto.
Qed.

(* ============================================================================================ *)
(* Structure of the generated pieces                                                             *)
(* ============================================================================================ *)
Lemma bind_Ok : forall {X Y} (r : result X) (f : X -> result Y) y,
  bind r f = Ok y -> exists x, r = Ok x /\ f x = Ok y.
Proof. intros X Y [x|k|] f y H; simpl in H; try discriminate. eauto. Qed.

Ltac bind_inv H :=
  let x := fresh "x" in let H1 := fresh "E" in
  apply bind_Ok in H; destruct H as [x [H1 H]].

Definition la_rel (inv : label -> option bool) (suf : string) (kv kv' : string * label) : Prop :=
  fst kv' = fst kv /\
  exists b, inv (snd kv) = Some b /\ snd kv' = if b then snd kv else (snd kv ++ suf)%string.

Lemma local_action_F2 : forall inv suf p p',
  local_action inv suf p = Ok p' -> Forall2 (la_rel inv suf) p p'.
Proof.
  induction p as [|[s l] r IH]; simpl; intros p' H.
  - inversion H. constructor.
  - destruct (inv l) as [b|] eqn:E; [|discriminate]. bind_inv H. inversion H; subst.
    constructor; [|auto]. split; [reflexivity|]. exists b. auto.
Qed.

Lemma F2_fst : forall {X Y} (R : string * X -> string * Y -> Prop) p p',
  Forall2 R p p' -> (forall a b, R a b -> fst b = fst a) -> map fst p' = map fst p.
Proof. induction 1; simpl; intros HR; [reflexivity|]. f_equal; auto. Qed.

Definition bra_rel (symd : dict bool) (t : term) (st : sterm) : Prop :=
  st_frac st = (-1 * fst (fst t))%Q /\ st_coef st = snd (fst t) /\ st_ket st = [] /\
  local_action (fun l => dget l symd) "_T" (snd t) = Ok (st_bra st).

Lemma ham_bra_terms_F2 : forall symd ts t2,
  ham_bra_terms symd ts = Ok t2 -> Forall2 (bra_rel symd) ts t2.
Proof.
  induction ts as [|[[f c] p] r IH]; simpl; intros t2 H.
  - inversion H. constructor.
  - bind_inv H. bind_inv H. inversion H; subst. constructor; [|auto].
    repeat split; assumption.
Qed.

Definition jump_rel (reald : dict bool) (t : term) (st : sterm) : Prop :=
  st_frac st = fst (fst t) /\ st_coef st = (snd (fst t) ++ "*j")%string /\ st_ket st = snd t /\
  local_action (fun l => dget l reald) "_conj" (snd t) = Ok (st_bra st).

Lemma jump_terms_F2 : forall i reald js t3,
  jump_terms i reald js = Ok t3 -> Forall2 (jump_rel reald) js t3.
Proof.
  induction js as [|[[f c] p] r IH]; simpl; intros t3 H.
  - inversion H. constructor.
  - bind_inv H. bind_inv H. bind_inv H. inversion H; subst. constructor; [|auto].
    repeat split; assumption.
Qed.

Lemma transpose_writes_In : forall sym d tw,
  transpose_writes d sym = Ok tw ->
  forall k e, In (k, e) d -> exists b, sym e = Some b /\ (b = false -> In ((k ++ "_T")%string, MT e) tw).
Proof.
  unfold transpose_writes. induction d as [|[k0 e0] d IH]; simpl; intros tw H k e Hin; [contradiction|].
  bind_inv H. destruct (sym e0) as [[|]|] eqn:E0; try discriminate; inversion H; subst.
  - destruct Hin as [Hin|Hin].
    + inversion Hin; subst. exists true. split; [assumption|discriminate].
    + destruct (IH _ E k e Hin) as [b [H1 H2]]. exists b. auto.
  - destruct Hin as [Hin|Hin].
    + inversion Hin; subst. exists false. split; [assumption|]. intros _. now left.
    + destruct (IH _ E k e Hin) as [b [H1 H2]]. exists b. split; [assumption|]. intros Hb. right. auto.
Qed.

Lemma In_dget_NoDup : forall {V} (d : dict V) k v, NoDup (map fst d) -> In (k, v) d -> dget k d = Some v.
Proof.
  induction d as [|[k' v'] r IH]; simpl; intros k v Hnd Hin; [contradiction|].
  inversion Hnd; subst. destruct Hin as [Hin|Hin].
  - inversion Hin; subst. now rewrite String.eqb_refl.
  - destruct (String.eqb k k') eqn:E.
    + apply String.eqb_eq in E. subst k'. exfalso. apply H1. apply in_map_iff. exists (k, v). auto.
    + auto.
Qed.

(* ============================================================================================ *)
(* The abstract algebra                                                                          *)
(* ============================================================================================ *)
Section Laws.
  Variable A : alg.
  Local Notation C := (aC A).
  Local Notation M := (aM A).
  Local Notation L := (aL A).
  Local Notation "x +m y" := (madd A x y) (at level 50, left associativity).
  Local Notation "x *m y" := (mmul A x y) (at level 40, left associativity).
  Local Notation "-m x" := (mopp A x) (at level 35, right associativity).
  Local Notation "a 'o' x" := (smul A a x) (at level 39, right associativity).
  Local Notation "x +c y" := (cadd A x y) (at level 50, left associativity).
  Local Notation "x *c y" := (cmul A x y) (at level 40, left associativity).
  Local Notation "-c x" := (copp A x) (at level 35, right associativity).
  Local Notation "0m" := (m0 A).
  Local Notation "1m" := (m1 A).
  Local Notation "0c" := (c0 A).
  Local Notation "1c" := (c1 A).

  (* scalars: a commutative ring with i and an image of Q *)
  Hypothesis Cring : ring_theory 0c 1c (cadd A) (cmul A) (fun x y => x +c -c y) (copp A) eq.
  Hypothesis qC_proper : forall p q : Q, Qeq p q -> qC A p = qC A q.
  Hypothesis qC_add : forall p q, qC A (p + q)%Q = qC A p +c qC A q.
  Hypothesis qC_mul : forall p q, qC A (p * q)%Q = qC A p *c qC A q.
  Hypothesis qC_1 : qC A 1%Q = 1c.
  (* operators: an associative unital algebra over the scalars *)
  Hypothesis madd_assoc : forall x y z, x +m (y +m z) = (x +m y) +m z.
  Hypothesis madd_comm : forall x y, x +m y = y +m x.
  Hypothesis madd_0_l : forall x, 0m +m x = x.
  Hypothesis madd_opp_r : forall x, x +m -m x = 0m.
  Hypothesis mmul_assoc : forall x y z, x *m (y *m z) = (x *m y) *m z.
  Hypothesis mmul_1_l : forall x, 1m *m x = x.
  Hypothesis mmul_1_r : forall x, x *m 1m = x.
  Hypothesis mmul_add_l : forall x y z, x *m (y +m z) = x *m y +m x *m z.
  Hypothesis mmul_add_r : forall x y z, (x +m y) *m z = x *m z +m y *m z.
  Hypothesis smul_add_r : forall a x y, a o (x +m y) = a o x +m a o y.
  Hypothesis smul_add_l : forall a b x, (a +c b) o x = a o x +m b o x.
  Hypothesis smul_smul : forall a b x, a o (b o x) = (a *c b) o x.
  Hypothesis smul_1 : forall x, 1c o x = x.
  Hypothesis smul_mul_l : forall a x y, (a o x) *m y = a o (x *m y).
  Hypothesis smul_mul_r : forall a x y, x *m (a o y) = a o (x *m y).
  Hypothesis mopp_smul : forall x, -m x = (-c 1c) o x.
  (* transpose, entrywise conjugate, adjoint *)
  Hypothesis mT_mul : forall x y, mT A (x *m y) = mT A y *m mT A x.
  Hypothesis mT_1 : mT A 1m = 1m.
  Hypothesis mT_invol : forall x, mT A (mT A x) = x.
  Hypothesis mH_mul : forall x y, mH A (x *m y) = mH A y *m mH A x.
  Hypothesis mH_1 : mH A 1m = 1m.
  Hypothesis mH_invol : forall x, mH A (mH A x) = x.
  Hypothesis mT_conj : forall x, mT A (mconj A x) = mH A x.
  (* trace *)
  Hypothesis tr_add : forall x y, tr A (x +m y) = tr A x +c tr A y.
  Hypothesis tr_smul : forall a x, tr A (a o x) = a *c tr A x.
  Hypothesis tr_cyc : forall x y, tr A (x *m y) = tr A (y *m x).
  (* single-site operators inside the whole system *)
  Hypothesis emb_mul : forall s a b, emb A s (lmul A a b) = emb A s a *m emb A s b.
  Hypothesis emb_1 : forall s, emb A s (l1 A) = 1m.
  Hypothesis emb_T : forall s a, emb A s (lT A a) = mT A (emb A s a).
  Hypothesis emb_conj : forall s a, emb A s (lconj A a) = mconj A (emb A s a).
  Hypothesis emb_H : forall s a, emb A s (lH A a) = mH A (emb A s a).
  Hypothesis emb_comm : forall s t a b, s <> t -> emb A s a *m emb A t b = emb A t b *m emb A s a.

  Add Ring CR : Cring.

  (* ---- derived facts -------------------------------------------------------------------- *)
  Lemma madd_0_r : forall x, x +m 0m = x.
  Proof. intros. rewrite madd_comm. apply madd_0_l. Qed.

  Lemma madd_cancel_idem : forall x, x +m x = x -> x = 0m.
  Proof.
    intros x H. transitivity ((x +m x) +m -m x).
    - rewrite <- madd_assoc, madd_opp_r, madd_0_r. reflexivity.
    - rewrite H. apply madd_opp_r.
  Qed.

  Lemma smul_0_r : forall a, a o 0m = 0m.
  Proof. intros. apply madd_cancel_idem. rewrite <- smul_add_r. now rewrite madd_0_l. Qed.

  Lemma mmul_0_l : forall x, 0m *m x = 0m.
  Proof. intros. apply madd_cancel_idem. rewrite <- mmul_add_r. now rewrite madd_0_l. Qed.

  Lemma mmul_0_r : forall x, x *m 0m = 0m.
  Proof. intros. apply madd_cancel_idem. rewrite <- mmul_add_l. now rewrite madd_0_l. Qed.

  Lemma qC_opp : forall q, qC A (- q)%Q = -c qC A q.
  Proof.
    intros q. assert (H : qC A (- q)%Q +c qC A q = 0c +c 0c).
    { rewrite <- qC_add. rewrite (qC_proper (- q + q)%Q (0 + 0)%Q) by ring. rewrite qC_add.
      assert (Z : qC A 0%Q = 0c).
      { assert (Z2 : qC A 0%Q +c qC A 0%Q = qC A 0%Q) by (rewrite <- qC_add; apply qC_proper; ring).
        transitivity ((qC A 0%Q +c qC A 0%Q) +c -c qC A 0%Q); [ring|rewrite Z2; ring]. }
      now rewrite Z. }
    transitivity ((qC A (- q)%Q +c qC A q) +c -c qC A q); [ring|rewrite H; ring].
  Qed.

  Lemma qC_half2 : qC A (1 # 2) +c qC A (1 # 2) = 1c.
  Proof. rewrite <- qC_add. rewrite <- qC_1. apply qC_proper. reflexivity. Qed.

  (* sums *)
  Local Notation msum := (msum A).

  Lemma msum_app : forall xs ys, msum (xs ++ ys) = msum xs +m msum ys.
  Proof.
    induction xs; simpl; intros; [now rewrite madd_0_l|]. rewrite IHxs. apply madd_assoc.
  Qed.

  Lemma msum_map_add : forall {T} (f g : T -> M) l,
    msum (map (fun t => f t +m g t) l) = msum (map f l) +m msum (map g l).
  Proof.
    induction l; simpl; [now rewrite madd_0_l|]. rewrite IHl.
    rewrite !madd_assoc. f_equal. rewrite <- !madd_assoc. f_equal. apply madd_comm.
  Qed.

  Lemma msum_mul_r : forall xs r, msum xs *m r = msum (map (fun x => x *m r) xs).
  Proof. induction xs; simpl; intros; [apply mmul_0_l|]. now rewrite mmul_add_r, IHxs. Qed.

  Lemma msum_mul_l : forall xs r, r *m msum xs = msum (map (fun x => r *m x) xs).
  Proof. induction xs; simpl; intros; [apply mmul_0_r|]. now rewrite mmul_add_l, IHxs. Qed.

  Lemma msum_smul : forall a xs, a o msum xs = msum (map (fun x => a o x) xs).
  Proof. induction xs; simpl; [apply smul_0_r|]. now rewrite smul_add_r, IHxs. Qed.

  Lemma msum_ext : forall {T} (f g : T -> M) l, (forall t, In t l -> f t = g t) -> msum (map f l) = msum (map g l).
  Proof.
    induction l; simpl; intros H; [reflexivity|]. rewrite H by now left. f_equal. apply IHl. intros; apply H; now right.
  Qed.

  (* products of pairwise commuting factors *)
  Definition prodM (xs : list M) : M := fold_right (mmul A) 1m xs.
  Definition comm (x y : M) : Prop := x *m y = y *m x.

  Lemma prodM_app : forall xs ys, prodM (xs ++ ys) = prodM xs *m prodM ys.
  Proof.
    induction xs; simpl; intros; [now rewrite mmul_1_l|]. rewrite IHxs. apply mmul_assoc.
  Qed.

  Lemma comm_prod : forall z xs, Forall (comm z) xs -> comm z (prodM xs).
  Proof.
    unfold comm. induction 1; simpl; [now rewrite mmul_1_l, mmul_1_r|].
    rewrite mmul_assoc, H, <- mmul_assoc, IHForall. apply mmul_assoc.
  Qed.

  Lemma prodM_rev : forall xs, ForallOrdPairs comm xs -> prodM (rev xs) = prodM xs.
  Proof.
    induction 1; simpl; [reflexivity|].
    rewrite prodM_app, IHForallOrdPairs. simpl. rewrite mmul_1_r.
    symmetry. apply comm_prod. assumption.
  Qed.

  Lemma mT_prod : forall xs, mT A (prodM xs) = prodM (rev (map (mT A) xs)).
  Proof.
    induction xs; simpl; [apply mT_1|]. rewrite mT_mul, IHxs, prodM_app. simpl. now rewrite mmul_1_r.
  Qed.

  Lemma mH_prod : forall xs, mH A (prodM xs) = prodM (rev (map (mH A) xs)).
  Proof.
    induction xs; simpl; [apply mH_1|]. rewrite mH_mul, IHxs, prodM_app. simpl. now rewrite mmul_1_r.
  Qed.

  (* prod (x_i y_i) = prod x_i * prod y_i when every y_i commutes with the later x_j *)
  Lemma prodM_zip : forall ps : list (M * M),
    ForallOrdPairs (fun p q => comm (snd p) (fst q)) ps ->
    prodM (map (fun p => fst p *m snd p) ps) = prodM (map fst ps) *m prodM (map snd ps).
  Proof.
    induction 1 as [|[x y] ps Hx Hps IH]; simpl; [now rewrite mmul_1_l|].
    rewrite IH. rewrite <- !mmul_assoc. f_equal. rewrite !mmul_assoc. f_equal.
    apply comm_prod. apply Forall_map. assumption.
  Qed.

  (* ---- tensor products as operators -------------------------------------------------------- *)
  Local Notation tpval := (tpval A).
  Definition factors (vl : label -> L) (t : tp) : list M :=
    map (fun kv => emb A (fst kv) (vl (snd kv))) t.

  Lemma tpval_prod : forall vl t, tpval vl t = prodM (factors vl t).
  Proof. induction t; simpl; [reflexivity|]. now rewrite IHt. Qed.

  Lemma tpval_ext : forall v v' t, (forall s l, In (s, l) t -> v l = v' l) -> tpval v t = tpval v' t.
  Proof.
    induction t as [|[s l] t IH]; simpl; intros H; [reflexivity|].
    rewrite (H s l) by now left. f_equal. apply IH. intros; eapply H; right; eauto.
  Qed.

  Lemma FOP_map : forall {X Y} (R : Y -> Y -> Prop) (f : X -> Y) l,
    ForallOrdPairs (fun a b => R (f a) (f b)) l -> ForallOrdPairs R (map f l).
  Proof.
    induction 1; simpl; constructor; auto. apply Forall_map. assumption.
  Qed.

  Lemma FOP_impl : forall {X} (R R' : X -> X -> Prop) l,
    (forall a b, R a b -> R' a b) -> ForallOrdPairs R l -> ForallOrdPairs R' l.
  Proof.
    intros X R R' l H. induction 1 as [|a l Ha Hl IH]; constructor; [|exact IH].
    eapply Forall_impl; [|exact Ha]. intros b. apply H.
  Qed.

  Lemma NoDup_FOP : forall {X} (t : list (string * X)),
    NoDup (map fst t) -> ForallOrdPairs (fun a b => fst a <> fst b) t.
  Proof.
    induction t as [|[s x] t IH]; simpl; intros H; constructor.
    - inversion H; subst. apply Forall_forall. intros [s' x'] Hin. simpl. intros ->.
      apply H2. apply in_map_iff. exists (s', x'). auto.
    - apply IH. now inversion H.
  Qed.

  (* factors over distinct sites commute, whatever the local operators are *)
  Lemma sites_comm : forall {X} (f g : string * X -> M) (t : list (string * X)),
    NoDup (map fst t) ->
    (forall a b, fst a <> fst b -> comm (f a) (g b)) ->
    ForallOrdPairs (fun a b => comm (f a) (g b)) t.
  Proof.
    intros X f g t Hnd H. eapply FOP_impl; [|apply NoDup_FOP; eassumption]. auto.
  Qed.

  (* the bra copy of a transposed tensor product *)
  Lemma tpval_T : forall (v v' : label -> L) (p p' : tp),
    NoDup (map fst p) ->
    Forall2 (fun kv kv' => fst kv' = fst kv /\ v' (snd kv') = lT A (v (snd kv))) p p' ->
    mT A (tpval v' p') = tpval v p.
  Proof.
    intros v v' p p' Hnd HF.
    assert (E : factors v' p' = map (mT A) (factors v p)).
    { clear Hnd. induction HF as [|[s l] [s' l'] p p' [H1 H2] HF IH]; simpl in *; [reflexivity|].
      subst s'. rewrite H2, emb_T, IH. reflexivity. }
    rewrite !tpval_prod, E, mT_prod, map_map.
    rewrite (map_ext _ (fun x => x)) by (intros; apply mT_invol). rewrite map_id.
    apply prodM_rev. unfold factors. apply FOP_map.
    apply sites_comm; [assumption|]. intros a b Hab. apply emb_comm. assumption.
  Qed.

  (* the bra copy of a conjugated tensor product *)
  Lemma tpval_conj_T : forall (v v' : label -> L) (p p' : tp),
    Forall2 (fun kv kv' => fst kv' = fst kv /\ v' (snd kv') = lconj A (v (snd kv))) p p' ->
    mT A (tpval v' p') = mH A (tpval v p).
  Proof.
    intros v v' p p' HF.
    assert (E : factors v' p' = map (mconj A) (factors v p)).
    { induction HF as [|[s l] [s' l'] p p' [H1 H2] HF IH]; simpl in *; [reflexivity|].
      subst s'. rewrite H2, emb_conj, IH. reflexivity. }
    rewrite !tpval_prod, E, mT_prod, mH_prod, !map_map.
    f_equal. f_equal. apply map_ext. intros. apply mT_conj.
  Qed.

  (* L^dagger L of a tensor product, site by site *)
  Lemma tpval_LdL : forall (v v' : label -> L) (p p' : tp),
    NoDup (map fst p) ->
    Forall2 (fun kv kv' => fst kv' = fst kv /\
               emb A (fst kv) (v' (snd kv')) = mH A (emb A (fst kv) (v (snd kv))) *m emb A (fst kv) (v (snd kv))) p p' ->
    tpval v' p' = mH A (tpval v p) *m tpval v p.
  Proof.
    intros v v' p p' Hnd HF.
    set (F := fun kv : string * label => emb A (fst kv) (v (snd kv))).
    assert (E : factors v' p' = map (fun pr => fst pr *m snd pr) (map (fun kv => (mH A (F kv), F kv)) p)).
    { clear Hnd. induction HF as [|[s l] [s' l'] p p' [H1 H2] HF IH]; simpl in *; [reflexivity|].
      subst s'. rewrite H2, IH. reflexivity. }
    rewrite !tpval_prod, E, prodM_zip.
    - rewrite !map_map. simpl. f_equal.
      change (factors v p) with (map F p).
      rewrite mH_prod, map_map. symmetry. apply prodM_rev. apply FOP_map.
      apply sites_comm; [assumption|]. intros a b Hab. unfold F, comm.
      rewrite <- !emb_H. apply emb_comm. assumption.
    - apply FOP_map. simpl. apply sites_comm; [assumption|]. intros a b Hab. unfold F, comm.
      rewrite <- !emb_H. apply emb_comm. assumption.
  Qed.

End Laws.
