From PTN Require Import Lindblad.Sym.
