(* C18, exact-evolution clause.  The model's `run` (Driver/Run.v) is parametric in the one-step map
   `step`.  Here `step` is instantiated with the action of an abstract one-step propagator
   E 1 = exp(-i H dt), where E m stands for exp(-i H (m dt)).  The hypotheses of the Section are the
   kernel contract `expm_spec` -- laws of the matrix exponential and of operator application, NOT
   statements about the code:
     E 0 = one,  E (m + n) = mul (E m) (E n),  act one s = s,  act (mul a b) s = act a (act b s).
   Under these, column j of the result array holds the measurement of act (E (j*k)) s0, i.e. of the
   state exp(-i H (j k dt)) psi_0, and the final state is exp(-i H (n dt)) psi_0. *)
From Coq Require Import List Arith Lia.
From PTN Require Import Driver.Run Driver.RunProofs.
Import ListNotations.

Section Exact.
  Variables (St V Op : Type).
  Variables (mul : Op -> Op -> Op) (one : Op) (act : Op -> St -> St).
  Variable E : nat -> Op.                       (* E m  ~  exp(-i H (m dt)) *)
  Variable measure : St -> V.

  Hypothesis E_0 : E 0 = one.
  Hypothesis E_add : forall m n, E (m + n) = mul (E m) (E n).
  Hypothesis act_one : forall s, act one s = s.
  Hypothesis act_mul : forall a b s, act (mul a b) s = act a (act b s).

  (* m applications of the one-step propagator are one application of the m-step propagator *)
  Lemma iter_exact : forall m s, iter St (act (E 1)) m s = act (E m) s.
  Proof.
    induction m as [|m IH]; intros s; cbn [iter].
    - rewrite E_0, act_one. reflexivity.
    - rewrite IH, <- act_mul, <- E_add. reflexivity.
  Qed.

  Theorem exact_state_every : forall (n k : nat) (s0 : St), 1 <= k ->
    run St V (act (E 1)) measure n (Every k) s0 =
    {| sys := act (E n) s0;
       cols := map (fun j => Some (measure (act (E (j * k)) s0), j * k)) (seq 0 (n / k + 1));
       err := false |}.
  Proof.
    intros n k s0 Hk. rewrite (run_every St V (act (E 1)) measure n k s0 Hk).
    rewrite iter_exact. f_equal. apply map_ext. intros j. rewrite iter_exact. reflexivity.
  Qed.

  (* pointwise reading: column j (0 <= j <= n/k) is the measurement of exp(-i H (j k dt)) psi_0,
     stamped with the time-step index j*k *)
  Corollary exact_state_every_col : forall (n k : nat) (s0 : St) (j : nat), 1 <= k -> j <= n / k ->
    nth_error (cols (run St V (act (E 1)) measure n (Every k) s0)) j
    = Some (Some (measure (act (E (j * k)) s0), j * k)).
  Proof.
    intros n k s0 j Hk Hj. rewrite exact_state_every by exact Hk. cbn [cols].
    rewrite (nth_error_map _ j (seq 0 (n / k + 1))).
    replace (nth_error (seq 0 (n / k + 1)) j) with (Some j); [reflexivity|].
    symmetry. rewrite (nth_error_nth' _ 0) by (rewrite seq_length; lia).
    rewrite seq_nth by lia. reflexivity.
  Qed.

  Theorem exact_state_inf : forall (n : nat) (s0 : St),
    run St V (act (E 1)) measure n Inf s0 =
    {| sys := act (E n) s0; cols := [Some (measure (act (E n) s0), n)]; err := false |}.
  Proof.
    intros n s0. rewrite (run_inf St V (act (E 1)) measure n s0), iter_exact. reflexivity.
  Qed.
End Exact.
