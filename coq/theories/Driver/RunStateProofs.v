(* [ext-C18X] Proofs about Driver/RunState.v.  The literal loop on the two-dimensional results array is related
   to the column model of Driver/Run.v by a simulation (render), so that run_every / run_inf of RunProofs.v
   give the closed form of the array; the driver theorems (record, ownership, reset, run twice) follow. *)
From Coq Require Import ZArith List Bool Arith Lia.
From PTN Require Import Driver.Run Driver.RunProofs Driver.RunState.
Import ListNotations.

(* ---- list helpers ------------------------------------------------------------------------------ *)
Lemma upd_map {A B} (F : A -> B) x : forall j l, upd j (F x) (map F l) = map F (upd j x l).
Proof. intros j l. revert j. induction l as [|h t IH]; intros [|j]; cbn; try reflexivity. f_equal. apply IH. Qed.

Lemma upd_length {A} (x : A) : forall j l, length (upd j x l) = length l.
Proof. intros j l. revert j. induction l as [|h t IH]; intros [|j]; cbn; auto. Qed.

Lemma zipw_map_map {A B C D} (f : B -> C -> D) (g : A -> B) (h : A -> C) l :
  zipw f (map g l) (map h l) = map (fun x => f (g x) (h x)) l.
Proof. induction l as [|a t IH]; cbn; [reflexivity|]. f_equal. exact IH. Qed.

Lemma write_upd {V} (v : V * nat) : forall l j,
  write V j v l = if Nat.ltb j (length l) then Some (upd j (Some v) l) else None.
Proof.
  induction l as [|h t IH]; intros j; [destruct j; reflexivity|].
  destruct j as [|j]; cbn [write upd length]; [reflexivity|].
  rewrite IH. change (Nat.ltb (S j) (S (length t))) with (Nat.ltb j (length t)).
  destruct (Nat.ltb j (length t)); reflexivity.
Qed.

Lemma repeat_succ_map {A B} (x : B) (l : list A) : repeat x (length l + 1) = map (fun _ => x) l ++ [x].
Proof. induction l as [|a t IH]; cbn; [reflexivity|]. f_equal. exact IH. Qed.

Lemma map_repeat {A B} (f : A -> B) x n : map f (repeat x n) = repeat (f x) n.
Proof. induction n; cbn; [reflexivity|]. f_equal. assumption. Qed.

Section Proofs.
  Variables (St Op V K : Type) (step : St -> St) (eval : Op -> St -> V) (re : V -> V)
            (bdims : St -> list nat) (keqb : K -> K -> bool).
  Notation cell := (cell V).
  Notation table := (table V).
  Notation driver := (driver St Op V K).
  Notation iter := (iter St step).
  Notation lit_iter := (lit_iter St Op V step eval bdims).
  Notation run_loop := (run_loop St Op V step eval bdims).
  Notation record_bond := (record_bond St bdims).
  Notation bond_after := (bond_after St bdims).
  Notation exec := (exec St Op V K step eval bdims).
  Notation exec_total := (exec_total St Op V K step eval bdims).
  Notation exec_all := (exec_all St Op V K step eval bdims).
  Notation table_every := (table_every St Op V step eval).
  Notation table_inf := (table_inf St Op V step eval).
  Notation table_of := (table_of St Op V step eval).
  Notation new_driver := (new_driver St Op V K).
  Notation I1 := (iter1 St St step (fun s => s)).

  (* ---- rendering the columns of Run.v as the rows of the array ---------------------------------- *)
  Definition cellv (o : Op) (c : option (St * nat)) : cell :=
    match c with Some (s, _) => CVal (eval o s) | None => CZero end.
  Definition cellt (c : option (St * nat)) : cell :=
    match c with Some (_, i) => CTime i | None => CZero end.
  Definition render (ops : list Op) (cols : list (option (St * nat))) : table :=
    map (fun o => map (cellv o) cols) ops ++ [map cellt cols].

  Lemma render_width ops cols : tab_width V (render ops cols) = length cols.
  Proof. unfold tab_width, render. rewrite last_last, map_length. reflexivity. Qed.

  Lemma render_write ops cols s i j :
    save_time V i j (save_operator_results V (evaluate_operators St Op V eval ops s) j (render ops cols))
    = render ops (upd j (Some (s, i)) cols).
  Proof.
    unfold save_time, save_operator_results, render, evaluate_operators.
    rewrite !removelast_last, !last_last, zipw_map_map. f_equal.
    - apply map_ext. intros o. exact (upd_map (cellv o) (Some (s, i)) j cols).
    - f_equal. exact (upd_map cellt (Some (s, i)) j cols).
  Qed.

  Lemma init_render nops_ops n e : e <> Every 0 ->
    init_results V (length nops_ops) n e = Some (render nops_ops (repeat None (width n e))).
  Proof.
    intros He. unfold init_results, render.
    assert (E : repeat (repeat (@CZero V) (width n e)) (length nops_ops + 1)
                = map (fun o => map (cellv o) (repeat None (width n e))) nops_ops ++ [map cellt (repeat None (width n e))]).
    { rewrite repeat_succ_map, map_repeat. f_equal. apply map_ext. intros o. rewrite map_repeat. reflexivity. }
    destruct e as [[|k]|]; [congruence| |]; rewrite E; reflexivity.
  Qed.

  (* ---- simulation of the literal loop by Run.iter1 ------------------------------------------------ *)
  Section Sim.
    Variables (ops : list Op) (n : nat) (e : evalt).

    Definition s_next (i : nat) (s : St) : St := if Nat.eqb i 0 then s else step s.

    Fixpoint bfold (l : list nat) (s : St) (b : brec) : brec :=
      match l with
      | [] => b
      | i :: l' => bfold l' (s_next i s) (if should_eval n e i then record_bond (s_next i s) b else b)
      end.

    Lemma I1_sys st i : sys (I1 n e st i) = s_next i (sys st).
    Proof.
      unfold iter1, s_next. destruct (Nat.eqb i 0); destruct (should_eval n e i); cbn [sys cols];
        try reflexivity; match goal with |- context [write ?a ?b ?c ?d] => destruct (write a b c d) end; reflexivity.
    Qed.

    Lemma I1_err_mono st i : err st = true -> err (I1 n e st i) = true.
    Proof.
      intros H. unfold iter1. destruct (Nat.eqb i 0); destruct (should_eval n e i); cbn [sys cols err];
        try assumption; match goal with |- context [write ?a ?b ?c ?d] => destruct (write a b c d) end; cbn; auto.
    Qed.

    Lemma fold_err_mono l : forall st, err st = true -> err (fold_left (I1 n e) l st) = true.
    Proof. induction l as [|i l IH]; intros st H; cbn; [assumption|]. apply IH, I1_err_mono, H. Qed.

    Lemma sim_step st i b : err st = false -> err (I1 n e st i) = false ->
      lit_iter ops n e (Some (sys st, render ops (cols st), b)) i
      = Some (sys (I1 n e st i), render ops (cols (I1 n e st i)),
              if should_eval n e i then record_bond (s_next i (sys st)) b else b).
    Proof.
      intros H0 H1. unfold lit_iter. fold (s_next i (sys st)). revert H1. unfold iter1.
      assert (Hs : sys (if Nat.eqb i 0 then st else {| sys := step (sys st); cols := cols st; err := err st |}) = s_next i (sys st))
        by (unfold s_next; destruct (Nat.eqb i 0); reflexivity).
      assert (Hc : cols (if Nat.eqb i 0 then st else {| sys := step (sys st); cols := cols st; err := err st |}) = cols st)
        by (destruct (Nat.eqb i 0); reflexivity).
      assert (He : err (if Nat.eqb i 0 then st else {| sys := step (sys st); cols := cols st; err := err st |}) = err st)
        by (destruct (Nat.eqb i 0); reflexivity).
      set (s1 := if Nat.eqb i 0 then st else _) in *.
      destruct (should_eval n e i).
      - rewrite Hs, Hc, write_upd, render_width.
        destruct (Nat.ltb (result_index e i) (length (cols st))); cbn [sys cols err].
        + intros _. rewrite render_write. reflexivity.
        + intros; discriminate.
      - intros _. rewrite Hs, Hc. reflexivity.
    Qed.

    Lemma sim_fold l : forall st b, err st = false -> err (fold_left (I1 n e) l st) = false ->
      fold_left (lit_iter ops n e) l (Some (sys st, render ops (cols st), b))
      = Some (sys (fold_left (I1 n e) l st), render ops (cols (fold_left (I1 n e) l st)), bfold l (sys st) b).
    Proof.
      induction l as [|i l IH]; intros st b H0 H1; [reflexivity|].
      cbn [fold_left bfold] in *.
      destruct (err (I1 n e st i)) eqn:E1.
      - rewrite (fold_err_mono l _ E1) in H1. discriminate.
      - rewrite (sim_step st i b H0 E1), (IH _ _ E1 H1), I1_sys. reflexivity.
    Qed.

    (* the bond record: one snapshot per evaluated time step, in order, appended to what was there *)
    Lemma bfold_seq s0 : forall m a b,
      bfold (seq a m) (iter (pred a) s0) b
      = bond_after (map (fun i => iter i s0) (filter (should_eval n e) (seq a m))) b.
    Proof.
      induction m as [|m IH]; intros a b; [reflexivity|].
      cbn [seq bfold filter].
      assert (Hs : s_next a (iter (pred a) s0) = iter a s0) by (destruct a; reflexivity).
      rewrite Hs. change (iter a s0) with (iter (pred (S a)) s0) at 1. rewrite IH.
      destruct (should_eval n e a); reflexivity.
    Qed.
  End Sim.

  (* ---- closed form of the loop ------------------------------------------------------------------------ *)
  Theorem run_loop_every ops n k s b : 1 <= k ->
    run_loop ops n (Every k) s b
    = Some (iter n s, table_every ops n k s,
            bond_after (map (fun i => iter i s) (eval_steps n (Every k))) b).
  Proof.
    intros Hk. unfold run_loop. rewrite init_render by (intros E; inversion E; lia).
    pose proof (run_every St St step (fun s => s) n k s Hk) as R. unfold run in R.
    change (Some (s, render ops (repeat None (width n (Every k))), b))
      with (Some (sys (init_st St St n (Every k) s), render ops (cols (init_st St St n (Every k) s)), b)).
    rewrite sim_fold; [| reflexivity | rewrite R; reflexivity].
    rewrite R. cbn [sys cols]. f_equal. f_equal; [f_equal|].
    - unfold render, table_every. rewrite map_map. f_equal. apply map_ext. intros o. rewrite map_map. reflexivity.
    - exact (bfold_seq n (Every k) s (n + 1) 0 b).
  Qed.

  Theorem run_loop_inf ops n s b :
    run_loop ops n Inf s b
    = Some (iter n s, table_inf ops n s, bond_after (map (fun i => iter i s) (eval_steps n Inf)) b).
  Proof.
    unfold run_loop. rewrite init_render by discriminate.
    pose proof (run_inf St St step (fun s => s) n s) as R. unfold run in R.
    change (Some (s, render ops (repeat None (width n Inf)), b))
      with (Some (sys (init_st St St n Inf s), render ops (cols (init_st St St n Inf s)), b)).
    rewrite sim_fold; [| reflexivity | rewrite R; reflexivity].
    rewrite R. cbn [sys cols]. f_equal. f_equal.
    exact (bfold_seq n Inf s (n + 1) 0 b).
  Qed.

  Definition valid (e : evalt) : Prop := match e with Every k => 1 <= k | Inf => True end.

  Theorem run_loop_closed ops n e s b : valid e ->
    run_loop ops n e s b
    = Some (iter n s, table_of ops n e s, bond_after (map (fun i => iter i s) (eval_steps n e)) b).
  Proof. destruct e as [k|]; intros H; [apply run_loop_every, H | apply run_loop_inf]. Qed.

  Lemma run_loop_zero ops n s b : run_loop ops n (Every 0) s b = None.
  Proof. reflexivity. Qed.
End Proofs.

(* ---- the driver ------------------------------------------------------------------------------------ *)
Section DriverProofs.
  Variables (St Op V K : Type) (step : St -> St) (eval : Op -> St -> V) (re : V -> V)
            (bdims : St -> list nat) (keqb : K -> K -> bool).
  Notation driver := (driver St Op V K).
  Notation iter := (iter St step).
  Notation bond_after := (bond_after St bdims).
  Notation exec := (exec St Op V K step eval bdims).
  Notation exec_total := (exec_total St Op V K step eval bdims).
  Notation exec_all := (exec_all St Op V K step eval bdims).
  Notation table_of := (table_of St Op V step eval).
  Notation new_driver := (new_driver St Op V K).
  Notation run_loop := (run_loop St Op V step eval bdims).
  Notation snaps := (fun n e s => map (fun i => iter i s) (eval_steps n e)).

  Lemma table_of_rows ops n e s :
    table_of ops n e s = map (op_row St Op V step eval n e s) ops ++ [time_row V n e].
  Proof. destruct e; reflexivity. Qed.

  Lemma exec_run (d : driver) e : valid e ->
    exec (Run e) d =
    Some {| heap := hset St (heap d) (state_ref d) (iter (nsteps d) (heap d (state_ref d)));
            next := next d; init_ref := init_ref d; state_ref := state_ref d; nsteps := nsteps d;
            d_ops := d_ops d; d_keys := d_keys d;
            results := Some (table_of (d_ops d) (nsteps d) e (heap d (state_ref d)));
            bond := bond_after (snaps (nsteps d) e (heap d (state_ref d))) (bond d) |}.
  Proof. intros H. unfold exec. rewrite (run_loop_closed St Op V step eval bdims _ _ _ _ _ H). reflexivity. Qed.

  Lemma hset_same h r v : hset St h r v r = v.
  Proof. unfold hset. rewrite Nat.eqb_refl. reflexivity. Qed.
  Lemma hset_other h r v a : a <> r -> hset St h r v a = h a.
  Proof. intros H. unfold hset. destruct (Nat.eqb_spec a r); [contradiction|reflexivity]. Qed.

  (* the record of one run, from any driver state *)
  Theorem run_record (d : driver) e : valid e ->
    exists d', exec (Run e) d = Some d' /\
      results d' = Some (table_of (d_ops d) (nsteps d) e (heap d (state_ref d))) /\
      heap d' (state_ref d') = iter (nsteps d) (heap d (state_ref d)) /\
      (forall a, a <> state_ref d -> heap d' a = heap d a) /\
      state_ref d' = state_ref d /\ init_ref d' = init_ref d /\ next d' = next d /\
      nsteps d' = nsteps d /\ d_ops d' = d_ops d /\ d_keys d' = d_keys d /\
      bond d' = bond_after (snaps (nsteps d) e (heap d (state_ref d))) (bond d).
  Proof.
    intros H. eexists. split; [apply exec_run, H|]. cbn.
    repeat split; try reflexivity; [apply hset_same | intros a Ha; apply hset_other, Ha].
  Qed.

  (* the only exception: evaluation interval 0 (ZeroDivisionError in init_results), nothing assigned *)
  Theorem exec_none_iff c (d : driver) : exec c d = None <-> c = Run (Every 0).
  Proof.
    split.
    - destruct c as [e|]; [|discriminate]. destruct e as [[|k]|]; [reflexivity| |];
        intros H; rewrite exec_run in H; try discriminate; cbn; lia.
    - intros ->. reflexivity.
  Qed.

  (* shape of the array; rows addressed by position *)
  Theorem table_of_shape ops n e s :
    length (table_of ops n e s) = length ops + 1 /\
    (forall row, In row (table_of ops n e s) -> length row = width n e) /\
    (forall r o0, r < length ops ->
       nth_error (table_of ops n e s) r = Some (op_row St Op V step eval n e s (nth r ops o0))) /\
    nth_error (table_of ops n e s) (length ops) = Some (time_row V n e).
  Proof.
    rewrite table_of_rows. repeat split.
    - rewrite app_length, map_length. reflexivity.
    - intros row Hin. apply in_app_or in Hin. destruct Hin as [Hin|[<-|[]]].
      + apply in_map_iff in Hin. destruct Hin as [o [<- _]]. destruct e; cbn; rewrite ?map_length, ?seq_length; reflexivity.
      + destruct e; cbn; rewrite ?map_length, ?seq_length; reflexivity.
    - intros r o0 Hr. rewrite nth_error_app1 by (rewrite map_length; exact Hr).
      rewrite nth_error_map, (nth_error_nth' ops o0 Hr). reflexivity.
    - rewrite nth_error_app2 by (rewrite map_length; lia). rewrite map_length, Nat.sub_diag. reflexivity.
  Qed.

  (* column j of an operator row / of the time row, finite interval *)
  Theorem op_row_every_col n k s o j : j <= n / k ->
    nth_error (op_row St Op V step eval n (Every k) s o) j = Some (CVal (eval o (iter (j * k) s))) /\
    nth_error (time_row V n (Every k)) j = Some (CTime (j * k)).
  Proof.
    intros Hj. cbn [op_row time_row]. rewrite !nth_error_map.
    assert (E : nth_error (seq 0 (n / k + 1)) j = Some j).
    { rewrite (nth_error_nth' _ 0) by (rewrite seq_length; lia). rewrite seq_nth by lia. reflexivity. }
    rewrite E. split; reflexivity.
  Qed.

  (* the last allocated column holds the state after (n/k)*k = n - n mod k steps: the final state
     exactly when k divides n; otherwise the last n mod k steps are performed but never recorded *)
  Theorem last_column_step n k : 1 <= k -> n / k * k = n - n mod k /\ (n / k * k = n <-> n mod k = 0).
  Proof.
    intros Hk. pose proof (Nat.div_mod n k ltac:(lia)) as E.
    pose proof (Nat.mod_upper_bound n k ltac:(lia)). nia.
  Qed.

  (* ---- ownership --------------------------------------------------------------------------------------- *)
  Section Hist.
    Variables (h : nat -> St) (nx caller n : nat) (c : container Op K) (record : bool).
    Hypothesis Hfresh : caller < nx.

    Definition Inv (d : driver) : Prop :=
      (forall a, a < nx -> heap d a = h a) /\ init_ref d = caller /\ nx <= state_ref d /\ state_ref d < next d /\
      nsteps d = n /\ d_ops d = c_ops Op K c /\ d_keys d = c_keys Op K c.

    Lemma Inv_new : Inv (new_driver h nx caller n c record).
    Proof.
      unfold Inv, new_driver. cbn. repeat split; try lia.
      intros a Ha. apply hset_other. lia.
    Qed.

    Lemma Inv_exec d cm : Inv d -> Inv (exec_total d cm).
    Proof.
      intros (H1 & H2 & H3 & H4 & H5 & H6 & H7). unfold Inv, RunState.exec_total.
      destruct cm as [e|]; cbn [RunState.exec].
      - destruct (run_loop (d_ops d) (nsteps d) e (heap d (state_ref d)) (bond d)) as [[[s t] b]|]; cbn.
        + repeat split; try assumption. intros a Ha. rewrite hset_other by lia. auto.
        + repeat split; assumption.
      - cbn. repeat split; try assumption; try lia. intros a Ha. rewrite hset_other by lia. auto.
    Qed.

    Lemma Inv_all cs : forall d, Inv d -> Inv (exec_all cs d).
    Proof. induction cs as [|cm cs IH]; intros d H; cbn; [assumption|]. apply IH, Inv_exec, H. Qed.

    (* no history of driver commands writes to an object that existed when the driver was constructed;
       `_initial_state` stays the caller's object and `state` is always another, younger object *)
    Theorem caller_state_untouched cs :
      let d := exec_all cs (new_driver h nx caller n c record) in
      (forall a, a < nx -> heap d a = h a) /\ heap d caller = h caller /\
      init_ref d = caller /\ state_ref d <> caller /\ nx <= state_ref d.
    Proof.
      cbv zeta. destruct (Inv_all cs _ Inv_new) as (H1 & H2 & H3 & H4 & _).
      repeat split; auto; lia.
    Qed.

    Lemma exec_all_snoc cs cm d : exec_all (cs ++ [cm]) d = exec_total (exec_all cs d) cm.
    Proof. unfold RunState.exec_all. rewrite fold_left_app. reflexivity. Qed.

    Lemma exec_total_run (d : driver) e : valid e ->
      exec_total d (Run e) =
      {| heap := hset St (heap d) (state_ref d) (iter (nsteps d) (heap d (state_ref d)));
         next := next d; init_ref := init_ref d; state_ref := state_ref d; nsteps := nsteps d;
         d_ops := d_ops d; d_keys := d_keys d;
         results := Some (table_of (d_ops d) (nsteps d) e (heap d (state_ref d)));
         bond := bond_after (snaps (nsteps d) e (heap d (state_ref d))) (bond d) |}.
    Proof. intros H. unfold RunState.exec_total. rewrite exec_run by exact H. reflexivity. Qed.

    (* after ANY history: reset, run reproduces the record of the first run of a fresh driver *)
    Theorem reset_rerun_same_record cs e : valid e ->
      results (exec_all (cs ++ [Reset; Run e]) (new_driver h nx caller n c record))
      = Some (table_of (c_ops Op K c) n e (h caller)) /\
      results (exec_all [Run e] (new_driver h nx caller n c record))
      = Some (table_of (c_ops Op K c) n e (h caller)).
    Proof.
      intros He. split.
      - change (cs ++ [Reset; Run e]) with (cs ++ [Reset] ++ [Run e]).
        rewrite app_assoc, exec_all_snoc, exec_all_snoc.
        destruct (Inv_all cs _ Inv_new) as (H1 & H2 & H3 & H4 & H5 & H6 & H7).
        set (d := exec_all cs _) in *.
        rewrite exec_total_run by exact He. cbn -[hset]. rewrite hset_same, H2, H5, H6, H1 by exact Hfresh. reflexivity.
      - cbn -[hset]. rewrite exec_total_run by exact He. cbn -[hset]. rewrite hset_same. reflexivity.
    Qed.

    (* run twice without reset: the second run starts from the evolved state, the array is allocated anew
       (the first record is gone) and its time labels start again at 0; 2n steps in total *)
    Theorem run_twice_without_reset e1 e2 : valid e1 -> valid e2 ->
      let d := exec_all [Run e1; Run e2] (new_driver h nx caller n c record) in
      results d = Some (table_of (c_ops Op K c) n e2 (iter n (h caller))) /\
      heap d (state_ref d) = iter n (iter n (h caller)) /\ heap d (init_ref d) = h caller.
    Proof.
      intros H1 H2. cbv zeta. cbn [RunState.exec_all fold_left].
      rewrite (exec_total_run _ e1 H1). rewrite (exec_total_run _ e2 H2). cbn -[hset].
      rewrite !hset_same. repeat split. rewrite !hset_other by lia. reflexivity.
    Qed.

    (* the bond-dimension record is never cleared: neither by reset nor by a new run *)
    Theorem bond_record_accumulates e1 e2 : valid e1 -> valid e2 ->
      bond (exec_all [Run e1; Reset; Run e2] (new_driver h nx caller n c record))
      = bond_after (snaps n e1 (h caller) ++ snaps n e2 (h caller)) (if record then Some [] else None) /\
      bond (exec_all [Run e1; Run e2] (new_driver h nx caller n c record))
      = bond_after (snaps n e1 (h caller) ++ snaps n e2 (iter n (h caller))) (if record then Some [] else None).
    Proof.
      intros H1 H2. unfold RunState.bond_after. rewrite !fold_left_app. cbn [RunState.exec_all fold_left].
      rewrite (exec_total_run _ e1 H1). split.
      - unfold RunState.exec_total at 2. cbn [RunState.exec]. rewrite (exec_total_run _ e2 H2). cbn -[hset].
        rewrite !hset_same. rewrite !hset_other by lia. rewrite ?hset_same. reflexivity.
      - rewrite (exec_total_run _ e2 H2). cbn -[hset]. rewrite !hset_same. reflexivity.
    Qed.

    (* the caller mutates the object it passed in: reset then restores the MUTATED content, because
       `_initial_state` is the caller's object, not a copy *)
    Theorem reset_uses_callers_object cs f e : valid e ->
      let d := exec_total (exec_total (caller_write St Op V K f (exec_all cs (new_driver h nx caller n c record))) Reset) (Run e) in
      results d = Some (table_of (c_ops Op K c) n e (f (h caller))).
    Proof.
      intros He. cbv zeta.
      destruct (Inv_all cs _ Inv_new) as (H1 & H2 & H3 & H4 & H5 & H6 & H7).
      set (d := exec_all cs _) in *.
      rewrite exec_total_run by exact He. cbn -[hset]. rewrite !hset_same, H5, H6, H2, H1 by exact Hfresh. reflexivity.
    Qed.
  End Hist.

  (* ---- accessors ------------------------------------------------------------------------------------------ *)
  Notation operator_result := (operator_result St Op V K re keqb).
  Notation real_cell := (real_cell V re).

  Lemma np_index_nat len r : r < len -> np_index len (Z.of_nat r) = Some r.
  Proof.
    intros H. unfold np_index.
    destruct (Z.leb_spec 0 (Z.of_nat r)); [|lia].
    destruct (Z.ltb_spec (Z.of_nat r) (Z.of_nat len)); [|lia]. rewrite Nat2Z.id. reflexivity.
  Qed.

  Lemma np_index_neg len r : 1 <= r <= len -> np_index len (- Z.of_nat r) = Some (len - r).
  Proof.
    intros H. unfold np_index.
    destruct (Z.leb_spec 0 (- Z.of_nat r)); [lia|].
    destruct (Z.leb_spec (- Z.of_nat len) (- Z.of_nat r)); [|lia]. f_equal. lia.
  Qed.

  Theorem accessors_after_run (d : driver) ops n e s :
    results d = Some (table_of ops n e s) ->
    (forall r o0 rl, r < length ops ->
       operator_result d (ByPos (Z.of_nat r)) rl
       = Some (rl, if rl then map real_cell (op_row St Op V step eval n e s (nth r ops o0))
                   else op_row St Op V step eval n e s (nth r ops o0))) /\
    (forall k r rl, index_of keqb k (d_keys d) = Some r ->
       operator_result d (ByKey k) rl = operator_result d (ByPos (Z.of_nat r)) rl) /\
    (* positions len(ops) and -1 both address the TIME row *)
    operator_result d (ByPos (Z.of_nat (length ops))) false = Some (false, time_row V n e) /\
    operator_result d (ByPos (-1)) false = Some (false, time_row V n e) /\
    (forall i, (i < - Z.of_nat (length ops + 1) \/ Z.of_nat (length ops + 1) <= i)%Z ->
       operator_result d (ByPos i) false = None) /\
    times St Op V K re d = Some (time_row V n e) /\
    operator_results St Op V K re d false = Some (false, map (op_row St Op V step eval n e s) ops).
  Proof.
    intros Hr. destruct (table_of_shape ops n e s) as (HL & _ & Hrow & Htime).
    unfold RunState.operator_result, times, operator_results. rewrite Hr, HL.
    repeat split.
    - intros r o0 rl Hlt. cbn [option_map]. rewrite np_index_nat by lia. rewrite (Hrow r o0 Hlt). reflexivity.
    - intros k r rl Hk. rewrite Hk. reflexivity.
    - rewrite np_index_nat by lia. rewrite Htime. reflexivity.
    - change (-1)%Z with (- Z.of_nat 1)%Z. rewrite np_index_neg by lia.
      replace (length ops + 1 - 1) with (length ops) by lia. rewrite Htime. reflexivity.
    - intros i Hi. unfold np_index.
      destruct (Z.leb_spec 0 i).
      + destruct (Z.ltb_spec i (Z.of_nat (length ops + 1))); [lia|reflexivity].
      + destruct (Z.leb_spec (- Z.of_nat (length ops + 1)) i); [lia|reflexivity].
    - rewrite table_of_rows, last_last.
      destruct (map _ ops ++ [time_row V n e]) eqn:E; [destruct (map (op_row St Op V step eval n e s) ops); discriminate|].
      f_equal. destruct e; cbn [time_row]; [rewrite map_map|]; reflexivity.
    - rewrite table_of_rows, removelast_last. reflexivity.
  Qed.
End DriverProofs.
