(* Model of pytreenet/time_evolution/time_evolution.py: TimeEvolution bookkeeping.
   _compute_num_time_steps, init_results, should_evaluate, result_index,
   evaluate_and_save_results, run.  Definitions only; proofs are in RunProofs.v. *)
From Coq Require Import ZArith QArith Qround List Bool Arith.
Import ListNotations.
Local Close Scope Q_scope.

(* ---- number of steps ------------------------------------------------------------ *)
(* q is the exact rational value of the float quotient final_time / time_step_size;
   thr is the exact rational value of the double 0.1. *)
Definition thr : Q := (3602879701896397 # 36028797018963968)%Q.

Definition num_steps (q : Q) : Z :=
  let i := Qfloor q in
  if Qlt_le_dec (q - inject_Z i)%Q thr then i else (i + 1)%Z.

(* ---- the run loop --------------------------------------------------------------- *)
Inductive evalt := Every (k : nat) | Inf.

Definition width (n : nat) (e : evalt) : nat :=
  match e with Every k => n / k + 1 | Inf => 1 end.

Definition should_eval (n : nat) (e : evalt) (i : nat) : bool :=
  match e with Every k => Nat.eqb (i mod k) 0 | Inf => Nat.eqb i n end.

Definition result_index (e : evalt) (i : nat) : nat :=
  match e with Every k => i / k | Inf => 0 end.

Section Run.
  Variables (S V : Type) (step : S -> S) (measure : S -> V).

  (* one column of the result array: the measured values and the time-step index *)
  Record st := { sys : S; cols : list (option (V * nat)); err : bool }.

  Fixpoint write (j : nat) (v : V * nat) (l : list (option (V * nat))) : option (list (option (V * nat))) :=
    match l, j with
    | [], _ => None                                    (* IndexError in Python *)
    | _ :: t, O => Some (Some v :: t)
    | h :: t, Datatypes.S j' => match write j' v t with Some t' => Some (h :: t') | None => None end
    end.

  Definition iter1 (n : nat) (e : evalt) (s : st) (i : nat) : st :=
    let s1 := if Nat.eqb i 0 then s else {| sys := step (sys s); cols := cols s; err := err s |} in
    if should_eval n e i then
      match write (result_index e i) (measure (sys s1), i) (cols s1) with
      | Some c => {| sys := sys s1; cols := c; err := err s1 |}
      | None => {| sys := sys s1; cols := cols s1; err := true |}
      end
    else s1.

  Definition init_st (n : nat) (e : evalt) (s0 : S) : st :=
    {| sys := s0; cols := repeat None (width n e); err := false |}.

  Definition run (n : nat) (e : evalt) (s0 : S) : st :=
    fold_left (iter1 n e) (seq 0 (n + 1)) (init_st n e s0).

  Fixpoint iter (m : nat) (s : S) : S :=
    match m with O => s | Datatypes.S m' => step (iter m' s) end.
End Run.

Arguments sys {S V}. Arguments cols {S V}. Arguments err {S V}.

(* ---- result addressing ---------------------------------------------------------- *)
Fixpoint index_of {A} (eqb : A -> A -> bool) (k : A) (l : list A) : option nat :=
  match l with
  | [] => None
  | h :: t => if eqb k h then Some 0 else option_map Datatypes.S (index_of eqb k t)
  end.

(* Counting instance used by the correspondence: the system state is the number of
   steps performed; the measurement returns it. Output: (final steps, columns as
   (measured, time_step) with (-1,-1) for an unwritten column, error flag). *)
Definition run_counting (n : nat) (e : evalt) : (Z * list (Z * Z) * bool) :=
  let r := run nat nat Datatypes.S (fun x => x) n e 0 in
  (Z.of_nat (sys r),
   map (fun c => match c with Some (v, i) => (Z.of_nat v, Z.of_nat i) | None => ((-1)%Z, (-1)%Z) end) (cols r),
   err r).
