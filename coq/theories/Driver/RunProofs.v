From Coq Require Import ZArith QArith Qround List Bool Arith Lia Lqa.
From PTN Require Import Driver.Run.
Import ListNotations.

(* ---- num_steps ------------------------------------------------------------------ *)
Lemma thr_pos : 0 < thr. Proof. reflexivity. Qed.
Lemma thr_lt_1 : thr < 1. Proof. reflexivity. Qed.

Lemma num_steps_cases q :
  (q - inject_Z (Qfloor q) < thr /\ num_steps q = Qfloor q) \/
  (thr <= q - inject_Z (Qfloor q) /\ num_steps q = (Qfloor q + 1)%Z).
Proof.
  unfold num_steps. cbv zeta. destruct (Qlt_le_dec (q - inject_Z (Qfloor q)) thr) as [H|H]; [left|right]; split; auto.
Qed.

Lemma num_steps_nonneg q : 0 <= q -> (0 <= num_steps q)%Z.
Proof.
  intros Hq. assert (0 <= Qfloor q)%Z.
  { change 0%Z with (Qfloor 0). apply Qfloor_resp_le. exact Hq. }
  destruct (num_steps_cases q) as [[_ ->]|[_ ->]]; lia.
Qed.

(* the returned n is the unique integer with n - 1 + thr <= q < n + thr *)
Lemma num_steps_window q :
  inject_Z (num_steps q) - 1 + thr <= q /\ q < inject_Z (num_steps q) + thr.
Proof.
  pose proof (Qfloor_le q) as Hl. pose proof (Qlt_floor q) as Hu.
  pose proof thr_pos as Hp. pose proof thr_lt_1 as H1.
  destruct (num_steps_cases q) as [[Hf ->]|[Hf ->]].
  - split; lra.
  - rewrite inject_Z_plus in *. change (inject_Z 1) with 1 in *. split; lra.
Qed.

Lemma num_steps_unique q (n : Z) :
  inject_Z n - 1 + thr <= q -> q < inject_Z n + thr -> n = num_steps q.
Proof.
  intros A B. destruct (num_steps_window q) as [C D].
  set (m := num_steps q) in *.
  assert (inject_Z (n - 1) < inject_Z m) as E'.
  { unfold Zminus. rewrite inject_Z_plus, inject_Z_opp. change (inject_Z 1) with 1. lra. }
  assert (inject_Z (m - 1) < inject_Z n) as F'.
  { unfold Zminus. rewrite inject_Z_plus, inject_Z_opp. change (inject_Z 1) with 1. lra. }
  rewrite <- Zlt_Qlt in E', F'. lia.
Qed.

(* ---- run ------------------------------------------------------------------------ *)
Local Close Scope Q_scope.
Section RunProofs.
  Variables (S V : Type) (step : S -> S) (measure : S -> V).
  Notation st := (st S V).
  Notation iter := (iter S step).
  Notation run := (run S V step measure).
  Notation iter1 := (iter1 S V step measure).
  Notation write := (write V).

  Lemma write_map_seq (f : nat -> option (V * nat)) w : forall a j v, j < w ->
    write j v (map f (seq a w)) = Some (map (fun x => if Nat.eqb x (a + j) then Some v else f x) (seq a w)).
  Proof.
    induction w as [|w IH]; intros a j v Hj; [lia|].
    destruct j as [|j]; cbn [seq map write].
    - rewrite Nat.add_0_r, Nat.eqb_refl. f_equal. f_equal.
      apply map_ext_in. intros x Hx. apply in_seq in Hx.
      destruct (Nat.eqb_spec x a); [lia|reflexivity].
    - rewrite (IH (Datatypes.S a) j v) by lia.
      destruct (Nat.eqb_spec a (a + Datatypes.S j)); [lia|].
      f_equal. f_equal. apply map_ext. intros x. replace (Datatypes.S a + j) with (a + Datatypes.S j) by lia. reflexivity.
  Qed.

  Lemma repeat_map_seq {B} (b : B) w : forall a, repeat b w = map (fun _ => b) (seq a w).
  Proof. induction w as [|w IH]; intros a; cbn; [reflexivity|]. f_equal. apply IH. Qed.

  Lemma iter_S m s : iter (Datatypes.S m) s = step (iter m s). Proof. reflexivity. Qed.

  Definition colf (k m : nat) (s0 : S) (j : nat) : option (V * nat) :=
    if Nat.ltb (j * k) m then Some (measure (iter (j * k) s0), j * k) else None.

  Lemma run_every_inv n k s0 : 1 <= k -> forall m, m <= n + 1 ->
    fold_left (iter1 n (Every k)) (seq 0 m) (init_st S V n (Every k) s0) =
    {| sys := iter (pred m) s0; cols := map (colf k m s0) (seq 0 (n / k + 1)); err := false |}.
  Proof.
    intros Hk. induction m as [|m IH]; intros Hm.
    - cbn [seq fold_left pred]. unfold init_st, width. f_equal.
      rewrite (repeat_map_seq None _ 0). apply map_ext. intros j. unfold colf.
      destruct (Nat.ltb_spec (j * k) 0); [lia|reflexivity].
    - rewrite seq_S, fold_left_app, IH by lia. cbn [fold_left Nat.add pred].
      unfold iter1. cbn [sys cols err].
      assert (Hsys : (if Nat.eqb m 0 then {| sys := iter (pred m) s0; cols := map (colf k m s0) (seq 0 (n / k + 1)); err := false |}
                      else {| sys := step (iter (pred m) s0); cols := map (colf k m s0) (seq 0 (n / k + 1)); err := false |})
                     = {| sys := iter m s0; cols := map (colf k m s0) (seq 0 (n / k + 1)); err := false |}).
      { destruct m; reflexivity. }
      rewrite Hsys. cbn [sys cols err should_eval result_index].
      destruct (Nat.eqb_spec (m mod k) 0) as [Hz|Hnz].
      + assert (Hmk : m = m / k * k).
        { pose proof (Nat.div_mod m k ltac:(lia)). lia. }
        assert (m / k < n / k + 1).
        { pose proof (Nat.div_le_mono m n k ltac:(lia) ltac:(lia)). lia. }
        rewrite write_map_seq by assumption. f_equal.
        apply map_ext. intros j. cbn [Nat.add]. unfold colf.
        destruct (Nat.eqb_spec j (m / k)) as [->|Hne].
        * rewrite <- Hmk. destruct (Nat.ltb_spec m (Datatypes.S m)); [reflexivity|lia].
        * assert (j * k <> m).
          { intro E. apply Hne. rewrite <- E. rewrite Nat.div_mul by lia. reflexivity. }
          destruct (Nat.ltb_spec (j * k) m); destruct (Nat.ltb_spec (j * k) (Datatypes.S m)); try reflexivity; lia.
      + f_equal. apply map_ext. intros j. unfold colf.
        assert (j * k <> m).
        { intro E. apply Hnz. rewrite <- E. apply Nat.mod_mul. lia. }
        destruct (Nat.ltb_spec (j * k) m); destruct (Nat.ltb_spec (j * k) (Datatypes.S m)); try reflexivity; lia.
  Qed.

  (* Every column j of the n/k+1 allocated columns is written exactly with the
     measurement of the state after j*k steps and the time index j*k; nothing is
     written out of range; the system has performed n steps. *)
  Theorem run_every n k s0 : 1 <= k ->
    run n (Every k) s0 =
    {| sys := iter n s0;
       cols := map (fun j => Some (measure (iter (j * k) s0), j * k)) (seq 0 (n / k + 1));
       err := false |}.
  Proof.
    intros Hk. unfold run. rewrite run_every_inv by lia.
    replace (pred (n + 1)) with n by lia. f_equal.
    apply map_ext_in. intros j Hj. apply in_seq in Hj. unfold colf.
    destruct (Nat.ltb_spec (j * k) (n + 1)) as [|Hge]; [reflexivity|].
    exfalso. assert (j <= n / k) by lia.
    pose proof (Nat.mul_div_le n k ltac:(lia)).
    assert (j * k <= n / k * k) by (apply Nat.mul_le_mono_r; lia). lia.
  Qed.

  Lemma run_inf_inv n s0 : forall m, m <= n + 1 ->
    fold_left (iter1 n Inf) (seq 0 m) (init_st S V n Inf s0) =
    {| sys := iter (pred m) s0;
       cols := if Nat.leb m n then [None] else [Some (measure (iter n s0), n)];
       err := false |}.
  Proof.
    induction m as [|m IH]; intros Hm.
    - cbn [seq fold_left pred]. unfold init_st, width. cbn. reflexivity.
    - rewrite seq_S, fold_left_app, IH by lia. cbn [fold_left Nat.add pred].
      unfold iter1. cbn [sys cols err].
      assert (Hsys : forall c : list (option (V * nat)), (if Nat.eqb m 0 then {| sys := iter (pred m) s0; cols := c; err := false |}
                      else {| sys := step (iter (pred m) s0); cols := c; err := false |})
                     = {| sys := iter m s0; cols := c; err := false |}).
      { intros c. destruct m; reflexivity. }
      rewrite Hsys. cbn [sys cols err should_eval result_index].
      destruct (Nat.leb_spec m n) as [Hle|Hgt]; [|lia].
      destruct (Nat.eqb_spec m n) as [->|Hne].
      + cbn [write]. destruct (Nat.leb_spec (Datatypes.S n) n); [lia|reflexivity].
      + destruct (Nat.leb_spec (Datatypes.S m) n); [reflexivity|lia].
  Qed.

  Theorem run_inf n s0 :
    run n Inf s0 = {| sys := iter n s0; cols := [Some (measure (iter n s0), n)]; err := false |}.
  Proof.
    unfold run. rewrite run_inf_inv by lia. replace (pred (n + 1)) with n by lia.
    destruct (Nat.leb_spec (n + 1) n); [lia|reflexivity].
  Qed.

  (* the total number of calls of run_one_time_step is n, for either evaluation mode *)
  Corollary run_steps n e s0 : (match e with Every k => 1 <= k | Inf => True end) ->
    sys (run n e s0) = iter n s0.
  Proof. destruct e as [k|]; intros H; [rewrite run_every by exact H|rewrite run_inf]; reflexivity. Qed.
End RunProofs.

(* ---- result addressing: a key addresses the row at its insertion position ---------- *)
Lemma index_of_nth {A} (eqb : A -> A -> bool) (eqb_eq : forall a b, eqb a b = true <-> a = b)
      (k d : A) (l : list A) i :
  index_of eqb k l = Some i -> nth i l d = k /\ i < length l /\ (forall j, j < i -> nth j l d <> k).
Proof.
  revert i. induction l as [|h t IH]; intros i; cbn [index_of]; [discriminate|].
  destruct (eqb k h) eqn:E.
  - intros [= <-]. apply eqb_eq in E. subst. cbn. repeat split; [lia|intros j Hj; lia].
  - destruct (index_of eqb k t) as [i'|]; cbn [option_map]; [|discriminate].
    intros [= <-]. destruct (IH i' eq_refl) as (A1 & A2 & A3). cbn [nth length]. repeat split; [exact A1|lia|].
    intros [|j] Hj; cbn [nth].
    + intro Hh. subst h. assert (eqb k k = true) by (apply eqb_eq; reflexivity). congruence.
    + apply A3. lia.
Qed.

Lemma index_of_in {A} (eqb : A -> A -> bool) (eqb_eq : forall a b, eqb a b = true <-> a = b)
      (k : A) (l : list A) : In k l -> exists i, index_of eqb k l = Some i.
Proof.
  induction l as [|h t IH]; [intros []|]. intros [->|Hin]; cbn [index_of].
  - assert (eqb k k = true) as -> by (apply eqb_eq; reflexivity). eauto.
  - destruct (eqb k h); [eauto|]. destruct (IH Hin) as [i ->]. cbn. eauto.
Qed.
