(* [ext-C18X] Model of the TimeEvolution driver as a state machine (definitions only; proofs in RunStateProofs.v).

   Code covered (pytreenet/time_evolution/time_evolution.py unless stated):
     __init__ 52-67 (aliasing of `_initial_state`, deepcopy into `state`, operator containers,
       `_init_operator_index_dict` 83-103), `results` / `check_result_exists` 119-125, 163-169,
     `times` 177-181, `operator_result` 183-205, `operator_results` 207-221, `evaluate_operators` 242-254,
     `init_results` 296-318, `save_operator_results` 320-331, `save_time` 333-342, `result_index` 344-361,
     `should_evaluate` 363-381, `evaluate_and_save_results` 383-401, `run` 417-439 (without the file output),
     `reset_to_initial_state` 441-445;
     ttn_time_evolution.py: bond-dimension record `__init__` 66-69, `record_bond_dimensions` 100-109,
       `operator_result` 111-131 (the "bond_dim" key), `evaluate_operators` 133-139.

   The state type St, the step, the operator type and the evaluation are abstract (Section variables);
   `evalt`, `width`, `should_eval`, `result_index`, `iter`, `index_of` are those of Driver/Run.v.

   Objects and references.  Python objects live in a heap `nat -> St` (address -> content); `next` is the
   first unused address.  The driver holds TWO references: `init_ref` — which IS the caller's object
   (`self._initial_state = initial_state`, no copy) — and `state_ref` (`self.state`), a fresh object
   holding a deep copy.  A run reads the content of `state_ref`, performs the loop on it and stores the
   evolved content back at `state_ref` (one store for the whole loop: the intermediate stores of the
   n in-place steps are not observable by the commands modelled here); `reset_to_initial_state` allocates a
   fresh object with the content of `init_ref`.  Nothing else writes to the heap. *)
From Coq Require Import ZArith List Bool Arith.
From PTN Require Import Driver.Run.
Import ListNotations.

(* list helpers: in-place update of a position (no-op when out of range), zip-with *)
Fixpoint upd {A} (j : nat) (x : A) (l : list A) : list A :=
  match l, j with
  | [], _ => []
  | _ :: t, O => x :: t
  | h :: t, S j' => h :: upd j' x t
  end.

Fixpoint zipw {A B C} (f : A -> B -> C) (la : list A) (lb : list B) : list C :=
  match la, lb with
  | a :: ta, b :: tb => f a b :: zipw f ta tb
  | _, _ => []
  end.

(* numpy integer indexing of an axis of length len: 0 <= i < len, or -len <= i < 0 counted from the end;
   anything else raises IndexError (None) *)
Definition np_index (len : nat) (i : Z) : option nat :=
  if (0 <=? i)%Z then (if (i <? Z.of_nat len)%Z then Some (Z.to_nat i) else None)
  else if (- Z.of_nat len <=? i)%Z then Some (Z.to_nat (Z.of_nat len + i)) else None.

Section RunState.
  Variables (St Op V K : Type).
  Variable step : St -> St.                (* run_one_time_step *)
  Variable eval : Op -> St -> V.           (* evaluate_operator *)
  Variable re : V -> V.                    (* numpy.real on one entry *)
  Variable bdims : St -> list nat.         (* values of state.bond_dims() in dictionary order *)
  Variable keqb : K -> K -> bool.          (* equality of dictionary keys *)

  (* ---- the results array ------------------------------------------------------------------- *)
  (* an entry of the complex array: the zero np.zeros put there, a recorded value, or the time
     time_step * time_step_size of time step i (a real number) *)
  Inductive cell := CZero | CVal (v : V) | CTime (i : nat).
  Definition table := list (list cell).      (* rows; the LAST row is the time row *)

  Definition real_cell (c : cell) : cell :=
    match c with CVal v => CVal (re v) | c => c end.

  (* init_results: np.zeros((len(operators)+1, n // k + 1)) resp. (len(operators)+1, 1);
     k = 0 raises ZeroDivisionError before anything is assigned *)
  Definition init_results (nops n : nat) (e : evalt) : option table :=
    match e with
    | Every O => None
    | _ => Some (repeat (repeat CZero (width n e)) (nops + 1))
    end.

  Definition tab_width (t : table) : nat := length (last t []).

  (* self._results[0:-1, index] = results *)
  Definition save_operator_results (vals : list V) (j : nat) (t : table) : table :=
    zipw (fun row v => upd j (CVal v) row) (removelast t) vals ++ [last t []].

  (* self._results[-1, index] = time_step * self.time_step_size *)
  Definition save_time (i j : nat) (t : table) : table :=
    removelast t ++ [upd j (CTime i) (last t [])].

  Definition evaluate_operators (ops : list Op) (s : St) : list V := map (fun o => eval o s) ops.

  (* TTNTimeEvolution.record_bond_dimensions; None: not recording, Some rows: one row per bond *)
  Definition brec := option (list (list nat)).
  Definition record_bond (s : St) (b : brec) : brec :=
    match b with
    | None => None
    | Some [] => Some (map (fun v => [v]) (bdims s))
    | Some rows => Some (zipw (fun row v => row ++ [v]) rows (bdims s))
    end.

  (* one pass of the loop body of `run` for time step i; None = an exception (IndexError of numpy
     for a column outside the array) *)
  Definition lit_iter (ops : list Op) (n : nat) (e : evalt)
             (acc : option (St * table * brec)) (i : nat) : option (St * table * brec) :=
    match acc with
    | None => None
    | Some (s, t, b) =>
        let s1 := if Nat.eqb i 0 then s else step s in
        if should_eval n e i then
          let j := result_index e i in
          let vals := evaluate_operators ops s1 in
          let b1 := record_bond s1 b in
          if Nat.ltb j (tab_width t) then Some (s1, save_time i j (save_operator_results vals j t), b1)
          else None
        else Some (s1, t, b)
    end.

  Definition run_loop (ops : list Op) (n : nat) (e : evalt) (s : St) (b : brec) : option (St * table * brec) :=
    match init_results (length ops) n e with
    | None => None
    | Some t0 => fold_left (lit_iter ops n e) (seq 0 (n + 1)) (Some (s, t0, b))
    end.

  (* ---- operator containers -------------------------------------------------------------------- *)
  Inductive container := Single (o : Op) | OList (l : list Op) | ODict (l : list (K * Op)).
  Definition c_ops (c : container) : list Op :=
    match c with Single o => [o] | OList l => l | ODict l => map snd l end.
  Definition c_keys (c : container) : list K :=
    match c with ODict l => map fst l | _ => [] end.

  (* ---- the driver ------------------------------------------------------------------------------- *)
  Record driver := {
    heap : nat -> St; next : nat;
    init_ref : nat;                 (* self._initial_state: the caller's object itself *)
    state_ref : nat;                (* self.state *)
    nsteps : nat; d_ops : list Op; d_keys : list K;
    results : option table;         (* self._results, None before the first run *)
    bond : brec }.                  (* TTNTimeEvolution.bond_dims *)

  Definition hset (h : nat -> St) (r : nat) (v : St) : nat -> St :=
    fun a => if Nat.eqb a r then v else h a.

  (* __init__: the caller's object is at address `caller` of the heap h whose first unused address is nx *)
  Definition new_driver (h : nat -> St) (nx caller n : nat) (c : container) (record : bool) : driver :=
    {| heap := hset h nx (h caller); next := nx + 1; init_ref := caller; state_ref := nx;
       nsteps := n; d_ops := c_ops c; d_keys := c_keys c; results := None;
       bond := if record then Some [] else None |}.

  Inductive cmd := Run (e : evalt) | Reset.

  (* None = the command raised *)
  Definition exec (c : cmd) (d : driver) : option driver :=
    match c with
    | Run e =>
        match run_loop (d_ops d) (nsteps d) e (heap d (state_ref d)) (bond d) with
        | None => None
        | Some (s, t, b) =>
            Some {| heap := hset (heap d) (state_ref d) s; next := next d; init_ref := init_ref d;
                    state_ref := state_ref d; nsteps := nsteps d; d_ops := d_ops d; d_keys := d_keys d;
                    results := Some t; bond := b |}
        end
    | Reset =>
        Some {| heap := hset (heap d) (next d) (heap d (init_ref d)); next := next d + 1;
                init_ref := init_ref d; state_ref := next d; nsteps := nsteps d; d_ops := d_ops d;
                d_keys := d_keys d; results := results d; bond := bond d |}
    end.

  (* a command that raises leaves the driver as it was: the only exception the commands can raise
     (RunStateProofs.exec_none_iff) is the ZeroDivisionError of init_results, raised before any assignment *)
  Definition exec_total (d : driver) (c : cmd) : driver :=
    match exec c d with Some d' => d' | None => d end.

  Definition exec_all (cs : list cmd) (d : driver) : driver := fold_left exec_total cs d.

  (* the environment: the caller mutates the object it passed in (not a driver command) *)
  Definition caller_write (f : St -> St) (d : driver) : driver :=
    {| heap := hset (heap d) (init_ref d) (f (heap d (init_ref d))); next := next d; init_ref := init_ref d;
       state_ref := state_ref d; nsteps := nsteps d; d_ops := d_ops d; d_keys := d_keys d;
       results := results d; bond := bond d |}.

  (* ---- accessors (None = the accessor raises) ------------------------------------------------------ *)
  Inductive opid := ByKey (k : K) | ByPos (i : Z).

  (* TimeEvolution.operator_result; the flag says whether the returned array is real (np.real applied) *)
  Definition operator_result (d : driver) (id : opid) (realise : bool) : option (bool * list cell) :=
    match results d with
    | None => None                                        (* check_result_exists *)
    | Some t =>
        let pos := match id with
                   | ByKey k => option_map Z.of_nat (index_of keqb k (d_keys d))   (* KeyError *)
                   | ByPos i => Some i
                   end in
        match pos with
        | None => None
        | Some i => match np_index (length t) i with
                    | None => None                                                 (* IndexError *)
                    | Some r => match nth_error t r with
                                | None => None
                                | Some row => Some (realise, if realise then map real_cell row else row)
                                end
                    end
        end
    end.

  Definition operator_results (d : driver) (realise : bool) : option (bool * table) :=
    match results d with
    | None => None
    | Some t => Some (realise, if realise then map (map real_cell) (removelast t) else removelast t)
    end.

  (* times(): np.real(results[-1]) + 0.0 — always a real array *)
  Definition times (d : driver) : option (list cell) :=
    match results d with
    | None => None
    | Some t => match t with [] => None | _ => Some (map real_cell (last t [])) end
    end.

  (* TTNTimeEvolution.operator_result("bond_dim"): `self.records_bond_dim is not None` is always true,
     so the dictionary — or None when nothing is recorded — is returned, never the ValueError *)
  Definition bond_dim_result (d : driver) : brec := bond d.

  (* ---- closed forms used by the theorems ------------------------------------------------------------ *)
  Definition table_every (ops : list Op) (n k : nat) (s : St) : table :=
    map (fun o => map (fun j => CVal (eval o (iter St step (j * k) s))) (seq 0 (n / k + 1))) ops
    ++ [map (fun j => CTime (j * k)) (seq 0 (n / k + 1))].

  Definition table_inf (ops : list Op) (n : nat) (s : St) : table :=
    map (fun o => [CVal (eval o (iter St step n s))]) ops ++ [[CTime n]].

  Definition table_of (ops : list Op) (n : nat) (e : evalt) (s : St) : table :=
    match e with Every k => table_every ops n k s | Inf => table_inf ops n s end.

  Definition op_row (n : nat) (e : evalt) (s : St) (o : Op) : list cell :=
    match e with
    | Every k => map (fun j => CVal (eval o (iter St step (j * k) s))) (seq 0 (n / k + 1))
    | Inf => [CVal (eval o (iter St step n s))]
    end.
  Definition time_row (n : nat) (e : evalt) : list cell :=
    match e with Every k => map (fun j => CTime (j * k)) (seq 0 (n / k + 1)) | Inf => [CTime n] end.

  (* the time steps at which the operators are evaluated, in order *)
  Definition eval_steps (n : nat) (e : evalt) : list nat := filter (should_eval n e) (seq 0 (n + 1)).

  (* the bond record after the snapshots of the states in l were appended to b *)
  Definition bond_after (l : list St) (b : brec) : brec := fold_left (fun b s => record_bond s b) l b.

  (* what an observer sees of a driver: results, content of self.state, of self._initial_state, bond record *)
  Definition observe (d : driver) : option table * St * St * brec :=
    (results d, heap d (state_ref d), heap d (init_ref d), bond d).

  (* the observations after every command of a history *)
  Fixpoint trace (cs : list cmd) (d : driver) : list (bool * (option table * St * St * brec)) :=
    match cs with
    | [] => []
    | c :: cs' => let raised := match exec c d with None => true | Some _ => false end in
                  let d' := exec_total d c in (raised, observe d') :: trace cs' d'
    end.
End RunState.

Arguments CZero {V}. Arguments CVal {V}. Arguments CTime {V}.
Arguments Single {Op K}. Arguments OList {Op K}. Arguments ODict {Op K}.
Arguments ByKey {K}. Arguments ByPos {K}.
Arguments heap {St Op V K}. Arguments next {St Op V K}. Arguments init_ref {St Op V K}.
Arguments state_ref {St Op V K}. Arguments nsteps {St Op V K}. Arguments d_ops {St Op V K}.
Arguments d_keys {St Op V K}. Arguments results {St Op V K}. Arguments bond {St Op V K}.

(* ---- counting instance used by the correspondence check (harness/props/c18x.py) ---------------------------
   state: an integer (the number of steps performed so far, starting from the caller's 0 at address 0);
   operator (a, b, c): the affine function s |-> a*s + b with imaginary part c; np.real drops c;
   bond dimensions s+1 and 2s+1; dictionary keys are numbers. *)
Definition cnt_eval (o : Z * Z * Z) (s : Z) : Z * Z := let '(a, b, c) := o in ((a * s + b)%Z, c).
Definition cnt_re (v : Z * Z) : Z * Z := (fst v, 0%Z).
Definition cnt_bdims (s : Z) : list nat := [Z.to_nat (s + 1); Z.to_nat (2 * s + 1)].
Definition enc_cell (c : cell (Z * Z)) : Z * Z * Z :=
  match c with CZero => (0, 0, 0)%Z | CVal (x, y) => (1%Z, x, y) | CTime i => (2%Z, Z.of_nat i, 0%Z) end.
Definition enc_tab (t : table (Z * Z)) : list (list (Z * Z * Z)) := map (map enc_cell) t.

Definition cnt_driver (n : nat) (c : container (Z * Z * Z) nat) (record : bool) :=
  new_driver Z (Z * Z * Z) (Z * Z) nat (fun _ => 0%Z) 1 0 n c record.

(* a history: driver commands and writes of the caller to its own object (adds z) *)
Definition cnt_step1 (d : driver Z (Z * Z * Z) (Z * Z) nat) (x : cmd + Z) :=
  match x with
  | inl c => exec_total Z _ _ nat Z.succ cnt_eval cnt_bdims d c
  | inr z => caller_write Z _ _ nat (Z.add z) d
  end.

Fixpoint cnt_trace (xs : list (cmd + Z)) (d : driver Z (Z * Z * Z) (Z * Z) nat) :=
  match xs with
  | [] => []
  | x :: xs' =>
      let raised := match x with
                    | inl c => match exec Z _ _ nat Z.succ cnt_eval cnt_bdims c d with None => true | Some _ => false end
                    | inr _ => false end in
      let d' := cnt_step1 d x in
      (raised, option_map enc_tab (results d'), heap d' (state_ref d'), heap d' (init_ref d'), bond d',
       Nat.eqb (init_ref d') 0, Nat.eqb (state_ref d') 0) :: cnt_trace xs' d'
  end.

Definition enc_res (r : option (bool * list (cell (Z * Z)))) := option_map (fun p => (fst p, map enc_cell (snd p))) r.

Definition cnt_access (xs : list (cmd + Z)) (d : driver Z (Z * Z * Z) (Z * Z) nat) (ids : list (opid nat)) :=
  let d' := fold_left cnt_step1 xs d in
  (map (fun id => (enc_res (operator_result Z _ _ nat cnt_re Nat.eqb d' id false),
                   enc_res (operator_result Z _ _ nat cnt_re Nat.eqb d' id true))) ids,
   option_map (map enc_cell) (times Z _ _ nat cnt_re d'),
   option_map (fun p => (fst p, enc_tab (snd p))) (operator_results Z _ _ nat cnt_re d' true)).

Definition cnt_case (n : nat) (c : container (Z * Z * Z) nat) (record : bool) (xs : list (cmd + Z)) (ids : list (opid nat)) :=
  (cnt_trace xs (cnt_driver n c record), cnt_access xs (cnt_driver n c record) ids,
   cnt_access [] (cnt_driver n c record) ids).
