(* Two-site TDVP over the Layer-W store: the two-site update of Evo/TDVPStore.v (legs_before_combination,
   contract_nodes(a, b, new), read + raw replacement of the contracted tensor, split with the recorded specifications,
   kind 4 = truncated SVD with a given bond dimension) keeps the store invariant and the tree, touches no third node,
   removes the temporary identifier and SUCCEEDS on two neighbouring nodes (adapted from TEBD/GateTree.v, whose middle
   operation is absorb_into_open_legs); moving the centre without assuming canonical form.  Proofs only. *)
From Coq Require Import List Arith Bool Lia Permutation ZArith.
From PTN Require Import TTN.Store TTN.StoreProofs TTN.Canon TTN.CanonProofs TTN.Inv TTN.InvProofs TTN.InvNode TTN.InvBuild
  TTN.InvContract TTN.InvSplit TTN.InvEdit TTN.CanonTree TTN.CanonMore TTN.CanonStep TTN.CanonDist TTN.CanonPath TTN.CanonIso.
From PTN Require Import Evo.TDVPStoreEffects.
From PTN Require Import TEBD.Trotter TEBD.TrotterProofs TEBD.GateTree.
From PTN Require Import Evo.TDVPStore.
Import ListNotations.

(* ==== part 1 ==== *)
(* ==== the two-site update (adapted from TEBD/GateTree.v: the middle operation is a read + raw replacement of the
        contracted tensor instead of absorb_into_open_legs; split kind 4, bond dimension given) =================== *)
Lemma site_update_inv s n s' : site_update s n = Some s' ->
  exists s1 nd t, access s n = Some (s1, nd, t) /\ nodes s' = nodes s1 /\ root s' = root s1 /\
    tensors s' = aset n {| axes := axes t; atoms := [next_atom s1]; bnd := [] |} (tensors s1) /\
    dims s' = dims s1 /\ next_wire s' = next_wire s1 /\ defs s' = defs s1.
Proof.
  unfold site_update. intros H. destruct (acc s n) as [s1|] eqn:E; [|discriminate].
  destruct (acc_inv _ _ _ E) as (nd & t & Ha). destruct (set_fresh_facts _ _ _ H) as (t1 & Et1 & Hn & Ht & Hr & Hd & Hw & Hdf & _).
  destruct (access_result _ _ _ _ _ Ha) as (_ & Et & _). rewrite Et in Et1. injection Et1 as <-.
  exists s1, nd, t. repeat split; auto.
Qed.

Record gate_chain2 (contr : id) (s : store) (a b : id) (bd : nat) (s1 s2 s3 : store) (na nb : node) (u v : legspec) : Prop := {
  g2_b : aget b (nodes s) = Some nb;
  g2_ok : pair_ok a na b nb;
  g2_ca : contr <> a;
  g2_cb : contr <> b;
  g2_new : ~ In contr (akeys (nodes s));
  g2_lbc : lbc_nodes a na b nb = Some (u, v);
  g2_c : contract_nodes s a b contr = Some s1;
  g2_a : site_update s1 contr = Some s2;
  g2_s : split_nodes s2 contr u v a b 4 Keep bd = Some s3;
  g2_wf1 : wf s1;
  g2_wf2 : wf s2;
  g2_spec : spec_ok s2 contr u v;
  g2_nv : forall nd, aget contr (nodes s2) = Some nd -> nvirt nd = nvirt na + nvirt nb - 2;
  g2_ids : ids_ok s2 contr a b;
  g2_wf3 : wf s3
}.

(* the contraction half: invariant, truthful specifications, admissible identifiers *)
Lemma gate_half2 contr s a b s1 s2 na nb u v :
  wf s -> aget a (nodes s) = Some na -> aget b (nodes s) = Some nb -> pair_ok a na b nb ->
  ~ In contr (akeys (nodes s)) -> lbc_nodes a na b nb = Some (u, v) ->
  contract_nodes s a b contr = Some s1 -> site_update s1 contr = Some s2 ->
  wf s1 /\ wf s2 /\ ids_ok s2 contr a b /\
  exists nd, aget contr (nodes s2) = Some nd /\ leg_ok nd u /\ leg_ok nd v /\ nvirt nd = nvirt na + nvirt nb - 2 /\
             nopen nd = nopen na + nopen nb.
Proof.
  intros W Ea Eb Hok Hnew Hl Hcn Hab.
  assert (Hca : contr <> a) by (intros ->; apply Hnew; eapply aget_Some_keys; eauto).
  assert (Hcb : contr <> b) by (intros ->; apply Hnew; eapply aget_Some_keys; eauto).
  assert (Hnew' : contr = a \/ contr = b \/ ~ In contr (akeys (nodes s))) by tauto.
  pose proof (contract_preserves_wf _ _ _ _ _ W Hcn Hnew') as W1.
  pose proof (site_update_wf _ _ _ W1 Hab) as W2.
  destruct (contract_inv2 _ _ _ _ _ W Hcn Hnew') as (p & c & s2c & pn & cn & nn & ax & nt & F & Hoth & (pn0 & cn0 & Ep0 & Ec0 & -> & ->) & _).
  destruct F as [Fpc Fab Fwf2 Fp Fc Fpar Fpp Fpc' Fax Ftd Fnn Fkeys Flax Fatoms Fends Ftkeys Fview].
  destruct Fview as (V1 & V2 & V3 & V4 & V5 & V6 & V7 & V8 & V9).
  destruct (create_contracted_node_structure _ _ _ _ _ _ Fnn) as [Hnp Hnc]. rewrite reset_parent in Hnp. rewrite !reset_children in Hnc.
  destruct (site_update_inv _ _ _ Hab) as (s1a & nd & t & Hacc & En2 & _).
  destruct (access_result _ _ _ _ _ Hacc) as (B1 & _ & _ & B4 & _ & _ & _ & B8 & (nd0 & B9 & B10 & B11)).
  rewrite V2 in B9. injection B9 as <-.
  destruct (contract_open_rule _ _ _ _ _ na nb W Hcn Hnew' Ea Eb) as (nn' & Enn' & Hopen & _).
  rewrite V2 in Enn'. injection Enn' as <-.
  split; [exact W1|]. split; [exact W2|]. split.
  { unfold ids_ok. rewrite En2, B8. split; right; apply aget_None.
    - destruct Fpc as [[-> ->]|[-> ->]]; [apply V3|apply V4]; congruence.
    - destruct Fpc as [[-> ->]|[-> ->]]; [apply V4|apply V3]; congruence. }
  exists nd. split; [rewrite En2; exact B1|].
  assert (Hno : nopen nd = nopen na + nopen nb).
  { destruct (access_inv _ _ _ _ _ Hacc) as (x & y & X1 & _ & -> & _). rewrite V2 in X1. injection X1 as <-.
    rewrite nopen_reset.
    rewrite <- (open_of_length nn (tens s1 contr)), Hopen, app_length, !open_of_length. reflexivity. }
  cut (leg_ok nd u /\ leg_ok nd v /\ nvirt nd = nvirt na + nvirt nb - 2); [tauto|].
  apply (lbc_leg_ok a na b nb u v nd Hok Hl).
  - intros Hin. rewrite B10, B11, Hnp, Hnc.
    destruct Fpc as [[-> ->]|[-> ->]].
    + rewrite Ea in Ep0. injection Ep0 as <-. rewrite Eb in Ec0. injection Ec0 as <-. rewrite Nat.eqb_refl. auto.
    + exfalso. rewrite Ea in Ec0. injection Ec0 as <-. rewrite reset_parent in Fpar.
      destruct (po_adj _ _ _ _ Hok) as [(_ & _ & _ & Hx)|(_ & _ & Hx & _)]; contradiction.
  - intros Hin. rewrite B10, B11, Hnp, Hnc.
    destruct Fpc as [[-> ->]|[-> ->]].
    + exfalso. rewrite Eb in Ec0. injection Ec0 as <-. rewrite reset_parent in Fpar.
      destruct (po_adj _ _ _ _ Hok) as [(_ & _ & Hx & _)|(_ & _ & _ & Hx)]; contradiction.
    + rewrite Eb in Ep0. injection Ep0 as <-. rewrite Ea in Ec0. injection Ec0 as <-.
      destruct (Nat.eqb_spec b a) as [E|_]; [congruence|]. auto.
Qed.

Lemma two_site_chain2 contr s a b bd s3 na :
  wf s -> aget a (nodes s) = Some na -> aget contr (nodes s) = None ->
  two_site_update s a b contr bd = Some s3 ->
  exists s1 s2 nb u v, gate_chain2 contr s a b bd s1 s2 s3 na nb u v.
Proof.
  intros W Ea Hc H. unfold two_site_update in H.
  destruct (legs_before_combination s a b) as [[u v]|] eqn:Hl; [|discriminate].
  destruct (contract_nodes s a b contr) as [t1|] eqn:Hcn; [|discriminate].
  destruct (site_update t1 contr) as [t2|] eqn:Hab; [|discriminate].
  rename H into Hs.
  unfold legs_before_combination in Hl. rewrite Ea in Hl.
  destruct (aget b (nodes s)) as [nb|] eqn:Eb; [|discriminate].
  assert (Hnbr : In b (neighbouring_nodes na)).
  { apply in_neighbouring. unfold lbc_nodes in Hl. destruct (memb a (children nb)) eqn:M1.
    - apply memb_In in M1. destruct (ni_ch _ _ _ (wf_node s W b nb Eb) a M1) as (na' & Ea' & Hp).
      rewrite Ea in Ea'. injection Ea' as <-. left. exact Hp.
    - destruct (memb b (children na)) eqn:M2; [|discriminate]. right. apply memb_In. exact M2. }
  pose proof (pair_ok_wf s a na b nb W Ea Eb Hnbr) as Hok.
  assert (Hca : contr <> a) by (intros ->; congruence).
  assert (Hcb : contr <> b) by (intros ->; congruence).
  assert (Hnew : ~ In contr (akeys (nodes s))) by (apply aget_None; exact Hc).
  destruct (gate_half2 _ _ _ _ _ _ _ _ _ _ W Ea Eb Hok Hnew Hl Hcn Hab) as (W1 & W2 & Hids & nd & End & L1 & L2 & Hnv0 & _).
  assert (Hspec : spec_ok t2 contr u v) by (intros ndx Ex; rewrite End in Ex; injection Ex as <-; auto).
  assert (Hnv : forall ndx, aget contr (nodes t2) = Some ndx -> nvirt ndx = nvirt na + nvirt nb - 2)
    by (intros ndx Ex; rewrite End in Ex; injection Ex as <-; auto).
  pose proof (split_preserves_wf _ _ _ _ _ _ _ _ _ _ W2 Hs Hspec Hids) as W3.
  exists t1, t2, nb, u, v. constructor; auto.
Qed.

(* ---- orientation: which of the two nodes is the upper one ---------------------------------------- *)
Lemma gate_oriented2 contr s a b bd0 s1 s2 s3 na nb u v :
  wf s -> aget a (nodes s) = Some na ->
  gate_chain2 contr s a b bd0 s1 s2 s3 na nb u v ->
  exists p c pn0 cn0 su sl,
    ((p = a /\ c = b /\ pn0 = na /\ cn0 = nb /\ su = u /\ sl = v) \/ (p = b /\ c = a /\ pn0 = nb /\ cn0 = na /\ su = v /\ sl = u)) /\
    aget p (nodes s) = Some pn0 /\ aget c (nodes s) = Some cn0 /\ parent cn0 = Some p /\ In c (children pn0) /\
    parent pn0 <> Some c /\ p <> c /\
    ls_parent su = parent pn0 /\ ls_children su = remove_first c (children pn0) /\
    ls_parent sl = None /\ ls_children sl = children cn0 /\
    exists s2a nd2 t2 cU cL nU nL tU tL bd,
      access s2 contr = Some (s2a, nd2, t2) /\ wf s2a /\
      split_view s2a s3 contr nd2 t2 p c su sl cU cL nU nL tU tL bd.
Proof.
  intros W Ea G. destruct G as [Eb Hok Hca Hcb Hnew Hl Hcn Hab Hs W1 W2 Hspec Hnv Hids W3].
  destruct (lbc_names _ _ _ _ _ _ Hok Hl) as (_ & _ & Hcase).
  destruct (split_view_of _ _ _ _ _ _ _ _ _ _ W2 Hs Hspec Hids)
    as (s2a & nd2 & t2 & ol & il & on2 & in2 & cO & cI & bd & Hacc & W2a & _ & _ & _ & _ & _ & _ & _ & _ & V).
  destruct Hcase as [(Hin & Hup & Huc & Hur & Hvp & Hvc & Hvr)|(Hin & Hup & Huc & Hur & Hvp & Hvc & Hvr)].
  - assert (Hpb : parent nb = Some a) by (destruct (po_adj _ _ _ _ Hok) as [(_ & ? & _)|(_ & _ & ? & _)]; [assumption|contradiction]).
    assert (Hpa : parent na <> Some b) by (destruct (po_adj _ _ _ _ Hok) as [(_ & _ & _ & ?)|(_ & ? & Hx & _)]; [assumption|contradiction]).
    exists a, b, na, nb, u, v. split; [left; tauto|]. repeat (split; [solve [auto | apply (po_ne _ _ _ _ Hok)]|]).
    exists s2a, nd2, t2, cO, cI, on2, in2, (sp_ot s2a t2 ol), (sp_it s2a t2 il), bd. split; [exact Hacc|]. split; [exact W2a|].
    destruct V as [[Hab' _]|[_ V]]; [|exact V].
    unfold sp_in_above in Hab'. rewrite Hvr, Hvp in Hab'. discriminate.
  - assert (Hpa : parent na = Some b).
    { destruct (po_adj _ _ _ _ Hok) as [(_ & _ & Hy & _)|(_ & ? & _)]; [contradiction|assumption]. }
    assert (Hpb : parent nb <> Some a) by (destruct (po_adj _ _ _ _ Hok) as [(Hx & _)|(_ & _ & _ & ?)]; [|assumption];
      destruct (po_adj _ _ _ _ Hok) as [(_ & _ & Hy & _)|(_ & _ & Hy & _)]; contradiction).
    exists b, a, nb, na, v, u. split; [right; tauto|].
    repeat (split; [solve [auto | apply not_eq_sym; apply (po_ne _ _ _ _ Hok)]|]).
    exists s2a, nd2, t2, cI, cO, in2, on2, (sp_it s2a t2 il), (sp_ot s2a t2 ol), bd. split; [exact Hacc|]. split; [exact W2a|].
    destruct V as [[_ V]|[Hab' _]]; [exact V|].
    unfold sp_in_above in Hab'. rewrite Hvr, Hvp in Hab'. unfold is_root in Hab'. destruct (parent nb); discriminate.
Qed.

(* ---- A1: a two-site gate gives the same tree back -------------------------------------------------- *)
Theorem two_site_update_same_tree contr s a b bd0 s3 na :
  wf s -> aget a (nodes s) = Some na -> aget contr (nodes s) = None ->
  two_site_update s a b contr bd0 = Some s3 ->
  In b (neighbouring_nodes na) /\ wf s3 /\
  same_tree (nodes s) (nodes s3) /\ root s3 = root s /\
  aget contr (nodes s3) = None /\ aget contr (tensors s3) = None /\
  (forall k, k <> a -> k <> b -> aget k (nodes s3) = aget k (nodes s) /\ aget k (tensors s3) = aget k (tensors s)).
Proof.
  intros W Ea Hc H.
  destruct (two_site_chain2 _ _ _ _ _ _ _ W Ea Hc H) as (s1 & s2 & nb & u & v & G).
  destruct (gate_oriented2 _ _ _ _ _ _ _ _ _ _ _ _ W Ea G) as (p & c & pn0 & cn0 & su & sl & Hor & Ep0 & Ec0 & Hparc & Hcin & Hppc & Hpc &
     Hsup & Hsuc & Hslp & Hslc & s2a & nd2 & t2 & cU & cL & nU & nL & tU & tL & bd & Hacc2 & W2a & V).
  pose proof G as G'. destruct G' as [Eb Hok Hca Hcb Hnew Hl Hcn Hab Hs W1 W2 Hspec Hnv Hids W3].
  assert (Hnew' : contr = a \/ contr = b \/ ~ In contr (akeys (nodes s))) by tauto.
  destruct (contract_inv2 _ _ _ _ _ W Hcn Hnew') as (p' & c' & s2c & pn & cn & nn & ax & nt & F & Hoth & (pn0' & cn0' & Ep0' & Ec0' & -> & ->) & _ & _ & _ & _ & _ & _ & _ & Hroot2c).
  destruct F as [Fpc Fab Fwf2 Fp Fc Fpar Fpp Fpc' Fax Ftd Fnn Fkeys Flax Fatoms Fends Ftkeys Fview].
  destruct Fview as (V1 & V2 & V3 & V4 & V5 & V6 & V7 & V8 & V9).
  rewrite reset_parent in Fpar.
  (* the two orientations agree *)
  assert (Hpp' : p' = p /\ c' = c).
  { destruct Hor as [(-> & -> & -> & -> & _)|(-> & -> & -> & -> & _)]; destruct Fpc as [[-> ->]|[-> ->]]; auto; exfalso.
    - rewrite Ea in Ec0'. injection Ec0' as <-. congruence.
    - rewrite Eb in Ec0'. injection Ec0' as <-. congruence. }
  destruct Hpp' as [-> ->]. rewrite Ep0 in Ep0'. injection Ep0' as <-. rewrite Ec0 in Ec0'. injection Ec0' as <-.
  rewrite reset_parent, !reset_children in V5.
  assert (Hcp_ne : contr <> p /\ contr <> c) by (destruct Hor as [(-> & -> & _)|(-> & -> & _)]; auto).
  destruct Hcp_ne as [Hcp Hcc].
  assert (Hab_k : forall k, k = a \/ k = b <-> k = p \/ k = c) by (intros k; destruct Hor as [(-> & -> & _)|(-> & -> & _)]; tauto).
  (* absorb and the two accesses of the temporary node *)
  destruct (site_update_inv _ _ _ Hab) as (s1a & nd1 & t1 & Hacc1 & En2 & Er2 & Et2 & _).
  destruct (access_result _ _ _ _ _ Hacc1) as (B1 & _ & _ & B4 & _ & _ & B7 & B8 & (nd10 & B9 & B10 & B11)).
  rewrite V2 in B9. injection B9 as <-.
  destruct (access_result _ _ _ _ _ Hacc2) as (C1 & _ & _ & C4 & _ & _ & C7 & C8 & (nd20 & C9 & C10 & C11)).
  rewrite En2, B1 in C9. injection C9 as <-.
  destruct (create_contracted_node_structure _ _ _ _ _ _ Fnn) as [Hnp Hnc]. rewrite reset_parent in Hnp.
  assert (Hnd2p : parent nd2 = parent pn0) by congruence.
  pose proof (wf_tstruct s W) as T.
  (* nodes other than the pair and the temporary one, along the way *)
  assert (Hmid_n : forall k, k <> p -> k <> c -> k <> contr ->
            aget k (nodes s2a) = option_map (rt p c contr (children pn0) (children cn0) (parent pn0) k) (aget k (nodes s))).
  { intros k K1 K2 K3. destruct (C4 k K3) as [-> _]. rewrite En2. destruct (B4 k K3) as [-> _].
    rewrite (V5 k K1 K2 K3). destruct (Hoth k K1 K2) as [-> _]. reflexivity. }
  assert (Hmid_t : forall k, k <> p -> k <> c -> k <> contr -> aget k (tensors s2a) = aget k (tensors s)).
  { intros k K1 K2 K3. destruct (C4 k K3) as [_ ->]. rewrite Et2, aget_aset_other by exact K3. destruct (B4 k K3) as [_ ->].
    rewrite V7, sp_aget_snoc_other by exact K3. rewrite !aget_adel_other by assumption. apply (Hoth k K1 K2). }
  assert (HcontrT : aget contr (tensors s) = None).
  { destruct (aget contr (tensors s)) eqn:E; [|reflexivity]. exfalso. apply Hnew. apply (wf_keys_iff s contr W).
    eapply aget_Some_keys; eauto. }
  assert (Hothers : forall k, k <> p -> k <> c -> aget k (nodes s3) = aget k (nodes s) /\ aget k (tensors s3) = aget k (tensors s)).
  { intros k K1 K2. destruct (Nat.eq_dec k contr) as [->|K3].
    - split.
      + rewrite Hc. destruct (aget contr (nodes s3)) eqn:E; [|reflexivity]. exfalso.
        apply aget_Some_keys in E. apply (sv_keys _ _ _ _ _ _ _ _ _ _ _ _ _ _ _ _ V) in E. destruct E as [E|[E|[E _]]]; congruence.
      + rewrite HcontrT. rewrite (sv_told _ _ _ _ _ _ _ _ _ _ _ _ _ _ _ _ V) by congruence. rewrite Nat.eqb_refl. reflexivity.
    - split.
      + pose proof (Hmid_n k K1 K2 K3) as Hm. destruct (aget k (nodes s)) as [nk0|] eqn:Ek0; cbn in Hm.
        * destruct (sv_old _ _ _ _ _ _ _ _ _ _ _ _ _ _ _ _ V k _ K3 Hm) as (nk' & E' & Hperm & Hshape & HpU & HpL & HpO & HcP & HcO).
          rewrite E'. f_equal. cbn [rt perm shape] in Hperm, Hshape. apply node_eq; auto.
          -- (* parent *)
             destruct (in_dec Nat.eq_dec k (children pn0)) as [I1|I1].
             ++ rewrite HpU by (rewrite Hsuc; apply remove_first_In_other; auto).
                destruct (ts_ch _ T p pn0 k Ep0 I1) as (nk0' & Ek0' & Hq). rewrite Ek0 in Ek0'. injection Ek0' as <-. symmetry. exact Hq.
             ++ destruct (in_dec Nat.eq_dec k (children cn0)) as [I2|I2].
                ** rewrite HpL by (rewrite Hslc; exact I2).
                   destruct (ts_ch _ T c cn0 k Ec0 I2) as (nk0' & Ek0' & Hq). rewrite Ek0 in Ek0'. injection Ek0' as <-. symmetry. exact Hq.
                ** rewrite HpO.
                   --- cbn [rt parent]. apply memb_false in I1. apply memb_false in I2. rewrite I1, I2. reflexivity.
                   --- rewrite Hsuc. intros Hx. apply I1. apply (remove_first_In _ _ _ Hx).
                   --- rewrite Hslc. exact I2.
          -- (* children *)
             destruct (option_eq_dec_id (parent pn0) (Some k)) as [Hpk|Hpk].
             ++ rewrite HcP by (rewrite Hnd2p; exact Hpk). cbn [rt children]. rewrite Hpk, Nat.eqb_refl.
                apply replace_first_back. intros Hx.
                destruct (ts_ch _ T k nk0 contr Ek0 Hx) as (xn & Ex & _). congruence.
             ++ rewrite HcO by (rewrite Hnd2p; exact Hpk). cbn [rt children].
                destruct (parent pn0) as [q|]; [|reflexivity]. destruct (Nat.eqb_spec k q) as [->|]; [exfalso; apply Hpk; reflexivity|reflexivity].
        * destruct (aget k (nodes s3)) eqn:E; [|reflexivity]. exfalso.
          apply aget_Some_keys in E. apply (sv_keys _ _ _ _ _ _ _ _ _ _ _ _ _ _ _ _ V) in E. destruct E as [E|[E|[_ E]]]; try congruence.
          apply keys_aget in E. destruct E as [x Ex]. congruence.
      + rewrite (sv_told _ _ _ _ _ _ _ _ _ _ _ _ _ _ _ _ V) by congruence. destruct (Nat.eqb_spec k contr); [contradiction|].
        apply Hmid_t; assumption. }
  (* the pair *)
  destruct (two_site_split_restores s2 contr a na b nb u v 4 Keep bd0 s3 Hok Hl Hca Hcb Hs)
    as (na' & nb' & Ea' & Eb' & Hpa' & Hca' & Hpb' & Hcb' & Hroot).
  assert (Hnbr : In b (neighbouring_nodes na)).
  { apply in_neighbouring. destruct Hor as [(-> & -> & -> & -> & _)|(-> & -> & -> & -> & _)]; auto. }
  assert (Hroot' : root s3 = root s).
  { rewrite Hroot. destruct (wf_root s W) as (r & rn & Hr & Er & Hpr & Hu). rewrite Hr.
    unfold is_root. destruct (parent na) eqn:Pa.
    - destruct (parent nb) eqn:Pb.
      + rewrite Er2, B7, V6, reset_parent, Hroot2c, Hr.
        destruct Hor as [(_ & _ & -> & _)|(_ & _ & -> & _)]; [rewrite Pa|rewrite Pb]; reflexivity.
      + f_equal. apply (Hu b nb Eb Pb).
    - f_equal. apply (Hu a na Ea Pa). }
  assert (Hoth_ab : forall k, k <> a -> k <> b -> aget k (nodes s3) = aget k (nodes s) /\ aget k (tensors s3) = aget k (tensors s)).
  { intros k K1 K2. apply Hothers; intros E; [destruct (proj2 (Hab_k k) (or_introl E))|destruct (proj2 (Hab_k k) (or_intror E))]; contradiction. }
  split; [exact Hnbr|]. split; [exact W3|]. split.
  { apply same_tree_intro; [apply (wf_nd s W)|apply (wf_nd s3 W3)|].
    intros k. destruct (Nat.eq_dec k a) as [->|K1].
    - rewrite Ea, Ea'. split; [symmetry; exact Hpa'|symmetry; exact Hca'].
    - destruct (Nat.eq_dec k b) as [->|K2].
      + rewrite Eb, Eb'. split; [symmetry; exact Hpb'|symmetry; exact Hcb'].
      + destruct (Hoth_ab k K1 K2) as [-> _]. destruct (aget k (nodes s)); auto. }
  split; [exact Hroot'|].
  assert (Hcpc : contr <> p /\ contr <> c) by auto.
  destruct (Hothers contr (proj1 Hcpc) (proj2 Hcpc)) as [X1 X2].
  split; [rewrite X1; exact Hc|]. split; [rewrite X2; exact HcontrT|]. exact Hoth_ab.
Qed.


Theorem two_site_update_some contr s a b bd na nb :
  wf s -> aget a (nodes s) = Some na -> aget b (nodes s) = Some nb -> In b (neighbouring_nodes na) ->
  aget contr (nodes s) = None ->
  exists s3, two_site_update s a b contr bd = Some s3.
Proof.
  intros W Ea Eb Hnbr Hc.
  pose proof (pair_ok_wf s a na b nb W Ea Eb Hnbr) as Hok.
  assert (Hnew : ~ In contr (akeys (nodes s))) by (apply aget_None; exact Hc).
  assert (Hnew' : contr = a \/ contr = b \/ ~ In contr (akeys (nodes s))) by tauto.
  assert (Hca : contr <> a) by (intros ->; congruence).
  assert (Hcb : contr <> b) by (intros ->; congruence).
  assert (Hl : exists u v, lbc_nodes a na b nb = Some (u, v)).
  { unfold lbc_nodes. destruct (po_adj _ _ _ _ Hok) as [(Hin & _)|(Hin & _)]; apply memb_In in Hin.
    - destruct (memb a (children nb)); [eauto|]. rewrite Hin. eauto.
    - rewrite Hin. eauto. }
  destruct Hl as (u & v & Hl).
  destruct (contract_succeeds s a b contr na nb W Ea Eb Hnbr Hnew) as [s1 Hcn].
  pose proof (contract_preserves_wf _ _ _ _ _ W Hcn Hnew') as W1.
  destruct (contract_open_rule _ _ _ _ _ na nb W Hcn Hnew' Ea Eb) as (nn & Enn & Hopen & _).
  destruct (site_update_some s1 contr W1) as [s2 Hab]; [apply amem_aget; eauto|].
  destruct (gate_half2 _ _ _ _ _ _ _ _ _ _ W Ea Eb Hok Hnew Hl Hcn Hab) as (_ & W2 & Hids & nd & End & L1 & L2 & Hnv & Hno).
  assert (Hlbc : legs_before_combination s a b = Some (u, v)) by (unfold legs_before_combination; rewrite Ea, Eb; exact Hl).
  destruct (contract_specs_partition s a b contr s1 na nb u v Ea Eb Hok Hlbc Hcn) as (nn' & lu & lv & Enn' & Flu & Flv & Hperm).
  rewrite Enn in Enn'. injection Enn' as <-.
  destruct (site_update_inv _ _ _ Hab) as (s1a & nd1 & t1 & Hacc & En2 & _).
  destruct (access_result _ _ _ _ _ Hacc) as (B1 & _ & _ & _ & _ & _ & _ & _ & (nd0 & B9 & B10 & B11)).
  rewrite Enn in B9. injection B9 as <-. rewrite En2, B1 in End. injection End as <-.
  destruct (lbc_specs_ok _ _ _ _ _ _ Hok Hl) as [Hass Hnd].
  assert (Hnl : nlegs nd1 = nlegs na + nlegs nb - 2).
  { pose proof (ni_virt _ _ _ (wf_node s2 W2 contr nd1 ltac:(rewrite En2; exact B1))) as Hv1.
    pose proof (po_va _ _ _ _ Hok). pose proof (po_vb _ _ _ _ Hok).
    assert (1 <= nvirt na /\ 1 <= nvirt nb).
    { destruct (po_adj _ _ _ _ Hok) as [(Hin & Hp & _)|(Hin & Hp & _)]; apply TrotterProofs.remove_first_length in Hin;
        unfold nvirt, nparents; rewrite Hp; split; destruct (parent na), (parent nb); nlia. }
    unfold nopen in Hno. nlia. }
  destruct (split_succeeds s2 contr nd1 u v a b 4 Keep bd lu lv) as [s3 Hs]; auto.
  - rewrite En2. exact B1.
  - rewrite <- Flu. apply find_leg_values_ext; assumption.
  - rewrite <- Flv. apply find_leg_values_ext; assumption.
  - rewrite Hnl. exact Hperm.
  - apply (po_ne _ _ _ _ Hok).
  - intros Hk. discriminate Hk.
  - exists s3. unfold two_site_update. rewrite Hlbc, Hcn, Hab. exact Hs.
Qed.

(* ==== part 2 ==== *)
(* ---- moving the centre without assuming canonical form: invariant, tree, success ------------------------------- *)
Lemma same_tree_none_e l l' k : same_tree l l' -> aget k l = None -> aget k l' = None.
Proof. intros [_ H] E. specialize (H k). rewrite E in H. destruct (aget k l'); [contradiction|reflexivity]. Qed.

Lemma qr_keep_struct s a b tmp s' :
  wf s -> aget tmp (nodes s) = None -> qr_to_neighbour s a b Keep tmp = Some s' ->
  wf s' /\ same_tree (nodes s) (nodes s') /\ aget tmp (nodes s') = None.
Proof.
  intros W Ht H. pose proof (wf_tstruct s W) as T.
  destruct (qr_step_effect _ _ _ _ _ _ T Ht H) as (nd0 & Ea & Hin & SE).
  destruct (step_same_tree _ _ _ _ _ _ T Ea Hin SE) as [S1 T1].
  split; [apply (qr_to_neighbour_wf _ _ _ _ _ _ W Ht H)|]. split; [exact S1|].
  apply (same_tree_none_e _ _ tmp S1 Ht).
Qed.

Lemma move_fold_struct tmp : forall l s cur cs',
  wf s -> aget tmp (nodes s) = None ->
  fold_left (move_step Keep tmp) l (Some (s, Some cur)) = Some cs' ->
  wf (fst cs') /\ same_tree (nodes s) (nodes (fst cs')) /\ aget tmp (nodes (fst cs')) = None.
Proof.
  induction l as [|nb l IH]; intros s cur cs' W Ht H; cbn [fold_left] in H.
  - injection H as <-. cbn [fst]. split; [exact W|]. split; [apply same_tree_refl|exact Ht].
  - cbn [move_step] in H. destruct (qr_to_neighbour s cur nb Keep tmp) as [s2|] eqn:E; [|rewrite move_fold_none in H; discriminate].
    destruct (qr_keep_struct s cur nb tmp s2 W Ht E) as (W2 & S2 & R2).
    destruct (IH s2 nb cs' W2 R2 H) as (W3 & S3 & R3).
    split; [exact W3|]. split; [exact (same_tree_trans _ _ _ S2 S3)|exact R3].
Qed.

Lemma move_center_struct s c0 c tmp cs' :
  wf s -> aget tmp (nodes s) = None -> amem c0 (nodes s) = true -> amem c (nodes s) = true ->
  move_center (s, Some c0) c Keep tmp = Some cs' ->
  wf (fst cs') /\ same_tree (nodes s) (nodes (fst cs')) /\ aget tmp (nodes (fst cs')) = None /\ snd cs' = Some c.
Proof.
  intros W Ht Hc0 Hc H.
  assert (Hsnd : snd cs' = Some c).
  { apply (move_center_reaches (s, Some c0) c0 c Keep tmp cs'); auto. apply (wf_tstruct s W). }
  unfold move_center in H. cbn [fst snd] in H. destruct (Nat.eqb c0 c).
  - injection H as <-. cbn [fst]. split; [exact W|]. split; [apply same_tree_refl|]. split; [exact Ht|exact Hsnd].
  - destruct (move_fold_struct tmp _ s c0 cs' W Ht H) as (A & B & C). auto.
Qed.

Lemma move_fold_some_struct tmp : forall l s cur,
  wf s -> aget tmp (nodes s) = None -> walk s (cur :: l) ->
  exists cs', fold_left (move_step Keep tmp) l (Some (s, Some cur)) = Some cs'.
Proof.
  induction l as [|nb l IH]; intros s cur W Ht Hw; cbn [fold_left]; [eauto|].
  cbn [move_step]. destruct Hw as [(nd & Ec & Hin) Hw].
  destruct (qr_to_neighbour_some s cur nb tmp nd W Ec Hin Ht) as [s2 E]. rewrite E.
  destruct (qr_keep_struct s cur nb tmp s2 W Ht E) as (W2 & S2 & R2).
  apply (IH s2 nb W2 R2).
  clear -Hw S2. revert nb Hw. induction l as [|y l IHl]; intros nb Hw; [exact I|].
  destruct Hw as [(n & En & Hy) Hw]. split; [|apply IHl; exact Hw].
  destruct (same_tree_some _ _ _ _ S2 En) as (n' & En' & _). exists n'. split; [exact En'|].
  apply (Permutation_in _ (same_tree_neighbours _ _ _ _ _ S2 En En')). exact Hy.
Qed.

Lemma move_center_some_struct s c0 c tmp :
  wf s -> aget tmp (nodes s) = None -> amem c0 (nodes s) = true -> amem c (nodes s) = true ->
  exists cs', move_center (s, Some c0) c Keep tmp = Some cs'.
Proof.
  intros W Ht Hc0 Hc. unfold move_center. cbn [fst snd]. destruct (Nat.eqb c0 c); [eauto|].
  pose proof (wf_tstruct s W) as T.
  destruct (path_from_to_head s c0 c T Hc0 Hc) as [l El]. rewrite El. cbn [tl].
  apply (move_fold_some_struct tmp l s c0 W Ht).
  pose proof (path_from_to_walk s c0 c T Hc0 Hc) as Hw. rewrite El in Hw. exact Hw.
Qed.
