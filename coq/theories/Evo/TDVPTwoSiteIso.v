(* Two-site TDVP over the Layer-W store: the canonical-form clause.  The extended isometry attribute iso_check2 of
   Evo/TDVPStore.v (every non-centre node is the single first-factor atom of a QR call, kind 0, or of a truncated SVD,
   kind 4, whose bond wire sits on the node's leg toward the centre) is an invariant of every event of the two-site
   trace: reading a tensor, replacing the centre's tensor, moving the centre by QR, and the two-site update
   (contract, evolve, split by truncated SVD: the first factor U stays on the node the centre leaves).  Hence one
   step of SecondOrderTwoSiteTDVP started in canonical form at update_path[0] ends in canonical form at
   update_path[0], on every tree.  Proofs only. *)
From Coq Require Import List Arith Bool Lia Permutation ZArith.
From PTN Require Import Tree.RTree Tree.RTreeProofs Tree.Nav Tree.UpdatePath Tree.UpdatePathProofs Tree.CachePath
  Sched.TDVP Sched.TDVPProofs Sched.TDVPFreshU.
From PTN Require Import TTN.Store TTN.StoreProofs TTN.Canon TTN.CanonProofs TTN.Inv TTN.InvProofs TTN.InvNode TTN.InvBuild
  TTN.InvContract TTN.InvSplit TTN.InvEdit TTN.CanonTree TTN.CanonMore TTN.CanonStep TTN.CanonDist TTN.CanonPath TTN.CanonIso.
From PTN Require Import Evo.TDVPStoreEffects.
From PTN Require Import TEBD.Trotter TEBD.TrotterProofs TEBD.GateTree.
From PTN Require Import Evo.TDVPStore Evo.TDVPTwoSite Evo.TDVPStoreProofs.
Import ListNotations.

(* ==== part 1: the attribute as a proposition ===================================================================== *)
(* node k is a single atom, the first factor of a QR call (kind 0) or of a truncated SVD (kind 4), whose bond wire
   sits on k's leg toward the neighbour that is one step closer to the centre (w.r.t. the distance table d) *)
Definition good2 (d : list (id * nat)) (s : store) (k : id) : Prop :=
  exists nd t a leg nb df,
    aget k (nodes s) = Some nd /\ aget k (tensors s) = Some t /\ atoms t = [a] /\
    In nb (neighbouring_nodes nd) /\ S (dget d nb) = dget d k /\ neighbour_index nd nb = Some leg /\
    In df (defs s) /\ kq df = a /\ (kkind df = 0 \/ kkind df = 4) /\ kbond df = nth (nth leg (perm nd) 0) (axes t) 0.

Lemma good_good2 d s k : good d s k -> good2 d s k.
Proof.
  intros (nd & t & a & leg & nb & df & G1 & G2 & G3 & G4 & G5 & G6 & G7 & G8 & G9 & G10).
  exists nd, t, a, leg, nb, df. repeat split; auto.
Qed.

(* the executable checker, unfolded *)
Lemma iso_check2_sound cs : iso_check2 cs = true ->
  exists c, snd cs = Some c /\
  forall k nd, In (k, nd) (nodes (fst cs)) -> k <> c ->
  exists t nb a leg df,
    aget k (tensors (fst cs)) = Some t /\
    toward (fst cs) (distance_to_node (fst cs) c) nd = Some nb /\
    atoms t = [a] /\ neighbour_index nd nb = Some leg /\
    In df (defs (fst cs)) /\ kq df = a /\ (kkind df = 0 \/ kkind df = 4) /\
    kbond df = nth (nth leg (perm nd) 0) (axes t) 0.
Proof.
  unfold iso_check2. destruct (snd cs) as [c|]; [|discriminate]. intros H. exists c. split; [reflexivity|].
  intros k nd Hin Hne. rewrite forallb_forall in H. specialize (H _ Hin). cbn [fst] in H.
  apply orb_true_iff in H. destruct H as [H|H].
  - apply Nat.eqb_eq in H. congruence.
  - unfold iso_node2 in H.
    destruct (aget k (tensors (fst cs))) as [t|] eqn:E1; [|discriminate].
    destruct (toward (fst cs) (distance_to_node (fst cs) c) nd) as [nb|] eqn:E2; [|discriminate].
    destruct (atoms t) as [|a [|? ?]] eqn:Ea; try discriminate.
    destruct (neighbour_index nd nb) as [leg|] eqn:E3; [|discriminate].
    apply existsb_exists in H. destruct H as (df & Hdf & Hc).
    rewrite !andb_true_iff in Hc. destruct Hc as [[H1 H2] H3].
    apply Nat.eqb_eq in H1, H3. apply orb_true_iff in H2.
    exists t, nb, a, leg, df. repeat split; auto.
    destruct H2 as [H2|H2]; apply Nat.eqb_eq in H2; auto.
Qed.

(* the checker accepts a store in which every non-centre node is good2 w.r.t. the distances of a store with the same tree *)
Lemma good2_iso2 s0 sf c :
  tstruct (nodes s0) -> amem c (nodes s0) = true -> tstruct (nodes sf) -> same_tree (nodes s0) (nodes sf) ->
  (forall k, In k (akeys (nodes sf)) -> k <> c -> good2 (distance_to_node s0 c) sf k) ->
  iso_check2 (sf, Some c) = true.
Proof.
  intros T0 Hc Tf S Hgood. unfold iso_check2. cbn [fst snd]. apply forallb_forall. intros [k nd] Hin. cbn [fst].
  destruct (Nat.eqb_spec k c) as [->|Hk]; [reflexivity|]. cbn [orb].
  pose proof (ts_nd _ Tf) as Hnd.
  assert (E : aget k (nodes sf) = Some nd) by (apply In_aget; assumption).
  assert (Hcf : amem c (nodes sf) = true).
  { apply amem_true. apply (same_tree_keys _ _ c S). apply amem_true. exact Hc. }
  destruct (Hgood k (aget_Some_keys _ _ _ E) Hk) as (nd1 & t & a & leg & nb & df & G1 & G2 & G3 & G4 & G5 & G6 & G7 & G8 & G9 & G10).
  rewrite E in G1. injection G1 as <-.
  pose proof (dist_same_tree s0 sf c T0 S Hnd Hc) as Hsame.
  destruct (dist_step sf c k nd Tf Hcf E Hk) as (nb1 & Hin1 & Hd1 & Hoth).
  assert (nb = nb1).
  { destruct (Nat.eq_dec nb nb1) as [|Hne]; [assumption|]. exfalso.
    pose proof (Hoth nb G4 Hne) as H1. rewrite <- !Hsame in H1. lia. }
  subst nb1.
  unfold iso_node2. rewrite G2. unfold toward.
  rewrite (first_min_unique (distance_to_node sf c) (neighbouring_nodes nd) nb Hin1).
  - rewrite G3, G6. apply existsb_exists. exists df. split; [exact G7|].
    rewrite G8, G10, !Nat.eqb_refl. destruct G9 as [-> | ->]; reflexivity.
  - intros y Hy Hne. rewrite (Hoth y Hy Hne). lia.
Qed.

Lemma iso2_good2 s a : tstruct (nodes s) -> amem a (nodes s) = true -> iso_check2 (s, Some a) = true ->
  forall k, In k (akeys (nodes s)) -> k <> a -> good2 (distance_to_node s a) s k.
Proof.
  intros T Ha H k Hk Hka. destruct (iso_check2_sound _ H) as (c & Hc & Hall). cbn [fst snd] in *. injection Hc as <-.
  apply keys_aget in Hk. destruct Hk as [nd E].
  destruct (Hall k nd (aget_In _ _ _ E) Hka) as (t & nb & at_ & leg & df & G1 & G2 & G3 & G4 & G5 & G6 & G7 & G8).
  unfold toward in G2.
  destruct (dist_step s a k nd T Ha E Hka) as (nb1 & Hin1 & Hd1 & Hoth).
  assert (Hfm : first_min (distance_to_node s a) (neighbouring_nodes nd) None = Some nb1).
  { apply first_min_unique; [exact Hin1|]. intros y Hy Hne. rewrite (Hoth y Hy Hne). lia. }
  rewrite Hfm in G2. injection G2 as <-.
  exists nd, t, at_, leg, nb1, df. repeat split; auto.
Qed.

Lemma good2_change_d d d' s k :
  good2 d s k ->
  (forall nd nb, aget k (nodes s) = Some nd -> In nb (neighbouring_nodes nd) ->
                 S (dget d nb) = dget d k -> S (dget d' nb) = dget d' k) -> good2 d' s k.
Proof.
  intros (nd & t & a & leg & nb & df & G1 & G2 & G3 & G4 & G5 & G6 & G7) H.
  exists nd, t, a, leg, nb, df. repeat split; try tauto. apply (H nd nb G1 G4 G5).
Qed.

(* the QR attribute implies the extended one *)
Theorem iso_check_iso_check2 s c :
  tstruct (nodes s) -> amem c (nodes s) = true -> iso_check (s, Some c) = true -> iso_check2 (s, Some c) = true.
Proof.
  intros T Hc H. apply (good2_iso2 s s c T Hc T (same_tree_refl _)).
  intros k Hk Hkc. apply good_good2. apply iso_good; assumption.
Qed.

(* ==== part 2: the effect of moving the centre along an edge, with either kind of first factor ================== *)
Record weffect2 (s : store) (n nb : id) (s' : store) : Prop := {
  w2_node : exists nd' t' leg df,
      aget n (nodes s') = Some nd' /\ aget n (tensors s') = Some t' /\ atoms t' = [kq df] /\
      In df (defs s') /\ (kkind df = 0 \/ kkind df = 4) /\ neighbour_index nd' nb = Some leg /\
      nth (nth leg (perm nd') 0) (axes t') 0 = kbond df;
  w2_defs : incl (defs s) (defs s');
  w2_other_n : forall k, k <> n -> k <> nb -> aget k (nodes s') = aget k (nodes s);
  w2_other_t : forall k, k <> n -> k <> nb -> In k (akeys (nodes s)) -> aget k (tensors s') = aget k (tensors s);
  w2_same : same_tree (nodes s) (nodes s');
  w2_ts : tstruct (nodes s')
}.

Lemma weffect_weffect2 s n nb s' nd :
  tstruct (nodes s) -> aget n (nodes s) = Some nd -> n <> nb -> weffect s n nb s' nd -> weffect2 s n nb s'.
Proof.
  intros T E Hne W. destruct (weffect_same_tree _ _ _ _ _ T E Hne W) as [S T'].
  constructor; auto.
  - destruct (we_node _ _ _ _ _ W) as (nd' & t' & leg & df & A1 & A2 & A3 & A4 & A5 & A6 & A7 & _).
    exists nd', t', leg, df. repeat split; auto.
  - apply (we_defs _ _ _ _ _ W).
  - apply (we_other_n _ _ _ _ _ W).
  - apply (we_other_t _ _ _ _ _ W).
Qed.

Lemma good2_preserved_w d s s' n nb k :
  weffect2 s n nb s' -> good2 d s k -> k <> n -> k <> nb -> good2 d s' k.
Proof.
  intros W (ndk & t & a & leg & x & df & G1 & G2 & G3 & G4 & G5 & G6 & G7 & G8) Hkn Hkb.
  exists ndk, t, a, leg, x, df. rewrite (w2_other_n _ _ _ _ W k Hkn Hkb).
  rewrite (w2_other_t _ _ _ _ W k Hkn Hkb (aget_Some_keys _ _ _ G1)).
  repeat split; try tauto. apply (w2_defs _ _ _ _ W). tauto.
Qed.

Lemma good2_new_w d s s' n nb :
  weffect2 s n nb s' -> S (dget d nb) = dget d n -> good2 d s' n.
Proof.
  intros W Hd. destruct (w2_node _ _ _ _ W) as (nd' & t' & leg & df & E1 & E2 & E3 & E4 & E5 & E6 & E7).
  exists nd', t', (kq df), leg, nb, df. repeat split; auto.
  eapply neighbour_index_In; eauto.
Qed.

(* the centre moves from a to its neighbour b: the attribute moves along *)
Lemma weffect2_iso2 s a b s' na :
  tstruct (nodes s) -> aget a (nodes s) = Some na -> In b (neighbouring_nodes na) ->
  iso_check2 (s, Some a) = true -> weffect2 s a b s' ->
  iso_check2 (s', Some b) = true.
Proof.
  intros T Ea Hin Hiso W.
  destruct (ts_neighbour_sym _ _ _ _ T Ea Hin) as (nbn & Eb & Hba & Hne).
  pose proof (w2_same _ _ _ _ W) as S1. pose proof (w2_ts _ _ _ _ W) as T1.
  assert (Ha : amem a (nodes s) = true) by (apply amem_aget; eauto).
  assert (Hb : amem b (nodes s) = true) by (apply amem_aget; eauto).
  apply (good2_iso2 s s' b T Hb T1 S1). intros k Hk Hkb.
  destruct (Nat.eq_dec k a) as [->|Hka].
  - apply (good2_new_w _ s s' a b W).
    rewrite (dist_centre s b Hb), (dist_centre_nbrs s b nbn a T Eb Hba). reflexivity.
  - apply (same_tree_keys _ _ k S1) in Hk.
    apply (good2_preserved_w _ s s' a b k W); [|exact Hka|exact Hkb].
    apply (good2_change_d (distance_to_node s a)); [apply iso2_good2; assumption|].
    intros nk nb Ek Hnb Hd.
    apply (dist_move s a b na k nk nb T Ea Hin Ek Hka Hkb Hnb Hd).
Qed.

(* any change confined to the centre that keeps parent and children *)
Lemma centre_change_iso2 s s' c :
  tstruct (nodes s) -> amem c (nodes s) = true -> iso_check2 (s, Some c) = true ->
  NoDup (akeys (nodes s')) -> same_tree (nodes s) (nodes s') ->
  (forall k, k <> c -> aget k (nodes s') = aget k (nodes s)) ->
  (forall k, k <> c -> In k (akeys (nodes s)) -> aget k (tensors s') = aget k (tensors s)) ->
  incl (defs s) (defs s') ->
  iso_check2 (s', Some c) = true.
Proof.
  intros T Hc Hiso Hnd S Hn Ht Hd.
  assert (T' : tstruct (nodes s')) by (apply (tstruct_same_tree _ _ T S Hnd)).
  apply (good2_iso2 s s' c T Hc T' S). intros k Hk Hkc.
  apply (same_tree_keys _ _ k S) in Hk.
  destruct (iso2_good2 s c T Hc Hiso k Hk Hkc) as (ndk & t & a & leg & x & df & G1 & G2 & G3 & G4 & G5 & G6 & G7 & G8).
  exists ndk, t, a, leg, x, df. rewrite (Hn k Hkc), (Ht k Hkc Hk). repeat split; try tauto. apply Hd. tauto.
Qed.

(* ---- the plain events -------------------------------------------------------------------------------------------- *)
Lemma good2_acc d s s' n k : wf s -> acc s n = Some s' -> good2 d s k -> good2 d s' k.
Proof.
  intros W H (ndk & t & a & leg & x & df & G1 & G2 & G3 & G4 & G5 & G6 & G7 & G8 & G9 & G10).
  destruct (acc_facts _ _ _ H) as (nd & t0 & En & Et & En1 & Et1 & Ho & _ & _ & _ & _ & _ & Hdf & _).
  destruct (Nat.eq_dec k n) as [->|Hk].
  - rewrite En in G1. injection G1 as <-. rewrite Et in G2. injection G2 as <-.
    exists (reset_permutation nd), (s_transpose (perm nd) t0), a, leg, x, df.
    rewrite Hdf. repeat split; auto.
    cbn [reset_permutation perm s_transpose axes].
    assert (Hleg : leg < length (perm nd)).
    { pose proof (neighbour_index_bound _ _ _ G6). pose proof (ni_virt _ _ _ (wf_node s W n nd En)). unfold nlegs in *. lia. }
    rewrite seq_nth by exact Hleg. cbn. rewrite nth_permute by exact Hleg. exact G10.
  - exists ndk, t, a, leg, x, df. destruct (Ho k Hk) as [-> ->]. rewrite Hdf. repeat split; auto.
Qed.

Lemma acc_iso2 s c n s' : wf s -> amem c (nodes s) = true -> iso_check2 (s, Some c) = true -> acc s n = Some s' ->
  iso_check2 (s', Some c) = true.
Proof.
  intros W Hc Hiso H. pose proof (wf_tstruct s W) as T.
  destruct (acc_same_tree _ _ _ H) as [S K].
  assert (T' : tstruct (nodes s')) by (apply (tstruct_same_tree _ _ T S); rewrite K; apply (ts_nd _ T)).
  apply (good2_iso2 s s' c T Hc T' S). intros k Hk Hkc. rewrite K in Hk.
  apply (good2_acc _ s s' n k W H). apply iso2_good2; assumption.
Qed.

Lemma site_update_iso2 s c s' : wf s -> amem c (nodes s) = true -> iso_check2 (s, Some c) = true ->
  site_update s c = Some s' -> iso_check2 (s', Some c) = true.
Proof.
  intros W Hc Hiso H. pose proof (wf_tstruct s W) as T.
  destruct (site_update_same_tree _ _ _ H) as [S K].
  destruct (site_update_facts _ _ _ H) as (nd & t0 & En & Et & En1 & Et1 & Ho & _ & _ & _ & _ & _ & Hdf).
  apply (centre_change_iso2 s s' c T Hc Hiso); auto.
  - rewrite K. apply (ts_nd _ T).
  - intros k Hk. apply (Ho k Hk).
  - intros k Hk _. apply (Ho k Hk).
  - rewrite Hdf. intros x Hx. exact Hx.
Qed.

(* one step of move_orthogonalization_center along an edge *)
Lemma move_step_iso2 s a b m rid s' :
  tstruct (nodes s) -> aget rid (nodes s) = None -> iso_check2 (s, Some a) = true ->
  qr_to_neighbour s a b m rid = Some s' -> iso_check2 (s', Some b) = true.
Proof.
  intros T Hrid Hiso H.
  destruct (qr_step_effect _ _ _ _ _ _ T Hrid H) as (na & Ea & Hin & SE).
  destruct (ts_neighbour_sym _ _ _ _ T Ea Hin) as (nbn & Eb & Hba & Hne).
  apply (weffect2_iso2 s a b s' na T Ea Hin Hiso).
  apply (weffect_weffect2 s a b s' na T Ea (not_eq_sym Hne)).
  apply (step_effect_weffect s a b rid s' na); auto.
Qed.

(* ==== part 3: the two-site update leaves the first SVD factor on the node the centre leaves ======================= *)
(* the bond of a split sits on the upper node's leg toward the lower node ... *)
Lemma sv_upper_bond s1 s' n nd t U Lo su sl cU cL nU nL tU tL bd :
  split_view s1 s' n nd t U Lo su sl cU cL nU nL tU tL bd -> tstruct (nodes s') ->
  exists leg, neighbour_index nU Lo = Some leg /\ nth (nth leg (perm nU) 0) (axes tU) 0 = next_wire s1.
Proof.
  intros V T.
  pose proof (sv_nU_lax _ _ _ _ _ _ _ _ _ _ _ _ _ _ _ _ V) as Hlax.
  pose proof (sv_nU_ch _ _ _ _ _ _ _ _ _ _ _ _ _ _ _ _ V) as Hch.
  pose proof (sv_nU_par _ _ _ _ _ _ _ _ _ _ _ _ _ _ _ _ V) as Hpar.
  pose proof (sv_perm _ _ _ _ _ _ _ _ _ _ _ _ _ _ _ _ V) as Hperm.
  assert (Hlen : length (laxes nU tU) = length (perm nU)) by (unfold laxes, permute; apply map_length).
  exists (nparents nd).
  assert (Hnth : nth (nparents nd) (laxes nU tU) 0 = next_wire s1 /\ nparents nd < length (laxes nU tU)).
  { rewrite Hlax. unfold nparents in *. destruct (parent nd) as [p|] eqn:Ep.
    - assert (H0 : In 0 (seq 0 (length (axes t)))).
      { apply (Permutation_in _ Hperm). cbn. left. reflexivity. }
      apply in_seq in H0. destruct (axes t) as [|x r]; [cbn in H0; lia|]. cbn. split; [reflexivity|lia].
    - cbn. split; [reflexivity|lia]. }
  destruct Hnth as [Hnth Hlt]. rewrite Hlen in Hlt. split.
  - unfold neighbour_index, nparents. rewrite Hpar, Hch. destruct (parent nd) as [p|] eqn:Ep.
    + destruct (Nat.eqb_spec Lo p) as [->|Hne].
      * exfalso. destruct (ts_acyc _ T) as [rank Hr].
        pose proof (Hr _ _ _ (sv_nL _ _ _ _ _ _ _ _ _ _ _ _ _ _ _ _ V) (sv_nL_par _ _ _ _ _ _ _ _ _ _ _ _ _ _ _ _ V)).
        pose proof (Hr _ _ _ (sv_nU _ _ _ _ _ _ _ _ _ _ _ _ _ _ _ _ V) ltac:(rewrite Hpar; reflexivity)). lia.
      * cbn. rewrite Nat.eqb_refl. reflexivity.
    + cbn. rewrite Nat.eqb_refl. reflexivity.
  - rewrite <- Hnth. unfold laxes. symmetry. apply nth_permute. exact Hlt.
Qed.

(* ... and on the lower node's parent leg *)
Lemma sv_lower_bond s1 s' n nd t U Lo su sl cU cL nU nL tU tL bd :
  split_view s1 s' n nd t U Lo su sl cU cL nU nL tU tL bd ->
  neighbour_index nL U = Some 0 /\ nth (nth 0 (perm nL) 0) (axes tL) 0 = next_wire s1.
Proof.
  intros V.
  pose proof (sv_nL_lax _ _ _ _ _ _ _ _ _ _ _ _ _ _ _ _ V) as Hlax.
  pose proof (sv_nL_par _ _ _ _ _ _ _ _ _ _ _ _ _ _ _ _ V) as Hpar.
  assert (Hlen : length (laxes nL tL) = length (perm nL)) by (unfold laxes, permute; apply map_length).
  split.
  - unfold neighbour_index. rewrite Hpar, Nat.eqb_refl. reflexivity.
  - assert (Hnth : nth 0 (laxes nL tL) 0 = next_wire s1) by (rewrite Hlax; reflexivity).
    rewrite <- Hnth. unfold laxes. symmetry. apply nth_permute. rewrite <- Hlen, Hlax. cbn. lia.
Qed.

Lemma two_site_first_factor new s a b bd s3 na :
  wf s -> aget a (nodes s) = Some na -> aget new (nodes s) = None ->
  two_site_update s a b new bd = Some s3 ->
  incl (defs s) (defs s3) /\
  exists nd' t' leg df,
    aget a (nodes s3) = Some nd' /\ aget a (tensors s3) = Some t' /\ atoms t' = [kq df] /\
    In df (defs s3) /\ kkind df = 4 /\ neighbour_index nd' b = Some leg /\
    nth (nth leg (perm nd') 0) (axes t') 0 = kbond df.
Proof.
  intros W Ea Hc H.
  destruct (two_site_chain2 _ _ _ _ _ _ _ W Ea Hc H) as (s1 & s2 & nb & u & v & G).
  destruct G as [Eb Hok Hca Hcb Hnew Hl Hcn Hab Hs W1 W2 Hspec Hnv Hids W3].
  pose proof (wf_tstruct s3 W3) as T3.
  assert (Hnew' : new = a \/ new = b \/ ~ In new (akeys (nodes s))) by tauto.
  destruct (contract_inv2 _ _ _ _ _ W Hcn Hnew') as (p' & c' & s2c & pn & cn & nn & ax & nt & _ & _ & _ & _ & _ & _ & Hd1 & _).
  destruct (site_update_inv _ _ _ Hab) as (s1a & nd1 & t1 & Hacc1 & _ & _ & _ & _ & _ & Hd2).
  destruct (sp_access_next _ _ _ _ _ Hacc1) as (_ & _ & Hd1a & _).
  destruct (split_view_of _ _ _ _ _ _ _ _ _ _ W2 Hs Hspec Hids)
    as (s2a & nd2 & t2 & ol & il & on2 & in2 & cO & cI & bd' & Hacc & W2a & _ & _ & _ & _ & _ & Hd3 & _ & _ & V).
  assert (Hincl : incl (defs s) (defs s3)).
  { rewrite Hd3, Hd2, Hd1a, Hd1. intros x Hx. apply in_or_app. left. exact Hx. }
  split; [exact Hincl|].
  assert (Hdf : In (sp_def s2a t2 ol il 4 Keep) (defs s3)) by (rewrite Hd3; apply in_or_app; right; left; reflexivity).
  destruct V as [[_ V]|[_ V]].
  - (* b is the upper node, a the lower one *)
    destruct (sv_lower_bond _ _ _ _ _ _ _ _ _ _ _ _ _ _ _ _ V) as [Hni Hb].
    exists on2, (sp_ot s2a t2 ol), 0, (sp_def s2a t2 ol il 4 Keep).
    split; [apply (sv_nL _ _ _ _ _ _ _ _ _ _ _ _ _ _ _ _ V)|]. split; [apply (sv_tL _ _ _ _ _ _ _ _ _ _ _ _ _ _ _ _ V)|].
    split; [reflexivity|]. split; [exact Hdf|]. split; [reflexivity|]. split; [exact Hni|exact Hb].
  - (* a is the upper node *)
    destruct (sv_upper_bond _ _ _ _ _ _ _ _ _ _ _ _ _ _ _ _ V T3) as (leg & Hni & Hb).
    exists on2, (sp_ot s2a t2 ol), leg, (sp_def s2a t2 ol il 4 Keep).
    split; [apply (sv_nU _ _ _ _ _ _ _ _ _ _ _ _ _ _ _ _ V)|]. split; [apply (sv_tU _ _ _ _ _ _ _ _ _ _ _ _ _ _ _ _ V)|].
    split; [reflexivity|]. split; [exact Hdf|]. split; [reflexivity|]. split; [exact Hni|exact Hb].
Qed.

Lemma two_site_update_weffect2 new s a b bd s3 na :
  wf s -> aget a (nodes s) = Some na -> aget new (nodes s) = None ->
  two_site_update s a b new bd = Some s3 -> weffect2 s a b s3.
Proof.
  intros W Ea Hc H.
  destruct (two_site_first_factor new s a b bd s3 na W Ea Hc H) as (Hincl & nd' & t' & leg & df & A1 & A2 & A3 & A4 & A5 & A6 & A7).
  destruct (two_site_update_same_tree _ _ _ _ _ _ _ W Ea Hc H) as (_ & W3 & S3 & _ & _ & _ & Hoth).
  constructor.
  - exists nd', t', leg, df. repeat split; auto.
  - exact Hincl.
  - intros k K1 K2. apply (Hoth k K1 K2).
  - intros k K1 K2 _. apply (Hoth k K1 K2).
  - exact S3.
  - apply (wf_tstruct s3 W3).
Qed.

(* the centre moves with the two-site update: a keeps U, b receives S Vh *)
Theorem two_site_update_iso2 new s a b bd s3 na :
  wf s -> aget a (nodes s) = Some na -> aget new (nodes s) = None ->
  iso_check2 (s, Some a) = true ->
  two_site_update s a b new bd = Some s3 -> iso_check2 (s3, Some b) = true.
Proof.
  intros W Ea Hc Hiso H.
  destruct (two_site_update_same_tree _ _ _ _ _ _ _ W Ea Hc H) as (Hnbr & _).
  apply (weffect2_iso2 s a b s3 na (wf_tstruct s W) Ea Hnbr Hiso).
  apply (two_site_update_weffect2 new s a b bd s3 na W Ea Hc H).
Qed.

(* ==== part 4: moving the centre by QR ============================================================================ *)
Lemma move_fold_iso2 tmp : forall l s cur cs',
  wf s -> aget tmp (nodes s) = None -> iso_check2 (s, Some cur) = true ->
  fold_left (move_step Keep tmp) l (Some (s, Some cur)) = Some cs' -> iso_check2 cs' = true.
Proof.
  induction l as [|nb l IH]; intros s cur cs' W Ht Hiso H; cbn [fold_left] in H.
  - injection H as <-. exact Hiso.
  - cbn [move_step] in H. destruct (qr_to_neighbour s cur nb Keep tmp) as [s2|] eqn:E; [|rewrite move_fold_none in H; discriminate].
    destruct (qr_keep_struct s cur nb tmp s2 W Ht E) as (W2 & S2 & R2).
    pose proof (move_step_iso2 s cur nb Keep tmp s2 (wf_tstruct s W) Ht Hiso E) as I2.
    apply (IH s2 nb cs' W2 R2 I2 H).
Qed.

Lemma move_center_iso2 s c0 c tmp cs' :
  wf s -> aget tmp (nodes s) = None -> iso_check2 (s, Some c0) = true ->
  move_center (s, Some c0) c Keep tmp = Some cs' -> iso_check2 cs' = true.
Proof.
  intros W Ht Hiso H. unfold move_center in H. cbn [fst snd] in H. destruct (Nat.eqb c0 c).
  - injection H as <-. exact Hiso.
  - apply (move_fold_iso2 tmp _ s c0 cs' W Ht Hiso H).
Qed.

(* ==== part 5: the trace of the two-site step ===================================================================== *)
Section Sim3.
  Variables (t : rtree) (l0 : list (id * node)) (lk tw : id -> id -> id) (tmp : id).
  Hypothesis M : tmatch t l0.
  Hypothesis Ftmp : aget tmp l0 = None.
  Hypothesis Ftw : forall a b, aget (tw a b) l0 = None.

  (* one event keeps the attribute at the centre the schedule tracks *)
  Lemma sim3_event e c c1 s bds cs1 bds1 :
    okev2 e = true -> pend c = None -> exec t c e = Some c1 -> tinv2 l0 s (centre c) ->
    iso_check2 (s, Some (centre c)) = true ->
    ev_step2 lk tw tmp ((s, Some (centre c)), bds) e = Some (cs1, bds1) ->
    iso_check2 (fst cs1, Some (centre c1)) = true.
  Proof.
    intros Hok Hpend Hex [W S C] Hiso Hst. pose proof (exec_sound _ _ _ _ Hex) as Hreq.
    assert (Ttmp : aget tmp (nodes s) = None) by (apply (same_tree_None _ _ _ S Ftmp)).
    destruct e; try discriminate Hok; cbn [ev_step2 ev_step fst snd] in Hst; cbn [requires] in Hreq.
    - (* Site *)
      destruct Hreq as (Hc & _). subst n. cbn in Hex. destruct (_ && _ && _) in Hex; [|discriminate]. injection Hex as <-. cbn [centre].
      destruct (site_update s (centre c)) as [s'|] eqn:Hs; [|discriminate]. cbn [lift snd] in Hst. injection Hst as <- <-. cbn [fst].
      apply (site_update_iso2 s (centre c) s' W C Hiso Hs).
    - (* SiteBack *)
      destruct Hreq as (Hc & _). subst n. cbn in Hex. destruct (_ && _ && _) in Hex; [|discriminate]. injection Hex as <-. cbn [centre].
      destruct (site_update s (centre c)) as [s'|] eqn:Hs; [|discriminate]. cbn [lift snd] in Hst. injection Hst as <- <-. cbn [fst].
      apply (site_update_iso2 s (centre c) s' W C Hiso Hs).
    - (* TwoSite *)
      destruct Hreq as (Hc & _ & Hab & _). subst a. cbn in Hex. destruct (_ && _ && _ && _ && _) in Hex; [|discriminate]. injection Hex as <-. cbn [centre].
      destruct (sim_adjacent t l0 M s (centre c) b W S Hab) as (na & Ea & Hin & Hb').
      destruct bds as [|bd rest]; [discriminate|].
      destruct (two_site_update s (centre c) b (tw (centre c) b) bd) as [s3|] eqn:H3; [|discriminate]. injection Hst as <- <-. cbn [fst].
      pose proof (same_tree_None _ _ _ S (Ftw (centre c) b)) as Hnew.
      apply (two_site_update_iso2 (tw (centre c) b) s (centre c) b bd s3 na W Ea Hnew Hiso H3).
    - (* Move *)
      destruct Hreq as (Hc & _ & Hab). cbn in Hex. destruct (_ && _ && _) in Hex; [|discriminate]. injection Hex as <-. cbn [centre].
      destruct (move_center (s, Some (centre c)) b Keep tmp) as [cs'|] eqn:Hm; [|discriminate]. injection Hst as <- <-.
      destruct (sim_adjacent t l0 M s a b W S Hab) as (na & Ea & Hin & Hb').
      destruct (move_center_struct s (centre c) b tmp cs' W Ttmp C Hb' Hm) as (_ & _ & _ & Hsnd).
      pose proof (move_center_iso2 s (centre c) b tmp cs' W Ttmp Hiso Hm) as I'.
      destruct cs' as [s' oc]. cbn [fst snd] in *. subst oc. exact I'.
    - (* Cache *)
      cbn in Hex. destruct (_ && _) in Hex; [|discriminate]. injection Hex as <-. cbn [centre].
      destruct (acc s n) as [s'|] eqn:Hs; [|discriminate]. cbn [lift snd] in Hst. injection Hst as <- <-. cbn [fst].
      apply (acc_iso2 s (centre c) n s' W C Hiso Hs).
    - (* Reinit *)
      cbn in Hex. injection Hex as <-. injection Hst as <- <-. exact Hiso.
    - (* AssertCentre *)
      cbn in Hex. destruct (_ && _) in Hex; [|discriminate]. injection Hex as <-.
      destruct (Nat.eqb (centre c) n); [|discriminate]. injection Hst as <- <-. exact Hiso.
    - (* AssertLeaf *)
      cbn in Hex. destruct (is_leaf t n); [|discriminate]. injection Hex as <-. injection Hst as <- <-. exact Hiso.
    - (* AssertEnd *)
      cbn in Hex. destruct (Nat.leb _ _); [|discriminate]. injection Hex as <-. injection Hst as <- <-. exact Hiso.
  Qed.

  Theorem sim3_run : forall tr c c' s bds cs' bds',
    forallb okev2 tr = true -> pend c = None -> TDVP.run t c tr = Some c' -> tinv2 l0 s (centre c) ->
    iso_check2 (s, Some (centre c)) = true -> count_two tr <= length bds ->
    tdvp_run2 lk tw tmp ((s, Some (centre c)), bds) tr = Some (cs', bds') ->
    iso_check2 cs' = true.
  Proof.
    induction tr as [|e tr IH]; intros c c' s bds cs' bds' Hok Hp Hrun Hinv Hiso Hb Hst.
    - unfold tdvp_run2 in Hst. cbn in Hst. injection Hst as <- <-. exact Hiso.
    - cbn [forallb] in Hok. apply andb_true_iff in Hok. destruct Hok as [Hoe Hot].
      apply run_cons_inv in Hrun. destruct Hrun as (c1 & X1 & Hrun).
      rewrite (count_two_cons e tr) in Hb.
      destruct (sim2_event t l0 lk tw tmp M Ftmp Ftw e c c1 s bds Hoe Hp X1 Hinv ltac:(lia)) as [[[cs1 bds1] Y1] Hsound].
      destruct (Hsound cs1 bds1 Y1) as (Hinv1 & Hs1 & Hp1 & Hl1).
      pose proof (sim3_event e c c1 s bds cs1 bds1 Hoe Hp X1 Hinv Hiso Y1) as I1.
      destruct cs1 as [s1 oc1]. cbn [fst snd] in *. subst oc1.
      unfold tdvp_run2 in Hst. cbn [fold_left ev_fold2] in Hst. rewrite Y1 in Hst.
      apply (IH c1 c' s1 bds1 cs' bds' Hot Hp1 Hrun Hinv1 I1 ltac:(lia) Hst).
  Qed.
End Sim3.

(* one step of SecondOrderTwoSiteTDVP from a canonical state centred at update_path[0] ends in canonical form there *)
Theorem tdvp2s_step_t_iso2 lk tw tmp t s u rest bds cs' bds' :
  NoDup (ids t) -> 2 <= size t -> tmatch t (nodes s) -> wfb s = true -> update_path t = Some (u :: rest) ->
  iso_check2 (s, Some u) = true ->
  amem tmp (nodes s) = false -> (forall a b, amem (tw a b) (nodes s) = false) ->
  (forall tr, trace2s t = Some tr -> count_two tr <= length bds) ->
  tdvp2s_step_t lk tw tmp t (s, Some u) bds = Some (cs', bds') -> iso_check2 cs' = true.
Proof.
  intros Hw Hs M Wb Hu Hiso Ft Fw Hbd H.
  destruct (cache_fresh_universal t Hw Hs) as (_ & _ & (tr & Htr & Hok)).
  destruct (sched_ok_start t tr Hok) as (u' & l' & c0 & c1 & Hu' & C0 & P0 & R & C1 & P1).
  rewrite Hu in Hu'. injection Hu' as <- <-.
  pose proof (wfb_wf s Wb) as W.
  assert (Hinv : tinv2 (nodes s) s (centre c0)).
  { rewrite C0. constructor; auto; [apply same_tree_refl|]. apply amem_true. apply (proj2 M). apply (first_in_ids t u rest Hw Hu). }
  unfold tdvp2s_step_t in H. rewrite Htr in H. rewrite <- C0 in H, Hiso.
  apply (sim3_run t (nodes s) lk tw tmp M (amem_false_None _ _ Ft) (fun a b => amem_false_None _ _ (Fw a b)) tr c0 c1 s bds cs' bds'
           (okev2_trace2s t tr Htr) P0 R Hinv Hiso (Hbd tr Htr) H).
Qed.

Definition step2s_post (t : rtree) (s : store) (u : id) (bds : list nat) (cs' : cstore) (bds' : list nat) : Prop :=
  wfb (fst cs') = true /\ same_tree (nodes s) (nodes (fst cs')) /\ root (fst cs') = root s /\
  snd cs' = Some u /\ tmatch t (nodes (fst cs')) /\ iso_check2 cs' = true /\
  (forall tr, trace2s t = Some tr -> length bds' + count_two tr = length bds).

(* ... and the complete statement: the step is accepted, keeps invariant, tree, root, recorded centre, consumes one bond
   dimension per two-site update and ends in canonical form *)
Theorem tdvp2s_step_t_canonical lk tw tmp t s u rest bds :
  NoDup (ids t) -> 2 <= size t -> tmatch t (nodes s) -> wfb s = true -> update_path t = Some (u :: rest) ->
  iso_check2 (s, Some u) = true ->
  amem tmp (nodes s) = false -> (forall a b, amem (tw a b) (nodes s) = false) ->
  (forall tr, trace2s t = Some tr -> count_two tr <= length bds) ->
  exists cs' bds', tdvp2s_step_t lk tw tmp t (s, Some u) bds = Some (cs', bds') /\ step2s_post t s u bds cs' bds'.
Proof.
  intros Hw Hs M Wb Hu Hiso Ft Fw Hbd.
  destruct (tdvp2s_step_t_ok lk tw tmp t s u rest bds Hw Hs M Wb Hu Ft Fw Hbd) as (cs' & bds' & H & A1 & A2 & A3 & A4 & A5 & A6).
  exists cs', bds'. split; [exact H|]. unfold step2s_post. repeat (split; [assumption|]). split; [|exact A6].
  apply (tdvp2s_step_t_iso2 lk tw tmp t s u rest bds cs' bds'); assumption.
Qed.

(* any number of consecutive steps, each with its own list of bond dimensions *)
Fixpoint iter_step2s (lk tw : id -> id -> id) (tmp : id) (t : rtree) (bss : list (list nat)) (cs : cstore) : option cstore :=
  match bss with
  | [] => Some cs
  | bds :: r => match tdvp2s_step_t lk tw tmp t cs bds with
                | Some (cs', _) => iter_step2s lk tw tmp t r cs'
                | None => None
                end
  end.

Theorem tdvp2s_steps_canonical lk tw tmp t u rest : NoDup (ids t) -> 2 <= size t -> update_path t = Some (u :: rest) ->
  forall bss s, tmatch t (nodes s) -> wfb s = true -> iso_check2 (s, Some u) = true ->
  amem tmp (nodes s) = false -> (forall a b, amem (tw a b) (nodes s) = false) ->
  (forall bds tr, In bds bss -> trace2s t = Some tr -> count_two tr <= length bds) ->
  exists cs', iter_step2s lk tw tmp t bss (s, Some u) = Some cs' /\
    wfb (fst cs') = true /\ same_tree (nodes s) (nodes (fst cs')) /\ root (fst cs') = root s /\
    snd cs' = Some u /\ tmatch t (nodes (fst cs')) /\ iso_check2 cs' = true.
Proof.
  intros Hw Hs Hu. induction bss as [|bds bss IH]; intros s M Wb Hiso Ft Fw Hbd.
  - exists (s, Some u). split; [reflexivity|]. cbn [fst snd]. repeat split; auto; try apply same_tree_refl; apply M.
  - destruct (tdvp2s_step_t_canonical lk tw tmp t s u rest bds Hw Hs M Wb Hu Hiso Ft Fw (fun tr => Hbd bds tr (or_introl eq_refl)))
      as ([s1 oc] & bds' & E1 & W1 & S1 & R1 & C1 & M1 & I1 & _). cbn [fst snd] in *. subst oc.
    destruct (IH s1 M1 W1 I1 (same_tree_amem_false _ _ _ S1 Ft) (fun a b => same_tree_amem_false _ _ _ S1 (Fw a b))
                (fun b0 tr Hin => Hbd b0 tr (or_intror Hin)))
      as (cs' & E' & W' & S' & R' & C' & M' & I').
    exists cs'. split; [cbn [iter_step2s]; rewrite E1; exact E'|].
    split; [exact W'|]. split; [exact (same_tree_trans _ _ _ S1 S')|]. split; [congruence|]. auto.
Qed.

(* canonical_form at update_path[0] establishes the hypothesis *)
Theorem canonical_form_iso_check2 s oc c m rid cs' :
  wfb s = true -> amem rid (nodes s) = false ->
  canonical_form (s, oc) c m rid = Some cs' -> iso_check2 cs' = true.
Proof.
  intros Wb Hr H.
  assert (Hrid : aget rid (nodes s) = None) by (apply amem_false_None; exact Hr).
  destruct (canonical_form_iso_tstruct s oc c m rid cs' (wfb_tstruct s Wb) Hrid H) as (I & T' & S' & _).
  pose proof (canon_center _ _ _ _ _ H) as Hc. destruct cs' as [s' oc']. cbn [fst snd] in *. subst oc'.
  apply (iso_check_iso_check2 s' c T'); [|exact I].
  apply (same_tree_amem _ _ _ S'). unfold canonical_form in H. cbn [fst] in H.
  destruct (amem c (nodes s)); [reflexivity|discriminate].
Qed.

(* ==== part 6: the constructor establishes the hypothesis ========================================================= *)
Lemma canon_fold_keep_wf d rid : forall L s s', wf s -> aget rid (nodes s) = None ->
  fold_left (canon_step d Keep rid) L (Some s) = Some s' -> wf s'.
Proof.
  induction L as [|n L IH]; intros s s' W Hr H.
  - cbn in H. injection H as <-. exact W.
  - cbn [fold_left] in H. destruct (canon_step d Keep rid (Some s) n) as [s1|] eqn:E; [|rewrite canon_fold_none in H; discriminate].
    cbn [canon_step] in E. destruct (aget n (nodes s)) as [nd|]; [|discriminate].
    destruct (first_min d (neighbouring_nodes nd) None) as [nb|]; [|discriminate].
    destruct (qr_keep_struct s n nb rid s1 W Hr E) as (W1 & _ & R1). apply (IH s1 s' W1 R1 H).
Qed.

Lemma canonical_form_keep_wf s oc c rid cs' : wf s -> aget rid (nodes s) = None ->
  canonical_form (s, oc) c Keep rid = Some cs' -> wf (fst cs').
Proof.
  intros W Hr H. rewrite canonical_form_unfold in H. cbn [fst] in H.
  destruct (negb (amem c (nodes s))); [discriminate|].
  destruct (fold_left _ _ (Some s)) as [sf|] eqn:F; [|discriminate]. injection H as <-. cbn [fst].
  eapply canon_fold_keep_wf; eauto.
Qed.

(* _init_partial_tree_cache only reads tensors *)
Lemma run_caches_iso2 lk tmp : forall (keys : list (nat * nat)) s c cs',
  wf s -> amem c (nodes s) = true -> iso_check2 (s, Some c) = true ->
  tdvp_run lk tmp (s, Some c) (map (fun k => Cache (fst k) (snd k)) keys) = Some cs' ->
  wf (fst cs') /\ same_tree (nodes s) (nodes (fst cs')) /\ snd cs' = Some c /\ iso_check2 cs' = true.
Proof.
  induction keys as [|k keys IH]; intros s c cs' W C I H.
  - unfold tdvp_run in H. cbn in H. injection H as <-. cbn [fst snd]. split; [exact W|]. split; [apply same_tree_refl|auto].
  - cbn [map] in H. apply tdvp_run_cons in H. destruct H as (cs1 & Y1 & H). cbn [ev_step fst snd] in Y1.
    apply lift_Some in Y1. destruct Y1 as (s1 & E1 & ->). cbn [snd] in H.
    destruct (acc_same_tree _ _ _ E1) as [S1 _].
    destruct (IH s1 c cs' (acc_wf _ _ _ W E1) (same_tree_amem _ _ _ S1 C) (acc_iso2 s c (fst k) s1 W C I E1) H) as (W' & S' & C' & I').
    split; [exact W'|]. split; [exact (same_tree_trans _ _ _ S1 S')|auto].
Qed.

(* TDVPAlgorithm.__init__ on a state without a recorded centre: canonical form at update_path[0], then the cache *)
Theorem tdvp_init_iso2 lk tmp t s cs1 :
  wfb s = true -> amem tmp (nodes s) = false ->
  tdvp_init lk tmp t (s, None) = Some cs1 ->
  exists u rest, update_path t = Some (u :: rest) /\ snd cs1 = Some u /\
    wfb (fst cs1) = true /\ same_tree (nodes s) (nodes (fst cs1)) /\ iso_check2 cs1 = true.
Proof.
  intros Wb Ht H. pose proof (wfb_wf s Wb) as W. pose proof (amem_false_None _ _ Ht) as Hr.
  unfold tdvp_init in H. destruct (update_path t) as [[|u rest]|] eqn:Hu; try discriminate.
  unfold init_trace, init_trace_gen in H. rewrite Hu in H. unfold init_cache in H.
  destruct (cache_keys t u) as [keys|]; [|discriminate]. cbn [option_map] in H.
  destruct (ensure_center (s, None) u Keep tmp) as [cs0|] eqn:E0; [|discriminate].
  unfold ensure_center in E0. cbn [fst snd] in E0. destruct (amem u (nodes s)) eqn:Hum; [|discriminate]. cbn [negb] in E0.
  pose proof (canonical_form_keep_wf s None u tmp cs0 W Hr E0) as W0.
  destruct (canonical_form_iso_tstruct s None u Keep tmp cs0 (wf_tstruct s W) Hr E0) as (I0 & T0 & S0 & _).
  pose proof (canon_center _ _ _ _ _ E0) as C0. destruct cs0 as [s0 oc0]. cbn [fst snd] in *. subst oc0.
  pose proof (same_tree_amem _ _ _ S0 Hum) as Hum0.
  destruct (run_caches_iso2 lk tmp keys s0 u cs1 W0 Hum0 (iso_check_iso_check2 s0 u T0 Hum0 I0) H) as (W1 & S1 & C1 & I1).
  exists u, rest. split; [reflexivity|]. split; [exact C1|]. split; [apply wf_wfb; exact W1|].
  split; [exact (same_tree_trans _ _ _ S0 S1)|exact I1].
Qed.
