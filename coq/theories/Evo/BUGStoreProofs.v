(* Proofs about Evo/BUGStore.v: the structural effect of one BUG / fixed-rank BUG step on stores.
   All statements are conditional on the model accepting the step (`root_update ... = Some _`); that it does
   is an instance obligation of the correspondence (harness/props/c09w.py). *)
From Coq Require Import List Arith Bool Lia Permutation.
From PTN Require Import TTN.Store TTN.StoreProofs TTN.Canon TTN.CanonProofs TTN.Inv TTN.InvProofs TTN.InvNode
  TTN.InvContract TTN.InvSplit TTN.CanonTree TTN.CanonMore TTN.CanonStep TTN.CanonDist TTN.CanonPath TTN.CanonIso
  Tree.RTree Evo.BUGStore.
From PTN Require Sched.BUG Contr.Blocks Contr.Closed Contr.ClosedProofs.
Import ListNotations.

Lemma split_replace_bug s n p b ch opens ta tb s' nd0 pn :
  NoDup (akeys (nodes s)) ->
  aget n (nodes s) = Some nd0 -> parent nd0 = Some p -> children nd0 = ch ->
  aget p (nodes s) = Some pn -> parent pn <> Some n ->
  aget b (nodes s) = None -> n <> p ->
  split_replace s n {| ls_parent := Some p; ls_children := []; ls_open := []; ls_root := false |}
                    {| ls_parent := None; ls_children := ch; ls_open := opens; ls_root := false |} b n ta tb = Some s' ->
  exists in2 on2,
    (forall k, aget k (nodes s') =
               if Nat.eqb k p then Some (with_children pn (replace_first n b (children pn)))
               else if Nat.eqb k n then Some in2 else if Nat.eqb k b then Some on2 else aget k (nodes s)) /\
    parent in2 = Some b /\ children in2 = ch /\ nth 0 (perm in2) 0 = 0 /\ 1 <= length (perm in2) /\ shape in2 = map (wdim s) (axes tb) /\
    parent on2 = Some p /\ children on2 = [n] /\ shape on2 = map (wdim s) (axes ta) /\
    In n (children pn) /\
    akeys (nodes s') = akeys (nodes s) ++ [b] /\
    (forall k, aget k (tensors s') = if Nat.eqb k n then Some tb else if Nat.eqb k b then Some ta else aget k (tensors s)) /\
    root s' = root s /\ defs s' = defs s /\ dims s' = dims s /\ next_wire s' = next_wire s /\ next_atom s' = next_atom s /\ atab s' = atab s.
Proof.
  intros Hnd E0 Hp Hch Ep Hpn Eb Hnp H.
  assert (Hbn : b <> n) by (intros ->; congruence).
  assert (Hbp : b <> p) by (intros ->; congruence).
  unfold split_replace in H.
  destruct (access s n) as [[[s1 nd] t]|] eqn:Ea; [|discriminate].
  destruct (access_inv _ _ _ _ _ Ea) as (nd0' & t0 & E0' & Et0 & Hndr & Ht & Hs1).
  rewrite E0 in E0'. injection E0' as <-.
  match type of H with match ?x with _ => _ end = _ => destruct x as [ol|] eqn:Eo; [|discriminate] end.
  match type of H with match ?x with _ => _ end = _ => destruct x as [il|] eqn:Ei; [|discriminate] end.
  match type of H with match ?x with _ => _ end = _ => destruct x as [tsa|] eqn:Etsa; [|discriminate] end.
  match type of H with match ?x with _ => _ end = _ => destruct x as [tsb|] eqn:Etsb; [|discriminate] end.
  match type of H with (if ?c then _ else _) = _ => destruct c eqn:C1; [discriminate|] end.
  match type of H with (if ?c then _ else _) = _ => destruct c eqn:C2; [discriminate|] end.
  match type of H with (if ?c then _ else _) = _ => destruct c eqn:C3; [discriminate|] end.
  match type of H with (if ?c then _ else _) = _ => destruct c eqn:C4; [discriminate|] end.
  match type of H with (if ?c then _ else _) = _ => destruct c eqn:C5; [discriminate|] end.
  match type of H with (if ?c then _ else _) = _ => destruct c eqn:C6; [discriminate|] end.
  cbv zeta in H.
  cbn [ls_root ls_parent ls_children ls_open andb orb negb app] in H.
  set (sha := map (wdim s) (axes ta)) in *. set (shb := map (wdim s) (axes tb)) in *.
  destruct (open_leg_to_parent (new_node shb) b 0) as [in1|] eqn:Ein1; [|discriminate].
  destruct (open_legs_to_children in1 _) as [in2|] eqn:Ein2; [|discriminate].
  destruct (open_leg_to_parent (new_node sha) p 0) as [on1|] eqn:Eon1; [|discriminate].
  destruct (open_legs_to_children on1 _) as [on2|] eqn:Eon2; [|discriminate].
  destruct (replace_in_some_neighbours _ b n _) as [l1|] eqn:El1; [|discriminate].
  destruct (replace_in_some_neighbours l1 n n _) as [l2|] eqn:El2; [|discriminate].
  rewrite Nat.eqb_refl, orb_true_r in H. injection H as H.
  apply ris_same in El2. subst l2.
  unfold find_all_neighbour_ids in El1. cbn [ls_parent ls_children app] in El1.
  destruct (ris_single _ _ _ _ _ El1) as (pn1 & pn' & Epn1 & Ern & Hl1). clear El1.
  cbn [upd_tensors nodes] in Epn1, Hl1.
  assert (Hs1n : nodes s1 = aset n nd (nodes s)) by (rewrite Hs1; reflexivity).
  rewrite Hs1n in Epn1, Hl1.
  rewrite !aget_aset, (eqb_false p n), (eqb_false p b), Ep in Epn1 by congruence. injection Epn1 as <-.
  destruct (replace_neighbour_child _ _ _ _ Hpn Ern) as [Hpn' Hin].
  (* the new nodes *)
  destruct (oltp_struct _ _ _ _ Ein1) as [Pin1 Cin1].
  destruct (olc_struct _ _ _ Ein2) as [Pin2 Cin2]. rewrite Cin1, enum_from_fst in Cin2. cbn in Cin2. rewrite Pin1 in Pin2.
  destruct (oltp_struct _ _ _ _ Eon1) as [Pon1 Con1].
  destruct (olc_struct _ _ _ Eon2) as [Pon2 Con2]. rewrite Con1 in Con2. cbn in Con2. rewrite Pon1 in Pon2.
  pose proof (new_node_wf shb) as Win0.
  destruct (open_leg_to_parent_wf _ _ _ _ Win0 Ein1) as (Win1 & _ & _ & Sin1 & Lin1 & Nin1 & _).
  assert (Vin1 : nvirt in1 = 1) by (unfold nvirt, nparents; rewrite Pin1, Cin1; reflexivity).
  destruct (open_legs_to_children_spec in1 _ in2 Win1 ltac:(rewrite enum_from_snd; apply seq_NoDup) Ein2) as (_ & Sin2 & _ & Lin2 & _).
  assert (Nin2 : nth 0 (perm in2) 0 = 0).
  { rewrite Lin2, Vin1. rewrite nth0_firstn_app; [|lia|].
    - rewrite Nin1. cbn [new_node perm]. destruct shb; reflexivity.
    - intros Hnil. destruct Win1 as [W1 W2]. unfold nlegs in W2. rewrite Hnil, Vin1 in W2. cbn in W2. lia. }
  pose proof (new_node_wf sha) as Won0.
  destruct (open_leg_to_parent_wf _ _ _ _ Won0 Eon1) as (Won1 & _ & _ & Son1 & _).
  change (open_legs_to_children on1 [(n, nlegs on1 - 1)] = Some on2) in Eon2.
  assert (Hnd1 : NoDup (map snd [(n, nlegs on1 - 1)])) by (cbn; constructor; [intros []|constructor]).
  destruct (open_legs_to_children_spec on1 _ on2 Won1 Hnd1 Eon2) as (_ & Son2 & _).
  exists in2, on2.
  assert (Hn' : nodes s' = aset p pn' (aset n in2 (aset b on2 (aset n nd (nodes s))))).
  { rewrite <- H. cbn. rewrite Hl1. reflexivity. }
  split.
  { intros k. rewrite Hn', !aget_aset. destruct (Nat.eqb_spec k p) as [->|Hkp]; [rewrite Hpn'; reflexivity|].
    destruct (Nat.eqb_spec k n) as [->|Hkn]; [reflexivity|]. destruct (Nat.eqb_spec k b); reflexivity. }
  split; [exact Pin2|]. split; [exact Cin2|]. split; [exact Nin2|].
  split.
  { rewrite Lin2, Vin1, app_length. destruct (perm in1) as [|a l] eqn:Ep1; [|cbn; lia].
    destruct Win1 as [W1 W2]. unfold nlegs in W2. rewrite Ep1, Vin1 in W2. cbn in W2. lia. }
  split; [rewrite Sin2, Sin1; reflexivity|]. split; [exact Pon2|]. split; [exact Con2|].
  split; [rewrite Son2, Son1; reflexivity|]. split; [exact Hin|].
  split.
  { rewrite Hn'.
    assert (Kn : In n (akeys (nodes s))) by (eapply aget_Some_keys; eauto).
    assert (Kp : In p (akeys (nodes s))) by (eapply aget_Some_keys; eauto).
    assert (Kb : ~ In b (akeys (nodes s))) by (apply aget_None; exact Eb).
    set (X1 := aset n nd (nodes s)). set (X2 := aset b on2 X1). set (X3 := aset n in2 X2).
    assert (K1 : akeys X1 = akeys (nodes s)) by (apply akeys_aset_in; exact Kn).
    assert (K2 : akeys X2 = akeys (nodes s) ++ [b]) by (unfold X2; rewrite akeys_aset_notin; rewrite K1; auto).
    assert (K3 : akeys X3 = akeys (nodes s) ++ [b])
      by (unfold X3; rewrite akeys_aset_in; [exact K2|rewrite K2; apply in_or_app; left; exact Kn]).
    rewrite akeys_aset_in; [exact K3|rewrite K3; apply in_or_app; left; exact Kp]. }
  split.
  { intros k. rewrite <- H. cbn. rewrite !aget_aset. destruct (Nat.eqb_spec k n) as [->|Hkn]; [reflexivity|].
    destruct (Nat.eqb_spec k b) as [->|Hkb]; [reflexivity|]. rewrite Hs1. cbn. rewrite aget_aset, (eqb_false k n) by assumption. reflexivity. }
  rewrite <- H, Hs1. cbn. repeat split; reflexivity.
Qed.


Lemma contract_child s p c s' pn cn :
  NoDup (akeys (nodes s)) -> aget p (nodes s) = Some pn -> aget c (nodes s) = Some cn -> parent cn = Some p -> p <> c ->
  contract_nodes s p c p = Some s' ->
  exists nn nt ax,
    (forall k, aget k (nodes s') = if Nat.eqb k p then Some nn else if Nat.eqb k c then None
                                   else option_map (reparent p (children cn) k) (aget k (nodes s))) /\
    parent nn = parent pn /\ children nn = remove_first c (children pn) ++ children cn /\
    NoDup (akeys (nodes s')) /\
    root s' = root s /\ defs s' = defs s /\ dims s' = dims s /\ next_wire s' = next_wire s /\
    next_atom s' = next_atom s /\ atab s' = atab s /\
    (forall k, k <> p -> k <> c -> aget k (tensors s') = aget k (tensors s)) /\
    neighbour_index pn c = Some ax /\
    (exists pt ct, logical s p = Some pt /\ logical s c = Some ct /\ s_tensordot pt ct ax 0 = Some nt) /\
    (NoDup (akeys (tensors s)) -> aget p (tensors s') = Some nt /\ aget c (tensors s') = None /\ NoDup (akeys (tensors s'))) /\
    shape nn = map (wdim s) (axes nt).
Proof.
  intros Hnd Ep Ec Hpc Hne H.
  unfold contract_nodes, determine_parentage in H. rewrite Ep, Ec, Hpc, Nat.eqb_refl in H.
  destruct (access s p) as [[[s1 pn1] pt]|] eqn:A1; [|discriminate].
  destruct (access s1 c) as [[[s2 cn1] ct]|] eqn:A2; [|discriminate].
  destruct (neighbour_index pn1 c) as [ax|] eqn:Eax; [|discriminate].
  destruct (s_tensordot pt ct ax 0) as [nt|] eqn:Etd; [|discriminate].
  cbv zeta in H. rewrite Nat.eqb_refl in H.
  destruct (create_contracted_node _ pn1 cn1 c true) as [nn|] eqn:Ecc; [|discriminate].
  rewrite rnin_same in H.
  match type of H with match ?r with _ => _ end = _ => destruct r as [s5|] eqn:R5; [|discriminate] end.
  injection H as H.
  destruct (access_inv _ _ _ _ _ A1) as (x1 & pt0 & Ex1 & Ept0 & Hpn1 & Hpt & Hs1).
  rewrite Ep in Ex1. injection Ex1 as <-.
  destruct (access_inv _ _ _ _ _ A2) as (x2 & ct0 & Ex2 & Ect0 & Hcn1 & Hct & Hs2).
  assert (Hn1 : nodes s1 = aset p pn1 (nodes s)) by (rewrite Hs1; reflexivity).
  assert (Ht1 : tensors s1 = aset p pt (tensors s)) by (rewrite Hs1; reflexivity).
  rewrite Hn1, aget_aset, (eqb_false c p), Ec in Ex2 by congruence. injection Ex2 as <-.
  rewrite Ht1, aget_aset, (eqb_false c p) in Ect0 by congruence.
  assert (Hn2 : nodes s2 = aset c cn1 (aset p pn1 (nodes s))) by (rewrite Hs2, <- Hn1; reflexivity).
  assert (Ht2 : tensors s2 = aset c ct (aset p pt (tensors s))) by (rewrite Hs2, <- Ht1; reflexivity).
  set (s3 := upd_tensors s2 _) in R5.
  assert (Hnd3 : NoDup (akeys (nodes s3))).
  { change (nodes s3) with (nodes s2). rewrite Hn2. repeat apply NoDup_akeys_aset. exact Hnd. }
  assert (Ec3 : aget c (nodes s3) = Some cn1).
  { change (nodes s3) with (nodes s2). rewrite Hn2. apply aget_aset_same. }
  destruct (rnin_spec s3 p c true s5 cn1 R5 Hne Hnd3 Ec3) as (L & Hs5 & HndL & HL & _).
  assert (Pcn1 : parent cn1 = Some p) by (rewrite Hcn1; exact Hpc).
  assert (Ccn1 : children cn1 = children cn) by (rewrite Hcn1; reflexivity).
  rewrite Pcn1 in HL, Hs5. rewrite Nat.eqb_refl in HL. cbn [negb andb] in HL.
  destruct (ccn_struct _ _ _ _ _ _ Ecc) as [Pnn Cnn].
  exists nn, nt, ax.
  assert (Hn' : nodes s' = aset p nn L) by (rewrite <- H, Hs5; reflexivity).
  split.
  { intros k. rewrite Hn', aget_aset. destruct (Nat.eqb_spec k p) as [->|Hkp]; [reflexivity|].
    rewrite HL. cbn [andb]. destruct (Nat.eqb_spec k c) as [->|Hkc]; [reflexivity|].
    change (nodes s3) with (nodes s2). rewrite Hn2, !aget_aset, (eqb_false k c), (eqb_false k p) by assumption.
    rewrite Ccn1. reflexivity. }
  split; [rewrite Pnn, Hpn1; reflexivity|].
  split; [rewrite Cnn, Hpn1, Ccn1; reflexivity|].
  split; [rewrite Hn'; apply NoDup_akeys_aset; exact HndL|].
  rewrite <- H, Hs5. cbn [upd_nodes set_root upd_tensors root defs dims next_wire next_atom atab tensors].
  unfold s3. cbn [upd_tensors root defs dims next_wire next_atom atab tensors]. rewrite Hs2, Hs1. cbn.
  do 6 (split; [reflexivity|]).
  split.
  { intros k Hkp Hkc. rewrite aget_snoc_other by exact Hkp. rewrite !aget_adel_other by assumption.
    rewrite !aget_aset, (eqb_false k c), (eqb_false k p) by assumption. reflexivity. }
  split; [rewrite <- Eax, Hpn1; apply neighbour_index_ext; reflexivity|].
  split.
  { exists pt, ct. unfold logical. rewrite Ep, Ept0, Ec, Ect0, <- Hpt, <- Hct. auto. }
  split.
  { intros HT.
    set (T2 := aset c ct (aset p pt (tensors s))).
    assert (N2 : NoDup (akeys T2)) by (unfold T2; repeat apply NoDup_akeys_aset; exact HT).
    assert (N3 : NoDup (akeys (adel p T2))) by (apply NoDup_akeys_adel; exact N2).
    assert (N4 : NoDup (akeys (adel c (adel p T2)))) by (apply NoDup_akeys_adel; exact N3).
    assert (G1 : aget p (adel c (adel p T2)) = None).
    { rewrite aget_adel_other by exact Hne. apply aget_adel_same. exact N2. }
    assert (G2 : aget c (adel c (adel p T2)) = None) by (apply aget_adel_same; exact N3).
    split; [rewrite aget_app, G1; cbn; rewrite Nat.eqb_refl; reflexivity|].
    split; [rewrite aget_snoc_other by congruence; exact G2|].
    apply NoDup_akeys_snoc; assumption. }
  (* the recorded shape of the contracted node *)
  unfold create_contracted_node in Ecc.
  destruct (match parent pn1 with Some pp => open_leg_to_parent (new_node (map (wdim s) (axes nt))) pp 0
                             | None => Some (new_node (map (wdim s) (axes nt))) end) as [n1|] eqn:E1; [|discriminate].
  assert (S1 : shape n1 = map (wdim s) (axes nt)).
  { destruct (parent pn1); [|injection E1 as <-; reflexivity].
    destruct (open_leg_to_parent_wf _ _ _ _ (new_node_wf _) E1) as (_ & _ & _ & S & _). exact S. }
  match type of Ecc with match ?x with _ => _ end = _ => destruct x as [n2|] eqn:E2; [|discriminate] end.
  assert (Hn2n : n2 = nn) by congruence. subst n2.
  unfold open_legs_to_children in E2. destruct (forallb _ _); [|discriminate].
  assert (G : forall l orig n n', olc_loop orig n l = Some n' -> shape n' = shape n).
  { induction l as [|[[a b0] v] l IH]; intros orig n n' Hl; cbn [olc_loop] in Hl; [congruence|].
    destruct (Nat.ltb b0 orig); [discriminate|]. apply IH in Hl. exact Hl. }
  rewrite (G _ _ _ _ E2). exact S1.
Qed.


(* ---- the global tables only grow ------------------------------------------------------------------------- *)
Record grows (g g' : store) : Prop := {
  gr_defs : incl (defs g) (defs g');
  gr_wdim : forall w, w < next_wire g -> wdim g' w = wdim g w;
  gr_nw : next_wire g <= next_wire g';
  gr_na : next_atom g <= next_atom g'
}.

Lemma grows_refl g : grows g g.
Proof. constructor; auto. apply incl_refl. Qed.

Lemma grows_trans a b c : grows a b -> grows b c -> grows a c.
Proof.
  intros [A1 A2 A3 A4] [B1 B2 B3 B4]. constructor.
  - eapply incl_tran; eauto.
  - intros w Hw. rewrite B2 by lia. apply A2. exact Hw.
  - lia.
  - lia.
Qed.

Lemma grows_same g g' : defs g' = defs g -> dims g' = dims g -> next_wire g' = next_wire g -> next_atom g' = next_atom g ->
  grows g g'.
Proof.
  intros H1 H2 H3 H4. constructor.
  - rewrite H1. apply incl_refl.
  - intros w _. unfold wdim. rewrite H2. reflexivity.
  - lia.
  - lia.
Qed.

Lemma grows_focus_l g v g' : grows g g' -> grows (focus g v) g'.
Proof. intros [A1 A2 A3 A4]. constructor; assumption. Qed.
Lemma grows_focus_r g v g' : grows g g' -> grows g (focus g' v).
Proof. intros [A1 A2 A3 A4]. constructor; assumption. Qed.

(* a fresh wire does not disturb the dimensions of the existing ones *)
Lemma wdim_fresh (s : store) (D : list (wire * nat)) d w :
  w < next_wire s -> match aget w (D ++ [(next_wire s, d)]) with Some x => x | None => 0 end
                     = match aget w D with Some x => x | None => 0 end.
Proof.
  intros Hw. rewrite aget_app. destruct (aget w D); [reflexivity|]. cbn.
  destruct (Nat.eqb_spec w (next_wire s)); [lia|reflexivity].
Qed.

Lemma access_tables s n s1 nd t : access s n = Some (s1, nd, t) ->
  next_atom s1 = next_atom s /\ next_wire s1 = next_wire s /\ defs s1 = defs s /\ dims s1 = dims s /\ atab s1 = atab s /\ root s1 = root s.
Proof. intros Ha. destruct (access_inv _ _ _ _ _ Ha) as (nd0 & t0 & _ & _ & _ & _ & ->). cbn. auto 6. Qed.

Lemma access_grows s n s1 nd t : access s n = Some (s1, nd, t) -> grows s s1.
Proof. intros H. destruct (access_tables _ _ _ _ _ H) as (A & B & C & D & _). apply grows_same; assumption. Qed.

Lemma rnin_tables s new old del s' : replace_node_in_neighbours s new old del = Some s' ->
  next_atom s' = next_atom s /\ next_wire s' = next_wire s /\ defs s' = defs s /\ dims s' = dims s /\ atab s' = atab s /\ tensors s' = tensors s.
Proof.
  unfold replace_node_in_neighbours. destruct (Nat.eqb new old); [intros [= <-]; auto 6|].
  destruct (aget old (nodes s)) as [on|]; [|discriminate].
  match goal with |- match ?x with _ => _ end = _ -> _ => destruct x as [[r l2]|]; [|discriminate] end.
  intros [= <-]. cbn. auto 6.
Qed.

Lemma contract_tables s a b new s' : contract_nodes s a b new = Some s' ->
  next_atom s' = next_atom s /\ next_wire s' = next_wire s /\ defs s' = defs s /\ dims s' = dims s /\ atab s' = atab s.
Proof.
  unfold contract_nodes. destruct (determine_parentage s a b) as [[p c]|]; [|discriminate].
  destruct (access s p) as [[[s1 pn] pt]|] eqn:A1; [|discriminate].
  destruct (access s1 c) as [[[s2 cn] ct]|] eqn:A2; [|discriminate].
  destruct (neighbour_index pn c) as [ax|]; [|discriminate].
  destruct (s_tensordot pt ct ax 0) as [nt|]; [|discriminate].
  destruct (create_contracted_node _ pn cn c _) as [nn|]; [|discriminate].
  match goal with |- match ?x with _ => _ end = _ -> _ => destruct x as [s4|] eqn:R4; [|discriminate] end.
  destruct (replace_node_in_neighbours s4 new c true) as [s5|] eqn:R5; [|discriminate].
  intros [= <-]. cbn.
  destruct (rnin_tables _ _ _ _ _ R5) as (B1 & B2 & B3 & B4 & B5 & _).
  destruct (rnin_tables _ _ _ _ _ R4) as (C1 & C2 & C3 & C4 & C5 & _). cbn in C1, C2, C3, C4, C5.
  destruct (access_tables _ _ _ _ _ A2) as (D1 & D2 & D3 & D4 & D5 & _).
  destruct (access_tables _ _ _ _ _ A1) as (E1 & E2 & E3 & E4 & E5 & _).
  repeat split; congruence.
Qed.

Lemma contract_grows s a b new s' : contract_nodes s a b new = Some s' -> grows s s'.
Proof. intros H. destruct (contract_tables _ _ _ _ _ H) as (A & B & C & D & _). apply grows_same; assumption. Qed.

Lemma split_nodes_tables s n o i oid iid kind m rbond s' : split_nodes s n o i oid iid kind m rbond = Some s' ->
  exists bd df, dims s' = dims s ++ [(next_wire s, bd)] /\ defs s' = defs s ++ [df] /\
                next_wire s' = S (next_wire s) /\ next_atom s' = S (S (next_atom s)).
Proof.
  intros H. destruct (split_nodes_inv _ _ _ _ _ _ _ _ _ _ H) as (s1 & nd & t & ol & il & on2 & in2 & l2 & bd & Ha & _ & I).
  destruct (access_tables _ _ _ _ _ Ha) as (A1 & A2 & A3 & A4 & _).
  exists bd, (sp_def s1 t ol il kind m).
  rewrite (spf_dims _ _ _ _ _ _ _ _ _ _ _ _ _ _ _ _ _ I), (spf_defs _ _ _ _ _ _ _ _ _ _ _ _ _ _ _ _ _ I),
          (spf_next_wire _ _ _ _ _ _ _ _ _ _ _ _ _ _ _ _ _ I), (spf_next_atom _ _ _ _ _ _ _ _ _ _ _ _ _ _ _ _ _ I).
  rewrite A1, A2, A3, A4. auto.
Qed.

Lemma split_nodes_grows s n o i oid iid kind m rbond s' : split_nodes s n o i oid iid kind m rbond = Some s' -> grows s s'.
Proof.
  intros H. destruct (split_nodes_tables _ _ _ _ _ _ _ _ _ _ H) as (bd & df & A & B & C & D). constructor.
  - rewrite B. apply incl_appl, incl_refl.
  - intros w Hw. unfold wdim. rewrite A. apply wdim_fresh. exact Hw.
  - lia.
  - lia.
Qed.

Lemma qr_to_neighbour_grows s n nb m rid s' : qr_to_neighbour s n nb m rid = Some s' -> grows s s'.
Proof.
  unfold qr_to_neighbour. destruct (aget n (nodes s)) as [nd|]; [|discriminate].
  destruct (build_qr_leg_specs nd nb) as [q r].
  destruct (split_nodes s n q r n rid 0 m 0) as [s1|] eqn:E; [|discriminate].
  intros H. eapply grows_trans; [eapply split_nodes_grows; eauto|eapply contract_grows; eauto].
Qed.

Lemma move_fold_grows m rid : forall l s cur cs', fold_left (move_step m rid) l (Some (s, Some cur)) = Some cs' -> grows s (fst cs').
Proof.
  induction l as [|nb t IH]; intros s cur cs' H; cbn [fold_left] in H.
  - injection H as <-. apply grows_refl.
  - cbn [move_step] in H. destruct (qr_to_neighbour s cur nb m rid) as [s2|] eqn:E; [|rewrite move_fold_none in H; discriminate].
    eapply grows_trans; [eapply qr_to_neighbour_grows; eauto|eapply IH; eauto].
Qed.

Lemma move_center_grows cs c m rid cs' : move_center cs c m rid = Some cs' -> grows (fst cs) (fst cs').
Proof.
  destruct cs as [s oc]. unfold move_center. cbn [fst snd]. destruct oc as [c0|]; [|discriminate].
  destruct (Nat.eqb c0 c); [intros [= <-]; apply grows_refl|]. apply (move_fold_grows m rid).
Qed.

(* ---- structure through a centre move (no isometry hypothesis needed) ----------------------------------------- *)
Lemma move_fold_struct m rid : forall l s cur cs',
  tstruct (nodes s) -> aget rid (nodes s) = None ->
  fold_left (move_step m rid) l (Some (s, Some cur)) = Some cs' ->
  tstruct (nodes (fst cs')) /\ same_tree (nodes s) (nodes (fst cs')) /\ aget rid (nodes (fst cs')) = None.
Proof.
  induction l as [|nb t IH]; intros s cur cs' T Hrid H; cbn [fold_left] in H.
  - injection H as <-. cbn [fst]. split; [exact T|]. split; [apply same_tree_refl|exact Hrid].
  - cbn [move_step] in H. destruct (qr_to_neighbour s cur nb m rid) as [s2|] eqn:E; [|rewrite move_fold_none in H; discriminate].
    destruct (qr_step_effect _ _ _ _ _ _ T Hrid E) as (na & Ea & Hin & SE).
    destruct (step_same_tree _ _ _ _ _ _ T Ea Hin SE) as [S1 T1].
    destruct (ts_neighbour_sym _ _ _ _ T Ea Hin) as (nbn & Eb & Hba & Hne).
    assert (Hra : rid <> cur) by (intros ->; congruence).
    assert (Hrb : rid <> nb) by (intros ->; congruence).
    assert (Hrid' : aget rid (nodes s2) = None) by (rewrite (se_other_n _ _ _ _ _ _ SE rid Hra Hrb); exact Hrid).
    destruct (IH s2 nb cs' T1 Hrid' H) as (T3 & S3 & R3).
    split; [exact T3|]. split; [exact (same_tree_trans _ _ _ S1 S3)|exact R3].
Qed.

Lemma move_center_struct cs c m rid cs' :
  tstruct (nodes (fst cs)) -> aget rid (nodes (fst cs)) = None -> move_center cs c m rid = Some cs' ->
  tstruct (nodes (fst cs')) /\ same_tree (nodes (fst cs)) (nodes (fst cs')) /\ aget rid (nodes (fst cs')) = None.
Proof.
  destruct cs as [s oc]. cbn [fst]. intros T Hrid H. unfold move_center in H. cbn [fst snd] in H.
  destruct oc as [c0|]; [|discriminate]. destruct (Nat.eqb c0 c).
  - injection H as <-. cbn [fst]. split; [exact T|]. split; [apply same_tree_refl|exact Hrid].
  - apply (move_fold_struct m rid _ s c0 cs' T Hrid H).
Qed.

(* ---- the kernels touch only the tables ------------------------------------------------------------------------ *)
Lemma evolve_effect s n s' u : evolve s n = Some (s', u) ->
  exists nd t, aget n (nodes s) = Some nd /\ aget n (tensors s) = Some t /\
    nodes s' = aset n (reset_permutation nd) (nodes s) /\
    tensors s' = aset n (s_transpose (perm nd) t) (tensors s) /\
    u = {| axes := axes (s_transpose (perm nd) t); atoms := [next_atom s]; bnd := [] |} /\
    root s' = root s /\ grows s s' /\ dims s' = dims s /\ next_wire s' = next_wire s.
Proof.
  unfold evolve. destruct (access s n) as [[[s1 nd1] t1]|] eqn:Ea; [|discriminate].
  destruct (access_inv _ _ _ _ _ Ea) as (nd & t & E1 & E2 & -> & -> & Hs1).
  destruct (access_tables _ _ _ _ _ Ea) as (A1 & A2 & A3 & A4 & A5 & A6).
  cbn. intros [= <- <-]. exists nd, t.
  split; [exact E1|]. split; [exact E2|]. split; [rewrite Hs1; reflexivity|]. split; [rewrite Hs1; reflexivity|].
  split; [rewrite A1; reflexivity|]. split; [exact A6|]. split.
  - constructor; cbn.
    + rewrite A3. apply incl_appl, incl_refl.
    + intros w _. unfold wdim. cbn. rewrite A4. reflexivity.
    + lia.
    + lia.
  - cbn. auto.
Qed.

Definition dims_ok (g : store) : Prop := forall w, In w (akeys (dims g)) -> w < next_wire g.

Lemma qr_kernel_effect g t ql rl m g' q r : qr_kernel g t ql rl m = Some (g', q, r) ->
  nodes g' = nodes g /\ tensors g' = tensors g /\ root g' = root g /\ grows g g' /\
  q = {| axes := permute 0 ql (axes t) ++ [next_wire g]; atoms := [next_atom g]; bnd := [] |} /\
  (exists df, In df (defs g') /\ kq df = next_atom g /\ kkind df = 0 /\ kbond df = next_wire g) /\
  dims g' = dims g ++ [(next_wire g, qr_bond_dim m (prod_list (map (wdim g) (permute 0 ql (axes t))))
                                                     (prod_list (map (wdim g) (permute 0 rl (axes t)))))] /\
  next_wire g' = S (next_wire g) /\ Permutation (ql ++ rl) (seq 0 (length (axes t))).
Proof.
  unfold qr_kernel.
  destruct (is_perm_of_seq (ql ++ rl) && Nat.eqb (length (ql ++ rl)) (length (axes t))) eqn:Hp; cbn [negb]; [|discriminate].
  apply andb_true_iff in Hp as [Hp1 Hp2]. apply is_perm_of_seq_spec in Hp1. apply Nat.eqb_eq in Hp2. rewrite Hp2 in Hp1.
  match goal with |- (if ?c then _ else _) = _ -> _ => destruct c; [discriminate|] end.
  cbn. intros [= <- <- <-]. cbn.
  split; [reflexivity|]. split; [reflexivity|]. split; [reflexivity|]. split.
  { constructor; cbn.
    - apply incl_appl, incl_refl.
    - intros w Hw. unfold wdim. cbn. apply wdim_fresh. exact Hw.
    - lia.
    - lia. }
  split; [reflexivity|]. split.
  { eexists. split; [apply in_or_app; right; left; reflexivity|]. cbn. auto. }
  auto.
Qed.

Lemma concat_axis_effect g ax a b g' c : concat_axis g ax a b = Some (g', c) ->
  nodes g' = nodes g /\ tensors g' = tensors g /\ root g' = root g /\ grows g g' /\
  c = {| axes := set_nth ax (next_wire g) (axes a); atoms := [next_atom g]; bnd := [] |} /\
  dims g' = dims g ++ [(next_wire g, nth ax (map (wdim g) (axes a)) 0 + nth ax (map (wdim g) (axes b)) 0)] /\
  next_wire g' = S (next_wire g) /\
  set_nth ax 0 (map (wdim g) (axes a)) = set_nth ax 0 (map (wdim g) (axes b)) /\ ax < length (axes a).
Proof.
  unfold concat_axis.
  destruct (Nat.eqb (length (axes a)) (length (axes b)) && Nat.ltb ax (length (axes a))) eqn:H1; cbn [negb]; [|discriminate].
  apply andb_true_iff in H1 as [H1a H1b]. apply Nat.ltb_lt in H1b.
  destruct (list_eqb _ _) eqn:H2; cbn [negb]; [|discriminate]. apply list_eqb_eq in H2.
  cbn. intros [= <- <-]. cbn.
  split; [reflexivity|]. split; [reflexivity|]. split; [reflexivity|]. split.
  { constructor; cbn.
    - intros x Hx. apply in_or_app. left. apply in_or_app. left. exact Hx.
    - intros w Hw. unfold wdim. cbn. apply wdim_fresh. exact Hw.
    - lia.
    - lia. }
  auto.
Qed.

Lemma bc_atom_effect g wo wn g' m : bc_atom g wo wn = (g', m) ->
  nodes g' = nodes g /\ tensors g' = tensors g /\ root g' = root g /\ grows g g' /\
  m = {| axes := [wo; wn]; atoms := [next_atom g]; bnd := [] |} /\ dims g' = dims g /\ next_wire g' = next_wire g.
Proof.
  unfold bc_atom. cbn. intros [= <- <-]. cbn.
  split; [reflexivity|]. split; [reflexivity|]. split; [reflexivity|]. split.
  { constructor; cbn.
    - apply incl_appl, incl_refl.
    - intros w _. reflexivity.
    - lia.
    - lia. }
  auto.
Qed.

Lemma pull_tensor_effect bcoff g cv n g' : pull_tensor bcoff g cv n = Some g' ->
  exists newn nd' ot q, aget n (nodes g) = Some newn /\ vlogical cv n = Some ot /\
    parent nd' = parent newn /\ children nd' = children newn /\ perm nd' = q /\ shape nd' = map (wdim g) (axes ot) /\
    permute 0 q (map (wdim g) (axes ot)) = node_shape newn /\
    nodes g' = aset n nd' (nodes g) /\ tensors g' = aset n ot (tensors g) /\
    root g' = root g /\ defs g' = defs g /\ dims g' = dims g /\ next_wire g' = next_wire g /\ next_atom g' = next_atom g.
Proof.
  unfold pull_tensor. destruct (aget n (vnodes cv)) as [oldn|]; [|discriminate].
  destruct (aget n (nodes g)) as [newn|]; [|discriminate].
  destruct (vlogical cv n) as [ot|]; [|discriminate].
  destruct (rel_leg_perm bcoff oldn newn) as [q|]; [|discriminate].
  unfold node_replace_tensor.
  destruct (forallb _ q && list_eqb (permute 0 q (map (wdim g) (axes ot))) (node_shape newn)) eqn:Hc; [|discriminate].
  apply andb_true_iff in Hc as [_ Hc]. apply list_eqb_eq in Hc.
  intros [= <-]. exists newn, {| parent := parent newn; children := children newn; perm := q; shape := map (wdim g) (axes ot) |}, ot, q.
  cbn. auto 15.
Qed.


(* ---- a node that is one Q atom of a QR kernel call, the bond wire on its (logical) leg 0 --------------------- *)
Definition Qnode (g : store) (k : id) : Prop :=
  exists nd t a df, aget k (nodes g) = Some nd /\ aget k (tensors g) = Some t /\ atoms t = [a] /\
    1 <= length (perm nd) /\ In df (defs g) /\ kq df = a /\ kkind df = 0 /\
    kbond df = nth (nth 0 (perm nd) 0) (axes t) 0.

(* the node record may change its parent pointer / children, the tensor stays, the definitions grow *)
Lemma Qnode_frame g g' k :
  Qnode g k -> incl (defs g) (defs g') ->
  (forall nd, aget k (nodes g) = Some nd -> exists nd', aget k (nodes g') = Some nd' /\ perm nd' = perm nd) ->
  aget k (tensors g') = aget k (tensors g) -> Qnode g' k.
Proof.
  intros (nd & t & a & df & E1 & E2 & E3 & E4 & E5 & E6 & E7 & E8) Hd Hn Ht.
  destruct (Hn nd E1) as (nd' & E1' & Hp). exists nd', t, a, df. rewrite Hp, Ht. auto 10.
Qed.

Lemma nth0_map_nonempty {A B} (f : A -> B) (l : list A) d d' : 1 <= length l -> nth 0 (map f l) d' = f (nth 0 l d).
Proof. destruct l; cbn; [lia|reflexivity]. Qed.

Lemma Qnode_access g k g' nd t n : Qnode g k -> access g n = Some (g', nd, t) -> Qnode g' k.
Proof.
  intros Q Ha. destruct (access_inv _ _ _ _ _ Ha) as (nd0 & t0 & E1 & E2 & -> & -> & ->).
  destruct (Nat.eq_dec k n) as [->|Hne].
  - destruct Q as (nd & t & a & df & F1 & F2 & F3 & F4 & F5 & F6 & F7 & F8).
    rewrite E1 in F1. injection F1 as <-. rewrite E2 in F2. injection F2 as <-.
    exists (reset_permutation nd0), (s_transpose (perm nd0) t0), a, df. cbn.
    rewrite !aget_aset_same. rewrite seq_length.
    split; [reflexivity|]. split; [reflexivity|]. split; [exact F3|]. split; [exact F4|]. split; [exact F5|].
    split; [exact F6|]. split; [exact F7|]. rewrite F8.
    destruct (perm nd0) as [|x l] eqn:Ep; [cbn in F4; lia|]. cbn. reflexivity.
  - apply (Qnode_frame g _ k Q); cbn.
    + apply incl_refl.
    + intros nd E. exists nd. rewrite aget_aset_other by exact Hne. auto.
    + apply aget_aset_other. exact Hne.
Qed.

(* ---- replace_first as a substitution --------------------------------------------------------------------------- *)
Lemma replace_first_map x y l : NoDup l -> replace_first x y l = map (fun z => if Nat.eqb z x then y else z) l.
Proof.
  induction l as [|z t IH]; intros Hnd; cbn; [reflexivity|]. inversion Hnd as [|? ? Hni Hnd']; subst.
  destruct (Nat.eqb_spec x z) as [->|Hne].
  - rewrite Nat.eqb_refl. f_equal. symmetry. rewrite <- (map_id t) at 2. apply map_ext_in. intros a Ha.
    destruct (Nat.eqb_spec a z) as [->|]; [contradiction|reflexivity].
  - destruct (Nat.eqb_spec z x) as [->|_]; [congruence|]. f_equal. apply IH. exact Hnd'.
Qed.

(* ---- contract_all_children when every child is a basis-change node -------------------------------------------- *)
Section Fold.
  Variable bcoff : nat.
  Notation bc := (bcid bcoff).

  Definition cfold (n : id) (B : list id) (g : store) : option store :=
    fold_left (fun acc c => match acc with Some g' => contract_nodes g' n c n | None => None end) B (Some g).

  Lemma cfold_none n B : fold_left (fun acc c => match acc with Some g' => contract_nodes g' n c n | None => None end) B None = None.
  Proof. induction B as [|b B IH]; cbn; [reflexivity|exact IH]. Qed.

  Lemma contract_fold n : forall (X : list id) g g' nn D,
    cfold n (map bc X) g = Some g' ->
    NoDup (akeys (nodes g)) -> NoDup X -> ~ In n X -> ~ In n (map bc X) ->
    (forall x x', In x X -> In x' X -> bc x' <> x) ->
    aget n (nodes g) = Some nn -> children nn = map bc X ++ D ->
    (forall x, In x X -> exists bn, aget (bc x) (nodes g) = Some bn /\ parent bn = Some n /\ children bn = [x]) ->
    exists nn',
      aget n (nodes g') = Some nn' /\ parent nn' = parent nn /\ children nn' = D ++ X /\
      (forall x, In x X -> aget (bc x) (nodes g') = None /\
                           aget x (nodes g') = option_map (fun xn => with_parent xn (Some n)) (aget x (nodes g))) /\
      (forall k, k <> n -> ~ In k X -> ~ In k (map bc X) -> aget k (nodes g') = aget k (nodes g)) /\
      NoDup (akeys (nodes g')) /\ root g' = root g /\ grows g g' /\ dims g' = dims g /\ next_wire g' = next_wire g /\
      (forall k, k <> n -> ~ In k (map bc X) -> aget k (tensors g') = aget k (tensors g)).
  Proof.
    induction X as [|x X IH]; intros g g' nn D H Hnd HX HnX HnB Hdisj En Hch Hb.
    - cbn in H. injection H as <-. exists nn. cbn in Hch. rewrite app_nil_r.
      split; [exact En|]. split; [reflexivity|]. split; [exact Hch|]. split; [intros x []|].
      split; [auto|]. split; [exact Hnd|]. split; [reflexivity|]. split; [apply grows_refl|]. auto.
    - unfold cfold in H. cbn [map fold_left] in H.
      destruct (contract_nodes g n (bc x) n) as [g1|] eqn:Ec; [|rewrite cfold_none in H; discriminate].
      destruct (Hb x (or_introl eq_refl)) as (bn & Eb & Pb & Cb).
      assert (Hnb : n <> bc x) by (intros E; apply HnB; left; symmetry; exact E).
      destruct (contract_child g n (bc x) g1 nn bn Hnd En Eb Pb Hnb Ec)
        as (nn1 & nt & ax & G1 & P1 & C1 & N1 & R1 & D1 & M1 & W1 & A1 & _ & T1 & _).
      inversion HX as [|? ? Hxni HX']; subst.
      assert (En1 : aget n (nodes g1) = Some nn1) by (rewrite G1, Nat.eqb_refl; reflexivity).
      assert (Hch1 : children nn1 = map bc X ++ (D ++ [x])).
      { rewrite C1, Hch, Cb. cbn [map app remove_first]. rewrite Nat.eqb_refl. rewrite <- app_assoc. reflexivity. }
      assert (Hget1 : forall k, k <> n -> k <> bc x -> k <> x -> aget k (nodes g1) = aget k (nodes g)).
      { intros k K1 K2 K3. rewrite G1, (eqb_false k n), (eqb_false k (bc x)) by assumption.
        destruct (aget k (nodes g)) as [kn|]; [|reflexivity]. cbn. unfold reparent. rewrite Cb. cbn.
        rewrite (eqb_false k x) by assumption. reflexivity. }
      assert (Hb1 : forall x', In x' X -> exists bn', aget (bc x') (nodes g1) = Some bn' /\ parent bn' = Some n /\ children bn' = [x']).
      { intros x' Hx'. destruct (Hb x' (or_intror Hx')) as (bn' & E' & P' & C'). exists bn'. split; [|auto].
        rewrite Hget1; [exact E'| | |].
        - intros E. apply HnB. right. apply in_map_iff. exists x'. split; [exact E|exact Hx'].
        - unfold bcid. intros E. assert (x' = x) by lia. subst x'. contradiction.
        - apply Hdisj; [left; reflexivity|right; exact Hx']. }
      destruct (IH g1 g' nn1 (D ++ [x]) H N1 HX' ltac:(intros Hc; apply HnX; right; exact Hc)
                   ltac:(intros Hc; apply HnB; right; exact Hc)
                   ltac:(intros a b Ha Hb'; apply Hdisj; right; assumption) En1 Hch1 Hb1)
        as (nn' & F1 & F2 & F3 & F4 & F5 & F6 & F7 & F8 & F9 & F10 & F11).
      exists nn'. split; [exact F1|]. split; [congruence|]. split; [rewrite F3, <- app_assoc; reflexivity|].
      split.
      { intros y [<-|Hy].
        - assert (Hxn : x <> n) by (intros ->; apply HnX; left; reflexivity).
          assert (K1 : ~ In (bc x) X) by (intros Hc; apply (Hdisj (bc x) x); [right; exact Hc|left; reflexivity|reflexivity]).
          assert (K2 : ~ In (bc x) (map bc X)).
          { intros Hc. apply in_map_iff in Hc. destruct Hc as (z & Ez & Hz). unfold bcid in Ez. assert (z = x) by lia. subst z. contradiction. }
          assert (K3 : ~ In x (map bc X)).
          { intros Hc. apply in_map_iff in Hc. destruct Hc as (z & Ez & Hz). apply (Hdisj x z); [left; reflexivity|right; exact Hz|exact Ez]. }
          split.
          + rewrite F5; [|congruence|exact K1|exact K2]. rewrite G1, (eqb_false (bc x) n), Nat.eqb_refl by congruence. reflexivity.
          + rewrite F5; [|exact Hxn|exact Hxni|exact K3].
            rewrite G1, (eqb_false x n) by exact Hxn.
            assert (Hxb : x <> bc x) by (intros E; apply (Hdisj x x); [left; reflexivity|left; reflexivity|symmetry; exact E]).
            rewrite (eqb_false x (bc x)) by exact Hxb.
            destruct (aget x (nodes g)) as [xn|]; [|reflexivity]. cbn. unfold reparent. rewrite Cb. cbn.
            rewrite Nat.eqb_refl, (eqb_false x n) by exact Hxn. reflexivity.
        - destruct (F4 y Hy) as [F4a F4b]. split; [exact F4a|]. rewrite F4b. f_equal.
          apply Hget1.
          + intros ->. apply HnX. right. exact Hy.
          + intros E. apply (Hdisj y x); [right; exact Hy|left; reflexivity|symmetry; exact E].
          + intros ->. contradiction. }
      split.
      { intros k K1 K2 K3. rewrite F5; [|exact K1|intros Hc; apply K2; right; exact Hc|intros Hc; apply K3; right; exact Hc].
        apply Hget1; [exact K1|intros E; apply K3; left; symmetry; exact E|intros E; apply K2; left; symmetry; exact E]. }
      split; [exact F6|]. split; [congruence|].
      split; [eapply grows_trans; [eapply contract_grows; eauto|exact F8]|].
      split; [congruence|]. split; [congruence|].
      intros k K1 K2. rewrite F11; [|exact K1|intros Hc; apply K2; right; exact Hc].
      apply T1; [exact K1|intros E; apply K2; left; symmetry; exact E].
  Qed.
End Fold.


Lemma NoDup_keys_snoc_eq {V} (l l' : list (nat * V)) b :
  NoDup (akeys l) -> ~ In b (akeys l) -> akeys l' = akeys l ++ [b] -> NoDup (akeys l').
Proof.
  intros H1 H2 ->. apply NoDup_app_iff. split; [exact H1|]. split; [constructor; [intros []|constructor]|].
  intros x Hx [<-|[]]. contradiction.
Qed.

Section Leaf.
  Variables (fixed : bool) (bcoff : nat).
  Notation bc := (bcid bcoff).

  Lemma update_leaf_effect n p g cv pv g' nd0 pn :
    update_leaf fixed bcoff n g cv pv = Some g' ->
    NoDup (akeys (nodes g)) ->
    aget n (nodes g) = Some nd0 -> parent nd0 = Some p -> children nd0 = [] ->
    aget p (nodes g) = Some pn -> parent pn <> Some n -> aget (bc n) (nodes g) = None -> n <> p ->
    (exists cn, aget n (vnodes cv) = Some cn /\ parent cn = Some p) ->
    exists nn bn,
      (forall k, aget k (nodes g') =
                 if Nat.eqb k p then Some (with_children pn (replace_first n (bc n) (children pn)))
                 else if Nat.eqb k n then Some nn else if Nat.eqb k (bc n) then Some bn else aget k (nodes g)) /\
      parent nn = Some (bc n) /\ children nn = [] /\ parent bn = Some p /\ children bn = [n] /\ In n (children pn) /\
      NoDup (akeys (nodes g')) /\ root g' = root g /\ grows g g' /\
      (forall k, k <> n -> k <> bc n -> aget k (tensors g') = aget k (tensors g)) /\
      Qnode g' n.
  Proof.
    intros H Hnd E0 Hp Hch Ep Hpn Eb Hnp (cn & Ecn & Pcn).
    unfold update_leaf in H.
    destruct (evolve (focus g cv) n) as [[s1 u]|] eqn:Eev; [|discriminate].
    destruct (evolve_effect _ _ _ _ Eev) as (cnd & ct & V1 & V2 & V3 & V4 & V5 & V6 & V7 & V8 & V9).
    cbn [focus nodes tensors] in V1, V2, V3, V4.
    destruct (vlogical pv n) as [oldb|]; [|discriminate].
    set (g1 := focus s1 (view_of g)) in *.
    assert (G1 : nodes g1 = nodes g /\ tensors g1 = tensors g /\ root g1 = root g) by (cbn; auto).
    assert (Gr1 : grows g g1).
    { apply grows_focus_r. destruct V7 as [A1 A2 A3 A4]. constructor; assumption. }
    match type of H with match ?x with _ => _ end = _ => destruct x as [[[g3 q] r]|] eqn:Eq; [|discriminate] end.
    assert (Hq : exists g2 X, grows g1 g2 /\ nodes g2 = nodes g1 /\ tensors g2 = tensors g1 /\ root g2 = root g1 /\
                              qr_kernel g2 X [1] [0] (if fixed then Keep else Reduced) = Some (g3, q, r)).
    { destruct fixed.
      - exists g1, u. split; [apply grows_refl|]. auto.
      - destruct (concat_axis g1 0 oldb u) as [[g2 cc]|] eqn:Ecc; [|discriminate].
        destruct (concat_axis_effect _ _ _ _ _ _ Ecc) as (C1 & C2 & C3 & C4 & _).
        exists g2, cc. auto. }
    destruct Hq as (g2 & X & Gr2 & N2 & T2 & R2 & Eqr). clear Eq.
    destruct (qr_kernel_effect _ _ _ _ _ _ _ _ Eqr) as (N3 & T3 & R3 & Gr3 & Hqv & (df & Hdf & Dq & Dk & Db) & _ & _ & Hperm).
    match type of H with (if ?c then _ else _) = _ => destruct c; [discriminate|] end.
    destruct (bc_atom g3 _ _) as [g4 m] eqn:Ebc.
    destruct (bc_atom_effect _ _ _ _ _ Ebc) as (N4 & T4 & R4 & Gr4 & Hm & _).
    cbn [view_of vnodes] in H. rewrite V3, aget_aset_same in H. cbn [reset_permutation parent] in H.
    rewrite V1 in Ecn. injection Ecn as <-. rewrite Pcn in H.
    destruct (split_replace g4 n _ _ (bc n) n m _) as [g5|] eqn:Esp; [|discriminate].
    destruct (access g5 n) as [[[g6 nd6] t6]|] eqn:Ea6; [|discriminate]. cbn in H. injection H as <-.
    assert (N4' : nodes g4 = nodes g) by (rewrite N4, N3, N2; apply G1).
    assert (T4' : tensors g4 = tensors g) by (rewrite T4, T3, T2; apply G1).
    assert (R4' : root g4 = root g) by (rewrite R4, R3, R2; apply G1).
    assert (Gr4' : grows g g4).
    { eapply grows_trans; [exact Gr1|]. eapply grows_trans; [exact Gr2|]. eapply grows_trans; [exact Gr3|exact Gr4]. }
    rewrite <- N4' in Hnd, E0, Ep, Eb.
    destruct (split_replace_bug g4 n p (bc n) [] [1] m _ g5 nd0 pn Hnd E0 Hp Hch Ep Hpn Eb Hnp Esp)
      as (in2 & on2 & S1 & S2 & S3 & S4 & S4b & S5 & S6 & S7 & S8 & S9 & S10 & S11 & S12 & S13 & S14 & S15 & S16 & S17).
    destruct (access_inv _ _ _ _ _ Ea6) as (nd5 & t5 & A1 & A2 & -> & -> & ->).
    rewrite S1, (eqb_false n p), Nat.eqb_refl in A1 by exact Hnp. injection A1 as <-.
    rewrite S11, Nat.eqb_refl in A2. injection A2 as <-.
    exists (reset_permutation in2), on2. cbn [upd_tensors upd_nodes nodes tensors root].
    assert (Hbn : bc n <> n) by (intros E; rewrite E in Eb; congruence).
    split.
    { intros k. rewrite aget_aset. destruct (Nat.eqb_spec k n) as [->|Hkn].
      - rewrite (eqb_false n p) by exact Hnp. reflexivity.
      - rewrite S1, (eqb_false k n) by exact Hkn. rewrite N4'. reflexivity. }
    split; [exact S2|]. split; [exact S3|]. split; [exact S6|]. split; [exact S7|]. split; [exact S9|].
    assert (K5 : NoDup (akeys (nodes g5))).
    { eapply NoDup_keys_snoc_eq; [exact Hnd| |exact S10]. apply aget_None. exact Eb. }
    split; [apply NoDup_akeys_aset; exact K5|].
    split; [rewrite S12; exact R4'|].
    split.
    { eapply grows_trans; [exact Gr4'|]. apply grows_same; cbn; assumption. }
    split.
    { intros k K1 K2. rewrite aget_aset_other by exact K1. rewrite S11, (eqb_false k n), (eqb_false k (bc n)) by assumption.
      rewrite T4'. reflexivity. }
    (* the new basis is the Q atom, the bond on leg 0 *)
    assert (Hax : exists x1, axes q = [x1; next_wire g2]).
    { rewrite Hqv. cbn. eexists. reflexivity. }
    destruct Hax as [x1 Hax].
    assert (Q5 : Qnode g5 n).
    { exists in2, (s_transpose [1; 0] q), (next_atom g2), df.
      rewrite S1, (eqb_false n p), Nat.eqb_refl by exact Hnp. rewrite S11, Nat.eqb_refl.
      split; [reflexivity|]. split; [reflexivity|]. split; [rewrite Hqv; reflexivity|].
      split; [exact S4b|].
      split; [rewrite S13; apply (gr_defs _ _ Gr4); exact Hdf|]. split; [exact Dq|]. split; [exact Dk|].
      rewrite Db, S4. cbn. rewrite Hax. reflexivity. }
    eapply Qnode_access; [exact Q5|exact Ea6].
  Qed.
End Leaf.


Lemma last_leg_first_Q (ow : list wire) w a :
  exists rest, last_leg_first {| axes := ow ++ [w]; atoms := [a]; bnd := [] |} = {| axes := w :: rest; atoms := [a]; bnd := [] |}.
Proof.
  unfold last_leg_first. cbn [axes]. rewrite app_length. cbn [length]. rewrite Nat.add_1_r.
  destruct (length ow) as [|j] eqn:El.
  - destruct ow; [|discriminate]. cbn. eexists. reflexivity.
  - unfold s_transpose, permute. cbn [axes atoms bnd map]. rewrite app_nth2 by lia. rewrite El, Nat.sub_diag. cbn [nth].
    eexists. reflexivity.
Qed.

Lemma new_basis_effect fixed g nd oldt u g' newb : new_basis fixed g nd oldt u = Some (g', newb) ->
  nodes g' = nodes g /\ tensors g' = tensors g /\ root g' = root g /\ grows g g' /\
  exists w a df rest, newb = {| axes := w :: rest; atoms := [a]; bnd := [] |} /\
                      In df (defs g') /\ kq df = a /\ kkind df = 0 /\ kbond df = w.
Proof.
  unfold new_basis. destruct (is_root nd); [discriminate|]. destruct fixed.
  - destruct (qr_kernel g u _ [0] Keep) as [[[g1 q] r]|] eqn:Eq; [|discriminate].
    destruct (qr_kernel_effect _ _ _ _ _ _ _ _ Eq) as (N & T & R & Gr & Hq & (df & Hdf & D1 & D2 & D3) & _).
    destruct (list_eqb _ _); [|discriminate]. intros [= <- <-].
    split; [exact N|]. split; [exact T|]. split; [exact R|]. split; [exact Gr|].
    rewrite Hq. destruct (last_leg_first_Q (permute 0 (seq (nparents nd) (length (children nd)) ++ seq (nvirt nd) (nopen nd)) (axes u))
                            (next_wire g) (next_atom g)) as [rest Hr].
    exists (next_wire g), (next_atom g), df, rest. auto.
  - destruct (concat_axis g 0 oldt u) as [[g1 cc]|] eqn:Ec; [|discriminate].
    destruct (concat_axis_effect _ _ _ _ _ _ Ec) as (N1 & T1 & R1 & Gr1 & _).
    destruct (qr_kernel g1 cc _ [0] Reduced) as [[[g2 q] r]|] eqn:Eq; [|discriminate].
    destruct (qr_kernel_effect _ _ _ _ _ _ _ _ Eq) as (N & T & R & Gr & Hq & (df & Hdf & D1 & D2 & D3) & _).
    intros [= <- <-].
    split; [congruence|]. split; [congruence|]. split; [congruence|]. split; [eapply grows_trans; eauto|].
    rewrite Hq. destruct (last_leg_first_Q (permute 0 (seq (nparents nd) (length (children nd)) ++ seq (nvirt nd) (nopen nd)) (axes cc))
                            (next_wire g1) (next_atom g1)) as [rest Hr].
    exists (next_wire g1), (next_atom g1), df, rest. auto.
Qed.

Section NonLeaf.
  Variables (fixed : bool) (bcoff : nat).
  Notation bc := (bcid bcoff).

  Lemma bc_inj a b : bc a = bc b -> a = b.
  Proof. unfold bcid. lia. Qed.

  Lemma in_map_bc a X : In (bc a) (map bc X) <-> In a X.
  Proof.
    split.
    - intros H. apply in_map_iff in H. destruct H as (z & Ez & Hz). apply bc_inj in Ez. subst z. exact Hz.
    - apply in_map.
  Qed.

  Lemma update_non_leaf_rest_effect n p X g cv pv g' nn0 pn :
    update_non_leaf_rest fixed bcoff n g cv pv = Some g' ->
    NoDup (akeys (nodes g)) -> NoDup X -> ~ In n X -> ~ In n (map bc X) ->
    (forall x x', In x X -> In x' X -> bc x' <> x) ->
    aget n (nodes g) = Some nn0 -> parent nn0 = Some p -> children nn0 = map bc X ->
    (forall x, In x X -> exists bn, aget (bc x) (nodes g) = Some bn /\ parent bn = Some n /\ children bn = [x]) ->
    aget p (nodes g) = Some pn -> parent pn <> Some n -> aget (bc n) (nodes g) = None -> n <> p ->
    ~ In p X -> ~ In p (map bc X) -> ~ In (bc n) X ->
    exists nn bn,
      (forall k, aget k (nodes g') =
                 if Nat.eqb k p then Some (with_children pn (replace_first n (bc n) (children pn)))
                 else if Nat.eqb k n then Some nn else if Nat.eqb k (bc n) then Some bn
                 else if memb k (map bc X) then None
                 else if memb k X then option_map (fun xn => with_parent xn (Some n)) (aget k (nodes g))
                 else aget k (nodes g)) /\
      parent nn = Some (bc n) /\ children nn = X /\ parent bn = Some p /\ children bn = [n] /\ In n (children pn) /\
      NoDup (akeys (nodes g')) /\ root g' = root g /\ grows g g' /\
      (forall k, k <> n -> k <> bc n -> ~ In k (map bc X) -> aget k (tensors g') = aget k (tensors g)) /\
      Qnode g' n.
  Proof.
    intros H Hnd HX HnX HnB Hdisj En Pn Cn Hb Ep Hpn Eb Hnp HpX HpB HbX.
    unfold update_non_leaf_rest in H.
    destruct (pull_tensor bcoff g cv n) as [g1|] eqn:Epull; [|discriminate].
    destruct (pull_tensor_effect _ _ _ _ _ Epull) as (newn & nd' & ot & q0 & P1 & P2 & P3 & P4 & P5 & P6 & P7 & P8 & P9 & P10 & P11 & P12 & P13 & P14).
    rewrite En in P1. injection P1 as <-.
    destruct (contract_all_children g1 n) as [g2|] eqn:Ecac; [|discriminate].
    unfold contract_all_children in Ecac. rewrite P8, aget_aset_same, P4, Cn in Ecac.
    assert (Hnd1 : NoDup (akeys (nodes g1))) by (rewrite P8; apply NoDup_akeys_aset; exact Hnd).
    assert (En1 : aget n (nodes g1) = Some nd') by (rewrite P8; apply aget_aset_same).
    assert (Cn1 : children nd' = map bc X ++ []) by (rewrite app_nil_r, P4; exact Cn).
    assert (Hb1 : forall x, In x X -> exists bn, aget (bc x) (nodes g1) = Some bn /\ parent bn = Some n /\ children bn = [x]).
    { intros x Hx. destruct (Hb x Hx) as (bn & E & Q). exists bn. split; [|exact Q]. rewrite P8, aget_aset_other; [exact E|].
      intros Ec. apply HnB. rewrite <- Ec. apply in_map. exact Hx. }
    destruct (contract_fold bcoff n X g1 g2 nd' [] Ecac Hnd1 HX HnX HnB Hdisj En1 Cn1 Hb1)
      as (nn2 & F1 & F2 & F3 & F4 & F5 & F6 & F7 & F8 & F9 & F10 & F11).
    cbn [app] in F3.
    destruct (evolve g2 n) as [[g3 u]|] eqn:Eev; [|discriminate].
    destruct (evolve_effect _ _ _ _ Eev) as (nd2 & t2 & V1 & V2 & V3 & V4 & V5 & V6 & V7 & V8 & V9).
    rewrite F1 in V1. injection V1 as <-.
    rewrite V3, aget_aset_same, V4, aget_aset_same in H.
    destruct (vlogical pv n) as [oldb|]; [|discriminate].
    destruct (new_basis fixed g3 _ _ u) as [[g4 newb]|] eqn:Enb; [|discriminate].
    destruct (new_basis_effect _ _ _ _ _ _ _ Enb) as (N4 & T4 & R4 & Gr4 & (w & a & df & rest & Hnewb & Hdf & D1 & D2 & D3)).
    match type of H with match ?x with _ => _ end = _ => destruct x as [[pp|]|]; try discriminate end.
    destruct (bc_atom g4 _ _) as [g5 m] eqn:Ebc.
    destruct (bc_atom_effect _ _ _ _ _ Ebc) as (N5 & T5 & R5 & Gr5 & Hm & _).
    destruct (split_replace g5 n _ _ (bc n) n m newb) as [g6|] eqn:Esp; [|discriminate].
    destruct (access g6 n) as [[[g7 nd7] t7]|] eqn:Ea7; [|discriminate]. cbn in H. injection H as <-.
    cbn [reset_permutation parent children] in Esp. rewrite F2, P3, Pn, F3 in Esp.
    assert (N5' : nodes g5 = aset n (reset_permutation nn2) (nodes g2)) by (rewrite N5, N4; exact V3).
    assert (Hnd5 : NoDup (akeys (nodes g5))) by (rewrite N5'; apply NoDup_akeys_aset; exact F6).
    assert (E5 : aget n (nodes g5) = Some (reset_permutation nn2)) by (rewrite N5'; apply aget_aset_same).
    assert (Hnbc : n <> bc n) by (intros E; rewrite <- E in Eb; congruence).
    assert (HbB : ~ In (bc n) (map bc X)) by (rewrite in_map_bc; exact HnX).
    assert (Ep5 : aget p (nodes g5) = Some pn).
    { rewrite N5', aget_aset_other by congruence. rewrite F5 by auto. rewrite P8, aget_aset_other by congruence. exact Ep. }
    assert (Eb5 : aget (bc n) (nodes g5) = None).
    { rewrite N5', aget_aset_other by congruence. rewrite F5 by auto. rewrite P8, aget_aset_other by congruence. exact Eb. }
    assert (Pnn2 : parent (reset_permutation nn2) = Some p) by (cbn; rewrite F2, P3; exact Pn).
    assert (Cnn2 : children (reset_permutation nn2) = X) by (cbn; exact F3).
    destruct (split_replace_bug g5 n p (bc n) X _ m newb g6 _ pn Hnd5 E5 Pnn2 Cnn2 Ep5 Hpn Eb5 Hnp Esp)
      as (in2 & on2 & S1 & S2 & S3 & S4 & S4b & S5 & S6 & S7 & S8 & S9 & S10 & S11 & S12 & S13 & S14 & S15 & S16 & S17).
    destruct (access_inv _ _ _ _ _ Ea7) as (nd6 & t6 & A1 & A2 & -> & -> & ->).
    rewrite S1, (eqb_false n p), Nat.eqb_refl in A1 by exact Hnp. injection A1 as <-.
    rewrite S11, Nat.eqb_refl in A2. injection A2 as <-.
    exists (reset_permutation in2), on2. cbn [upd_tensors upd_nodes nodes tensors root].
    split.
    { intros k. rewrite aget_aset. destruct (Nat.eqb_spec k n) as [->|Hkn].
      - rewrite (eqb_false n p) by exact Hnp. reflexivity.
      - rewrite S1, (eqb_false k n) by exact Hkn. destruct (Nat.eqb_spec k p) as [->|Hkp]; [reflexivity|].
        destruct (Nat.eqb_spec k (bc n)) as [->|Hkb]; [reflexivity|].
        rewrite N5', aget_aset_other by exact Hkn.
        destruct (memb k (map bc X)) eqn:M1.
        + apply memb_In in M1. apply in_map_iff in M1. destruct M1 as (x & <- & Hx). apply (F4 x Hx).
        + apply memb_false in M1. destruct (memb k X) eqn:M2.
          * apply memb_In in M2. destruct (F4 k M2) as [_ F4b]. rewrite F4b, P8, aget_aset_other by exact Hkn. reflexivity.
          * apply memb_false in M2. rewrite F5 by assumption. rewrite P8, aget_aset_other by exact Hkn. reflexivity. }
    split; [exact S2|]. split; [exact S3|]. split; [exact S6|]. split; [exact S7|]. split; [exact S9|].
    assert (K6 : NoDup (akeys (nodes g6))).
    { eapply NoDup_keys_snoc_eq; [exact Hnd5| |exact S10]. apply aget_None. exact Eb5. }
    split; [apply NoDup_akeys_aset; exact K6|].
    split; [rewrite S12, R5, R4, V6, F7; exact P10|].
    assert (Gr01 : grows g g1) by (apply grows_same; assumption).
    assert (Gr5' : grows g g5).
    { eapply grows_trans; [exact Gr01|]. eapply grows_trans; [exact F8|]. eapply grows_trans; [exact V7|].
      eapply grows_trans; [exact Gr4|exact Gr5]. }
    split.
    { eapply grows_trans; [exact Gr5'|]. apply grows_same; cbn; assumption. }
    split.
    { intros k K1 K2 K3. rewrite aget_aset_other by exact K1. rewrite S11, (eqb_false k n), (eqb_false k (bc n)) by assumption.
      rewrite T5, T4, V4, aget_aset_other by exact K1. rewrite F11 by assumption. rewrite P9, aget_aset_other by exact K1. reflexivity. }
    assert (Q6 : Qnode g6 n).
    { exists in2, newb, a, df.
      rewrite S1, (eqb_false n p), Nat.eqb_refl by exact Hnp. rewrite S11, Nat.eqb_refl.
      split; [reflexivity|]. split; [reflexivity|]. split; [rewrite Hnewb; reflexivity|].
      split; [exact S4b|].
      split; [rewrite S13; apply (gr_defs _ _ Gr5); exact Hdf|]. split; [exact D1|]. split; [exact D2|].
      rewrite D3, S4, Hnewb. reflexivity. }
    eapply Qnode_access; [exact Q6|exact Ea7].
  Qed.
End NonLeaf.


(* ---- the visiting tree against a node dictionary ------------------------------------------------------------- *)
Inductive tree_of (T0 : list (id * node)) : rtree -> Prop :=
| tree_of_node n kids nd : aget n T0 = Some nd -> Permutation (map RTree.rid kids) (children nd) ->
    Forall (tree_of T0) kids -> tree_of T0 (RNode n kids).

Lemma perm_ofb_spec a b : perm_ofb a b = true -> NoDup b -> Permutation a b.
Proof.
  unfold perm_ofb. rewrite !andb_true_iff. intros [[H1 H2] H3] Hb. apply Nat.eqb_eq in H1. apply nodupb_NoDup in H2.
  rewrite forallb_forall in H3. apply NoDup_Permutation_bis; [exact H2|lia|].
  intros x Hx. apply memb_In. apply H3. exact Hx.
Qed.

Lemma tree_matchb_tree_of T0 : (forall k n, aget k T0 = Some n -> NoDup (children n)) ->
  forall t, tree_matchb T0 t = true -> tree_of T0 t.
Proof.
  intros Hch t. induction t as [n kids IH] using rtree_ind2. cbn [tree_matchb].
  destruct (aget n T0) as [nd|] eqn:E; [|discriminate]. rewrite andb_true_iff. intros [H1 H2].
  econstructor; [exact E|apply perm_ofb_spec; [exact H1|eapply Hch; eauto]|].
  rewrite forallb_forall in H2. rewrite Forall_forall in *. intros c Hc. apply IH; [exact Hc|apply H2; exact Hc].
Qed.

(* ---- substitution of children by their basis-change nodes ------------------------------------------------------- *)
Section Sub.
  Variable bcoff : nat.
  Notation bc := (bcid bcoff).
  Definition sub (dn : list id) (z : id) : id := if memb z dn then bc z else z.

  Lemma replace_first_sub x dn ch :
    NoDup ch -> ~ In x dn -> (forall z, In z ch -> bc z <> x) ->
    replace_first x (bc x) (map (sub dn) ch) = map (sub (x :: dn)) ch.
  Proof.
    intros Hnd Hx Hbc. induction ch as [|z t IH]; [reflexivity|]. inversion Hnd as [|? ? Hzt Hnd']; subst.
    cbn [map].
    destruct (Nat.eq_dec z x) as [->|Hzx].
    - assert (E1 : sub dn x = x) by (unfold sub; apply memb_false in Hx; rewrite Hx; reflexivity).
      assert (E2 : sub (x :: dn) x = bc x) by (unfold sub; cbn [memb existsb]; rewrite Nat.eqb_refl; reflexivity).
      rewrite E1, E2. cbn [replace_first]. rewrite Nat.eqb_refl. f_equal.
      apply map_ext_in. intros a Ha. unfold sub. cbn [memb existsb].
      destruct (Nat.eqb_spec a x) as [->|]; [contradiction|reflexivity].
    - assert (E1 : sub (x :: dn) z = sub dn z) by (unfold sub; cbn [memb existsb]; rewrite (eqb_false z x) by exact Hzx; reflexivity).
      assert (Hne : x <> sub dn z).
      { unfold sub. destruct (memb z dn); [intros E; apply (Hbc z (or_introl eq_refl)); symmetry; exact E|congruence]. }
      rewrite E1. cbn [replace_first]. rewrite (eqb_false _ _ Hne). f_equal.
      apply IH; [exact Hnd'|intros a Ha; apply Hbc; right; exact Ha].
  Qed.

  Lemma map_sub_ext d1 d2 ch : (forall z, In z ch -> (In z d1 <-> In z d2)) -> map (sub d1) ch = map (sub d2) ch.
  Proof.
    intros H. apply map_ext_in. intros z Hz. unfold sub.
    destruct (memb z d1) eqn:M1; destruct (memb z d2) eqn:M2; try reflexivity.
    - apply memb_In in M1. apply memb_false in M2. exfalso. apply M2. apply (H z Hz). exact M1.
    - apply memb_In in M2. apply memb_false in M1. exfalso. apply M1. apply (H z Hz). exact M2.
  Qed.

  Lemma map_sub_nil ch : map (sub []) ch = ch.
  Proof. rewrite <- (map_id ch) at 2. apply map_ext. intros z. reflexivity. Qed.

  Lemma map_sub_all dn ch : (forall z, In z ch -> In z dn) -> map (sub dn) ch = map bc ch.
  Proof.
    intros H. apply map_ext_in. intros z Hz. unfold sub. specialize (H z Hz). apply memb_In in H. rewrite H. reflexivity.
  Qed.
End Sub.

Lemma loop_eq fixed bcoff rid cv cc : forall l g,
  (fix loop (l : list rtree) (g' : store) {struct l} : option store :=
     match l with
     | [] => Some g'
     | c :: r => match update_node fixed bcoff rid c g' cv cc with
                 | Some g'' => loop r g''
                 | None => None
                 end
     end) l g = update_children fixed bcoff rid l g cv cc.
Proof.
  induction l as [|c r IH]; intros g; [reflexivity|]. cbn [update_children].
  destruct (update_node fixed bcoff rid c g cv cc); [apply IH|reflexivity].
Qed.


Lemma update_node_eq fixed bcoff tmp n kids g pv pc : update_node fixed bcoff tmp (RNode n kids) g pv pc =
  match aget n (vnodes pv) with
  | None => None
  | Some pn0 =>
      match parent pn0 with
      | None => None
      | Some p =>
          if negb (match pc with Some c0 => Nat.eqb c0 p | None => false end) then None else
          match move_center (focus g pv, pc) n Keep tmp with
          | None => None
          | Some (s1, cc) =>
              let cv := view_of s1 in
              let g1 := focus s1 (view_of g) in
              match aget n (vnodes cv) with
              | None => None
              | Some cn =>
                  if nilb (children cn) then (if nilb kids then update_leaf fixed bcoff n g1 cv pv else None)
                  else if negb (perm_ofb (map RTree.rid kids) (children cn)) then None
                       else match update_children fixed bcoff tmp kids g1 cv cc with
                            | None => None
                            | Some g2 => update_non_leaf_rest fixed bcoff n g2 cv pv
                            end
              end
          end
      end
  end.
Proof.
  cbn [update_node].
  destruct (aget n (vnodes pv)) as [pn0|]; [|reflexivity].
  destruct (parent pn0) as [p|]; [|reflexivity].
  destruct (negb _); [reflexivity|].
  destruct (move_center _ _ _ _) as [[s1 cc]|]; [|reflexivity].
  cbv zeta. cbn [view_of vnodes].
  destruct (aget n (nodes s1)) as [cn|]; [|reflexivity].
  destruct (nilb (children cn)); [reflexivity|].
  destruct (negb _); [reflexivity|].
  rewrite loop_eq. reflexivity.
Qed.

Section Main.
  Variables (fixed : bool) (bcoff : nat) (tmp : id).
  Notation bc := (bcid bcoff).
  Notation rid := RTree.rid.

  Definition agree (L T0 : list (id * node)) (k : id) : Prop :=
    exists a b, aget k L = Some a /\ aget k T0 = Some b /\ parent a = parent b /\ Permutation (children a) (children b).

  Definition bc_fresh (T0 : list (id * node)) : Prop := forall k, In k (akeys T0) -> aget (bc k) T0 = None.

  (* the identifiers of a processed subtree: children as in T0 up to order; the parent as in T0, except that the
     subtree's root hangs under its basis-change node *)
  Definition post (T0 L' : list (id * node)) (t : rtree) : Prop :=
    forall k, In k (ids t) -> exists a b, aget k L' = Some a /\ aget k T0 = Some b /\
      Permutation (children a) (children b) /\
      parent a = (if Nat.eqb k (rid t) then Some (bc (rid t)) else parent b).

  Record node_effect (T0 : list (id * node)) (t : rtree) (p : id) (pn : node) (g g' : store) : Prop := {
    ne_nd : NoDup (akeys (nodes g'));
    ne_post : post T0 (nodes g') t;
    ne_bc : exists bn, aget (bc (rid t)) (nodes g') = Some bn /\ parent bn = Some p /\ children bn = [rid t];
    ne_p : aget p (nodes g') = Some (with_children pn (replace_first (rid t) (bc (rid t)) (children pn)));
    ne_frame : forall k, ~ In k (ids t) -> k <> p -> k <> bc (rid t) -> aget k (nodes g') = aget k (nodes g);
    ne_root : root g' = root g;
    ne_tens : forall k, ~ In k (ids t) -> ~ In k (map bc (ids t)) -> aget k (tensors g') = aget k (tensors g);
    ne_grows : grows g g';
    ne_q : forall k, In k (ids t) -> Qnode g' k
  }.

  Definition P (t : rtree) : Prop := forall g pv pc g' T0 p pn,
    update_node fixed bcoff tmp t g pv pc = Some g' ->
    tstruct T0 -> bc_fresh T0 -> tree_of T0 t -> NoDup (ids t) ->
    (exists n0, aget (rid t) T0 = Some n0 /\ parent n0 = Some p) ->
    ~ In p (ids t) -> In p (akeys T0) ->
    NoDup (akeys (nodes g)) ->
    (forall k, In k (ids t) -> agree (nodes g) T0 k) ->
    (forall k, In k (ids t) -> aget (bc k) (nodes g) = None) ->
    aget p (nodes g) = Some pn -> parent pn <> Some (rid t) ->
    tstruct (vnodes pv) -> same_tree T0 (vnodes pv) -> aget tmp (vnodes pv) = None ->
    node_effect T0 t p pn g g'.

  Lemma agree_key L T0 k : agree L T0 k -> In k (akeys T0).
  Proof. intros (a & b & _ & E & _). eapply aget_Some_keys; eauto. Qed.

  Lemma fresh_ne T0 x y : bc_fresh T0 -> In x (akeys T0) -> In y (akeys T0) -> bc x <> y.
  Proof. intros F Hx Hy E. specialize (F x Hx). rewrite E in F. apply aget_None in F. contradiction. Qed.

  Lemma in_flat_ids c l k : In c l -> In k (ids c) -> In k (flat_map ids l).
  Proof. intros Hc Hk. apply in_flat_map. exists c. auto. Qed.

  Lemma rid_in_ids t : In (rid t) (ids t).
  Proof. destruct t. cbn. auto. Qed.

  (* ---- the children loop --------------------------------------------------------------------------------------- *)
  Lemma children_loop : forall l, Forall P l -> forall g g2 cv cc T0 n nn00 dn,
    update_children fixed bcoff tmp l g cv cc = Some g2 ->
    tstruct T0 -> bc_fresh T0 -> Forall (tree_of T0) l -> NoDup (flat_map ids l) ->
    (forall c, In c l -> exists c0, aget (rid c) T0 = Some c0 /\ parent c0 = Some n) ->
    ~ In n (flat_map ids l) -> In n (akeys T0) ->
    NoDup (akeys (nodes g)) ->
    (forall k, In k (flat_map ids l) -> agree (nodes g) T0 k) ->
    (forall k, In k (flat_map ids l) -> aget (bc k) (nodes g) = None) ->
    NoDup (children nn00) -> (forall z, In z (children nn00) -> In z (akeys T0)) ->
    (forall c, In c l -> ~ In (rid c) dn) ->
    aget n (nodes g) = Some (with_children nn00 (map (sub bcoff dn) (children nn00))) ->
    (forall c, In c l -> parent nn00 <> Some (rid c)) ->
    tstruct (vnodes cv) -> same_tree T0 (vnodes cv) -> aget tmp (vnodes cv) = None ->
    NoDup (akeys (nodes g2)) /\
    (forall c, In c l -> post T0 (nodes g2) c) /\
    (forall c, In c l -> exists bn, aget (bc (rid c)) (nodes g2) = Some bn /\ parent bn = Some n /\ children bn = [rid c]) /\
    aget n (nodes g2) = Some (with_children nn00 (map (sub bcoff (rev (map rid l) ++ dn)) (children nn00))) /\
    (forall k, ~ In k (flat_map ids l) -> k <> n -> ~ In k (map bc (map rid l)) -> aget k (nodes g2) = aget k (nodes g)) /\
    root g2 = root g /\
    (forall k, ~ In k (flat_map ids l) -> ~ In k (map bc (flat_map ids l)) -> aget k (tensors g2) = aget k (tensors g)) /\
    grows g g2 /\
    (forall k, In k (flat_map ids l) -> Qnode g2 k).
  Proof.
    induction l as [|c r IH]; intros HP g g2 cv cc T0 n nn00 dn H T F Htr Hnd Hpar Hn HnK HndL Hag Hbcf Hch HchK Hdn En Hpp Tcv Scv Rcv.
    - cbn in H. injection H as <-. cbn [map rev app flat_map].
      split; [exact HndL|]. split; [intros c []|]. split; [intros c []|]. split; [exact En|].
      split; [auto|]. split; [reflexivity|]. split; [auto|]. split; [apply grows_refl|]. intros k [].
    - cbn [update_children] in H.
      destruct (update_node fixed bcoff tmp c g cv cc) as [ga|] eqn:Ec; [|discriminate].
      inversion HP as [|? ? Pc Pr]; subst. inversion Htr as [|? ? Tc Tr]; subst.
      cbn [flat_map] in Hnd, Hn, Hag, Hbcf. apply NoDup_app_iff in Hnd. destruct Hnd as (Ndc & Ndr & Ndis).
      set (pn := with_children nn00 (map (sub bcoff dn) (children nn00))) in *.
      assert (E : node_effect T0 c n pn g ga).
      { apply (Pc g cv cc ga T0 n pn Ec T F Tc Ndc (Hpar c (or_introl eq_refl))); auto.
        - intros Hc. apply Hn. apply in_or_app. left. exact Hc.
        - intros k Hk. apply Hag. apply in_or_app. left. exact Hk.
        - intros k Hk. apply Hbcf. apply in_or_app. left. exact Hk.
        - unfold pn. cbn. apply Hpp. left. reflexivity. }
      destruct E as [E1 E2 E3 E4 E5 E6 E7 E8 E9].
      assert (Krc : In (rid c) (akeys T0)).
      { destruct (Hpar c (or_introl eq_refl)) as (c0 & Ec0 & _). eapply aget_Some_keys; eauto. }
      assert (KeyC : forall k, In k (ids c) -> In k (akeys T0)).
      { intros k Hk. apply (agree_key (nodes g)). apply Hag. apply in_or_app. left. exact Hk. }
      assert (KeyR : forall k, In k (flat_map ids r) -> In k (akeys T0)).
      { intros k Hk. apply (agree_key (nodes g)). apply Hag. apply in_or_app. right. exact Hk. }
      assert (Ena : aget n (nodes ga) = Some (with_children nn00 (map (sub bcoff (rid c :: dn)) (children nn00)))).
      { rewrite E4. unfold pn. cbn [with_children children parent perm shape]. unfold with_children. cbn. f_equal. f_equal.
        apply replace_first_sub; [exact Hch|apply Hdn; left; reflexivity|].
        intros z Hz. apply (fresh_ne T0); auto. }
      assert (FrameR : forall k, In k (flat_map ids r) -> aget k (nodes ga) = aget k (nodes g)).
      { intros k Hk. apply E5.
        - intros Hc. apply (Ndis k Hc Hk).
        - intros ->. apply Hn. apply in_or_app. right. exact Hk.
        - intros ->. apply (fresh_ne T0 (rid c) (bc (rid c)) F Krc); [apply KeyR; exact Hk|reflexivity]. }
      destruct (IH Pr ga g2 cv cc T0 n nn00 (rid c :: dn) H T F Tr Ndr) as (R1 & R2 & R3 & R4 & R5 & R6 & R7 & R8 & R9); auto.
      { intros c' Hc'. apply Hpar. right. exact Hc'. }
      { intros Hc. apply Hn. apply in_or_app. right. exact Hc. }
      { intros k Hk. unfold agree. rewrite (FrameR k Hk). apply Hag. apply in_or_app. right. exact Hk. }
      { intros k Hk. rewrite E5.
        - apply Hbcf. apply in_or_app. right. exact Hk.
        - intros Hc. apply (fresh_ne T0 k (bc k) F (KeyR k Hk)); [apply KeyC; exact Hc|reflexivity].
        - intros E. apply (fresh_ne T0 k n F (KeyR k Hk) HnK). exact E.
        - intros E. apply bc_inj in E. subst k. apply (Ndis (rid c) (rid_in_ids c) Hk). }
      { intros c' Hc' [E|Hin].
        - apply (Ndis (rid c)); [apply rid_in_ids|]. rewrite E. apply (in_flat_ids c' r); [exact Hc'|apply rid_in_ids].
        - apply (Hdn c' (or_intror Hc') Hin). }
      { intros c' Hc'. apply Hpp. right. exact Hc'. }
      assert (FrameC : forall k, In k (ids c) \/ k = bc (rid c) -> aget k (nodes g2) = aget k (nodes ga)).
      { intros k Hk. apply R5.
        - intros Hc. destruct Hk as [Hk| ->]; [apply (Ndis k Hk Hc)|].
          apply (fresh_ne T0 (rid c) (bc (rid c)) F Krc); [apply KeyR; exact Hc|reflexivity].
        - intros ->. destruct Hk as [Hk|E]; [apply Hn; apply in_or_app; left; exact Hk|].
          apply (fresh_ne T0 (rid c) n F Krc HnK). symmetry. exact E.
        - intros Hc. apply in_map_iff in Hc. destruct Hc as (z & Ez & Hz). apply in_map_iff in Hz. destruct Hz as (c' & <- & Hc').
          destruct Hk as [Hk|E].
          + apply (fresh_ne T0 (rid c') k F); [|apply KeyC; exact Hk|exact Ez].
            apply KeyR. apply (in_flat_ids c' r); [exact Hc'|apply rid_in_ids].
          + rewrite E in Ez. apply bc_inj in Ez. apply (Ndis (rid c)); [apply rid_in_ids|].
            rewrite <- Ez. apply (in_flat_ids c' r); [exact Hc'|apply rid_in_ids]. }
      split; [exact R1|].
      split.
      { intros c' [<-|Hc']; [|apply R2; exact Hc']. intros k Hk. rewrite (FrameC k (or_introl Hk)). apply E2. exact Hk. }
      split.
      { intros c' [<-|Hc']; [|apply R3; exact Hc']. rewrite (FrameC _ (or_intror eq_refl)). exact E3. }
      split.
      { rewrite R4. cbn [map rev]. rewrite <- app_assoc. reflexivity. }
      split.
      { intros k K1 K2 K3. cbn [map flat_map] in K1, K3. rewrite R5.
        - apply E5; [intros Hc; apply K1; apply in_or_app; left; exact Hc|exact K2|intros ->; apply K3; left; reflexivity].
        - intros Hc. apply K1. apply in_or_app. right. exact Hc.
        - exact K2.
        - intros Hc. apply K3. right. exact Hc. }
      split; [congruence|].
      split.
      { intros k K1 K2. cbn [flat_map] in K1, K2. rewrite map_app in K2. rewrite R7.
        - apply E7; [intros Hc; apply K1; apply in_or_app; left; exact Hc|intros Hc; apply K2; apply in_or_app; left; exact Hc].
        - intros Hc. apply K1. apply in_or_app. right. exact Hc.
        - intros Hc. apply K2. apply in_or_app. right. exact Hc. }
      split; [eapply grows_trans; eauto|].
      intros k Hk. cbn [flat_map] in Hk. apply in_app_or in Hk. destruct Hk as [Hk|Hk]; [|apply R9; exact Hk].
      apply (Qnode_frame ga g2 k (E9 k Hk)); [apply (gr_defs _ _ R8)| |].
      + intros nd End. exists nd. rewrite (FrameC k (or_introl Hk)). auto.
      + apply R7.
        * intros Hc. apply (Ndis k Hk Hc).
        * intros Hc. apply in_map_iff in Hc. destruct Hc as (z & Ez & Hz).
          apply (fresh_ne T0 z k F); [apply KeyR; exact Hz|apply KeyC; exact Hk|exact Ez].
  Qed.

  Lemma in_map_rid_flat kids x : In x (map rid kids) -> In x (flat_map ids kids).
  Proof. intros H. apply in_map_iff in H. destruct H as (c & <- & Hc). apply (in_flat_ids c kids _ Hc). apply rid_in_ids. Qed.

  Theorem update_node_effect : forall t, P t.
  Proof.
    induction t as [n kids IH] using rtree_ind2.
    intros g pv pc g' T0 p pn H T F Htr Hnd (n0 & En0 & Pn0) Hpt HpK HndL Hag Hbcf Ep Hpp Tpv Spv Rpv.
    rewrite update_node_eq in H. cbn [RTree.rid] in *.
    inversion Htr as [? ? nd0 End0 Hkids Hforall]; subst. rewrite En0 in End0. injection End0 as <-.
    destruct (same_tree_some _ _ _ _ Spv En0) as (pn0 & Epv & Ppv & Cpv). rewrite Epv, <- Ppv, Pn0 in H.
    destruct (negb _); [discriminate|].
    destruct (move_center (focus g pv, pc) n Keep tmp) as [[s1 cc]|] eqn:Em; [|discriminate].
    destruct (move_center_struct (focus g pv, pc) n Keep tmp (s1, cc) Tpv Rpv Em) as (T1 & S1 & R1).
    pose proof (move_center_grows _ _ _ _ _ Em) as Gm. cbn [fst focus nodes] in T1, S1, R1, Gm.
    cbv zeta in H. set (cv := view_of s1) in *. set (g1 := focus s1 (view_of g)) in *.
    assert (Gr1 : grows g g1).
    { apply grows_focus_r. destruct Gm as [A1 A2 A3 A4]. constructor; assumption. }
    assert (Scv : same_tree T0 (vnodes cv)) by (apply (same_tree_trans _ _ _ Spv S1)).
    destruct (same_tree_some _ _ _ _ Scv En0) as (cn & Ecv & Pcv & Ccv). rewrite Ecv in H.
    cbn [ids] in Hnd, Hpt, Hag, Hbcf. inversion Hnd as [|? ? Hnk Hndk]; subst.
    destruct (Hag n (or_introl eq_refl)) as (a & b & Ea & Eb & Pa & Ca). rewrite En0 in Eb. injection Eb as <-.
    assert (Hnp : n <> p) by (intros ->; apply Hpt; left; reflexivity).
    assert (Ebc : aget (bc n) (nodes g) = None) by (apply Hbcf; left; reflexivity).
    assert (HnK : In n (akeys T0)) by (eapply aget_Some_keys; eauto).
    assert (KeyI : forall k, In k (n :: flat_map ids kids) -> In k (akeys T0)).
    { intros k Hk. apply (agree_key (nodes g)). apply Hag. exact Hk. }
    assert (Pa' : parent a = Some p) by congruence.
    destruct (nilb (children cn)) eqn:Hleaf.
    - (* update_leaf_node *)
      destruct kids as [|k0 kids0]; [|discriminate]. cbn [nilb] in H.
      assert (Hcn : children cn = []) by (destruct (children cn); [reflexivity|discriminate]).
      assert (Hca : children a = []).
      { apply Permutation_nil. symmetry. rewrite Ca, Ccv, Hcn. reflexivity. }
      destruct (update_leaf_effect fixed bcoff n p g1 cv pv g' a pn H HndL Ea Pa' Hca Ep Hpp Ebc Hnp)
        as (nn & bn & L1 & L2 & L3 & L4 & L5 & L6 & L7 & L8 & L9 & L10 & L11).
      { exists cn. split; [exact Ecv|congruence]. }
      constructor; cbn [RTree.rid ids flat_map].
      + exact L7.
      + intros k [<-|[]]. exists nn, n0. rewrite L1, (eqb_false n p), !Nat.eqb_refl by exact Hnp.
        split; [reflexivity|]. split; [exact En0|]. split; [rewrite L3, <- Ca, Hca; reflexivity|exact L2].
      + exists bn. rewrite L1, (eqb_false (bc n) p), (eqb_false (bc n) n), Nat.eqb_refl.
        * auto.
        * intros E. rewrite E in Ebc. congruence.
        * intros E. rewrite E in Ebc. congruence.
      + rewrite L1, Nat.eqb_refl. reflexivity.
      + intros k K1 K2 K3. rewrite L1, (eqb_false k p), (eqb_false k n), (eqb_false k (bc n)); auto.
        intros ->. apply K1. left. reflexivity.
      + exact L8.
      + intros k K1 K2. apply L10; [intros ->; apply K1; left; reflexivity|intros ->; apply K2; left; reflexivity].
      + eapply grows_trans; eauto.
      + intros k [<-|[]]. exact L11.
    - (* update_non_leaf_node *)
      destruct (negb _); [discriminate|].
      destruct (update_children fixed bcoff tmp kids g1 cv cc) as [g2|] eqn:Eloop; [|discriminate].
      assert (NdA : NoDup (children a)).
      { apply (Permutation_NoDup (Permutation_sym Ca)). apply (ts_chnd _ T n n0 En0). }
      assert (InA : forall z, In z (children a) <-> In z (map rid kids)).
      { intros z. split; intros Hz.
        - apply (Permutation_in _ (Permutation_sym Hkids)). apply (Permutation_in _ Ca). exact Hz.
        - apply (Permutation_in _ (Permutation_sym Ca)). apply (Permutation_in _ Hkids). exact Hz. }
      assert (KeyA : forall z, In z (children a) -> In z (akeys T0)).
      { intros z Hz. apply KeyI. right. apply in_map_rid_flat. apply InA. exact Hz. }
      assert (ParK : forall z, In z (children a) -> exists c0, aget z T0 = Some c0 /\ parent c0 = Some n).
      { intros z Hz. apply (ts_ch _ T n n0 z En0). apply (Permutation_in _ Ca). exact Hz. }
      destruct (children_loop kids IH g1 g2 cv cc T0 n a [] Eloop T F Hforall Hndk)
        as (K1 & K2 & K3 & K4 & K5 & K6 & K7 & K8 & K9); auto.
      { intros c Hc. apply ParK. apply InA. apply in_map. exact Hc. }
      { intros k Hk. apply Hag. right. exact Hk. }
      { intros k Hk. apply Hbcf. right. exact Hk. }
      { cbn [g1 focus nodes view_of vnodes]. rewrite map_sub_nil, with_children_same. exact Ea. }
      { intros c Hc. rewrite Pa'. intros E. injection E as E. apply Hpt. right. rewrite E. apply in_map_rid_flat. apply in_map. exact Hc. }
      rewrite app_nil_r in K4.
      rewrite (map_sub_all bcoff _ (children a)) in K4 by (intros z Hz; rewrite <- in_rev; apply InA; exact Hz).
      set (X := children a) in *.
      assert (XI : forall x, In x X -> In x (flat_map ids kids)) by (intros x Hx; apply in_map_rid_flat; apply InA; exact Hx).
      assert (Ep2 : aget p (nodes g2) = Some pn).
      { rewrite K5; [exact Ep| | |].
        - intros Hc. apply Hpt. right. exact Hc.
        - congruence.
        - intros Hc. apply in_map_iff in Hc. destruct Hc as (z & Ez & Hz). apply (fresh_ne T0 z p F); [|exact HpK|exact Ez].
          apply KeyI. right. apply in_map_rid_flat. exact Hz. }
      assert (Eb2 : aget (bc n) (nodes g2) = None).
      { rewrite K5; [exact Ebc| | |].
        - intros Hc. apply (fresh_ne T0 n (bc n) F HnK); [apply KeyI; right; exact Hc|reflexivity].
        - intros E. apply (fresh_ne T0 n n F HnK HnK). exact E.
        - intros Hc. apply in_map_iff in Hc. destruct Hc as (z & Ez & Hz). apply bc_inj in Ez. subst z.
          apply Hnk. apply in_map_rid_flat. exact Hz. }
      assert (A1 : ~ In n X) by (intros Hc; apply Hnk; apply XI; exact Hc).
      assert (A2 : ~ In n (map bc X)).
      { intros Hc. apply in_map_iff in Hc. destruct Hc as (z & Ez & Hz). apply (fresh_ne T0 z n F); auto. }
      assert (A3 : forall x x', In x X -> In x' X -> bc x' <> x) by (intros x x' Hx Hx'; apply (fresh_ne T0); auto).
      assert (A4 : forall x, In x X -> exists bn, aget (bc x) (nodes g2) = Some bn /\ parent bn = Some n /\ children bn = [x]).
      { intros x Hx. apply InA in Hx. apply in_map_iff in Hx. destruct Hx as (c & <- & Hc). apply K3. exact Hc. }
      assert (A5 : ~ In p X) by (intros Hc; apply Hpt; right; apply XI; exact Hc).
      assert (A6 : ~ In p (map bc X)).
      { intros Hc. apply in_map_iff in Hc. destruct Hc as (z & Ez & Hz). apply (fresh_ne T0 z p F); auto. }
      assert (A7 : ~ In (bc n) X) by (intros Hc; apply (fresh_ne T0 n (bc n) F HnK); [apply KeyA; exact Hc|reflexivity]).
      destruct (update_non_leaf_rest_effect fixed bcoff n p X g2 cv pv g' (with_children a (map bc X)) pn H K1 NdA A1 A2 A3 K4 Pa' eq_refl
                  A4 Ep2 Hpp Eb2 Hnp A5 A6 A7) as (nn & bn & M1 & M2 & M3 & M4 & M5 & M6 & M7 & M8 & M9 & M10 & M11).
      (* lookups of subtree identifiers below n in the final dictionary *)
      assert (Look : forall k, In k (flat_map ids kids) ->
                aget k (nodes g') = if memb k X then option_map (fun xn => with_parent xn (Some n)) (aget k (nodes g2))
                                    else aget k (nodes g2)).
      { intros k Hk. rewrite M1.
        assert (K_p : k <> p) by (intros ->; apply Hpt; right; exact Hk).
        assert (K_n : k <> n) by (intros ->; contradiction).
        assert (K_b : k <> bc n) by (intros ->; apply (fresh_ne T0 n (bc n) F HnK); [apply KeyI; right; exact Hk|reflexivity]).
        rewrite (eqb_false k p), (eqb_false k n), (eqb_false k (bc n)) by assumption.
        assert (M : memb k (map bc X) = false).
        { apply memb_false. intros Hc. apply in_map_iff in Hc. destruct Hc as (z & Ez & Hz).
          apply (fresh_ne T0 z k F); [apply KeyA; exact Hz|apply KeyI; right; exact Hk|exact Ez]. }
        rewrite M. reflexivity. }
      constructor; cbn [RTree.rid ids].
      + exact M7.
      + unfold post. cbn [RTree.rid ids]. intros k [<-|Hk].
        * exists nn, n0. rewrite M1, (eqb_false n p), !Nat.eqb_refl by exact Hnp.
          split; [reflexivity|]. split; [exact En0|]. split; [rewrite M3; exact Ca|exact M2].
        * apply in_flat_map in Hk. destruct Hk as (c & Hc & Hk).
          destruct (K2 c Hc k Hk) as (a' & b' & Ea' & Eb' & Ca' & Pa2).
          assert (K_n : k <> n) by (intros E; apply Hnk; rewrite <- E; apply (in_flat_ids c kids k Hc Hk)).
          rewrite (Look k (in_flat_ids c kids k Hc Hk)), Ea'.
          destruct (memb k X) eqn:MX.
          -- apply memb_In in MX. destruct (ParK k MX) as (c0 & Ec0 & Pc0). rewrite Eb' in Ec0. injection Ec0 as <-.
             exists (with_parent a' (Some n)), b'. rewrite (eqb_false k n) by exact K_n. cbn. auto.
          -- apply memb_false in MX. exists a', b'. rewrite (eqb_false k n) by exact K_n.
             split; [reflexivity|]. split; [exact Eb'|]. split; [exact Ca'|].
             rewrite Pa2. destruct (Nat.eqb_spec k (rid c)) as [E|_]; [|reflexivity].
             exfalso. apply MX. apply InA. rewrite E. apply in_map. exact Hc.
      + exists bn. rewrite M1, (eqb_false (bc n) p), (eqb_false (bc n) n), Nat.eqb_refl.
        * auto.
        * intros E. apply (fresh_ne T0 n n F HnK HnK). exact E.
        * intros E. apply (fresh_ne T0 n p F HnK HpK). exact E.
      + rewrite M1, Nat.eqb_refl. reflexivity.
      + intros k Q1 Q2 Q3. rewrite M1, (eqb_false k p), (eqb_false k (bc n)) by assumption.
        assert (K_n : k <> n) by (intros ->; apply Q1; left; reflexivity).
        rewrite (eqb_false k n) by exact K_n.
        destruct (memb k (map bc X)) eqn:MB.
        * apply memb_In in MB. apply in_map_iff in MB. destruct MB as (z & <- & Hz). symmetry. apply Hbcf. right. apply XI. exact Hz.
        * apply memb_false in MB. destruct (memb k X) eqn:MX.
          -- apply memb_In in MX. exfalso. apply Q1. right. apply XI. exact MX.
          -- rewrite K5; [reflexivity| |exact K_n|].
             ++ intros Hc. apply Q1. right. exact Hc.
             ++ intros Hc. apply MB. apply in_map_iff in Hc. destruct Hc as (z & <- & Hz). apply in_map. apply InA. exact Hz.
      + rewrite M8, K6. reflexivity.
      + intros k Q1 Q2. cbn [map] in Q2. rewrite M10.
        * rewrite K7; [reflexivity|intros Hc; apply Q1; right; exact Hc|intros Hc; apply Q2; right; exact Hc].
        * intros ->. apply Q1. left. reflexivity.
        * intros ->. apply Q2. left. reflexivity.
        * intros Hc. apply Q2. right. apply in_map_iff in Hc. destruct Hc as (z & <- & Hz). apply in_map. apply XI. exact Hz.
      + eapply grows_trans; [exact Gr1|]. eapply grows_trans; eauto.
      + intros k [<-|Hk]; [exact M11|].
        apply (Qnode_frame g2 g' k (K9 k Hk)); [apply (gr_defs _ _ M9)| |].
        * intros nd End. rewrite (Look k Hk), End. destruct (memb k X); eexists; split; reflexivity.
        * apply M10.
          -- intros ->. contradiction.
          -- intros ->. apply (fresh_ne T0 n (bc n) F HnK); [apply KeyI; right; exact Hk|reflexivity].
          -- intros Hc. apply in_map_iff in Hc. destruct Hc as (z & Ez & Hz).
             apply (fresh_ne T0 z k F); [apply KeyA; exact Hz|apply KeyI; right; exact Hk|exact Ez].
  Qed.
End Main.


(* ---- on a rooted tree the neighbour one step closer to the root is the parent ------------------------------------ *)
Lemma dist_parent_root s r rn : tstruct (nodes s) -> aget r (nodes s) = Some rn -> parent rn = None ->
  forall m k kn q, dget (distance_to_node s r) k <= m -> aget k (nodes s) = Some kn -> parent kn = Some q ->
  S (dget (distance_to_node s r) q) = dget (distance_to_node s r) k.
Proof.
  intros T Er Pr. assert (Hr : amem r (nodes s) = true) by (apply amem_aget; eauto).
  induction m as [|m IH]; intros k kn q Hm Ek Pk.
  - assert (Hkr : k <> r) by (intros ->; congruence).
    destruct (dist_step s r k kn T Hr Ek Hkr) as (nb & _ & Hd & _). lia.
  - assert (Hkr : k <> r) by (intros ->; congruence).
    destruct (dist_step s r k kn T Hr Ek Hkr) as (nb & Hin & Hd & Hoth).
    destruct (Nat.eq_dec nb q) as [->|Hne]; [exact Hd|]. exfalso.
    apply in_neighbouring in Hin. destruct Hin as [Hp|Hc]; [congruence|].
    destruct (ts_ch _ T k kn nb Ek Hc) as (nbn & Enb & Pnb).
    assert (Hle : dget (distance_to_node s r) nb <= m) by lia.
    pose proof (IH nb nbn k Hle Enb Pnb). lia.
Qed.

(* ---- the visiting tree covers the dictionary ------------------------------------------------------------------------ *)
Lemma tree_of_keys T0 : forall t, tree_of T0 t -> forall k, In k (ids t) -> exists nd, aget k T0 = Some nd.
Proof.
  induction t as [n kids IH] using rtree_ind2. intros Ht k Hk. inversion Ht as [? ? nd En Hp Hf]; subst.
  cbn [ids] in Hk. destruct Hk as [<-|Hk]; [eauto|]. apply in_flat_map in Hk. destruct Hk as (c & Hc & Hk).
  rewrite Forall_forall in IH, Hf. apply (IH c Hc (Hf c Hc) k Hk).
Qed.

Lemma tree_of_children T0 : forall t, tree_of T0 t -> forall q qn k, In q (ids t) -> aget q T0 = Some qn -> In k (children qn) ->
  In k (ids t).
Proof.
  induction t as [n kids IH] using rtree_ind2. intros Ht q qn k Hq Eq Hk. inversion Ht as [? ? nd En Hp Hf]; subst.
  cbn [ids] in *. destruct Hq as [<-|Hq].
  - rewrite En in Eq. injection Eq as <-. right. apply (Permutation_in _ (Permutation_sym Hp)) in Hk.
    apply in_map_iff in Hk. destruct Hk as (c & <- & Hc). apply in_flat_map. exists c. split; [exact Hc|]. destruct c. cbn. auto.
  - right. apply in_flat_map in Hq. destruct Hq as (c & Hc & Hq). apply in_flat_map. exists c. split; [exact Hc|].
    rewrite Forall_forall in IH, Hf. apply (IH c Hc (Hf c Hc) q qn k Hq Eq Hk).
Qed.

Lemma tree_of_cover T0 t rn : tstruct T0 -> tree_of T0 t -> aget (RTree.rid t) T0 = Some rn -> parent rn = None ->
  forall k, In k (akeys T0) -> In k (ids t).
Proof.
  intros T Ht Er Pr. destruct (ts_acyc _ T) as [rank Hrank].
  assert (H : forall m k, rank k <= m -> In k (akeys T0) -> In k (ids t)).
  { induction m as [|m IH]; intros k Hm Hk; apply keys_aget in Hk; destruct Hk as [kn Ek];
      (destruct (parent kn) as [q|] eqn:Pk;
       [|rewrite (ts_root _ T k kn (RTree.rid t) rn Ek Pk Er Pr); destruct t; cbn; auto]).
    - pose proof (Hrank k kn q Ek Pk). lia.
    - pose proof (Hrank k kn q Ek Pk) as Hlt. destruct (ts_par _ T k kn q Ek Pk) as (qn & Eq & Hin).
      apply (tree_of_children T0 t Ht q qn k); [|exact Eq|exact Hin].
      apply IH; [lia|eapply aget_Some_keys; eauto]. }
  intros k Hk. apply (H (rank k) k (le_n _) Hk).
Qed.

(* ---- root_update --------------------------------------------------------------------------------------------------- *)
Section Root.
  Variables (fixed : bool) (bcoff : nat) (tmp : id).
  Notation bc := (bcid bcoff).
  Notation rid := RTree.rid.

  Lemma key_iff_aget {V} (l : list (nat * V)) k : In k (akeys l) <-> aget k l <> None.
  Proof.
    split.
    - intros H. apply keys_aget in H. destruct H as [v E]. congruence.
    - intros H. destruct (aget k l) eqn:E; [eapply aget_Some_keys; eauto|congruence].
  Qed.

  Theorem root_update_effect t cs cs' :
    wfb (fst cs) = true -> bc_fresh bcoff (nodes (fst cs)) -> aget tmp (nodes (fst cs)) = None ->
    root_update fixed bcoff tmp t cs = Some cs' ->
    same_tree (nodes (fst cs)) (nodes (fst cs')) /\ tstruct (nodes (fst cs')) /\
    (forall k, In k (akeys (nodes (fst cs))) -> aget (bc k) (nodes (fst cs')) = None) /\
    root (fst cs') = root (fst cs) /\ snd cs' = root (fst cs') /\ root (fst cs') = Some (rid t) /\
    grows (fst cs) (fst cs') /\
    (forall k, In k (akeys (nodes (fst cs'))) -> k <> rid t -> Qnode (fst cs') k) /\
    (forall k kn, aget k (nodes (fst cs)) = Some kn -> parent kn <> None ->
                  exists kn', aget k (nodes (fst cs')) = Some kn' /\ parent kn' = parent kn).
  Proof.
    destruct cs as [g oc]. destruct t as [r kids]. cbn [fst snd RTree.rid]. intros Wb F Htmp H.
    pose proof (wfb_wf g Wb) as W. pose proof (wf_tstruct g W) as T.
    unfold root_update in H. cbv zeta in H. cbn [fst snd] in H.
    destruct (root g) as [r0|] eqn:Er0; [|discriminate].
    destruct (Nat.eqb_spec r0 r) as [->|]; [|cbn [negb] in H; discriminate]. cbn [negb] in H.
    destruct oc as [c|]; [|cbn [negb] in H; discriminate]. destruct (Nat.eqb_spec c r) as [->|]; [|cbn [negb] in H; discriminate]. cbn [negb] in H.
    destruct (tree_matchb (nodes g) (RNode r kids) && nodupb (ids (RNode r kids))) eqn:Hguard; [|discriminate]. cbn [negb] in H.
    apply andb_true_iff in Hguard. destruct Hguard as [Hm Hnd]. apply nodupb_NoDup in Hnd.
    assert (Htr : tree_of (nodes g) (RNode r kids)).
    { apply tree_matchb_tree_of; [|exact Hm]. intros k n E. apply (ts_chnd _ T k n E). }
    destruct (aget r (nodes g)) as [rn|] eqn:Ern; [|discriminate].
    destruct (negb _); [discriminate|].
    destruct (update_children _ _ _ _ _ _ _) as [g1|] eqn:Eloop; [|discriminate].
    destruct (pull_tensor bcoff g1 (view_of g) r) as [g2|] eqn:Epull; [|discriminate].
    destruct (contract_all_children g2 r) as [g3|] eqn:Ecac; [|discriminate].
    destruct (evolve g3 r) as [[g4 u]|] eqn:Eev; [|discriminate].
    destruct (aget r (nodes g4)) as [nd|] eqn:End; [|discriminate].
    destruct (node_replace_tensor nd _ None) as [nd'|] eqn:Enr; [|discriminate].
    injection H as <-. cbn [fst snd upd_tensors upd_nodes nodes tensors root defs].
    (* the root *)
    destruct (wf_root g W) as (r' & rn' & Er' & Ern' & Prn' & Huniq). rewrite Er0 in Er'. injection Er' as <-.
    rewrite Ern in Ern'. injection Ern' as <-.
    set (T0 := nodes g) in *.
    inversion Htr as [? ? nd0 End0 Hkids Hforall]; subst. rewrite Ern in End0. injection End0 as <-.
    cbn [ids] in Hnd. inversion Hnd as [|? ? Hrk Hndk]; subst.
    assert (KeyT : forall k, In k (r :: flat_map ids kids) -> In k (akeys T0)).
    { intros k Hk. destruct (tree_of_keys T0 _ Htr k Hk) as [x Ex]. eapply aget_Some_keys; eauto. }
    assert (HrK : In r (akeys T0)) by (apply KeyT; left; reflexivity).
    assert (InA : forall z, In z (children rn) <-> In z (map rid kids)).
    { intros z. split; intros Hz; [apply (Permutation_in _ (Permutation_sym Hkids) Hz)|apply (Permutation_in _ Hkids Hz)]. }
    assert (ParK : forall z, In z (children rn) -> exists c0, aget z T0 = Some c0 /\ parent c0 = Some r).
    { intros z Hz. apply (ts_ch _ T r rn z Ern Hz). }
    assert (NdA : NoDup (children rn)) by apply (ts_chnd _ T r rn Ern).
    set (X := children rn) in *.
    assert (XI : forall x, In x X -> In x (flat_map ids kids)) by (intros x Hx; apply in_map_rid_flat; apply InA; exact Hx).
    assert (KeyA : forall z, In z X -> In z (akeys T0)) by (intros z Hz; apply KeyT; right; apply XI; exact Hz).
    assert (Agree : forall k, In k (flat_map ids kids) -> agree (nodes g) T0 k).
    { intros k Hk. destruct (tree_of_keys T0 _ Htr k (or_intror Hk)) as [x Ex]. exists x, x. auto. }
    assert (IHP : Forall (P fixed bcoff tmp) kids) by (apply Forall_forall; intros c _; apply update_node_effect).
    destruct (children_loop fixed bcoff tmp kids IHP g g1 (view_of g) (Some r) T0 r rn [] Eloop T F Hforall Hndk)
      as (K1 & K2 & K3 & K4 & K5 & K6 & K7 & K8 & K9); auto.
    { intros c Hc. apply ParK. apply InA. apply in_map. exact Hc. }
    { apply (ts_nd _ T). }
    { intros k Hk. apply F. apply KeyT. right. exact Hk. }
    { fold X. rewrite map_sub_nil, with_children_same. exact Ern. }
    { intros c Hc. rewrite Prn'. discriminate. }
    { apply same_tree_refl. }
    rewrite app_nil_r in K4. fold X in K4.
    rewrite (map_sub_all bcoff _ X) in K4 by (intros z Hz; rewrite <- in_rev; apply InA; exact Hz).
    (* pull, contract_all_children *)
    destruct (pull_tensor_effect _ _ _ _ _ Epull) as (newn & ndp & ot & q0 & P1 & P2 & P3 & P4 & P5 & P6 & P7 & P8 & P9 & P10 & P11 & P12 & P13 & P14).
    rewrite K4 in P1. injection P1 as <-. cbn [with_children parent children] in P3, P4.
    unfold contract_all_children in Ecac. rewrite P8, aget_aset_same, P4 in Ecac.
    assert (Hnd2 : NoDup (akeys (nodes g2))) by (rewrite P8; apply NoDup_akeys_aset; exact K1).
    assert (En2 : aget r (nodes g2) = Some ndp) by (rewrite P8; apply aget_aset_same).
    assert (Cn2 : children ndp = map bc X ++ []) by (rewrite app_nil_r; exact P4).
    assert (A1 : ~ In r X) by (intros Hc; apply Hrk; apply XI; exact Hc).
    assert (A2 : ~ In r (map bc X)).
    { intros Hc. apply in_map_iff in Hc. destruct Hc as (z & Ez & Hz). apply (fresh_ne bcoff T0 z r F); auto. }
    assert (A3 : forall x x', In x X -> In x' X -> bc x' <> x) by (intros x x' Hx Hx'; apply (fresh_ne bcoff T0); auto).
    assert (A4 : forall x, In x X -> exists bn, aget (bc x) (nodes g2) = Some bn /\ parent bn = Some r /\ children bn = [x]).
    { intros x Hx. rewrite P8, aget_aset_other by (intros E; apply A2; rewrite <- E; apply in_map; exact Hx).
      apply InA in Hx. apply in_map_iff in Hx. destruct Hx as (c & <- & Hc). apply K3. exact Hc. }
    destruct (contract_fold bcoff r X g2 g3 ndp [] Ecac Hnd2 NdA A1 A2 A3 En2 Cn2 A4)
      as (nn3 & F1 & F2 & F3 & F4 & F5 & F6 & F7 & F8 & F9 & F10 & F11).
    cbn [app] in F3.
    destruct (evolve_effect _ _ _ _ Eev) as (nd3 & t3 & V1 & V2 & V3 & V4 & V5 & V6 & V7 & V8 & V9).
    rewrite F1 in V1. injection V1 as <-.
    rewrite V3, aget_aset_same in End. injection End as <-.
    assert (Hnd' : parent nd' = None /\ children nd' = X).
    { unfold node_replace_tensor in Enr. destruct (list_eqb _ _); [|discriminate]. injection Enr as <-.
      cbn. rewrite F2, P3, F3. auto. }
    destruct Hnd' as [Pnd' Cnd'].
    set (Lf := aset r nd' (nodes g4)).
    (* lookups in the final dictionary *)
    assert (LookR : aget r Lf = Some nd') by (apply aget_aset_same).
    assert (Look : forall k, k <> r -> aget k Lf =
              if memb k (map bc X) then None
              else if memb k X then option_map (fun xn => with_parent xn (Some r)) (aget k (nodes g1))
              else aget k (nodes g1)).
    { intros k Hk. unfold Lf. rewrite aget_aset_other, V3, aget_aset_other by exact Hk.
      destruct (memb k (map bc X)) eqn:MB.
      - apply memb_In in MB. apply in_map_iff in MB. destruct MB as (z & <- & Hz). apply (F4 z Hz).
      - apply memb_false in MB. destruct (memb k X) eqn:MX.
        + apply memb_In in MX. destruct (F4 k MX) as [_ E]. rewrite E, P8, aget_aset_other by exact Hk. reflexivity.
        + apply memb_false in MX. rewrite F5 by assumption. rewrite P8, aget_aset_other by exact Hk. reflexivity. }
    assert (NdLf : NoDup (akeys Lf)).
    { unfold Lf. apply NoDup_akeys_aset. rewrite V3. apply NoDup_akeys_aset. exact F6. }
    (* every identifier of the subtrees: same parent as in T0, children up to order *)
    assert (Sub : forall k, In k (flat_map ids kids) ->
              exists a b, aget k Lf = Some a /\ aget k T0 = Some b /\ parent a = parent b /\ Permutation (children a) (children b)).
    { intros k Hk. apply in_flat_map in Hk. destruct Hk as (c & Hc & Hk).
      destruct (K2 c Hc k Hk) as (a' & b' & Ea' & Eb' & Ca' & Pa2).
      assert (Kfl : In k (flat_map ids kids)) by (apply (in_flat_ids c kids k Hc Hk)).
      assert (K_r : k <> r) by (intros E; apply Hrk; rewrite <- E; exact Kfl).
      assert (MB : memb k (map bc X) = false).
      { apply memb_false. intros Hc'. apply in_map_iff in Hc'. destruct Hc' as (z & Ez & Hz).
        apply (fresh_ne bcoff T0 z k F); [apply KeyA; exact Hz|apply KeyT; right; exact Kfl|exact Ez]. }
      rewrite (Look k K_r), MB, Ea'. destruct (memb k X) eqn:MX.
      - apply memb_In in MX. destruct (ParK k MX) as (c0 & Ec0 & Pc0). rewrite Eb' in Ec0. injection Ec0 as <-.
        exists (with_parent a' (Some r)), b'. cbn. auto.
      - apply memb_false in MX. exists a', b'. split; [reflexivity|]. split; [exact Eb'|]. split; [|exact Ca'].
        rewrite Pa2. destruct (Nat.eqb_spec k (rid c)) as [E|_]; [|reflexivity].
        exfalso. apply MX. apply InA. rewrite E. apply in_map. exact Hc. }
    assert (Cover : forall k, In k (akeys T0) -> In k (r :: flat_map ids kids)).
    { apply (tree_of_cover T0 (RNode r kids) rn T Htr Ern Prn'). }
    assert (BcGone : forall k, In k (akeys T0) -> aget (bc k) Lf = None).
    { intros k Hk. assert (Kr : bc k <> r) by (apply (fresh_ne bcoff T0 k r F); auto).
      rewrite (Look _ Kr). destruct (memb (bc k) (map bc X)) eqn:MB; [reflexivity|].
      destruct (memb (bc k) X) eqn:MX.
      { apply memb_In in MX. exfalso. apply (fresh_ne bcoff T0 k (bc k) F Hk); [apply KeyA; exact MX|reflexivity]. }
      apply memb_false in MB. rewrite K5.
      - apply F. exact Hk.
      - intros Hc. apply (fresh_ne bcoff T0 k (bc k) F Hk); [apply KeyT; right; exact Hc|reflexivity].
      - exact Kr.
      - intros Hc. apply MB. apply in_map_iff in Hc. destruct Hc as (z & <- & Hz). apply in_map. apply InA. exact Hz. }
    assert (Same : forall k, match aget k T0, aget k Lf with
                             | Some n, Some n' => parent n = parent n' /\ Permutation (children n) (children n')
                             | None, None => True
                             | _, _ => False
                             end).
    { intros k. destruct (aget k T0) as [kn|] eqn:Ek.
      - assert (Hk : In k (akeys T0)) by (eapply aget_Some_keys; eauto).
        destruct (Cover k Hk) as [<-|Hfl].
        + rewrite LookR. rewrite Ern in Ek. injection Ek as <-. rewrite Pnd', Cnd'. auto.
        + destruct (Sub k Hfl) as (a & b & Ea & Eb & Pa & Ca). rewrite Ea. rewrite Ek in Eb. injection Eb as <-.
          split; [symmetry; exact Pa|symmetry; exact Ca].
      - assert (Hk : ~ In k (akeys T0)) by (apply aget_None; exact Ek).
        assert (K_r : k <> r) by (intros ->; contradiction).
        rewrite (Look k K_r). destruct (memb k (map bc X)) eqn:MB; [exact I|].
        destruct (memb k X) eqn:MX.
        { apply memb_In in MX. exfalso. apply Hk. apply KeyA. exact MX. }
        apply memb_false in MB. rewrite K5.
        + fold T0. rewrite Ek. exact I.
        + intros Hc. apply Hk. apply KeyT. right. exact Hc.
        + exact K_r.
        + intros Hc. apply MB. apply in_map_iff in Hc. destruct Hc as (z & <- & Hz). apply in_map. apply InA. exact Hz. }
    assert (KeysEq : forall k, In k (akeys T0) <-> In k (akeys Lf)).
    { intros k. rewrite !key_iff_aget. specialize (Same k). destruct (aget k T0), (aget k Lf); split; intros; try congruence; contradiction. }
    assert (ST : same_tree T0 Lf).
    { split; [|exact Same]. rewrite <- !(length_akeys). apply Permutation_length.
      apply NoDup_Permutation; [apply (ts_nd _ T)|exact NdLf|exact KeysEq]. }
    assert (TLf : tstruct Lf) by (apply (tstruct_same_tree _ _ T ST NdLf)).
    assert (GrF : grows g g4).
    { eapply grows_trans; [exact K8|]. eapply grows_trans; [apply grows_same; eassumption|].
      eapply grows_trans; [exact F8|exact V7]. }
    split; [exact ST|]. split; [exact TLf|]. split; [exact BcGone|].
    split; [rewrite V6, F7, P10, K6; exact Er0|]. split; [rewrite V6, F7, P10, K6; symmetry; exact Er0|].
    split; [rewrite V6, F7, P10, K6; exact Er0|].
    split.
    { destruct GrF as [G1 G2 G3 G4]. constructor; cbn; assumption. }
    split.
    { intros k Hk Hkr. apply KeysEq in Hk. destruct (Cover k Hk) as [E|Hfl]; [congruence|].
      assert (MB : memb k (map bc X) = false).
      { apply memb_false. intros Hc'. apply in_map_iff in Hc'. destruct Hc' as (z & Ez & Hz).
        apply (fresh_ne bcoff T0 z k F); [apply KeyA; exact Hz|exact Hk|exact Ez]. }
      set (gf := {| nodes := Lf; tensors := aset r u (tensors g4); root := root g4; dims := dims g4; next_wire := next_wire g4;
                    next_atom := next_atom g4; defs := defs g4; atab := atab g4 |}).
      apply (Qnode_frame g1 gf k (K9 k Hfl)).
      - cbn. destruct GrF as [G1 _ _ _]. destruct K8 as [G1' _ _ _].
        eapply incl_tran; [|apply (gr_defs _ _ V7)]. eapply incl_tran; [|apply (gr_defs _ _ F8)]. rewrite P11. apply incl_refl.
      - intros ndk Endk. cbn [gf nodes]. rewrite (Look k Hkr), MB, Endk. destruct (memb k X); eexists; split; reflexivity.
      - cbn [gf tensors]. rewrite aget_aset_other, V4, aget_aset_other by exact Hkr.
        rewrite F11; [|exact Hkr|apply memb_false; exact MB]. rewrite P9, aget_aset_other by exact Hkr. reflexivity. }
    intros k kn Ek Pk. specialize (Same k). fold T0 in Ek. rewrite Ek in Same.
    destruct (aget k Lf) as [kn'|]; [|contradiction]. exists kn'. split; [reflexivity|]. symmetry. apply Same.
  Qed.

  (* the returned state is canonical at the root: every other node is one Q atom of a QR kernel call whose bond
     wire is the node's parent leg *)
  Theorem root_update_iso t cs cs' :
    wfb (fst cs) = true -> bc_fresh bcoff (nodes (fst cs)) -> aget tmp (nodes (fst cs)) = None ->
    root_update fixed bcoff tmp t cs = Some cs' -> iso_check cs' = true.
  Proof.
    intros Wb F Htmp H.
    destruct (root_update_effect t cs cs' Wb F Htmp H) as (ST & TLf & _ & R1 & R2 & R3 & _ & Q & Par).
    pose proof (wfb_wf _ Wb) as W. pose proof (wf_tstruct _ W) as T.
    destruct (wf_root _ W) as (r & rn & Er & Ern & Prn & Huniq).
    assert (Hr : rid t = r) by (rewrite R1, Er in R3; congruence).
    destruct cs' as [sf oc]. cbn [fst snd] in *. rewrite R3 in R2. subst oc. rewrite Hr in *.
    assert (Hc : amem r (nodes (fst cs)) = true) by (apply amem_aget; eauto).
    apply (good_iso (fst cs) sf r T Hc TLf ST). intros k Hk Hkr.
    destruct (Q k Hk Hkr) as (nd & tk & a & df & E1 & E2 & E3 & E4 & E5 & E6 & E7 & E8).
    assert (Hk0 : In k (akeys (nodes (fst cs)))) by (apply (same_tree_keys _ _ k ST); exact Hk).
    apply keys_aget in Hk0. destruct Hk0 as [kn Ekn].
    destruct (parent kn) as [q|] eqn:Pk; [|exfalso; apply Hkr; apply (Huniq k kn Ekn Pk)].
    destruct (Par k kn Ekn ltac:(congruence)) as (kn' & Ekn' & Pkn'). rewrite E1 in Ekn'. injection Ekn' as <-.
    exists nd, tk, a, 0, q, df.
    split; [exact E1|]. split; [exact E2|]. split; [exact E3|].
    split; [apply in_neighbouring; left; congruence|].
    split; [apply (dist_parent_root (fst cs) r rn T Ern Prn _ k kn q (le_n _) Ekn Pk)|].
    split; [unfold neighbour_index; rewrite Pkn', Pk, Nat.eqb_refl; reflexivity|].
    auto.
  Qed.
End Root.


(* ---- shapes: the bond dimension a new basis gets (local rule) ------------------------------------------------------ *)
(* the two models use the same rule for the new leg of a QR decomposition *)
Lemma qr_bond_new_leg rows cols :
  qr_bond_dim Keep rows cols = BUG.qr_new_leg true rows cols /\ qr_bond_dim Reduced rows cols = BUG.qr_new_leg false rows cols.
Proof. split; reflexivity. Qed.

Lemma permute_seq1_tl {A} (d : A) (l : list A) k : length l = S k -> permute d (seq 1 k) l = tl l.
Proof.
  destruct l as [|x t]; [discriminate|]. cbn [length tl]. intros [= <-]. unfold permute.
  rewrite (map_nth_seq d (x :: t) 1 (length t)) by (cbn; lia). cbn [skipn]. apply firstn_all.
Qed.

Lemma map_tl' {A B} (f : A -> B) l : map f (tl l) = tl (map f l).
Proof. destruct l; reflexivity. Qed.

Lemma permute_last_first (l : list wire) w : permute 0 (length l :: seq 0 (length l)) (l ++ [w]) = w :: l.
Proof.
  unfold permute. cbn [map]. rewrite app_nth2 by lia. rewrite Nat.sub_diag. cbn [nth]. f_equal.
  rewrite (map_nth_seq 0 (l ++ [w]) 0 (length l)) by (rewrite app_length; cbn; lia).
  rewrite skipn_O. apply firstn_app_len.
Qed.

Lemma last_leg_first_axes (ow : list wire) w a :
  axes (last_leg_first {| axes := ow ++ [w]; atoms := [a]; bnd := [] |}) = w :: ow.
Proof.
  unfold last_leg_first. cbn [axes]. rewrite app_length. cbn [length]. rewrite Nat.add_1_r.
  destruct (length ow) as [|j] eqn:El.
  - destruct ow; [reflexivity|discriminate].
  - unfold s_transpose. cbn [axes]. rewrite <- El. apply permute_last_first.
Qed.

Section Shapes.
  Variable fixed : bool.

  (* compute_new_basis_tensor / compute_fixed_size_new_basis_tensor on a non-root node whose evolved tensor u has the
     legs (parent, children..., open...): the new basis has the legs (new bond, children..., open...); the dimension
     entered in the table for the new bond is qr_new_leg of Sched/BUG.v applied to the product of the other legs and
     to r (fixed rank: KEEP) resp. r_old + r (rank-adaptive: concatenation along the parent leg, REDUCED) *)
  Lemma new_basis_shape g nd oldt u g' newb :
    new_basis fixed g nd oldt u = Some (g', newb) -> parent nd <> None ->
    length (axes u) = nlegs nd -> nvirt nd <= nlegs nd -> axes oldt = axes u ->
    dims_ok g -> (forall w, In w (axes u) -> w < next_wire g) ->
    exists nw, axes newb = nw :: tl (axes u) /\
      let du := map (wdim g) (axes u) in
      let cols := if fixed then hd 0 du else hd 0 (map (wdim g) (axes oldt)) + hd 0 du in
      In (nw, BUG.qr_new_leg fixed (prod_list (tl du)) cols) (dims g') /\
      (fixed = true -> map (wdim g') (axes newb) = map (wdim g') (axes u)).
  Proof.
    intros H Hpar Hlen Hv Hold Hdok Hwires. unfold new_basis in H.
    assert (Hr : is_root nd = false) by (unfold is_root; destruct (parent nd); [reflexivity|congruence]).
    rewrite Hr in H.
    assert (Hnp : nparents nd = 1) by (unfold nparents; destruct (parent nd); [reflexivity|congruence]).
    assert (Hql : seq (nparents nd) (length (children nd)) ++ seq (nvirt nd) (nopen nd) = seq 1 (nlegs nd - 1)).
    { unfold nopen, nvirt in *. rewrite Hnp in *. rewrite <- seq_app. f_equal. lia. }
    rewrite Hql in H.
    assert (HS : nlegs nd = S (nlegs nd - 1)) by (unfold nvirt in Hv; rewrite Hnp in Hv; lia).
    destruct fixed.
    - destruct (qr_kernel g u _ [0] Keep) as [[[g1 q] r]|] eqn:Eq; [|discriminate].
      destruct (qr_kernel_effect _ _ _ _ _ _ _ _ Eq) as (_ & _ & _ & _ & Hq & _ & Hd & _ & _).
      destruct (list_eqb _ _) eqn:Hs; [|discriminate]. apply list_eqb_eq in Hs. injection H as <- <-.
      rewrite (permute_seq1_tl 0 (axes u) (nlegs nd - 1)) in Hq, Hd by (transitivity (nlegs nd); [exact Hlen|exact HS]).
      exists (next_wire g). split; [rewrite Hq; apply last_leg_first_axes|]. cbv zeta. split.
      + rewrite Hd. apply in_or_app. right. left. f_equal. unfold BUG.qr_new_leg, qr_bond_dim.
        unfold permute. cbn [map]. destruct (axes u) as [|a0 ta]; [cbn in Hlen; lia|]. cbn. lia.
      + intros _. exact Hs.
    - destruct (concat_axis g 0 oldt u) as [[g1 cc]|] eqn:Ec; [|discriminate].
      destruct (concat_axis_effect _ _ _ _ _ _ Ec) as (_ & _ & _ & Gr1 & Hcc & Hd1 & Hnw1 & Hsh & Hax).
      destruct (qr_kernel g1 cc _ [0] Reduced) as [[[g2 q] r]|] eqn:Eq; [|discriminate].
      destruct (qr_kernel_effect _ _ _ _ _ _ _ _ Eq) as (_ & _ & _ & _ & Hq & _ & Hd & _ & Hperm).
      injection H as <- <-.
      assert (Hlcc : length (axes cc) = S (nlegs nd - 1)).
      { apply Permutation_length in Hperm. rewrite app_length, !seq_length in Hperm. cbn in Hperm. lia. }
      rewrite (permute_seq1_tl 0 (axes cc) (nlegs nd - 1) Hlcc) in Hq, Hd.
      assert (Eax : tl (axes cc) = tl (axes u)).
      { rewrite Hcc, Hold. cbn [axes]. destruct (axes u); reflexivity. }
      exists (next_wire g1). split; [rewrite Hq, last_leg_first_axes; f_equal; exact Eax|]. cbv zeta. split; [|discriminate].
      rewrite Hd. apply in_or_app. right. left. f_equal. unfold BUG.qr_new_leg, qr_bond_dim. f_equal.
      + transitivity (prod_list (map (wdim g1) (tl (axes u)))); [f_equal; f_equal; exact Eax|].
        rewrite !map_tl'. f_equal. f_equal. apply map_ext_in. intros w Hw. apply (gr_wdim _ _ Gr1). apply Hwires. exact Hw.
      + rewrite Hcc. cbn [axes]. rewrite Hold. destruct (axes u) as [|a0 ta] eqn:Eu; [cbn in Hlen; lia|].
        cbn [set_nth permute map nth prod_list hd].
        assert (Hnone : aget (next_wire g) (dims g) = None).
        { apply aget_None. intros Hin. pose proof (Hdok _ Hin). lia. }
        assert (Hw : wdim g1 (next_wire g) = wdim g a0 + wdim g a0).
        { unfold wdim at 1. rewrite Hd1, aget_app, Hnone. cbn [aget]. rewrite Nat.eqb_refl. rewrite Hold. cbn [map nth]. reflexivity. }
        unfold prod_list. cbn [fold_right]. rewrite Hw. lia.
  Qed.
End Shapes.


(* ---- the basis-change matrices as diagrams ------------------------------------------------------------------------ *)
(* M_n = old_basis_n^dagger-side contraction: the block of the subtree of n between the state of old bases and the
   conjugated copy of the state of new bases.  Its diagram: two legs (old parent wire of n, conjugated new parent
   wire of n); atoms = the old atoms and the (offset) new atoms of the subtree of n, each once; every edge wire of
   both states strictly inside the subtree is bound (children legs are paired through the children's matrices: the
   recursion), and the glued pairs are exactly (old open wire of k, conjugated new open wire of k), k in the subtree *)
Theorem bc_diagram_closed woff aoff old new n :
  bc_okb woff aoff old new n = true ->
  exists p t g,
    (exists nd, aget n (nodes old) = Some nd /\ parent nd = Some p) /\
    Closed.tree_of (S (length (nodes old))) old n = Some t /\
    bc_diagram woff aoff old new n p = Some g /\
    let bra := conj_store woff aoff new in
    Blocks.gaxes g = [Closed.up_wire old n; Closed.up_wire bra n] /\
    Permutation (Blocks.gatoms g) (Closed.all_atoms old bra (Closed.rnodes t)) /\
    Permutation (Blocks.gbnd g) (Closed.edge_wires old bra (Closed.rdesc t) ++ Closed.inner_bnd old bra (Closed.rnodes t)) /\
    Permutation (Blocks.gglue g) (Closed.open_pairs old bra (Closed.rnodes t)).
Proof.
  unfold bc_okb. destruct (aget n (nodes old)) as [nd|] eqn:En; [|discriminate].
  destruct (parent nd) as [p|] eqn:Pn; [|discriminate].
  destruct (Closed.tree_of (S (length (nodes old))) old n) as [t|] eqn:Et; [|discriminate].
  rewrite andb_true_iff. intros [Hwf Hlen]. apply Nat.leb_le in Hlen.
  apply ClosedProofs.wf_subb_sound in Hwf.
  assert (Hrid : Closed.rid t = n).
  { cbn [Closed.tree_of] in Et. rewrite En in Et. destruct (all_some _) as [cs|]; [|discriminate]. cbn in Et.
    injection Et as <-. reflexivity. }
  destruct (ClosedProofs.block_two_subtree_closed old (conj_store woff aoff new) p t (length (nodes old)) Hwf Hlen)
    as (g & Hg & H1 & H2 & H3 & H4).
  rewrite Hrid in *. exists p, t, g. split; [eauto|]. split; [reflexivity|]. split; [exact Hg|]. cbv zeta. auto.
Qed.

