(* Proofs about Evo/BUGStore.v: the structural effect of one BUG / fixed-rank BUG step on stores.
   All statements are conditional on the model accepting the step (`root_update ... = Some _`); that it does
   is an instance obligation of the correspondence (harness/props/c09w.py). *)
From Coq Require Import List Arith Bool Lia Permutation.
From PTN Require Import TTN.Store TTN.StoreProofs TTN.Canon TTN.CanonProofs TTN.Inv TTN.InvProofs TTN.InvNode
  TTN.InvContract TTN.InvSplit TTN.CanonTree TTN.CanonMore TTN.CanonStep TTN.CanonDist TTN.CanonPath TTN.CanonIso
  Tree.RTree Evo.BUGStore.
Import ListNotations.

Lemma split_replace_bug s n p b ch opens ta tb s' nd0 pn :
  NoDup (akeys (nodes s)) ->
  aget n (nodes s) = Some nd0 -> parent nd0 = Some p -> children nd0 = ch ->
  aget p (nodes s) = Some pn -> parent pn <> Some n ->
  aget b (nodes s) = None -> n <> p ->
  split_replace s n {| ls_parent := Some p; ls_children := []; ls_open := []; ls_root := false |}
                    {| ls_parent := None; ls_children := ch; ls_open := opens; ls_root := false |} b n ta tb = Some s' ->
  exists in2 on2,
    (forall k, aget k (nodes s') =
               if Nat.eqb k p then Some (with_children pn (replace_first n b (children pn)))
               else if Nat.eqb k n then Some in2 else if Nat.eqb k b then Some on2 else aget k (nodes s)) /\
    parent in2 = Some b /\ children in2 = ch /\ nth 0 (perm in2) 0 = 0 /\ 1 <= length (perm in2) /\ shape in2 = map (wdim s) (axes tb) /\
    parent on2 = Some p /\ children on2 = [n] /\ shape on2 = map (wdim s) (axes ta) /\
    In n (children pn) /\
    akeys (nodes s') = akeys (nodes s) ++ [b] /\
    (forall k, aget k (tensors s') = if Nat.eqb k n then Some tb else if Nat.eqb k b then Some ta else aget k (tensors s)) /\
    root s' = root s /\ defs s' = defs s /\ dims s' = dims s /\ next_wire s' = next_wire s /\ next_atom s' = next_atom s /\ atab s' = atab s.
Proof.
  intros Hnd E0 Hp Hch Ep Hpn Eb Hnp H.
  assert (Hbn : b <> n) by (intros ->; congruence).
  assert (Hbp : b <> p) by (intros ->; congruence).
  unfold split_replace in H.
  destruct (access s n) as [[[s1 nd] t]|] eqn:Ea; [|discriminate].
  destruct (access_inv _ _ _ _ _ Ea) as (nd0' & t0 & E0' & Et0 & Hndr & Ht & Hs1).
  rewrite E0 in E0'. injection E0' as <-.
  match type of H with match ?x with _ => _ end = _ => destruct x as [ol|] eqn:Eo; [|discriminate] end.
  match type of H with match ?x with _ => _ end = _ => destruct x as [il|] eqn:Ei; [|discriminate] end.
  match type of H with match ?x with _ => _ end = _ => destruct x as [tsa|] eqn:Etsa; [|discriminate] end.
  match type of H with match ?x with _ => _ end = _ => destruct x as [tsb|] eqn:Etsb; [|discriminate] end.
  match type of H with (if ?c then _ else _) = _ => destruct c eqn:C1; [discriminate|] end.
  match type of H with (if ?c then _ else _) = _ => destruct c eqn:C2; [discriminate|] end.
  match type of H with (if ?c then _ else _) = _ => destruct c eqn:C3; [discriminate|] end.
  match type of H with (if ?c then _ else _) = _ => destruct c eqn:C4; [discriminate|] end.
  match type of H with (if ?c then _ else _) = _ => destruct c eqn:C5; [discriminate|] end.
  match type of H with (if ?c then _ else _) = _ => destruct c eqn:C6; [discriminate|] end.
  cbv zeta in H.
  cbn [ls_root ls_parent ls_children ls_open andb orb negb app] in H.
  set (sha := map (wdim s) (axes ta)) in *. set (shb := map (wdim s) (axes tb)) in *.
  destruct (open_leg_to_parent (new_node shb) b 0) as [in1|] eqn:Ein1; [|discriminate].
  destruct (open_legs_to_children in1 _) as [in2|] eqn:Ein2; [|discriminate].
  destruct (open_leg_to_parent (new_node sha) p 0) as [on1|] eqn:Eon1; [|discriminate].
  destruct (open_legs_to_children on1 _) as [on2|] eqn:Eon2; [|discriminate].
  destruct (replace_in_some_neighbours _ b n _) as [l1|] eqn:El1; [|discriminate].
  destruct (replace_in_some_neighbours l1 n n _) as [l2|] eqn:El2; [|discriminate].
  rewrite Nat.eqb_refl, orb_true_r in H. injection H as H.
  apply ris_same in El2. subst l2.
  unfold find_all_neighbour_ids in El1. cbn [ls_parent ls_children app] in El1.
  destruct (ris_single _ _ _ _ _ El1) as (pn1 & pn' & Epn1 & Ern & Hl1). clear El1.
  cbn [upd_tensors nodes] in Epn1, Hl1.
  assert (Hs1n : nodes s1 = aset n nd (nodes s)) by (rewrite Hs1; reflexivity).
  rewrite Hs1n in Epn1, Hl1.
  rewrite !aget_aset, (eqb_false p n), (eqb_false p b), Ep in Epn1 by congruence. injection Epn1 as <-.
  destruct (replace_neighbour_child _ _ _ _ Hpn Ern) as [Hpn' Hin].
  (* the new nodes *)
  destruct (oltp_struct _ _ _ _ Ein1) as [Pin1 Cin1].
  destruct (olc_struct _ _ _ Ein2) as [Pin2 Cin2]. rewrite Cin1, enum_from_fst in Cin2. cbn in Cin2. rewrite Pin1 in Pin2.
  destruct (oltp_struct _ _ _ _ Eon1) as [Pon1 Con1].
  destruct (olc_struct _ _ _ Eon2) as [Pon2 Con2]. rewrite Con1 in Con2. cbn in Con2. rewrite Pon1 in Pon2.
  pose proof (new_node_wf shb) as Win0.
  destruct (open_leg_to_parent_wf _ _ _ _ Win0 Ein1) as (Win1 & _ & _ & Sin1 & Lin1 & Nin1 & _).
  assert (Vin1 : nvirt in1 = 1) by (unfold nvirt, nparents; rewrite Pin1, Cin1; reflexivity).
  destruct (open_legs_to_children_spec in1 _ in2 Win1 ltac:(rewrite enum_from_snd; apply seq_NoDup) Ein2) as (_ & Sin2 & _ & Lin2 & _).
  assert (Nin2 : nth 0 (perm in2) 0 = 0).
  { rewrite Lin2, Vin1. rewrite nth0_firstn_app; [|lia|].
    - rewrite Nin1. cbn [new_node perm]. destruct shb; reflexivity.
    - intros Hnil. destruct Win1 as [W1 W2]. unfold nlegs in W2. rewrite Hnil, Vin1 in W2. cbn in W2. lia. }
  pose proof (new_node_wf sha) as Won0.
  destruct (open_leg_to_parent_wf _ _ _ _ Won0 Eon1) as (Won1 & _ & _ & Son1 & _).
  change (open_legs_to_children on1 [(n, nlegs on1 - 1)] = Some on2) in Eon2.
  assert (Hnd1 : NoDup (map snd [(n, nlegs on1 - 1)])) by (cbn; constructor; [intros []|constructor]).
  destruct (open_legs_to_children_spec on1 _ on2 Won1 Hnd1 Eon2) as (_ & Son2 & _).
  exists in2, on2.
  assert (Hn' : nodes s' = aset p pn' (aset n in2 (aset b on2 (aset n nd (nodes s))))).
  { rewrite <- H. cbn. rewrite Hl1. reflexivity. }
  split.
  { intros k. rewrite Hn', !aget_aset. destruct (Nat.eqb_spec k p) as [->|Hkp]; [rewrite Hpn'; reflexivity|].
    destruct (Nat.eqb_spec k n) as [->|Hkn]; [reflexivity|]. destruct (Nat.eqb_spec k b); reflexivity. }
  split; [exact Pin2|]. split; [exact Cin2|]. split; [exact Nin2|].
  split.
  { rewrite Lin2, Vin1, app_length. destruct (perm in1) as [|a l] eqn:Ep1; [|cbn; lia].
    destruct Win1 as [W1 W2]. unfold nlegs in W2. rewrite Ep1, Vin1 in W2. cbn in W2. lia. }
  split; [rewrite Sin2, Sin1; reflexivity|]. split; [exact Pon2|]. split; [exact Con2|].
  split; [rewrite Son2, Son1; reflexivity|]. split; [exact Hin|].
  split.
  { rewrite Hn'.
    assert (Kn : In n (akeys (nodes s))) by (eapply aget_Some_keys; eauto).
    assert (Kp : In p (akeys (nodes s))) by (eapply aget_Some_keys; eauto).
    assert (Kb : ~ In b (akeys (nodes s))) by (apply aget_None; exact Eb).
    set (X1 := aset n nd (nodes s)). set (X2 := aset b on2 X1). set (X3 := aset n in2 X2).
    assert (K1 : akeys X1 = akeys (nodes s)) by (apply akeys_aset_in; exact Kn).
    assert (K2 : akeys X2 = akeys (nodes s) ++ [b]) by (unfold X2; rewrite akeys_aset_notin; rewrite K1; auto).
    assert (K3 : akeys X3 = akeys (nodes s) ++ [b])
      by (unfold X3; rewrite akeys_aset_in; [exact K2|rewrite K2; apply in_or_app; left; exact Kn]).
    rewrite akeys_aset_in; [exact K3|rewrite K3; apply in_or_app; left; exact Kp]. }
  split.
  { intros k. rewrite <- H. cbn. rewrite !aget_aset. destruct (Nat.eqb_spec k n) as [->|Hkn]; [reflexivity|].
    destruct (Nat.eqb_spec k b) as [->|Hkb]; [reflexivity|]. rewrite Hs1. cbn. rewrite aget_aset, (eqb_false k n) by assumption. reflexivity. }
  rewrite <- H, Hs1. cbn. repeat split; reflexivity.
Qed.


Lemma contract_child s p c s' pn cn :
  NoDup (akeys (nodes s)) -> aget p (nodes s) = Some pn -> aget c (nodes s) = Some cn -> parent cn = Some p -> p <> c ->
  contract_nodes s p c p = Some s' ->
  exists nn nt ax,
    (forall k, aget k (nodes s') = if Nat.eqb k p then Some nn else if Nat.eqb k c then None
                                   else option_map (reparent p (children cn) k) (aget k (nodes s))) /\
    parent nn = parent pn /\ children nn = remove_first c (children pn) ++ children cn /\
    NoDup (akeys (nodes s')) /\
    root s' = root s /\ defs s' = defs s /\ dims s' = dims s /\ next_wire s' = next_wire s /\
    next_atom s' = next_atom s /\ atab s' = atab s /\
    (forall k, k <> p -> k <> c -> aget k (tensors s') = aget k (tensors s)) /\
    neighbour_index pn c = Some ax /\
    (exists pt ct, logical s p = Some pt /\ logical s c = Some ct /\ s_tensordot pt ct ax 0 = Some nt) /\
    (NoDup (akeys (tensors s)) -> aget p (tensors s') = Some nt /\ aget c (tensors s') = None /\ NoDup (akeys (tensors s'))) /\
    shape nn = map (wdim s) (axes nt).
Proof.
  intros Hnd Ep Ec Hpc Hne H.
  unfold contract_nodes, determine_parentage in H. rewrite Ep, Ec, Hpc, Nat.eqb_refl in H.
  destruct (access s p) as [[[s1 pn1] pt]|] eqn:A1; [|discriminate].
  destruct (access s1 c) as [[[s2 cn1] ct]|] eqn:A2; [|discriminate].
  destruct (neighbour_index pn1 c) as [ax|] eqn:Eax; [|discriminate].
  destruct (s_tensordot pt ct ax 0) as [nt|] eqn:Etd; [|discriminate].
  cbv zeta in H. rewrite Nat.eqb_refl in H.
  destruct (create_contracted_node _ pn1 cn1 c true) as [nn|] eqn:Ecc; [|discriminate].
  rewrite rnin_same in H.
  match type of H with match ?r with _ => _ end = _ => destruct r as [s5|] eqn:R5; [|discriminate] end.
  injection H as H.
  destruct (access_inv _ _ _ _ _ A1) as (x1 & pt0 & Ex1 & Ept0 & Hpn1 & Hpt & Hs1).
  rewrite Ep in Ex1. injection Ex1 as <-.
  destruct (access_inv _ _ _ _ _ A2) as (x2 & ct0 & Ex2 & Ect0 & Hcn1 & Hct & Hs2).
  assert (Hn1 : nodes s1 = aset p pn1 (nodes s)) by (rewrite Hs1; reflexivity).
  assert (Ht1 : tensors s1 = aset p pt (tensors s)) by (rewrite Hs1; reflexivity).
  rewrite Hn1, aget_aset, (eqb_false c p), Ec in Ex2 by congruence. injection Ex2 as <-.
  rewrite Ht1, aget_aset, (eqb_false c p) in Ect0 by congruence.
  assert (Hn2 : nodes s2 = aset c cn1 (aset p pn1 (nodes s))) by (rewrite Hs2, <- Hn1; reflexivity).
  assert (Ht2 : tensors s2 = aset c ct (aset p pt (tensors s))) by (rewrite Hs2, <- Ht1; reflexivity).
  set (s3 := upd_tensors s2 _) in R5.
  assert (Hnd3 : NoDup (akeys (nodes s3))).
  { change (nodes s3) with (nodes s2). rewrite Hn2. repeat apply NoDup_akeys_aset. exact Hnd. }
  assert (Ec3 : aget c (nodes s3) = Some cn1).
  { change (nodes s3) with (nodes s2). rewrite Hn2. apply aget_aset_same. }
  destruct (rnin_spec s3 p c true s5 cn1 R5 Hne Hnd3 Ec3) as (L & Hs5 & HndL & HL & _).
  assert (Pcn1 : parent cn1 = Some p) by (rewrite Hcn1; exact Hpc).
  assert (Ccn1 : children cn1 = children cn) by (rewrite Hcn1; reflexivity).
  rewrite Pcn1 in HL, Hs5. rewrite Nat.eqb_refl in HL. cbn [negb andb] in HL.
  destruct (ccn_struct _ _ _ _ _ _ Ecc) as [Pnn Cnn].
  exists nn, nt, ax.
  assert (Hn' : nodes s' = aset p nn L) by (rewrite <- H, Hs5; reflexivity).
  split.
  { intros k. rewrite Hn', aget_aset. destruct (Nat.eqb_spec k p) as [->|Hkp]; [reflexivity|].
    rewrite HL. cbn [andb]. destruct (Nat.eqb_spec k c) as [->|Hkc]; [reflexivity|].
    change (nodes s3) with (nodes s2). rewrite Hn2, !aget_aset, (eqb_false k c), (eqb_false k p) by assumption.
    rewrite Ccn1. reflexivity. }
  split; [rewrite Pnn, Hpn1; reflexivity|].
  split; [rewrite Cnn, Hpn1, Ccn1; reflexivity|].
  split; [rewrite Hn'; apply NoDup_akeys_aset; exact HndL|].
  rewrite <- H, Hs5. cbn [upd_nodes set_root upd_tensors root defs dims next_wire next_atom atab tensors].
  unfold s3. cbn [upd_tensors root defs dims next_wire next_atom atab tensors]. rewrite Hs2, Hs1. cbn.
  do 6 (split; [reflexivity|]).
  split.
  { intros k Hkp Hkc. rewrite aget_snoc_other by exact Hkp. rewrite !aget_adel_other by assumption.
    rewrite !aget_aset, (eqb_false k c), (eqb_false k p) by assumption. reflexivity. }
  split; [rewrite <- Eax, Hpn1; apply neighbour_index_ext; reflexivity|].
  split.
  { exists pt, ct. unfold logical. rewrite Ep, Ept0, Ec, Ect0, <- Hpt, <- Hct. auto. }
  split.
  { intros HT.
    set (T2 := aset c ct (aset p pt (tensors s))).
    assert (N2 : NoDup (akeys T2)) by (unfold T2; repeat apply NoDup_akeys_aset; exact HT).
    assert (N3 : NoDup (akeys (adel p T2))) by (apply NoDup_akeys_adel; exact N2).
    assert (N4 : NoDup (akeys (adel c (adel p T2)))) by (apply NoDup_akeys_adel; exact N3).
    assert (G1 : aget p (adel c (adel p T2)) = None).
    { rewrite aget_adel_other by exact Hne. apply aget_adel_same. exact N2. }
    assert (G2 : aget c (adel c (adel p T2)) = None) by (apply aget_adel_same; exact N3).
    split; [rewrite aget_app, G1; cbn; rewrite Nat.eqb_refl; reflexivity|].
    split; [rewrite aget_snoc_other by congruence; exact G2|].
    apply NoDup_akeys_snoc; assumption. }
  (* the recorded shape of the contracted node *)
  unfold create_contracted_node in Ecc.
  destruct (match parent pn1 with Some pp => open_leg_to_parent (new_node (map (wdim s) (axes nt))) pp 0
                             | None => Some (new_node (map (wdim s) (axes nt))) end) as [n1|] eqn:E1; [|discriminate].
  assert (S1 : shape n1 = map (wdim s) (axes nt)).
  { destruct (parent pn1); [|injection E1 as <-; reflexivity].
    destruct (open_leg_to_parent_wf _ _ _ _ (new_node_wf _) E1) as (_ & _ & _ & S & _). exact S. }
  match type of Ecc with match ?x with _ => _ end = _ => destruct x as [n2|] eqn:E2; [|discriminate] end.
  assert (Hn2n : n2 = nn) by congruence. subst n2.
  unfold open_legs_to_children in E2. destruct (forallb _ _); [|discriminate].
  assert (G : forall l orig n n', olc_loop orig n l = Some n' -> shape n' = shape n).
  { induction l as [|[[a b0] v] l IH]; intros orig n n' Hl; cbn [olc_loop] in Hl; [congruence|].
    destruct (Nat.ltb b0 orig); [discriminate|]. apply IH in Hl. exact Hl. }
  rewrite (G _ _ _ _ E2). exact S1.
Qed.


(* ---- the global tables only grow ------------------------------------------------------------------------- *)
Record grows (g g' : store) : Prop := {
  gr_defs : incl (defs g) (defs g');
  gr_wdim : forall w, w < next_wire g -> wdim g' w = wdim g w;
  gr_nw : next_wire g <= next_wire g';
  gr_na : next_atom g <= next_atom g'
}.

Lemma grows_refl g : grows g g.
Proof. constructor; auto. apply incl_refl. Qed.

Lemma grows_trans a b c : grows a b -> grows b c -> grows a c.
Proof.
  intros [A1 A2 A3 A4] [B1 B2 B3 B4]. constructor.
  - eapply incl_tran; eauto.
  - intros w Hw. rewrite B2 by lia. apply A2. exact Hw.
  - lia.
  - lia.
Qed.

Lemma grows_same g g' : defs g' = defs g -> dims g' = dims g -> next_wire g' = next_wire g -> next_atom g' = next_atom g ->
  grows g g'.
Proof.
  intros H1 H2 H3 H4. constructor.
  - rewrite H1. apply incl_refl.
  - intros w _. unfold wdim. rewrite H2. reflexivity.
  - lia.
  - lia.
Qed.

Lemma grows_focus_l g v g' : grows g g' -> grows (focus g v) g'.
Proof. intros [A1 A2 A3 A4]. constructor; assumption. Qed.
Lemma grows_focus_r g v g' : grows g g' -> grows g (focus g' v).
Proof. intros [A1 A2 A3 A4]. constructor; assumption. Qed.

(* a fresh wire does not disturb the dimensions of the existing ones *)
Lemma wdim_fresh (s : store) (D : list (wire * nat)) d w :
  w < next_wire s -> match aget w (D ++ [(next_wire s, d)]) with Some x => x | None => 0 end
                     = match aget w D with Some x => x | None => 0 end.
Proof.
  intros Hw. rewrite aget_app. destruct (aget w D); [reflexivity|]. cbn.
  destruct (Nat.eqb_spec w (next_wire s)); [lia|reflexivity].
Qed.

Lemma access_tables s n s1 nd t : access s n = Some (s1, nd, t) ->
  next_atom s1 = next_atom s /\ next_wire s1 = next_wire s /\ defs s1 = defs s /\ dims s1 = dims s /\ atab s1 = atab s /\ root s1 = root s.
Proof. intros Ha. destruct (access_inv _ _ _ _ _ Ha) as (nd0 & t0 & _ & _ & _ & _ & ->). cbn. auto 6. Qed.

Lemma access_grows s n s1 nd t : access s n = Some (s1, nd, t) -> grows s s1.
Proof. intros H. destruct (access_tables _ _ _ _ _ H) as (A & B & C & D & _). apply grows_same; assumption. Qed.

Lemma rnin_tables s new old del s' : replace_node_in_neighbours s new old del = Some s' ->
  next_atom s' = next_atom s /\ next_wire s' = next_wire s /\ defs s' = defs s /\ dims s' = dims s /\ atab s' = atab s /\ tensors s' = tensors s.
Proof.
  unfold replace_node_in_neighbours. destruct (Nat.eqb new old); [intros [= <-]; auto 6|].
  destruct (aget old (nodes s)) as [on|]; [|discriminate].
  match goal with |- match ?x with _ => _ end = _ -> _ => destruct x as [[r l2]|]; [|discriminate] end.
  intros [= <-]. cbn. auto 6.
Qed.

Lemma contract_tables s a b new s' : contract_nodes s a b new = Some s' ->
  next_atom s' = next_atom s /\ next_wire s' = next_wire s /\ defs s' = defs s /\ dims s' = dims s /\ atab s' = atab s.
Proof.
  unfold contract_nodes. destruct (determine_parentage s a b) as [[p c]|]; [|discriminate].
  destruct (access s p) as [[[s1 pn] pt]|] eqn:A1; [|discriminate].
  destruct (access s1 c) as [[[s2 cn] ct]|] eqn:A2; [|discriminate].
  destruct (neighbour_index pn c) as [ax|]; [|discriminate].
  destruct (s_tensordot pt ct ax 0) as [nt|]; [|discriminate].
  destruct (create_contracted_node _ pn cn c _) as [nn|]; [|discriminate].
  match goal with |- match ?x with _ => _ end = _ -> _ => destruct x as [s4|] eqn:R4; [|discriminate] end.
  destruct (replace_node_in_neighbours s4 new c true) as [s5|] eqn:R5; [|discriminate].
  intros [= <-]. cbn.
  destruct (rnin_tables _ _ _ _ _ R5) as (B1 & B2 & B3 & B4 & B5 & _).
  destruct (rnin_tables _ _ _ _ _ R4) as (C1 & C2 & C3 & C4 & C5 & _). cbn in C1, C2, C3, C4, C5.
  destruct (access_tables _ _ _ _ _ A2) as (D1 & D2 & D3 & D4 & D5 & _).
  destruct (access_tables _ _ _ _ _ A1) as (E1 & E2 & E3 & E4 & E5 & _).
  repeat split; congruence.
Qed.

Lemma contract_grows s a b new s' : contract_nodes s a b new = Some s' -> grows s s'.
Proof. intros H. destruct (contract_tables _ _ _ _ _ H) as (A & B & C & D & _). apply grows_same; assumption. Qed.

Lemma split_nodes_tables s n o i oid iid kind m rbond s' : split_nodes s n o i oid iid kind m rbond = Some s' ->
  exists bd df, dims s' = dims s ++ [(next_wire s, bd)] /\ defs s' = defs s ++ [df] /\
                next_wire s' = S (next_wire s) /\ next_atom s' = S (S (next_atom s)).
Proof.
  intros H. destruct (split_nodes_inv _ _ _ _ _ _ _ _ _ _ H) as (s1 & nd & t & ol & il & on2 & in2 & l2 & bd & Ha & _ & I).
  destruct (access_tables _ _ _ _ _ Ha) as (A1 & A2 & A3 & A4 & _).
  exists bd, (sp_def s1 t ol il kind m).
  rewrite (spf_dims _ _ _ _ _ _ _ _ _ _ _ _ _ _ _ _ _ I), (spf_defs _ _ _ _ _ _ _ _ _ _ _ _ _ _ _ _ _ I),
          (spf_next_wire _ _ _ _ _ _ _ _ _ _ _ _ _ _ _ _ _ I), (spf_next_atom _ _ _ _ _ _ _ _ _ _ _ _ _ _ _ _ _ I).
  rewrite A1, A2, A3, A4. auto.
Qed.

Lemma split_nodes_grows s n o i oid iid kind m rbond s' : split_nodes s n o i oid iid kind m rbond = Some s' -> grows s s'.
Proof.
  intros H. destruct (split_nodes_tables _ _ _ _ _ _ _ _ _ _ H) as (bd & df & A & B & C & D). constructor.
  - rewrite B. apply incl_appl, incl_refl.
  - intros w Hw. unfold wdim. rewrite A. apply wdim_fresh. exact Hw.
  - lia.
  - lia.
Qed.

Lemma qr_to_neighbour_grows s n nb m rid s' : qr_to_neighbour s n nb m rid = Some s' -> grows s s'.
Proof.
  unfold qr_to_neighbour. destruct (aget n (nodes s)) as [nd|]; [|discriminate].
  destruct (build_qr_leg_specs nd nb) as [q r].
  destruct (split_nodes s n q r n rid 0 m 0) as [s1|] eqn:E; [|discriminate].
  intros H. eapply grows_trans; [eapply split_nodes_grows; eauto|eapply contract_grows; eauto].
Qed.

Lemma move_fold_grows m rid : forall l s cur cs', fold_left (move_step m rid) l (Some (s, Some cur)) = Some cs' -> grows s (fst cs').
Proof.
  induction l as [|nb t IH]; intros s cur cs' H; cbn [fold_left] in H.
  - injection H as <-. apply grows_refl.
  - cbn [move_step] in H. destruct (qr_to_neighbour s cur nb m rid) as [s2|] eqn:E; [|rewrite move_fold_none in H; discriminate].
    eapply grows_trans; [eapply qr_to_neighbour_grows; eauto|eapply IH; eauto].
Qed.

Lemma move_center_grows cs c m rid cs' : move_center cs c m rid = Some cs' -> grows (fst cs) (fst cs').
Proof.
  destruct cs as [s oc]. unfold move_center. cbn [fst snd]. destruct oc as [c0|]; [|discriminate].
  destruct (Nat.eqb c0 c); [intros [= <-]; apply grows_refl|]. apply (move_fold_grows m rid).
Qed.

(* ---- structure through a centre move (no isometry hypothesis needed) ----------------------------------------- *)
Lemma move_fold_struct m rid : forall l s cur cs',
  tstruct (nodes s) -> aget rid (nodes s) = None ->
  fold_left (move_step m rid) l (Some (s, Some cur)) = Some cs' ->
  tstruct (nodes (fst cs')) /\ same_tree (nodes s) (nodes (fst cs')) /\ aget rid (nodes (fst cs')) = None.
Proof.
  induction l as [|nb t IH]; intros s cur cs' T Hrid H; cbn [fold_left] in H.
  - injection H as <-. cbn [fst]. split; [exact T|]. split; [apply same_tree_refl|exact Hrid].
  - cbn [move_step] in H. destruct (qr_to_neighbour s cur nb m rid) as [s2|] eqn:E; [|rewrite move_fold_none in H; discriminate].
    destruct (qr_step_effect _ _ _ _ _ _ T Hrid E) as (na & Ea & Hin & SE).
    destruct (step_same_tree _ _ _ _ _ _ T Ea Hin SE) as [S1 T1].
    destruct (ts_neighbour_sym _ _ _ _ T Ea Hin) as (nbn & Eb & Hba & Hne).
    assert (Hra : rid <> cur) by (intros ->; congruence).
    assert (Hrb : rid <> nb) by (intros ->; congruence).
    assert (Hrid' : aget rid (nodes s2) = None) by (rewrite (se_other_n _ _ _ _ _ _ SE rid Hra Hrb); exact Hrid).
    destruct (IH s2 nb cs' T1 Hrid' H) as (T3 & S3 & R3).
    split; [exact T3|]. split; [exact (same_tree_trans _ _ _ S1 S3)|exact R3].
Qed.

Lemma move_center_struct cs c m rid cs' :
  tstruct (nodes (fst cs)) -> aget rid (nodes (fst cs)) = None -> move_center cs c m rid = Some cs' ->
  tstruct (nodes (fst cs')) /\ same_tree (nodes (fst cs)) (nodes (fst cs')) /\ aget rid (nodes (fst cs')) = None.
Proof.
  destruct cs as [s oc]. cbn [fst]. intros T Hrid H. unfold move_center in H. cbn [fst snd] in H.
  destruct oc as [c0|]; [|discriminate]. destruct (Nat.eqb c0 c).
  - injection H as <-. cbn [fst]. split; [exact T|]. split; [apply same_tree_refl|exact Hrid].
  - apply (move_fold_struct m rid _ s c0 cs' T Hrid H).
Qed.

(* ---- the kernels touch only the tables ------------------------------------------------------------------------ *)
Lemma evolve_effect s n s' u : evolve s n = Some (s', u) ->
  exists nd t, aget n (nodes s) = Some nd /\ aget n (tensors s) = Some t /\
    nodes s' = aset n (reset_permutation nd) (nodes s) /\
    tensors s' = aset n (s_transpose (perm nd) t) (tensors s) /\
    u = {| axes := axes (s_transpose (perm nd) t); atoms := [next_atom s]; bnd := [] |} /\
    root s' = root s /\ grows s s' /\ dims s' = dims s /\ next_wire s' = next_wire s.
Proof.
  unfold evolve. destruct (access s n) as [[[s1 nd1] t1]|] eqn:Ea; [|discriminate].
  destruct (access_inv _ _ _ _ _ Ea) as (nd & t & E1 & E2 & -> & -> & Hs1).
  destruct (access_tables _ _ _ _ _ Ea) as (A1 & A2 & A3 & A4 & A5 & A6).
  cbn. intros [= <- <-]. exists nd, t.
  split; [exact E1|]. split; [exact E2|]. split; [rewrite Hs1; reflexivity|]. split; [rewrite Hs1; reflexivity|].
  split; [rewrite A1; reflexivity|]. split; [exact A6|]. split.
  - constructor; cbn.
    + rewrite A3. apply incl_appl, incl_refl.
    + intros w _. unfold wdim. cbn. rewrite A4. reflexivity.
    + lia.
    + lia.
  - cbn. auto.
Qed.

Definition dims_ok (g : store) : Prop := forall w, In w (akeys (dims g)) -> w < next_wire g.

Lemma qr_kernel_effect g t ql rl m g' q r : qr_kernel g t ql rl m = Some (g', q, r) ->
  nodes g' = nodes g /\ tensors g' = tensors g /\ root g' = root g /\ grows g g' /\
  q = {| axes := permute 0 ql (axes t) ++ [next_wire g]; atoms := [next_atom g]; bnd := [] |} /\
  (exists df, In df (defs g') /\ kq df = next_atom g /\ kkind df = 0 /\ kbond df = next_wire g) /\
  dims g' = dims g ++ [(next_wire g, qr_bond_dim m (prod_list (map (wdim g) (permute 0 ql (axes t))))
                                                     (prod_list (map (wdim g) (permute 0 rl (axes t)))))] /\
  next_wire g' = S (next_wire g) /\ Permutation (ql ++ rl) (seq 0 (length (axes t))).
Proof.
  unfold qr_kernel.
  destruct (is_perm_of_seq (ql ++ rl) && Nat.eqb (length (ql ++ rl)) (length (axes t))) eqn:Hp; cbn [negb]; [|discriminate].
  apply andb_true_iff in Hp as [Hp1 Hp2]. apply is_perm_of_seq_spec in Hp1. apply Nat.eqb_eq in Hp2. rewrite Hp2 in Hp1.
  match goal with |- (if ?c then _ else _) = _ -> _ => destruct c; [discriminate|] end.
  cbn. intros [= <- <- <-]. cbn.
  split; [reflexivity|]. split; [reflexivity|]. split; [reflexivity|]. split.
  { constructor; cbn.
    - apply incl_appl, incl_refl.
    - intros w Hw. unfold wdim. cbn. apply wdim_fresh. exact Hw.
    - lia.
    - lia. }
  split; [reflexivity|]. split.
  { eexists. split; [apply in_or_app; right; left; reflexivity|]. cbn. auto. }
  auto.
Qed.

Lemma concat_axis_effect g ax a b g' c : concat_axis g ax a b = Some (g', c) ->
  nodes g' = nodes g /\ tensors g' = tensors g /\ root g' = root g /\ grows g g' /\
  c = {| axes := set_nth ax (next_wire g) (axes a); atoms := [next_atom g]; bnd := [] |} /\
  dims g' = dims g ++ [(next_wire g, nth ax (map (wdim g) (axes a)) 0 + nth ax (map (wdim g) (axes b)) 0)] /\
  next_wire g' = S (next_wire g) /\
  set_nth ax 0 (map (wdim g) (axes a)) = set_nth ax 0 (map (wdim g) (axes b)) /\ ax < length (axes a).
Proof.
  unfold concat_axis.
  destruct (Nat.eqb (length (axes a)) (length (axes b)) && Nat.ltb ax (length (axes a))) eqn:H1; cbn [negb]; [|discriminate].
  apply andb_true_iff in H1 as [H1a H1b]. apply Nat.ltb_lt in H1b.
  destruct (list_eqb _ _) eqn:H2; cbn [negb]; [|discriminate]. apply list_eqb_eq in H2.
  cbn. intros [= <- <-]. cbn.
  split; [reflexivity|]. split; [reflexivity|]. split; [reflexivity|]. split.
  { constructor; cbn.
    - intros x Hx. apply in_or_app. left. apply in_or_app. left. exact Hx.
    - intros w Hw. unfold wdim. cbn. apply wdim_fresh. exact Hw.
    - lia.
    - lia. }
  auto.
Qed.

Lemma bc_atom_effect g wo wn g' m : bc_atom g wo wn = (g', m) ->
  nodes g' = nodes g /\ tensors g' = tensors g /\ root g' = root g /\ grows g g' /\
  m = {| axes := [wo; wn]; atoms := [next_atom g]; bnd := [] |} /\ dims g' = dims g /\ next_wire g' = next_wire g.
Proof.
  unfold bc_atom. cbn. intros [= <- <-]. cbn.
  split; [reflexivity|]. split; [reflexivity|]. split; [reflexivity|]. split.
  { constructor; cbn.
    - apply incl_appl, incl_refl.
    - intros w _. reflexivity.
    - lia.
    - lia. }
  auto.
Qed.

Lemma pull_tensor_effect bcoff g cv n g' : pull_tensor bcoff g cv n = Some g' ->
  exists newn nd' ot q, aget n (nodes g) = Some newn /\ vlogical cv n = Some ot /\
    parent nd' = parent newn /\ children nd' = children newn /\ perm nd' = q /\ shape nd' = map (wdim g) (axes ot) /\
    permute 0 q (map (wdim g) (axes ot)) = node_shape newn /\
    nodes g' = aset n nd' (nodes g) /\ tensors g' = aset n ot (tensors g) /\
    root g' = root g /\ defs g' = defs g /\ dims g' = dims g /\ next_wire g' = next_wire g /\ next_atom g' = next_atom g.
Proof.
  unfold pull_tensor. destruct (aget n (vnodes cv)) as [oldn|]; [|discriminate].
  destruct (aget n (nodes g)) as [newn|]; [|discriminate].
  destruct (vlogical cv n) as [ot|]; [|discriminate].
  destruct (rel_leg_perm bcoff oldn newn) as [q|]; [|discriminate].
  unfold node_replace_tensor.
  destruct (forallb _ q && list_eqb (permute 0 q (map (wdim g) (axes ot))) (node_shape newn)) eqn:Hc; [|discriminate].
  apply andb_true_iff in Hc as [_ Hc]. apply list_eqb_eq in Hc.
  intros [= <-]. exists newn, {| parent := parent newn; children := children newn; perm := q; shape := map (wdim g) (axes ot) |}, ot, q.
  cbn. auto 15.
Qed.


(* ---- a node that is one Q atom of a QR kernel call, the bond wire on its (logical) leg 0 --------------------- *)
Definition Qnode (g : store) (k : id) : Prop :=
  exists nd t a df, aget k (nodes g) = Some nd /\ aget k (tensors g) = Some t /\ atoms t = [a] /\
    1 <= length (perm nd) /\ In df (defs g) /\ kq df = a /\ kkind df = 0 /\
    kbond df = nth (nth 0 (perm nd) 0) (axes t) 0.

(* the node record may change its parent pointer / children, the tensor stays, the definitions grow *)
Lemma Qnode_frame g g' k :
  Qnode g k -> incl (defs g) (defs g') ->
  (forall nd, aget k (nodes g) = Some nd -> exists nd', aget k (nodes g') = Some nd' /\ perm nd' = perm nd) ->
  aget k (tensors g') = aget k (tensors g) -> Qnode g' k.
Proof.
  intros (nd & t & a & df & E1 & E2 & E3 & E4 & E5 & E6 & E7 & E8) Hd Hn Ht.
  destruct (Hn nd E1) as (nd' & E1' & Hp). exists nd', t, a, df. rewrite Hp, Ht. auto 10.
Qed.

Lemma nth0_map_nonempty {A B} (f : A -> B) (l : list A) d d' : 1 <= length l -> nth 0 (map f l) d' = f (nth 0 l d).
Proof. destruct l; cbn; [lia|reflexivity]. Qed.

Lemma Qnode_access g k g' nd t n : Qnode g k -> access g n = Some (g', nd, t) -> Qnode g' k.
Proof.
  intros Q Ha. destruct (access_inv _ _ _ _ _ Ha) as (nd0 & t0 & E1 & E2 & -> & -> & ->).
  destruct (Nat.eq_dec k n) as [->|Hne].
  - destruct Q as (nd & t & a & df & F1 & F2 & F3 & F4 & F5 & F6 & F7 & F8).
    rewrite E1 in F1. injection F1 as <-. rewrite E2 in F2. injection F2 as <-.
    exists (reset_permutation nd0), (s_transpose (perm nd0) t0), a, df. cbn.
    rewrite !aget_aset_same. rewrite seq_length.
    split; [reflexivity|]. split; [reflexivity|]. split; [exact F3|]. split; [exact F4|]. split; [exact F5|].
    split; [exact F6|]. split; [exact F7|]. rewrite F8.
    destruct (perm nd0) as [|x l] eqn:Ep; [cbn in F4; lia|]. cbn. reflexivity.
  - apply (Qnode_frame g _ k Q); cbn.
    + apply incl_refl.
    + intros nd E. exists nd. rewrite aget_aset_other by exact Hne. auto.
    + apply aget_aset_other. exact Hne.
Qed.

(* ---- replace_first as a substitution --------------------------------------------------------------------------- *)
Lemma replace_first_map x y l : NoDup l -> replace_first x y l = map (fun z => if Nat.eqb z x then y else z) l.
Proof.
  induction l as [|z t IH]; intros Hnd; cbn; [reflexivity|]. inversion Hnd as [|? ? Hni Hnd']; subst.
  destruct (Nat.eqb_spec x z) as [->|Hne].
  - rewrite Nat.eqb_refl. f_equal. symmetry. rewrite <- (map_id t) at 2. apply map_ext_in. intros a Ha.
    destruct (Nat.eqb_spec a z) as [->|]; [contradiction|reflexivity].
  - destruct (Nat.eqb_spec z x) as [->|_]; [congruence|]. f_equal. apply IH. exact Hnd'.
Qed.

(* ---- contract_all_children when every child is a basis-change node -------------------------------------------- *)
Section Fold.
  Variable bcoff : nat.
  Notation bc := (bcid bcoff).

  Definition cfold (n : id) (B : list id) (g : store) : option store :=
    fold_left (fun acc c => match acc with Some g' => contract_nodes g' n c n | None => None end) B (Some g).

  Lemma cfold_none n B : fold_left (fun acc c => match acc with Some g' => contract_nodes g' n c n | None => None end) B None = None.
  Proof. induction B as [|b B IH]; cbn; [reflexivity|exact IH]. Qed.

  Lemma contract_fold n : forall (X : list id) g g' nn D,
    cfold n (map bc X) g = Some g' ->
    NoDup (akeys (nodes g)) -> NoDup X -> ~ In n X -> ~ In n (map bc X) ->
    (forall x x', In x X -> In x' X -> bc x' <> x) ->
    aget n (nodes g) = Some nn -> children nn = map bc X ++ D ->
    (forall x, In x X -> exists bn, aget (bc x) (nodes g) = Some bn /\ parent bn = Some n /\ children bn = [x]) ->
    exists nn',
      aget n (nodes g') = Some nn' /\ parent nn' = parent nn /\ children nn' = D ++ X /\
      (forall x, In x X -> aget (bc x) (nodes g') = None /\
                           aget x (nodes g') = option_map (fun xn => with_parent xn (Some n)) (aget x (nodes g))) /\
      (forall k, k <> n -> ~ In k X -> ~ In k (map bc X) -> aget k (nodes g') = aget k (nodes g)) /\
      NoDup (akeys (nodes g')) /\ root g' = root g /\ grows g g' /\ dims g' = dims g /\ next_wire g' = next_wire g /\
      (forall k, k <> n -> ~ In k (map bc X) -> aget k (tensors g') = aget k (tensors g)).
  Proof.
    induction X as [|x X IH]; intros g g' nn D H Hnd HX HnX HnB Hdisj En Hch Hb.
    - cbn in H. injection H as <-. exists nn. cbn in Hch. rewrite app_nil_r.
      split; [exact En|]. split; [reflexivity|]. split; [exact Hch|]. split; [intros x []|].
      split; [auto|]. split; [exact Hnd|]. split; [reflexivity|]. split; [apply grows_refl|]. auto.
    - unfold cfold in H. cbn [map fold_left] in H.
      destruct (contract_nodes g n (bc x) n) as [g1|] eqn:Ec; [|rewrite cfold_none in H; discriminate].
      destruct (Hb x (or_introl eq_refl)) as (bn & Eb & Pb & Cb).
      assert (Hnb : n <> bc x) by (intros E; apply HnB; left; symmetry; exact E).
      destruct (contract_child g n (bc x) g1 nn bn Hnd En Eb Pb Hnb Ec)
        as (nn1 & nt & ax & G1 & P1 & C1 & N1 & R1 & D1 & M1 & W1 & A1 & _ & T1 & _).
      inversion HX as [|? ? Hxni HX']; subst.
      assert (En1 : aget n (nodes g1) = Some nn1) by (rewrite G1, Nat.eqb_refl; reflexivity).
      assert (Hch1 : children nn1 = map bc X ++ (D ++ [x])).
      { rewrite C1, Hch, Cb. cbn [map app remove_first]. rewrite Nat.eqb_refl. rewrite <- app_assoc. reflexivity. }
      assert (Hget1 : forall k, k <> n -> k <> bc x -> k <> x -> aget k (nodes g1) = aget k (nodes g)).
      { intros k K1 K2 K3. rewrite G1, (eqb_false k n), (eqb_false k (bc x)) by assumption.
        destruct (aget k (nodes g)) as [kn|]; [|reflexivity]. cbn. unfold reparent. rewrite Cb. cbn.
        rewrite (eqb_false k x) by assumption. reflexivity. }
      assert (Hb1 : forall x', In x' X -> exists bn', aget (bc x') (nodes g1) = Some bn' /\ parent bn' = Some n /\ children bn' = [x']).
      { intros x' Hx'. destruct (Hb x' (or_intror Hx')) as (bn' & E' & P' & C'). exists bn'. split; [|auto].
        rewrite Hget1; [exact E'| | |].
        - intros E. apply HnB. right. apply in_map_iff. exists x'. split; [exact E|exact Hx'].
        - unfold bcid. intros E. assert (x' = x) by lia. subst x'. contradiction.
        - apply Hdisj; [left; reflexivity|right; exact Hx']. }
      destruct (IH g1 g' nn1 (D ++ [x]) H N1 HX' ltac:(intros Hc; apply HnX; right; exact Hc)
                   ltac:(intros Hc; apply HnB; right; exact Hc)
                   ltac:(intros a b Ha Hb'; apply Hdisj; right; assumption) En1 Hch1 Hb1)
        as (nn' & F1 & F2 & F3 & F4 & F5 & F6 & F7 & F8 & F9 & F10 & F11).
      exists nn'. split; [exact F1|]. split; [congruence|]. split; [rewrite F3, <- app_assoc; reflexivity|].
      split.
      { intros y [<-|Hy].
        - assert (Hxn : x <> n) by (intros ->; apply HnX; left; reflexivity).
          assert (K1 : ~ In (bc x) X) by (intros Hc; apply (Hdisj (bc x) x); [right; exact Hc|left; reflexivity|reflexivity]).
          assert (K2 : ~ In (bc x) (map bc X)).
          { intros Hc. apply in_map_iff in Hc. destruct Hc as (z & Ez & Hz). unfold bcid in Ez. assert (z = x) by lia. subst z. contradiction. }
          assert (K3 : ~ In x (map bc X)).
          { intros Hc. apply in_map_iff in Hc. destruct Hc as (z & Ez & Hz). apply (Hdisj x z); [left; reflexivity|right; exact Hz|exact Ez]. }
          split.
          + rewrite F5; [|congruence|exact K1|exact K2]. rewrite G1, (eqb_false (bc x) n), Nat.eqb_refl by congruence. reflexivity.
          + rewrite F5; [|exact Hxn|exact Hxni|exact K3].
            rewrite G1, (eqb_false x n) by exact Hxn.
            assert (Hxb : x <> bc x) by (intros E; apply (Hdisj x x); [left; reflexivity|left; reflexivity|symmetry; exact E]).
            rewrite (eqb_false x (bc x)) by exact Hxb.
            destruct (aget x (nodes g)) as [xn|]; [|reflexivity]. cbn. unfold reparent. rewrite Cb. cbn.
            rewrite Nat.eqb_refl, (eqb_false x n) by exact Hxn. reflexivity.
        - destruct (F4 y Hy) as [F4a F4b]. split; [exact F4a|]. rewrite F4b. f_equal.
          apply Hget1.
          + intros ->. apply HnX. right. exact Hy.
          + intros E. apply (Hdisj y x); [right; exact Hy|left; reflexivity|symmetry; exact E].
          + intros ->. contradiction. }
      split.
      { intros k K1 K2 K3. rewrite F5; [|exact K1|intros Hc; apply K2; right; exact Hc|intros Hc; apply K3; right; exact Hc].
        apply Hget1; [exact K1|intros E; apply K3; left; symmetry; exact E|intros E; apply K2; left; symmetry; exact E]. }
      split; [exact F6|]. split; [congruence|].
      split; [eapply grows_trans; [eapply contract_grows; eauto|exact F8]|].
      split; [congruence|]. split; [congruence|].
      intros k K1 K2. rewrite F11; [|exact K1|intros Hc; apply K2; right; exact Hc].
      apply T1; [exact K1|intros E; apply K2; left; symmetry; exact E].
  Qed.
End Fold.


Lemma NoDup_keys_snoc_eq {V} (l l' : list (nat * V)) b :
  NoDup (akeys l) -> ~ In b (akeys l) -> akeys l' = akeys l ++ [b] -> NoDup (akeys l').
Proof.
  intros H1 H2 ->. apply NoDup_app_iff. split; [exact H1|]. split; [constructor; [intros []|constructor]|].
  intros x Hx [<-|[]]. contradiction.
Qed.

Section Leaf.
  Variables (fixed : bool) (bcoff : nat).
  Notation bc := (bcid bcoff).

  Lemma update_leaf_effect n p g cv pv g' nd0 pn :
    update_leaf fixed bcoff n g cv pv = Some g' ->
    NoDup (akeys (nodes g)) ->
    aget n (nodes g) = Some nd0 -> parent nd0 = Some p -> children nd0 = [] ->
    aget p (nodes g) = Some pn -> parent pn <> Some n -> aget (bc n) (nodes g) = None -> n <> p ->
    (exists cn, aget n (vnodes cv) = Some cn /\ parent cn = Some p) ->
    exists nn bn,
      (forall k, aget k (nodes g') =
                 if Nat.eqb k p then Some (with_children pn (replace_first n (bc n) (children pn)))
                 else if Nat.eqb k n then Some nn else if Nat.eqb k (bc n) then Some bn else aget k (nodes g)) /\
      parent nn = Some (bc n) /\ children nn = [] /\ parent bn = Some p /\ children bn = [n] /\ In n (children pn) /\
      NoDup (akeys (nodes g')) /\ root g' = root g /\ grows g g' /\
      (forall k, k <> n -> k <> bc n -> aget k (tensors g') = aget k (tensors g)) /\
      Qnode g' n.
  Proof.
    intros H Hnd E0 Hp Hch Ep Hpn Eb Hnp (cn & Ecn & Pcn).
    unfold update_leaf in H.
    destruct (evolve (focus g cv) n) as [[s1 u]|] eqn:Eev; [|discriminate].
    destruct (evolve_effect _ _ _ _ Eev) as (cnd & ct & V1 & V2 & V3 & V4 & V5 & V6 & V7 & V8 & V9).
    cbn [focus nodes tensors] in V1, V2, V3, V4.
    destruct (vlogical pv n) as [oldb|]; [|discriminate].
    set (g1 := focus s1 (view_of g)) in *.
    assert (G1 : nodes g1 = nodes g /\ tensors g1 = tensors g /\ root g1 = root g) by (cbn; auto).
    assert (Gr1 : grows g g1).
    { apply grows_focus_r. destruct V7 as [A1 A2 A3 A4]. constructor; assumption. }
    match type of H with match ?x with _ => _ end = _ => destruct x as [[[g3 q] r]|] eqn:Eq; [|discriminate] end.
    assert (Hq : exists g2 X, grows g1 g2 /\ nodes g2 = nodes g1 /\ tensors g2 = tensors g1 /\ root g2 = root g1 /\
                              qr_kernel g2 X [1] [0] (if fixed then Keep else Reduced) = Some (g3, q, r)).
    { destruct fixed.
      - exists g1, u. split; [apply grows_refl|]. auto.
      - destruct (concat_axis g1 0 oldb u) as [[g2 cc]|] eqn:Ecc; [|discriminate].
        destruct (concat_axis_effect _ _ _ _ _ _ Ecc) as (C1 & C2 & C3 & C4 & _).
        exists g2, cc. auto. }
    destruct Hq as (g2 & X & Gr2 & N2 & T2 & R2 & Eqr). clear Eq.
    destruct (qr_kernel_effect _ _ _ _ _ _ _ _ Eqr) as (N3 & T3 & R3 & Gr3 & Hqv & (df & Hdf & Dq & Dk & Db) & _ & _ & Hperm).
    match type of H with (if ?c then _ else _) = _ => destruct c; [discriminate|] end.
    destruct (bc_atom g3 _ _) as [g4 m] eqn:Ebc.
    destruct (bc_atom_effect _ _ _ _ _ Ebc) as (N4 & T4 & R4 & Gr4 & Hm & _).
    cbn [view_of vnodes] in H. rewrite V3, aget_aset_same in H. cbn [reset_permutation parent] in H.
    rewrite V1 in Ecn. injection Ecn as <-. rewrite Pcn in H.
    destruct (split_replace g4 n _ _ (bc n) n m _) as [g5|] eqn:Esp; [|discriminate].
    destruct (access g5 n) as [[[g6 nd6] t6]|] eqn:Ea6; [|discriminate]. cbn in H. injection H as <-.
    assert (N4' : nodes g4 = nodes g) by (rewrite N4, N3, N2; apply G1).
    assert (T4' : tensors g4 = tensors g) by (rewrite T4, T3, T2; apply G1).
    assert (R4' : root g4 = root g) by (rewrite R4, R3, R2; apply G1).
    assert (Gr4' : grows g g4).
    { eapply grows_trans; [exact Gr1|]. eapply grows_trans; [exact Gr2|]. eapply grows_trans; [exact Gr3|exact Gr4]. }
    rewrite <- N4' in Hnd, E0, Ep, Eb.
    destruct (split_replace_bug g4 n p (bc n) [] [1] m _ g5 nd0 pn Hnd E0 Hp Hch Ep Hpn Eb Hnp Esp)
      as (in2 & on2 & S1 & S2 & S3 & S4 & S4b & S5 & S6 & S7 & S8 & S9 & S10 & S11 & S12 & S13 & S14 & S15 & S16 & S17).
    destruct (access_inv _ _ _ _ _ Ea6) as (nd5 & t5 & A1 & A2 & -> & -> & ->).
    rewrite S1, (eqb_false n p), Nat.eqb_refl in A1 by exact Hnp. injection A1 as <-.
    rewrite S11, Nat.eqb_refl in A2. injection A2 as <-.
    exists (reset_permutation in2), on2. cbn [upd_tensors upd_nodes nodes tensors root].
    assert (Hbn : bc n <> n) by (intros E; rewrite E in Eb; congruence).
    split.
    { intros k. rewrite aget_aset. destruct (Nat.eqb_spec k n) as [->|Hkn].
      - rewrite (eqb_false n p) by exact Hnp. reflexivity.
      - rewrite S1, (eqb_false k n) by exact Hkn. rewrite N4'. reflexivity. }
    split; [exact S2|]. split; [exact S3|]. split; [exact S6|]. split; [exact S7|]. split; [exact S9|].
    assert (K5 : NoDup (akeys (nodes g5))).
    { eapply NoDup_keys_snoc_eq; [exact Hnd| |exact S10]. apply aget_None. exact Eb. }
    split; [apply NoDup_akeys_aset; exact K5|].
    split; [rewrite S12; exact R4'|].
    split.
    { eapply grows_trans; [exact Gr4'|]. apply grows_same; cbn; assumption. }
    split.
    { intros k K1 K2. rewrite aget_aset_other by exact K1. rewrite S11, (eqb_false k n), (eqb_false k (bc n)) by assumption.
      rewrite T4'. reflexivity. }
    (* the new basis is the Q atom, the bond on leg 0 *)
    assert (Hax : exists x1, axes q = [x1; next_wire g2]).
    { rewrite Hqv. cbn. eexists. reflexivity. }
    destruct Hax as [x1 Hax].
    assert (Q5 : Qnode g5 n).
    { exists in2, (s_transpose [1; 0] q), (next_atom g2), df.
      rewrite S1, (eqb_false n p), Nat.eqb_refl by exact Hnp. rewrite S11, Nat.eqb_refl.
      split; [reflexivity|]. split; [reflexivity|]. split; [rewrite Hqv; reflexivity|].
      split; [exact S4b|].
      split; [rewrite S13; apply (gr_defs _ _ Gr4); exact Hdf|]. split; [exact Dq|]. split; [exact Dk|].
      rewrite Db, S4. cbn. rewrite Hax. reflexivity. }
    eapply Qnode_access; [exact Q5|exact Ea6].
  Qed.
End Leaf.


Lemma last_leg_first_Q (ow : list wire) w a :
  exists rest, last_leg_first {| axes := ow ++ [w]; atoms := [a]; bnd := [] |} = {| axes := w :: rest; atoms := [a]; bnd := [] |}.
Proof.
  unfold last_leg_first. cbn [axes]. rewrite app_length. cbn [length]. rewrite Nat.add_1_r.
  destruct (length ow) as [|j] eqn:El.
  - destruct ow; [|discriminate]. cbn. eexists. reflexivity.
  - unfold s_transpose, permute. cbn [axes atoms bnd map]. rewrite app_nth2 by lia. rewrite El, Nat.sub_diag. cbn [nth].
    eexists. reflexivity.
Qed.

Lemma new_basis_effect fixed g nd oldt u g' newb : new_basis fixed g nd oldt u = Some (g', newb) ->
  nodes g' = nodes g /\ tensors g' = tensors g /\ root g' = root g /\ grows g g' /\
  exists w a df rest, newb = {| axes := w :: rest; atoms := [a]; bnd := [] |} /\
                      In df (defs g') /\ kq df = a /\ kkind df = 0 /\ kbond df = w.
Proof.
  unfold new_basis. destruct (is_root nd); [discriminate|]. destruct fixed.
  - destruct (qr_kernel g u _ [0] Keep) as [[[g1 q] r]|] eqn:Eq; [|discriminate].
    destruct (qr_kernel_effect _ _ _ _ _ _ _ _ Eq) as (N & T & R & Gr & Hq & (df & Hdf & D1 & D2 & D3) & _).
    destruct (list_eqb _ _); [|discriminate]. intros [= <- <-].
    split; [exact N|]. split; [exact T|]. split; [exact R|]. split; [exact Gr|].
    rewrite Hq. destruct (last_leg_first_Q (permute 0 (seq (nparents nd) (length (children nd)) ++ seq (nvirt nd) (nopen nd)) (axes u))
                            (next_wire g) (next_atom g)) as [rest Hr].
    exists (next_wire g), (next_atom g), df, rest. auto.
  - destruct (concat_axis g 0 oldt u) as [[g1 cc]|] eqn:Ec; [|discriminate].
    destruct (concat_axis_effect _ _ _ _ _ _ Ec) as (N1 & T1 & R1 & Gr1 & _).
    destruct (qr_kernel g1 cc _ [0] Reduced) as [[[g2 q] r]|] eqn:Eq; [|discriminate].
    destruct (qr_kernel_effect _ _ _ _ _ _ _ _ Eq) as (N & T & R & Gr & Hq & (df & Hdf & D1 & D2 & D3) & _).
    intros [= <- <-].
    split; [congruence|]. split; [congruence|]. split; [congruence|]. split; [eapply grows_trans; eauto|].
    rewrite Hq. destruct (last_leg_first_Q (permute 0 (seq (nparents nd) (length (children nd)) ++ seq (nvirt nd) (nopen nd)) (axes cc))
                            (next_wire g1) (next_atom g1)) as [rest Hr].
    exists (next_wire g1), (next_atom g1), df, rest. auto.
Qed.

Section NonLeaf.
  Variables (fixed : bool) (bcoff : nat).
  Notation bc := (bcid bcoff).

  Lemma bc_inj a b : bc a = bc b -> a = b.
  Proof. unfold bcid. lia. Qed.

  Lemma in_map_bc a X : In (bc a) (map bc X) <-> In a X.
  Proof.
    split.
    - intros H. apply in_map_iff in H. destruct H as (z & Ez & Hz). apply bc_inj in Ez. subst z. exact Hz.
    - apply in_map.
  Qed.

  Lemma update_non_leaf_rest_effect n p X g cv pv g' nn0 pn :
    update_non_leaf_rest fixed bcoff n g cv pv = Some g' ->
    NoDup (akeys (nodes g)) -> NoDup X -> ~ In n X -> ~ In n (map bc X) ->
    (forall x x', In x X -> In x' X -> bc x' <> x) ->
    aget n (nodes g) = Some nn0 -> parent nn0 = Some p -> children nn0 = map bc X ->
    (forall x, In x X -> exists bn, aget (bc x) (nodes g) = Some bn /\ parent bn = Some n /\ children bn = [x]) ->
    aget p (nodes g) = Some pn -> parent pn <> Some n -> aget (bc n) (nodes g) = None -> n <> p ->
    ~ In p X -> ~ In p (map bc X) -> ~ In (bc n) X ->
    exists nn bn,
      (forall k, aget k (nodes g') =
                 if Nat.eqb k p then Some (with_children pn (replace_first n (bc n) (children pn)))
                 else if Nat.eqb k n then Some nn else if Nat.eqb k (bc n) then Some bn
                 else if memb k (map bc X) then None
                 else if memb k X then option_map (fun xn => with_parent xn (Some n)) (aget k (nodes g))
                 else aget k (nodes g)) /\
      parent nn = Some (bc n) /\ children nn = X /\ parent bn = Some p /\ children bn = [n] /\ In n (children pn) /\
      NoDup (akeys (nodes g')) /\ root g' = root g /\ grows g g' /\
      (forall k, k <> n -> k <> bc n -> ~ In k (map bc X) -> aget k (tensors g') = aget k (tensors g)) /\
      Qnode g' n.
  Proof.
    intros H Hnd HX HnX HnB Hdisj En Pn Cn Hb Ep Hpn Eb Hnp HpX HpB HbX.
    unfold update_non_leaf_rest in H.
    destruct (pull_tensor bcoff g cv n) as [g1|] eqn:Epull; [|discriminate].
    destruct (pull_tensor_effect _ _ _ _ _ Epull) as (newn & nd' & ot & q0 & P1 & P2 & P3 & P4 & P5 & P6 & P7 & P8 & P9 & P10 & P11 & P12 & P13 & P14).
    rewrite En in P1. injection P1 as <-.
    destruct (contract_all_children g1 n) as [g2|] eqn:Ecac; [|discriminate].
    unfold contract_all_children in Ecac. rewrite P8, aget_aset_same, P4, Cn in Ecac.
    assert (Hnd1 : NoDup (akeys (nodes g1))) by (rewrite P8; apply NoDup_akeys_aset; exact Hnd).
    assert (En1 : aget n (nodes g1) = Some nd') by (rewrite P8; apply aget_aset_same).
    assert (Cn1 : children nd' = map bc X ++ []) by (rewrite app_nil_r, P4; exact Cn).
    assert (Hb1 : forall x, In x X -> exists bn, aget (bc x) (nodes g1) = Some bn /\ parent bn = Some n /\ children bn = [x]).
    { intros x Hx. destruct (Hb x Hx) as (bn & E & Q). exists bn. split; [|exact Q]. rewrite P8, aget_aset_other; [exact E|].
      intros Ec. apply HnB. rewrite <- Ec. apply in_map. exact Hx. }
    destruct (contract_fold bcoff n X g1 g2 nd' [] Ecac Hnd1 HX HnX HnB Hdisj En1 Cn1 Hb1)
      as (nn2 & F1 & F2 & F3 & F4 & F5 & F6 & F7 & F8 & F9 & F10 & F11).
    cbn [app] in F3.
    destruct (evolve g2 n) as [[g3 u]|] eqn:Eev; [|discriminate].
    destruct (evolve_effect _ _ _ _ Eev) as (nd2 & t2 & V1 & V2 & V3 & V4 & V5 & V6 & V7 & V8 & V9).
    rewrite F1 in V1. injection V1 as <-.
    rewrite V3, aget_aset_same, V4, aget_aset_same in H.
    destruct (vlogical pv n) as [oldb|]; [|discriminate].
    destruct (new_basis fixed g3 _ _ u) as [[g4 newb]|] eqn:Enb; [|discriminate].
    destruct (new_basis_effect _ _ _ _ _ _ _ Enb) as (N4 & T4 & R4 & Gr4 & (w & a & df & rest & Hnewb & Hdf & D1 & D2 & D3)).
    match type of H with match ?x with _ => _ end = _ => destruct x as [[pp|]|]; try discriminate end.
    destruct (bc_atom g4 _ _) as [g5 m] eqn:Ebc.
    destruct (bc_atom_effect _ _ _ _ _ Ebc) as (N5 & T5 & R5 & Gr5 & Hm & _).
    destruct (split_replace g5 n _ _ (bc n) n m newb) as [g6|] eqn:Esp; [|discriminate].
    destruct (access g6 n) as [[[g7 nd7] t7]|] eqn:Ea7; [|discriminate]. cbn in H. injection H as <-.
    cbn [reset_permutation parent children] in Esp. rewrite F2, P3, Pn, F3 in Esp.
    assert (N5' : nodes g5 = aset n (reset_permutation nn2) (nodes g2)) by (rewrite N5, N4; exact V3).
    assert (Hnd5 : NoDup (akeys (nodes g5))) by (rewrite N5'; apply NoDup_akeys_aset; exact F6).
    assert (E5 : aget n (nodes g5) = Some (reset_permutation nn2)) by (rewrite N5'; apply aget_aset_same).
    assert (Hnbc : n <> bc n) by (intros E; rewrite <- E in Eb; congruence).
    assert (HbB : ~ In (bc n) (map bc X)) by (rewrite in_map_bc; exact HnX).
    assert (Ep5 : aget p (nodes g5) = Some pn).
    { rewrite N5', aget_aset_other by congruence. rewrite F5 by auto. rewrite P8, aget_aset_other by congruence. exact Ep. }
    assert (Eb5 : aget (bc n) (nodes g5) = None).
    { rewrite N5', aget_aset_other by congruence. rewrite F5 by auto. rewrite P8, aget_aset_other by congruence. exact Eb. }
    assert (Pnn2 : parent (reset_permutation nn2) = Some p) by (cbn; rewrite F2, P3; exact Pn).
    assert (Cnn2 : children (reset_permutation nn2) = X) by (cbn; exact F3).
    destruct (split_replace_bug g5 n p (bc n) X _ m newb g6 _ pn Hnd5 E5 Pnn2 Cnn2 Ep5 Hpn Eb5 Hnp Esp)
      as (in2 & on2 & S1 & S2 & S3 & S4 & S4b & S5 & S6 & S7 & S8 & S9 & S10 & S11 & S12 & S13 & S14 & S15 & S16 & S17).
    destruct (access_inv _ _ _ _ _ Ea7) as (nd6 & t6 & A1 & A2 & -> & -> & ->).
    rewrite S1, (eqb_false n p), Nat.eqb_refl in A1 by exact Hnp. injection A1 as <-.
    rewrite S11, Nat.eqb_refl in A2. injection A2 as <-.
    exists (reset_permutation in2), on2. cbn [upd_tensors upd_nodes nodes tensors root].
    split.
    { intros k. rewrite aget_aset. destruct (Nat.eqb_spec k n) as [->|Hkn].
      - rewrite (eqb_false n p) by exact Hnp. reflexivity.
      - rewrite S1, (eqb_false k n) by exact Hkn. destruct (Nat.eqb_spec k p) as [->|Hkp]; [reflexivity|].
        destruct (Nat.eqb_spec k (bc n)) as [->|Hkb]; [reflexivity|].
        rewrite N5', aget_aset_other by exact Hkn.
        destruct (memb k (map bc X)) eqn:M1.
        + apply memb_In in M1. apply in_map_iff in M1. destruct M1 as (x & <- & Hx). apply (F4 x Hx).
        + apply memb_false in M1. destruct (memb k X) eqn:M2.
          * apply memb_In in M2. destruct (F4 k M2) as [_ F4b]. rewrite F4b, P8, aget_aset_other by exact Hkn. reflexivity.
          * apply memb_false in M2. rewrite F5 by assumption. rewrite P8, aget_aset_other by exact Hkn. reflexivity. }
    split; [exact S2|]. split; [exact S3|]. split; [exact S6|]. split; [exact S7|]. split; [exact S9|].
    assert (K6 : NoDup (akeys (nodes g6))).
    { eapply NoDup_keys_snoc_eq; [exact Hnd5| |exact S10]. apply aget_None. exact Eb5. }
    split; [apply NoDup_akeys_aset; exact K6|].
    split; [rewrite S12, R5, R4, V6, F7; exact P10|].
    assert (Gr01 : grows g g1) by (apply grows_same; assumption).
    assert (Gr5' : grows g g5).
    { eapply grows_trans; [exact Gr01|]. eapply grows_trans; [exact F8|]. eapply grows_trans; [exact V7|].
      eapply grows_trans; [exact Gr4|exact Gr5]. }
    split.
    { eapply grows_trans; [exact Gr5'|]. apply grows_same; cbn; assumption. }
    split.
    { intros k K1 K2 K3. rewrite aget_aset_other by exact K1. rewrite S11, (eqb_false k n), (eqb_false k (bc n)) by assumption.
      rewrite T5, T4, V4, aget_aset_other by exact K1. rewrite F11 by assumption. rewrite P9, aget_aset_other by exact K1. reflexivity. }
    assert (Q6 : Qnode g6 n).
    { exists in2, newb, a, df.
      rewrite S1, (eqb_false n p), Nat.eqb_refl by exact Hnp. rewrite S11, Nat.eqb_refl.
      split; [reflexivity|]. split; [reflexivity|]. split; [rewrite Hnewb; reflexivity|].
      split; [exact S4b|].
      split; [rewrite S13; apply (gr_defs _ _ Gr5); exact Hdf|]. split; [exact D1|]. split; [exact D2|].
      rewrite D3, S4, Hnewb. reflexivity. }
    eapply Qnode_access; [exact Q6|exact Ea7].
  Qed.
End NonLeaf.


(* ---- the visiting tree against a node dictionary ------------------------------------------------------------- *)
Inductive tree_of (T0 : list (id * node)) : rtree -> Prop :=
| tree_of_node n kids nd : aget n T0 = Some nd -> Permutation (map RTree.rid kids) (children nd) ->
    Forall (tree_of T0) kids -> tree_of T0 (RNode n kids).

Lemma perm_ofb_spec a b : perm_ofb a b = true -> NoDup b -> Permutation a b.
Proof.
  unfold perm_ofb. rewrite !andb_true_iff. intros [[H1 H2] H3] Hb. apply Nat.eqb_eq in H1. apply nodupb_NoDup in H2.
  rewrite forallb_forall in H3. apply NoDup_Permutation_bis; [exact H2|lia|].
  intros x Hx. apply memb_In. apply H3. exact Hx.
Qed.

Lemma tree_matchb_tree_of T0 : (forall k n, aget k T0 = Some n -> NoDup (children n)) ->
  forall t, tree_matchb T0 t = true -> tree_of T0 t.
Proof.
  intros Hch t. induction t as [n kids IH] using rtree_ind2. cbn [tree_matchb].
  destruct (aget n T0) as [nd|] eqn:E; [|discriminate]. rewrite andb_true_iff. intros [H1 H2].
  econstructor; [exact E|apply perm_ofb_spec; [exact H1|eapply Hch; eauto]|].
  rewrite forallb_forall in H2. rewrite Forall_forall in *. intros c Hc. apply IH; [exact Hc|apply H2; exact Hc].
Qed.

(* ---- substitution of children by their basis-change nodes ------------------------------------------------------- *)
Section Sub.
  Variable bcoff : nat.
  Notation bc := (bcid bcoff).
  Definition sub (dn : list id) (z : id) : id := if memb z dn then bc z else z.

  Lemma replace_first_sub x dn ch :
    NoDup ch -> ~ In x dn -> (forall z, In z ch -> bc z <> x) ->
    replace_first x (bc x) (map (sub dn) ch) = map (sub (x :: dn)) ch.
  Proof.
    intros Hnd Hx Hbc. induction ch as [|z t IH]; [reflexivity|]. inversion Hnd as [|? ? Hzt Hnd']; subst.
    cbn [map].
    destruct (Nat.eq_dec z x) as [->|Hzx].
    - assert (E1 : sub dn x = x) by (unfold sub; apply memb_false in Hx; rewrite Hx; reflexivity).
      assert (E2 : sub (x :: dn) x = bc x) by (unfold sub; cbn [memb existsb]; rewrite Nat.eqb_refl; reflexivity).
      rewrite E1, E2. cbn [replace_first]. rewrite Nat.eqb_refl. f_equal.
      apply map_ext_in. intros a Ha. unfold sub. cbn [memb existsb].
      destruct (Nat.eqb_spec a x) as [->|]; [contradiction|reflexivity].
    - assert (E1 : sub (x :: dn) z = sub dn z) by (unfold sub; cbn [memb existsb]; rewrite (eqb_false z x) by exact Hzx; reflexivity).
      assert (Hne : x <> sub dn z).
      { unfold sub. destruct (memb z dn); [intros E; apply (Hbc z (or_introl eq_refl)); symmetry; exact E|congruence]. }
      rewrite E1. cbn [replace_first]. rewrite (eqb_false _ _ Hne). f_equal.
      apply IH; [exact Hnd'|intros a Ha; apply Hbc; right; exact Ha].
  Qed.

  Lemma map_sub_ext d1 d2 ch : (forall z, In z ch -> (In z d1 <-> In z d2)) -> map (sub d1) ch = map (sub d2) ch.
  Proof.
    intros H. apply map_ext_in. intros z Hz. unfold sub.
    destruct (memb z d1) eqn:M1; destruct (memb z d2) eqn:M2; try reflexivity.
    - apply memb_In in M1. apply memb_false in M2. exfalso. apply M2. apply (H z Hz). exact M1.
    - apply memb_In in M2. apply memb_false in M1. exfalso. apply M1. apply (H z Hz). exact M2.
  Qed.

  Lemma map_sub_nil ch : map (sub []) ch = ch.
  Proof. rewrite <- (map_id ch) at 2. apply map_ext. intros z. reflexivity. Qed.

  Lemma map_sub_all dn ch : (forall z, In z ch -> In z dn) -> map (sub dn) ch = map bc ch.
  Proof.
    intros H. apply map_ext_in. intros z Hz. unfold sub. specialize (H z Hz). apply memb_In in H. rewrite H. reflexivity.
  Qed.
End Sub.

Lemma loop_eq fixed bcoff rid cv cc : forall l g,
  (fix loop (l : list rtree) (g' : store) {struct l} : option store :=
     match l with
     | [] => Some g'
     | c :: r => match update_node fixed bcoff rid c g' cv cc with
                 | Some g'' => loop r g''
                 | None => None
                 end
     end) l g = update_children fixed bcoff rid l g cv cc.
Proof.
  induction l as [|c r IH]; intros g; [reflexivity|]. cbn [update_children].
  destruct (update_node fixed bcoff rid c g cv cc); [apply IH|reflexivity].
Qed.
