(* C09 at the store level, ACCEPTANCE: the model of one BUG / fixed-rank BUG step (Evo/BUGStore.v: root_update /
   update_node / update_leaf_node / update_non_leaf_node of time_evo_util/common_bug.py over the frozen store model)
   never rejects a well-formed input.  For every rooted tree t with unique identifiers, every store with wfb = true whose
   parent / children structure is t (BUGStoreProofs.tree_of), root = recorded centre = rid t, fresh temporaries (no
   "<n>_basis_change_tensor" identifier and not the uuid `tmp` of move_orthogonalization_center among the nodes) and
   exactly one open leg on every leaf below the root (what update_leaf_node needs: its QR legs are (1,), (0,), followed by
   `.T` and tensordot(..., ([1],[1])); non-leaf nodes and the root may have any number of open legs, also none),
   `root_update fixed bcoff tmp t cs` is `Some cs'`, for both variants.  No rank condition is needed: the re-centring of
   the copied state keeps the bond (SplitMode.KEEP, repaired code), so all shape comparisons (relative_leg_permutation /
   Node.replace_tensor, numpy.concatenate, idiots_splitting, the fixed-rank shape assertion) succeed.

   Organisation: (1) views over growing tables: wf / dims_kept are stable when only the tables of a focused store grow;
   (2) move_center(KEEP) is accepted between any two nodes of a well-formed store (no isometry hypothesis) and keeps
   every leg dimension; (3) the kernels, split_node_replace, contract_nodes with a two-leg child and
   contract_all_children over basis-change nodes, pull_tensor_from_different_ttn - each with the exact logical axes of
   the result, because new_state is NOT a well-formed store between the pull of a node and its replacement (the parent
   still holds the old bond wire); (4) update_leaf_node, update_non_leaf_node after the children loop; (5) the induction
   over the tree (predicate A; invariant ctx: the caller's state V0 and the state pv of the enclosing call are
   well-formed over the current tables, have the same tree and the same leg dimensions; nodes not yet reached are
   untouched in new_state; every finished child x left a basis-change node whose two logical axes are
   [wire of x's parent leg in pv; a registered wire]); (6) root_update, and the combination with the conditional
   effect theorems of Evo/BUGStoreProofs.v. *)
From Coq Require Import List Arith Bool Lia Permutation.
From PTN Require Import TTN.Store TTN.StoreProofs TTN.Canon TTN.CanonProofs TTN.Inv TTN.InvProofs TTN.InvNode TTN.InvBuild
  TTN.InvContract TTN.InvSplit TTN.InvEdit TTN.CanonTree TTN.CanonMore TTN.CanonStep TTN.CanonDist TTN.CanonPath TTN.CanonIso
  Tree.RTree Evo.BUGStore Evo.BUGStoreProofs Evo.TDVPStoreEffects.
From PTN Require TEBD.GateTree.
Import ListNotations.

Ltac nlia := unfold id, wire in *; lia.
Local Notation wf := Inv.wf.

(* ==== part 1 ==== *)

(* ---- views over growing tables ------------------------------------------------------------------------------ *)
Lemma focus_view_of s : focus s (view_of s) = s.
Proof. destruct s; reflexivity. Qed.

Lemma wdim_focus g v w : wdim (focus g v) w = wdim g w.
Proof. reflexivity. Qed.

Lemma map_wdim_grows g g' (l : list wire) : grows g g' -> (forall w, In w l -> w < next_wire g) ->
  map (wdim g') l = map (wdim g) l.
Proof. intros G H. apply map_ext_in. intros w Hw. apply (gr_wdim _ _ G). apply H. exact Hw. Qed.

Lemma wf_dims_ok g v : wf (focus g v) -> dims_ok g.
Proof. intros W w Hw. apply (wf_dims _ W w Hw). Qed.

Lemma tens_wires s k nd w : wf s -> aget k (nodes s) = Some nd -> In w (axes (tens s k)) -> w < next_wire s.
Proof. intros W E Hw. apply (wf_wires s W k (tens s k) w); [apply (wf_tens s k nd W E)|exact Hw]. Qed.

Lemma wf_focus_grows g g' v : wf (focus g v) -> grows g g' -> dims_ok g' -> wf (focus g' v).
Proof.
  intros W G D. constructor.
  - exact (wf_nd _ W).
  - exact (wf_tnd _ W).
  - exact (wf_tn _ W).
  - exact (wf_root _ W).
  - intros k n E. pose proof (wf_node _ W k n E) as [N1 N2 N3 N4 N5 N6 N7]. constructor; try assumption.
    change (tens (focus g' v) k) with (tens (focus g v) k).
    rewrite N3. symmetry. apply (map_wdim_grows g g'); [exact G|].
    intros w Hw. apply (tens_wires (focus g v) k n w W E Hw).
  - exact (wf_own1 _ W).
  - exact (wf_own2 _ W).
  - intros k t w E Hw. pose proof (wf_wires _ W k t w E Hw) as H. cbn in H |- *. pose proof (gr_nw _ _ G). lia.
  - exact D.
  - exact (wf_acyc _ W).
Qed.

Lemma open_wires_lt s k nk w : wf s -> aget k (nodes s) = Some nk -> In w (open_of nk (tens s k)) -> w < next_wire s.
Proof. intros W E Hw. apply (lax_wires s k nk w W E). apply (open_of_incl nk (tens s k)). exact Hw. Qed.

Lemma lax_nth_lt s k nk i : wf s -> aget k (nodes s) = Some nk -> i < nlegs nk -> nth i (lax s k nk) 0 < next_wire s.
Proof.
  intros W E Hi. apply (lax_wires s k nk _ W E). apply nth_In. unfold lax. rewrite laxes_length. exact Hi.
Qed.

Lemma wf_parent_leg s k nk : wf s -> aget k (nodes s) = Some nk -> parent nk <> None -> 0 < nlegs nk.
Proof.
  intros W E Hp. pose proof (ni_virt _ _ _ (wf_node s W k nk E)) as Hv. unfold nvirt, nparents in Hv.
  destruct (parent nk); [lia|congruence].
Qed.

(* dims_kept when the tables of one side grow *)
Lemma dk_grows_l g g' v B : wf (focus g v) -> grows g g' -> dims_kept (focus g v) B -> dims_kept (focus g' v) B.
Proof.
  intros W G [D1 D2]. split.
  - intros k nk nk' E E'. rewrite (D1 k nk nk' E E').
    change (tens (focus g' v) k) with (tens (focus g v) k). symmetry. apply (map_wdim_grows g g' _ G).
    intros w Hw. apply (open_wires_lt (focus g v) k nk w W E Hw).
  - intros k nk nk' E E' Hp. rewrite (D2 k nk nk' E E' Hp).
    change (lax (focus g' v) k nk) with (lax (focus g v) k nk). symmetry. apply (gr_wdim _ _ G).
    apply (lax_nth_lt (focus g v) k nk 0 W E). apply (wf_parent_leg _ _ _ W E Hp).
Qed.

Lemma dk_grows_r g g' v A : wf (focus g v) -> grows g g' -> same_tree (nodes A) (vnodes v) ->
  dims_kept A (focus g v) -> dims_kept A (focus g' v).
Proof.
  intros W G S [D1 D2]. split.
  - intros k nk nk' E E'. rewrite <- (D1 k nk nk' E E').
    change (tens (focus g' v) k) with (tens (focus g v) k). apply (map_wdim_grows g g' _ G).
    intros w Hw. apply (open_wires_lt (focus g v) k nk' w W E' Hw).
  - intros k nk nk' E E' Hp. rewrite <- (D2 k nk nk' E E' Hp).
    change (lax (focus g' v) k nk') with (lax (focus g v) k nk'). apply (gr_wdim _ _ G).
    apply (lax_nth_lt (focus g v) k nk' 0 W E'). apply (wf_parent_leg _ _ _ W E').
    destruct (same_tree_some _ _ _ _ S E) as (x & Ex & Px & _). cbn in E'. rewrite E' in Ex. injection Ex as <-. congruence.
Qed.

(* ---- move_orthogonalization_center(KEEP) is accepted between any two nodes of a well-formed store ------------- *)
Lemma walk_same_tree s s2 : same_tree (nodes s) (nodes s2) -> forall l, walk s l -> walk s2 l.
Proof.
  intros S2. induction l as [|x l IH]; intros Hw; [exact I|]. destruct l as [|y l]; [exact I|].
  destruct Hw as [(n & En & Hy) Hw]. split; [|apply IH; exact Hw].
  destruct (same_tree_some _ _ _ _ S2 En) as (n' & En' & _). exists n'. split; [exact En'|].
  apply (Permutation_in _ (same_tree_neighbours _ _ _ _ _ S2 En En')). exact Hy.
Qed.

Lemma move_fold_ok tmp : forall l s cur,
  wf s -> aget tmp (nodes s) = None -> walk s (cur :: l) ->
  exists cs', fold_left (move_step Keep tmp) l (Some (s, Some cur)) = Some cs' /\
    wf (fst cs') /\ same_tree (nodes s) (nodes (fst cs')) /\ aget tmp (nodes (fst cs')) = None /\ dims_kept s (fst cs').
Proof.
  induction l as [|nb l IH]; intros s cur W Ht Hw; cbn [fold_left].
  - eexists. split; [reflexivity|]. cbn [fst]. split; [exact W|]. split; [apply same_tree_refl|]. split; [exact Ht|apply dims_kept_refl].
  - cbn [move_step]. destruct Hw as [(nd & Ec & Hin) Hw].
    destruct (qr_to_neighbour_some s cur nb tmp nd W Ec Hin Ht) as [s2 E]. rewrite E.
    pose proof (wf_tstruct s W) as T.
    destruct (qr_step_effect _ _ _ _ _ _ T Ht E) as (na & Ea & Hin' & SE).
    destruct (step_same_tree _ _ _ _ _ _ T Ea Hin' SE) as [S1 T1].
    destruct (ts_neighbour_sym _ _ _ _ T Ea Hin') as (nbn & Eb & Hba & Hne).
    assert (Hra : tmp <> cur) by (intros ->; congruence).
    assert (Hrb : tmp <> nb) by (intros ->; congruence).
    assert (Ht2 : aget tmp (nodes s2) = None) by (rewrite (se_other_n _ _ _ _ _ _ SE tmp Hra Hrb); exact Ht).
    pose proof (qr_to_neighbour_wf _ _ _ _ _ _ W Ht E) as W2.
    destruct (qr_keep_deffect s cur nb tmp s2 W Ht E) as (Hne' & _ & DE).
    pose proof (deffect_dims_kept s cur nb s2 W W2 Hne' DE) as DK.
    destruct (IH s2 nb W2 Ht2 (walk_same_tree s s2 S1 _ Hw)) as (cs' & F & W3 & S3 & R3 & D3).
    exists cs'. split; [exact F|]. split; [exact W3|]. split; [exact (same_tree_trans _ _ _ S1 S3)|]. split; [exact R3|].
    apply (dims_kept_trans s s2 (fst cs') S1 DK D3).
Qed.

Lemma move_center_ok s c0 c tmp :
  wf s -> aget tmp (nodes s) = None -> amem c0 (nodes s) = true -> amem c (nodes s) = true ->
  exists s', move_center (s, Some c0) c Keep tmp = Some (s', Some c) /\
    wf s' /\ same_tree (nodes s) (nodes s') /\ aget tmp (nodes s') = None /\ dims_kept s s'.
Proof.
  intros W Ht Hc0 Hc. pose proof (wf_tstruct s W) as T.
  assert (R : exists cs', move_center (s, Some c0) c Keep tmp = Some cs' /\
    wf (fst cs') /\ same_tree (nodes s) (nodes (fst cs')) /\ aget tmp (nodes (fst cs')) = None /\ dims_kept s (fst cs')).
  { unfold move_center. cbn [fst snd]. destruct (Nat.eqb c0 c).
    - eexists. split; [reflexivity|]. cbn [fst]. split; [exact W|]. split; [apply same_tree_refl|]. split; [exact Ht|apply dims_kept_refl].
    - destruct (path_from_to_head s c0 c T Hc0 Hc) as [l El]. rewrite El. cbn [tl].
      apply (move_fold_ok tmp l s c0 W Ht).
      pose proof (path_from_to_walk s c0 c T Hc0 Hc) as Hw. rewrite El in Hw. exact Hw. }
  destruct R as (cs' & E & A & B & C & D).
  pose proof (move_center_reaches (s, Some c0) c0 c Keep tmp cs' T eq_refl Hc0 Hc E) as Hs.
  destruct cs' as [s' oc]. cbn [fst snd] in *. subst oc. exists s'. auto.
Qed.

(* ---- the kernels are accepted ----------------------------------------------------------------------------------- *)
Lemma evolve_some s n nd t : aget n (nodes s) = Some nd -> aget n (tensors s) = Some t ->
  exists s' u, evolve s n = Some (s', u).
Proof. intros E1 E2. unfold evolve, access. rewrite E1, E2. cbn. eauto. Qed.

Lemma qr_kernel_some g t ql rl m :
  Permutation (ql ++ rl) (seq 0 (length (axes t))) -> (m = Keep -> rl <> []) ->
  exists g' q r, qr_kernel g t ql rl m = Some (g', q, r).
Proof.
  intros Hp Hk. unfold qr_kernel.
  assert (Hl : length (ql ++ rl) = length (axes t)).
  { apply Permutation_length in Hp. rewrite seq_length in Hp. exact Hp. }
  assert (H1 : is_perm_of_seq (ql ++ rl) && Nat.eqb (length (ql ++ rl)) (length (axes t)) = true).
  { apply andb_true_iff. split; [apply is_perm_of_seq_spec; rewrite Hl; exact Hp|apply Nat.eqb_eq; exact Hl]. }
  rewrite H1. cbn [negb].
  assert (H2 : (match m, rl with Keep, [] => true | _, _ => false end) = false).
  { destruct m; try reflexivity. destruct rl; [exfalso; apply (Hk eq_refl eq_refl)|reflexivity]. }
  rewrite H2. cbn. eauto.
Qed.

Lemma concat_axis_some g ax a b :
  length (axes a) = length (axes b) -> ax < length (axes a) ->
  set_nth ax 0 (map (wdim g) (axes a)) = set_nth ax 0 (map (wdim g) (axes b)) ->
  exists g' c, concat_axis g ax a b = Some (g', c).
Proof.
  intros H1 H2 H3. unfold concat_axis.
  rewrite (proj2 (Nat.eqb_eq _ _) H1), (proj2 (Nat.ltb_lt _ _) H2). cbn [andb negb].
  rewrite (proj2 (list_eqb_eq _ _) H3). cbn. eauto.
Qed.

(* ==== part 2 ==== *)

(* ---- split_node_replace is accepted ----------------------------------------------------------------------------- *)
Lemma nth_all_0 {A} (x : A) t : nth_all (x :: t) [0] = Some [x].
Proof. reflexivity. Qed.

Lemma nth_all_tl {A} (x : A) t : nth_all (x :: t) (seq 1 (length t)) = Some t.
Proof.
  unfold nth_all. rewrite <- seq_shift, map_map. cbn [nth_error].
  replace (map (fun i => nth_error t i) (seq 0 (length t))) with (map Some t); [apply all_some_map_Some|].
  clear x. induction t as [|y t IH]; [reflexivity|]. cbn [length seq map nth_error]. f_equal.
  rewrite <- seq_shift, map_map. exact IH.
Qed.

Lemma new_node_oltp0 shp pid : 0 < length shp ->
  exists n1, open_leg_to_parent (new_node shp) pid 0 = Some n1 /\ nvirt n1 = 1 /\ nlegs n1 = length shp.
Proof. intros H. apply (GateTree.oltp_some' shp pid 0 H). Qed.

Lemma split_replace_some s n p b ta tb nd0 t0 pn da db :
  aget n (nodes s) = Some nd0 -> aget n (tensors s) = Some t0 -> parent nd0 = Some p ->
  NoDup (children nd0) -> ~ In p (children nd0) -> nvirt nd0 <= nlegs nd0 ->
  map (wdim s) (axes ta) = [da; db] ->
  da :: tl (map (wdim s) (axes tb)) = map (wdim s) (laxes nd0 t0) -> hd 0 (map (wdim s) (axes tb)) = db ->
  axes tb <> [] ->
  b <> n -> b <> p -> n <> p ->
  aget p (nodes s) = Some pn -> In n (children pn) ->
  (forall x, In x (children nd0) -> x <> b /\ x <> n /\ exists xn, aget x (nodes s) = Some xn /\ parent xn = Some n) ->
  exists s' on2, split_replace s n {| ls_parent := Some p; ls_children := []; ls_open := []; ls_root := false |}
                          {| ls_parent := None; ls_children := children nd0; ls_open := seq (nvirt nd0) (nopen nd0); ls_root := false |}
                          b n ta tb = Some s' /\ aget b (nodes s') = Some on2 /\ perm on2 = [0; 1] /\
                 tensors s' = aset n tb (aset b ta (aset n (s_transpose (perm nd0) t0) (tensors s))).
Proof.
  intros En Et Hp Hnd HpX Hv Hsa Hsb Hdb Hne Hbn Hbp Hnp Ep Hin HX.
  unfold split_replace. rewrite (GateTree.access_some s n nd0 t0 En Et).
  set (nd := reset_permutation nd0). set (t := s_transpose (perm nd0) t0).
  set (s1 := upd_tensors (upd_nodes s (aset n nd)) (aset n t)).
  assert (Hax : axes t = laxes nd0 t0) by reflexivity.
  (* the leg values *)
  assert (Fo : find_leg_values nd {| ls_parent := Some p; ls_children := []; ls_open := []; ls_root := false |} = Some [0]) by reflexivity.
  rewrite Fo.
  assert (Hnb : NoDup (neighbouring_nodes nd)).
  { unfold neighbouring_nodes. cbn. rewrite Hp. constructor; assumption. }
  assert (Fi : find_leg_values nd {| ls_parent := None; ls_children := children nd0; ls_open := seq (nvirt nd0) (nopen nd0); ls_root := false |}
               = Some (seq 1 (nlegs nd0 - 1))).
  { unfold find_leg_values. cbn [ls_children ls_parent ls_open app].
    rewrite (map_neighbour_index_mid nd [] (children nd0) []) by (rewrite ?app_nil_r; auto).
    rewrite all_some_map_Some. f_equal. cbn [length Nat.add]. rewrite Nat.add_0_r.
    assert (Hnp1 : nparents nd = 1) by (unfold nparents; cbn; rewrite Hp; reflexivity).
    rewrite Hnp1. unfold nopen, nvirt in *. unfold nparents in *. rewrite Hp in *.
    rewrite <- seq_app. f_equal. lia. }
  rewrite Fi.
  assert (Hlen : length (map (wdim s) (axes t)) = nlegs nd0).
  { rewrite map_length, Hax, laxes_length. reflexivity. }
  assert (Hn1 : 1 <= nlegs nd0) by (unfold nvirt, nparents in Hv; rewrite Hp in Hv; lia).
  rewrite Hax, <- Hsb. rewrite nth_all_0.
  replace (nlegs nd0 - 1) with (length (tl (map (wdim s) (axes tb)))).
  2:{ rewrite Hax, <- Hsb in Hlen. cbn [length] in Hlen. lia. }
  rewrite nth_all_tl. rewrite Hsa. cbn [removelast].
  rewrite (proj2 (list_eqb_eq _ _) eq_refl). cbn [negb].
  rewrite (proj2 (list_eqb_eq _ _) eq_refl). cbn [negb length Nat.add].
  rewrite Nat.eqb_refl. cbn [negb].
  assert (Hltb : length (map (wdim s) (axes tb)) = length (tl (map (wdim s) (axes tb))) + 1).
  { destruct (axes tb); [congruence|]. cbn. lia. }
  rewrite seq_length, (proj2 (Nat.eqb_eq _ _) Hltb). cbn [negb last]. rewrite Hdb, Nat.eqb_refl. cbn [negb].
  rewrite (proj2 (Nat.eqb_neq _ _) Hbn).
  cbv zeta. cbn [ls_root ls_parent ls_children ls_open andb orb negb app].
  set (shb := map (wdim s) (axes tb)) in *.
  assert (Hshb : length shb = nlegs nd0).
  { rewrite Hax, <- Hsb in Hlen. cbn [length] in Hlen. lia. }
  (* the in node *)
  destruct (new_node_oltp0 shb b ltac:(lia)) as (in1 & Ein1 & Vin1 & Lin1). rewrite Ein1.
  destruct (GateTree.olc_some in1 (enum_from 1 (children nd0))) as (in2 & Ein2 & _).
  { intros x Hx. apply GateTree.in_enum_from_snd in Hx. unfold nvirt, nparents in Hv. rewrite Hp in Hv. lia. }
  rewrite Ein2.
  (* the out node *)
  destruct (new_node_oltp0 [da; db] p ltac:(cbn; lia)) as (on1 & Eon1 & Von1 & Lon1). rewrite Eon1.
  match goal with |- context [open_legs_to_children on1 ?d] => destruct (GateTree.olc_some on1 d) as (on2 & Eon2 & _) end.
  { intros x [<-|[]]. cbn [snd]. cbn in Lon1. lia. }
  rewrite Eon2.
  assert (Pon2 : perm on2 = [0; 1]).
  { pose proof (oltp0_perm _ _ _ Eon1) as Pon1. cbn in Pon1.
    destruct (open_leg_to_parent_wf _ _ _ _ (new_node_wf [da; db]) Eon1) as (Won1 & _).
    match type of Eon2 with open_legs_to_children on1 ?d = _ =>
      destruct (open_legs_to_children_spec on1 d on2 Won1 ltac:(cbn; constructor; [intros []|constructor]) Eon2) as (_ & _ & _ & Pp & _) end.
    rewrite Pp, Von1, Pon1, Lon1. reflexivity. }
  (* the neighbours *)
  set (l0 := aset n in2 (aset b on2 (nodes (upd_tensors s1 (fun l => aset n tb (aset b ta l)))))).
  assert (Hl0 : forall k, k <> n -> k <> b -> aget k l0 = aget k (nodes s)).
  { intros k K1 K2. unfold l0. cbn. rewrite !aget_aset_other by assumption. reflexivity. }
  unfold find_all_neighbour_ids. cbn [ls_parent ls_children app].
  destruct (GateTree.risn_some b n [p] l0) as (l1 & R1 & O1).
  { constructor; [intros []|constructor]. }
  { intros x [<-|[]]. exists pn. split; [rewrite Hl0 by congruence; exact Ep|right; exact Hin]. }
  fold l0. rewrite R1.
  destruct (GateTree.risn_some n n (children nd0) l1 Hnd) as (l2 & R2 & O2).
  { intros x Hx. destruct (HX x Hx) as (X1 & X2 & xn & Ex & Px). exists xn. split; [|left; exact Px].
    rewrite O1 by (intros [<-|[]]; contradiction). rewrite Hl0 by assumption. exact Ex. }
  rewrite R2. rewrite Nat.eqb_refl, orb_true_r. eexists. exists on2. split; [reflexivity|]. split; [|split; [exact Pon2|reflexivity]].
  cbn [nodes set_root upd_nodes].
  rewrite O2 by (intros Hb; destruct (HX b Hb) as (Hc & _); congruence).
  rewrite O1 by (intros [Hb|[]]; congruence).
  unfold l0. rewrite aget_aset_other by exact Hbn. apply aget_aset_same.
Qed.

(* ==== part 3 ==== *)

(* ---- contract_nodes(n, c, n) where c is a basis-change node: two legs, one child ---------------------------------- *)
Lemma nlegs_reset n : nlegs (reset_permutation n) = nlegs n.
Proof. unfold nlegs. cbn. apply seq_length. Qed.

Lemma contract_bc_step g n c nn cn tn tc (P0 B O : list wire) w w' x CB :
  NoDup (akeys (nodes g)) -> NoDup (akeys (tensors g)) ->
  aget n (nodes g) = Some nn -> aget c (nodes g) = Some cn -> n <> c ->
  parent cn = Some n -> children cn = [x] ->
  aget n (tensors g) = Some tn -> aget c (tensors g) = Some tc ->
  laxes nn tn = P0 ++ w :: B ++ O -> laxes cn tc = [w; w'] ->
  length P0 = nparents nn -> children nn = c :: CB -> length CB = length B -> NoDup (children nn) -> parent nn <> Some c ->
  exists g' nn' tn',
    contract_nodes g n c n = Some g' /\
    aget n (nodes g') = Some nn' /\ aget n (tensors g') = Some tn' /\
    laxes nn' tn' = P0 ++ B ++ w' :: O /\ children nn' = CB ++ [x] /\ parent nn' = parent nn /\
    NoDup (akeys (tensors g')) /\ shape nn' = map (wdim g) (axes tn') /\ (forall i, In i (perm nn') -> i < length (axes tn')).
Proof.
  intros Hnd Htnd En Ec Hne Pc Cc Tn Tc Ln Lc HP0 Cn HCB Hcnd Hpn.
  assert (Lnn : nlegs nn = length P0 + 1 + length B + length O).
  { rewrite <- (laxes_length nn tn), Ln. rewrite app_length. cbn [length]. rewrite app_length. nlia. }
  assert (Lcn : nlegs cn = 2) by (rewrite <- (laxes_length cn tc), Lc; reflexivity).
  unfold contract_nodes, determine_parentage. rewrite En, Ec, Pc, Nat.eqb_refl.
  rewrite (GateTree.access_some g n nn tn En Tn).
  set (pn := reset_permutation nn). set (pt := s_transpose (perm nn) tn).
  set (s1 := upd_tensors (upd_nodes g (aset n pn)) (aset n pt)).
  assert (Ec1 : aget c (nodes s1) = Some cn) by (cbn; rewrite aget_aset_other by congruence; exact Ec).
  assert (Tc1 : aget c (tensors s1) = Some tc) by (cbn; rewrite aget_aset_other by congruence; exact Tc).
  rewrite (GateTree.access_some s1 c cn tc Ec1 Tc1).
  set (cnr := reset_permutation cn). set (ct := s_transpose (perm cn) tc).
  set (s2 := upd_tensors (upd_nodes s1 (aset c cnr)) (aset c ct)).
  assert (Hni : neighbour_index pn c = Some (length P0)).
  { rewrite (neighbour_index_child pn c) by exact Hpn. change (children pn) with (children nn). rewrite Cn. cbn [index_of].
    rewrite Nat.eqb_refl. cbn [option_map]. change (nparents pn) with (nparents nn). rewrite <- HP0. f_equal. nlia. }
  rewrite Hni.
  assert (Hapt : axes pt = P0 ++ w :: B ++ O) by exact Ln.
  assert (Hact : axes ct = [w; w']) by exact Lc.
  unfold s_tensordot. rewrite Hapt, Hact, pop_app. cbn [pop]. rewrite Nat.eqb_refl.
  set (nt := {| axes := (P0 ++ B ++ O) ++ [w']; atoms := atoms pt ++ atoms ct; bnd := w :: bnd pt ++ bnd ct |}).
  cbv zeta. rewrite Nat.eqb_refl.
  assert (Lpn : nlegs pn = nlegs nn) by apply nlegs_reset.
  assert (Lcr : nlegs cnr = 2) by (unfold cnr; rewrite nlegs_reset; exact Lcn).
  assert (Vpn : nvirt pn <= nlegs pn).
  { rewrite Lpn, Lnn. unfold nvirt. change (nparents pn) with (nparents nn). change (children pn) with (children nn).
    rewrite Cn, <- HP0. cbn [length]. nlia. }
  assert (Vcr : nvirt cnr <= nlegs cnr).
  { rewrite Lcr. unfold nvirt, nparents. change (parent cnr) with (parent cn). change (children cnr) with (children cn).
    rewrite Pc, Cc. cbn. nlia. }
  assert (Hcin : In c (children pn)) by (change (children pn) with (children nn); rewrite Cn; left; reflexivity).
  assert (Hshp : length (map (wdim g) (axes nt)) = (nlegs pn - 1) + (nlegs cnr - 1)).
  { rewrite map_length. cbn [axes nt]. rewrite !app_length. cbn [length]. rewrite Lpn, Lnn, Lcr. nlia. }
  assert (Hpc1 : nparents cnr = 1) by (unfold nparents; change (parent cnr) with (parent cn); rewrite Pc; reflexivity).
  destruct (ccn_some pn cnr c true (map (wdim g) (axes nt)) Vpn Vcr Hcin Hcnd ltac:(change (parent cnr) with (parent cn); congruence) Hshp)
    as [nnX Ecc].
  rewrite Ecc. rewrite rnin_same.
  match goal with |- context [replace_node_in_neighbours ?X n c true] => set (s3 := X) end.
  destruct (replace_node_in_neighbours_some s3 n c true cnr Hne) as [s5 R5].
  { cbn. apply aget_aset_same. }
  { change (parent cnr) with (parent cn). rewrite Pc. left. reflexivity. }
  rewrite R5. eexists. exists nnX, nt. split; [reflexivity|].
  destruct (rnin_tables _ _ _ _ _ R5) as (_ & _ & _ & _ & _ & Ht5).
  cbn [upd_nodes nodes tensors]. rewrite Ht5. cbn [s3 upd_tensors tensors].
  set (T2 := aset c ct (aset n pt (tensors g))).
  assert (N2 : NoDup (akeys T2)) by (unfold T2; repeat apply NoDup_akeys_aset; exact Htnd).
  assert (N3 : NoDup (akeys (adel n T2))) by (apply NoDup_akeys_adel; exact N2).
  assert (N4 : NoDup (akeys (adel c (adel n T2)))) by (apply NoDup_akeys_adel; exact N3).
  assert (G1 : aget n (adel c (adel n T2)) = None).
  { rewrite aget_adel_other by exact Hne. apply aget_adel_same. exact N2. }
  destruct (ccn_spec _ _ _ _ _ _ Ecc Hcin Vpn Vcr Hpc1 Hshp) as (Pnn & Snn & Cnn & Permnn).
  change (children pn) with (children nn) in Cnn, Permnn. rewrite Cn in Cnn, Permnn. cbn [remove_first] in Cnn, Permnn.
  rewrite Nat.eqb_refl in Cnn, Permnn.
  split; [apply aget_aset_same|].
  split; [change (tensors s2) with T2; rewrite aget_app, G1; cbn; rewrite Nat.eqb_refl; reflexivity|].
  split.
  { unfold laxes, permute. rewrite Permnn. cbn [axes nt].
    change (children cnr) with (children cn). rewrite Cc. cbn [length].
    change (nparents pn) with (nparents nn). rewrite <- HP0, HCB.
    assert (Onn : nopen pn = length O).
    { unfold nopen. rewrite Lpn, Lnn. unfold nvirt. change (nparents pn) with (nparents nn). change (children pn) with (children nn).
      rewrite Cn, <- HP0. cbn [length]. nlia. }
    assert (Ocr : nopen cnr = 0).
    { unfold nopen. rewrite Lcr. unfold nvirt. rewrite Hpc1. change (children cnr) with (children cn). rewrite Cc. reflexivity. }
    rewrite Onn, Ocr.
    replace ((P0 ++ B ++ O) ++ [w']) with (P0 ++ B ++ O ++ [w'] ++ []) by (rewrite app_nil_r, <- !app_assoc; reflexivity).
    pose proof (ccn_laxes true P0 B O [w'] [] (nlegs pn) ltac:(rewrite Lpn, Lnn; nlia)) as HL. cbn [length] in HL.
    transitivity (P0 ++ B ++ [w'] ++ O ++ []); [exact HL|rewrite app_nil_r; reflexivity]. }
  split; [rewrite Cnn; change (children cnr) with (children cn); rewrite Cc; reflexivity|].
  split; [exact Pnn|].
  split; [apply NoDup_akeys_snoc; [exact N4|exact G1]|].
  split; [exact Snn|].
  intros i Hi. rewrite Permnn in Hi. change (children cnr) with (children cn) in Hi. rewrite Cc in Hi. cbn [length] in Hi.
  assert (Onn : nopen pn = length O).
  { unfold nopen. rewrite Lpn, Lnn. unfold nvirt. change (nparents pn) with (nparents nn). change (children pn) with (children nn).
    rewrite Cn, <- HP0. cbn [length]. nlia. }
  assert (Ocr : nopen cnr = 0).
  { unfold nopen. rewrite Lcr. unfold nvirt. rewrite Hpc1. change (children cnr) with (children cn). rewrite Cc. reflexivity. }
  pose proof (ccn_perm_Permutation true (nparents pn) (length CB) 1 (nopen pn) (nopen cnr) (nlegs pn)) as HP.
  assert (Hlp : nlegs pn - 1 = nparents pn + length CB + nopen pn).
  { rewrite Lpn, Lnn, Onn. change (nparents pn) with (nparents nn). rewrite <- HP0, HCB. nlia. }
  specialize (HP Hlp). pose proof (perm_bound _ _ HP i Hi) as Hb.
  cbn [axes nt]. rewrite !app_length. cbn [length]. rewrite Onn, Ocr in Hb. change (nparents pn) with (nparents nn) in Hb.
  rewrite <- HP0, HCB in Hb. nlia.
Qed.

Section CFold.
  Variable bcoff : nat.
  Notation bc := (bcid bcoff).

  Lemma contract_all_bc n (fo fn : id -> wire) : forall (X : list id) g nn tn (P0 WD O : list wire) (Done : list id),
    NoDup (akeys (nodes g)) -> NoDup (akeys (tensors g)) ->
    aget n (nodes g) = Some nn -> aget n (tensors g) = Some tn ->
    laxes nn tn = P0 ++ map fo X ++ WD ++ O -> length P0 = nparents nn ->
    children nn = map bc X ++ Done -> length WD = length Done -> NoDup (children nn) ->
    (forall x, In x X -> parent nn <> Some (bc x)) -> ~ In n (map bc X) ->
    NoDup X -> (forall x x', In x X -> In x' X -> bc x' <> x) -> (forall x, In x X -> ~ In x Done) ->
    shape nn = map (wdim g) (axes tn) -> (forall i, In i (perm nn) -> i < length (axes tn)) ->
    (forall x, In x X -> exists bn tb, aget (bc x) (nodes g) = Some bn /\ aget (bc x) (tensors g) = Some tb /\
                                       parent bn = Some n /\ children bn = [x] /\ laxes bn tb = [fo x; fn x]) ->
    exists g' nn' tn',
      cfold n (map bc X) g = Some g' /\ aget n (nodes g') = Some nn' /\ aget n (tensors g') = Some tn' /\
      laxes nn' tn' = P0 ++ WD ++ map fn X ++ O /\ children nn' = Done ++ X /\ parent nn' = parent nn /\
      NoDup (akeys (tensors g')) /\ shape nn' = map (wdim g') (axes tn') /\ (forall i, In i (perm nn') -> i < length (axes tn')).
  Proof.
    induction X as [|x X IH]; intros g nn tn P0 WD O Done Hnd Htnd En Tn Ln HP0 Cn HWD Hcnd Hpar HnB HX Hdisj HXD Hshape Hpb Hb.
    - exists g, nn, tn. cbn [map app] in *. rewrite app_nil_r. split; [reflexivity|]. auto 10.
    - cbn [map app] in Ln, Cn.
      destruct (Hb x (or_introl eq_refl)) as (bn & tb & Eb & Tb & Pb & Cb & Lb).
      assert (Hnb : n <> bc x) by (intros E; apply HnB; left; symmetry; exact E).
      inversion HX as [|? ? Hxni HX']; subst.
      destruct (contract_bc_step g n (bc x) nn bn tn tb P0 (map fo X ++ WD) O (fo x) (fn x) x (map bc X ++ Done)
                  Hnd Htnd En Eb Hnb Pb Cb Tn Tb) as (g1 & nn1 & tn1 & E1 & En1 & Tn1 & Ln1 & Cn1 & Pn1 & Htnd1 & Sh1 & Pb1); auto.
      { rewrite Ln, <- !app_assoc. reflexivity. }
      { rewrite !app_length, !map_length. nlia. }
      { apply Hpar. left. reflexivity. }
      destruct (contract_child g n (bc x) g1 nn bn Hnd En Eb Pb Hnb E1)
        as (nn1' & nt & ax & G1 & _ & _ & N1 & _ & _ & D1 & _ & _ & _ & T1 & _).
      assert (Hget1 : forall k, k <> n -> k <> bc x -> k <> x -> aget k (nodes g1) = aget k (nodes g)).
      { intros k K1 K2 K3. rewrite G1, (eqb_false k n), (eqb_false k (bc x)) by assumption.
        destruct (aget k (nodes g)) as [kn|]; [|reflexivity]. cbn. unfold reparent. rewrite Cb. cbn.
        rewrite (eqb_false k x) by assumption. reflexivity. }
      assert (Hwd : forall w, wdim g1 w = wdim g w) by (intros w; unfold wdim; rewrite D1; reflexivity).
      destruct (IH g1 nn1 tn1 P0 (WD ++ [fn x]) O (Done ++ [x])) as (g' & nn' & tn' & F1 & F2 & F3 & F4 & F5 & F6 & F7 & F8 & F9); auto.
      { rewrite Ln1, <- !app_assoc. reflexivity. }
      { rewrite HP0. unfold nparents. rewrite Pn1. reflexivity. }
      { rewrite Cn1, <- app_assoc. reflexivity. }
      { rewrite !app_length. cbn. nlia. }
      { rewrite Cn1. rewrite Cn in Hcnd. inversion Hcnd as [|? ? Hni Hnd']; subst.
        apply NoDup_app_iff. split; [exact Hnd'|]. split; [constructor; [intros []|constructor]|].
        intros y Hy [<-|[]]. apply in_app_or in Hy. destruct Hy as [Hy|Hy].
        - apply in_map_iff in Hy. destruct Hy as (z & Ez & Hz). apply (Hdisj x z); [left; reflexivity|right; exact Hz|exact Ez].
        - apply (HXD x); [left; reflexivity|exact Hy]. }
      { intros y Hy. rewrite Pn1. apply Hpar. right. exact Hy. }
      { intros Hc. apply HnB. right. exact Hc. }
      { intros a b Ha Hb'. apply Hdisj; right; assumption. }
      { intros y Hy Hin. apply in_app_or in Hin. destruct Hin as [Hin|[<-|[]]]; [apply (HXD y (or_intror Hy) Hin)|contradiction]. }
      { rewrite Sh1. apply map_ext. intros w. symmetry. apply Hwd. }
      { intros y Hy. destruct (Hb y (or_intror Hy)) as (bn' & tb' & E' & T' & P' & C' & L').
        assert (K1 : bc y <> n) by (intros E; apply HnB; right; apply in_map_iff; exists y; split; [exact E|exact Hy]).
        assert (K2 : bc y <> bc x) by (unfold bcid; intros E; assert (y = x) by nlia; subst y; contradiction).
        assert (K3 : bc y <> x) by (apply Hdisj; [left; reflexivity|right; exact Hy]).
        exists bn', tb'. rewrite Hget1 by assumption. rewrite T1 by assumption. auto. }
      exists g', nn', tn'. split; [unfold cfold in *; cbn [map fold_left]; rewrite E1; exact F1|].
      split; [exact F2|]. split; [exact F3|]. split; [rewrite F4; cbn [map]; rewrite <- !app_assoc; reflexivity|].
      split; [rewrite F5, <- app_assoc; reflexivity|]. split; [congruence|]. auto.
  Qed.
End CFold.

(* ==== part 4 ==== *)

(* ---- pull_tensor_from_different_ttn is accepted ---------------------------------------------------------------- *)
Lemma all_some_forall {A B} (f : A -> option B) (R : A -> B -> Prop) : forall X,
  (forall x, In x X -> exists j, f x = Some j /\ R x j) ->
  exists cp, all_some (map f X) = Some cp /\ Forall2 R X cp.
Proof.
  induction X as [|x X IH]; intros H; [exists []; split; [reflexivity|constructor]|].
  destruct (H x (or_introl eq_refl)) as (j & Ej & Rj).
  destruct (IH (fun y Hy => H y (or_intror Hy))) as (cp & Ecp & F).
  exists (j :: cp). cbn [map all_some]. rewrite Ej, Ecp. split; [reflexivity|constructor; assumption].
Qed.

Section Pull.
  Variable bcoff : nat.
  Notation bc := (bcid bcoff).

  Lemma unbc_bc x : unbc bcoff (bc x) = Some x.
  Proof. unfold unbc, bcid. rewrite (proj2 (Nat.leb_le _ _)) by nlia. f_equal. nlia. Qed.

  Lemma pull_tensor_some g cv n oldn told newn X (fo : id -> wire) :
    aget n (vnodes cv) = Some oldn -> aget n (vtensors cv) = Some told -> aget n (nodes g) = Some newn ->
    parent newn = parent oldn -> children newn = map bc X -> length X = length (children oldn) ->
    nlegs newn = nlegs oldn -> nvirt oldn <= nlegs oldn ->
    (forall x, In x X -> exists j, index_of x (children oldn) = Some j /\ nth (j + nparents oldn) (laxes oldn told) 0 = fo x) ->
    node_shape newn = map (wdim g) (firstn (nparents oldn) (laxes oldn told) ++ map fo X ++ skipn (nvirt oldn) (laxes oldn told)) ->
    exists g' nd' ot,
      pull_tensor bcoff g cv n = Some g' /\
      nodes g' = aset n nd' (nodes g) /\ tensors g' = aset n ot (tensors g) /\
      parent nd' = parent newn /\ children nd' = children newn /\ shape nd' = map (wdim g) (axes ot) /\
      laxes nd' ot = firstn (nparents oldn) (laxes oldn told) ++ map fo X ++ skipn (nvirt oldn) (laxes oldn told) /\
      root g' = root g /\ dims g' = dims g /\ next_wire g' = next_wire g /\ defs g' = defs g /\ next_atom g' = next_atom g /\
      (forall i, In i (perm nd') -> i < length (axes ot)).
  Proof.
    intros Eo To En Hp Hc HlX Hl Hv HX Hshape.
    set (Lo := laxes oldn told) in *.
    assert (HLo : length Lo = nlegs oldn) by apply laxes_length.
    unfold pull_tensor, vlogical. rewrite Eo, En, To.
    set (ot := s_transpose (perm oldn) told).
    assert (Hot : axes ot = Lo) by reflexivity.
    unfold rel_leg_perm. rewrite Hc, map_length, (proj2 (Nat.eqb_eq _ _) (eq_sym HlX)). cbn [negb].
    rewrite map_map.
    destruct (all_some_forall (fun x => match unbc bcoff (bc x) with Some c0 => index_of c0 (children oldn) | None => None end)
                (fun x j => index_of x (children oldn) = Some j /\ nth (j + nparents oldn) Lo 0 = fo x) X) as (cp & Ecp & Fcp).
    { intros x Hx. rewrite unbc_bc. destruct (HX x Hx) as (j & E1 & E2). exists j. auto. }
    rewrite Ecp.
    assert (Hnp : nparents newn = nparents oldn) by (unfold nparents; rewrite Hp; reflexivity).
    rewrite Hnp, Nat.eqb_refl. cbn [negb].
    assert (Hnv : nvirt newn = nvirt oldn).
    { unfold nvirt. rewrite Hnp, Hc, map_length, HlX. reflexivity. }
    assert (Hno : nopen newn = nlegs oldn - nvirt oldn) by (unfold nopen; rewrite Hl, Hnv; reflexivity).
    rewrite Hnv, Hno.
    set (pre := if is_root newn then [] else [0]).
    set (q := pre ++ map (fun j => j + nparents oldn) cp ++ seq (nvirt oldn) (nlegs oldn - nvirt oldn)).
    assert (Hpre : permute 0 pre Lo = firstn (nparents oldn) Lo /\ (forall i, In i pre -> i < length Lo)).
    { unfold pre, is_root, nparents. rewrite Hp. destruct (parent oldn) as [pp|] eqn:Epp.
      - assert (1 <= nlegs oldn) by (unfold nvirt, nparents in Hv; rewrite Epp in Hv; nlia).
        destruct Lo as [|a L]; [cbn in HLo; nlia|]. split; [reflexivity|]. intros i [<-|[]]. cbn. nlia.
      - split; [reflexivity|intros i []]. }
    destruct Hpre as [Hpre Bpre].
    assert (Hmid : permute 0 (map (fun j => j + nparents oldn) cp) Lo = map fo X /\
                   (forall i, In i (map (fun j => j + nparents oldn) cp) -> i < length Lo)).
    { clear -Fcp HLo Hv. induction Fcp as [|x j X' cp' [E1 E2] F IH]; [split; [reflexivity|intros i []]|].
      destruct IH as [IH1 IH2]. split.
      - unfold permute in *. cbn [map]. f_equal; [exact E2|exact IH1].
      - intros i [<-|Hi]; [|apply IH2; exact Hi]. apply index_of_Some in E1. destruct E1 as [E1 _]. unfold nvirt in Hv. nlia. }
    destruct Hmid as [Hmid Bmid].
    assert (Hend : permute 0 (seq (nvirt oldn) (nlegs oldn - nvirt oldn)) Lo = skipn (nvirt oldn) Lo /\
                   (forall i, In i (seq (nvirt oldn) (nlegs oldn - nvirt oldn)) -> i < length Lo)).
    { split.
      - unfold permute. rewrite map_nth_seq by nlia. apply firstn_all2. rewrite skipn_length. nlia.
      - intros i Hi. apply in_seq in Hi. nlia. }
    destruct Hend as [Hend Bend].
    assert (Hq : permute 0 q Lo = firstn (nparents oldn) Lo ++ map fo X ++ skipn (nvirt oldn) Lo).
    { unfold q. rewrite !sp_permute_app, Hpre, Hmid, Hend. reflexivity. }
    assert (Bq : forall i, In i q -> i < length Lo).
    { intros i Hi. unfold q in Hi. apply in_app_or in Hi. destruct Hi as [Hi|Hi]; [apply Bpre; exact Hi|].
      apply in_app_or in Hi. destruct Hi as [Hi|Hi]; [apply Bmid; exact Hi|apply Bend; exact Hi]. }
    fold pre. fold q.
    unfold node_replace_tensor. rewrite Hot.
    assert (C1 : forallb (fun i => Nat.ltb i (length (map (wdim g) Lo))) q = true).
    { apply forallb_forall. intros i Hi. apply Nat.ltb_lt. rewrite map_length. apply Bq. exact Hi. }
    assert (C2 : list_eqb (permute 0 q (map (wdim g) Lo)) (node_shape newn) = true).
    { apply list_eqb_eq. rewrite (permute_map (wdim g) 0 0 q Lo Bq), Hshape. f_equal. exact Hq. }
    rewrite C1, C2. cbn [andb].
    eexists. eexists. exists ot. split; [reflexivity|].
    cbn [nodes tensors upd_tensors upd_nodes parent children shape root dims next_wire defs next_atom].
    split; [reflexivity|]. split; [reflexivity|]. split; [reflexivity|]. split; [exact Hc|].
    split; [rewrite Hot; reflexivity|]. split; [unfold laxes; cbn [perm]; rewrite Hot; exact Hq|].
    split; [reflexivity|]. split; [reflexivity|]. split; [reflexivity|]. split; [reflexivity|]. split; [reflexivity|].
    cbn [perm]. rewrite Hot. exact Bq.
  Qed.
End Pull.

(* ==== part 5 ==== *)

(* ---- the new basis tensor is accepted ------------------------------------------------------------------------------ *)
Lemma wdim_snoc_new g g' d : dims_ok g -> dims g' = dims g ++ [(next_wire g, d)] -> wdim g' (next_wire g) = d.
Proof.
  intros D Hd. unfold wdim. rewrite Hd, aget_app.
  assert (Hn : aget (next_wire g) (dims g) = None).
  { apply aget_None. intros Hin. pose proof (D _ Hin). lia. }
  rewrite Hn. cbn. rewrite Nat.eqb_refl. reflexivity.
Qed.

Lemma dims_ok_snoc g g' d : dims_ok g -> dims g' = dims g ++ [(next_wire g, d)] -> next_wire g' = S (next_wire g) -> dims_ok g'.
Proof.
  intros D Hd Hw w Hin. unfold akeys in Hin. rewrite Hd, map_app in Hin. apply in_app_or in Hin. destruct Hin as [Hin|[<-|[]]].
  - pose proof (D w Hin). lia.
  - cbn. lia.
Qed.

Lemma dims_ok_same g g' : dims_ok g -> dims g' = dims g -> next_wire g <= next_wire g' -> dims_ok g'.
Proof. intros D Hd Hw w Hin. rewrite Hd in Hin. pose proof (D w Hin). lia. Qed.

Lemma perm_seq1_0 k : Permutation (seq 1 k ++ [0]) (seq 0 (S k)).
Proof. cbn [seq]. symmetry. apply Permutation_cons_append. Qed.

Lemma new_basis_some fixed g nd oldt u :
  parent nd <> None -> length (axes u) = nlegs nd -> nvirt nd <= nlegs nd -> axes oldt = axes u ->
  dims_ok g -> (forall w, In w (axes u) -> w < next_wire g) ->
  exists g' newb nw, new_basis fixed g nd oldt u = Some (g', newb) /\ axes newb = nw :: tl (axes u) /\
    dims_ok g' /\ nw < next_wire g' /\ nodes g' = nodes g /\ tensors g' = tensors g /\ grows g g'.
Proof.
  intros Hpar Hlen Hv Hold Hdok Hwires. unfold new_basis.
  assert (Hr : is_root nd = false) by (unfold is_root; destruct (parent nd); [reflexivity|congruence]).
  rewrite Hr.
  assert (Hnp : nparents nd = 1) by (unfold nparents; destruct (parent nd); [reflexivity|congruence]).
  assert (Hql : seq (nparents nd) (length (children nd)) ++ seq (nvirt nd) (nopen nd) = seq 1 (nlegs nd - 1)).
  { unfold nopen, nvirt in *. rewrite Hnp in *. rewrite <- seq_app. f_equal. lia. }
  rewrite Hql.
  assert (HS : nlegs nd = S (nlegs nd - 1)) by (unfold nvirt in Hv; rewrite Hnp in Hv; lia).
  destruct fixed.
  - destruct (qr_kernel_some g u (seq 1 (nlegs nd - 1)) [0] Keep) as (g1 & q & r & Eq).
    { rewrite Hlen, HS at 1. replace (S (nlegs nd - 1) - 1) with (nlegs nd - 1) by lia. rewrite HS at 2. apply perm_seq1_0. }
    { intros _. discriminate. }
    rewrite Eq.
    destruct (qr_kernel_effect _ _ _ _ _ _ _ _ Eq) as (N & T & _ & Gr & Hq & _ & Hd & Hnw & _).
    rewrite (permute_seq1_tl 0 (axes u) (nlegs nd - 1)) in Hq, Hd by (transitivity (nlegs nd); [exact Hlen|exact HS]).
    assert (Hs : map (wdim g1) (axes (last_leg_first q)) = map (wdim g1) (axes u)).
    { rewrite Hq, last_leg_first_axes. destruct (axes u) as [|a0 ta] eqn:Eu; [cbn in Hlen; lia|]. cbn [tl map]. f_equal.
      rewrite (wdim_snoc_new g g1 _ Hdok Hd). unfold qr_bond_dim, permute. cbn [map prod_list fold_right nth].
      rewrite Nat.mul_1_r. symmetry. apply (gr_wdim _ _ Gr). apply Hwires. left. reflexivity. }
    rewrite (proj2 (list_eqb_eq _ _) Hs). eexists. eexists. exists (next_wire g). split; [reflexivity|].
    split; [rewrite Hq; apply last_leg_first_axes|]. split; [apply (dims_ok_snoc g g1 _ Hdok Hd Hnw)|].
    split; [lia|]. auto.
  - destruct (concat_axis_some g 0 oldt u) as (g1 & cc & Ec).
    { rewrite Hold. reflexivity. }
    { rewrite Hold, Hlen. lia. }
    { rewrite Hold. reflexivity. }
    rewrite Ec.
    destruct (concat_axis_effect _ _ _ _ _ _ Ec) as (N1 & T1 & _ & Gr1 & Hcc & Hd1 & Hnw1 & _).
    assert (Hlcc : length (axes cc) = S (nlegs nd - 1)).
    { rewrite Hcc. cbn [axes]. rewrite set_nth_length, Hold, Hlen. exact HS. }
    destruct (qr_kernel_some g1 cc (seq 1 (nlegs nd - 1)) [0] Reduced) as (g2 & q & r & Eq).
    { rewrite Hlcc. apply perm_seq1_0. }
    { discriminate. }
    rewrite Eq.
    destruct (qr_kernel_effect _ _ _ _ _ _ _ _ Eq) as (N & T & _ & Gr & Hq & _ & Hd & Hnw & _).
    rewrite (permute_seq1_tl 0 (axes cc) (nlegs nd - 1) Hlcc) in Hq.
    assert (Eax : tl (axes cc) = tl (axes u)).
    { rewrite Hcc, Hold. cbn [axes]. destruct (axes u); reflexivity. }
    eexists. eexists. exists (next_wire g1). split; [reflexivity|].
    split; [rewrite Hq, last_leg_first_axes; f_equal; exact Eax|].
    split; [apply (dims_ok_snoc g1 g2 _ (dims_ok_snoc g g1 _ Hdok Hd1 Hnw1) Hd Hnw)|].
    split; [lia|]. split; [congruence|]. split; [congruence|]. eapply grows_trans; eauto.
Qed.

(* ---- basis-change atom, split_node_replace and the final read are accepted ---------------------------------------- *)
Section BcSplit.
  Variable bcoff : nat.
  Notation bc := (bcid bcoff).

  Lemma bc_split_some g n p wold newb nw rest nd0 t0 pn :
    aget n (nodes g) = Some nd0 -> aget n (tensors g) = Some t0 -> parent nd0 = Some p ->
    NoDup (children nd0) -> ~ In p (children nd0) -> nvirt nd0 <= nlegs nd0 ->
    axes newb = nw :: rest ->
    wdim g wold :: map (wdim g) rest = map (wdim g) (laxes nd0 t0) ->
    bc n <> n -> bc n <> p -> n <> p -> aget p (nodes g) = Some pn -> In n (children pn) -> parent pn <> Some n ->
    (forall x, In x (children nd0) -> x <> bc n /\ x <> n /\ exists xn, aget x (nodes g) = Some xn /\ parent xn = Some n) ->
    NoDup (akeys (tensors g)) -> NoDup (akeys (nodes g)) -> aget (bc n) (nodes g) = None ->
    forall g5 m, bc_atom g wold nw = (g5, m) ->
    exists g6 g7 on2,
      split_replace g5 n {| ls_parent := Some p; ls_children := []; ls_open := []; ls_root := false |}
                         {| ls_parent := None; ls_children := children nd0; ls_open := seq (nvirt nd0) (nopen nd0); ls_root := false |}
                         (bc n) n m newb = Some g6 /\
      option_map (fun r => fst (fst r)) (access g6 n) = Some g7 /\
      aget (bc n) (nodes g7) = Some on2 /\ perm on2 = [0; 1] /\ aget (bc n) (tensors g7) = Some m /\ axes m = [wold; nw] /\
      NoDup (akeys (tensors g7)) /\ dims g7 = dims g /\ next_wire g7 = next_wire g.
  Proof.
    intros En Et Hp Hnd HpX Hv Hax Hsh Hbn Hbp Hnp Ep Hin Hpn HX Htnd Hnnd Eb g5 m Ebc.
    destruct (bc_atom_effect _ _ _ _ _ Ebc) as (N5 & T5 & R5 & Gr5 & Hm & D5 & W5).
    assert (Hwd : forall w, wdim g5 w = wdim g w) by (intros w; unfold wdim; rewrite D5; reflexivity).
    destruct (split_replace_some g5 n p (bc n) m newb nd0 t0 pn (wdim g5 wold) (wdim g5 nw)) as (g6 & on2 & E6 & Eon2 & Pon2 & T6); auto.
    - rewrite N5. exact En.
    - rewrite T5. exact Et.
    - rewrite Hm. reflexivity.
    - rewrite Hax. cbn [map tl]. rewrite Hwd. rewrite (map_ext (wdim g5) (wdim g) Hwd), Hsh. apply map_ext. intros w. symmetry. apply Hwd.
    - rewrite Hax. reflexivity.
    - rewrite Hax. discriminate.
    - rewrite N5. exact Ep.
    - intros x Hx. destruct (HX x Hx) as (X1 & X2 & xn & Ex & Px). split; [exact X1|]. split; [exact X2|]. exists xn. rewrite N5. auto.
    - rewrite <- N5 in Hnnd, En, Ep, Eb.
      destruct (split_replace_bug g5 n p (bc n) (children nd0) _ m newb g6 nd0 pn Hnnd En Hp eq_refl Ep Hpn Eb Hnp E6)
        as (in2 & on2' & S1 & _ & _ & _ & _ & _ & _ & _ & _ & _ & _ & S11 & _ & _ & S14 & S15 & _).
      assert (A1 : aget n (nodes g6) = Some in2) by (rewrite S1, (eqb_false n p), Nat.eqb_refl by exact Hnp; reflexivity).
      assert (A2 : aget n (tensors g6) = Some newb) by (rewrite S11, Nat.eqb_refl; reflexivity).
      exists g6. eexists. exists on2. split; [exact E6|]. split; [unfold access; rewrite A1, A2; reflexivity|].
      cbn [fst upd_tensors upd_nodes nodes tensors dims next_wire].
      split; [rewrite aget_aset_other by exact Hbn; exact Eon2|]. split; [exact Pon2|].
      split.
      { rewrite aget_aset_other by exact Hbn. rewrite S11, (eqb_false (bc n) n), Nat.eqb_refl by exact Hbn. reflexivity. }
      split; [rewrite Hm; reflexivity|].
      split; [apply NoDup_akeys_aset; rewrite T6; repeat apply NoDup_akeys_aset; rewrite T5; exact Htnd|].
      split; [rewrite S14; exact D5|rewrite S15; exact W5].
  Qed.
End BcSplit.

(* ==== part 6 ==== *)

(* a leaf with one open leg: two logical axes *)
Lemma leaf_lax2 s k nk p : wf s -> aget k (nodes s) = Some nk -> parent nk = Some p -> children nk = [] -> nopen nk = 1 ->
  exists w o, lax s k nk = [w; o] /\ open_of nk (tens s k) = [o] /\ nvirt nk = 1 /\ nlegs nk = 2.
Proof.
  intros W E Hp Hc Ho. pose proof (ni_virt _ _ _ (wf_node s W k nk E)) as Hv.
  assert (Hnv : nvirt nk = 1) by (unfold nvirt, nparents; rewrite Hp, Hc; reflexivity).
  assert (Hl : nlegs nk = 2) by (unfold nopen in Ho; lia).
  pose proof (laxes_length nk (tens s k)) as HL. fold (lax s k nk) in HL. rewrite Hl in HL.
  unfold open_of. fold (lax s k nk). rewrite Hnv.
  destruct (lax s k nk) as [|w [|o [|z l]]]; try discriminate. exists w, o. auto.
Qed.

Lemma dims_kept_nopen A B k na nb : dims_kept A B -> aget k (nodes A) = Some na -> aget k (nodes B) = Some nb -> nopen nb = nopen na.
Proof.
  intros [D _] Ea Eb. pose proof (D k na nb Ea Eb) as H. apply (f_equal (@length nat)) in H. rewrite !map_length, !open_of_length in H. exact H.
Qed.

Section LeafKernel.
  Variable fixed : bool.

  Lemma leaf_kernel_some g1 oldb u wp op wc oc :
    axes oldb = [wp; op] -> axes u = [wc; oc] -> dims_ok g1 -> wdim g1 op = wdim g1 oc ->
    exists g3 q r x1 b,
      (if fixed then qr_kernel g1 u [1] [0] Keep
       else match concat_axis g1 0 oldb u with
            | Some (g2, cc) => qr_kernel g2 cc [1] [0] Reduced
            | None => None
            end) = Some (g3, q, r) /\
      axes q = [x1; b] /\ (x1 = oc \/ x1 = op) /\ nodes g3 = nodes g1 /\ tensors g3 = tensors g1 /\ grows g1 g3 /\ dims_ok g3 /\
      b < next_wire g3 /\ next_wire g1 <= b.
  Proof.
    intros Ho Hu D Hd. destruct fixed.
    - destruct (qr_kernel_some g1 u [1] [0] Keep) as (g3 & q & r & Eq).
      { rewrite Hu. cbn. apply perm_swap. }
      { intros _. discriminate. }
      destruct (qr_kernel_effect _ _ _ _ _ _ _ _ Eq) as (N & T & _ & Gr & Hq & _ & Hdm & Hnw & _).
      exists g3, q, r, oc, (next_wire g1). split; [exact Eq|]. split; [rewrite Hq, Hu; reflexivity|].
      split; [left; reflexivity|]. split; [exact N|]. split; [exact T|]. split; [exact Gr|].
      split; [apply (dims_ok_snoc g1 g3 _ D Hdm Hnw)|]. lia.
    - destruct (concat_axis_some g1 0 oldb u) as (g2 & cc & Ec).
      { rewrite Ho, Hu. reflexivity. }
      { rewrite Ho. cbn. lia. }
      { rewrite Ho, Hu. cbn. rewrite Hd. reflexivity. }
      rewrite Ec.
      destruct (concat_axis_effect _ _ _ _ _ _ Ec) as (N2 & T2 & _ & Gr2 & Hcc & Hd2 & Hnw2 & _).
      destruct (qr_kernel_some g2 cc [1] [0] Reduced) as (g3 & q & r & Eq).
      { rewrite Hcc, Ho. cbn. apply perm_swap. }
      { discriminate. }
      destruct (qr_kernel_effect _ _ _ _ _ _ _ _ Eq) as (N & T & _ & Gr & Hq & _ & Hdm & Hnw & _).
      exists g3, q, r, op, (next_wire g2). split; [exact Eq|]. split; [rewrite Hq, Hcc, Ho; reflexivity|].
      split; [right; reflexivity|]. split; [congruence|]. split; [congruence|]. split; [eapply grows_trans; eauto|].
      split; [apply (dims_ok_snoc g2 g3 _ (dims_ok_snoc g1 g2 _ D Hd2 Hnw2) Hdm Hnw)|]. lia.
  Qed.
End LeafKernel.

Section Leaf.
  Variables (fixed : bool) (bcoff : nat).
  Notation bc := (bcid bcoff).

  Lemma update_leaf_some n p g cv pv V0 n0 pn :
    wf (focus g V0) -> wf (focus g pv) -> wf (focus g cv) ->
    same_tree (vnodes V0) (vnodes pv) -> same_tree (vnodes pv) (vnodes cv) ->
    dims_kept (focus g V0) (focus g pv) -> dims_kept (focus g pv) (focus g cv) ->
    aget n (nodes g) = aget n (vnodes V0) -> aget n (tensors g) = aget n (vtensors V0) ->
    aget n (vnodes V0) = Some n0 -> parent n0 = Some p -> children n0 = [] -> nopen n0 = 1 ->
    NoDup (akeys (nodes g)) -> NoDup (akeys (tensors g)) ->
    aget p (nodes g) = Some pn -> In n (children pn) -> parent pn <> Some n -> aget (bc n) (nodes g) = None -> n <> p -> bc n <> p ->
    exists g' bn tb w',
      update_leaf fixed bcoff n g cv pv = Some g' /\
      aget (bc n) (nodes g') = Some bn /\ aget (bc n) (tensors g') = Some tb /\
      laxes bn tb = [ew (focus g pv) n; w'] /\ w' < next_wire g' /\ dims_ok g' /\ NoDup (akeys (tensors g')).
  Proof.
    intros W0 Wp Wc S0p Spc D0p Dpc Hng Htg E0 P0 C0 O0 Hnd Htnd Ep Hin Hpn Eb Hnp Hbp.
    assert (Hbn : bc n <> n) by (intros E; rewrite E in Eb; rewrite Hng, E0 in Eb; discriminate).
    (* the three records of n *)
    destruct (same_tree_some _ _ _ _ S0p E0) as (on & Eon & Pon & Con).
    destruct (same_tree_some _ _ _ _ Spc Eon) as (cn & Ecn & Pcn & Ccn).
    assert (Cc_on : children on = []) by (apply Permutation_nil; rewrite <- C0; exact Con).
    assert (Cc_cn : children cn = []) by (apply Permutation_nil; rewrite <- Cc_on; exact Ccn).
    assert (Pp_on : parent on = Some p) by congruence.
    assert (Pp_cn : parent cn = Some p) by congruence.
    assert (Oon : nopen on = 1) by (rewrite (dims_kept_nopen _ _ n n0 on D0p E0 Eon); exact O0).
    assert (Ocn : nopen cn = 1) by (rewrite (dims_kept_nopen _ _ n on cn Dpc Eon Ecn); exact Oon).
    destruct (leaf_lax2 (focus g V0) n n0 p W0 E0 P0 C0 O0) as (w0 & o0 & L0 & Op0 & Nv0 & Nl0).
    destruct (leaf_lax2 (focus g pv) n on p Wp Eon Pp_on Cc_on Oon) as (wp & op & Lp & Opp & Nvp & Nlp).
    destruct (leaf_lax2 (focus g cv) n cn p Wc Ecn Pp_cn Cc_cn Ocn) as (wc & oc & Lc & Opc & Nvc & Nlc).
    (* dimensions *)
    destruct D0p as [D0p1 D0p2]. destruct Dpc as [Dpc1 Dpc2].
    pose proof (D0p1 n n0 on E0 Eon) as Q1. rewrite Op0, Opp in Q1. cbn [map] in Q1. injection Q1 as Q1.
    pose proof (D0p2 n n0 on E0 Eon ltac:(congruence)) as Q2. rewrite L0, Lp in Q2. cbn [nth] in Q2.
    pose proof (Dpc1 n on cn Eon Ecn) as Q3. rewrite Opp, Opc in Q3. cbn [map] in Q3. injection Q3 as Q3.
    rewrite !wdim_focus in Q1, Q2, Q3.
    (* wires *)
    assert (B0 : w0 < next_wire g /\ o0 < next_wire g).
    { split; [apply (lax_wires (focus g V0) n n0 w0 W0 E0)|apply (lax_wires (focus g V0) n n0 o0 W0 E0)]; rewrite L0; cbn; auto. }
    assert (Bp : wp < next_wire g /\ op < next_wire g).
    { split; [apply (lax_wires (focus g pv) n on wp Wp Eon)|apply (lax_wires (focus g pv) n on op Wp Eon)]; rewrite Lp; cbn; auto. }
    assert (Bc : wc < next_wire g /\ oc < next_wire g).
    { split; [apply (lax_wires (focus g cv) n cn wc Wc Ecn)|apply (lax_wires (focus g cv) n cn oc Wc Ecn)]; rewrite Lc; cbn; auto. }
    (* the tensors *)
    pose proof (wf_tens (focus g cv) n cn Wc Ecn) as Tcn.
    pose proof (wf_tens (focus g pv) n on Wp Eon) as Ton.
    pose proof (wf_tens (focus g V0) n n0 W0 E0) as Tn0.
    unfold update_leaf.
    destruct (evolve_some (focus g cv) n cn _ Ecn Tcn) as (s1 & u & Eev). rewrite Eev.
    destruct (evolve_effect _ _ _ _ Eev) as (cnd & ct & V1 & V2 & V3 & V4 & V5 & V6 & V7 & V8 & V9).
    cbn [focus nodes tensors] in V1, V2, Tcn.
    rewrite Ecn in V1. injection V1 as <-. rewrite Tcn in V2. injection V2 as <-.
    assert (Hu : axes u = [wc; oc]) by (rewrite V5; exact Lc).
    unfold vlogical. cbn [focus nodes tensors] in Eon, Ton. rewrite Eon, Ton.
    set (oldb := s_transpose (perm on) (tens (focus g pv) n)).
    assert (Ho : axes oldb = [wp; op]) by exact Lp.
    set (g1 := focus s1 (view_of g)).
    assert (Gr1 : grows g g1).
    { apply grows_focus_r. destruct V7 as [A1 A2 A3 A4]. constructor; assumption. }
    assert (Dk1 : dims_ok g1).
    { apply (dims_ok_same g g1 (wf_dims_ok g V0 W0)); [exact V8|unfold g1; cbn [focus next_wire]; rewrite V9; apply le_n]. }
    destruct (leaf_kernel_some fixed g1 oldb u wp op wc oc Ho Hu Dk1) as (g3 & q & r & x1 & b & Ek & Hq & Hx1 & N3 & T3 & Gr3 & Dk3 & Bb & Bb').
    { rewrite !(gr_wdim _ _ Gr1) by tauto. symmetry. exact Q3. }
    rewrite Ek.
    assert (Gr03 : grows g g3) by (eapply grows_trans; eauto).
    assert (Hwd : forall w, w < next_wire g -> wdim g3 w = wdim g w) by (intros w Hw; apply (gr_wdim _ _ Gr03 w Hw)).
    assert (Bx1 : x1 < next_wire g) by (destruct Hx1 as [-> | ->]; tauto).
    assert (Qx1 : wdim g x1 = wdim g o0) by (destruct Hx1 as [-> | ->]; congruence).
    assert (Hnb : axes (s_transpose [1; 0] q) = [b; x1]) by (cbn; rewrite Hq; reflexivity).
    rewrite Ho, Hnb. cbn [length nth Nat.eqb andb].
    rewrite !Hwd by tauto.
    assert (Qc : wdim g op = wdim g x1) by congruence.
    rewrite Qc, Nat.eqb_refl. cbn [negb].
    destruct (bc_atom g3 wp b) as [g4 m] eqn:Ebc.
    cbn [view_of vnodes]. rewrite V3. cbn [focus nodes]. rewrite aget_aset_same. cbn [reset_permutation parent]. rewrite Pp_cn.
    (* split_node_replace *)
    assert (N3' : nodes g3 = nodes g) by (rewrite N3; reflexivity).
    assert (T3' : tensors g3 = tensors g) by (rewrite T3; reflexivity).
    destruct (bc_split_some bcoff g3 n p wp (s_transpose [1; 0] q) b [x1] n0 (tens (focus g V0) n) pn) with (g5 := g4) (m := m)
      as (g6 & g7 & on2 & E6 & E7 & A1 & A2 & A3 & A4 & A5 & A6 & A7); auto.
    { rewrite N3', Hng. exact E0. }
    { rewrite T3', Htg. exact Tn0. }
    { rewrite C0. constructor. }
    { rewrite C0. intros []. }
    { rewrite Nv0, Nl0. lia. }
    { fold (lax (focus g V0) n n0). rewrite L0. cbn [map]. rewrite !Hwd by tauto. congruence. }
    { rewrite N3'. exact Ep. }
    { rewrite C0. intros x []. }
    { rewrite T3'. exact Htnd. }
    { rewrite N3'. exact Hnd. }
    { rewrite N3'. exact Eb. }
    rewrite C0, Nv0, O0 in E6. cbn [seq] in E6. rewrite E6, E7.
    exists g7, on2, m, b. split; [reflexivity|]. split; [exact A1|]. split; [exact A3|].
    split.
    { unfold laxes. rewrite A2, A4. unfold ew. cbn [focus nodes]. rewrite Eon.
      change (lax (focus g pv) n on) with (lax (focus g pv) n on). rewrite Lp. reflexivity. }
    split; [rewrite A7; exact Bb|]. split; [|exact A5].
    apply (dims_ok_same g3 g7 Dk3 A6). rewrite A7. apply le_n.
  Qed.
End Leaf.

(* ==== part 7 ==== *)

(* Node.shape = the dimensions of the logical axes *)
Lemma node_shape_lax' s k nk : wf s -> aget k (nodes s) = Some nk -> node_shape nk = map (wdim s) (lax s k nk).
Proof.
  intros W E. unfold node_shape, lax, laxes. rewrite (ni_shape _ _ _ (wf_node s W k nk E)).
  apply permute_map. intros i Hi. pose proof (wf_axes_length s k nk W E) as HL. pose proof (wf_node_wf s k nk W E) as Hwf.
  pose proof (nlegs_shape nk Hwf) as HS. destruct Hwf as [Hp _]. pose proof (perm_bound _ _ Hp i Hi) as Hb.
  unfold wire, id in *. lia.
Qed.

Lemma child_index_wire s k nk x : wf s -> aget k (nodes s) = Some nk -> In x (children nk) ->
  exists j, index_of x (children nk) = Some j /\ nth (j + nparents nk) (lax s k nk) 0 = ew s x.
Proof.
  intros W E Hx. destruct (index_of_In x (children nk) Hx) as [j Hj]. exists j. split; [exact Hj|].
  apply index_of_Some in Hj. destruct Hj as [Hj1 Hj2].
  destruct (sp_child_wire s k nk j W E Hj1) as (cn & Ec & _ & Hw). unfold id in *. rewrite Hj2 in Ec, Hw.
  unfold ew. rewrite Ec, Nat.add_comm. exact Hw.
Qed.

Lemma dk_child_dims A B k na x : wf A -> same_tree (nodes A) (nodes B) -> dims_kept A B ->
  aget k (nodes A) = Some na -> In x (children na) -> wdim B (ew B x) = wdim A (ew A x).
Proof.
  intros WA S [_ D2] Ea Hx. destruct (ni_ch _ _ _ (wf_node A WA k na Ea) x Hx) as (xa & Exa & Pxa).
  destruct (same_tree_some _ _ _ _ S Exa) as (xb & Exb & _). unfold ew. rewrite Exa, Exb.
  apply (D2 x xa xb Exa Exb). congruence.
Qed.

Lemma wdim_dims_eq g g' : dims g' = dims g -> forall w, wdim g' w = wdim g w.
Proof. intros H w. unfold wdim. rewrite H. reflexivity. Qed.

Lemma wf_nlegs s k nk : wf s -> aget k (nodes s) = Some nk -> nlegs nk = nvirt nk + nopen nk.
Proof. intros W E. pose proof (ni_virt _ _ _ (wf_node s W k nk E)). unfold nopen. lia. Qed.

Section NonLeaf.
  Variables (fixed : bool) (bcoff : nat).
  Notation bc := (bcid bcoff).

  Lemma NoDup_map_bc X : NoDup X -> NoDup (map bc X).
  Proof.
    intros H. apply FinFun.Injective_map_NoDup; [|exact H]. intros a b E. unfold bcid in E. lia.
  Qed.

  Lemma update_non_leaf_rest_some n p g cv pv V0 a pn (fn : id -> wire) :
    wf (focus g V0) -> wf (focus g pv) -> wf (focus g cv) ->
    same_tree (vnodes V0) (vnodes pv) -> same_tree (vnodes pv) (vnodes cv) ->
    dims_kept (focus g V0) (focus g pv) -> dims_kept (focus g pv) (focus g cv) ->
    aget n (vnodes V0) = Some a -> parent a = Some p ->
    aget n (nodes g) = Some (with_children a (map bc (children a))) ->
    NoDup (akeys (nodes g)) -> NoDup (akeys (tensors g)) ->
    (forall x, In x (children a) -> exists bn tb, aget (bc x) (nodes g) = Some bn /\ aget (bc x) (tensors g) = Some tb /\
                         parent bn = Some n /\ children bn = [x] /\ laxes bn tb = [ew (focus g cv) x; fn x] /\ fn x < next_wire g) ->
    (forall x, In x (children a) -> exists xn, aget x (nodes g) = Some xn) ->
    aget p (nodes g) = Some pn -> In n (children pn) -> parent pn <> Some n -> aget (bc n) (nodes g) = None ->
    n <> p -> bc n <> p -> bc n <> n ->
    ~ In n (children a) -> ~ In n (map bc (children a)) -> (forall x x', In x (children a) -> In x' (children a) -> bc x' <> x) ->
    ~ In p (children a) -> ~ In p (map bc (children a)) -> ~ In (bc n) (children a) ->
    exists g' bn tb w',
      update_non_leaf_rest fixed bcoff n g cv pv = Some g' /\
      aget (bc n) (nodes g') = Some bn /\ aget (bc n) (tensors g') = Some tb /\
      laxes bn tb = [ew (focus g pv) n; w'] /\ w' < next_wire g' /\ dims_ok g' /\ NoDup (akeys (tensors g')).
  Proof.
    intros W0 Wp Wc S0p Spc D0p Dpc E0 P0 Eng Hnd Htnd Hb Hxs Ep Hin Hpn Eb Hnp Hbp Hbn A1 A2 A3 A5 A6 A7.
    set (X := children a) in *.
    pose proof (ni_chnd _ _ _ (wf_node _ W0 n a E0)) as NdX. fold X in NdX.
    (* the records of n in the three states *)
    destruct (same_tree_some _ _ _ _ S0p E0) as (on & Eon & Pon & Con).
    destruct (same_tree_some _ _ _ _ Spc Eon) as (cn & Ecn & Pcn & Ccn).
    assert (Pp_on : parent on = Some p) by congruence.
    assert (Pp_cn : parent cn = Some p) by congruence.
    assert (PermX : Permutation X (children cn)) by (unfold X; rewrite Con; exact Ccn).
    pose proof (same_tree_trans _ _ _ S0p Spc) as S0c.
    pose proof (dims_kept_trans (focus g V0) (focus g pv) (focus g cv) S0p D0p Dpc) as D0c.
    pose proof (wf_tens (focus g cv) n cn Wc Ecn) as Tcn.
    pose proof (wf_tens (focus g pv) n on Wp Eon) as Ton.
    set (Lc := lax (focus g cv) n cn). set (L0 := lax (focus g V0) n a). set (Lp := lax (focus g pv) n on).
    assert (Np0 : nparents a = 1) by (unfold nparents; rewrite P0; reflexivity).
    assert (Npc : nparents cn = 1) by (unfold nparents; rewrite Pp_cn; reflexivity).
    assert (Npp : nparents on = 1) by (unfold nparents; rewrite Pp_on; reflexivity).
    pose proof (ni_virt _ _ _ (wf_node _ W0 n a E0)) as Va.
    pose proof (ni_virt _ _ _ (wf_node _ Wc n cn Ecn)) as Vc.
    pose proof (ni_virt _ _ _ (wf_node _ Wp n on Eon)) as Vp.
    assert (HlX : length X = length (children cn)) by (apply Permutation_length; exact PermX).
    assert (Nvc : nvirt cn = nvirt a) by (unfold nvirt; rewrite Npc, Np0, <- HlX; reflexivity).
    assert (Noc : nopen cn = nopen a) by (apply (dims_kept_nopen _ _ n a cn D0c E0 Ecn)).
    assert (Nlc : nlegs cn = nlegs a).
    { rewrite (wf_nlegs _ n cn Wc Ecn), (wf_nlegs _ n a W0 E0), Nvc, Noc. reflexivity. }
    assert (HLc : length Lc = nlegs cn) by apply laxes_length.
    assert (HL0 : length L0 = nlegs a) by apply laxes_length.
    assert (HLp : length Lp = nlegs on) by apply laxes_length.
    assert (Hc1 : 1 <= nlegs cn) by (unfold nvirt in Vc; lia).
    assert (Ha1 : 1 <= nlegs a) by (unfold nvirt in Va; lia).
    assert (Hp1 : 1 <= nlegs on) by (unfold nvirt in Vp; lia).
    destruct Lc as [|wc Lc'] eqn:ELc; [cbn in HLc; lia|].
    destruct L0 as [|w0 L0'] eqn:EL0; [cbn in HL0; lia|].
    destruct Lp as [|wp Lp'] eqn:ELp; [cbn in HLp; lia|].
    unfold Lc in ELc. unfold L0 in EL0. unfold Lp in ELp.
    assert (Hew : ew (focus g pv) n = wp).
    { unfold ew. change (nodes (focus g pv)) with (vnodes pv). rewrite Eon, ELp. reflexivity. }
    (* dimensions of the parent legs *)
    destruct D0c as [D0c1 D0c2]. destruct Dpc as [Dpc1 Dpc2].
    pose proof (D0c2 n a cn E0 Ecn ltac:(congruence)) as Q0c. rewrite ELc, EL0 in Q0c. cbn [nth] in Q0c.
    pose proof (Dpc2 n on cn Eon Ecn ltac:(congruence)) as Qpc. rewrite ELc, ELp in Qpc. cbn [nth] in Qpc.
    rewrite !wdim_focus in Q0c, Qpc.
    assert (Bwc : forall w, In w (wc :: Lc') -> w < next_wire g).
    { intros w Hw. apply (lax_wires (focus g cv) n cn w Wc Ecn). rewrite ELc. exact Hw. }
    assert (Bwp : wp < next_wire g).
    { apply (lax_wires (focus g pv) n on wp Wp Eon). rewrite ELp. left. reflexivity. }
    (* 1. pull_tensor_from_different_ttn *)
    assert (PT4 : parent (with_children a (map bc X)) = parent cn) by (cbn; congruence).
    assert (PT7 : nlegs (with_children a (map bc X)) = nlegs cn) by exact (eq_sym Nlc).
    assert (PT9 : forall x, In x X -> exists j, index_of x (children cn) = Some j /\
                    nth (j + nparents cn) (laxes cn (tens (focus g cv) n)) 0 = ew (focus g cv) x).
    { intros x Hx. apply (child_index_wire (focus g cv) n cn x Wc Ecn). apply (Permutation_in _ PermX Hx). }
    assert (PT10 : node_shape (with_children a (map bc X)) =
                   map (wdim g) (firstn (nparents cn) (laxes cn (tens (focus g cv) n)) ++ map (ew (focus g cv)) X ++
                                 skipn (nvirt cn) (laxes cn (tens (focus g cv) n)))).
    { change (node_shape (with_children a (map bc X))) with (node_shape a).
      rewrite (node_shape_lax' (focus g V0) n a W0 E0), (wf_lax_decomp (focus g V0) n a W0 E0).
      fold (lax (focus g cv) n cn). rewrite ELc, EL0, Np0, Npc. cbn [firstn app].
      cbn [map]. rewrite !map_app. rewrite !wdim_focus. f_equal; [symmetry; exact Q0c|]. f_equal.
      - rewrite !map_map. apply map_ext_in. intros x Hx. symmetry. apply (dk_child_dims (focus g V0) (focus g cv) n a x W0 S0c); auto.
        split; assumption.
      - rewrite <- (D0c1 n a cn E0 Ecn). unfold open_of. fold (lax (focus g cv) n cn). rewrite ELc. reflexivity. }
    destruct (pull_tensor_some bcoff g cv n cn (tens (focus g cv) n) (with_children a (map bc X)) X (ew (focus g cv))
                Ecn Tcn Eng PT4 eq_refl HlX PT7 Vc PT9 PT10)
      as (gA & nd' & ot & EA & NA & TA & PA & CA & SA & LA & RA & DA & WA & FA & AA & PbA).
    fold (lax (focus g cv) n cn) in LA. rewrite ELc, Npc in LA. cbn [firstn app] in LA.
    set (Oc := skipn (nvirt cn) (wc :: Lc')) in *.
    assert (HOc : forall w, In w Oc -> w < next_wire g).
    { intros w Hw. apply Bwc. unfold Oc in Hw. rewrite <- (firstn_skipn (nvirt cn) (wc :: Lc')). apply in_or_app. right. exact Hw. }
    assert (HwdA : forall w, wdim gA w = wdim g w) by (apply wdim_dims_eq; exact DA).
    assert (NdA : NoDup (akeys (nodes gA))) by (rewrite NA; apply NoDup_akeys_aset; exact Hnd).
    assert (TdA : NoDup (akeys (tensors gA))) by (rewrite TA; apply NoDup_akeys_aset; exact Htnd).
    assert (EnA : aget n (nodes gA) = Some nd') by (rewrite NA; apply aget_aset_same).
    assert (TnA : aget n (tensors gA) = Some ot) by (rewrite TA; apply aget_aset_same).
    assert (OthA : forall k, k <> n -> aget k (nodes gA) = aget k (nodes g) /\ aget k (tensors gA) = aget k (tensors g)).
    { intros k Hk. rewrite NA, TA, !aget_aset_other by exact Hk. auto. }
    (* 2. contract_all_children *)
    assert (HbA : forall x, In x X -> exists bn tb, aget (bc x) (nodes gA) = Some bn /\ aget (bc x) (tensors gA) = Some tb /\
                                       parent bn = Some n /\ children bn = [x] /\ laxes bn tb = [ew (focus g cv) x; fn x]).
    { intros x Hx. destruct (Hb x Hx) as (bn & tb & B1 & B2 & B3 & B4 & B5 & _). exists bn, tb.
      assert (K : bc x <> n) by (intros E; apply A2; rewrite <- E; apply in_map; exact Hx).
      destruct (OthA _ K) as [O1 O2]. rewrite O1, O2. auto. }
    assert (CB1 : laxes nd' ot = [wc] ++ map (ew (focus g cv)) X ++ [] ++ Oc) by (cbn [app]; exact LA).
    assert (CB2 : length [wc] = nparents nd') by (unfold nparents; rewrite PA; cbn; rewrite P0; reflexivity).
    assert (CB3 : children nd' = map bc X ++ []) by (rewrite app_nil_r; exact CA).
    assert (CB5 : NoDup (children nd')) by (rewrite CA; apply NoDup_map_bc; exact NdX).
    assert (CB6 : forall x, In x X -> parent nd' <> Some (bc x)).
    { intros x Hx. rewrite PA. cbn. rewrite P0. intros [= E]. apply A6. rewrite E. apply in_map. exact Hx. }
    assert (CB8 : shape nd' = map (wdim gA) (axes ot)) by (rewrite SA; apply map_ext; intros w; symmetry; apply HwdA).
    destruct (contract_all_bc bcoff n (ew (focus g cv)) fn X gA nd' ot [wc] [] Oc [] NdA TdA EnA TnA CB1 CB2 CB3 eq_refl CB5 CB6 A2 NdX A3
                (fun x _ H => H) CB8 PbA HbA) as (gB & nn' & tn' & EB & EnB & TnB & LB & CB & PB & TdB & SB & PbB).
    cbn [app] in LB, CB.
    assert (Pnn : parent nn' = Some p) by (rewrite PB, PA; cbn; exact P0).
    destruct (contract_fold bcoff n X gA gB nd' [] EB NdA NdX A1 A2 A3 EnA ltac:(rewrite app_nil_r; exact CA))
      as (nn2 & F1 & F2 & F3 & F4 & F5 & F6 & F7 & F8 & F9 & F10 & F11).
    { intros x Hx. destruct (HbA x Hx) as (bn & tb & B1 & _ & B3 & B4 & _). exists bn. auto. }
    rewrite EnB in F1. injection F1 as <-.
    unfold update_non_leaf_rest. rewrite EA. unfold contract_all_children. rewrite EnA, CA.
    change (children (with_children a (map bc X))) with (map bc X).
    change (fold_left _ (map bc X) (Some gA)) with (cfold n (map bc X) gA). rewrite EB.
    (* 3. time evolution *)
    destruct (evolve_some gB n nn' tn' EnB TnB) as (gC & u & Eev). rewrite Eev.
    destruct (evolve_effect _ _ _ _ Eev) as (nd2 & t2 & V1 & V2 & V3 & V4 & V5 & V6 & V7 & V8 & V9).
    rewrite EnB in V1. injection V1 as <-. rewrite TnB in V2. injection V2 as <-.
    rewrite V3, aget_aset_same, V4, aget_aset_same.
    unfold vlogical. cbn [focus nodes tensors] in Eon, Ton. rewrite Eon, Ton.
    set (nd := reset_permutation nn'). set (oldt := s_transpose (perm nn') tn').
    set (oldb := s_transpose (perm on) (tens (focus g pv) n)).
    assert (Hu : axes u = wc :: map fn X ++ Oc) by (rewrite V5; exact LB).
    assert (Hot : axes oldt = wc :: map fn X ++ Oc) by exact LB.
    assert (Hob : nth 0 (axes oldb) 0 = wp).
    { change (axes oldb) with (lax (focus g pv) n on). rewrite ELp. reflexivity. }
    assert (NwC : next_wire gC = next_wire g) by (rewrite V9, F10; exact WA).
    assert (DmC : dims gC = dims g) by (rewrite V8, F9; exact DA).
    assert (DkC : dims_ok gC).
    { apply (dims_ok_same g gC (wf_dims_ok g V0 W0) DmC). rewrite NwC. apply le_n. }
    assert (Lnd : nlegs nd = length (axes u)).
    { unfold nd. rewrite nlegs_reset, V5. cbn [axes]. symmetry. apply (laxes_length nn' tn'). }
    assert (Vnd : nvirt nd <= nlegs nd).
    { rewrite Lnd, Hu. unfold nvirt, nparents. cbn [nd reset_permutation parent children]. rewrite Pnn, CB.
      cbn [length]. rewrite app_length, map_length. lia. }
    (* 4. the new basis *)
    assert (NB1 : parent nd <> None) by (cbn; rewrite Pnn; discriminate).
    assert (NB4 : axes oldt = axes u) by congruence.
    assert (NB6 : forall w, In w (axes u) -> w < next_wire gC).
    { intros w Hw. rewrite Hu in Hw. rewrite NwC. destruct Hw as [<-|Hw]; [apply Bwc; left; reflexivity|].
      apply in_app_or in Hw. destruct Hw as [Hw|Hw]; [|apply HOc; exact Hw].
      apply in_map_iff in Hw. destruct Hw as (x & <- & Hx). destruct (Hb x Hx) as (bn & tb & _ & _ & _ & _ & _ & B6). exact B6. }
    destruct (new_basis_some fixed gC nd oldt u NB1 (eq_sym Lnd) Vnd NB4 DkC NB6) as (gD & newb & nw & Enb & Hnb & DkD & BnD & ND & TD & GrD).
    rewrite Enb. cbn [option_map]. rewrite Pp_on.
    rewrite Hob, Hnb. cbn [nth].
    destruct (bc_atom gD wp nw) as [gE m] eqn:Ebc.
    (* 5. split_node_replace *)
    assert (EnD : aget n (nodes gD) = Some nd) by (rewrite ND, V3; apply aget_aset_same).
    assert (TnD : aget n (tensors gD) = Some oldt) by (rewrite TD, V4; apply aget_aset_same).
    assert (OthD : forall k, k <> n -> aget k (nodes gD) = aget k (nodes gB)) by (intros k Hk; rewrite ND, V3, aget_aset_other by exact Hk; reflexivity).
    assert (GrgD : forall w, w < next_wire g -> wdim gD w = wdim g w).
    { intros w Hw. rewrite (gr_wdim _ _ GrD) by (rewrite NwC; exact Hw). apply wdim_dims_eq. exact DmC. }
    assert (BS3 : parent nd = Some p) by (cbn; exact Pnn).
    assert (BS4 : NoDup (children nd)) by (cbn; rewrite CB; exact NdX).
    assert (BS5 : ~ In p (children nd)) by (cbn; rewrite CB; exact A5).
    assert (BS8 : wdim gD wp :: map (wdim gD) (tl (axes u)) = map (wdim gD) (laxes nd oldt)).
    { unfold nd, oldt. rewrite access_laxes, LB, Hu. cbn [tl map]. f_equal.
      rewrite !GrgD; [symmetry; exact Qpc|apply Bwc; left; reflexivity|exact Bwp]. }
    assert (BS12 : aget p (nodes gD) = Some pn).
    { rewrite OthD by congruence. rewrite F5 by auto. destruct (OthA p ltac:(congruence)) as [O1 _]. rewrite O1. exact Ep. }
    assert (BS15 : forall x, In x (children nd) -> x <> bc n /\ x <> n /\ exists xn, aget x (nodes gD) = Some xn /\ parent xn = Some n).
    { intros x Hx. cbn [nd reset_permutation children] in Hx. rewrite CB in Hx.
      assert (Kxn : x <> n) by (intros ->; contradiction).
      split; [intros ->; contradiction|]. split; [exact Kxn|].
      destruct (Hxs x Hx) as (xn & Exn). exists (with_parent xn (Some n)).
      rewrite OthD by exact Kxn. destruct (F4 x Hx) as [_ F4b]. rewrite F4b.
      destruct (OthA x Kxn) as [O1 _]. rewrite O1, Exn. cbn. auto. }
    assert (BS16 : NoDup (akeys (tensors gD))) by (rewrite TD, V4; apply NoDup_akeys_aset; exact TdB).
    assert (BS17 : NoDup (akeys (nodes gD))) by (rewrite ND, V3; apply NoDup_akeys_aset; exact F6).
    assert (BS18 : aget (bc n) (nodes gD) = None).
    { rewrite OthD by exact Hbn. rewrite F5; [|exact Hbn|exact A7|].
      - destruct (OthA (bc n) Hbn) as [O1 _]. rewrite O1. exact Eb.
      - intros Hc. apply in_map_iff in Hc. destruct Hc as (z & Ez & Hz). unfold bcid in Ez. assert (z = n) by lia. subst z. contradiction. }
    destruct (bc_split_some bcoff gD n p wp newb nw (tl (axes u)) nd oldt pn EnD TnD BS3 BS4 BS5 Vnd Hnb BS8 Hbn Hbp Hnp BS12 Hin Hpn
                BS15 BS16 BS17 BS18 gE m Ebc) as (g6 & g7 & on2 & E6 & E7 & B1 & B2 & B3 & B4 & B5 & B6 & B7).
    change (parent nd) with (parent nn'). rewrite Pnn. rewrite E6, E7.
    exists g7, on2, m, nw. split; [reflexivity|]. split; [exact B1|]. split; [exact B3|].
    split.
    { unfold laxes. rewrite B2, B4, Hew. reflexivity. }
    split; [rewrite B7; exact BnD|]. split; [|exact B5].
    apply (dims_ok_same gD g7 DkD B6). rewrite B7. apply le_n.
  Qed.
End NonLeaf.

(* ==== part 8 ==== *)

Lemma perm_ofb_complete a b : Permutation a b -> NoDup a -> perm_ofb a b = true.
Proof.
  intros P N. unfold perm_ofb. rewrite !andb_true_iff. split; [split|].
  - apply Nat.eqb_eq. apply Permutation_length. exact P.
  - apply nodupb_NoDup. exact N.
  - apply forallb_forall. intros x Hx. apply memb_In. apply (Permutation_in _ P Hx).
Qed.

Section Main.
  Variables (fixed : bool) (bcoff : nat) (tmp : id).
  Notation bc := (bcid bcoff).
  Notation rid := RTree.rid.

  (* every leaf below the root has exactly one open leg (update_leaf_node: QR legs (1,), (0,), `.T`) *)
  Definition leaves_ok (V : view) : Prop :=
    forall k nd, aget k (vnodes V) = Some nd -> parent nd <> None -> children nd = [] -> nopen nd = 1.

  (* a node the recursion has not reached yet: new_state still holds the caller's record and tensor *)
  Definition unproc (g : store) (V0 : view) (k : id) : Prop :=
    aget k (nodes g) = aget k (vnodes V0) /\ aget k (tensors g) = aget k (vtensors V0).

  Record ctx (g : store) (V0 pv : view) : Prop := {
    cx_w0 : wf (focus g V0);
    cx_wp : wf (focus g pv);
    cx_st : same_tree (vnodes V0) (vnodes pv);
    cx_dk : dims_kept (focus g V0) (focus g pv);
    cx_lv : leaves_ok V0;
    cx_fr : bc_fresh bcoff (vnodes V0);
    cx_nd : NoDup (akeys (nodes g));
    cx_tnd : NoDup (akeys (tensors g));
    cx_tmp : aget tmp (vnodes pv) = None
  }.

  Record xpost (pv : view) (n : id) (g g' : store) : Prop := {
    xp_bc : exists bn tb w', aget (bc n) (nodes g') = Some bn /\ aget (bc n) (tensors g') = Some tb /\
               laxes bn tb = [ew (focus g pv) n; w'] /\ w' < next_wire g';
    xp_tnd : NoDup (akeys (tensors g'));
    xp_dims : dims_ok g'
  }.

  Definition A (t : rtree) : Prop := forall g pv V0 p pn,
    ctx g V0 pv -> tree_of (vnodes V0) t -> NoDup (ids t) ->
    (exists n0, aget (rid t) (vnodes V0) = Some n0 /\ parent n0 = Some p) ->
    ~ In p (ids t) -> In p (akeys (vnodes V0)) ->
    (forall k, In k (ids t) -> unproc g V0 k) ->
    (forall k, In k (ids t) -> aget (bc k) (nodes g) = None) ->
    aget p (nodes g) = Some pn -> In (rid t) (children pn) -> parent pn <> Some (rid t) ->
    exists g', update_node fixed bcoff tmp t g pv (Some p) = Some g' /\ xpost pv (rid t) g g'.

  Lemma ctx_grows g g' V0 pv : ctx g V0 pv -> grows g g' -> dims_ok g' ->
    NoDup (akeys (nodes g')) -> NoDup (akeys (tensors g')) -> ctx g' V0 pv.
  Proof.
    intros [W0 Wp S D L F N T M] G Dk N' T'. constructor; auto.
    - apply (wf_focus_grows g g' V0 W0 G Dk).
    - apply (wf_focus_grows g g' pv Wp G Dk).
    - apply (dk_grows_r g g' pv (focus g' V0) Wp G S). apply (dk_grows_l g g' V0 (focus g pv) W0 G D).
  Qed.

  Lemma unproc_agree g V0 k b : unproc g V0 k -> aget k (vnodes V0) = Some b -> agree (nodes g) (vnodes V0) k.
  Proof. intros [U _] E. exists b, b. rewrite U. auto. Qed.

  Lemma ctx_tstruct g V0 pv : ctx g V0 pv -> tstruct (vnodes V0) /\ tstruct (vnodes pv).
  Proof. intros C. split; [apply (wf_tstruct _ (cx_w0 _ _ _ C))|apply (wf_tstruct _ (cx_wp _ _ _ C))]. Qed.

  (* the structural effect (Evo/BUGStoreProofs.v) under the premises of A *)
  Lemma A_effect t g pv V0 p pn g' :
    ctx g V0 pv -> tree_of (vnodes V0) t -> NoDup (ids t) ->
    (exists n0, aget (rid t) (vnodes V0) = Some n0 /\ parent n0 = Some p) ->
    ~ In p (ids t) -> In p (akeys (vnodes V0)) ->
    (forall k, In k (ids t) -> unproc g V0 k) ->
    (forall k, In k (ids t) -> aget (bc k) (nodes g) = None) ->
    aget p (nodes g) = Some pn -> parent pn <> Some (rid t) ->
    update_node fixed bcoff tmp t g pv (Some p) = Some g' ->
    node_effect bcoff (vnodes V0) t p pn g g'.
  Proof.
    intros C Tr Nd Hn0 Hp HpK Hun Hbc Ep Hpp E. destruct (ctx_tstruct _ _ _ C) as [T0 Tp].
    apply (update_node_effect fixed bcoff tmp t g pv (Some p) g' (vnodes V0) p pn E T0 (cx_fr _ _ _ C) Tr Nd Hn0 Hp HpK (cx_nd _ _ _ C)); auto.
    - intros k Hk. destruct (tree_of_keys _ _ Tr k Hk) as [b Eb]. apply (unproc_agree g V0 k b (Hun k Hk) Eb).
    - apply (cx_st _ _ _ C).
    - apply (cx_tmp _ _ _ C).
  Qed.

  Lemma sub_notin dn z : ~ In z dn -> sub bcoff dn z = z.
  Proof. intros H. unfold sub. apply memb_false in H. rewrite H. reflexivity. Qed.

  (* ---- the loop over the children ----------------------------------------------------------------------------- *)
  Lemma loop_some : forall l, Forall A l -> forall g cv V0 n a dn,
    ctx g V0 cv -> Forall (tree_of (vnodes V0)) l -> NoDup (flat_map ids l) ->
    (forall c, In c l -> exists c0, aget (rid c) (vnodes V0) = Some c0 /\ parent c0 = Some n) ->
    ~ In n (flat_map ids l) -> In n (akeys (vnodes V0)) ->
    (forall k, In k (flat_map ids l) -> unproc g V0 k) ->
    (forall k, In k (flat_map ids l) -> aget (bc k) (nodes g) = None) ->
    NoDup (children a) -> (forall z, In z (children a) -> In z (akeys (vnodes V0))) ->
    (forall c, In c l -> ~ In (rid c) dn) -> (forall c, In c l -> In (rid c) (children a)) ->
    aget n (nodes g) = Some (with_children a (map (sub bcoff dn) (children a))) ->
    (forall c, In c l -> parent a <> Some (rid c)) ->
    exists g2, update_children fixed bcoff tmp l g cv (Some n) = Some g2 /\
      NoDup (akeys (tensors g2)) /\ dims_ok g2 /\
      (forall c, In c l -> exists bn tb w', aget (bc (rid c)) (nodes g2) = Some bn /\ aget (bc (rid c)) (tensors g2) = Some tb /\
                            laxes bn tb = [ew (focus g cv) (rid c); w'] /\ w' < next_wire g2).
  Proof.
    induction l as [|c r IH]; intros HA g cv V0 n a dn C Htr Hnd Hpar Hn HnK Hun Hbcf Hch HchK Hdn Hca En Hpp.
    - exists g. split; [reflexivity|]. split; [apply (cx_tnd _ _ _ C)|]. split; [apply (wf_dims_ok g V0 (cx_w0 _ _ _ C))|]. intros c [].
    - inversion HA as [|? ? Ac Ar]; subst. inversion Htr as [|? ? Tc Tr]; subst.
      cbn [flat_map] in Hnd, Hn, Hun, Hbcf. apply NoDup_app_iff in Hnd. destruct Hnd as (Ndc & Ndr & Ndis).
      destruct (ctx_tstruct _ _ _ C) as [T0 Tcv]. pose proof (cx_fr _ _ _ C) as F.
      set (pn := with_children a (map (sub bcoff dn) (children a))) in *.
      assert (Hpar_c := Hpar c (or_introl eq_refl)).
      assert (Hnc : ~ In n (ids c)) by (intros Hc; apply Hn; apply in_or_app; left; exact Hc).
      assert (Hun_c : forall k, In k (ids c) -> unproc g V0 k) by (intros k Hk; apply Hun; apply in_or_app; left; exact Hk).
      assert (Hbc_c : forall k, In k (ids c) -> aget (bc k) (nodes g) = None) by (intros k Hk; apply Hbcf; apply in_or_app; left; exact Hk).
      assert (Hin_c : In (rid c) (children pn)).
      { unfold pn. cbn [with_children children]. apply in_map_iff. exists (rid c). split; [apply sub_notin; apply Hdn; left; reflexivity|].
        apply Hca. left. reflexivity. }
      assert (Hpp_c : parent pn <> Some (rid c)) by (unfold pn; cbn; apply Hpp; left; reflexivity).
      destruct (Ac g cv V0 n pn C Tc Ndc Hpar_c Hnc HnK Hun_c Hbc_c En Hin_c Hpp_c) as (ga & Ega & [Xbc Xtnd Xdims]).
      pose proof (A_effect c g cv V0 n pn ga C Tc Ndc Hpar_c Hnc HnK Hun_c Hbc_c En Hpp_c Ega) as [E1 E2 E3 E4 E5 E6 E7 E8 E9].
      cbn [update_children]. rewrite Ega.
      assert (Cga : ctx ga V0 cv) by (apply (ctx_grows g ga V0 cv C E8 Xdims E1 Xtnd)).
      assert (Krc : In (rid c) (akeys (vnodes V0))).
      { destruct Hpar_c as (c0 & Ec0 & _). eapply aget_Some_keys; eauto. }
      assert (KeyC : forall k, In k (ids c) -> In k (akeys (vnodes V0))).
      { intros k Hk. destruct (tree_of_keys _ _ Tc k Hk) as [b Eb]. eapply aget_Some_keys; eauto. }
      assert (KeyR : forall k, In k (flat_map ids r) -> In k (akeys (vnodes V0))).
      { intros k Hk. apply in_flat_map in Hk. destruct Hk as (c' & Hc' & Hk). rewrite Forall_forall in Tr.
        destruct (tree_of_keys _ _ (Tr c' Hc') k Hk) as [b Eb]. eapply aget_Some_keys; eauto. }
      assert (Ena : aget n (nodes ga) = Some (with_children a (map (sub bcoff (rid c :: dn)) (children a)))).
      { rewrite E4. unfold pn. cbn [with_children children parent perm shape]. unfold with_children. cbn. f_equal. f_equal.
        apply replace_first_sub; [exact Hch|apply Hdn; left; reflexivity|].
        intros z Hz. apply (fresh_ne bcoff (vnodes V0)); auto. }
      assert (Hun_r : forall k, In k (flat_map ids r) -> unproc ga V0 k).
      { intros k Hk. destruct (Hun k (in_or_app _ _ _ (or_intror Hk))) as [U1 U2]. split.
        - rewrite E5; [exact U1| | |].
          + intros Hc. apply (Ndis k Hc Hk).
          + intros ->. apply Hn. apply in_or_app. right. exact Hk.
          + intros ->. apply (fresh_ne bcoff (vnodes V0) (rid c) (bc (rid c)) F Krc); [apply KeyR; exact Hk|reflexivity].
        - rewrite E7; [exact U2| |].
          + intros Hc. apply (Ndis k Hc Hk).
          + intros Hc. apply in_map_iff in Hc. destruct Hc as (z & Ez & Hz).
            apply (fresh_ne bcoff (vnodes V0) z k F); [apply KeyC; exact Hz|apply KeyR; exact Hk|exact Ez]. }
      assert (Hbc_r : forall k, In k (flat_map ids r) -> aget (bc k) (nodes ga) = None).
      { intros k Hk. rewrite E5.
        - apply Hbcf. apply in_or_app. right. exact Hk.
        - intros Hc. apply (fresh_ne bcoff (vnodes V0) k (bc k) F (KeyR k Hk)); [apply KeyC; exact Hc|reflexivity].
        - intros E. apply (fresh_ne bcoff (vnodes V0) k n F (KeyR k Hk) HnK). exact E.
        - intros E. apply bc_inj in E. subst k. apply (Ndis (rid c) (rid_in_ids c) Hk). }
      assert (Hpar_r : forall c', In c' r -> exists c0, aget (rid c') (vnodes V0) = Some c0 /\ parent c0 = Some n)
        by (intros c' Hc'; apply Hpar; right; exact Hc').
      assert (Hn_r : ~ In n (flat_map ids r)) by (intros Hc; apply Hn; apply in_or_app; right; exact Hc).
      assert (Hdn_r : forall c', In c' r -> ~ In (rid c') (rid c :: dn)).
      { intros c' Hc' [E|Hin].
        - apply (Ndis (rid c)); [apply rid_in_ids|]. rewrite E. apply (in_flat_ids c' r); [exact Hc'|apply rid_in_ids].
        - apply (Hdn c' (or_intror Hc') Hin). }
      assert (Hca_r : forall c', In c' r -> In (rid c') (children a)) by (intros c' Hc'; apply Hca; right; exact Hc').
      assert (Hpp_r : forall c', In c' r -> parent a <> Some (rid c')) by (intros c' Hc'; apply Hpp; right; exact Hc').
      destruct (IH Ar ga cv V0 n a (rid c :: dn) Cga Tr Ndr Hpar_r Hn_r HnK Hun_r Hbc_r Hch HchK Hdn_r Hca_r Ena Hpp_r)
        as (g2 & E2' & T2 & D2 & B2).
      (* the rest of the loop does not touch the basis-change node of c *)
      assert (HPr : Forall (P fixed bcoff tmp) r) by (apply Forall_forall; intros c' _; apply update_node_effect).
      destruct (ctx_tstruct _ _ _ Cga) as [_ Tcv'].
      destruct (children_loop fixed bcoff tmp r HPr ga g2 cv (Some n) (vnodes V0) n a (rid c :: dn) E2' T0 F Tr Ndr Hpar_r Hn_r HnK E1)
        as (K1 & K2 & K3 & K4 & K5 & K6 & K7 & K8 & K9); auto.
      { intros k Hk. pose proof (KeyR k Hk) as Hkk. apply keys_aget in Hkk. destruct Hkk as [b Eb].
        apply (unproc_agree ga V0 k b (Hun_r k Hk) Eb). }
      { apply (cx_st _ _ _ C). }
      { apply (cx_tmp _ _ _ C). }
      exists g2. split; [exact E2'|]. split; [exact T2|]. split; [exact D2|].
      intros c' [<-|Hc'].
      + destruct Xbc as (bn & tb & w' & X1 & X2 & X3 & X4). exists bn, tb, w'.
        assert (Q1 : ~ In (bc (rid c)) (flat_map ids r)).
        { intros Hc. apply (fresh_ne bcoff (vnodes V0) (rid c) (bc (rid c)) F Krc); [apply KeyR; exact Hc|reflexivity]. }
        assert (Q2 : bc (rid c) <> n) by (apply (fresh_ne bcoff (vnodes V0) (rid c) n F Krc HnK)).
        split.
        { rewrite K5; [exact X1|exact Q1|exact Q2|].
          intros Hc. apply in_map_iff in Hc. destruct Hc as (z & Ez & Hz). apply bc_inj in Ez. subst z.
          apply (Ndis (rid c)); [apply rid_in_ids|]. apply in_map_rid_flat. exact Hz. }
        split.
        { rewrite K7; [exact X2|exact Q1|].
          intros Hc. apply in_map_iff in Hc. destruct Hc as (z & Ez & Hz). apply bc_inj in Ez. subst z.
          apply (Ndis (rid c)); [apply rid_in_ids|exact Hz]. }
        split; [exact X3|]. pose proof (gr_nw _ _ K8). lia.
      + destruct (B2 c' Hc') as (bn & tb & w' & Y1 & Y2 & Y3 & Y4). exists bn, tb, w'. auto.
  Qed.
End Main.

(* ==== part 9 ==== *)

Lemma focus_focus_view s v : focus (focus s v) (view_of s) = s.
Proof. destruct s; reflexivity. Qed.

Lemma keys_amem {V} k (l : list (nat * V)) : In k (akeys l) -> amem k l = true.
Proof. intros H. apply amem_aget. apply keys_aget. exact H. Qed.

Section Main2.
  Variables (fixed : bool) (bcoff : nat) (tmp : id).
  Notation bc := (bcid bcoff).
  Notation rid := RTree.rid.
  Notation A := (A fixed bcoff tmp).
  Notation ctx := (ctx bcoff tmp).

  (* the wire a finished child hands to its parent: leg 1 of its basis-change node *)
  Definition bcw (g : store) (x : id) : wire :=
    match aget (bc x) (nodes g), aget (bc x) (tensors g) with
    | Some bn, Some tb => nth 1 (laxes bn tb) 0
    | _, _ => 0
    end.

  Theorem update_node_some : forall t, A t.
  Proof.
    induction t as [n kids IH] using rtree_ind2.
    intros g pv V0 p pn C Htr Hnd (n0 & En0 & Pn0) Hpt HpK Hun Hbcf Ep Hin Hpp.
    rewrite update_node_eq. cbn [RTree.rid] in *.
    inversion Htr as [? ? nd0 End0 Hkids Hforall]; subst. rewrite En0 in End0. injection End0 as <-.
    destruct C as [W0 Wp S0p D0p Lv F Ndg Tdg Htmp].
    pose proof (wf_tstruct _ W0) as T0. cbn [focus nodes] in T0.
    destruct (same_tree_some _ _ _ _ S0p En0) as (pn0 & Epv & Ppv & Cpv). rewrite Epv, <- Ppv, Pn0.
    rewrite Nat.eqb_refl. cbn [negb].
    cbn [ids] in Hnd, Hpt, Hun, Hbcf. inversion Hnd as [|? ? Hnk Hndk]; subst.
    assert (HnK : In n (akeys (vnodes V0))) by (eapply aget_Some_keys; eauto).
    assert (Hnp : n <> p) by (intros ->; apply Hpt; left; reflexivity).
    assert (Hbp : bc n <> p) by (apply (fresh_ne bcoff (vnodes V0) n p F HnK HpK)).
    assert (Hbn : bc n <> n) by (apply (fresh_ne bcoff (vnodes V0) n n F HnK HnK)).
    assert (Ebc : aget (bc n) (nodes g) = None) by (apply Hbcf; left; reflexivity).
    (* the re-centring *)
    assert (Hap : amem p (nodes (focus g pv)) = true).
    { apply keys_amem. apply (same_tree_keys _ _ p S0p). exact HpK. }
    assert (Han : amem n (nodes (focus g pv)) = true) by (apply amem_aget; eauto).
    destruct (move_center_ok (focus g pv) p n tmp Wp Htmp Hap Han) as (s1 & Em & W1 & S1 & R1 & DKm).
    match goal with |- context [move_center ?x1 ?x2 ?x3 ?x4] => replace (move_center x1 x2 x3 x4) with (Some (s1, Some n)) by (symmetry; exact Em) end.
    pose proof (move_center_grows _ _ _ _ _ Em) as Gm. cbn [fst] in Gm.
    cbv zeta. set (cv := view_of s1). set (g1 := focus s1 (view_of g)).
    assert (Gr1 : grows g g1).
    { apply grows_focus_r. destruct Gm as [A1 A2 A3 A4]. constructor; assumption. }
    assert (Dk1 : dims_ok g1) by (intros w Hw; apply (wf_dims s1 W1 w Hw)).
    assert (Hs1 : focus g1 cv = s1) by (apply focus_focus_view).
    assert (W0' : wf (focus g1 V0)) by (apply (wf_focus_grows g g1 V0 W0 Gr1 Dk1)).
    assert (Wp' : wf (focus g1 pv)) by (apply (wf_focus_grows g g1 pv Wp Gr1 Dk1)).
    assert (Wc' : wf (focus g1 cv)) by (rewrite Hs1; exact W1).
    assert (Spc : same_tree (vnodes pv) (vnodes cv)) by exact S1.
    assert (S0c : same_tree (vnodes V0) (vnodes cv)) by (apply (same_tree_trans _ _ _ S0p Spc)).
    assert (D0p' : dims_kept (focus g1 V0) (focus g1 pv)).
    { apply (dk_grows_r g g1 pv (focus g1 V0) Wp Gr1 S0p). apply (dk_grows_l g g1 V0 (focus g pv) W0 Gr1 D0p). }
    assert (Dpc' : dims_kept (focus g1 pv) (focus g1 cv)).
    { rewrite Hs1. apply (dk_grows_l g g1 pv s1 Wp Gr1 DKm). }
    assert (D0c' : dims_kept (focus g1 V0) (focus g1 cv)).
    { apply (dims_kept_trans (focus g1 V0) (focus g1 pv) (focus g1 cv) S0p D0p' Dpc'). }
    assert (Cg1 : ctx g1 V0 cv) by (constructor; auto).
    destruct (same_tree_some _ _ _ _ S0c En0) as (cn & Ecv & Pcv & Ccv).
    change (aget n (vnodes (view_of s1))) with (aget n (vnodes cv)). rewrite Ecv.
    destruct (Hun n (or_introl eq_refl)) as [Un1 Un2].
    destruct (nilb (children cn)) eqn:Hleaf.
    - (* update_leaf_node *)
      assert (Hcn : children cn = []) by (destruct (children cn); [reflexivity|discriminate]).
      assert (C0 : children n0 = []) by (apply Permutation_nil; rewrite <- Hcn; symmetry; exact Ccv).
      assert (Hk0 : kids = []).
      { rewrite C0 in Hkids. apply Permutation_sym, Permutation_nil in Hkids. destruct kids; [reflexivity|discriminate]. }
      subst kids. cbn [nilb].
      assert (O0 : nopen n0 = 1) by (apply (Lv n n0 En0); [congruence|exact C0]).
      destruct (update_leaf_some fixed bcoff n p g1 cv pv V0 n0 pn W0' Wp' Wc' S0p Spc D0p' Dpc' Un1 Un2 En0 Pn0 C0 O0 Ndg Tdg Ep Hin Hpp Ebc Hnp Hbp)
        as (g' & bn & tb & w' & E' & X1 & X2 & X3 & X4 & X5 & X6).
      exists g'. split; [exact E'|]. constructor; [|exact X6|exact X5]. exists bn, tb, w'. auto.
    - (* update_non_leaf_node *)
      assert (NdC : NoDup (children n0)) by (apply (ts_chnd _ T0 n n0 En0)).
      assert (InA : forall z, In z (children n0) <-> In z (map rid kids)).
      { intros z. split; intros Hz; [apply (Permutation_in _ (Permutation_sym Hkids) Hz)|apply (Permutation_in _ Hkids Hz)]. }
      assert (Pk : perm_ofb (map rid kids) (children cn) = true).
      { apply perm_ofb_complete; [rewrite Hkids; exact Ccv|]. apply (Permutation_NoDup (Permutation_sym Hkids) NdC). }
      rewrite Pk. cbn [negb].
      assert (KeyI : forall k, In k (n :: flat_map ids kids) -> In k (akeys (vnodes V0))).
      { intros k Hk. destruct (tree_of_keys _ _ Htr k Hk) as [b Eb]. eapply aget_Some_keys; eauto. }
      assert (KeyA : forall z, In z (children n0) -> In z (akeys (vnodes V0))).
      { intros z Hz. apply KeyI. right. apply in_map_rid_flat. apply InA. exact Hz. }
      assert (ParK : forall z, In z (children n0) -> exists c0, aget z (vnodes V0) = Some c0 /\ parent c0 = Some n).
      { intros z Hz. apply (ts_ch _ T0 n n0 z En0 Hz). }
      assert (L1 : forall c, In c kids -> exists c0, aget (rid c) (vnodes V0) = Some c0 /\ parent c0 = Some n).
      { intros c Hc. apply ParK. apply InA. apply in_map. exact Hc. }
      assert (L2 : forall k, In k (flat_map ids kids) -> unproc g1 V0 k) by (intros k Hk; apply Hun; right; exact Hk).
      assert (L3 : forall k, In k (flat_map ids kids) -> aget (bc k) (nodes g1) = None) by (intros k Hk; apply Hbcf; right; exact Hk).
      assert (L4 : forall c, In c kids -> ~ In (rid c) (@nil nat)) by (intros c _ []).
      assert (L5 : forall c, In c kids -> In (rid c) (children n0)) by (intros c Hc; apply InA; apply in_map; exact Hc).
      assert (L6 : aget n (nodes g1) = Some (with_children n0 (map (sub bcoff []) (children n0)))).
      { rewrite map_sub_nil, with_children_same. cbn [g1 focus nodes view_of vnodes]. rewrite Un1. exact En0. }
      assert (L7 : forall c, In c kids -> parent n0 <> Some (rid c)).
      { intros c Hc. rewrite Pn0. intros E. injection E as E. apply Hpt. right. rewrite E. apply in_map_rid_flat. apply in_map. exact Hc. }
      destruct (loop_some fixed bcoff tmp kids IH g1 cv V0 n n0 [] Cg1 Hforall Hndk L1 Hnk HnK L2 L3 NdC KeyA L4 L5 L6 L7)
        as (g2 & Eloop & T2 & D2 & B2).
      match goal with |- context [update_children ?x1 ?x2 ?x3 ?x4 ?x5 ?x6 ?x7] =>
        replace (update_children x1 x2 x3 x4 x5 x6 x7) with (Some g2) by (symmetry; exact Eloop) end.
      assert (HP : Forall (P fixed bcoff tmp) kids) by (apply Forall_forall; intros c _; apply update_node_effect).
      destruct (children_loop fixed bcoff tmp kids HP g1 g2 cv (Some n) (vnodes V0) n n0 [] Eloop T0 F Hforall Hndk L1 Hnk HnK Ndg)
        as (K1 & K2 & K3 & K4 & K5 & K6 & K7 & K8 & K9); auto.
      { intros k Hk. destruct (tree_of_keys _ _ Htr k (or_intror Hk)) as [b Eb]. apply (unproc_agree g1 V0 k b (L2 k Hk) Eb). }
      { apply (wf_tstruct _ Wc'). }
      rewrite app_nil_r in K4.
      rewrite (map_sub_all bcoff _ (children n0)) in K4 by (intros z Hz; rewrite <- in_rev; apply InA; exact Hz).
      set (X := children n0) in *.
      assert (XI : forall x, In x X -> In x (flat_map ids kids)) by (intros x Hx; apply in_map_rid_flat; apply InA; exact Hx).
      assert (Ep2 : aget p (nodes g2) = Some pn).
      { rewrite K5; [exact Ep| | |].
        - intros Hc. apply Hpt. right. exact Hc.
        - congruence.
        - intros Hc. apply in_map_iff in Hc. destruct Hc as (z & Ez & Hz). apply (fresh_ne bcoff (vnodes V0) z p F); [|exact HpK|exact Ez].
          apply KeyI. right. apply in_map_rid_flat. exact Hz. }
      assert (Eb2 : aget (bc n) (nodes g2) = None).
      { rewrite K5; [exact Ebc| | |].
        - intros Hc. apply (fresh_ne bcoff (vnodes V0) n (bc n) F HnK); [apply KeyI; right; exact Hc|reflexivity].
        - exact Hbn.
        - intros Hc. apply in_map_iff in Hc. destruct Hc as (z & Ez & Hz). apply bc_inj in Ez. subst z.
          apply Hnk. apply in_map_rid_flat. exact Hz. }
      assert (A1 : ~ In n X) by (intros Hc; apply Hnk; apply XI; exact Hc).
      assert (A2 : ~ In n (map bc X)).
      { intros Hc. apply in_map_iff in Hc. destruct Hc as (z & Ez & Hz). apply (fresh_ne bcoff (vnodes V0) z n F); auto. }
      assert (A3 : forall x x', In x X -> In x' X -> bc x' <> x) by (intros x x' Hx Hx'; apply (fresh_ne bcoff (vnodes V0)); auto).
      assert (A5 : ~ In p X) by (intros Hc; apply Hpt; right; apply XI; exact Hc).
      assert (A6 : ~ In p (map bc X)).
      { intros Hc. apply in_map_iff in Hc. destruct Hc as (z & Ez & Hz). apply (fresh_ne bcoff (vnodes V0) z p F); auto. }
      assert (A7 : ~ In (bc n) X) by (intros Hc; apply (fresh_ne bcoff (vnodes V0) n (bc n) F HnK); [apply KeyA; exact Hc|reflexivity]).
      assert (Gr12 : grows g1 g2) by exact K8.
      assert (W02 : wf (focus g2 V0)) by (apply (wf_focus_grows g1 g2 V0 W0' Gr12 D2)).
      assert (Wp2 : wf (focus g2 pv)) by (apply (wf_focus_grows g1 g2 pv Wp' Gr12 D2)).
      assert (Wc2 : wf (focus g2 cv)) by (apply (wf_focus_grows g1 g2 cv Wc' Gr12 D2)).
      assert (D0p2 : dims_kept (focus g2 V0) (focus g2 pv)).
      { apply (dk_grows_r g1 g2 pv (focus g2 V0) Wp' Gr12 S0p). apply (dk_grows_l g1 g2 V0 (focus g1 pv) W0' Gr12 D0p'). }
      assert (Dpc2 : dims_kept (focus g2 pv) (focus g2 cv)).
      { apply (dk_grows_r g1 g2 cv (focus g2 pv) Wc' Gr12 Spc). apply (dk_grows_l g1 g2 pv (focus g1 cv) Wp' Gr12 Dpc'). }
      assert (Hb2 : forall x, In x X -> exists bn tb, aget (bc x) (nodes g2) = Some bn /\ aget (bc x) (tensors g2) = Some tb /\
                         parent bn = Some n /\ children bn = [x] /\ laxes bn tb = [ew (focus g2 cv) x; bcw g2 x] /\ bcw g2 x < next_wire g2).
      { intros x Hx. apply InA in Hx. apply in_map_iff in Hx. destruct Hx as (c & <- & Hc).
        destruct (B2 c Hc) as (bn & tb & w' & Y1 & Y2 & Y3 & Y4). destruct (K3 c Hc) as (bn' & Z1 & Z2 & Z3).
        rewrite Y1 in Z1. injection Z1 as <-. exists bn, tb. unfold bcw. rewrite Y1, Y2, Y3. cbn [nth]. auto 7. }
      assert (Hxs2 : forall x, In x X -> exists xn, aget x (nodes g2) = Some xn).
      { intros x Hx. apply InA in Hx. apply in_map_iff in Hx. destruct Hx as (c & <- & Hc).
        destruct (K2 c Hc (rid c) (rid_in_ids c)) as (a' & b' & Ea' & _). eauto. }
      destruct (update_non_leaf_rest_some fixed bcoff n p g2 cv pv V0 n0 pn (bcw g2) W02 Wp2 Wc2 S0p Spc D0p2 Dpc2 En0 Pn0 K4 K1 T2 Hb2 Hxs2
                  Ep2 Hin Hpp Eb2 Hnp Hbp Hbn A1 A2 A3 A5 A6 A7) as (g' & bn & tb & w' & E' & X1 & X2 & X3 & X4 & X5 & X6).
      exists g'. split; [exact E'|]. constructor; [|exact X6|exact X5]. exists bn, tb, w'. auto.
  Qed.
End Main2.

(* ==== part 10 ==== *)

(* the Prop-level tree predicate implies the executable guard of root_update *)
Lemma tree_of_matchb T0 : tstruct T0 -> forall t, tree_of T0 t -> tree_matchb T0 t = true.
Proof.
  intros T t. induction t as [n kids IH] using rtree_ind2. intros Ht. inversion Ht as [? ? nd En Hp Hf]; subst.
  cbn [tree_matchb]. rewrite En. apply andb_true_iff. split.
  - apply perm_ofb_complete; [exact Hp|]. apply (Permutation_NoDup (Permutation_sym Hp)). apply (ts_chnd _ T n nd En).
  - apply forallb_forall. intros c Hc. rewrite Forall_forall in IH, Hf. apply (IH c Hc (Hf c Hc)).
Qed.

Section Root.
  Variables (fixed : bool) (bcoff : nat) (tmp : id).
  Notation bc := (bcid bcoff).
  Notation rid := RTree.rid.

  Theorem root_update_accepts t cs :
    wfb (fst cs) = true -> bc_fresh bcoff (nodes (fst cs)) -> aget tmp (nodes (fst cs)) = None ->
    root (fst cs) = Some (rid t) -> snd cs = Some (rid t) ->
    tree_of (nodes (fst cs)) t -> NoDup (ids t) -> leaves_ok (view_of (fst cs)) ->
    exists cs', root_update fixed bcoff tmp t cs = Some cs'.
  Proof.
    destruct cs as [g oc]. destruct t as [r kids]. cbn [fst snd RTree.rid]. intros Wb F Htmp Hroot Hoc Htr Hnd Lv. subst oc.
    pose proof (wfb_wf g Wb) as W. pose proof (wf_tstruct g W) as T.
    unfold root_update. cbv zeta. cbn [fst snd]. rewrite Hroot, Nat.eqb_refl. cbn [negb].
    rewrite (tree_of_matchb (nodes g) T _ Htr), (proj2 (nodupb_NoDup _) Hnd). cbn [andb negb].
    inversion Htr as [? ? rn Ern Hkids Hforall]; subst. rewrite Ern.
    destruct (wf_root g W) as (r' & rn' & Er' & Ern' & Prn & Huniq). rewrite Hroot in Er'. injection Er' as <-.
    rewrite Ern in Ern'. injection Ern' as <-.
    assert (NdX : NoDup (children rn)) by (apply (ts_chnd _ T r rn Ern)).
    rewrite (perm_ofb_complete _ _ Hkids (Permutation_NoDup (Permutation_sym Hkids) NdX)). cbn [negb].
    cbn [ids] in Hnd. inversion Hnd as [|? ? Hrk Hndk]; subst.
    set (V0 := view_of g).
    assert (C : ctx bcoff tmp g V0 V0).
    { constructor; auto.
      - unfold V0. rewrite focus_view_of. exact W.
      - unfold V0. rewrite focus_view_of. exact W.
      - apply same_tree_refl.
      - apply dims_kept_refl.
      - apply (wf_nd g W).
      - apply (wf_tnd g W). }
    assert (HrK : In r (akeys (vnodes V0))) by (eapply aget_Some_keys; eauto).
    assert (InA : forall z, In z (children rn) <-> In z (map rid kids)).
    { intros z. split; intros Hz; [apply (Permutation_in _ (Permutation_sym Hkids) Hz)|apply (Permutation_in _ Hkids Hz)]. }
    assert (KeyT : forall k, In k (r :: flat_map ids kids) -> In k (akeys (nodes g))).
    { intros k Hk. destruct (tree_of_keys _ _ Htr k Hk) as [x Ex]. eapply aget_Some_keys; eauto. }
    assert (KeyA : forall z, In z (children rn) -> In z (akeys (vnodes V0))).
    { intros z Hz. apply KeyT. right. apply in_map_rid_flat. apply InA. exact Hz. }
    assert (L1 : forall c, In c kids -> exists c0, aget (rid c) (vnodes V0) = Some c0 /\ parent c0 = Some r).
    { intros c Hc. apply (ts_ch _ T r rn (rid c) Ern). apply InA. apply in_map. exact Hc. }
    assert (L2 : forall k, In k (flat_map ids kids) -> unproc g V0 k) by (intros k _; split; reflexivity).
    assert (L3 : forall k, In k (flat_map ids kids) -> aget (bc k) (nodes g) = None).
    { intros k Hk. apply F. apply KeyT. right. exact Hk. }
    assert (L4 : forall c, In c kids -> ~ In (rid c) (@nil nat)) by (intros c _ []).
    assert (L5 : forall c, In c kids -> In (rid c) (children rn)) by (intros c Hc; apply InA; apply in_map; exact Hc).
    assert (L6 : aget r (nodes g) = Some (with_children rn (map (sub bcoff []) (children rn)))).
    { rewrite map_sub_nil, with_children_same. exact Ern. }
    assert (L7 : forall c, In c kids -> parent rn <> Some (rid c)) by (intros c _; rewrite Prn; discriminate).
    assert (IH : Forall (A fixed bcoff tmp) kids) by (apply Forall_forall; intros c _; apply update_node_some).
    destruct (loop_some fixed bcoff tmp kids IH g V0 V0 r rn [] C Hforall Hndk L1 Hrk HrK L2 L3 NdX KeyA L4 L5 L6 L7)
      as (g1 & Eloop & T1 & D1 & B1).
    match goal with |- context [update_children ?x1 ?x2 ?x3 ?x4 ?x5 ?x6 ?x7] =>
      replace (update_children x1 x2 x3 x4 x5 x6 x7) with (Some g1) by (symmetry; exact Eloop) end.
    assert (HP : Forall (P fixed bcoff tmp) kids) by (apply Forall_forall; intros c _; apply update_node_effect).
    destruct (children_loop fixed bcoff tmp kids HP g g1 V0 (Some r) (vnodes V0) r rn [] Eloop T F Hforall Hndk L1 Hrk HrK (wf_nd g W))
      as (K1 & K2 & K3 & K4 & K5 & K6 & K7 & K8 & K9); auto.
    { intros k Hk. destruct (tree_of_keys _ _ Htr k (or_intror Hk)) as [b Eb]. apply (unproc_agree g V0 k b (L2 k Hk) Eb). }
    { apply same_tree_refl. }
    rewrite app_nil_r in K4.
    rewrite (map_sub_all bcoff _ (children rn)) in K4 by (intros z Hz; rewrite <- in_rev; apply InA; exact Hz).
    set (X := children rn) in *.
    assert (W01 : wf (focus g1 V0)) by (apply (wf_focus_grows g g1 V0 (cx_w0 _ _ _ _ _ C) K8 D1)).
    assert (A2 : ~ In r (map bc X)).
    { intros Hc. apply in_map_iff in Hc. destruct Hc as (z & Ez & Hz). apply (fresh_ne bcoff (nodes g) z r F); auto. }
    assert (A3 : forall x x', In x X -> In x' X -> bc x' <> x) by (intros x x' Hx Hx'; apply (fresh_ne bcoff (nodes g)); auto).
    (* pull_tensor_from_different_ttn(current_state, new_state, root) *)
    pose proof (wf_tens (focus g1 V0) r rn W01 Ern) as Trn.
    pose proof (ni_virt _ _ _ (wf_node _ W01 r rn Ern)) as Vr.
    assert (Np : nparents rn = 0) by (unfold nparents; rewrite Prn; reflexivity).
    assert (PT9 : forall x, In x X -> exists j, index_of x (children rn) = Some j /\
                    nth (j + nparents rn) (laxes rn (tens (focus g1 V0) r)) 0 = ew (focus g1 V0) x).
    { intros x Hx. apply (child_index_wire (focus g1 V0) r rn x W01 Ern Hx). }
    assert (PT10 : node_shape (with_children rn (map bc X)) =
                   map (wdim g1) (firstn (nparents rn) (laxes rn (tens (focus g1 V0) r)) ++ map (ew (focus g1 V0)) X ++
                                  skipn (nvirt rn) (laxes rn (tens (focus g1 V0) r)))).
    { change (node_shape (with_children rn (map bc X))) with (node_shape rn).
      rewrite (node_shape_lax' (focus g1 V0) r rn W01 Ern). f_equal. apply (wf_lax_decomp (focus g1 V0) r rn W01 Ern). }
    destruct (pull_tensor_some bcoff g1 V0 r rn (tens (focus g1 V0) r) (with_children rn (map bc X)) X (ew (focus g1 V0))
                Ern Trn K4 eq_refl eq_refl eq_refl eq_refl Vr PT9 PT10)
      as (gA & nd' & ot & EA & NA & TA & PA & CA & SA & LA & RA & DA & WA & FA & AA & PbA).
    rewrite Np in LA. cbn [firstn app] in LA.
    match goal with |- context [pull_tensor ?x1 ?x2 ?x3 ?x4] =>
      replace (pull_tensor x1 x2 x3 x4) with (Some gA) by (symmetry; exact EA) end.
    set (Oc := skipn (nvirt rn) (laxes rn (tens (focus g1 V0) r))) in *.
    assert (HwdA : forall w, wdim gA w = wdim g1 w) by (apply wdim_dims_eq; exact DA).
    assert (NdA : NoDup (akeys (nodes gA))) by (rewrite NA; apply NoDup_akeys_aset; exact K1).
    assert (TdA : NoDup (akeys (tensors gA))) by (rewrite TA; apply NoDup_akeys_aset; exact T1).
    assert (EnA : aget r (nodes gA) = Some nd') by (rewrite NA; apply aget_aset_same).
    assert (TnA : aget r (tensors gA) = Some ot) by (rewrite TA; apply aget_aset_same).
    (* contract_all_children(root) *)
    assert (HbA : forall x, In x X -> exists bn tb, aget (bc x) (nodes gA) = Some bn /\ aget (bc x) (tensors gA) = Some tb /\
                                       parent bn = Some r /\ children bn = [x] /\ laxes bn tb = [ew (focus g1 V0) x; bcw bcoff g1 x]).
    { intros x Hx. pose proof Hx as Hx'. apply InA in Hx. apply in_map_iff in Hx. destruct Hx as (c & <- & Hc).
      destruct (B1 c Hc) as (bn & tb & w' & Y1 & Y2 & Y3 & Y4). destruct (K3 c Hc) as (bn' & Z1 & Z2 & Z3).
      rewrite Y1 in Z1. injection Z1 as <-. exists bn, tb.
      assert (K : bc (rid c) <> r) by (intros E; apply A2; rewrite <- E; apply in_map; exact Hx').
      rewrite NA, TA, !aget_aset_other by exact K. unfold bcw. rewrite Y1, Y2, Y3. cbn [nth]. auto 7. }
    assert (CB1 : laxes nd' ot = [] ++ map (ew (focus g1 V0)) X ++ [] ++ Oc) by (cbn [app]; exact LA).
    assert (CB2 : length (@nil wire) = nparents nd') by (unfold nparents; rewrite PA; cbn; rewrite Prn; reflexivity).
    assert (CB3 : children nd' = map bc X ++ []) by (rewrite app_nil_r; exact CA).
    assert (CB5 : NoDup (children nd')) by (rewrite CA; apply NoDup_map_bc; exact NdX).
    assert (CB6 : forall x, In x X -> parent nd' <> Some (bc x)) by (intros x _; rewrite PA; cbn; rewrite Prn; discriminate).
    assert (CB8 : shape nd' = map (wdim gA) (axes ot)) by (rewrite SA; apply map_ext; intros w; symmetry; apply HwdA).
    destruct (contract_all_bc bcoff r (ew (focus g1 V0)) (bcw bcoff g1) X gA nd' ot [] [] Oc [] NdA TdA EnA TnA CB1 CB2 CB3 eq_refl CB5 CB6 A2 NdX A3
                (fun x _ H => H) CB8 PbA HbA) as (gB & nn' & tn' & EB & EnB & TnB & LB & CB & PB & TdB & SB & PbB).
    unfold contract_all_children. rewrite EnA, CA.
    change (children (with_children rn (map bc X))) with (map bc X).
    change (fold_left _ (map bc X) (Some gA)) with (cfold r (map bc X) gA). rewrite EB.
    (* time evolution of the root, replace_tensor *)
    destruct (evolve_some gB r nn' tn' EnB TnB) as (gC & u & Eev). rewrite Eev.
    destruct (evolve_effect _ _ _ _ Eev) as (nd2 & t2 & V1 & V2 & V3 & V4 & V5 & V6 & V7 & V8 & V9).
    rewrite EnB in V1. injection V1 as <-. rewrite TnB in V2. injection V2 as <-.
    rewrite V3, aget_aset_same.
    assert (Hs : node_shape (reset_permutation nn') = map (wdim gC) (axes u)).
    { rewrite reset_permutation_shape. unfold node_shape. rewrite SB, V5. cbn [axes s_transpose].
      rewrite (permute_map (wdim gB) 0 0 (perm nn') (axes tn') PbB). apply map_ext. intros w. symmetry. apply wdim_dims_eq. exact V8. }
    unfold node_replace_tensor. rewrite (proj2 (list_eqb_eq _ _) Hs). eauto.
  Qed.
End Root.

(* ==== part 11 ==== *)

(* ---- acceptance combined with the conditional effect theorems of Evo/BUGStoreProofs.v ------------------------------- *)
Section Total.
  Variables (fixed : bool) (bcoff : nat) (tmp : id).
  Notation bc := (bcid bcoff).
  Notation rid := RTree.rid.

  Theorem root_update_total t cs :
    wfb (fst cs) = true -> bc_fresh bcoff (nodes (fst cs)) -> aget tmp (nodes (fst cs)) = None ->
    root (fst cs) = Some (rid t) -> snd cs = Some (rid t) ->
    tree_of (nodes (fst cs)) t -> NoDup (ids t) -> leaves_ok (view_of (fst cs)) ->
    exists cs', root_update fixed bcoff tmp t cs = Some cs' /\
      same_tree (nodes (fst cs)) (nodes (fst cs')) /\ tstruct (nodes (fst cs')) /\
      (forall k, In k (akeys (nodes (fst cs))) -> aget (bc k) (nodes (fst cs')) = None) /\
      aget tmp (nodes (fst cs')) = None /\
      root (fst cs') = root (fst cs) /\ snd cs' = Some (rid t) /\
      iso_check cs' = true /\ grows (fst cs) (fst cs').
  Proof.
    intros Wb F Htmp Hroot Hoc Htr Hnd Lv.
    destruct (root_update_accepts fixed bcoff tmp t cs Wb F Htmp Hroot Hoc Htr Hnd Lv) as [cs' E].
    destruct (root_update_effect fixed bcoff tmp t cs cs' Wb F Htmp E) as (ST & TS & BG & R1 & R2 & R3 & GR & _ & _).
    pose proof (root_update_iso fixed bcoff tmp t cs cs' Wb F Htmp E) as ISO.
    exists cs'. split; [exact E|]. split; [exact ST|]. split; [exact TS|]. split; [exact BG|].
    split.
    { apply aget_None. intros Hin. apply (same_tree_keys _ _ tmp ST) in Hin. apply aget_None in Htmp. contradiction. }
    split; [exact R1|]. split; [rewrite R2; exact R3|]. split; [exact ISO|exact GR].
  Qed.
End Total.

(* ---- an executable checker of the hypotheses ----------------------------------------------------------------------- *)
Definition leaves_okb (l : list (id * node)) : bool :=
  forallb (fun kn => is_root (snd kn) || negb (nilb (children (snd kn))) || Nat.eqb (nopen (snd kn)) 1) l.
Definition bc_freshb (bcoff : nat) (l : list (id * node)) : bool :=
  forallb (fun kn => negb (amem (bcid bcoff (fst kn)) l)) l.
Definition bug_hypb (bcoff : nat) (tmp : id) (t : rtree) (cs : cstore) : bool :=
  wfb (fst cs) && bc_freshb bcoff (nodes (fst cs)) && negb (amem tmp (nodes (fst cs)))
  && (match root (fst cs) with Some r => Nat.eqb r (RTree.rid t) | None => false end)
  && (match snd cs with Some c => Nat.eqb c (RTree.rid t) | None => false end)
  && tree_matchb (nodes (fst cs)) t && nodupb (ids t) && leaves_okb (nodes (fst cs)).

Lemma amem_false_None {V} k (l : list (nat * V)) : amem k l = false -> aget k l = None.
Proof. unfold amem. destruct (aget k l); [discriminate|reflexivity]. Qed.

Lemma bug_hypb_sound bcoff tmp t cs : bug_hypb bcoff tmp t cs = true ->
  wfb (fst cs) = true /\ bc_fresh bcoff (nodes (fst cs)) /\ aget tmp (nodes (fst cs)) = None /\
  root (fst cs) = Some (RTree.rid t) /\ snd cs = Some (RTree.rid t) /\
  tree_of (nodes (fst cs)) t /\ NoDup (ids t) /\ leaves_ok (view_of (fst cs)).
Proof.
  unfold bug_hypb. rewrite !andb_true_iff. intros [[[[[[[H1 H2] H3] H4] H5] H6] H7] H8].
  pose proof (wfb_wf _ H1) as W. pose proof (wf_tstruct _ W) as T.
  split; [exact H1|]. split.
  { intros k Hk. apply keys_aget in Hk. destruct Hk as [nd Ek]. apply aget_In in Ek.
    unfold bc_freshb in H2. rewrite forallb_forall in H2. specialize (H2 _ Ek). cbn [fst] in H2.
    apply negb_true_iff in H2. apply amem_false_None. exact H2. }
  split; [apply amem_false_None; apply negb_true_iff; exact H3|].
  split; [destruct (root (fst cs)) as [r|]; [apply Nat.eqb_eq in H4; rewrite H4; reflexivity|discriminate]|].
  split; [destruct (snd cs) as [c|]; [apply Nat.eqb_eq in H5; rewrite H5; reflexivity|discriminate]|].
  split; [apply tree_matchb_tree_of; [|exact H6]; intros k n E; apply (ts_chnd _ T k n E)|].
  split; [apply nodupb_NoDup; exact H7|].
  intros k nd Ek Hp Hc. cbn [view_of vnodes] in Ek. apply aget_In in Ek.
  unfold leaves_okb in H8. rewrite forallb_forall in H8. specialize (H8 _ Ek). cbn [snd] in H8.
  unfold is_root in H8. destruct (parent nd); [|congruence]. rewrite Hc in H8. cbn in H8. apply Nat.eqb_eq in H8. exact H8.
Qed.

Theorem root_update_total_checked fixed bcoff tmp t cs : bug_hypb bcoff tmp t cs = true ->
  exists cs', root_update fixed bcoff tmp t cs = Some cs' /\ same_tree (nodes (fst cs)) (nodes (fst cs')) /\
    iso_check cs' = true /\ snd cs' = Some (RTree.rid t).
Proof.
  intros H. destruct (bug_hypb_sound _ _ _ _ H) as (H1 & H2 & H3 & H4 & H5 & H6 & H7 & H8).
  destruct (root_update_total fixed bcoff tmp t cs H1 H2 H3 H4 H5 H6 H7 H8) as (cs' & E & ST & _ & _ & _ & _ & C & I & _).
  exists cs'. auto.
Qed.

(* what tree_of says, spelled out *)
Lemma tree_of_spelled T0 n kids :
  tree_of T0 (RNode n kids) <->
  exists nd, aget n T0 = Some nd /\ Permutation (map RTree.rid kids) (children nd) /\ Forall (tree_of T0) kids.
Proof.
  split.
  - intros H. inversion H as [? ? nd E P F]; subst. exists nd. auto.
  - intros (nd & E & P & F). econstructor; eauto.
Qed.
