(* One time step of the one-site TDVP classes over the Layer-W store (Evo/TDVPStore.v): the trace of Sched/TDVP.v,
   proved schedule-correct for every tree (cache_fresh_universal), is simulated on the store; the invariant between two
   updates is: store invariant, same tree as at the start, isometry attribute at the recorded centre.  Proofs only. *)
From Coq Require Import List Arith Bool Lia Permutation ZArith.
From PTN Require Import TTN.Store TTN.StoreProofs TTN.Canon TTN.CanonProofs TTN.Inv TTN.InvProofs TTN.InvNode
  TTN.CanonTree TTN.CanonStep TTN.CanonIso Evo.TDVPStoreEffects.
From PTN Require Import Tree.RTree Tree.Nav Tree.UpdatePath Tree.UpdatePathProofs Tree.CachePath Sched.TDVP Sched.TDVPProofs Sched.TDVPFreshU Evo.TDVPStore.
Import ListNotations.

(* ==== part 1 ==== *)
(* ---- the shape of the one-site traces: link updates come as blocks -------------------------------------- *)
Definition plain (e : ev) : bool :=
  match e with TDVP.Split _ _ | Link _ _ _ | Absorb _ _ | TwoSite _ _ _ => false | _ => true end.

Inductive blocked : list ev -> Prop :=
| bl_nil : blocked []
| bl_plain e tr : plain e = true -> blocked tr -> blocked (e :: tr)
| bl_link a b f tr : blocked tr -> blocked (TDVP.Split a b :: Cache a b :: Link a b f :: Absorb a b :: tr).

Lemma blocked_app x y : blocked x -> blocked y -> blocked (x ++ y).
Proof. intros Hx Hy. induction Hx; cbn; [exact Hy|constructor; assumption|constructor; assumption]. Qed.

Lemma blocked_plain l : forallb plain l = true -> blocked l.
Proof.
  induction l as [|e l IH]; cbn; [constructor|]. intros H. apply andb_true_iff in H. destruct H. constructor; auto.
Qed.

Lemma blocked_link a b f : blocked (link a b f).
Proof. unfold link. apply bl_plain; [reflexivity|]. apply bl_link. constructor. Qed.

Lemma blocked_moves p : blocked (moves p).
Proof.
  apply blocked_plain. unfold moves. destruct p as [|a p]; [reflexivity|]. cbn [forallb plain andb].
  generalize (consec (a :: p)). intros l. induction l as [|x l IH]; cbn; [reflexivity|exact IH].
Qed.

Ltac blk := repeat (first [apply bl_nil | apply bl_link | (apply bl_plain; [reflexivity|])]).

Lemma blocked_concat_opt {B} (f : B -> option (list ev)) l r :
  concat_opt (map f l) = Some r -> (forall i es, In i l -> f i = Some es -> blocked es) -> blocked r.
Proof.
  revert r. induction l as [|i l IH]; intros r H Hall.
  - cbn in H. injection H as <-. constructor.
  - cbn [map] in H. apply concat_opt_cons in H. destruct H as (x & y & Hx & Hy & ->).
    apply blocked_app; [apply (Hall i x); [left; reflexivity|exact Hx]|].
    apply IH; [exact Hy|]. intros j es Hj. apply Hall. right. exact Hj.
Qed.

Lemma blocked_reset1 tr cur first r : reset1 tr cur first = Some r -> blocked r.
Proof.
  unfold reset1. destruct (Nav.path_from_to tr cur first) as [p|]; [|discriminate].
  unfold init_cache. destruct (cache_keys tr first) as [c|]; cbn; [|discriminate]. intros [= <-].
  apply blocked_plain. rewrite forallb_app. apply andb_true_iff. split.
  - generalize (consec p). intros l. induction l as [|x l IH]; cbn; [reflexivity|exact IH].
  - cbn. induction c as [|x c IH]; cbn; [reflexivity|exact IH].
Qed.

Lemma blocked_trace1 t tr : trace1 t = Some tr -> blocked tr.
Proof.
  unfold trace1, trace1_gen. destruct (update_path t) as [up|]; [|discriminate].
  destruct (orth_paths t up) as [op|]; [|discriminate]. unfold trace1_of. intros H.
  apply (blocked_concat_opt _ _ _ H). intros i es _. unfold t1_update.
  destruct (nth_error up i) as [n|]; [|discriminate].
  destruct (Nat.eqb i (length up - 1)).
  - match goal with |- match ?x with _ => _ end = _ -> _ => destruct x as [p|]; [|discriminate] end.
    destruct (nth_error up 0) as [first|]; [|discriminate].
    destruct (reset1 t n first) as [r|] eqn:Er; [|discriminate]. intros [= <-].
    apply blocked_app; [apply blocked_moves|]. apply blocked_app; [destruct (Nat.ltb 2 (size t)); apply blocked_plain; reflexivity|].
    apply bl_plain; [reflexivity|]. eapply blocked_reset1; eauto.
  - destruct (Nat.eqb i 0).
    + destruct (nth_error op 0) as [[|nx ?]|]; try discriminate. intros [= <-].
      blk.
    + destruct (nth_error op (i - 1)) as [p|]; [|discriminate].
      destruct (nth_error op i) as [[|nx ?]|]; try discriminate. intros [= <-].
      apply blocked_app; [apply blocked_moves|]. blk.
Qed.

Lemma opt_app_Some {A} (a b : option (list A)) r : opt_app a b = Some r -> exists x y, a = Some x /\ b = Some y /\ r = x ++ y.
Proof. destruct a as [x|], b as [y|]; cbn; try discriminate. intros [= <-]. eauto. Qed.

Lemma blocked_trace2 t tr : trace2 t = Some tr -> blocked tr.
Proof.
  unfold trace2. destruct (update_path t) as [up|]; [|discriminate].
  destruct (orth_paths t up) as [op|]; [|discriminate]. destruct (back_orth_paths t (rev up)) as [bop|]; [|discriminate].
  unfold trace2_of. destruct (last_opt up) as [z|]; [|discriminate]. destruct (nth_error (rev up) 1) as [b1|]; [|discriminate].
  destruct (last_opt (rev up)) as [a|]; [|discriminate]. intros H.
  apply opt_app_Some in H. destruct H as (x1 & y1 & H1 & H & ->).
  apply opt_app_Some in H. destruct H as (x2 & y2 & H2 & H & ->).
  apply opt_app_Some in H. destruct H as (x3 & y3 & H3 & H4 & ->).
  injection H2 as <-. injection H4 as <-.
  apply blocked_app.
  { apply (blocked_concat_opt _ _ _ H1). intros i es _. unfold t2_forward.
    destruct (nth_error up i) as [n|]; [|discriminate].
    destruct (if Nat.eqb i 0 then Some [] else nth_error op (i - 1)) as [p|]; [|discriminate].
    destruct (nth_error op i) as [[|nx ?]|]; try discriminate. intros [= <-].
    apply blocked_app; [apply blocked_moves|]. blk. }
  apply blocked_app.
  { blk. }
  apply blocked_app.
  { apply (blocked_concat_opt _ _ _ H3). intros i es _. unfold t2_backward.
    destruct (nth_error (rev up) i) as [n|]; [|discriminate].
    destruct (nth_error bop (i - 1)) as [p|]; [|discriminate].
    destruct (nth_error (rev up) (i + 1)) as [nx|]; [|discriminate]. intros [= <-].
    repeat (apply bl_plain; [reflexivity|]). apply blocked_app; [apply blocked_moves|apply blocked_link]. }
  apply blocked_plain. reflexivity.
Qed.

(* ==== part 2 ==== *)
(* ---- the tree of the schedule and the node dictionary of the store ------------------------------------------ *)
(* every edge of t is a parent pointer of the dictionary, every identifier of t is a key (child order is free) *)
Definition tmatch (t : rtree) (l : list (id * node)) : Prop :=
  (forall a b, In (a, b) (edges t) -> exists n, aget b l = Some n /\ parent n = Some a) /\
  (forall k, In k (ids t) -> In k (akeys l)).

Lemma tmatch_same_tree t l l' : tmatch t l -> same_tree l l' -> tmatch t l'.
Proof.
  intros [M1 M2] S. split.
  - intros a b Hab. destruct (M1 a b Hab) as (n & E & P). destruct (same_tree_some _ _ _ _ S E) as (n' & E' & P' & _).
    exists n'. split; [exact E'|congruence].
  - intros k Hk. apply (same_tree_keys _ _ k S). apply M2. exact Hk.
Qed.

Lemma tmatch_adjacent t l a b : tmatch t l -> tstruct l -> adjacent t a b ->
  exists na, aget a l = Some na /\ In b (neighbouring_nodes na).
Proof.
  intros [M1 _] T [H|H].
  - destruct (M1 a b H) as (nb & Eb & Pb). destruct (ts_par _ T b nb a Eb Pb) as (na & Ea & Hin).
    exists na. split; [exact Ea|]. apply in_neighbouring. right. exact Hin.
  - destruct (M1 b a H) as (na & Ea & Pa). exists na. split; [exact Ea|]. apply in_neighbouring. left. exact Pa.
Qed.

(* ---- the invariant between two updates ---------------------------------------------------------------------- *)
Record tinv (l0 : list (id * node)) (s : store) (c : id) : Prop := {
  ti_wf : Inv.wf s;
  ti_same : same_tree l0 (nodes s);
  ti_iso : iso_check (s, Some c) = true;
  ti_c : amem c (nodes s) = true
}.

Lemma same_tree_None l l' k : same_tree l l' -> aget k l = None -> aget k l' = None.
Proof. intros [_ H] E. specialize (H k). rewrite E in H. destruct (aget k l'); [contradiction|reflexivity]. Qed.

Lemma same_tree_amem l l' k : same_tree l l' -> amem k l = true -> amem k l' = true.
Proof. intros S H. apply amem_true. apply (same_tree_keys _ _ k S). apply amem_true. exact H. Qed.

Lemma ev_fold_none lk tmp tr : fold_left (ev_fold lk tmp) tr None = None.
Proof. induction tr as [|e tr IH]; cbn; [reflexivity|exact IH]. Qed.

Lemma tdvp_run_cons lk tmp cs e tr cs' : tdvp_run lk tmp cs (e :: tr) = Some cs' ->
  exists cs1, ev_step lk tmp cs e = Some cs1 /\ tdvp_run lk tmp cs1 tr = Some cs'.
Proof.
  unfold tdvp_run. cbn [fold_left ev_fold]. destruct (ev_step lk tmp cs e) as [cs1|]; [eauto|].
  rewrite ev_fold_none. discriminate.
Qed.

Lemma run_cons_inv t c e tr c' : run t c (e :: tr) = Some c' -> exists c1, exec t c e = Some c1 /\ run t c1 tr = Some c'.
Proof. cbn. destruct (exec t c e) as [c1|]; [eauto|discriminate]. Qed.

Lemma lift_Some cs o cs' : lift cs o = Some cs' -> exists s', o = Some s' /\ cs' = (s', snd cs).
Proof. unfold lift. destruct o as [s'|]; [|discriminate]. intros [= <-]. eauto. Qed.

Section Sim.
  Variables (t : rtree) (l0 : list (id * node)) (lk : id -> id -> id) (tmp : id).
  Hypothesis M : tmatch t l0.
  Hypothesis T0 : tstruct l0.
  Hypothesis Ftmp : aget tmp l0 = None.
  Hypothesis Flk : forall a b, aget (lk a b) l0 = None.

  Lemma sim_adjacent s a b : Inv.wf s -> same_tree l0 (nodes s) -> adjacent t a b ->
    exists na, aget a (nodes s) = Some na /\ In b (neighbouring_nodes na) /\ amem b (nodes s) = true.
  Proof.
    intros W S Hab. pose proof (wf_tstruct s W) as T.
    destruct (tmatch_adjacent t (nodes s) a b (tmatch_same_tree _ _ _ M S) T Hab) as (na & Ea & Hin).
    exists na. split; [exact Ea|]. split; [exact Hin|].
    destruct (ts_neighbour_sym _ _ _ _ T Ea Hin) as (nb & Eb & _). apply amem_aget. eauto.
  Qed.

  (* one plain event *)
  Lemma sim_plain e c c1 s cs1 :
    plain e = true -> pend c = None -> exec t c e = Some c1 -> tinv l0 s (centre c) ->
    ev_step lk tmp (s, Some (centre c)) e = Some cs1 ->
    tinv l0 (fst cs1) (centre c1) /\ snd cs1 = Some (centre c1) /\ pend c1 = None.
  Proof.
    intros Hpl Hpend Hex [W S I C] Hst. pose proof (exec_sound _ _ _ _ Hex) as Hreq.
    destruct e; try discriminate Hpl; cbn [ev_step fst snd] in Hst; cbn [requires] in Hreq.
    - (* Site *)
      destruct Hreq as (Hc & _). cbn in Hex. destruct (_ && _ && _) in Hex; [|discriminate]. injection Hex as <-. cbn [centre pend].
      apply lift_Some in Hst. destruct Hst as (s' & Hs & ->). cbn [fst snd]. subst n. split; [|auto].
      destruct (site_update_same_tree _ _ _ Hs) as [S' K]. constructor.
      + eapply site_update_wf; eauto.
      + exact (same_tree_trans _ _ _ S S').
      + apply (site_update_iso s (centre c) s' W C I Hs).
      + apply (same_tree_amem _ _ _ S' C).
    - (* SiteBack *)
      destruct Hreq as (Hc & _). cbn in Hex. destruct (_ && _ && _) in Hex; [|discriminate]. injection Hex as <-. cbn [centre pend].
      apply lift_Some in Hst. destruct Hst as (s' & Hs & ->). cbn [fst snd]. subst n. split; [|auto].
      destruct (site_update_same_tree _ _ _ Hs) as [S' K]. constructor.
      + eapply site_update_wf; eauto.
      + exact (same_tree_trans _ _ _ S S').
      + apply (site_update_iso s (centre c) s' W C I Hs).
      + apply (same_tree_amem _ _ _ S' C).
    - (* Move *)
      destruct Hreq as (Hc & _ & Hab). cbn in Hex. destruct (_ && _ && _) in Hex; [|discriminate]. injection Hex as <-. cbn [centre pend].
      destruct (sim_adjacent s a b W S Hab) as (na & Ea & Hin & Hb).
      destruct (move_center_all s (centre c) b Keep tmp cs1 W (same_tree_None _ _ _ S Ftmp) I C Hb Hst) as (W' & I' & S' & _ & Hsnd).
      split; [|auto]. destruct cs1 as [s' oc]. cbn [fst snd] in *. subst oc. constructor; auto.
      + exact (same_tree_trans _ _ _ S S').
      + apply (same_tree_amem _ _ _ S' Hb).
    - (* Cache *)
      cbn in Hex. destruct (_ && _) in Hex; [|discriminate]. injection Hex as <-. cbn [centre pend].
      apply lift_Some in Hst. destruct Hst as (s' & Hs & ->). cbn [fst snd]. split; [|auto].
      destruct (acc_same_tree _ _ _ Hs) as [S' K]. constructor.
      + eapply acc_wf; eauto.
      + exact (same_tree_trans _ _ _ S S').
      + apply (acc_iso s (centre c) n s' W C I Hs).
      + apply (same_tree_amem _ _ _ S' C).
    - (* Reinit *)
      cbn in Hex. injection Hex as <-. injection Hst as <-. cbn. split; [constructor; auto|auto].
    - (* AssertCentre *)
      cbn in Hex. destruct (_ && _) in Hex; [|discriminate]. injection Hex as <-.
      destruct (Nat.eqb (centre c) n); [|discriminate]. injection Hst as <-. cbn. split; [constructor; auto|auto].
    - (* AssertLeaf *)
      cbn in Hex. destruct (is_leaf t n); [|discriminate]. injection Hex as <-. injection Hst as <-. cbn. split; [constructor; auto|auto].
    - (* AssertEnd *)
      cbn in Hex. destruct (Nat.leb _ _); [|discriminate]. injection Hex as <-. injection Hst as <-. cbn. split; [constructor; auto|auto].
  Qed.

  (* a link block *)
  Lemma sim_link a b f c c4 s cs4 :
    pend c = None -> run t c [TDVP.Split a b; Cache a b; Link a b f; Absorb a b] = Some c4 -> tinv l0 s (centre c) ->
    tdvp_run lk tmp (s, Some (centre c)) [TDVP.Split a b; Cache a b; Link a b f; Absorb a b] = Some cs4 ->
    tinv l0 (fst cs4) (centre c4) /\ snd cs4 = Some (centre c4) /\ pend c4 = None.
  Proof.
    intros Hpend Hrun [W S I C] Hst.
    apply run_cons_inv in Hrun. destruct Hrun as (c1 & X1 & Hrun). pose proof (exec_sound _ _ _ _ X1) as (Hca & _ & Hab).
    cbn in X1. destruct (_ && _ && _) in X1; [|discriminate]. injection X1 as <-.
    apply run_cons_inv in Hrun. destruct Hrun as (c2 & X2 & Hrun). cbn in X2. destruct (_ && _) in X2; [|discriminate]. injection X2 as <-.
    apply run_cons_inv in Hrun. destruct Hrun as (c3 & X3 & Hrun). cbn in X3.
    destruct (_ && _ && _) in X3; [|discriminate]. injection X3 as <-.
    apply run_cons_inv in Hrun. destruct Hrun as (c4' & X4 & Hrun). cbn in X4. unfold pair_eqb in X4. cbn in X4. rewrite !Nat.eqb_refl in X4. cbn in X4.
    injection X4 as <-. cbn in Hrun. injection Hrun as <-. cbn [centre pend].
    apply tdvp_run_cons in Hst. destruct Hst as (cs1 & Y1 & Hst). cbn [ev_step fst snd] in Y1.
    apply lift_Some in Y1. destruct Y1 as (s1 & E1 & ->). cbn [snd] in *.
    apply tdvp_run_cons in Hst. destruct Hst as (cs2 & Y2 & Hst). cbn [ev_step fst snd] in Y2.
    apply lift_Some in Y2. destruct Y2 as (s2 & E2 & ->). cbn [snd] in *.
    apply tdvp_run_cons in Hst. destruct Hst as (cs3 & Y3 & Hst). cbn [ev_step fst snd] in Y3.
    apply lift_Some in Y3. destruct Y3 as (s3 & E3 & ->). cbn [snd] in *.
    apply tdvp_run_cons in Hst. destruct Hst as (cs4' & Y4 & Hst). cbn [ev_step fst snd] in Y4.
    destruct (contract_nodes s3 (lk a b) b b) as [s'|] eqn:E4; [|discriminate]. injection Y4 as <-.
    unfold tdvp_run in Hst. cbn in Hst. injection Hst as <-. cbn [fst snd].
    assert (HL : link_update s a b (lk a b) = Some s') by (unfold link_update; rewrite E1, E2, E3; exact E4).
    subst a. destruct (sim_adjacent s (centre c) b W S Hab) as (na & Ea & Hin & Hb).
    destruct (link_update_effect s (centre c) b (lk (centre c) b) s' na W Ea Hin (same_tree_None _ _ _ S (Flk _ _)) HL) as (W' & WE & _).
    destruct (weffect_iso s (centre c) b s' na (wf_tstruct s W) Ea Hin I WE) as (I' & _ & S').
    split; [|auto]. constructor; auto.
    - exact (same_tree_trans _ _ _ S S').
    - apply (same_tree_amem _ _ _ S' Hb).
  Qed.

  Lemma run_app_inv c x y c' : run t c (x ++ y) = Some c' -> exists c1, run t c x = Some c1 /\ run t c1 y = Some c'.
  Proof. rewrite run_app. destruct (run t c x) as [c1|]; [eauto|discriminate]. Qed.

  Lemma tdvp_run_app cs x y cs' : tdvp_run lk tmp cs (x ++ y) = Some cs' ->
    exists cs1, tdvp_run lk tmp cs x = Some cs1 /\ tdvp_run lk tmp cs1 y = Some cs'.
  Proof.
    unfold tdvp_run. rewrite fold_left_app. destruct (fold_left (ev_fold lk tmp) x (Some cs)) as [cs1|]; [eauto|].
    rewrite ev_fold_none. discriminate.
  Qed.

  (* the whole trace *)
  Theorem sim_run tr : blocked tr -> forall c c' s cs',
    pend c = None -> run t c tr = Some c' -> tinv l0 s (centre c) ->
    tdvp_run lk tmp (s, Some (centre c)) tr = Some cs' ->
    tinv l0 (fst cs') (centre c') /\ snd cs' = Some (centre c') /\ pend c' = None.
  Proof.
    induction 1 as [|e tr Hpl Hb IH|a b f tr Hb IH]; intros c c' s cs' Hp Hrun Hinv Hst.
    - cbn in Hrun. injection Hrun as <-. unfold tdvp_run in Hst. cbn in Hst. injection Hst as <-. auto.
    - apply run_cons_inv in Hrun. destruct Hrun as (c1 & X1 & Hrun).
      apply tdvp_run_cons in Hst. destruct Hst as (cs1 & Y1 & Hst).
      destruct (sim_plain e c c1 s cs1 Hpl Hp X1 Hinv Y1) as (Hinv1 & Hs1 & Hp1).
      destruct cs1 as [s1 oc1]. cbn [fst snd] in *. subst oc1. apply (IH c1 c' s1 cs' Hp1 Hrun Hinv1 Hst).
    - change (TDVP.Split a b :: Cache a b :: Link a b f :: Absorb a b :: tr)
        with ([TDVP.Split a b; Cache a b; Link a b f; Absorb a b] ++ tr) in Hrun, Hst.
      apply run_app_inv in Hrun. destruct Hrun as (c4 & X & Hrun).
      apply tdvp_run_app in Hst. destruct Hst as (cs4 & Y & Hst).
      destruct (sim_link a b f c c4 s cs4 Hp X Hinv Y) as (Hinv4 & Hs4 & Hp4).
      destruct cs4 as [s4 oc4]. cbn [fst snd] in *. subst oc4. apply (IH c4 c' s4 cs' Hp4 Hrun Hinv4 Hst).
  Qed.
End Sim.

(* ==== part 3 ==== *)
Lemma run_caches t keys : forall c c', run t c (map (fun k : nat * nat => Cache (fst k) (snd k)) keys) = Some c' ->
  centre c' = centre c /\ pend c' = pend c.
Proof.
  induction keys as [|k keys IH]; intros c c' H; cbn in H; [injection H as <-; auto|].
  destruct (_ && _) in H; [|discriminate]. apply IH in H. cbn in H. exact H.
Qed.

Lemma sched_ok_start t tr : sched_ok t tr ->
  exists u l c0 c1, update_path t = Some (u :: l) /\ centre c0 = u /\ pend c0 = None /\
                    run t c0 tr = Some c1 /\ centre c1 = u /\ pend c1 = None.
Proof.
  intros (u & l & ini & s0 & s1 & s2 & Hu & Hini & R0 & R1 & C1 & P1 & _).
  exists u, l, s0, s1. split; [exact Hu|].
  unfold init_trace, init_trace_gen in Hini. rewrite Hu in Hini. unfold init_cache in Hini.
  destruct (cache_keys t u) as [keys|]; [|discriminate]. cbn in Hini. injection Hini as <-.
  destruct (run_caches t keys _ _ R0) as [A B]. cbn in A, B. auto.
Qed.

Lemma amem_false_None {V} k (l : list (nat * V)) : amem k l = false -> aget k l = None.
Proof. unfold amem. destruct (aget k l); [discriminate|reflexivity]. Qed.

(* one step of either one-site class from a canonical state centred at update_path[0] *)
Lemma step_sound lk tmp t tr s u rest cs' :
  blocked tr -> sched_ok t tr ->
  tmatch t (nodes s) -> wfb s = true -> update_path t = Some (u :: rest) -> In u (ids t) ->
  iso_check (s, Some u) = true ->
  amem tmp (nodes s) = false -> (forall a b, amem (lk a b) (nodes s) = false) ->
  tdvp_run lk tmp (s, Some u) tr = Some cs' ->
  wfb (fst cs') = true /\ same_tree (nodes s) (nodes (fst cs')) /\ root (fst cs') = root s /\
  snd cs' = Some u /\ iso_check cs' = true /\ tmatch t (nodes (fst cs')).
Proof.
  intros Hb Hok M Wb Hu Hin Hiso Ft Fl Hrun.
  destruct (sched_ok_start t tr Hok) as (u' & l' & c0 & c1 & Hu' & C0 & P0 & R & C1 & P1).
  rewrite Hu in Hu'. injection Hu' as <- <-.
  pose proof (wfb_wf s Wb) as W.
  assert (Hinv : tinv (nodes s) s (centre c0)).
  { rewrite C0. constructor; auto; [apply same_tree_refl|]. apply amem_true. apply (proj2 M). exact Hin. }
  rewrite <- C0 in Hrun.
  destruct (sim_run t (nodes s) lk tmp M (amem_false_None _ _ Ft) (fun a b => amem_false_None _ _ (Fl a b))
              tr Hb c0 c1 s cs' P0 R Hinv Hrun) as ([W' S' I' C'] & Hs & _).
  rewrite C1 in *. destruct cs' as [s' oc]. cbn [fst snd] in *. subst oc.
  split; [apply wf_wfb; exact W'|]. split; [exact S'|]. split; [apply same_tree_root; assumption|].
  split; [reflexivity|]. split; [exact I'|]. apply (tmatch_same_tree _ _ _ M S').
Qed.

Lemma first_in_ids t u rest : NoDup (ids t) -> update_path t = Some (u :: rest) -> In u (ids t).
Proof.
  intros Hw Hu. destruct (update_path_perm t Hw) as (p & Hp & P). rewrite Hu in Hp. injection Hp as <-.
  apply (Permutation_in _ P). left. reflexivity.
Qed.

Theorem tdvp1_step_t_sound lk tmp t s u rest cs' :
  NoDup (ids t) -> 2 <= size t -> tmatch t (nodes s) -> wfb s = true -> update_path t = Some (u :: rest) ->
  iso_check (s, Some u) = true ->
  amem tmp (nodes s) = false -> (forall a b, amem (lk a b) (nodes s) = false) ->
  tdvp1_step_t lk tmp t (s, Some u) = Some cs' ->
  wfb (fst cs') = true /\ same_tree (nodes s) (nodes (fst cs')) /\ root (fst cs') = root s /\
  snd cs' = Some u /\ iso_check cs' = true /\ tmatch t (nodes (fst cs')).
Proof.
  intros Hw Hs M Wb Hu Hiso Ft Fl H. unfold tdvp1_step_t in H.
  destruct (cache_fresh_universal t Hw Hs) as ((tr & Htr & Hok) & _). rewrite Htr in H.
  apply (step_sound lk tmp t tr s u rest cs' (blocked_trace1 t tr Htr) Hok M Wb Hu (first_in_ids t u rest Hw Hu) Hiso Ft Fl H).
Qed.

Theorem tdvp2_step_t_sound lk tmp t s u rest cs' :
  NoDup (ids t) -> 2 <= size t -> tmatch t (nodes s) -> wfb s = true -> update_path t = Some (u :: rest) ->
  iso_check (s, Some u) = true ->
  amem tmp (nodes s) = false -> (forall a b, amem (lk a b) (nodes s) = false) ->
  tdvp2_step_t lk tmp t (s, Some u) = Some cs' ->
  wfb (fst cs') = true /\ same_tree (nodes s) (nodes (fst cs')) /\ root (fst cs') = root s /\
  snd cs' = Some u /\ iso_check cs' = true /\ tmatch t (nodes (fst cs')).
Proof.
  intros Hw Hs M Wb Hu Hiso Ft Fl H. unfold tdvp2_step_t in H.
  destruct (cache_fresh_universal t Hw Hs) as (_ & (tr & Htr & Hok) & _). rewrite Htr in H.
  apply (step_sound lk tmp t tr s u rest cs' (blocked_trace2 t tr Htr) Hok M Wb Hu (first_in_ids t u rest Hw Hu) Hiso Ft Fl H).
Qed.

