(* One time step of the one-site TDVP classes over the Layer-W store (Evo/TDVPStore.v): the trace of Sched/TDVP.v,
   proved schedule-correct for every tree (cache_fresh_universal), is simulated on the store; the invariant between two
   updates is: store invariant, same tree as at the start, isometry attribute at the recorded centre.  Every event
   succeeds; every edge and every open leg keeps its dimension (KEEP mode).
   Last part: the two-site step (structure: success, invariant, same tree, centre).  Last part: the tree read off a well-formed store (tree_of) is a legitimate argument.  Proofs only. *)
From Coq Require Import List Arith Bool Lia Permutation ZArith.
From PTN Require Import TTN.Store TTN.StoreProofs TTN.Canon TTN.CanonProofs TTN.Inv TTN.InvProofs TTN.InvNode
  TTN.InvContract TTN.CanonTree TTN.CanonMore TTN.CanonStep TTN.CanonDist TTN.CanonPath TTN.CanonIso Evo.TDVPStoreEffects Evo.TDVPTwoSite.
From PTN Require Import Tree.RTree Tree.RTreeProofs Tree.Nav Tree.UpdatePath Tree.UpdatePathProofs Tree.CachePath Sched.TDVP Sched.TDVPProofs Sched.TDVPFreshU Evo.TDVPStore.
Import ListNotations.

(* ==== part 1 ==== *)
(* ---- the shape of the one-site traces: link updates come as blocks -------------------------------------- *)
Definition plain (e : ev) : bool :=
  match e with TDVP.Split _ _ | Link _ _ _ | Absorb _ _ | TwoSite _ _ _ => false | _ => true end.

Inductive blocked : list ev -> Prop :=
| bl_nil : blocked []
| bl_plain e tr : plain e = true -> blocked tr -> blocked (e :: tr)
| bl_link a b f tr : blocked tr -> blocked (TDVP.Split a b :: Cache a b :: Link a b f :: Absorb a b :: tr).

Lemma blocked_app x y : blocked x -> blocked y -> blocked (x ++ y).
Proof. intros Hx Hy. induction Hx; cbn; [exact Hy|constructor; assumption|constructor; assumption]. Qed.

Lemma blocked_plain l : forallb plain l = true -> blocked l.
Proof.
  induction l as [|e l IH]; cbn; [constructor|]. intros H. apply andb_true_iff in H. destruct H. constructor; auto.
Qed.

Lemma blocked_link a b f : blocked (link a b f).
Proof. unfold link. apply bl_plain; [reflexivity|]. apply bl_link. constructor. Qed.

Lemma blocked_moves p : blocked (moves p).
Proof.
  apply blocked_plain. unfold moves. destruct p as [|a p]; [reflexivity|]. cbn [forallb plain andb].
  generalize (consec (a :: p)). intros l. induction l as [|x l IH]; cbn; [reflexivity|exact IH].
Qed.

Ltac blk := repeat (first [apply bl_nil | apply bl_link | (apply bl_plain; [reflexivity|])]).

Lemma blocked_concat_opt {B} (f : B -> option (list ev)) l r :
  concat_opt (map f l) = Some r -> (forall i es, In i l -> f i = Some es -> blocked es) -> blocked r.
Proof.
  revert r. induction l as [|i l IH]; intros r H Hall.
  - cbn in H. injection H as <-. constructor.
  - cbn [map] in H. apply concat_opt_cons in H. destruct H as (x & y & Hx & Hy & ->).
    apply blocked_app; [apply (Hall i x); [left; reflexivity|exact Hx]|].
    apply IH; [exact Hy|]. intros j es Hj. apply Hall. right. exact Hj.
Qed.

Lemma blocked_reset1 tr cur first r : reset1 tr cur first = Some r -> blocked r.
Proof.
  unfold reset1. destruct (Nav.path_from_to tr cur first) as [p|]; [|discriminate].
  unfold init_cache. destruct (cache_keys tr first) as [c|]; cbn; [|discriminate]. intros [= <-].
  apply blocked_plain. rewrite forallb_app. apply andb_true_iff. split.
  - generalize (consec p). intros l. induction l as [|x l IH]; cbn; [reflexivity|exact IH].
  - cbn. induction c as [|x c IH]; cbn; [reflexivity|exact IH].
Qed.

Lemma blocked_trace1 t tr : trace1 t = Some tr -> blocked tr.
Proof.
  unfold trace1, trace1_gen. destruct (update_path t) as [up|]; [|discriminate].
  destruct (orth_paths t up) as [op|]; [|discriminate]. unfold trace1_of. intros H.
  apply (blocked_concat_opt _ _ _ H). intros i es _. unfold t1_update.
  destruct (nth_error up i) as [n|]; [|discriminate].
  destruct (Nat.eqb i (length up - 1)).
  - match goal with |- match ?x with _ => _ end = _ -> _ => destruct x as [p|]; [|discriminate] end.
    destruct (nth_error up 0) as [first|]; [|discriminate].
    destruct (reset1 t n first) as [r|] eqn:Er; [|discriminate]. intros [= <-].
    apply blocked_app; [apply blocked_moves|]. apply blocked_app; [destruct (Nat.ltb 2 (size t)); apply blocked_plain; reflexivity|].
    apply bl_plain; [reflexivity|]. eapply blocked_reset1; eauto.
  - destruct (Nat.eqb i 0).
    + destruct (nth_error op 0) as [[|nx ?]|]; try discriminate. intros [= <-].
      blk.
    + destruct (nth_error op (i - 1)) as [p|]; [|discriminate].
      destruct (nth_error op i) as [[|nx ?]|]; try discriminate. intros [= <-].
      apply blocked_app; [apply blocked_moves|]. blk.
Qed.

Lemma opt_app_Some {A} (a b : option (list A)) r : opt_app a b = Some r -> exists x y, a = Some x /\ b = Some y /\ r = x ++ y.
Proof. destruct a as [x|], b as [y|]; cbn; try discriminate. intros [= <-]. eauto. Qed.

Lemma blocked_trace2 t tr : trace2 t = Some tr -> blocked tr.
Proof.
  unfold trace2. destruct (update_path t) as [up|]; [|discriminate].
  destruct (orth_paths t up) as [op|]; [|discriminate]. destruct (back_orth_paths t (rev up)) as [bop|]; [|discriminate].
  unfold trace2_of. destruct (last_opt up) as [z|]; [|discriminate]. destruct (nth_error (rev up) 1) as [b1|]; [|discriminate].
  destruct (last_opt (rev up)) as [a|]; [|discriminate]. intros H.
  apply opt_app_Some in H. destruct H as (x1 & y1 & H1 & H & ->).
  apply opt_app_Some in H. destruct H as (x2 & y2 & H2 & H & ->).
  apply opt_app_Some in H. destruct H as (x3 & y3 & H3 & H4 & ->).
  injection H2 as <-. injection H4 as <-.
  apply blocked_app.
  { apply (blocked_concat_opt _ _ _ H1). intros i es _. unfold t2_forward.
    destruct (nth_error up i) as [n|]; [|discriminate].
    destruct (if Nat.eqb i 0 then Some [] else nth_error op (i - 1)) as [p|]; [|discriminate].
    destruct (nth_error op i) as [[|nx ?]|]; try discriminate. intros [= <-].
    apply blocked_app; [apply blocked_moves|]. blk. }
  apply blocked_app.
  { blk. }
  apply blocked_app.
  { apply (blocked_concat_opt _ _ _ H3). intros i es _. unfold t2_backward.
    destruct (nth_error (rev up) i) as [n|]; [|discriminate].
    destruct (nth_error bop (i - 1)) as [p|]; [|discriminate].
    destruct (nth_error (rev up) (i + 1)) as [nx|]; [|discriminate]. intros [= <-].
    repeat (apply bl_plain; [reflexivity|]). apply blocked_app; [apply blocked_moves|apply blocked_link]. }
  apply blocked_plain. reflexivity.
Qed.

(* ==== part 2 ==== *)
(* ---- the tree of the schedule and the node dictionary of the store ------------------------------------------ *)
(* every edge of t is a parent pointer of the dictionary, every identifier of t is a key (child order is free) *)
Definition tmatch (t : rtree) (l : list (id * node)) : Prop :=
  (forall a b, In (a, b) (edges t) -> exists n, aget b l = Some n /\ parent n = Some a) /\
  (forall k, In k (ids t) -> In k (akeys l)).

Lemma tmatch_same_tree t l l' : tmatch t l -> same_tree l l' -> tmatch t l'.
Proof.
  intros [M1 M2] S. split.
  - intros a b Hab. destruct (M1 a b Hab) as (n & E & P). destruct (same_tree_some _ _ _ _ S E) as (n' & E' & P' & _).
    exists n'. split; [exact E'|congruence].
  - intros k Hk. apply (same_tree_keys _ _ k S). apply M2. exact Hk.
Qed.

Lemma tmatch_adjacent t l a b : tmatch t l -> tstruct l -> adjacent t a b ->
  exists na, aget a l = Some na /\ In b (neighbouring_nodes na).
Proof.
  intros [M1 _] T [H|H].
  - destruct (M1 a b H) as (nb & Eb & Pb). destruct (ts_par _ T b nb a Eb Pb) as (na & Ea & Hin).
    exists na. split; [exact Ea|]. apply in_neighbouring. right. exact Hin.
  - destruct (M1 b a H) as (na & Ea & Pa). exists na. split; [exact Ea|]. apply in_neighbouring. left. exact Pa.
Qed.

(* ---- the invariant between two updates ---------------------------------------------------------------------- *)
Record tinv (l0 : list (id * node)) (s : store) (c : id) : Prop := {
  ti_wf : Inv.wf s;
  ti_same : same_tree l0 (nodes s);
  ti_iso : iso_check (s, Some c) = true;
  ti_c : amem c (nodes s) = true
}.

Lemma same_tree_None l l' k : same_tree l l' -> aget k l = None -> aget k l' = None.
Proof. intros [_ H] E. specialize (H k). rewrite E in H. destruct (aget k l'); [contradiction|reflexivity]. Qed.

Lemma same_tree_amem l l' k : same_tree l l' -> amem k l = true -> amem k l' = true.
Proof. intros S H. apply amem_true. apply (same_tree_keys _ _ k S). apply amem_true. exact H. Qed.

Lemma ev_fold_none lk tmp tr : fold_left (ev_fold lk tmp) tr None = None.
Proof. induction tr as [|e tr IH]; cbn; [reflexivity|exact IH]. Qed.

Lemma tdvp_run_cons lk tmp cs e tr cs' : tdvp_run lk tmp cs (e :: tr) = Some cs' ->
  exists cs1, ev_step lk tmp cs e = Some cs1 /\ tdvp_run lk tmp cs1 tr = Some cs'.
Proof.
  unfold tdvp_run. cbn [fold_left ev_fold]. destruct (ev_step lk tmp cs e) as [cs1|]; [eauto|].
  rewrite ev_fold_none. discriminate.
Qed.

Lemma run_cons_inv t c e tr c' : run t c (e :: tr) = Some c' -> exists c1, exec t c e = Some c1 /\ run t c1 tr = Some c'.
Proof. cbn. destruct (exec t c e) as [c1|]; [eauto|discriminate]. Qed.

Lemma lift_Some cs o cs' : lift cs o = Some cs' -> exists s', o = Some s' /\ cs' = (s', snd cs).
Proof. unfold lift. destruct o as [s'|]; [|discriminate]. intros [= <-]. eauto. Qed.

Section Sim.
  Variables (t : rtree) (l0 : list (id * node)) (lk : id -> id -> id) (tmp : id).
  Hypothesis M : tmatch t l0.
  Hypothesis T0 : tstruct l0.
  Hypothesis Ftmp : aget tmp l0 = None.
  Hypothesis Flk : forall a b, aget (lk a b) l0 = None.

  Lemma sim_adjacent s a b : Inv.wf s -> same_tree l0 (nodes s) -> adjacent t a b ->
    exists na, aget a (nodes s) = Some na /\ In b (neighbouring_nodes na) /\ amem b (nodes s) = true.
  Proof.
    intros W S Hab. pose proof (wf_tstruct s W) as T.
    destruct (tmatch_adjacent t (nodes s) a b (tmatch_same_tree _ _ _ M S) T Hab) as (na & Ea & Hin).
    exists na. split; [exact Ea|]. split; [exact Hin|].
    destruct (ts_neighbour_sym _ _ _ _ T Ea Hin) as (nb & Eb & _). apply amem_aget. eauto.
  Qed.

  (* one plain event *)
  Lemma sim_plain e c c1 s cs1 :
    plain e = true -> pend c = None -> exec t c e = Some c1 -> tinv l0 s (centre c) ->
    ev_step lk tmp (s, Some (centre c)) e = Some cs1 ->
    tinv l0 (fst cs1) (centre c1) /\ snd cs1 = Some (centre c1) /\ pend c1 = None.
  Proof.
    intros Hpl Hpend Hex [W S I C] Hst. pose proof (exec_sound _ _ _ _ Hex) as Hreq.
    destruct e; try discriminate Hpl; cbn [ev_step fst snd] in Hst; cbn [requires] in Hreq.
    - (* Site *)
      destruct Hreq as (Hc & _). cbn in Hex. destruct (_ && _ && _) in Hex; [|discriminate]. injection Hex as <-. cbn [centre pend].
      apply lift_Some in Hst. destruct Hst as (s' & Hs & ->). cbn [fst snd]. subst n. split; [|auto].
      destruct (site_update_same_tree _ _ _ Hs) as [S' K]. constructor.
      + eapply site_update_wf; eauto.
      + exact (same_tree_trans _ _ _ S S').
      + apply (site_update_iso s (centre c) s' W C I Hs).
      + apply (same_tree_amem _ _ _ S' C).
    - (* SiteBack *)
      destruct Hreq as (Hc & _). cbn in Hex. destruct (_ && _ && _) in Hex; [|discriminate]. injection Hex as <-. cbn [centre pend].
      apply lift_Some in Hst. destruct Hst as (s' & Hs & ->). cbn [fst snd]. subst n. split; [|auto].
      destruct (site_update_same_tree _ _ _ Hs) as [S' K]. constructor.
      + eapply site_update_wf; eauto.
      + exact (same_tree_trans _ _ _ S S').
      + apply (site_update_iso s (centre c) s' W C I Hs).
      + apply (same_tree_amem _ _ _ S' C).
    - (* Move *)
      destruct Hreq as (Hc & _ & Hab). cbn in Hex. destruct (_ && _ && _) in Hex; [|discriminate]. injection Hex as <-. cbn [centre pend].
      destruct (sim_adjacent s a b W S Hab) as (na & Ea & Hin & Hb).
      destruct (move_center_all s (centre c) b Keep tmp cs1 W (same_tree_None _ _ _ S Ftmp) I C Hb Hst) as (W' & I' & S' & _ & Hsnd).
      split; [|auto]. destruct cs1 as [s' oc]. cbn [fst snd] in *. subst oc. constructor; auto.
      + exact (same_tree_trans _ _ _ S S').
      + apply (same_tree_amem _ _ _ S' Hb).
    - (* Cache *)
      cbn in Hex. destruct (_ && _) in Hex; [|discriminate]. injection Hex as <-. cbn [centre pend].
      apply lift_Some in Hst. destruct Hst as (s' & Hs & ->). cbn [fst snd]. split; [|auto].
      destruct (acc_same_tree _ _ _ Hs) as [S' K]. constructor.
      + eapply acc_wf; eauto.
      + exact (same_tree_trans _ _ _ S S').
      + apply (acc_iso s (centre c) n s' W C I Hs).
      + apply (same_tree_amem _ _ _ S' C).
    - (* Reinit *)
      cbn in Hex. injection Hex as <-. injection Hst as <-. cbn. split; [constructor; auto|auto].
    - (* AssertCentre *)
      cbn in Hex. destruct (_ && _) in Hex; [|discriminate]. injection Hex as <-.
      destruct (Nat.eqb (centre c) n); [|discriminate]. injection Hst as <-. cbn. split; [constructor; auto|auto].
    - (* AssertLeaf *)
      cbn in Hex. destruct (is_leaf t n); [|discriminate]. injection Hex as <-. injection Hst as <-. cbn. split; [constructor; auto|auto].
    - (* AssertEnd *)
      cbn in Hex. destruct (Nat.leb _ _); [|discriminate]. injection Hex as <-. injection Hst as <-. cbn. split; [constructor; auto|auto].
  Qed.

  (* a link block *)
  Lemma sim_link a b f c c4 s cs4 :
    pend c = None -> run t c [TDVP.Split a b; Cache a b; Link a b f; Absorb a b] = Some c4 -> tinv l0 s (centre c) ->
    tdvp_run lk tmp (s, Some (centre c)) [TDVP.Split a b; Cache a b; Link a b f; Absorb a b] = Some cs4 ->
    tinv l0 (fst cs4) (centre c4) /\ snd cs4 = Some (centre c4) /\ pend c4 = None.
  Proof.
    intros Hpend Hrun [W S I C] Hst.
    apply run_cons_inv in Hrun. destruct Hrun as (c1 & X1 & Hrun). pose proof (exec_sound _ _ _ _ X1) as (Hca & _ & Hab).
    cbn in X1. destruct (_ && _ && _) in X1; [|discriminate]. injection X1 as <-.
    apply run_cons_inv in Hrun. destruct Hrun as (c2 & X2 & Hrun). cbn in X2. destruct (_ && _) in X2; [|discriminate]. injection X2 as <-.
    apply run_cons_inv in Hrun. destruct Hrun as (c3 & X3 & Hrun). cbn in X3.
    destruct (_ && _ && _) in X3; [|discriminate]. injection X3 as <-.
    apply run_cons_inv in Hrun. destruct Hrun as (c4' & X4 & Hrun). cbn in X4. unfold pair_eqb in X4. cbn in X4. rewrite !Nat.eqb_refl in X4. cbn in X4.
    injection X4 as <-. cbn in Hrun. injection Hrun as <-. cbn [centre pend].
    apply tdvp_run_cons in Hst. destruct Hst as (cs1 & Y1 & Hst). cbn [ev_step fst snd] in Y1.
    apply lift_Some in Y1. destruct Y1 as (s1 & E1 & ->). cbn [snd] in *.
    apply tdvp_run_cons in Hst. destruct Hst as (cs2 & Y2 & Hst). cbn [ev_step fst snd] in Y2.
    apply lift_Some in Y2. destruct Y2 as (s2 & E2 & ->). cbn [snd] in *.
    apply tdvp_run_cons in Hst. destruct Hst as (cs3 & Y3 & Hst). cbn [ev_step fst snd] in Y3.
    apply lift_Some in Y3. destruct Y3 as (s3 & E3 & ->). cbn [snd] in *.
    apply tdvp_run_cons in Hst. destruct Hst as (cs4' & Y4 & Hst). cbn [ev_step fst snd] in Y4.
    destruct (contract_nodes s3 (lk a b) b b) as [s'|] eqn:E4; [|discriminate]. injection Y4 as <-.
    unfold tdvp_run in Hst. cbn in Hst. injection Hst as <-. cbn [fst snd].
    assert (HL : link_update s a b (lk a b) = Some s') by (unfold link_update; rewrite E1, E2, E3; exact E4).
    subst a. destruct (sim_adjacent s (centre c) b W S Hab) as (na & Ea & Hin & Hb).
    destruct (link_update_effect s (centre c) b (lk (centre c) b) s' na W Ea Hin (same_tree_None _ _ _ S (Flk _ _)) HL) as (W' & WE & _).
    destruct (weffect_iso s (centre c) b s' na (wf_tstruct s W) Ea Hin I WE) as (I' & _ & S').
    split; [|auto]. constructor; auto.
    - exact (same_tree_trans _ _ _ S S').
    - apply (same_tree_amem _ _ _ S' Hb).
  Qed.

  Lemma run_app_inv c x y c' : run t c (x ++ y) = Some c' -> exists c1, run t c x = Some c1 /\ run t c1 y = Some c'.
  Proof. rewrite run_app. destruct (run t c x) as [c1|]; [eauto|discriminate]. Qed.

  Lemma tdvp_run_app cs x y cs' : tdvp_run lk tmp cs (x ++ y) = Some cs' ->
    exists cs1, tdvp_run lk tmp cs x = Some cs1 /\ tdvp_run lk tmp cs1 y = Some cs'.
  Proof.
    unfold tdvp_run. rewrite fold_left_app. destruct (fold_left (ev_fold lk tmp) x (Some cs)) as [cs1|]; [eauto|].
    rewrite ev_fold_none. discriminate.
  Qed.

  (* the whole trace *)
  Theorem sim_run tr : blocked tr -> forall c c' s cs',
    pend c = None -> run t c tr = Some c' -> tinv l0 s (centre c) ->
    tdvp_run lk tmp (s, Some (centre c)) tr = Some cs' ->
    tinv l0 (fst cs') (centre c') /\ snd cs' = Some (centre c') /\ pend c' = None.
  Proof.
    induction 1 as [|e tr Hpl Hb IH|a b f tr Hb IH]; intros c c' s cs' Hp Hrun Hinv Hst.
    - cbn in Hrun. injection Hrun as <-. unfold tdvp_run in Hst. cbn in Hst. injection Hst as <-. auto.
    - apply run_cons_inv in Hrun. destruct Hrun as (c1 & X1 & Hrun).
      apply tdvp_run_cons in Hst. destruct Hst as (cs1 & Y1 & Hst).
      destruct (sim_plain e c c1 s cs1 Hpl Hp X1 Hinv Y1) as (Hinv1 & Hs1 & Hp1).
      destruct cs1 as [s1 oc1]. cbn [fst snd] in *. subst oc1. apply (IH c1 c' s1 cs' Hp1 Hrun Hinv1 Hst).
    - change (TDVP.Split a b :: Cache a b :: Link a b f :: Absorb a b :: tr)
        with ([TDVP.Split a b; Cache a b; Link a b f; Absorb a b] ++ tr) in Hrun, Hst.
      apply run_app_inv in Hrun. destruct Hrun as (c4 & X & Hrun).
      apply tdvp_run_app in Hst. destruct Hst as (cs4 & Y & Hst).
      destruct (sim_link a b f c c4 s cs4 Hp X Hinv Y) as (Hinv4 & Hs4 & Hp4).
      destruct cs4 as [s4 oc4]. cbn [fst snd] in *. subst oc4. apply (IH c4 c' s4 cs' Hp4 Hrun Hinv4 Hst).
  Qed.
  (* ---- ... and every event of the trace succeeds on the store ------------------------------------------------ *)
  Lemma sim_plain_ex e c c1 s :
    plain e = true -> pend c = None -> exec t c e = Some c1 -> tinv l0 s (centre c) ->
    exists cs1, ev_step lk tmp (s, Some (centre c)) e = Some cs1.
  Proof.
    intros Hpl Hpend Hex [W S I C]. pose proof (exec_sound _ _ _ _ Hex) as Hreq.
    destruct e; try discriminate Hpl; cbn [ev_step fst snd]; cbn [requires] in Hreq.
    - destruct Hreq as (Hc & _). subst n. destruct (site_update_some s (centre c) W C) as [s' ->]. cbn. eauto.
    - destruct Hreq as (Hc & _). subst n. destruct (site_update_some s (centre c) W C) as [s' ->]. cbn. eauto.
    - destruct Hreq as (Hc & _ & Hab). destruct (sim_adjacent s a b W S Hab) as (na & Ea & Hin & Hb).
      apply (move_center_some s (centre c) b tmp W (same_tree_None _ _ _ S Ftmp) I C Hb).
    - destruct Hreq as (Hab & _). destruct (sim_adjacent s n m W S Hab) as (na & Ea & _).
      destruct (acc_some s n W) as [s' ->]; [apply amem_aget; eauto|]. cbn. eauto.
    - eauto.
    - destruct Hreq as (Hc & _). rewrite Hc, Nat.eqb_refl. eauto.
    - eauto.
    - eauto.
  Qed.

  Lemma sim_link_ex a b f c c4 s :
    pend c = None -> run t c [TDVP.Split a b; Cache a b; Link a b f; Absorb a b] = Some c4 -> tinv l0 s (centre c) ->
    exists cs4, tdvp_run lk tmp (s, Some (centre c)) [TDVP.Split a b; Cache a b; Link a b f; Absorb a b] = Some cs4.
  Proof.
    intros Hpend Hrun [W S I C].
    apply run_cons_inv in Hrun. destruct Hrun as (c1 & X1 & _). pose proof (exec_sound _ _ _ _ X1) as (Hca & _ & Hab).
    subst a. destruct (sim_adjacent s (centre c) b W S Hab) as (na & Ea & Hin & Hb).
    destruct (link_update_some s (centre c) b (lk (centre c) b) na W Ea Hin (same_tree_None _ _ _ S (Flk _ _))) as [s' HL].
    unfold link_update in HL.
    destruct (split_site s (centre c) b (lk (centre c) b)) as [s1|] eqn:E1; [|discriminate].
    destruct (acc s1 (centre c)) as [s2|] eqn:E2; [|discriminate].
    destruct (site_update s2 (lk (centre c) b)) as [s3|] eqn:E3; [|discriminate].
    exists (s', Some b). unfold tdvp_run. cbn [fold_left ev_fold ev_step fst snd lift].
    rewrite E1. cbn [lift fst snd ev_fold ev_step]. rewrite E2. cbn [lift fst snd ev_fold ev_step]. rewrite E3.
    cbn [lift fst snd ev_fold ev_step]. rewrite HL. reflexivity.
  Qed.

  Theorem sim_run_ex tr : blocked tr -> forall c c' s,
    pend c = None -> run t c tr = Some c' -> tinv l0 s (centre c) ->
    exists cs', tdvp_run lk tmp (s, Some (centre c)) tr = Some cs'.
  Proof.
    induction 1 as [|e tr Hpl Hb IH|a b f tr Hb IH]; intros c c' s Hp Hrun Hinv.
    - unfold tdvp_run. cbn. eauto.
    - apply run_cons_inv in Hrun. destruct Hrun as (c1 & X1 & Hrun).
      destruct (sim_plain_ex e c c1 s Hpl Hp X1 Hinv) as [cs1 Y1].
      destruct (sim_plain e c c1 s cs1 Hpl Hp X1 Hinv Y1) as (Hinv1 & Hs1 & Hp1).
      destruct cs1 as [s1 oc1]. cbn [fst snd] in *. subst oc1.
      destruct (IH c1 c' s1 Hp1 Hrun Hinv1) as [cs' Hst]. exists cs'.
      unfold tdvp_run in *. cbn [fold_left ev_fold]. rewrite Y1. exact Hst.
    - change (TDVP.Split a b :: Cache a b :: Link a b f :: Absorb a b :: tr)
        with ([TDVP.Split a b; Cache a b; Link a b f; Absorb a b] ++ tr) in Hrun |- *.
      apply run_app_inv in Hrun. destruct Hrun as (c4 & X & Hrun).
      destruct (sim_link_ex a b f c c4 s Hp X Hinv) as [cs4 Y].
      destruct (sim_link a b f c c4 s cs4 Hp X Hinv Y) as (Hinv4 & Hs4 & Hp4).
      destruct cs4 as [s4 oc4]. cbn [fst snd] in *. subst oc4.
      destruct (IH c4 c' s4 Hp4 Hrun Hinv4) as [cs' Hst]. exists cs'.
      unfold tdvp_run in *. rewrite fold_left_app, Y. exact Hst.
  Qed.
End Sim.

(* ==== part 3 ==== *)
Lemma run_caches t keys : forall c c', run t c (map (fun k : nat * nat => Cache (fst k) (snd k)) keys) = Some c' ->
  centre c' = centre c /\ pend c' = pend c.
Proof.
  induction keys as [|k keys IH]; intros c c' H; cbn in H; [injection H as <-; auto|].
  destruct (_ && _) in H; [|discriminate]. apply IH in H. cbn in H. exact H.
Qed.

Lemma sched_ok_start t tr : sched_ok t tr ->
  exists u l c0 c1, update_path t = Some (u :: l) /\ centre c0 = u /\ pend c0 = None /\
                    run t c0 tr = Some c1 /\ centre c1 = u /\ pend c1 = None.
Proof.
  intros (u & l & ini & s0 & s1 & s2 & Hu & Hini & R0 & R1 & C1 & P1 & _).
  exists u, l, s0, s1. split; [exact Hu|].
  unfold init_trace, init_trace_gen in Hini. rewrite Hu in Hini. unfold init_cache in Hini.
  destruct (cache_keys t u) as [keys|]; [|discriminate]. cbn in Hini. injection Hini as <-.
  destruct (run_caches t keys _ _ R0) as [A B]. cbn in A, B. auto.
Qed.

Lemma amem_false_None {V} k (l : list (nat * V)) : amem k l = false -> aget k l = None.
Proof. unfold amem. destruct (aget k l); [discriminate|reflexivity]. Qed.

(* one step of either one-site class from a canonical state centred at update_path[0] *)
Lemma step_sound lk tmp t tr s u rest cs' :
  blocked tr -> sched_ok t tr ->
  tmatch t (nodes s) -> wfb s = true -> update_path t = Some (u :: rest) -> In u (ids t) ->
  iso_check (s, Some u) = true ->
  amem tmp (nodes s) = false -> (forall a b, amem (lk a b) (nodes s) = false) ->
  tdvp_run lk tmp (s, Some u) tr = Some cs' ->
  wfb (fst cs') = true /\ same_tree (nodes s) (nodes (fst cs')) /\ root (fst cs') = root s /\
  snd cs' = Some u /\ iso_check cs' = true /\ tmatch t (nodes (fst cs')).
Proof.
  intros Hb Hok M Wb Hu Hin Hiso Ft Fl Hrun.
  destruct (sched_ok_start t tr Hok) as (u' & l' & c0 & c1 & Hu' & C0 & P0 & R & C1 & P1).
  rewrite Hu in Hu'. injection Hu' as <- <-.
  pose proof (wfb_wf s Wb) as W.
  assert (Hinv : tinv (nodes s) s (centre c0)).
  { rewrite C0. constructor; auto; [apply same_tree_refl|]. apply amem_true. apply (proj2 M). exact Hin. }
  rewrite <- C0 in Hrun.
  destruct (sim_run t (nodes s) lk tmp M (amem_false_None _ _ Ft) (fun a b => amem_false_None _ _ (Fl a b))
              tr Hb c0 c1 s cs' P0 R Hinv Hrun) as ([W' S' I' C'] & Hs & _).
  rewrite C1 in *. destruct cs' as [s' oc]. cbn [fst snd] in *. subst oc.
  split; [apply wf_wfb; exact W'|]. split; [exact S'|]. split; [apply same_tree_root; assumption|].
  split; [reflexivity|]. split; [exact I'|]. apply (tmatch_same_tree _ _ _ M S').
Qed.

Lemma first_in_ids t u rest : NoDup (ids t) -> update_path t = Some (u :: rest) -> In u (ids t).
Proof.
  intros Hw Hu. destruct (update_path_perm t Hw) as (p & Hp & P). rewrite Hu in Hp. injection Hp as <-.
  apply (Permutation_in _ P). left. reflexivity.
Qed.

Theorem tdvp1_step_t_sound lk tmp t s u rest cs' :
  NoDup (ids t) -> 2 <= size t -> tmatch t (nodes s) -> wfb s = true -> update_path t = Some (u :: rest) ->
  iso_check (s, Some u) = true ->
  amem tmp (nodes s) = false -> (forall a b, amem (lk a b) (nodes s) = false) ->
  tdvp1_step_t lk tmp t (s, Some u) = Some cs' ->
  wfb (fst cs') = true /\ same_tree (nodes s) (nodes (fst cs')) /\ root (fst cs') = root s /\
  snd cs' = Some u /\ iso_check cs' = true /\ tmatch t (nodes (fst cs')).
Proof.
  intros Hw Hs M Wb Hu Hiso Ft Fl H. unfold tdvp1_step_t in H.
  destruct (cache_fresh_universal t Hw Hs) as ((tr & Htr & Hok) & _). rewrite Htr in H.
  apply (step_sound lk tmp t tr s u rest cs' (blocked_trace1 t tr Htr) Hok M Wb Hu (first_in_ids t u rest Hw Hu) Hiso Ft Fl H).
Qed.

Theorem tdvp2_step_t_sound lk tmp t s u rest cs' :
  NoDup (ids t) -> 2 <= size t -> tmatch t (nodes s) -> wfb s = true -> update_path t = Some (u :: rest) ->
  iso_check (s, Some u) = true ->
  amem tmp (nodes s) = false -> (forall a b, amem (lk a b) (nodes s) = false) ->
  tdvp2_step_t lk tmp t (s, Some u) = Some cs' ->
  wfb (fst cs') = true /\ same_tree (nodes s) (nodes (fst cs')) /\ root (fst cs') = root s /\
  snd cs' = Some u /\ iso_check cs' = true /\ tmatch t (nodes (fst cs')).
Proof.
  intros Hw Hs M Wb Hu Hiso Ft Fl H. unfold tdvp2_step_t in H.
  destruct (cache_fresh_universal t Hw Hs) as (_ & (tr & Htr & Hok) & _). rewrite Htr in H.
  apply (step_sound lk tmp t tr s u rest cs' (blocked_trace2 t tr Htr) Hok M Wb Hu (first_in_ids t u rest Hw Hu) Hiso Ft Fl H).
Qed.

(* ---- the step succeeds ---------------------------------------------------------------------------------------- *)
Lemma step_runs lk tmp t tr s u rest :
  blocked tr -> sched_ok t tr ->
  tmatch t (nodes s) -> wfb s = true -> update_path t = Some (u :: rest) -> In u (ids t) ->
  iso_check (s, Some u) = true ->
  amem tmp (nodes s) = false -> (forall a b, amem (lk a b) (nodes s) = false) ->
  exists cs', tdvp_run lk tmp (s, Some u) tr = Some cs'.
Proof.
  intros Hb Hok M Wb Hu Hin Hiso Ft Fl.
  destruct (sched_ok_start t tr Hok) as (u' & l' & c0 & c1 & Hu' & C0 & P0 & R & C1 & P1).
  rewrite Hu in Hu'. injection Hu' as <- <-.
  pose proof (wfb_wf s Wb) as W.
  assert (Hinv : tinv (nodes s) s (centre c0)).
  { rewrite C0. constructor; auto; [apply same_tree_refl|]. apply amem_true. apply (proj2 M). exact Hin. }
  rewrite <- C0.
  apply (sim_run_ex t (nodes s) lk tmp M (amem_false_None _ _ Ft) (fun a b => amem_false_None _ _ (Fl a b)) tr Hb c0 c1 s P0 R Hinv).
Qed.

Definition step_post (t : rtree) (s : store) (u : id) (cs' : cstore) : Prop :=
  wfb (fst cs') = true /\ same_tree (nodes s) (nodes (fst cs')) /\ root (fst cs') = root s /\
  snd cs' = Some u /\ iso_check cs' = true /\ tmatch t (nodes (fst cs')).

Theorem tdvp1_step_t_ok lk tmp t s u rest :
  NoDup (ids t) -> 2 <= size t -> tmatch t (nodes s) -> wfb s = true -> update_path t = Some (u :: rest) ->
  iso_check (s, Some u) = true ->
  amem tmp (nodes s) = false -> (forall a b, amem (lk a b) (nodes s) = false) ->
  exists cs', tdvp1_step_t lk tmp t (s, Some u) = Some cs' /\ step_post t s u cs'.
Proof.
  intros Hw Hs M Wb Hu Hiso Ft Fl.
  destruct (cache_fresh_universal t Hw Hs) as ((tr & Htr & Hok) & _).
  destruct (step_runs lk tmp t tr s u rest (blocked_trace1 t tr Htr) Hok M Wb Hu (first_in_ids t u rest Hw Hu) Hiso Ft Fl) as [cs' H].
  exists cs'. assert (H' : tdvp1_step_t lk tmp t (s, Some u) = Some cs') by (unfold tdvp1_step_t; rewrite Htr; exact H).
  split; [exact H'|]. apply (tdvp1_step_t_sound lk tmp t s u rest cs'); assumption.
Qed.

Theorem tdvp2_step_t_ok lk tmp t s u rest :
  NoDup (ids t) -> 2 <= size t -> tmatch t (nodes s) -> wfb s = true -> update_path t = Some (u :: rest) ->
  iso_check (s, Some u) = true ->
  amem tmp (nodes s) = false -> (forall a b, amem (lk a b) (nodes s) = false) ->
  exists cs', tdvp2_step_t lk tmp t (s, Some u) = Some cs' /\ step_post t s u cs'.
Proof.
  intros Hw Hs M Wb Hu Hiso Ft Fl.
  destruct (cache_fresh_universal t Hw Hs) as (_ & (tr & Htr & Hok) & _).
  destruct (step_runs lk tmp t tr s u rest (blocked_trace2 t tr Htr) Hok M Wb Hu (first_in_ids t u rest Hw Hu) Hiso Ft Fl) as [cs' H].
  exists cs'. assert (H' : tdvp2_step_t lk tmp t (s, Some u) = Some cs') by (unfold tdvp2_step_t; rewrite Htr; exact H).
  split; [exact H'|]. apply (tdvp2_step_t_sound lk tmp t s u rest cs'); assumption.
Qed.

(* any number of consecutive steps (the paths are those of the initial tree; the store's child order drifts) *)
Fixpoint iter_step (f : cstore -> option cstore) (k : nat) (cs : cstore) : option cstore :=
  match k with O => Some cs | S k' => match f cs with Some cs' => iter_step f k' cs' | None => None end end.

Lemma same_tree_amem_false l l' k : same_tree l l' -> amem k l = false -> amem k l' = false.
Proof.
  intros S H. destruct (amem k l') eqn:E; [|reflexivity]. apply (same_tree_amem _ _ _ (same_tree_sym _ _ S)) in E. congruence.
Qed.

Theorem tdvp_steps_ok (first_order : bool) lk tmp t u rest : NoDup (ids t) -> 2 <= size t -> update_path t = Some (u :: rest) ->
  forall k s, tmatch t (nodes s) -> wfb s = true -> iso_check (s, Some u) = true ->
  amem tmp (nodes s) = false -> (forall a b, amem (lk a b) (nodes s) = false) ->
  exists cs', iter_step (if first_order then tdvp1_step_t lk tmp t else tdvp2_step_t lk tmp t) k (s, Some u) = Some cs' /\
              step_post t s u cs'.
Proof.
  intros Hw Hs Hu. induction k as [|k IH]; intros s M Wb Hiso Ft Fl.
  - exists (s, Some u). split; [reflexivity|]. unfold step_post. cbn. repeat split; auto; try apply same_tree_refl; apply M.
  - assert (Hstep : exists cs1, (if first_order then tdvp1_step_t lk tmp t else tdvp2_step_t lk tmp t) (s, Some u) = Some cs1 /\ step_post t s u cs1).
    { destruct first_order; [apply (tdvp1_step_t_ok lk tmp t s u rest)|apply (tdvp2_step_t_ok lk tmp t s u rest)]; assumption. }
    destruct Hstep as ([s1 oc] & E1 & W1 & S1 & R1 & C1 & I1 & M1). cbn [fst snd] in *. subst oc.
    destruct (IH s1 M1 W1 I1 (same_tree_amem_false _ _ _ S1 Ft) (fun a b => same_tree_amem_false _ _ _ S1 (Fl a b)))
      as (cs' & E' & W' & S' & R' & C' & I' & M').
    exists cs'. split; [cbn [iter_step]; rewrite E1; exact E'|].
    unfold step_post. split; [exact W'|]. split; [exact (same_tree_trans _ _ _ S1 S')|]. split; [congruence|]. auto.
Qed.

(* ==== part 4 ==== *)
(* ---- the tree read off a well-formed store ------------------------------------------------------------------- *)
Inductive ancr (l : list (id * node)) (a : id) : id -> Prop :=
| ancr_refl : ancr l a a
| ancr_step x nx p : aget x l = Some nx -> parent nx = Some p -> ancr l a p -> ancr l a x.

Lemma ancr_trans l a b x : ancr l a b -> ancr l b x -> ancr l a x.
Proof. intros Hab Hbx. induction Hbx; [exact Hab|]. eapply ancr_step; eauto. Qed.

Lemma ancr_rank l d a x : ranked l d -> ancr l a x -> d a <= d x.
Proof. intros R H. induction H; [lia|]. pose proof (R _ _ _ H H0). lia. Qed.

Lemma ancr_linear l a b x : ancr l a x -> ancr l b x -> ancr l a b \/ ancr l b a.
Proof.
  intros Ha. revert b. induction Ha as [|x nx p E P Ha IH]; intros b Hb; [right; exact Hb|].
  inversion Hb as [|x' nx' p' E' P' Hb']; subst.
  - left. eapply ancr_step; eauto.
  - rewrite E in E'. injection E' as <-. rewrite P in P'. injection P' as <-. apply IH. exact Hb'.
Qed.

Lemma flat_map_map {A B C} (g : A -> B) (h : B -> list C) l : flat_map h (map g l) = flat_map (fun x => h (g x)) l.
Proof. induction l as [|x l IH]; cbn; [reflexivity|]. rewrite IH. reflexivity. Qed.

Lemma ids_tree_rec_S f l k n : aget k l = Some n ->
  ids (tree_rec (S f) l k) = k :: flat_map (fun c => ids (tree_rec f l c)) (children n).
Proof. intros E. cbn. rewrite E. cbn. rewrite flat_map_map. reflexivity. Qed.

Lemma edges_tree_rec_S f l k n : aget k l = Some n ->
  edges (tree_rec (S f) l k) = map (fun c => (k, c)) (children n) ++ flat_map (fun c => edges (tree_rec f l c)) (children n).
Proof.
  intros E. cbn. rewrite E. cbn. rewrite map_map, flat_map_map. f_equal. apply map_ext. intros c. destruct f; cbn; [reflexivity|].
  destruct (aget c l); reflexivity.
Qed.

Section TreeOf.
  Variable l : list (id * node).
  Hypothesis T : tstruct l.

  Lemma ids_anc f : forall k x, In x (ids (tree_rec f l k)) -> ancr l k x.
  Proof.
    induction f as [|f IH]; intros k x H; [cbn in H; destruct H as [<-|[]]; constructor|].
    destruct (aget k l) as [n|] eqn:E.
    - rewrite (ids_tree_rec_S f l k n E) in H. destruct H as [<-|H]; [constructor|].
      apply in_flat_map in H. destruct H as (c & Hc & Hx).
      destruct (ts_ch _ T k n c E Hc) as (cn & Ec & Pc).
      apply (ancr_trans l k c x); [|apply IH; exact Hx]. eapply ancr_step; eauto. constructor.
    - cbn in H. rewrite E in H. destruct H as [<-|[]]. constructor.
  Qed.

  Lemma ids_keys f : forall k x, In k (akeys l) -> In x (ids (tree_rec f l k)) -> In x (akeys l).
  Proof.
    induction f as [|f IH]; intros k x Hk H; [cbn in H; destruct H as [<-|[]]; exact Hk|].
    destruct (aget k l) as [n|] eqn:E.
    - rewrite (ids_tree_rec_S f l k n E) in H. destruct H as [<-|H]; [exact Hk|].
      apply in_flat_map in H. destruct H as (c & Hc & Hx).
      destruct (ts_ch _ T k n c E Hc) as (cn & Ec & Pc). apply (IH c x); [eapply aget_Some_keys; eauto|exact Hx].
    - cbn in H. rewrite E in H. destruct H as [<-|[]]. exact Hk.
  Qed.

  Lemma ids_nodup f : forall k, NoDup (ids (tree_rec f l k)).
  Proof.
    destruct (ts_ranked _ T) as [d R].
    induction f as [|f IH]; intros k; [cbn; constructor; [intros []|constructor]|].
    destruct (aget k l) as [n|] eqn:E; [|cbn; rewrite E; cbn; constructor; [intros []|constructor]].
    rewrite (ids_tree_rec_S f l k n E). constructor.
    - intros H. apply in_flat_map in H. destruct H as (c & Hc & Hx).
      destruct (ts_ch _ T k n c E Hc) as (cn & Ec & Pc). pose proof (ancr_rank l d c k R (ids_anc f c k Hx)). pose proof (R _ _ _ Ec Pc). lia.
    - apply NoDup_flat_map_disj; [apply (ts_chnd _ T k n E)|intros c _; apply IH|].
      intros c1 c2 z H1 H2 Z1 Z2. destruct (Nat.eq_dec c1 c2) as [|Hne]; [assumption|exfalso].
      destruct (ts_ch _ T k n c1 E H1) as (n1 & E1 & P1). destruct (ts_ch _ T k n c2 E H2) as (n2 & E2 & P2).
      assert (Hcase : forall u v nu nv, aget u l = Some nu -> parent nu = Some k -> aget v l = Some nv -> parent nv = Some k ->
                        u <> v -> ancr l u v -> False).
      { intros u v nu nv Eu Pu Ev Pv Huv Hanc. inversion Hanc as [|x' nx' p' E' P' H']; subst; [congruence|].
        rewrite Ev in E'. injection E' as <-. rewrite Pv in P'. injection P' as <-.
        pose proof (ancr_rank l d u k R H'). pose proof (R _ _ _ Eu Pu). lia. }
      destruct (ancr_linear l c1 c2 z (ids_anc f c1 z Z1) (ids_anc f c2 z Z2)) as [H|H].
      + apply (Hcase c1 c2 n1 n2 E1 P1 E2 P2 Hne H).
      + apply (Hcase c2 c1 n2 n1 E2 P2 E1 P1 (not_eq_sym Hne) H).
  Qed.

  Lemma edges_sound f : forall k a b, In (a, b) (edges (tree_rec f l k)) -> exists n, aget b l = Some n /\ parent n = Some a.
  Proof.
    induction f as [|f IH]; intros k a b H; [cbn in H; destruct H|].
    destruct (aget k l) as [n|] eqn:E; [|cbn in H; rewrite E in H; destruct H].
    rewrite (edges_tree_rec_S f l k n E) in H. apply in_app_or in H. destruct H as [H|H].
    - apply in_map_iff in H. destruct H as (c & [= <- <-] & Hc). apply (ts_ch _ T k n c E Hc).
    - apply in_flat_map in H. destruct H as (c & Hc & Hx). apply (IH c a b Hx).
  Qed.
End TreeOf.

(* a node other than the parentless one sits below it: the parentless node has a child *)
Lemma climbs_root_child l r : (forall k n, aget k l = Some n -> parent n = None -> k = r) ->
  forall f k, climbs l f k = true -> k <> r -> exists c cn, aget c l = Some cn /\ parent cn = Some r.
Proof.
  intros Hu. induction f as [|f IH]; intros k H Hk; [discriminate|]. cbn in H.
  destruct (aget k l) as [n|] eqn:E; [|discriminate]. destruct (parent n) as [p|] eqn:P.
  - destruct (Nat.eq_dec p r) as [->|Hp]; [eauto|]. apply (IH p H Hp).
  - exfalso. apply Hk. apply (Hu k n E P).
Qed.

Theorem tree_of_ok s : wfb s = true -> 2 <= length (nodes s) ->
  exists t, tree_of s = Some t /\ NoDup (ids t) /\ 2 <= size t /\ tmatch t (nodes s).
Proof.
  intros Wb H2. pose proof (wfb_wf s Wb) as W. pose proof (wf_tstruct s W) as T.
  destruct (wf_root _ W) as (r & rn & Er & En & Pr & Hu). unfold tree_of. rewrite Er.
  exists (tree_rec (length (nodes s)) (nodes s) r). split; [reflexivity|].
  split; [apply ids_nodup; exact T|]. split.
  - (* the root has a child *)
    assert (Hk : exists k, In k (akeys (nodes s)) /\ k <> r).
    { destruct (nodes s) as [|[k1 n1] [|[k2 n2] rest]] eqn:El; cbn in H2; try lia.
      pose proof (wf_nd _ W) as Hnd. rewrite El in Hnd. cbn in Hnd. inversion Hnd as [|? ? Hni _]; subst.
      destruct (Nat.eq_dec k1 r) as [->|Hk1].
      - exists k2. split; [right; left; reflexivity|]. intros ->. apply Hni. left. reflexivity.
      - exists k1. split; [left; reflexivity|exact Hk1]. }
    destruct Hk as (k & Hk & Hkr). destruct (ts_ranked _ T) as [d R].
    pose proof (ranked_climbs (nodes s) d k R (ts_parents_closed _ T) Hk) as Hcl.
    destruct (climbs_root_child (nodes s) r Hu _ k Hcl Hkr) as (c & cn & Ec & Pc).
    destruct (ts_par _ T c cn r Ec Pc) as (rn' & En' & Hin). rewrite En in En'. injection En' as <-.
    rewrite size_length_ids. destruct (length (nodes s)) as [|f] eqn:Ef; [lia|].
    rewrite (ids_tree_rec_S f (nodes s) r rn En). cbn [length].
    destruct (children rn) as [|c0 chs]; [destruct Hin|]. cbn [flat_map]. rewrite app_length.
    destruct f; cbn; [lia|]. destruct (aget c0 (nodes s)); cbn; lia.
  - split.
    + apply edges_sound. exact T.
    + intros k Hk. apply (ids_keys (nodes s) T (length (nodes s)) r k); [eapply aget_Some_keys; eauto|exact Hk].
Qed.

(* ---- the steps with the tree read off the store itself --------------------------------------------------------- *)
Theorem tdvp1_step_ok lk tmp s t u :
  wfb s = true -> 2 <= length (nodes s) -> tree_of s = Some t -> first_of t = Some u ->
  iso_check (s, Some u) = true -> amem tmp (nodes s) = false -> (forall a b, amem (lk a b) (nodes s) = false) ->
  exists cs', tdvp1_step lk tmp (s, Some u) = Some cs' /\ step_post t s u cs'.
Proof.
  intros Wb H2 Ht Hf Hiso Ft Fl. destruct (tree_of_ok s Wb H2) as (t' & Ht' & Hw & Hs & M).
  rewrite Ht in Ht'. injection Ht' as <-. unfold first_of in Hf.
  destruct (update_path t) as [[|u' rest]|] eqn:Hu; try discriminate. injection Hf as ->.
  unfold tdvp1_step. cbn [fst]. rewrite Ht. apply (tdvp1_step_t_ok lk tmp t s u rest); assumption.
Qed.

Theorem tdvp2_step_ok lk tmp s t u :
  wfb s = true -> 2 <= length (nodes s) -> tree_of s = Some t -> first_of t = Some u ->
  iso_check (s, Some u) = true -> amem tmp (nodes s) = false -> (forall a b, amem (lk a b) (nodes s) = false) ->
  exists cs', tdvp2_step lk tmp (s, Some u) = Some cs' /\ step_post t s u cs'.
Proof.
  intros Wb H2 Ht Hf Hiso Ft Fl. destruct (tree_of_ok s Wb H2) as (t' & Ht' & Hw & Hs & M).
  rewrite Ht in Ht'. injection Ht' as <-. unfold first_of in Hf.
  destruct (update_path t) as [[|u' rest]|] eqn:Hu; try discriminate. injection Hf as ->.
  unfold tdvp2_step. cbn [fst]. rewrite Ht. apply (tdvp2_step_t_ok lk tmp t s u rest); assumption.
Qed.

(* ==== part 5 ==== *)
(* ---- tensor shapes along the trace ---------------------------------------------------------------------------- *)
Section SimDims.
  Variables (t : rtree) (l0 : list (id * node)) (lk : id -> id -> id) (tmp : id).
  Hypothesis M : tmatch t l0.
  Hypothesis Ftmp : aget tmp l0 = None.
  Hypothesis Flk : forall a b, aget (lk a b) l0 = None.

  Lemma dims_plain e c c1 s cs1 :
    plain e = true -> pend c = None -> exec t c e = Some c1 -> tinv l0 s (centre c) ->
    ev_step lk tmp (s, Some (centre c)) e = Some cs1 -> dims_kept s (fst cs1).
  Proof.
    intros Hpl Hpend Hex [W S I C] Hst.
    destruct e; try discriminate Hpl; cbn [ev_step fst snd] in Hst.
    - apply lift_Some in Hst. destruct Hst as (s' & Hs & ->). cbn [fst]. eapply site_update_dims_kept; eauto.
    - apply lift_Some in Hst. destruct Hst as (s' & Hs & ->). cbn [fst]. eapply site_update_dims_kept; eauto.
    - apply (move_center_dims_kept s (centre c) b tmp cs1 W (same_tree_None _ _ _ S Ftmp) I Hst).
    - apply lift_Some in Hst. destruct Hst as (s' & Hs & ->). cbn [fst]. eapply acc_dims_kept; eauto.
    - injection Hst as <-. apply dims_kept_refl.
    - destruct (Nat.eqb (centre c) n); [|discriminate]. injection Hst as <-. apply dims_kept_refl.
    - injection Hst as <-. apply dims_kept_refl.
    - injection Hst as <-. apply dims_kept_refl.
  Qed.

  Lemma dims_link a b f c c4 s cs4 :
    pend c = None -> run t c [TDVP.Split a b; Cache a b; Link a b f; Absorb a b] = Some c4 -> tinv l0 s (centre c) ->
    tdvp_run lk tmp (s, Some (centre c)) [TDVP.Split a b; Cache a b; Link a b f; Absorb a b] = Some cs4 ->
    dims_kept s (fst cs4).
  Proof.
    intros Hpend Hrun [W S I C] Hst.
    apply run_cons_inv in Hrun. destruct Hrun as (c1 & X1 & _). pose proof (exec_sound _ _ _ _ X1) as (Hca & _ & Hab).
    apply tdvp_run_cons in Hst. destruct Hst as (cs1 & Y1 & Hst). cbn [ev_step fst snd] in Y1.
    apply lift_Some in Y1. destruct Y1 as (s1 & E1 & ->). cbn [snd] in *.
    apply tdvp_run_cons in Hst. destruct Hst as (cs2 & Y2 & Hst). cbn [ev_step fst snd] in Y2.
    apply lift_Some in Y2. destruct Y2 as (s2 & E2 & ->). cbn [snd] in *.
    apply tdvp_run_cons in Hst. destruct Hst as (cs3 & Y3 & Hst). cbn [ev_step fst snd] in Y3.
    apply lift_Some in Y3. destruct Y3 as (s3 & E3 & ->). cbn [snd] in *.
    apply tdvp_run_cons in Hst. destruct Hst as (cs4' & Y4 & Hst). cbn [ev_step fst snd] in Y4.
    destruct (contract_nodes s3 (lk a b) b b) as [s'|] eqn:E4; [|discriminate]. injection Y4 as <-.
    unfold tdvp_run in Hst. cbn in Hst. injection Hst as <-. cbn [fst snd].
    assert (HL : link_update s a b (lk a b) = Some s') by (unfold link_update; rewrite E1, E2, E3; exact E4).
    subst a. destruct (sim_adjacent t l0 M s (centre c) b W S Hab) as (na & Ea & Hin & Hb).
    apply (link_update_dims_kept s (centre c) b (lk (centre c) b) s' na W Ea Hin (same_tree_None _ _ _ S (Flk _ _)) HL).
  Qed.

  Theorem sim_run_dims tr : blocked tr -> forall c c' s cs',
    pend c = None -> run t c tr = Some c' -> tinv l0 s (centre c) ->
    tdvp_run lk tmp (s, Some (centre c)) tr = Some cs' -> dims_kept s (fst cs').
  Proof.
    induction 1 as [|e tr Hpl Hb IH|a b f tr Hb IH]; intros c c' s cs' Hp Hrun Hinv Hst.
    - unfold tdvp_run in Hst. cbn in Hst. injection Hst as <-. apply dims_kept_refl.
    - apply run_cons_inv in Hrun. destruct Hrun as (c1 & X1 & Hrun).
      apply tdvp_run_cons in Hst. destruct Hst as (cs1 & Y1 & Hst).
      destruct (sim_plain t l0 lk tmp M Ftmp e c c1 s cs1 Hpl Hp X1 Hinv Y1) as (Hinv1 & Hs1 & Hp1).
      pose proof (dims_plain e c c1 s cs1 Hpl Hp X1 Hinv Y1) as D1.
      destruct cs1 as [s1 oc1]. cbn [fst snd] in *. subst oc1.
      apply (dims_kept_trans s s1 (fst cs')); [|exact D1|apply (IH c1 c' s1 cs' Hp1 Hrun Hinv1 Hst)].
      exact (same_tree_trans _ _ _ (same_tree_sym _ _ (ti_same _ _ _ Hinv)) (ti_same _ _ _ Hinv1)).
    - change (TDVP.Split a b :: Cache a b :: Link a b f :: Absorb a b :: tr)
        with ([TDVP.Split a b; Cache a b; Link a b f; Absorb a b] ++ tr) in Hrun, Hst.
      apply (run_app_inv t) in Hrun. destruct Hrun as (c4 & X & Hrun).
      apply tdvp_run_app in Hst. destruct Hst as (cs4 & Y & Hst).
      destruct (sim_link t l0 lk tmp M Flk a b f c c4 s cs4 Hp X Hinv Y) as (Hinv4 & Hs4 & Hp4).
      pose proof (dims_link a b f c c4 s cs4 Hp X Hinv Y) as D4.
      destruct cs4 as [s4 oc4]. cbn [fst snd] in *. subst oc4.
      apply (dims_kept_trans s s4 (fst cs')); [|exact D4|apply (IH c4 c' s4 cs' Hp4 Hrun Hinv4 Hst)].
      exact (same_tree_trans _ _ _ (same_tree_sym _ _ (ti_same _ _ _ Hinv)) (ti_same _ _ _ Hinv4)).
  Qed.
End SimDims.

(* ==== part 6 ==== *)
(* Node.shape = the dimensions of the logical axes *)
Lemma node_shape_lax s k nk : Inv.wf s -> aget k (nodes s) = Some nk -> node_shape nk = map (wdim s) (lax s k nk).
Proof.
  intros W E. unfold node_shape, lax, laxes. rewrite (ni_shape _ _ _ (wf_node s W k nk E)).
  apply permute_map. intros i Hi. pose proof (wf_axes_length s k nk W E) as HL. pose proof (wf_node_wf s k nk W E) as Hwf.
  pose proof (nlegs_shape nk Hwf) as HS. destruct Hwf as [Hp _]. pose proof (perm_bound _ _ Hp i Hi) as Hb.
  unfold wire, id in *. lia.
Qed.

(* what dims_kept says about Node.shape: the dimension toward every neighbour and the open dimensions, in order *)
Definition shapes_kept (s s' : store) : Prop :=
  forall k nk nk', aget k (nodes s) = Some nk -> aget k (nodes s') = Some nk' ->
    skipn (nvirt nk') (node_shape nk') = skipn (nvirt nk) (node_shape nk) /\
    forall x i i', neighbour_index nk x = Some i -> neighbour_index nk' x = Some i' ->
                   nth i' (node_shape nk') 0 = nth i (node_shape nk) 0.

Lemma nth_map_wdim s (l : list wire) i : i < length l -> nth i (map (wdim s) l) 0 = wdim s (nth i l 0).
Proof. intros H. rewrite (nth_indep _ 0 (wdim s 0)) by (rewrite map_length; exact H). apply map_nth. Qed.

Lemma dims_kept_shapes s s' : Inv.wf s -> Inv.wf s' -> same_tree (nodes s) (nodes s') -> dims_kept s s' -> shapes_kept s s'.
Proof.
  intros W W' S [Do De] k nk nk' E E'.
  rewrite (node_shape_lax s k nk W E), (node_shape_lax s' k nk' W' E'). split.
  - rewrite !skipn_map. apply (Do k nk nk' E E').
  - intros x i i' Hi Hi'.
    pose proof (neighbour_index_bound _ _ _ Hi) as Bi. pose proof (neighbour_index_bound _ _ _ Hi') as Bi'.
    pose proof (ni_virt _ _ _ (wf_node s W k nk E)) as Vi. pose proof (ni_virt _ _ _ (wf_node s' W' k nk' E')) as Vi'.
    rewrite !nth_map_wdim by (unfold lax; rewrite laxes_length; lia).
    destruct (same_tree_some _ _ _ _ S E) as (nk2 & E2 & P2 & C2). rewrite E' in E2. injection E2 as <-.
    assert (Hx : In x (neighbouring_nodes nk)) by (eapply neighbour_index_In; eauto).
    apply in_neighbouring in Hx. destruct Hx as [Hp|Hc].
    + (* toward the parent: leg 0 on both sides *)
      assert (i = 0) by (unfold neighbour_index in Hi; rewrite Hp, Nat.eqb_refl in Hi; congruence).
      assert (i' = 0) by (unfold neighbour_index in Hi'; rewrite <- P2, Hp, Nat.eqb_refl in Hi'; congruence).
      subst. apply (De k nk nk' E E'). rewrite Hp. discriminate.
    + (* toward a child: the child's parent wire *)
      destruct (wf_child_parent s k nk x W E Hc) as (nx & Ex & Px).
      destruct (same_tree_some _ _ _ _ S Ex) as (nx' & Ex' & Px' & _).
      destruct (ni_par _ _ _ (wf_node s W x nx Ex) k Px) as (pn & j & Ep & _ & Hj & Hw).
      rewrite E in Ep. injection Ep as <-. rewrite Hi in Hj. injection Hj as <-.
      destruct (ni_par _ _ _ (wf_node s' W' x nx' Ex') k ltac:(rewrite <- Px'; exact Px)) as (pn' & j' & Ep' & _ & Hj' & Hw').
      rewrite E' in Ep'. injection Ep' as <-. rewrite Hi' in Hj'. injection Hj' as <-.
      rewrite <- Hw, <- Hw'. apply (De x nx nx' Ex Ex'). rewrite Px. discriminate.
Qed.

(* ---- the final statements with the shapes ---------------------------------------------------------------------- *)
Lemma step_shapes lk tmp t tr s u rest cs' :
  blocked tr -> sched_ok t tr ->
  tmatch t (nodes s) -> wfb s = true -> update_path t = Some (u :: rest) -> In u (ids t) ->
  iso_check (s, Some u) = true ->
  amem tmp (nodes s) = false -> (forall a b, amem (lk a b) (nodes s) = false) ->
  tdvp_run lk tmp (s, Some u) tr = Some cs' -> shapes_kept s (fst cs').
Proof.
  intros Hb Hok M Wb Hu Hin Hiso Ft Fl Hrun.
  destruct (step_sound lk tmp t tr s u rest cs' Hb Hok M Wb Hu Hin Hiso Ft Fl Hrun) as (W' & S' & _).
  destruct (sched_ok_start t tr Hok) as (u' & l' & c0 & c1 & Hu' & C0 & P0 & R & C1 & P1).
  rewrite Hu in Hu'. injection Hu' as <- <-.
  pose proof (wfb_wf s Wb) as W.
  assert (Hinv : tinv (nodes s) s (centre c0)).
  { rewrite C0. constructor; auto; [apply same_tree_refl|]. apply amem_true. apply (proj2 M). exact Hin. }
  rewrite <- C0 in Hrun.
  apply (dims_kept_shapes s (fst cs') W (wfb_wf _ W') S').
  apply (sim_run_dims t (nodes s) lk tmp M (amem_false_None _ _ Ft) (fun a b => amem_false_None _ _ (Fl a b)) tr Hb c0 c1 s cs' P0 R Hinv Hrun).
Qed.

Theorem tdvp1_step_t_shapes lk tmp t s u rest cs' :
  NoDup (ids t) -> 2 <= size t -> tmatch t (nodes s) -> wfb s = true -> update_path t = Some (u :: rest) ->
  iso_check (s, Some u) = true ->
  amem tmp (nodes s) = false -> (forall a b, amem (lk a b) (nodes s) = false) ->
  tdvp1_step_t lk tmp t (s, Some u) = Some cs' -> shapes_kept s (fst cs').
Proof.
  intros Hw Hs M Wb Hu Hiso Ft Fl H. unfold tdvp1_step_t in H.
  destruct (cache_fresh_universal t Hw Hs) as ((tr & Htr & Hok) & _). rewrite Htr in H.
  apply (step_shapes lk tmp t tr s u rest cs' (blocked_trace1 t tr Htr) Hok M Wb Hu (first_in_ids t u rest Hw Hu) Hiso Ft Fl H).
Qed.

Theorem tdvp2_step_t_shapes lk tmp t s u rest cs' :
  NoDup (ids t) -> 2 <= size t -> tmatch t (nodes s) -> wfb s = true -> update_path t = Some (u :: rest) ->
  iso_check (s, Some u) = true ->
  amem tmp (nodes s) = false -> (forall a b, amem (lk a b) (nodes s) = false) ->
  tdvp2_step_t lk tmp t (s, Some u) = Some cs' -> shapes_kept s (fst cs').
Proof.
  intros Hw Hs M Wb Hu Hiso Ft Fl H. unfold tdvp2_step_t in H.
  destruct (cache_fresh_universal t Hw Hs) as (_ & (tr & Htr & Hok) & _). rewrite Htr in H.
  apply (step_shapes lk tmp t tr s u rest cs' (blocked_trace2 t tr Htr) Hok M Wb Hu (first_in_ids t u rest Hw Hu) Hiso Ft Fl H).
Qed.

(* ==== part 7 ==== *)
(* ==== two-site TDVP: structure ================================================================================== *)
(* the two-site trace has no split / link / absorb events *)
Definition okev2 (e : ev) : bool :=
  match e with TDVP.Split _ _ | Link _ _ _ | Absorb _ _ => false | _ => true end.

Lemma okev2_moves p : forallb okev2 (moves p) = true.
Proof.
  unfold moves. destruct p as [|a p]; [reflexivity|]. cbn [forallb okev2 andb].
  generalize (consec (a :: p)). intros l. induction l as [|x l IH]; cbn; [reflexivity|exact IH].
Qed.

Lemma okev2_concat_opt {B} (f : B -> option (list ev)) l r :
  concat_opt (map f l) = Some r -> (forall i es, In i l -> f i = Some es -> forallb okev2 es = true) -> forallb okev2 r = true.
Proof.
  revert r. induction l as [|i l IH]; intros r H Hall.
  - cbn in H. injection H as <-. reflexivity.
  - cbn [map] in H. apply concat_opt_cons in H. destruct H as (x & y & Hx & Hy & ->).
    rewrite forallb_app. apply andb_true_iff. split; [apply (Hall i x); [left; reflexivity|exact Hx]|].
    apply IH; [exact Hy|]. intros j es Hj. apply Hall. right. exact Hj.
Qed.

Lemma okev2_trace2s t tr : trace2s t = Some tr -> forallb okev2 tr = true.
Proof.
  unfold trace2s. destruct (update_path t) as [up|]; [|discriminate].
  destruct (orth_paths t up) as [op|]; [|discriminate]. unfold trace2s_of.
  destruct (nth_error (rev up) 1) as [y|]; [|discriminate]. destruct (nth_error (rev up) 0) as [z|]; [|discriminate]. intros H.
  apply opt_app_Some in H. destruct H as (x1 & y1 & H1 & H & ->).
  apply opt_app_Some in H. destruct H as (x2 & y2 & H2 & H3 & ->). injection H2 as <-.
  rewrite !forallb_app. apply andb_true_iff. split; [|apply andb_true_iff; split; [reflexivity|]].
  - apply (okev2_concat_opt _ _ _ H1). intros i es _. unfold t2s_forward.
    destruct (nth_error up i) as [n|]; [|discriminate].
    destruct (if Nat.eqb i 0 then Some [] else nth_error op (i - 1)) as [p|]; [|discriminate].
    destruct (nth_error op i) as [[|nx ?]|]; try discriminate. intros [= <-].
    rewrite forallb_app, okev2_moves. reflexivity.
  - apply (okev2_concat_opt _ _ _ H3). intros i es _. unfold t2s_backward.
    destruct (nth_error (back_orth_paths2 op) i) as [p|]; [|discriminate].
    destruct (nth_error (rev up) (i + 1)) as [nx|]; [|discriminate].
    destruct (last_opt p) as [tg|]; [|discriminate]. intros [= <-].
    rewrite forallb_app, okev2_moves. reflexivity.
Qed.

Definition count_two (tr : list ev) : nat := length (filter (fun e => match e with TwoSite _ _ _ => true | _ => false end) tr).

(* the invariant between two updates, without canonical form *)
Record tinv2 (l0 : list (id * node)) (s : store) (c : id) : Prop := {
  t2_wf : Inv.wf s;
  t2_same : same_tree l0 (nodes s);
  t2_c : amem c (nodes s) = true
}.

Lemma ev_fold2_none lk tw tmp tr : fold_left (ev_fold2 lk tw tmp) tr None = None.
Proof. induction tr as [|e tr IH]; cbn; [reflexivity|exact IH]. Qed.

Section Sim2.
  Variables (t : rtree) (l0 : list (id * node)) (lk tw : id -> id -> id) (tmp : id).
  Hypothesis M : tmatch t l0.
  Hypothesis Ftmp : aget tmp l0 = None.
  Hypothesis Ftw : forall a b, aget (tw a b) l0 = None.

  Lemma sim2_event e c c1 s bds :
    okev2 e = true -> pend c = None -> exec t c e = Some c1 -> tinv2 l0 s (centre c) ->
    count_two [e] <= length bds ->
    (exists st1, ev_step2 lk tw tmp ((s, Some (centre c)), bds) e = Some st1) /\
    forall cs1 bds1, ev_step2 lk tw tmp ((s, Some (centre c)), bds) e = Some (cs1, bds1) ->
      tinv2 l0 (fst cs1) (centre c1) /\ snd cs1 = Some (centre c1) /\ pend c1 = None /\
      length bds1 + count_two [e] = length bds.
  Proof.
    intros Hok Hpend Hex [W S C] Hb. pose proof (exec_sound _ _ _ _ Hex) as Hreq.
    assert (Ttmp : aget tmp (nodes s) = None) by (apply (same_tree_None _ _ _ S Ftmp)).
    destruct e; try discriminate Hok; cbn [ev_step2 ev_step fst snd]; cbn [requires] in Hreq.
    - (* Site *)
      destruct Hreq as (Hc & _). subst n. cbn in Hex. destruct (_ && _ && _) in Hex; [|discriminate]. injection Hex as <-. cbn [centre pend].
      destruct (site_update_some s (centre c) W C) as [s' Hs]. rewrite Hs. cbn [lift snd]. split; [eauto|].
      intros cs1 bds1 [= <- <-]. cbn [fst snd]. destruct (site_update_same_tree _ _ _ Hs) as [S' K].
      split; [|cbn; auto with arith]. constructor; [eapply site_update_wf; eauto|exact (same_tree_trans _ _ _ S S')|apply (same_tree_amem _ _ _ S' C)].
    - (* SiteBack *)
      destruct Hreq as (Hc & _). subst n. cbn in Hex. destruct (_ && _ && _) in Hex; [|discriminate]. injection Hex as <-. cbn [centre pend].
      destruct (site_update_some s (centre c) W C) as [s' Hs]. rewrite Hs. cbn [lift snd]. split; [eauto|].
      intros cs1 bds1 [= <- <-]. cbn [fst snd]. destruct (site_update_same_tree _ _ _ Hs) as [S' K].
      split; [|cbn; auto with arith]. constructor; [eapply site_update_wf; eauto|exact (same_tree_trans _ _ _ S S')|apply (same_tree_amem _ _ _ S' C)].
    - (* TwoSite *)
      destruct Hreq as (Hc & _ & Hab & _). subst a. cbn in Hex. destruct (_ && _ && _ && _ && _) in Hex; [|discriminate]. injection Hex as <-. cbn [centre pend].
      destruct (sim_adjacent t l0 M s (centre c) b W S Hab) as (na & Ea & Hin & Hb').
      apply amem_aget in Hb'. destruct Hb' as [nb Eb].
      destruct bds as [|bd rest]; [cbn in Hb; lia|].
      pose proof (same_tree_None _ _ _ S (Ftw (centre c) b)) as Hnew.
      destruct (two_site_update_some (tw (centre c) b) s (centre c) b bd na nb W Ea Eb Hin Hnew) as [s3 H3]. rewrite H3. split; [eauto|].
      intros cs1 bds1 [= <- <-]. cbn [fst snd].
      destruct (two_site_update_same_tree _ _ _ _ _ _ _ W Ea Hnew H3) as (_ & W3 & S3 & _).
      split; [|cbn; repeat split; lia]. constructor; [exact W3|exact (same_tree_trans _ _ _ S S3)|].
      apply (same_tree_amem _ _ _ S3). apply amem_aget. eauto.
    - (* Move *)
      destruct Hreq as (Hc & _ & Hab). cbn in Hex. destruct (_ && _ && _) in Hex; [|discriminate]. injection Hex as <-. cbn [centre pend].
      destruct (sim_adjacent t l0 M s a b W S Hab) as (na & Ea & Hin & Hb').
      destruct (move_center_some_struct s (centre c) b tmp W Ttmp C Hb') as [cs' Hm]. rewrite Hm. split; [eauto|].
      intros cs1 bds1 [= <- <-].
      destruct (move_center_struct s (centre c) b tmp cs' W Ttmp C Hb' Hm) as (W' & S' & _ & Hsnd).
      split; [|cbn; auto with arith]. constructor; [exact W'|exact (same_tree_trans _ _ _ S S')|apply (same_tree_amem _ _ _ S' Hb')].
    - (* Cache *)
      destruct Hreq as (Hab & _). cbn in Hex. destruct (_ && _) in Hex; [|discriminate]. injection Hex as <-. cbn [centre pend].
      destruct (sim_adjacent t l0 M s n m W S Hab) as (na & Ea & _).
      destruct (acc_some s n W) as [s' Hs]; [apply amem_aget; eauto|]. rewrite Hs. cbn [lift snd]. split; [eauto|].
      intros cs1 bds1 [= <- <-]. cbn [fst snd]. destruct (acc_same_tree _ _ _ Hs) as [S' K].
      split; [|cbn; auto with arith]. constructor; [eapply acc_wf; eauto|exact (same_tree_trans _ _ _ S S')|apply (same_tree_amem _ _ _ S' C)].
    - (* Reinit *)
      cbn in Hex. injection Hex as <-. split; [eauto|]. intros cs1 bds1 [= <- <-]. cbn. split; [constructor; auto|auto with arith].
    - (* AssertCentre *)
      destruct Hreq as (Hc & _). cbn in Hex. destruct (_ && _) in Hex; [|discriminate]. injection Hex as <-.
      rewrite Hc, Nat.eqb_refl. split; [eauto|]. intros cs1 bds1 [= <- <-]. cbn. rewrite Hc in C. split; [constructor; auto|auto with arith].
    - (* AssertLeaf *)
      cbn in Hex. destruct (is_leaf t n); [|discriminate]. injection Hex as <-. split; [eauto|]. intros cs1 bds1 [= <- <-]. cbn. split; [constructor; auto|auto with arith].
    - (* AssertEnd *)
      cbn in Hex. destruct (Nat.leb _ _); [|discriminate]. injection Hex as <-. split; [eauto|]. intros cs1 bds1 [= <- <-]. cbn. split; [constructor; auto|auto with arith].
  Qed.

  Lemma count_two_cons e tr : count_two (e :: tr) = count_two [e] + count_two tr.
  Proof. unfold count_two. cbn. destruct e; reflexivity. Qed.

  Theorem sim2_run : forall tr c c' s bds,
    forallb okev2 tr = true -> pend c = None -> run t c tr = Some c' -> tinv2 l0 s (centre c) ->
    count_two tr <= length bds ->
    exists cs' bds', tdvp_run2 lk tw tmp ((s, Some (centre c)), bds) tr = Some (cs', bds') /\
      tinv2 l0 (fst cs') (centre c') /\ snd cs' = Some (centre c') /\ pend c' = None /\
      length bds' + count_two tr = length bds.
  Proof.
    induction tr as [|e tr IH]; intros c c' s bds Hok Hp Hrun Hinv Hb.
    - cbn in Hrun. injection Hrun as <-. exists (s, Some (centre c)), bds. unfold tdvp_run2. cbn. auto with arith.
    - cbn [forallb] in Hok. apply andb_true_iff in Hok. destruct Hok as [Hoe Hot].
      apply run_cons_inv in Hrun. destruct Hrun as (c1 & X1 & Hrun).
      rewrite count_two_cons in Hb.
      destruct (sim2_event e c c1 s bds Hoe Hp X1 Hinv ltac:(lia)) as [[[cs1 bds1] Y1] Hsound].
      destruct (Hsound cs1 bds1 Y1) as (Hinv1 & Hs1 & Hp1 & Hl1).
      destruct cs1 as [s1 oc1]. cbn [fst snd] in *. subst oc1.
      destruct (IH c1 c' s1 bds1 Hot Hp1 Hrun Hinv1 ltac:(lia)) as (cs' & bds' & Hst & Hinv' & Hs' & Hp' & Hl').
      exists cs', bds'. split.
      + unfold tdvp_run2 in *. cbn [fold_left ev_fold2]. rewrite Y1. exact Hst.
      + split; [exact Hinv'|]. split; [exact Hs'|]. split; [exact Hp'|]. rewrite count_two_cons. lia.
  Qed.
End Sim2.

Theorem tdvp2s_step_t_ok lk tw tmp t s u rest bds :
  NoDup (ids t) -> 2 <= size t -> tmatch t (nodes s) -> wfb s = true -> update_path t = Some (u :: rest) ->
  amem tmp (nodes s) = false -> (forall a b, amem (tw a b) (nodes s) = false) ->
  (forall tr, trace2s t = Some tr -> count_two tr <= length bds) ->
  exists cs' bds', tdvp2s_step_t lk tw tmp t (s, Some u) bds = Some (cs', bds') /\
    wfb (fst cs') = true /\ same_tree (nodes s) (nodes (fst cs')) /\ root (fst cs') = root s /\
    snd cs' = Some u /\ tmatch t (nodes (fst cs')) /\
    (forall tr, trace2s t = Some tr -> length bds' + count_two tr = length bds).
Proof.
  intros Hw Hs M Wb Hu Ft Fw Hbd.
  destruct (cache_fresh_universal t Hw Hs) as (_ & _ & (tr & Htr & Hok)).
  destruct (sched_ok_start t tr Hok) as (u' & l' & c0 & c1 & Hu' & C0 & P0 & R & C1 & P1).
  rewrite Hu in Hu'. injection Hu' as <- <-.
  pose proof (wfb_wf s Wb) as W.
  assert (Hinv : tinv2 (nodes s) s (centre c0)).
  { rewrite C0. constructor; auto; [apply same_tree_refl|]. apply amem_true. apply (proj2 M). apply (first_in_ids t u rest Hw Hu). }
  destruct (sim2_run t (nodes s) lk tw tmp M (amem_false_None _ _ Ft) (fun a b => amem_false_None _ _ (Fw a b)) tr c0 c1 s bds
              (okev2_trace2s t tr Htr) P0 R Hinv (Hbd tr Htr)) as (cs' & bds' & Hst & [W' S' C'] & Hsnd & _ & Hl).
  rewrite C0 in Hst. rewrite C1 in *.
  exists cs', bds'. unfold tdvp2s_step_t. rewrite Htr. split; [exact Hst|].
  split; [apply wf_wfb; exact W'|]. split; [exact S'|]. split; [apply same_tree_root; assumption|].
  split; [exact Hsnd|]. split; [apply (tmatch_same_tree _ _ _ M S')|].
  intros tr' Htr'. assert (tr' = tr) by congruence. subst tr'. exact Hl.
Qed.

