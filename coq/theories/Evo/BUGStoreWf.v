(* C09 at the store level, WELL-FORMEDNESS of the result: the store returned by one BUG / fixed-rank BUG step
   (Evo/BUGStore.v: root_update) satisfies the executable store invariant `wfb` (TTN/Inv.v), for every tree and both
   variants, under the hypotheses of the acceptance theorem (Evo/BUGStoreTotal.v); and the extended invariant `wfsb`
   (TTN/InvSem.v: atom table closed, atoms unique, nothing summed inside a tensor) if the caller's store satisfies it.

   new_state is NOT well-formed between the pull of a node and its split_node_replace, so the C02 preservation
   theorems do not apply step by step.  Instead the induction of BUGStoreTotal.v is redone with a stronger
   invariant: (1) the re-centred copies keep the open WIRES of every node (opens_kept; move_center(KEEP) only
   replaces edge wires); (2) every node k the recursion has finished is described exactly (`fin`): its logical axes
   are [ew k; ew of its children in node order; the open wires k has in the caller's state], its leg permutation is a
   permutation, its recorded shape is the shape of its tensor, all its wires are registered; the new parent wires
   `ew k` of the finished nodes of a subtree are pairwise distinct and were allocated during the processing of that
   subtree (`spost`); the second leg of the basis-change node left by a finished child x carries `ew x`;
   (3) tensors only exist for identifiers that have a node record (`tsub`); (4) the atom table only grows by
   appending fresh keys (`aapp`, proved for every primitive and for the whole recursion without any hypothesis), the
   tensor of a finished node is ONE atom allocated during the processing of its subtree whose table entry lists axes
   of the tensor (`afin`).  At the root the description of all nodes is turned into the Prop form `wf` of the
   invariant (`assemble_wf`, then InvProofs.wf_wfb) and into `wfs` (`assemble_wfs`, then InvSemProofs.wfs_wfsb). *)
From Coq Require Import List Arith Bool Lia Permutation.
From PTN Require Import TTN.Store TTN.StoreProofs TTN.Canon TTN.CanonProofs TTN.Inv TTN.InvProofs TTN.InvNode TTN.InvBuild
  TTN.InvContract TTN.InvSplit TTN.InvEdit TTN.CanonTree TTN.CanonMore TTN.CanonStep TTN.CanonDist TTN.CanonPath TTN.CanonIso
  Tree.RTree Evo.BUGStore Evo.BUGStoreProofs Evo.TDVPStoreEffects Evo.BUGStoreTotal.
From PTN Require TEBD.GateTree TTN.InvSem TTN.InvSemProofs TTN.InvSemValue.
Import ListNotations.

Local Notation wf := Inv.wf.

(* ==== part 1: open wires are kept by the re-centring ==== *)

(* the open wires node k (record n0) has in the state V *)
Definition vopen (V : view) (k : id) (n0 : node) : list wire := open_of n0 (tens (focus empty_store V) k).

Lemma vopen_focus g V k n0 : open_of n0 (tens (focus g V) k) = vopen V k n0.
Proof. reflexivity. Qed.

Definition opens_kept (A B : store) : Prop :=
  forall k na nb, aget k (nodes A) = Some na -> aget k (nodes B) = Some nb -> open_of nb (tens B k) = open_of na (tens A k).

Lemma opens_kept_refl s : opens_kept s s.
Proof. intros k na nb E E'. rewrite E in E'. injection E' as <-. reflexivity. Qed.

Lemma opens_kept_trans s1 s2 s3 : same_tree (nodes s1) (nodes s2) -> opens_kept s1 s2 -> opens_kept s2 s3 -> opens_kept s1 s3.
Proof.
  intros S A B k n1 n3 E1 E3. destruct (same_tree_some _ _ _ _ S E1) as (n2 & E2 & _).
  rewrite (B k n2 n3 E2 E3). apply (A k n1 n2 E1 E2).
Qed.

Lemma move_fold_ok2 tmp : forall l s cur,
  wf s -> aget tmp (nodes s) = None -> walk s (cur :: l) ->
  exists cs', fold_left (move_step Keep tmp) l (Some (s, Some cur)) = Some cs' /\
    wf (fst cs') /\ same_tree (nodes s) (nodes (fst cs')) /\ aget tmp (nodes (fst cs')) = None /\ dims_kept s (fst cs') /\
    opens_kept s (fst cs').
Proof.
  induction l as [|nb l IH]; intros s cur W Ht Hw; cbn [fold_left].
  - eexists. split; [reflexivity|]. cbn [fst]. split; [exact W|]. split; [apply same_tree_refl|]. split; [exact Ht|].
    split; [apply dims_kept_refl|apply opens_kept_refl].
  - cbn [move_step]. destruct Hw as [(nd & Ec & Hin) Hw].
    destruct (qr_to_neighbour_some s cur nb tmp nd W Ec Hin Ht) as [s2 E]. rewrite E.
    pose proof (wf_tstruct s W) as T.
    destruct (qr_step_effect _ _ _ _ _ _ T Ht E) as (na & Ea & Hin' & SE).
    destruct (step_same_tree _ _ _ _ _ _ T Ea Hin' SE) as [S1 T1].
    destruct (ts_neighbour_sym _ _ _ _ T Ea Hin') as (nbn & Eb & Hba & Hne).
    assert (Hra : tmp <> cur) by (intros ->; congruence).
    assert (Hrb : tmp <> nb) by (intros ->; congruence).
    assert (Ht2 : aget tmp (nodes s2) = None) by (rewrite (se_other_n _ _ _ _ _ _ SE tmp Hra Hrb); exact Ht).
    pose proof (qr_to_neighbour_wf _ _ _ _ _ _ W Ht E) as W2.
    destruct (qr_keep_deffect s cur nb tmp s2 W Ht E) as (Hne' & _ & DE).
    pose proof (deffect_dims_kept s cur nb s2 W W2 Hne' DE) as DK.
    destruct (IH s2 nb W2 Ht2 (walk_same_tree s s2 S1 _ Hw)) as (cs' & F & W3 & S3 & R3 & D3 & O3).
    exists cs'. split; [exact F|]. split; [exact W3|]. split; [exact (same_tree_trans _ _ _ S1 S3)|]. split; [exact R3|].
    split; [apply (dims_kept_trans s s2 (fst cs') S1 DK D3)|].
    apply (opens_kept_trans s s2 (fst cs') S1); [|exact O3].
    intros k ka kb E1 E2. apply (de_open _ _ _ _ DE k ka kb E1 E2).
Qed.

Lemma move_center_ok2 s c0 c tmp :
  wf s -> aget tmp (nodes s) = None -> amem c0 (nodes s) = true -> amem c (nodes s) = true ->
  exists s', move_center (s, Some c0) c Keep tmp = Some (s', Some c) /\
    wf s' /\ same_tree (nodes s) (nodes s') /\ aget tmp (nodes s') = None /\ dims_kept s s' /\ opens_kept s s'.
Proof.
  intros W Ht Hc0 Hc. pose proof (wf_tstruct s W) as T.
  assert (R : exists cs', move_center (s, Some c0) c Keep tmp = Some cs' /\
    wf (fst cs') /\ same_tree (nodes s) (nodes (fst cs')) /\ aget tmp (nodes (fst cs')) = None /\ dims_kept s (fst cs') /\
    opens_kept s (fst cs')).
  { unfold move_center. cbn [fst snd]. destruct (Nat.eqb c0 c).
    - eexists. split; [reflexivity|]. cbn [fst]. split; [exact W|]. split; [apply same_tree_refl|]. split; [exact Ht|].
      split; [apply dims_kept_refl|apply opens_kept_refl].
    - destruct (path_from_to_head s c0 c T Hc0 Hc) as [l El]. rewrite El. cbn [tl].
      apply (move_fold_ok2 tmp l s c0 W Ht).
      pose proof (path_from_to_walk s c0 c T Hc0 Hc) as Hw. rewrite El in Hw. exact Hw. }
  destruct R as (cs' & E & A & B & C & D & O).
  pose proof (move_center_reaches (s, Some c0) c0 c Keep tmp cs' T eq_refl Hc0 Hc E) as Hs.
  destruct cs' as [s' oc]. cbn [fst snd] in *. subst oc. exists s'. auto 7.
Qed.

(* ==== part 1b: the atom table only grows by appending fresh keys ==== *)
Definition atab_ok (g : store) : Prop := forall a, In a (akeys (atab g)) -> a < next_atom g.

Definition aapp (g g' : store) : Prop :=
  exists E, atab g' = atab g ++ E /\ (forall a, In a (akeys E) -> next_atom g <= a < next_atom g') /\ next_atom g <= next_atom g'.

Lemma aapp_same g g' : atab g' = atab g -> next_atom g' = next_atom g -> aapp g g'.
Proof. intros A N. exists []. rewrite app_nil_r. split; [exact A|]. split; [intros a []|lia]. Qed.

Lemma aapp_refl g : aapp g g.
Proof. apply aapp_same; reflexivity. Qed.

Lemma aapp_trans a b c : aapp a b -> aapp b c -> aapp a c.
Proof.
  intros (E1 & A1 & K1 & N1) (E2 & A2 & K2 & N2). exists (E1 ++ E2). split; [rewrite A2, A1, app_assoc; reflexivity|].
  split; [|lia]. intros x Hx. unfold akeys in Hx. rewrite map_app in Hx. apply in_app_or in Hx. destruct Hx as [Hx|Hx].
  - pose proof (K1 x Hx). lia.
  - pose proof (K2 x Hx). lia.
Qed.

Lemma aapp_one g g' ws : atab g' = atab g ++ [(next_atom g, ws)] -> next_atom g' = S (next_atom g) -> aapp g g'.
Proof. intros A N. exists [(next_atom g, ws)]. split; [exact A|]. split; [intros a [<-|[]]; cbn; lia|lia]. Qed.

Lemma aapp_two g g' ws ws' : atab g' = atab g ++ [(next_atom g, ws); (S (next_atom g), ws')] -> next_atom g' = S (S (next_atom g)) -> aapp g g'.
Proof. intros A N. eexists. split; [exact A|]. split; [intros a [<-|[<-|[]]]; cbn; lia|lia]. Qed.

Lemma aapp_na g g' : aapp g g' -> next_atom g <= next_atom g'.
Proof. intros (E & _ & _ & N). exact N. Qed.

Lemma aapp_ok g g' : aapp g g' -> atab_ok g -> atab_ok g'.
Proof.
  intros (E & A & K & N) O a Ha. rewrite A in Ha. unfold akeys in Ha. rewrite map_app in Ha. apply in_app_or in Ha.
  destruct Ha as [Ha|Ha]; [pose proof (O a Ha); lia|pose proof (K a Ha); lia].
Qed.

Lemma aapp_old g g' a : aapp g g' -> a < next_atom g -> aget a (atab g') = aget a (atab g).
Proof.
  intros (E & A & K & N) Ha. rewrite A, aget_app. destruct (aget a (atab g)); [reflexivity|].
  apply aget_None. intros Hin. pose proof (K a Hin). lia.
Qed.

Lemma atab_new g g' ws E : atab_ok g -> atab g' = atab g ++ (next_atom g, ws) :: E -> aget (next_atom g) (atab g') = Some ws.
Proof.
  intros O A. rewrite A, aget_app.
  assert (Hn : aget (next_atom g) (atab g) = None) by (apply aget_None; intros Hin; pose proof (O _ Hin); lia).
  rewrite Hn. cbn. rewrite Nat.eqb_refl. reflexivity.
Qed.

Lemma aapp_focus_r g g' v : aapp g g' -> aapp g (focus g' v).
Proof. intros H. exact H. Qed.
Lemma aapp_focus_l g g' v : aapp g g' -> aapp (focus g v) g'.
Proof. intros H. exact H. Qed.

(* ---- the primitives ------------------------------------------------------------------------------------------------ *)
Lemma access_aapp s n s1 nd t : access s n = Some (s1, nd, t) -> aapp s s1.
Proof. intros H. destruct (access_tables _ _ _ _ _ H) as (A & _ & _ & _ & B & _). apply aapp_same; assumption. Qed.

Lemma evolve_atab s n s' u : evolve s n = Some (s', u) ->
  atab s' = atab s ++ [(next_atom s, axes u)] /\ next_atom s' = S (next_atom s) /\ atoms u = [next_atom s] /\ bnd u = [].
Proof.
  unfold evolve. destruct (access s n) as [[[s1 nd1] t1]|] eqn:Ea; [|discriminate].
  destruct (access_tables _ _ _ _ _ Ea) as (A1 & _ & _ & _ & A5 & _).
  cbn. intros [= <- <-]. cbn. rewrite A1, A5. auto.
Qed.

Lemma qr_kernel_atab g t ql rl m g' q r : qr_kernel g t ql rl m = Some (g', q, r) ->
  atab g' = atab g ++ [(next_atom g, axes q); (S (next_atom g), axes r)] /\ next_atom g' = S (S (next_atom g)) /\
  atoms q = [next_atom g] /\ bnd q = [].
Proof.
  unfold qr_kernel. destruct (negb _); [discriminate|]. destruct (match m, rl with Keep, [] => true | _, _ => false end); [discriminate|].
  cbn. intros [= <- <- <-]. cbn. rewrite <- app_assoc. auto.
Qed.

Lemma concat_axis_atab g ax a b g' c : concat_axis g ax a b = Some (g', c) ->
  atab g' = atab g ++ [(next_atom g, axes c)] /\ next_atom g' = S (next_atom g).
Proof.
  unfold concat_axis. destruct (negb _); [discriminate|]. destruct (negb _); [discriminate|].
  cbn. intros [= <- <-]. cbn. auto.
Qed.

Lemma bc_atom_atab g wo wn g' m : bc_atom g wo wn = (g', m) ->
  atab g' = atab g ++ [(next_atom g, [wo; wn])] /\ next_atom g' = S (next_atom g).
Proof. unfold bc_atom. cbn. intros [= <- <-]. cbn. auto. Qed.

Lemma pull_tensor_tables bcoff g cv n g' : pull_tensor bcoff g cv n = Some g' -> atab g' = atab g /\ next_atom g' = next_atom g.
Proof.
  unfold pull_tensor. destruct (aget n (vnodes cv)); [|discriminate]. destruct (aget n (nodes g)); [|discriminate].
  destruct (vlogical cv n); [|discriminate]. destruct (rel_leg_perm _ _ _); [|discriminate].
  destruct (node_replace_tensor _ _ _); [|discriminate]. intros [= <-]. cbn. auto.
Qed.

Lemma cfold_tables n : forall B g g', cfold n B g = Some g' -> atab g' = atab g /\ next_atom g' = next_atom g.
Proof.
  induction B as [|b B IH]; intros g g' H; unfold cfold in H; cbn [fold_left] in H.
  - injection H as <-. auto.
  - destruct (contract_nodes g n b n) as [g1|] eqn:E; [|rewrite cfold_none in H; discriminate].
    destruct (contract_tables _ _ _ _ _ E) as (A1 & _ & _ & _ & A5). destruct (IH g1 g' H) as [B1 B2]. split; congruence.
Qed.

Lemma split_replace_tables s n o i oid ta tb s' : split_replace s n o i oid n ta tb = Some s' ->
  atab s' = atab s /\ next_atom s' = next_atom s.
Proof.
  intros H. unfold split_replace in H.
  destruct (access s n) as [[[s1 nd] t]|] eqn:Ea; [|discriminate].
  destruct (access_tables _ _ _ _ _ Ea) as (A1 & _ & _ & _ & A5 & _).
  repeat match type of H with
  | match ?x with _ => _ end = _ => destruct x; try discriminate
  | (if ?c then _ else _) = _ => destruct c; try discriminate
  end.
  all: cbv zeta in H; repeat match type of H with
  | match ?x with _ => _ end = _ => destruct x; try discriminate
  | (if ?c then _ else _) = _ => destruct c; try discriminate
  end.
  all: injection H as <-; rewrite Nat.eqb_refl, orb_true_r; cbn; auto.
Qed.

Lemma split_nodes_aapp s n o i oid iid kind m rbond s' : split_nodes s n o i oid iid kind m rbond = Some s' -> aapp s s'.
Proof.
  intros H. destruct (InvSemValue.split_atab _ _ _ _ _ _ _ _ _ _ H) as (s1 & nd & t & ol & il & _ & _ & _ & Etab).
  destruct (split_nodes_tables _ _ _ _ _ _ _ _ _ _ H) as (bd & df & _ & _ & _ & Na).
  rewrite <- app_assoc in Etab. apply (aapp_two s s' _ _ Etab Na).
Qed.

Lemma contract_aapp s a b new s' : contract_nodes s a b new = Some s' -> aapp s s'.
Proof. intros H. destruct (contract_tables _ _ _ _ _ H) as (A & _ & _ & _ & B). apply aapp_same; assumption. Qed.

Lemma qr_to_neighbour_aapp s n nb m rid s' : qr_to_neighbour s n nb m rid = Some s' -> aapp s s'.
Proof.
  unfold qr_to_neighbour. destruct (aget n (nodes s)) as [nd|]; [|discriminate].
  destruct (build_qr_leg_specs nd nb) as [q r].
  destruct (split_nodes s n q r n rid 0 m 0) as [s1|] eqn:E; [|discriminate].
  intros H. eapply aapp_trans; [eapply split_nodes_aapp; eauto|eapply contract_aapp; eauto].
Qed.

Lemma move_fold_aapp m rid : forall l s cur cs', fold_left (move_step m rid) l (Some (s, Some cur)) = Some cs' -> aapp s (fst cs').
Proof.
  induction l as [|nb t IH]; intros s cur cs' H; cbn [fold_left] in H.
  - injection H as <-. apply aapp_refl.
  - cbn [move_step] in H. destruct (qr_to_neighbour s cur nb m rid) as [s2|] eqn:E; [|rewrite move_fold_none in H; discriminate].
    eapply aapp_trans; [eapply qr_to_neighbour_aapp; eauto|eapply IH; eauto].
Qed.

Lemma move_center_aapp cs c m rid cs' : move_center cs c m rid = Some cs' -> aapp (fst cs) (fst cs').
Proof.
  destruct cs as [s oc]. unfold move_center. cbn [fst snd]. destruct oc as [c0|]; [|discriminate].
  destruct (Nat.eqb c0 c); [intros [= <-]; apply aapp_refl|]. apply (move_fold_aapp m rid).
Qed.

(* ---- the composite programs ------------------------------------------------------------------------------------------ *)
Lemma evolve_aapp s n s' u : evolve s n = Some (s', u) -> aapp s s'.
Proof. intros H. destruct (evolve_atab _ _ _ _ H) as (A & N & _). apply (aapp_one s s' _ A N). Qed.
Lemma qr_kernel_aapp g t ql rl m g' q r : qr_kernel g t ql rl m = Some (g', q, r) -> aapp g g'.
Proof. intros H. destruct (qr_kernel_atab _ _ _ _ _ _ _ _ H) as (A & N & _). apply (aapp_two g g' _ _ A N). Qed.
Lemma concat_axis_aapp g ax a b g' c : concat_axis g ax a b = Some (g', c) -> aapp g g'.
Proof. intros H. destruct (concat_axis_atab _ _ _ _ _ _ H) as (A & N). apply (aapp_one g g' _ A N). Qed.
Lemma bc_atom_aapp g wo wn g' m : bc_atom g wo wn = (g', m) -> aapp g g'.
Proof. intros H. destruct (bc_atom_atab _ _ _ _ _ H) as (A & N). apply (aapp_one g g' _ A N). Qed.
Lemma pull_tensor_aapp bcoff g cv n g' : pull_tensor bcoff g cv n = Some g' -> aapp g g'.
Proof. intros H. destruct (pull_tensor_tables _ _ _ _ _ H). apply aapp_same; assumption. Qed.
Lemma cfold_aapp n B g g' : cfold n B g = Some g' -> aapp g g'.
Proof. intros H. destruct (cfold_tables _ _ _ _ H). apply aapp_same; assumption. Qed.
Lemma split_replace_aapp s n o i oid ta tb s' : split_replace s n o i oid n ta tb = Some s' -> aapp s s'.
Proof. intros H. destruct (split_replace_tables _ _ _ _ _ _ _ _ H). apply aapp_same; assumption. Qed.

Lemma new_basis_aapp fixed g nd oldt u g' newb : new_basis fixed g nd oldt u = Some (g', newb) -> aapp g g'.
Proof.
  unfold new_basis. destruct (is_root nd); [discriminate|]. destruct fixed.
  - destruct (qr_kernel g u _ [0] Keep) as [[[g1 q] r]|] eqn:Eq; [|discriminate].
    destruct (list_eqb _ _); [|discriminate]. intros [= <- <-]. eapply qr_kernel_aapp; eauto.
  - destruct (concat_axis g 0 oldt u) as [[g1 cc]|] eqn:Ec; [|discriminate].
    destruct (qr_kernel g1 cc _ [0] Reduced) as [[[g2 q] r]|] eqn:Eq; [|discriminate].
    intros [= <- <-]. eapply aapp_trans; [eapply concat_axis_aapp; eauto|eapply qr_kernel_aapp; eauto].
Qed.

Section Aapp.
  Variables (fixed : bool) (bcoff : nat) (tmp : id).

  Lemma update_leaf_aapp n g cv pv g' : update_leaf fixed bcoff n g cv pv = Some g' -> aapp g g'.
  Proof.
    unfold update_leaf. intros H.
    destruct (evolve (focus g cv) n) as [[s1 u]|] eqn:Eev; [|discriminate].
    pose proof (evolve_aapp _ _ _ _ Eev) as A1.
    destruct (vlogical pv n) as [oldb|]; [|discriminate].
    set (g1 := focus s1 (view_of g)) in *.
    assert (A1' : aapp g g1) by exact A1.
    match type of H with match ?x with _ => _ end = _ => destruct x as [[[g3 q] r]|] eqn:Eq; [|discriminate] end.
    assert (A3 : aapp g1 g3).
    { destruct fixed.
      - eapply qr_kernel_aapp; eauto.
      - destruct (concat_axis g1 0 oldb u) as [[g2 cc]|] eqn:Ecc; [|discriminate].
        eapply aapp_trans; [eapply concat_axis_aapp; eauto|eapply qr_kernel_aapp; eauto]. }
    match type of H with (if ?c then _ else _) = _ => destruct c; [discriminate|] end.
    destruct (bc_atom g3 _ _) as [g4 m] eqn:Ebc. pose proof (bc_atom_aapp _ _ _ _ _ Ebc) as A4.
    destruct (aget n (vnodes (view_of s1))) as [cn|]; [|discriminate]. destruct (parent cn) as [pid|]; [|discriminate].
    destruct (split_replace g4 n _ _ (bcid bcoff n) n m _) as [g5|] eqn:Esp; [|discriminate].
    pose proof (split_replace_aapp _ _ _ _ _ _ _ _ Esp) as A5.
    destruct (access g5 n) as [[[g6 nd6] t6]|] eqn:Ea6; [|discriminate]. cbn in H. injection H as <-.
    pose proof (access_aapp _ _ _ _ _ Ea6) as A6.
    eapply aapp_trans; [exact A1'|]. eapply aapp_trans; [exact A3|]. eapply aapp_trans; [exact A4|]. eapply aapp_trans; [exact A5|exact A6].
  Qed.

  Lemma contract_all_children_aapp g n g' : contract_all_children g n = Some g' -> aapp g g'.
  Proof.
    unfold contract_all_children. destruct (aget n (nodes g)) as [nd|]; [|discriminate].
    intros H. apply (cfold_aapp n (children nd) g g' H).
  Qed.

  Lemma update_non_leaf_rest_aapp n g cv pv g' : update_non_leaf_rest fixed bcoff n g cv pv = Some g' -> aapp g g'.
  Proof.
    unfold update_non_leaf_rest. intros H.
    destruct (pull_tensor bcoff g cv n) as [g1|] eqn:E1; [|discriminate].
    destruct (contract_all_children g1 n) as [g2|] eqn:E2; [|discriminate].
    destruct (evolve g2 n) as [[g3 u]|] eqn:E3; [|discriminate].
    destruct (aget n (nodes g3)) as [nd|]; [|discriminate]. destruct (aget n (tensors g3)) as [oldt|]; [|discriminate].
    destruct (vlogical pv n) as [oldb|]; [|discriminate].
    destruct (new_basis fixed g3 nd oldt u) as [[g4 newb]|] eqn:E4; [|discriminate].
    match type of H with match ?x with _ => _ end = _ => destruct x as [[pp|]|]; try discriminate end.
    destruct (bc_atom g4 _ _) as [g5 m] eqn:E5.
    destruct (split_replace g5 n _ _ (bcid bcoff n) n m newb) as [g6|] eqn:E6; [|discriminate].
    destruct (access g6 n) as [[[g7 nd7] t7]|] eqn:E7; [|discriminate]. cbn in H. injection H as <-.
    eapply aapp_trans; [eapply pull_tensor_aapp; eauto|]. eapply aapp_trans; [eapply contract_all_children_aapp; eauto|].
    eapply aapp_trans; [eapply evolve_aapp; eauto|]. eapply aapp_trans; [eapply new_basis_aapp; eauto|].
    eapply aapp_trans; [eapply bc_atom_aapp; eauto|]. eapply aapp_trans; [eapply split_replace_aapp; eauto|eapply access_aapp; eauto].
  Qed.

  Lemma update_children_aapp_of (P : rtree -> Prop) :
    (forall c, P c -> forall g pv pc g', update_node fixed bcoff tmp c g pv pc = Some g' -> aapp g g') ->
    forall l, Forall P l -> forall g cv cc g', update_children fixed bcoff tmp l g cv cc = Some g' -> aapp g g'.
  Proof.
    intros HP. induction l as [|c r IH]; intros HF g cv cc g' H; cbn [update_children] in H.
    - injection H as <-. apply aapp_refl.
    - inversion HF as [|? ? Pc Pr]; subst.
      destruct (update_node fixed bcoff tmp c g cv cc) as [ga|] eqn:Ec; [|discriminate].
      eapply aapp_trans; [apply (HP c Pc _ _ _ _ Ec)|apply (IH Pr _ _ _ _ H)].
  Qed.

  Lemma update_node_aapp : forall t g pv pc g', update_node fixed bcoff tmp t g pv pc = Some g' -> aapp g g'.
  Proof.
    induction t as [n kids IH] using rtree_ind2. intros g pv pc g' H. rewrite update_node_eq in H.
    destruct (aget n (vnodes pv)) as [pn0|]; [|discriminate]. destruct (parent pn0) as [p|]; [|discriminate].
    destruct (negb _); [discriminate|].
    destruct (move_center (focus g pv, pc) n Keep tmp) as [[s1 cc]|] eqn:Em; [|discriminate].
    pose proof (move_center_aapp _ _ _ _ _ Em) as A1. cbn [fst] in A1. cbv zeta in H.
    set (g1 := focus s1 (view_of g)) in *. assert (A1' : aapp g g1) by exact A1.
    destruct (aget n (vnodes (view_of s1))) as [cn|]; [|discriminate].
    destruct (nilb (children cn)).
    - destruct (nilb kids); [|discriminate]. eapply aapp_trans; [exact A1'|eapply update_leaf_aapp; eauto].
    - destruct (negb _); [discriminate|].
      destruct (update_children fixed bcoff tmp kids g1 (view_of s1) cc) as [g2|] eqn:El; [|discriminate].
      eapply aapp_trans; [exact A1'|]. eapply aapp_trans; [|eapply update_non_leaf_rest_aapp; eauto].
      apply (update_children_aapp_of (fun c => forall g pv pc g', update_node fixed bcoff tmp c g pv pc = Some g' -> aapp g g')
               (fun c Hc => Hc) kids IH _ _ _ _ El).
  Qed.

  Lemma update_children_aapp l g cv cc g' : update_children fixed bcoff tmp l g cv cc = Some g' -> aapp g g'.
  Proof.
    apply (update_children_aapp_of (fun _ => True) (fun c _ => update_node_aapp c) l).
    apply Forall_forall. intros; exact I.
  Qed.
End Aapp.

(* ==== part 2: split_node_replace: the node below keeps the identity leg permutation ==== *)
Lemma split_replace_in2 s n p b ch opens ta tb s' :
  n <> p ->
  split_replace s n {| ls_parent := Some p; ls_children := []; ls_open := []; ls_root := false |}
                    {| ls_parent := None; ls_children := ch; ls_open := opens; ls_root := false |} b n ta tb = Some s' ->
  exists in2, aget n (nodes s') = Some in2 /\ perm in2 = seq 0 (length (axes tb)) /\ shape in2 = map (wdim s) (axes tb) /\
    1 + length ch <= length (axes tb).
Proof.
  intros Hnp H. unfold split_replace in H.
  destruct (access s n) as [[[s1 nd] t]|] eqn:Ea; [|discriminate].
  match type of H with match ?x with _ => _ end = _ => destruct x as [ol|] eqn:Eo; [|discriminate] end.
  match type of H with match ?x with _ => _ end = _ => destruct x as [il|] eqn:Ei; [|discriminate] end.
  match type of H with match ?x with _ => _ end = _ => destruct x as [tsa|] eqn:Etsa; [|discriminate] end.
  match type of H with match ?x with _ => _ end = _ => destruct x as [tsb|] eqn:Etsb; [|discriminate] end.
  match type of H with (if ?c then _ else _) = _ => destruct c eqn:C1; [discriminate|] end.
  match type of H with (if ?c then _ else _) = _ => destruct c eqn:C2; [discriminate|] end.
  match type of H with (if ?c then _ else _) = _ => destruct c eqn:C3; [discriminate|] end.
  match type of H with (if ?c then _ else _) = _ => destruct c eqn:C4; [discriminate|] end.
  match type of H with (if ?c then _ else _) = _ => destruct c eqn:C5; [discriminate|] end.
  match type of H with (if ?c then _ else _) = _ => destruct c eqn:C6; [discriminate|] end.
  cbv zeta in H.
  cbn [ls_root ls_parent ls_children ls_open andb orb negb app] in H.
  set (sha := map (wdim s) (axes ta)) in *. set (shb := map (wdim s) (axes tb)) in *.
  destruct (open_leg_to_parent (new_node shb) b 0) as [in1|] eqn:Ein1; [|discriminate].
  destruct (open_legs_to_children in1 _) as [in2|] eqn:Ein2; [|discriminate].
  destruct (open_leg_to_parent (new_node sha) p 0) as [on1|] eqn:Eon1; [|discriminate].
  destruct (open_legs_to_children on1 _) as [on2|] eqn:Eon2; [|discriminate].
  destruct (replace_in_some_neighbours _ b n _) as [l1|] eqn:El1; [|discriminate].
  destruct (replace_in_some_neighbours l1 n n _) as [l2|] eqn:El2; [|discriminate].
  rewrite Nat.eqb_refl, orb_true_r in H. injection H as H.
  apply ris_same in El2. subst l2.
  unfold find_all_neighbour_ids in El1. cbn [ls_parent ls_children app] in El1.
  destruct (ris_single _ _ _ _ _ El1) as (pn1 & pn' & Epn1 & Ern & Hl1). clear El1.
  destruct (sp_oltp_new _ _ _ _ Ein1) as (HL & q & Hm & ->). rewrite sp_move_0 in Hm by lia. injection Hm as <-.
  assert (Hwf : node_wf {| parent := Some b; children := []; perm := seq 0 (length shb); shape := shb |}).
  { apply sp_new_node_wf_with; [reflexivity|lia]. }
  destruct (sp_olc_next _ _ _ Hwf Ein2) as (S1 & S2 & S3 & S4 & S5).
  { cbn. rewrite enum_from_snd, enum_from_length. reflexivity. }
  cbn [perm shape] in S4, S2.
  rewrite enum_from_length in S5. unfold nlegs, nvirt, nparents in S5. cbn in S5. rewrite seq_length in S5.
  assert (Lb : length shb = length (axes tb)) by (unfold shb; apply map_length).
  exists in2. split.
  - rewrite <- H. cbn [nodes set_root upd_nodes]. rewrite Hl1. rewrite aget_aset_other by exact Hnp. apply aget_aset_same.
  - split; [rewrite S4, Lb; reflexivity|]. split; [exact S2|]. rewrite <- Lb. exact S5.
Qed.

(* ==== part 3: finished nodes ==== *)

(* tensors only exist for identifiers with a node record *)
Definition tsub (g : store) : Prop := forall k, aget k (nodes g) = None -> aget k (tensors g) = None.

(* a node the recursion has finished: exact logical axes, a permutation, the recorded shape, registered wires *)
Definition fin (g : store) (V0 : view) (k : id) : Prop :=
  exists a ta n0,
    aget k (nodes g) = Some a /\ aget k (tensors g) = Some ta /\ aget k (vnodes V0) = Some n0 /\
    parent a <> None /\
    laxes a ta = ew g k :: map (ew g) (children a) ++ vopen V0 k n0 /\
    Permutation (perm a) (seq 0 (length (shape a))) /\ shape a = map (wdim g) (axes ta) /\
    (forall w, In w (axes ta) -> w < next_wire g).

(* the record of k keeps its permutation / shape / children (the parent pointer may change), the tensor stays *)
Definition keeps (g g' : store) (k : id) : Prop :=
  aget k (tensors g') = aget k (tensors g) /\
  forall a, aget k (nodes g) = Some a ->
    exists a', aget k (nodes g') = Some a' /\ perm a' = perm a /\ shape a' = shape a /\ children a' = children a /\
               (parent a <> None -> parent a' <> None).

Lemma keeps_refl g k : keeps g g k.
Proof. split; [reflexivity|]. intros a E. exists a. auto. Qed.

Lemma keeps_trans g1 g2 g3 k : keeps g1 g2 k -> keeps g2 g3 k -> keeps g1 g3 k.
Proof.
  intros [T1 N1] [T2 N2]. split; [congruence|]. intros a E. destruct (N1 a E) as (a' & E' & P1 & S1 & C1 & Q1).
  destruct (N2 a' E') as (a'' & E'' & P2 & S2 & C2 & Q2). exists a''. repeat split; try congruence. auto.
Qed.

Lemma keeps_same g g' k : aget k (tensors g') = aget k (tensors g) -> aget k (nodes g') = aget k (nodes g) -> keeps g g' k.
Proof. intros T N. split; [exact T|]. intros a E. exists a. rewrite N. auto. Qed.

Lemma ew_some g k a ta : aget k (nodes g) = Some a -> aget k (tensors g) = Some ta -> ew g k = nth 0 (laxes a ta) 0.
Proof. intros E T. unfold ew, lax, tens. rewrite E, T. reflexivity. Qed.

Lemma keeps_ew g g' k a : keeps g g' k -> aget k (nodes g) = Some a -> ew g' k = ew g k.
Proof.
  intros [T N] E. destruct (N a E) as (a' & E' & P & _). unfold ew, lax, tens, laxes. rewrite E, E', T, P. reflexivity.
Qed.

Lemma fin_keeps g g' V0 k : fin g V0 k -> keeps g g' k -> grows g g' ->
  (forall a x, aget k (nodes g) = Some a -> In x (children a) -> ew g' x = ew g x) -> fin g' V0 k.
Proof.
  intros (a & ta & n0 & E & T & E0 & Hp & L & Pm & Sh & Bd) K G Hch.
  pose proof (keeps_ew g g' k a K E) as Hew. destruct K as [KT KN].
  destruct (KN a E) as (a' & E' & P' & S' & C' & Q'). exists a', ta, n0.
  split; [exact E'|]. split; [rewrite KT; exact T|]. split; [exact E0|]. split; [auto|].
  split.
  { unfold laxes. rewrite P'. fold (laxes a ta). rewrite L, Hew, C'. f_equal. f_equal. apply map_ext_in. intros x Hx.
    symmetry. apply (Hch a x E Hx). }
  split; [rewrite P', S'; exact Pm|]. split.
  { rewrite S', Sh. apply map_ext_in. intros w Hw. symmetry. apply (gr_wdim _ _ G). apply Bd. exact Hw. }
  intros w Hw. pose proof (Bd w Hw). pose proof (gr_nw _ _ G). lia.
Qed.

Lemma fin_ew g V0 k a ta : fin g V0 k -> aget k (nodes g) = Some a -> aget k (tensors g) = Some ta ->
  In (ew g k) (axes ta).
Proof.
  intros (a' & ta' & n0 & E & T & _ & _ & L & Pm & Sh & _) Ea Et. rewrite E in Ea. injection Ea as <-. rewrite T in Et. injection Et as <-.
  assert (Hin : In (ew g k) (laxes a' ta')) by (rewrite L; left; reflexivity).
  unfold laxes in Hin. apply (permute_incl 0 (perm a') (axes ta')); [|exact Hin].
  intros i Hi. pose proof (perm_bound _ _ Pm i Hi) as Hb. rewrite Sh, map_length in Hb. exact Hb.
Qed.

Lemma fin_ew_lt g V0 k : fin g V0 k -> ew g k < next_wire g.
Proof.
  intros F. pose proof F as (a & ta & n0 & E & T & _ & _ & _ & _ & _ & Bd). apply Bd. apply (fin_ew g V0 k a ta F E T).
Qed.

(* the atom clauses of the extended invariant wfsb (TTN/InvSem.v) when every tensor is one atom *)
Definition atoms_ok (gf : store) : Prop :=
  atab_ok gf /\
  (forall k t, aget k (tensors gf) = Some t -> exists ws, atoms t = [hd 0 (atoms t)] /\ bnd t = [] /\
      aget (hd 0 (atoms t)) (atab gf) = Some ws /\ incl ws (axes t) /\ hd 0 (atoms t) < next_atom gf) /\
  (forall k k' t t', aget k (tensors gf) = Some t -> aget k' (tensors gf) = Some t' -> hd 0 (atoms t) = hd 0 (atoms t') -> k = k').

Lemma flat_map_nil_all {A B} (f : A -> list B) l : (forall x, In x l -> f x = []) -> flat_map f l = [].
Proof. induction l as [|x t IH]; intros H; cbn; [reflexivity|]. rewrite (H x (or_introl eq_refl)), IH; [reflexivity|]. intros y Hy. apply H. right. exact Hy. Qed.

Lemma NoDup_flat_singletons {V} (f : nat * V -> list nat) (h : nat * V -> nat) : forall l : list (nat * V),
  NoDup (akeys l) -> (forall kt, In kt l -> f kt = [h kt]) ->
  (forall kt kt', In kt l -> In kt' l -> h kt = h kt' -> fst kt = fst kt') -> NoDup (flat_map f l).
Proof.
  induction l as [|x t IH]; intros Hnd Hf Hinj; cbn; [constructor|].
  cbn in Hnd. inversion Hnd as [|? ? Hni Hnd']; subst.
  rewrite (Hf x (or_introl eq_refl)). cbn. constructor.
  - intros Hin. apply in_flat_map in Hin. destruct Hin as (y & Hy & Hin). rewrite (Hf y (or_intror Hy)) in Hin.
    destruct Hin as [E|[]]. apply Hni. rewrite <- (Hinj y x (or_intror Hy) (or_introl eq_refl) E). apply in_map. exact Hy.
  - apply IH; [exact Hnd'| |].
    + intros kt Hkt. apply Hf. right. exact Hkt.
    + intros kt kt' H1 H2. apply Hinj; right; assumption.
Qed.

Lemma assemble_wfs gf : wf gf -> atoms_ok gf -> InvSem.wfs gf.
Proof.
  intros W (AO & Hat & Hinj).
  assert (Hin : forall k t, In (k, t) (tensors gf) -> aget k (tensors gf) = Some t).
  { intros k t H. apply In_aget; [apply (wf_tnd gf W)|exact H]. }
  assert (Hb : InvSem.total_bnd gf = []).
  { unfold InvSem.total_bnd. apply flat_map_nil_all. intros [k t] H. destruct (Hat k t (Hin k t H)) as (ws & _ & B & _). exact B. }
  assert (Ha : forall a, In a (total_atoms gf) -> exists k t, aget k (tensors gf) = Some t /\ a = hd 0 (atoms t)).
  { intros a H. unfold total_atoms in H. apply in_flat_map in H. destruct H as ([k t] & Hkt & Ha). cbn [snd] in Ha.
    destruct (Hat k t (Hin k t Hkt)) as (ws & A & _). rewrite A in Ha. destruct Ha as [<-|[]]. exists k, t. auto. }
  constructor.
  - exact W.
  - intros k t Et a Ha' x Hx. destruct (Hat k t Et) as (ws & A & _ & T & I & _). rewrite A in Ha'. destruct Ha' as [<-|[]].
    unfold Sem.atom_wires in Hx. rewrite T in Hx. left. apply I. exact Hx.
  - rewrite Hb. constructor.
  - rewrite Hb. intros w [].
  - rewrite Hb. intros w [].
  - unfold total_atoms. apply (NoDup_flat_singletons (fun kt => atoms (snd kt)) (fun kt => hd 0 (atoms (snd kt)))).
    + apply (wf_tnd gf W).
    + intros [k t] H. cbn [snd]. destruct (Hat k t (Hin k t H)) as (ws & A & _). exact A.
    + intros [k t] [k' t'] H H' E. cbn [fst snd] in *. apply (Hinj k k' t t' (Hin k t H) (Hin k' t' H') E).
  - intros a H. destruct (Ha a H) as (k & t & Et & ->). destruct (Hat k t Et) as (ws & _ & _ & _ & _ & L). exact L.
  - intros a H. destruct (Ha a H) as (k & t & Et & ->). destruct (Hat k t Et) as (ws & _ & _ & T & _). apply amem_aget. eauto.
  - exact AO.
Qed.

(* Everything about the atom table is stated under a proposition Q: the well-formedness theorem (Q := False) needs no
   hypothesis on the atom table, the theorem about the extended invariant (Q := True) needs that no key of the table is
   beyond the atom counter (a clause of wfsb), so that the entry of a fresh atom is not shadowed. *)
Section WithQ.
Variable Q : Prop.

Definition aok (g : store) : Prop := Q -> atab_ok g.

Lemma aok_app g g' : aapp g g' -> aok g -> aok g'.
Proof. intros A O HQ. apply (aapp_ok g g' A (O HQ)). Qed.

(* the atom side of a finished node: one fresh atom, nothing summed inside, its table entry lists axes of the tensor *)
Definition atom_of (g : store) (k : id) : nat := match aget k (tensors g) with Some t => hd 0 (atoms t) | None => 0 end.

Definition afin (g : store) (k : id) : Prop :=
  exists ta ws, aget k (tensors g) = Some ta /\ atoms ta = [atom_of g k] /\ bnd ta = [] /\
    (Q -> aget (atom_of g k) (atab g) = Some ws) /\ incl ws (axes ta) /\ atom_of g k < next_atom g.

Lemma afin_intro g k ta atm ws : aget k (tensors g) = Some ta -> atoms ta = [atm] -> bnd ta = [] ->
  (Q -> aget atm (atab g) = Some ws) -> incl ws (axes ta) -> atm < next_atom g -> afin g k /\ atom_of g k = atm.
Proof.
  intros T A B W I L. assert (E : atom_of g k = atm) by (unfold atom_of; rewrite T, A; reflexivity).
  split; [|exact E]. exists ta, ws. rewrite E. auto 6.
Qed.

Lemma afin_frame g g' k : afin g k -> aget k (tensors g') = aget k (tensors g) -> aapp g g' -> afin g' k /\ atom_of g' k = atom_of g k.
Proof.
  intros (ta & ws & T & A & B & W & I & L) Et G.
  assert (E : atom_of g' k = atom_of g k) by (unfold atom_of; rewrite Et; reflexivity).
  split; [|exact E]. exists ta, ws. rewrite E, Et. split; [exact T|]. split; [exact A|]. split; [exact B|].
  split; [intros HQ; rewrite (aapp_old g g' _ G L); exact (W HQ)|]. split; [exact I|]. pose proof (aapp_na _ _ G). lia.
Qed.

Lemma afin_lt g k : afin g k -> atom_of g k < next_atom g.
Proof. intros (ta & ws & _ & _ & _ & _ & _ & L). exact L. Qed.

Lemma llf_atoms t : atoms (last_leg_first t) = atoms t /\ bnd (last_leg_first t) = bnd t.
Proof. unfold last_leg_first. destruct (length (axes t)) as [|[|k]]; split; reflexivity. Qed.

(* ==== part 4: basis-change atom + split_node_replace + the final read, with the record of the node ==== *)
Section BcSplit2.
  Variable bcoff : nat.
  Notation bc := (bcid bcoff).

  Lemma bc_split_some2 g n p wold newb nw rest nd0 t0 pn :
    aget n (nodes g) = Some nd0 -> aget n (tensors g) = Some t0 -> parent nd0 = Some p ->
    NoDup (children nd0) -> ~ In p (children nd0) -> nvirt nd0 <= nlegs nd0 ->
    axes newb = nw :: rest ->
    wdim g wold :: map (wdim g) rest = map (wdim g) (laxes nd0 t0) ->
    bc n <> n -> bc n <> p -> n <> p -> aget p (nodes g) = Some pn -> In n (children pn) -> parent pn <> Some n ->
    (forall x, In x (children nd0) -> x <> bc n /\ x <> n /\ exists xn, aget x (nodes g) = Some xn /\ parent xn = Some n) ->
    NoDup (akeys (tensors g)) -> NoDup (akeys (nodes g)) -> aget (bc n) (nodes g) = None ->
    forall g5 m, bc_atom g wold nw = (g5, m) ->
    exists g6 g7 on2 a ta,
      split_replace g5 n {| ls_parent := Some p; ls_children := []; ls_open := []; ls_root := false |}
                         {| ls_parent := None; ls_children := children nd0; ls_open := seq (nvirt nd0) (nopen nd0); ls_root := false |}
                         (bc n) n m newb = Some g6 /\
      option_map (fun r => fst (fst r)) (access g6 n) = Some g7 /\
      aget (bc n) (nodes g7) = Some on2 /\ perm on2 = [0; 1] /\ aget (bc n) (tensors g7) = Some m /\ axes m = [wold; nw] /\
      NoDup (akeys (tensors g7)) /\ dims g7 = dims g /\ next_wire g7 = next_wire g /\
      aget n (nodes g7) = Some a /\ aget n (tensors g7) = Some ta /\ parent a = Some (bc n) /\ children a = children nd0 /\
      laxes a ta = axes newb /\ axes ta = axes newb /\
      Permutation (perm a) (seq 0 (length (shape a))) /\ shape a = map (wdim g) (axes newb) /\
      (forall k, k <> n -> k <> bc n -> aget k (tensors g7) = aget k (tensors g)) /\
      atoms ta = atoms newb /\ bnd ta = bnd newb /\ atab g7 = atab g5 /\ next_atom g7 = next_atom g5.
  Proof.
    intros En Et Hp Hnd HpX Hv Hax Hsh Hbn Hbp Hnp Ep Hin Hpn HX Htnd Hnnd Eb g5 m Ebc.
    destruct (bc_atom_effect _ _ _ _ _ Ebc) as (N5 & T5 & R5 & Gr5 & Hm & D5 & W5).
    assert (Hwd : forall w, wdim g5 w = wdim g w) by (intros w; unfold wdim; rewrite D5; reflexivity).
    destruct (split_replace_some g5 n p (bc n) m newb nd0 t0 pn (wdim g5 wold) (wdim g5 nw)) as (g6 & on2 & E6 & Eon2 & Pon2 & T6); auto.
    - rewrite N5. exact En.
    - rewrite T5. exact Et.
    - rewrite Hm. reflexivity.
    - rewrite Hax. cbn [map tl]. rewrite Hwd. rewrite (map_ext (wdim g5) (wdim g) Hwd), Hsh. apply map_ext. intros w. symmetry. apply Hwd.
    - rewrite Hax. reflexivity.
    - rewrite Hax. discriminate.
    - rewrite N5. exact Ep.
    - intros x Hx. destruct (HX x Hx) as (X1 & X2 & xn & Ex & Px). split; [exact X1|]. split; [exact X2|]. exists xn. rewrite N5. auto.
    - rewrite <- N5 in Hnnd, En, Ep, Eb.
      destruct (split_replace_bug g5 n p (bc n) (children nd0) _ m newb g6 nd0 pn Hnnd En Hp eq_refl Ep Hpn Eb Hnp E6)
        as (in2 & on2' & S1 & S2 & S3 & _ & _ & _ & _ & _ & _ & _ & _ & S11 & _ & _ & S14 & S15 & _).
      destruct (split_replace_in2 g5 n p (bc n) _ _ m newb g6 Hnp E6) as (in2' & I1 & I2 & I3 & I4).
      assert (A1 : aget n (nodes g6) = Some in2) by (rewrite S1, (eqb_false n p), Nat.eqb_refl by exact Hnp; reflexivity).
      rewrite A1 in I1. injection I1 as <-.
      assert (A2 : aget n (tensors g6) = Some newb) by (rewrite S11, Nat.eqb_refl; reflexivity).
      exists g6. eexists. exists on2, (reset_permutation in2), (s_transpose (perm in2) newb).
      split; [exact E6|]. split; [unfold access; rewrite A1, A2; reflexivity|].
      cbn [fst upd_tensors upd_nodes nodes tensors dims next_wire].
      split; [rewrite aget_aset_other by exact Hbn; exact Eon2|]. split; [exact Pon2|].
      split.
      { rewrite aget_aset_other by exact Hbn. rewrite S11, (eqb_false (bc n) n), Nat.eqb_refl by exact Hbn. reflexivity. }
      split; [rewrite Hm; reflexivity|].
      split; [apply NoDup_akeys_aset; rewrite T6; repeat apply NoDup_akeys_aset; rewrite T5; exact Htnd|].
      split; [rewrite S14; exact D5|]. split; [rewrite S15; exact W5|].
      split; [apply aget_aset_same|]. split; [apply aget_aset_same|].
      split; [exact S2|]. split; [exact S3|].
      assert (Hpa : permute 0 (perm in2) (axes newb) = axes newb) by (rewrite I2; apply permute_seq).
      split; [rewrite access_laxes; exact Hpa|]. split; [exact Hpa|].
      split.
      { cbn [reset_permutation perm shape]. unfold node_shape. rewrite I2, I3, seq_length.
        rewrite <- (map_length (wdim g5) (axes newb)), permute_seq. reflexivity. }
      split.
      { cbn [reset_permutation shape]. unfold node_shape. rewrite I2, I3.
        rewrite <- (map_length (wdim g5) (axes newb)), permute_seq. apply map_ext. exact Hwd. }
      split.
      { intros k K1 K2. rewrite aget_aset_other by exact K1. rewrite S11, (eqb_false k n), (eqb_false k (bc n)) by assumption.
        rewrite T5. reflexivity. }
      split; [reflexivity|]. split; [reflexivity|]. cbn [atab next_atom]. apply (split_replace_tables _ _ _ _ _ _ _ _ E6).
  Qed.
End BcSplit2.

(* ==== part 5: update_leaf_node ==== *)
Lemma tsub_step g g' : tsub g ->
  (forall k, aget k (nodes g') = None -> aget k (nodes g) = None /\ aget k (tensors g') = aget k (tensors g)) -> tsub g'.
Proof. intros T H k Hk. destruct (H k Hk) as [H1 H2]. rewrite H2. apply T. exact H1. Qed.

Section LeafKernel2.
  Variable fixed : bool.

  Lemma leaf_kernel_some2 g1 oldb u wp op wc oc :
    axes oldb = [wp; op] -> axes u = [wc; oc] -> dims_ok g1 -> wdim g1 op = wdim g1 oc -> aok g1 ->
    exists g3 q r x1 b atm,
      (if fixed then qr_kernel g1 u [1] [0] Keep
       else match concat_axis g1 0 oldb u with
            | Some (g2, cc) => qr_kernel g2 cc [1] [0] Reduced
            | None => None
            end) = Some (g3, q, r) /\
      axes q = [x1; b] /\ (x1 = oc \/ x1 = op) /\ nodes g3 = nodes g1 /\ tensors g3 = tensors g1 /\ grows g1 g3 /\ dims_ok g3 /\
      b < next_wire g3 /\ next_wire g1 <= b /\
      atoms q = [atm] /\ bnd q = [] /\ (Q -> aget atm (atab g3) = Some (axes q)) /\ next_atom g1 <= atm < next_atom g3 /\ aapp g1 g3.
  Proof.
    intros Ho Hu D Hd AO. destruct fixed.
    - destruct (qr_kernel_some g1 u [1] [0] Keep) as (g3 & q & r & Eq).
      { rewrite Hu. cbn. apply perm_swap. }
      { intros _. discriminate. }
      destruct (qr_kernel_effect _ _ _ _ _ _ _ _ Eq) as (N & T & _ & Gr & Hq & _ & Hdm & Hnw & _).
      destruct (qr_kernel_atab _ _ _ _ _ _ _ _ Eq) as (At & Na & Aq & Bq).
      exists g3, q, r, oc, (next_wire g1), (next_atom g1). split; [exact Eq|]. split; [rewrite Hq, Hu; reflexivity|].
      split; [left; reflexivity|]. split; [exact N|]. split; [exact T|]. split; [exact Gr|].
      split; [apply (dims_ok_snoc g1 g3 _ D Hdm Hnw)|]. split; [lia|]. split; [lia|].
      split; [exact Aq|]. split; [exact Bq|]. split; [intros HQ; apply (atab_new g1 g3 _ _ (AO HQ) At)|]. split; [lia|].
      apply (aapp_two g1 g3 _ _ At Na).
    - destruct (concat_axis_some g1 0 oldb u) as (g2 & cc & Ec).
      { rewrite Ho, Hu. reflexivity. }
      { rewrite Ho. cbn. lia. }
      { rewrite Ho, Hu. cbn. rewrite Hd. reflexivity. }
      rewrite Ec.
      destruct (concat_axis_effect _ _ _ _ _ _ Ec) as (N2 & T2 & _ & Gr2 & Hcc & Hd2 & Hnw2 & _).
      pose proof (concat_axis_aapp _ _ _ _ _ _ Ec) as A2. pose proof (aok_app _ _ A2 AO) as AO2.
      destruct (qr_kernel_some g2 cc [1] [0] Reduced) as (g3 & q & r & Eq).
      { rewrite Hcc, Ho. cbn. apply perm_swap. }
      { discriminate. }
      destruct (qr_kernel_effect _ _ _ _ _ _ _ _ Eq) as (N & T & _ & Gr & Hq & _ & Hdm & Hnw & _).
      destruct (qr_kernel_atab _ _ _ _ _ _ _ _ Eq) as (At & Na & Aq & Bq).
      pose proof (aapp_na _ _ A2) as Na2.
      exists g3, q, r, op, (next_wire g2), (next_atom g2). split; [exact Eq|]. split; [rewrite Hq, Hcc, Ho; reflexivity|].
      split; [right; reflexivity|]. split; [congruence|]. split; [congruence|]. split; [eapply grows_trans; eauto|].
      split; [apply (dims_ok_snoc g2 g3 _ (dims_ok_snoc g1 g2 _ D Hd2 Hnw2) Hdm Hnw)|]. split; [lia|]. split; [lia|].
      split; [exact Aq|]. split; [exact Bq|]. split; [intros HQ; apply (atab_new g2 g3 _ _ (AO2 HQ) At)|]. split; [lia|].
      eapply aapp_trans; [exact A2|apply (aapp_two g2 g3 _ _ At Na)].
  Qed.
End LeafKernel2.

Section Leaf2.
  Variables (fixed : bool) (bcoff : nat).
  Notation bc := (bcid bcoff).

  Lemma update_leaf_some2 n p g cv pv V0 n0 pn :
    wf (focus g V0) -> wf (focus g pv) -> wf (focus g cv) ->
    same_tree (vnodes V0) (vnodes pv) -> same_tree (vnodes pv) (vnodes cv) ->
    dims_kept (focus g V0) (focus g pv) -> dims_kept (focus g pv) (focus g cv) ->
    opens_kept (focus g V0) (focus g pv) -> opens_kept (focus g pv) (focus g cv) -> tsub g -> aok g ->
    aget n (nodes g) = aget n (vnodes V0) -> aget n (tensors g) = aget n (vtensors V0) ->
    aget n (vnodes V0) = Some n0 -> parent n0 = Some p -> children n0 = [] -> nopen n0 = 1 ->
    NoDup (akeys (nodes g)) -> NoDup (akeys (tensors g)) ->
    aget p (nodes g) = Some pn -> In n (children pn) -> parent pn <> Some n -> aget (bc n) (nodes g) = None -> n <> p -> bc n <> p ->
    exists g' bn tb w',
      update_leaf fixed bcoff n g cv pv = Some g' /\
      aget (bc n) (nodes g') = Some bn /\ aget (bc n) (tensors g') = Some tb /\
      laxes bn tb = [ew (focus g pv) n; w'] /\ w' < next_wire g' /\ dims_ok g' /\ NoDup (akeys (tensors g')) /\
      fin g' V0 n /\ ew g' n = w' /\ next_wire g <= w' /\ tsub g' /\
      afin g' n /\ next_atom g <= atom_of g' n /\ aapp g g'.
  Proof.
    intros W0 Wp Wc S0p Spc D0p Dpc O0p Opc Ts AO Hng Htg E0 P0 C0 O0 Hnd Htnd Ep Hin Hpn Eb Hnp Hbp.
    assert (Hbn : bc n <> n) by (intros E; rewrite E in Eb; rewrite Hng, E0 in Eb; discriminate).
    (* the three records of n *)
    destruct (same_tree_some _ _ _ _ S0p E0) as (on & Eon & Pon & Con).
    destruct (same_tree_some _ _ _ _ Spc Eon) as (cn & Ecn & Pcn & Ccn).
    assert (Cc_on : children on = []) by (apply Permutation_nil; rewrite <- C0; exact Con).
    assert (Cc_cn : children cn = []) by (apply Permutation_nil; rewrite <- Cc_on; exact Ccn).
    assert (Pp_on : parent on = Some p) by congruence.
    assert (Pp_cn : parent cn = Some p) by congruence.
    assert (Oon : nopen on = 1) by (rewrite (dims_kept_nopen _ _ n n0 on D0p E0 Eon); exact O0).
    assert (Ocn : nopen cn = 1) by (rewrite (dims_kept_nopen _ _ n on cn Dpc Eon Ecn); exact Oon).
    destruct (leaf_lax2 (focus g V0) n n0 p W0 E0 P0 C0 O0) as (w0 & o0 & L0 & Op0 & Nv0 & Nl0).
    destruct (leaf_lax2 (focus g pv) n on p Wp Eon Pp_on Cc_on Oon) as (wp & op & Lp & Opp & Nvp & Nlp).
    destruct (leaf_lax2 (focus g cv) n cn p Wc Ecn Pp_cn Cc_cn Ocn) as (wc & oc & Lc & Opc' & Nvc & Nlc).
    (* the open wire is the same in the three states *)
    assert (Hop : op = o0).
    { pose proof (O0p n n0 on E0 Eon) as QQ. rewrite Op0, Opp in QQ. congruence. }
    assert (Hoc : oc = o0).
    { pose proof (Opc n on cn Eon Ecn) as QQ. rewrite Opp, Opc' in QQ. congruence. }
    (* dimensions *)
    destruct D0p as [D0p1 D0p2]. destruct Dpc as [Dpc1 Dpc2].
    pose proof (D0p1 n n0 on E0 Eon) as Q1. rewrite Op0, Opp in Q1. cbn [map] in Q1. injection Q1 as Q1.
    pose proof (D0p2 n n0 on E0 Eon ltac:(congruence)) as Q2. rewrite L0, Lp in Q2. cbn [nth] in Q2.
    pose proof (Dpc1 n on cn Eon Ecn) as Q3. rewrite Opp, Opc' in Q3. cbn [map] in Q3. injection Q3 as Q3.
    rewrite !wdim_focus in Q1, Q2, Q3.
    (* wires *)
    assert (B0 : w0 < next_wire g /\ o0 < next_wire g).
    { split; [apply (lax_wires (focus g V0) n n0 w0 W0 E0)|apply (lax_wires (focus g V0) n n0 o0 W0 E0)]; rewrite L0; cbn; auto. }
    assert (Bp : wp < next_wire g /\ op < next_wire g).
    { split; [apply (lax_wires (focus g pv) n on wp Wp Eon)|apply (lax_wires (focus g pv) n on op Wp Eon)]; rewrite Lp; cbn; auto. }
    assert (Bc : wc < next_wire g /\ oc < next_wire g).
    { split; [apply (lax_wires (focus g cv) n cn wc Wc Ecn)|apply (lax_wires (focus g cv) n cn oc Wc Ecn)]; rewrite Lc; cbn; auto. }
    (* the tensors *)
    pose proof (wf_tens (focus g cv) n cn Wc Ecn) as Tcn.
    pose proof (wf_tens (focus g pv) n on Wp Eon) as Ton.
    pose proof (wf_tens (focus g V0) n n0 W0 E0) as Tn0.
    assert (EU : exists g' bn tb w' a ta,
      update_leaf fixed bcoff n g cv pv = Some g' /\
      aget (bc n) (nodes g') = Some bn /\ aget (bc n) (tensors g') = Some tb /\
      laxes bn tb = [ew (focus g pv) n; w'] /\ w' < next_wire g' /\ dims_ok g' /\ NoDup (akeys (tensors g')) /\
      aget n (nodes g') = Some a /\ aget n (tensors g') = Some ta /\ parent a <> None /\ children a = [] /\
      laxes a ta = [w'; o0] /\ Permutation (perm a) (seq 0 (length (shape a))) /\ shape a = map (wdim g') (axes ta) /\
      (forall w, In w (axes ta) -> w < next_wire g') /\ next_wire g <= w' /\
      exists atm ws, atoms ta = [atm] /\ bnd ta = [] /\ (Q -> aget atm (atab g') = Some ws) /\ incl ws (axes ta) /\ next_atom g <= atm < next_atom g').
    { unfold update_leaf.
      destruct (evolve_some (focus g cv) n cn _ Ecn Tcn) as (s1 & u & Eev). rewrite Eev.
      destruct (evolve_effect _ _ _ _ Eev) as (cnd & ct & V1 & V2 & V3 & V4 & V5 & V6 & V7 & V8 & V9).
      cbn [focus nodes tensors] in V1, V2, Tcn.
      rewrite Ecn in V1. injection V1 as <-. rewrite Tcn in V2. injection V2 as <-.
      assert (Hu : axes u = [wc; oc]) by (rewrite V5; exact Lc).
      unfold vlogical. cbn [focus nodes tensors] in Eon, Ton. rewrite Eon, Ton.
      set (oldb := s_transpose (perm on) (tens (focus g pv) n)).
      assert (Ho : axes oldb = [wp; op]) by exact Lp.
      set (g1 := focus s1 (view_of g)).
      assert (Gr1 : grows g g1).
      { apply grows_focus_r. destruct V7 as [A1 A2 A3 A4]. constructor; assumption. }
      assert (Dk1 : dims_ok g1).
      { apply (dims_ok_same g g1 (wf_dims_ok g V0 W0)); [exact V8|unfold g1; cbn [focus next_wire]; rewrite V9; apply le_n]. }
      pose proof (evolve_aapp _ _ _ _ Eev) as Aev.
      assert (AO1 : aok g1) by (apply (aok_app (focus g cv) s1 Aev); exact AO).
      assert (Na1 : next_atom g <= next_atom g1) by (apply (aapp_na (focus g cv) s1 Aev)).
      destruct (leaf_kernel_some2 fixed g1 oldb u wp op wc oc Ho Hu Dk1) as (g3 & q & r & x1 & b & atm & Ek & Hq & Hx1 & N3 & T3 & Gr3 & Dk3 & Bb & Bb' & Aq & Bq & Tq & Rq & A13).
      { rewrite !(gr_wdim _ _ Gr1) by tauto. symmetry. exact Q3. }
      { exact AO1. }
      rewrite Ek.
      assert (Gr03 : grows g g3) by (eapply grows_trans; eauto).
      assert (Hwd : forall w, w < next_wire g -> wdim g3 w = wdim g w) by (intros w Hw; apply (gr_wdim _ _ Gr03 w Hw)).
      assert (Ex1 : x1 = o0) by (destruct Hx1 as [-> | ->]; assumption).
      assert (Bx1 : x1 < next_wire g) by (rewrite Ex1; tauto).
      assert (Qx1 : wdim g x1 = wdim g o0) by (rewrite Ex1; reflexivity).
      assert (Hnb : axes (s_transpose [1; 0] q) = [b; x1]) by (cbn; rewrite Hq; reflexivity).
      rewrite Ho, Hnb. cbn [length nth Nat.eqb andb].
      rewrite !Hwd by tauto.
      assert (Qc : wdim g op = wdim g x1) by congruence.
      rewrite Qc, Nat.eqb_refl. cbn [negb].
      destruct (bc_atom g3 wp b) as [g4 m] eqn:Ebc.
      cbn [view_of vnodes]. rewrite V3. cbn [focus nodes]. rewrite aget_aset_same. cbn [reset_permutation parent]. rewrite Pp_cn.
      (* split_node_replace *)
      assert (N3' : nodes g3 = nodes g) by (rewrite N3; reflexivity).
      assert (T3' : tensors g3 = tensors g) by (rewrite T3; reflexivity).
      destruct (bc_split_some2 bcoff g3 n p wp (s_transpose [1; 0] q) b [x1] n0 (tens (focus g V0) n) pn) with (g5 := g4) (m := m)
        as (g6 & g7 & on2 & a & ta & E6 & E7 & A1 & A2 & A3 & A4 & A5 & A6 & A7 & B1 & B2 & B3 & B4 & B5 & B6 & B7 & B8 & B9 & B10 & B11 & B12 & B13); auto.
      { rewrite N3', Hng. exact E0. }
      { rewrite T3', Htg. exact Tn0. }
      { rewrite C0. constructor. }
      { rewrite C0. intros []. }
      { rewrite Nv0, Nl0. lia. }
      { fold (lax (focus g V0) n n0). rewrite L0. cbn [map]. rewrite !Hwd by tauto. congruence. }
      { rewrite N3'. exact Ep. }
      { rewrite C0. intros x []. }
      { rewrite T3'. exact Htnd. }
      { rewrite N3'. exact Hnd. }
      { rewrite N3'. exact Eb. }
      rewrite C0, Nv0, O0 in E6. cbn [seq] in E6. rewrite E6, E7.
      assert (NW1 : next_wire g1 = next_wire g) by (unfold g1; cbn [focus next_wire]; exact V9).
      exists g7, on2, m, b, a, ta. split; [reflexivity|]. split; [exact A1|]. split; [exact A3|].
      split.
      { unfold laxes. rewrite A2, A4. unfold ew. cbn [focus nodes]. rewrite Eon.
        change (lax (focus g pv) n on) with (lax (focus g pv) n on). rewrite Lp. reflexivity. }
      split; [rewrite A7; exact Bb|]. split; [apply (dims_ok_same g3 g7 Dk3 A6); rewrite A7; apply le_n|]. split; [exact A5|].
      split; [exact B1|]. split; [exact B2|]. split; [rewrite B3; discriminate|]. split; [rewrite B4; exact C0|].
      split; [rewrite B5, Hnb, Ex1; reflexivity|]. split; [exact B7|].
      split; [rewrite B8, B6; apply map_ext; intros w; symmetry; apply wdim_dims_eq; exact A6|].
      split.
      { intros w Hw. rewrite B6, Hnb in Hw. rewrite A7. destruct Hw as [<-|[<-|[]]]; [exact Bb|].
        pose proof (gr_nw _ _ Gr03). lia. }
      split; [lia|].
      pose proof (bc_atom_aapp _ _ _ _ _ Ebc) as A34. pose proof (aapp_na _ _ A34) as Na34.
      exists atm, (axes q). split; [rewrite B10; exact Aq|]. split; [rewrite B11; exact Bq|].
      split; [intros HQ; rewrite B12, (aapp_old g3 g4 atm A34) by lia; exact (Tq HQ)|].
      split; [rewrite B6, Hnb, Hq; intros x [<-|[<-|[]]]; cbn; auto|]. rewrite B13. lia. }
    destruct EU as (g' & bn & tb & w' & a & ta & E' & X1 & X2 & X3 & X4 & X5 & X6 & Y1 & Y2 & Y3 & Y4 & Y5 & Y6 & Y7 & Y8 & Y9 & atm & ws & Z1 & Z2 & Z3 & Z4 & Z5).
    exists g', bn, tb, w'. split; [exact E'|]. split; [exact X1|]. split; [exact X2|]. split; [exact X3|]. split; [exact X4|].
    split; [exact X5|]. split; [exact X6|].
    assert (Hew : ew g' n = w') by (rewrite (ew_some g' n a ta Y1 Y2), Y5; reflexivity).
    split.
    { exists a, ta, n0. split; [exact Y1|]. split; [exact Y2|]. split; [exact E0|]. split; [exact Y3|].
      split; [rewrite Y5, Y4, Hew; cbn [map app]; rewrite <- (vopen_focus g V0 n n0), Op0; reflexivity|]. auto. }
    split; [exact Hew|]. split; [exact Y9|].
    destruct (afin_intro g' n ta atm ws Y2 Z1 Z2 Z3 Z4 ltac:(lia)) as [AF AE].
    cut (tsub g'); [intros Ts'; split; [exact Ts'|]; split; [exact AF|]; split; [rewrite AE; lia|apply (update_leaf_aapp _ _ _ _ _ _ _ E')]|].
    (* tensors only for recorded identifiers *)
    rewrite <- Hng in E0.
    destruct (update_leaf_effect fixed bcoff n p g cv pv g' n0 pn E' Hnd E0 P0 C0 Ep Hpn Eb Hnp)
      as (nn & bn' & L1 & _ & _ & _ & _ & _ & _ & _ & _ & L10 & _).
    { exists cn. split; [exact Ecn|exact Pp_cn]. }
    apply (tsub_step g g' Ts). intros k Hk. rewrite L1 in Hk.
    destruct (Nat.eqb_spec k p); [discriminate|]. destruct (Nat.eqb_spec k n); [discriminate|].
    destruct (Nat.eqb_spec k (bc n)); [discriminate|]. split; [exact Hk|apply L10; assumption].
  Qed.
End Leaf2.

(* ==== part 6: the new basis (with the allocation time of its bond), contract_all_children (tensors of the
   basis-change nodes are gone) ==== *)
Lemma new_basis_some2 fixed g nd oldt u :
  parent nd <> None -> length (axes u) = nlegs nd -> nvirt nd <= nlegs nd -> axes oldt = axes u ->
  dims_ok g -> (forall w, In w (axes u) -> w < next_wire g) -> aok g ->
  exists g' newb nw, new_basis fixed g nd oldt u = Some (g', newb) /\ axes newb = nw :: tl (axes u) /\
    dims_ok g' /\ nw < next_wire g' /\ nodes g' = nodes g /\ tensors g' = tensors g /\ grows g g' /\ next_wire g <= nw /\
    exists atm ws, atoms newb = [atm] /\ bnd newb = [] /\ (Q -> aget atm (atab g') = Some ws) /\ incl ws (axes newb) /\
                   next_atom g <= atm < next_atom g'.
Proof.
  intros Hpar Hlen Hv Hold Hdok Hwires AO. unfold new_basis.
  assert (Hr : is_root nd = false) by (unfold is_root; destruct (parent nd); [reflexivity|congruence]).
  rewrite Hr.
  assert (Hnp : nparents nd = 1) by (unfold nparents; destruct (parent nd); [reflexivity|congruence]).
  assert (Hql : seq (nparents nd) (length (children nd)) ++ seq (nvirt nd) (nopen nd) = seq 1 (nlegs nd - 1)).
  { unfold nopen, nvirt in *. rewrite Hnp in *. rewrite <- seq_app. f_equal. lia. }
  rewrite Hql.
  assert (HS : nlegs nd = S (nlegs nd - 1)) by (unfold nvirt in Hv; rewrite Hnp in Hv; lia).
  destruct fixed.
  - destruct (qr_kernel_some g u (seq 1 (nlegs nd - 1)) [0] Keep) as (g1 & q & r & Eq).
    { rewrite Hlen, HS at 1. replace (S (nlegs nd - 1) - 1) with (nlegs nd - 1) by lia. rewrite HS at 2. apply perm_seq1_0. }
    { intros _. discriminate. }
    rewrite Eq.
    destruct (qr_kernel_effect _ _ _ _ _ _ _ _ Eq) as (N & T & _ & Gr & Hq & _ & Hd & Hnw & _).
    rewrite (permute_seq1_tl 0 (axes u) (nlegs nd - 1)) in Hq, Hd by (transitivity (nlegs nd); [exact Hlen|exact HS]).
    assert (Hs : map (wdim g1) (axes (last_leg_first q)) = map (wdim g1) (axes u)).
    { rewrite Hq, last_leg_first_axes. destruct (axes u) as [|a0 ta] eqn:Eu; [cbn in Hlen; lia|]. cbn [tl map]. f_equal.
      rewrite (wdim_snoc_new g g1 _ Hdok Hd). unfold qr_bond_dim, permute. cbn [map prod_list fold_right nth].
      rewrite Nat.mul_1_r. symmetry. apply (gr_wdim _ _ Gr). apply Hwires. left. reflexivity. }
    destruct (qr_kernel_atab _ _ _ _ _ _ _ _ Eq) as (At & Na & Aq & Bq).
    rewrite (proj2 (list_eqb_eq _ _) Hs). eexists. eexists. exists (next_wire g). split; [reflexivity|].
    split; [rewrite Hq; apply last_leg_first_axes|]. split; [apply (dims_ok_snoc g g1 _ Hdok Hd Hnw)|].
    split; [lia|]. split; [exact N|]. split; [exact T|]. split; [exact Gr|]. split; [apply le_n|].
    exists (next_atom g), (axes q). destruct (llf_atoms q) as [LA LB].
    split; [rewrite LA; exact Aq|]. split; [rewrite LB; exact Bq|]. split; [intros HQ; apply (atab_new g g1 _ _ (AO HQ) At)|].
    split; [|lia]. rewrite Hq at 2. rewrite last_leg_first_axes. rewrite Hq. cbn [axes].
    intros x Hx. apply in_app_or in Hx. destruct Hx as [Hx|[<-|[]]]; [right; exact Hx|left; reflexivity].
  - destruct (concat_axis_some g 0 oldt u) as (g1 & cc & Ec).
    { rewrite Hold. reflexivity. }
    { rewrite Hold, Hlen. lia. }
    { rewrite Hold. reflexivity. }
    rewrite Ec.
    destruct (concat_axis_effect _ _ _ _ _ _ Ec) as (N1 & T1 & _ & Gr1 & Hcc & Hd1 & Hnw1 & _).
    assert (Hlcc : length (axes cc) = S (nlegs nd - 1)).
    { rewrite Hcc. cbn [axes]. rewrite set_nth_length, Hold, Hlen. exact HS. }
    destruct (qr_kernel_some g1 cc (seq 1 (nlegs nd - 1)) [0] Reduced) as (g2 & q & r & Eq).
    { rewrite Hlcc. apply perm_seq1_0. }
    { discriminate. }
    rewrite Eq.
    destruct (qr_kernel_effect _ _ _ _ _ _ _ _ Eq) as (N & T & _ & Gr & Hq & _ & Hd & Hnw & _).
    rewrite (permute_seq1_tl 0 (axes cc) (nlegs nd - 1) Hlcc) in Hq.
    assert (Eax : tl (axes cc) = tl (axes u)).
    { rewrite Hcc, Hold. cbn [axes]. destruct (axes u); reflexivity. }
    destruct (qr_kernel_atab _ _ _ _ _ _ _ _ Eq) as (At & Na & Aq & Bq).
    pose proof (concat_axis_aapp _ _ _ _ _ _ Ec) as A1. pose proof (aok_app _ _ A1 AO) as AO1. pose proof (aapp_na _ _ A1) as Na1.
    eexists. eexists. exists (next_wire g1). split; [reflexivity|].
    split; [rewrite Hq, last_leg_first_axes; f_equal; exact Eax|].
    split; [apply (dims_ok_snoc g1 g2 _ (dims_ok_snoc g g1 _ Hdok Hd1 Hnw1) Hd Hnw)|].
    split; [lia|]. split; [congruence|]. split; [congruence|]. split; [eapply grows_trans; eauto|]. split; [lia|].
    exists (next_atom g1), (axes q). destruct (llf_atoms q) as [LA LB].
    split; [rewrite LA; exact Aq|]. split; [rewrite LB; exact Bq|]. split; [intros HQ; apply (atab_new g1 g2 _ _ (AO1 HQ) At)|].
    split; [|lia]. rewrite Hq at 2. rewrite last_leg_first_axes. rewrite Hq. cbn [axes].
    intros x Hx. apply in_app_or in Hx. destruct Hx as [Hx|[<-|[]]]; [right; exact Hx|left; reflexivity].
Qed.

Section CFold2.
  Variable bcoff : nat.
  Notation bc := (bcid bcoff).

  Lemma contract_all_bc2 n (fo fn : id -> wire) : forall (X : list id) g nn tn (P0 WD O : list wire) (Done : list id),
    NoDup (akeys (nodes g)) -> NoDup (akeys (tensors g)) ->
    aget n (nodes g) = Some nn -> aget n (tensors g) = Some tn ->
    laxes nn tn = P0 ++ map fo X ++ WD ++ O -> length P0 = nparents nn ->
    children nn = map bc X ++ Done -> length WD = length Done -> NoDup (children nn) ->
    (forall x, In x X -> parent nn <> Some (bc x)) -> ~ In n (map bc X) ->
    NoDup X -> (forall x x', In x X -> In x' X -> bc x' <> x) -> (forall x, In x X -> ~ In x Done) ->
    shape nn = map (wdim g) (axes tn) -> (forall i, In i (perm nn) -> i < length (axes tn)) ->
    (forall x, In x X -> exists bn tb, aget (bc x) (nodes g) = Some bn /\ aget (bc x) (tensors g) = Some tb /\
                                       parent bn = Some n /\ children bn = [x] /\ laxes bn tb = [fo x; fn x]) ->
    exists g' nn' tn',
      cfold n (map bc X) g = Some g' /\ aget n (nodes g') = Some nn' /\ aget n (tensors g') = Some tn' /\
      laxes nn' tn' = P0 ++ WD ++ map fn X ++ O /\ children nn' = Done ++ X /\ parent nn' = parent nn /\
      NoDup (akeys (tensors g')) /\ shape nn' = map (wdim g') (axes tn') /\ (forall i, In i (perm nn') -> i < length (axes tn')) /\
      (forall x, In x X -> aget (bc x) (tensors g') = None) /\
      (forall k, k <> n -> ~ In k (map bc X) -> aget k (tensors g') = aget k (tensors g)).
  Proof.
    induction X as [|x X IH]; intros g nn tn P0 WD O Done Hnd Htnd En Tn Ln HP0 Cn HWD Hcnd Hpar HnB HX Hdisj HXD Hshape Hpb Hb.
    - exists g, nn, tn. cbn [map app] in *. rewrite app_nil_r. split; [reflexivity|]. split; [exact En|]. split; [exact Tn|].
      split; [exact Ln|]. split; [exact Cn|]. split; [reflexivity|]. split; [exact Htnd|]. split; [exact Hshape|]. split; [exact Hpb|].
      split; [intros x []|auto].
    - cbn [map app] in Ln, Cn.
      destruct (Hb x (or_introl eq_refl)) as (bn & tb & Eb & Tb & Pb & Cb & Lb).
      assert (Hnb : n <> bc x) by (intros E; apply HnB; left; symmetry; exact E).
      inversion HX as [|? ? Hxni HX']; subst.
      destruct (contract_bc_step g n (bc x) nn bn tn tb P0 (map fo X ++ WD) O (fo x) (fn x) x (map bc X ++ Done)
                  Hnd Htnd En Eb Hnb Pb Cb Tn Tb) as (g1 & nn1 & tn1 & E1 & En1 & Tn1 & Ln1 & Cn1 & Pn1 & Htnd1 & Sh1 & Pb1); auto.
      { rewrite Ln, <- !app_assoc. reflexivity. }
      { rewrite !app_length, !map_length. nlia. }
      { apply Hpar. left. reflexivity. }
      destruct (contract_child g n (bc x) g1 nn bn Hnd En Eb Pb Hnb E1)
        as (nn1' & nt & ax & G1 & _ & _ & N1 & _ & _ & D1 & _ & _ & _ & T1 & _ & _ & TT & _).
      destruct (TT Htnd) as (_ & Gone & _).
      assert (Hget1 : forall k, k <> n -> k <> bc x -> k <> x -> aget k (nodes g1) = aget k (nodes g)).
      { intros k K1 K2 K3. rewrite G1, (eqb_false k n), (eqb_false k (bc x)) by assumption.
        destruct (aget k (nodes g)) as [kn|]; [|reflexivity]. cbn. unfold reparent. rewrite Cb. cbn.
        rewrite (eqb_false k x) by assumption. reflexivity. }
      assert (Hwd : forall w, wdim g1 w = wdim g w) by (intros w; unfold wdim; rewrite D1; reflexivity).
      destruct (IH g1 nn1 tn1 P0 (WD ++ [fn x]) O (Done ++ [x])) as (g' & nn' & tn' & F1 & F2 & F3 & F4 & F5 & F6 & F7 & F8 & F9 & F10 & F11); auto.
      { rewrite Ln1, <- !app_assoc. reflexivity. }
      { rewrite HP0. unfold nparents. rewrite Pn1. reflexivity. }
      { rewrite Cn1, <- app_assoc. reflexivity. }
      { rewrite !app_length. cbn. nlia. }
      { rewrite Cn1. rewrite Cn in Hcnd. inversion Hcnd as [|? ? Hni Hnd']; subst.
        apply NoDup_app_iff. split; [exact Hnd'|]. split; [constructor; [intros []|constructor]|].
        intros y Hy [<-|[]]. apply in_app_or in Hy. destruct Hy as [Hy|Hy].
        - apply in_map_iff in Hy. destruct Hy as (z & Ez & Hz). apply (Hdisj x z); [left; reflexivity|right; exact Hz|exact Ez].
        - apply (HXD x); [left; reflexivity|exact Hy]. }
      { intros y Hy. rewrite Pn1. apply Hpar. right. exact Hy. }
      { intros Hc. apply HnB. right. exact Hc. }
      { intros a b Ha Hb'. apply Hdisj; right; assumption. }
      { intros y Hy Hin. apply in_app_or in Hin. destruct Hin as [Hin|[<-|[]]]; [apply (HXD y (or_intror Hy) Hin)|contradiction]. }
      { rewrite Sh1. apply map_ext. intros w. symmetry. apply Hwd. }
      { intros y Hy. destruct (Hb y (or_intror Hy)) as (bn' & tb' & E' & T' & P' & C' & L').
        assert (K1 : bc y <> n) by (intros E; apply HnB; right; apply in_map_iff; exists y; split; [exact E|exact Hy]).
        assert (K2 : bc y <> bc x) by (unfold bcid; intros E; assert (y = x) by nlia; subst y; contradiction).
        assert (K3 : bc y <> x) by (apply Hdisj; [left; reflexivity|right; exact Hy]).
        exists bn', tb'. rewrite Hget1 by assumption. rewrite T1 by assumption. auto. }
      assert (KxB : ~ In (bc x) (map bc X)).
      { intros Hc. apply in_map_iff in Hc. destruct Hc as (z & Ez & Hz). unfold bcid in Ez. assert (z = x) by nlia. subst z. contradiction. }
      exists g', nn', tn'. split; [unfold cfold in *; cbn [map fold_left]; rewrite E1; exact F1|].
      split; [exact F2|]. split; [exact F3|]. split; [rewrite F4; cbn [map]; rewrite <- !app_assoc; reflexivity|].
      split; [rewrite F5, <- app_assoc; reflexivity|]. split; [congruence|]. split; [exact F7|]. split; [exact F8|]. split; [exact F9|].
      split.
      { intros y [<-|Hy]; [|apply F10; exact Hy]. rewrite F11; [exact Gone|congruence|exact KxB]. }
      intros k K1 K2. rewrite F11; [|exact K1|intros Hc; apply K2; right; exact Hc].
      apply T1; [exact K1|intros E; apply K2; left; symmetry; exact E].
  Qed.
End CFold2.

(* ==== part 7: update_non_leaf_node after the children loop ==== *)
Section NonLeaf2.
  Variables (fixed : bool) (bcoff : nat).
  Notation bc := (bcid bcoff).

  Lemma update_non_leaf_rest_some2 n p g cv pv V0 a pn (fn : id -> wire) :
    wf (focus g V0) -> wf (focus g pv) -> wf (focus g cv) ->
    same_tree (vnodes V0) (vnodes pv) -> same_tree (vnodes pv) (vnodes cv) ->
    dims_kept (focus g V0) (focus g pv) -> dims_kept (focus g pv) (focus g cv) ->
    opens_kept (focus g V0) (focus g pv) -> opens_kept (focus g pv) (focus g cv) -> tsub g -> aok g ->
    aget n (vnodes V0) = Some a -> parent a = Some p ->
    aget n (nodes g) = Some (with_children a (map bc (children a))) ->
    NoDup (akeys (nodes g)) -> NoDup (akeys (tensors g)) ->
    (forall x, In x (children a) -> exists bn tb, aget (bc x) (nodes g) = Some bn /\ aget (bc x) (tensors g) = Some tb /\
                         parent bn = Some n /\ children bn = [x] /\ laxes bn tb = [ew (focus g cv) x; fn x] /\ fn x < next_wire g) ->
    (forall x, In x (children a) -> exists xn, aget x (nodes g) = Some xn) ->
    (forall x, In x (children a) -> fn x = ew g x) ->
    aget p (nodes g) = Some pn -> In n (children pn) -> parent pn <> Some n -> aget (bc n) (nodes g) = None ->
    n <> p -> bc n <> p -> bc n <> n ->
    ~ In n (children a) -> ~ In n (map bc (children a)) -> (forall x x', In x (children a) -> In x' (children a) -> bc x' <> x) ->
    ~ In p (children a) -> ~ In p (map bc (children a)) -> ~ In (bc n) (children a) ->
    exists g' bn tb w',
      update_non_leaf_rest fixed bcoff n g cv pv = Some g' /\
      aget (bc n) (nodes g') = Some bn /\ aget (bc n) (tensors g') = Some tb /\
      laxes bn tb = [ew (focus g pv) n; w'] /\ w' < next_wire g' /\ dims_ok g' /\ NoDup (akeys (tensors g')) /\
      fin g' V0 n /\ ew g' n = w' /\ next_wire g <= w' /\ tsub g' /\
      (forall k, k <> n -> k <> bc n -> k <> p -> ~ In k (map bc (children a)) -> keeps g g' k) /\ grows g g' /\
      afin g' n /\ next_atom g <= atom_of g' n /\ aapp g g'.
  Proof.
    intros W0 Wp Wc S0p Spc D0p Dpc O0p Opc Ts AO E0 P0 Eng Hnd Htnd Hb Hxs Hfn Ep Hin Hpn Eb Hnp Hbp Hbn A1 A2 A3 A5 A6 A7.
    set (X := children a) in *.
    pose proof (ni_chnd _ _ _ (wf_node _ W0 n a E0)) as NdX. fold X in NdX.
    (* the records of n in the three states *)
    destruct (same_tree_some _ _ _ _ S0p E0) as (on & Eon & Pon & Con).
    destruct (same_tree_some _ _ _ _ Spc Eon) as (cn & Ecn & Pcn & Ccn).
    assert (Pp_on : parent on = Some p) by congruence.
    assert (Pp_cn : parent cn = Some p) by congruence.
    assert (PermX : Permutation X (children cn)) by (unfold X; rewrite Con; exact Ccn).
    pose proof (same_tree_trans _ _ _ S0p Spc) as S0c.
    pose proof (dims_kept_trans (focus g V0) (focus g pv) (focus g cv) S0p D0p Dpc) as D0c.
    pose proof (opens_kept_trans (focus g V0) (focus g pv) (focus g cv) S0p O0p Opc) as O0c.
    pose proof (wf_tens (focus g cv) n cn Wc Ecn) as Tcn.
    pose proof (wf_tens (focus g pv) n on Wp Eon) as Ton.
    set (Lc := lax (focus g cv) n cn). set (L0 := lax (focus g V0) n a). set (Lp := lax (focus g pv) n on).
    assert (Np0 : nparents a = 1) by (unfold nparents; rewrite P0; reflexivity).
    assert (Npc : nparents cn = 1) by (unfold nparents; rewrite Pp_cn; reflexivity).
    assert (Npp : nparents on = 1) by (unfold nparents; rewrite Pp_on; reflexivity).
    pose proof (ni_virt _ _ _ (wf_node _ W0 n a E0)) as Va.
    pose proof (ni_virt _ _ _ (wf_node _ Wc n cn Ecn)) as Vc.
    pose proof (ni_virt _ _ _ (wf_node _ Wp n on Eon)) as Vp.
    assert (HlX : length X = length (children cn)) by (apply Permutation_length; exact PermX).
    assert (Nvc : nvirt cn = nvirt a) by (unfold nvirt; rewrite Npc, Np0, <- HlX; reflexivity).
    assert (Noc : nopen cn = nopen a) by (apply (dims_kept_nopen _ _ n a cn D0c E0 Ecn)).
    assert (Nlc : nlegs cn = nlegs a).
    { rewrite (wf_nlegs _ n cn Wc Ecn), (wf_nlegs _ n a W0 E0), Nvc, Noc. reflexivity. }
    assert (HLc : length Lc = nlegs cn) by apply laxes_length.
    assert (HL0 : length L0 = nlegs a) by apply laxes_length.
    assert (HLp : length Lp = nlegs on) by apply laxes_length.
    assert (Hc1 : 1 <= nlegs cn) by (unfold nvirt in Vc; lia).
    assert (Ha1 : 1 <= nlegs a) by (unfold nvirt in Va; lia).
    assert (Hp1 : 1 <= nlegs on) by (unfold nvirt in Vp; lia).
    destruct Lc as [|wc Lc'] eqn:ELc; [cbn in HLc; lia|].
    destruct L0 as [|w0 L0'] eqn:EL0; [cbn in HL0; lia|].
    destruct Lp as [|wp Lp'] eqn:ELp; [cbn in HLp; lia|].
    unfold Lc in ELc. unfold L0 in EL0. unfold Lp in ELp.
    assert (Hew : ew (focus g pv) n = wp).
    { unfold ew. change (nodes (focus g pv)) with (vnodes pv). rewrite Eon, ELp. reflexivity. }
    (* dimensions of the parent legs *)
    destruct D0c as [D0c1 D0c2]. destruct Dpc as [Dpc1 Dpc2].
    pose proof (D0c2 n a cn E0 Ecn ltac:(congruence)) as Q0c. rewrite ELc, EL0 in Q0c. cbn [nth] in Q0c.
    pose proof (Dpc2 n on cn Eon Ecn ltac:(congruence)) as Qpc. rewrite ELc, ELp in Qpc. cbn [nth] in Qpc.
    rewrite !wdim_focus in Q0c, Qpc.
    assert (Bwc : forall w, In w (wc :: Lc') -> w < next_wire g).
    { intros w Hw. apply (lax_wires (focus g cv) n cn w Wc Ecn). rewrite ELc. exact Hw. }
    assert (Bwp : wp < next_wire g).
    { apply (lax_wires (focus g pv) n on wp Wp Eon). rewrite ELp. left. reflexivity. }
    set (Oc := skipn (nvirt cn) (wc :: Lc')).
    assert (HOcV : Oc = vopen V0 n a).
    { rewrite <- (vopen_focus g V0 n a), <- (O0c n a cn E0 Ecn). unfold open_of. fold (lax (focus g cv) n cn). rewrite ELc. reflexivity. }
    assert (EU : exists g' bn tb w' fa fta,
      update_non_leaf_rest fixed bcoff n g cv pv = Some g' /\
      aget (bc n) (nodes g') = Some bn /\ aget (bc n) (tensors g') = Some tb /\
      laxes bn tb = [ew (focus g pv) n; w'] /\ w' < next_wire g' /\ dims_ok g' /\ NoDup (akeys (tensors g')) /\
      aget n (nodes g') = Some fa /\ aget n (tensors g') = Some fta /\ parent fa <> None /\ children fa = X /\
      laxes fa fta = w' :: map fn X ++ Oc /\ Permutation (perm fa) (seq 0 (length (shape fa))) /\ shape fa = map (wdim g') (axes fta) /\
      (forall w, In w (axes fta) -> w < next_wire g') /\ next_wire g <= w' /\
      (forall x, In x X -> aget (bc x) (tensors g') = None) /\
      exists atm ws, atoms fta = [atm] /\ bnd fta = [] /\ (Q -> aget atm (atab g') = Some ws) /\ incl ws (axes fta) /\ next_atom g <= atm < next_atom g').
    { (* 1. pull_tensor_from_different_ttn *)
    assert (PT4 : parent (with_children a (map bc X)) = parent cn) by (cbn; congruence).
    assert (PT7 : nlegs (with_children a (map bc X)) = nlegs cn) by exact (eq_sym Nlc).
    assert (PT9 : forall x, In x X -> exists j, index_of x (children cn) = Some j /\
                    nth (j + nparents cn) (laxes cn (tens (focus g cv) n)) 0 = ew (focus g cv) x).
    { intros x Hx. apply (child_index_wire (focus g cv) n cn x Wc Ecn). apply (Permutation_in _ PermX Hx). }
    assert (PT10 : node_shape (with_children a (map bc X)) =
                   map (wdim g) (firstn (nparents cn) (laxes cn (tens (focus g cv) n)) ++ map (ew (focus g cv)) X ++
                                 skipn (nvirt cn) (laxes cn (tens (focus g cv) n)))).
    { change (node_shape (with_children a (map bc X))) with (node_shape a).
      rewrite (node_shape_lax' (focus g V0) n a W0 E0), (wf_lax_decomp (focus g V0) n a W0 E0).
      fold (lax (focus g cv) n cn). rewrite ELc, EL0, Np0, Npc. cbn [firstn app].
      cbn [map]. rewrite !map_app. rewrite !wdim_focus. f_equal; [symmetry; exact Q0c|]. f_equal.
      - rewrite !map_map. apply map_ext_in. intros x Hx. symmetry. apply (dk_child_dims (focus g V0) (focus g cv) n a x W0 S0c); auto.
        split; assumption.
      - rewrite <- (D0c1 n a cn E0 Ecn). unfold open_of. fold (lax (focus g cv) n cn). rewrite ELc. reflexivity. }
    destruct (pull_tensor_some bcoff g cv n cn (tens (focus g cv) n) (with_children a (map bc X)) X (ew (focus g cv))
                Ecn Tcn Eng PT4 eq_refl HlX PT7 Vc PT9 PT10)
      as (gA & nd' & ot & EA & NA & TA & PA & CA & SA & LA & RA & DA & WA & FA & AA & PbA).
    fold (lax (focus g cv) n cn) in LA. rewrite ELc, Npc in LA. cbn [firstn app] in LA. fold Oc in LA.
    assert (HOc : forall w, In w Oc -> w < next_wire g).
    { intros w Hw. apply Bwc. unfold Oc in Hw. rewrite <- (firstn_skipn (nvirt cn) (wc :: Lc')). apply in_or_app. right. exact Hw. }
    assert (HwdA : forall w, wdim gA w = wdim g w) by (apply wdim_dims_eq; exact DA).
    assert (NdA : NoDup (akeys (nodes gA))) by (rewrite NA; apply NoDup_akeys_aset; exact Hnd).
    assert (TdA : NoDup (akeys (tensors gA))) by (rewrite TA; apply NoDup_akeys_aset; exact Htnd).
    assert (EnA : aget n (nodes gA) = Some nd') by (rewrite NA; apply aget_aset_same).
    assert (TnA : aget n (tensors gA) = Some ot) by (rewrite TA; apply aget_aset_same).
    assert (OthA : forall k, k <> n -> aget k (nodes gA) = aget k (nodes g) /\ aget k (tensors gA) = aget k (tensors g)).
    { intros k Hk. rewrite NA, TA, !aget_aset_other by exact Hk. auto. }
    (* 2. contract_all_children *)
    assert (HbA : forall x, In x X -> exists bn tb, aget (bc x) (nodes gA) = Some bn /\ aget (bc x) (tensors gA) = Some tb /\
                                       parent bn = Some n /\ children bn = [x] /\ laxes bn tb = [ew (focus g cv) x; fn x]).
    { intros x Hx. destruct (Hb x Hx) as (bn & tb & B1 & B2 & B3 & B4 & B5 & _). exists bn, tb.
      assert (K : bc x <> n) by (intros E; apply A2; rewrite <- E; apply in_map; exact Hx).
      destruct (OthA _ K) as [O1 O2]. rewrite O1, O2. auto. }
    assert (CB1 : laxes nd' ot = [wc] ++ map (ew (focus g cv)) X ++ [] ++ Oc) by (cbn [app]; exact LA).
    assert (CB2 : length [wc] = nparents nd') by (unfold nparents; rewrite PA; cbn; rewrite P0; reflexivity).
    assert (CB3 : children nd' = map bc X ++ []) by (rewrite app_nil_r; exact CA).
    assert (CB5 : NoDup (children nd')) by (rewrite CA; apply NoDup_map_bc; exact NdX).
    assert (CB6 : forall x, In x X -> parent nd' <> Some (bc x)).
    { intros x Hx. rewrite PA. cbn. rewrite P0. intros [= E]. apply A6. rewrite E. apply in_map. exact Hx. }
    assert (CB8 : shape nd' = map (wdim gA) (axes ot)) by (rewrite SA; apply map_ext; intros w; symmetry; apply HwdA).
    destruct (contract_all_bc2 bcoff n (ew (focus g cv)) fn X gA nd' ot [wc] [] Oc [] NdA TdA EnA TnA CB1 CB2 CB3 eq_refl CB5 CB6 A2 NdX A3
                (fun x _ H => H) CB8 PbA HbA) as (gB & nn' & tn' & EB & EnB & TnB & LB & CB & PB & TdB & SB & PbB & GoneB & FrB).
    cbn [app] in LB, CB.
    assert (Pnn : parent nn' = Some p) by (rewrite PB, PA; cbn; exact P0).
    destruct (contract_fold bcoff n X gA gB nd' [] EB NdA NdX A1 A2 A3 EnA ltac:(rewrite app_nil_r; exact CA))
      as (nn2 & F1 & F2 & F3 & F4 & F5 & F6 & F7 & F8 & F9 & F10 & F11).
    { intros x Hx. destruct (HbA x Hx) as (bn & tb & B1 & _ & B3 & B4 & _). exists bn. auto. }
    rewrite EnB in F1. injection F1 as <-.
    unfold update_non_leaf_rest. rewrite EA. unfold contract_all_children. rewrite EnA, CA.
    change (children (with_children a (map bc X))) with (map bc X).
    change (fold_left _ (map bc X) (Some gA)) with (cfold n (map bc X) gA). rewrite EB.
    (* 3. time evolution *)
    destruct (evolve_some gB n nn' tn' EnB TnB) as (gC & u & Eev). rewrite Eev.
    destruct (evolve_effect _ _ _ _ Eev) as (nd2 & t2 & V1 & V2 & V3 & V4 & V5 & V6 & V7 & V8 & V9).
    rewrite EnB in V1. injection V1 as <-. rewrite TnB in V2. injection V2 as <-.
    rewrite V3, aget_aset_same, V4, aget_aset_same.
    unfold vlogical. cbn [focus nodes tensors] in Eon, Ton. rewrite Eon, Ton.
    set (nd := reset_permutation nn'). set (oldt := s_transpose (perm nn') tn').
    set (oldb := s_transpose (perm on) (tens (focus g pv) n)).
    assert (Hu : axes u = wc :: map fn X ++ Oc) by (rewrite V5; exact LB).
    assert (Hot : axes oldt = wc :: map fn X ++ Oc) by exact LB.
    assert (Hob : nth 0 (axes oldb) 0 = wp).
    { change (axes oldb) with (lax (focus g pv) n on). rewrite ELp. reflexivity. }
    assert (NwC : next_wire gC = next_wire g) by (rewrite V9, F10; exact WA).
    assert (DmC : dims gC = dims g) by (rewrite V8, F9; exact DA).
    assert (DkC : dims_ok gC).
    { apply (dims_ok_same g gC (wf_dims_ok g V0 W0) DmC). rewrite NwC. apply le_n. }
    assert (Lnd : nlegs nd = length (axes u)).
    { unfold nd. rewrite nlegs_reset, V5. cbn [axes]. symmetry. apply (laxes_length nn' tn'). }
    assert (Vnd : nvirt nd <= nlegs nd).
    { rewrite Lnd, Hu. unfold nvirt, nparents. cbn [nd reset_permutation parent children]. rewrite Pnn, CB.
      cbn [length]. rewrite app_length, map_length. lia. }
    (* 4. the new basis *)
    assert (NB1 : parent nd <> None) by (cbn; rewrite Pnn; discriminate).
    assert (NB4 : axes oldt = axes u) by congruence.
    assert (NB6 : forall w, In w (axes u) -> w < next_wire gC).
    { intros w Hw. rewrite Hu in Hw. rewrite NwC. destruct Hw as [<-|Hw]; [apply Bwc; left; reflexivity|].
      apply in_app_or in Hw. destruct Hw as [Hw|Hw]; [|apply HOc; exact Hw].
      apply in_map_iff in Hw. destruct Hw as (x & <- & Hx). destruct (Hb x Hx) as (bn & tb & _ & _ & _ & _ & _ & B6). exact B6. }
    assert (AgC : aapp g gC).
    { eapply aapp_trans; [apply (pull_tensor_aapp _ _ _ _ _ EA)|]. eapply aapp_trans; [apply (cfold_aapp _ _ _ _ EB)|apply (evolve_aapp _ _ _ _ Eev)]. }
    pose proof (aok_app _ _ AgC AO) as AOC. pose proof (aapp_na _ _ AgC) as NaC.
    destruct (new_basis_some2 fixed gC nd oldt u NB1 (eq_sym Lnd) Vnd NB4 DkC NB6 AOC)
      as (gD & newb & nw & Enb & Hnb & DkD & BnD & ND & TD & GrD & LoD & atm & ws & Z1 & Z2 & Z3 & Z4 & Z5).
    rewrite Enb. cbn [option_map]. rewrite Pp_on.
    rewrite Hob, Hnb. cbn [nth].
    destruct (bc_atom gD wp nw) as [gE m] eqn:Ebc.
    (* 5. split_node_replace *)
    assert (EnD : aget n (nodes gD) = Some nd) by (rewrite ND, V3; apply aget_aset_same).
    assert (TnD : aget n (tensors gD) = Some oldt) by (rewrite TD, V4; apply aget_aset_same).
    assert (OthD : forall k, k <> n -> aget k (nodes gD) = aget k (nodes gB)) by (intros k Hk; rewrite ND, V3, aget_aset_other by exact Hk; reflexivity).
    assert (GrgD : forall w, w < next_wire g -> wdim gD w = wdim g w).
    { intros w Hw. rewrite (gr_wdim _ _ GrD) by (rewrite NwC; exact Hw). apply wdim_dims_eq. exact DmC. }
    assert (BS3 : parent nd = Some p) by (cbn; exact Pnn).
    assert (BS4 : NoDup (children nd)) by (cbn; rewrite CB; exact NdX).
    assert (BS5 : ~ In p (children nd)) by (cbn; rewrite CB; exact A5).
    assert (BS8 : wdim gD wp :: map (wdim gD) (tl (axes u)) = map (wdim gD) (laxes nd oldt)).
    { unfold nd, oldt. rewrite access_laxes, LB, Hu. cbn [tl map]. f_equal.
      rewrite !GrgD; [symmetry; exact Qpc|apply Bwc; left; reflexivity|exact Bwp]. }
    assert (BS12 : aget p (nodes gD) = Some pn).
    { rewrite OthD by congruence. rewrite F5 by auto. destruct (OthA p ltac:(congruence)) as [O1 _]. rewrite O1. exact Ep. }
    assert (BS15 : forall x, In x (children nd) -> x <> bc n /\ x <> n /\ exists xn, aget x (nodes gD) = Some xn /\ parent xn = Some n).
    { intros x Hx. cbn [nd reset_permutation children] in Hx. rewrite CB in Hx.
      assert (Kxn : x <> n) by (intros ->; contradiction).
      split; [intros ->; contradiction|]. split; [exact Kxn|].
      destruct (Hxs x Hx) as (xn & Exn). exists (with_parent xn (Some n)).
      rewrite OthD by exact Kxn. destruct (F4 x Hx) as [_ F4b]. rewrite F4b.
      destruct (OthA x Kxn) as [O1 _]. rewrite O1, Exn. cbn. auto. }
    assert (BS16 : NoDup (akeys (tensors gD))) by (rewrite TD, V4; apply NoDup_akeys_aset; exact TdB).
    assert (BS17 : NoDup (akeys (nodes gD))) by (rewrite ND, V3; apply NoDup_akeys_aset; exact F6).
    assert (BS18 : aget (bc n) (nodes gD) = None).
    { rewrite OthD by exact Hbn. rewrite F5; [|exact Hbn|exact A7|].
      - destruct (OthA (bc n) Hbn) as [O1 _]. rewrite O1. exact Eb.
      - intros Hc. apply in_map_iff in Hc. destruct Hc as (z & Ez & Hz). unfold bcid in Ez. assert (z = n) by lia. subst z. contradiction. }
    destruct (bc_split_some2 bcoff gD n p wp newb nw (tl (axes u)) nd oldt pn EnD TnD BS3 BS4 BS5 Vnd Hnb BS8 Hbn Hbp Hnp BS12 Hin Hpn
                BS15 BS16 BS17 BS18 gE m Ebc) as (g6 & g7 & on2 & fa & fta & E6 & E7 & B1 & B2 & B3 & B4 & B5 & B6 & B7 & C1 & C2 & C3 & C4 & C5 & C6 & C7 & C8 & C9 & C10 & C11 & C12 & C13).
    change (parent nd) with (parent nn'). rewrite Pnn. rewrite E6, E7.
    exists g7, on2, m, nw, fa, fta. split; [reflexivity|]. split; [exact B1|]. split; [exact B3|].
    split.
    { unfold laxes. rewrite B2, B4, Hew. reflexivity. }
    split; [rewrite B7; exact BnD|]. split; [apply (dims_ok_same gD g7 DkD B6); rewrite B7; apply le_n|]. split; [exact B5|].
    split; [exact C1|]. split; [exact C2|]. split; [rewrite C3; discriminate|]. split; [rewrite C4; cbn [nd reset_permutation children]; exact CB|].
    split; [rewrite C5, Hnb, Hu; reflexivity|]. split; [exact C7|].
    split; [rewrite C8, C6; apply map_ext; intros w; symmetry; apply wdim_dims_eq; exact B6|].
    pose proof (gr_nw _ _ GrD) as NwD.
    split.
    { intros w Hw. rewrite C6, Hnb, Hu in Hw. cbn [tl] in Hw. rewrite B7. destruct Hw as [<-|Hw]; [exact BnD|].
      apply in_app_or in Hw. destruct Hw as [Hw|Hw]; [|pose proof (HOc w Hw); lia].
      apply in_map_iff in Hw. destruct Hw as (x & <- & Hx). destruct (Hb x Hx) as (bn & tb & _ & _ & _ & _ & _ & B6'). lia. }
    split; [lia|].
    split.
    { intros x Hx.
      assert (K1 : bc x <> n) by (intros E; apply A2; rewrite <- E; apply in_map; exact Hx).
      assert (K2 : bc x <> bc n) by (intros E; apply bc_inj in E; subst x; contradiction).
      rewrite C9 by assumption. rewrite TD, V4, aget_aset_other by exact K1. apply GoneB. exact Hx. }
    pose proof (bc_atom_aapp _ _ _ _ _ Ebc) as ADE. pose proof (aapp_na _ _ ADE) as NaDE.
    exists atm, ws. split; [rewrite C10; exact Z1|]. split; [rewrite C11; exact Z2|].
    split; [intros HQ; rewrite C12, (aapp_old gD gE atm ADE) by lia; exact (Z3 HQ)|].
    split; [rewrite C6; exact Z4|]. rewrite C13. lia. }
    destruct EU as (g' & bn & tb & w' & fa & fta & E' & X1 & X2 & X3 & X4 & X5 & X6 & Y1 & Y2 & Y3 & Y4 & Y5 & Y6 & Y7 & Y8 & Y9 & Y10 & atm & ws & Z1 & Z2 & Z3 & Z4 & Z5).
    (* the structural effect: frames *)
    destruct (update_non_leaf_rest_effect fixed bcoff n p X g cv pv g' (with_children a (map bc X)) pn E' Hnd NdX A1 A2 A3 Eng P0 eq_refl)
      as (nn & bn' & M1 & _ & _ & _ & _ & _ & _ & _ & M9 & M10 & _); auto.
    { intros x Hx. destruct (Hb x Hx) as (bn0 & tb0 & B1 & _ & B3 & B4 & _). exists bn0. auto. }
    assert (Kg : forall k, k <> n -> k <> bc n -> k <> p -> ~ In k (map bc X) -> keeps g g' k).
    { intros k K1 K2 K3 K4.
      split; [apply M10; assumption|]. intros xa Exa.
      rewrite M1, (eqb_false k p), (eqb_false k n), (eqb_false k (bc n)) by assumption.
      apply memb_false in K4. rewrite K4. rewrite Exa. destruct (memb k X).
      - exists (with_parent xa (Some n)). cbn. repeat split; auto. discriminate.
      - exists xa. auto. }
    assert (Kp : forall x, In x X -> keeps g g' x).
    { intros x Hx. apply Kg.
      - intros ->; contradiction.
      - intros ->; contradiction.
      - intros ->; contradiction.
      - intros Hc. apply in_map_iff in Hc. destruct Hc as (z & Ez & Hz). apply (A3 x z Hx Hz Ez). }
    exists g', bn, tb, w'. split; [exact E'|]. split; [exact X1|]. split; [exact X2|]. split; [exact X3|]. split; [exact X4|].
    split; [exact X5|]. split; [exact X6|].
    assert (Hew' : ew g' n = w') by (rewrite (ew_some g' n fa fta Y1 Y2), Y5; reflexivity).
    split.
    { exists fa, fta, a. split; [exact Y1|]. split; [exact Y2|]. split; [exact E0|]. split; [exact Y3|].
      split.
      { rewrite Y5, Y4, Hew', HOcV. f_equal. f_equal. apply map_ext_in. intros x Hx. rewrite (Hfn x Hx).
        destruct (Hxs x Hx) as (xn & Exn). symmetry. apply (keeps_ew g g' x xn (Kp x Hx) Exn). }
      auto. }
    split; [exact Hew'|]. split; [exact Y9|].
    destruct (afin_intro g' n fta atm ws Y2 Z1 Z2 Z3 Z4 ltac:(lia)) as [AF AE].
    cut (tsub g'); [intros Ts'; split; [exact Ts'|]; split; [exact Kg|]; split; [exact M9|]; split; [exact AF|]; split; [rewrite AE; lia|apply (update_non_leaf_rest_aapp _ _ _ _ _ _ _ E')]|].
    intros k Hk. rewrite M1 in Hk.
    destruct (Nat.eqb_spec k p); [discriminate|]. destruct (Nat.eqb_spec k n); [discriminate|].
    destruct (Nat.eqb_spec k (bc n)); [discriminate|].
    destruct (memb k (map bc X)) eqn:MB.
    - apply memb_In in MB. apply in_map_iff in MB. destruct MB as (x & <- & Hx). exact (Y10 x Hx).
    - apply memb_false in MB. destruct (memb k X) eqn:MX.
      + apply memb_In in MX. destruct (Hxs k MX) as (xn & Exn). rewrite Exn in Hk. discriminate.
      + rewrite M10 by assumption. apply Ts. exact Hk.
  Qed.
End NonLeaf2.

(* ==== part 8: the induction over the tree ==== *)
Lemma opens_kept_focus g g' A B : opens_kept (focus g A) (focus g B) -> opens_kept (focus g' A) (focus g' B).
Proof. intros H. exact H. Qed.

Lemma post_children bcoff T0 L t k a x :
  post bcoff T0 L t -> tree_of T0 t -> In k (ids t) -> aget k L = Some a -> In x (children a) -> In x (ids t).
Proof.
  intros Hp Ht Hk Ea Hx. destruct (Hp k Hk) as (a' & b & Ea' & Eb & Pc & _). rewrite Ea in Ea'. injection Ea' as <-.
  apply (tree_of_children T0 t Ht k b x Hk Eb). apply (Permutation_in _ Pc Hx).
Qed.

Lemma fin_subtree_frame g g' V0 (S : list id) :
  (forall k, In k S -> fin g V0 k) -> (forall k, In k S -> keeps g g' k) -> grows g g' ->
  (forall k a x, In k S -> aget k (nodes g) = Some a -> In x (children a) -> In x S) ->
  forall k, In k S -> fin g' V0 k /\ ew g' k = ew g k.
Proof.
  intros HF HK G HC k Hk. split.
  - apply (fin_keeps g g' V0 k (HF k Hk) (HK k Hk) G). intros a x Ea Hx.
    pose proof (HC k a x Hk Ea Hx) as HxS. destruct (HF x HxS) as (xa & _ & _ & Exa & _).
    apply (keeps_ew g g' x xa (HK x HxS) Exa).
  - destruct (HF k Hk) as (ka & _ & _ & Eka & _). apply (keeps_ew g g' k ka (HK k Hk) Eka).
Qed.

Lemma afin_subtree_frame g g' (S : list id) :
  (forall k, In k S -> afin g k) -> (forall k, In k S -> keeps g g' k) -> aapp g g' ->
  forall k, In k S -> afin g' k /\ atom_of g' k = atom_of g k.
Proof. intros HF HK G k Hk. apply (afin_frame g g' k (HF k Hk) (proj1 (HK k Hk)) G). Qed.

Section Main3.
  Variables (fixed : bool) (bcoff : nat) (tmp : id).
  Notation bc := (bcid bcoff).
  Notation rid := RTree.rid.
  Notation ctx := (ctx bcoff tmp).

  Record ctx2 (g : store) (V0 pv : view) : Prop := {
    c2_ctx : ctx g V0 pv;
    c2_open : opens_kept (focus g V0) (focus g pv);
    c2_tsub : tsub g;
    c2_atab : aok g
  }.

  Record spost (V0 pv : view) (t : rtree) (g g' : store) : Prop := {
    sp_bc : exists bn tb, aget (bc (rid t)) (nodes g') = Some bn /\ aget (bc (rid t)) (tensors g') = Some tb /\
              laxes bn tb = [ew (focus g pv) (rid t); ew g' (rid t)];
    sp_tnd : NoDup (akeys (tensors g'));
    sp_dims : dims_ok g';
    sp_fin : forall k, In k (ids t) -> fin g' V0 k;
    sp_rng : forall k, In k (ids t) -> next_wire g <= ew g' k;
    sp_inj : forall k k', In k (ids t) -> In k' (ids t) -> ew g' k = ew g' k' -> k = k';
    sp_tsub : tsub g';
    sp_afin : forall k, In k (ids t) -> afin g' k;
    sp_arng : forall k, In k (ids t) -> next_atom g <= atom_of g' k;
    sp_ainj : forall k k', In k (ids t) -> In k' (ids t) -> atom_of g' k = atom_of g' k' -> k = k';
    sp_aapp : aapp g g'
  }.

  Definition A2 (t : rtree) : Prop := forall g pv V0 p pn,
    ctx2 g V0 pv -> tree_of (vnodes V0) t -> NoDup (ids t) ->
    (exists n0, aget (rid t) (vnodes V0) = Some n0 /\ parent n0 = Some p) ->
    ~ In p (ids t) -> In p (akeys (vnodes V0)) ->
    (forall k, In k (ids t) -> unproc g V0 k) ->
    (forall k, In k (ids t) -> aget (bc k) (nodes g) = None) ->
    aget p (nodes g) = Some pn -> In (rid t) (children pn) -> parent pn <> Some (rid t) ->
    exists g', update_node fixed bcoff tmp t g pv (Some p) = Some g' /\ spost V0 pv t g g'.

  Lemma loop_some2 : forall l, Forall A2 l -> forall g cv V0 n a dn,
    ctx2 g V0 cv -> Forall (tree_of (vnodes V0)) l -> NoDup (flat_map ids l) ->
    (forall c, In c l -> exists c0, aget (rid c) (vnodes V0) = Some c0 /\ parent c0 = Some n) ->
    ~ In n (flat_map ids l) -> In n (akeys (vnodes V0)) ->
    (forall k, In k (flat_map ids l) -> unproc g V0 k) ->
    (forall k, In k (flat_map ids l) -> aget (bc k) (nodes g) = None) ->
    NoDup (children a) -> (forall z, In z (children a) -> In z (akeys (vnodes V0))) ->
    (forall c, In c l -> ~ In (rid c) dn) -> (forall c, In c l -> In (rid c) (children a)) ->
    aget n (nodes g) = Some (with_children a (map (sub bcoff dn) (children a))) ->
    (forall c, In c l -> parent a <> Some (rid c)) ->
    exists g2, update_children fixed bcoff tmp l g cv (Some n) = Some g2 /\
      NoDup (akeys (tensors g2)) /\ dims_ok g2 /\
      (forall c, In c l -> exists bn tb, aget (bc (rid c)) (nodes g2) = Some bn /\ aget (bc (rid c)) (tensors g2) = Some tb /\
                            laxes bn tb = [ew (focus g cv) (rid c); ew g2 (rid c)]) /\
      (forall k, In k (flat_map ids l) -> fin g2 V0 k) /\
      (forall k, In k (flat_map ids l) -> next_wire g <= ew g2 k) /\
      (forall k k', In k (flat_map ids l) -> In k' (flat_map ids l) -> ew g2 k = ew g2 k' -> k = k') /\
      tsub g2 /\
      (forall k, In k (flat_map ids l) -> afin g2 k) /\
      (forall k, In k (flat_map ids l) -> next_atom g <= atom_of g2 k) /\
      (forall k k', In k (flat_map ids l) -> In k' (flat_map ids l) -> atom_of g2 k = atom_of g2 k' -> k = k') /\
      aapp g g2.
  Proof.
    induction l as [|c r IH]; intros HA g cv V0 n a dn C2 Htr Hnd Hpar Hn HnK Hun Hbcf Hch HchK Hdn Hca En Hpp.
    - pose proof (c2_ctx _ _ _ C2) as C.
      exists g. split; [reflexivity|]. split; [apply (cx_tnd _ _ _ _ _ C)|]. split; [apply (wf_dims_ok g V0 (cx_w0 _ _ _ _ _ C))|].
      split; [intros c []|]. split; [intros k []|]. split; [intros k []|]. split; [intros k k' []|]. split; [apply (c2_tsub _ _ _ C2)|].
      split; [intros k []|]. split; [intros k []|]. split; [intros k k' []|apply aapp_refl].
    - pose proof (c2_ctx _ _ _ C2) as C.
      inversion HA as [|? ? Ac Ar]; subst. inversion Htr as [|? ? Tc Tr]; subst.
      cbn [flat_map] in Hnd, Hn, Hun, Hbcf. apply NoDup_app_iff in Hnd. destruct Hnd as (Ndc & Ndr & Ndis).
      destruct (ctx_tstruct _ _ _ _ _ C) as [T0 Tcv]. pose proof (cx_fr _ _ _ _ _ C) as F.
      set (pn := with_children a (map (sub bcoff dn) (children a))) in *.
      assert (Hpar_c := Hpar c (or_introl eq_refl)).
      assert (Hnc : ~ In n (ids c)) by (intros Hc; apply Hn; apply in_or_app; left; exact Hc).
      assert (Hun_c : forall k, In k (ids c) -> unproc g V0 k) by (intros k Hk; apply Hun; apply in_or_app; left; exact Hk).
      assert (Hbc_c : forall k, In k (ids c) -> aget (bc k) (nodes g) = None) by (intros k Hk; apply Hbcf; apply in_or_app; left; exact Hk).
      assert (Hin_c : In (rid c) (children pn)).
      { unfold pn. cbn [with_children children]. apply in_map_iff. exists (rid c). split; [apply sub_notin; apply Hdn; left; reflexivity|].
        apply Hca. left. reflexivity. }
      assert (Hpp_c : parent pn <> Some (rid c)) by (unfold pn; cbn; apply Hpp; left; reflexivity).
      destruct (Ac g cv V0 n pn C2 Tc Ndc Hpar_c Hnc HnK Hun_c Hbc_c En Hin_c Hpp_c) as (ga & Ega & [Xbc Xtnd Xdims Xfin Xrng Xinj Xts Xaf Xar Xai Xaa]).
      pose proof (A_effect fixed bcoff tmp c g cv V0 n pn ga C Tc Ndc Hpar_c Hnc HnK Hun_c Hbc_c En Hpp_c Ega) as [E1 E2 E3 E4 E5 E6 E7 E8 E9].
      cbn [update_children]. rewrite Ega.
      assert (Cga : ctx ga V0 cv) by (apply (ctx_grows bcoff tmp g ga V0 cv C E8 Xdims E1 Xtnd)).
      assert (C2ga : ctx2 ga V0 cv).
      { constructor; [exact Cga|apply (opens_kept_focus g ga); apply (c2_open _ _ _ C2)|exact Xts|apply (aok_app g ga Xaa (c2_atab _ _ _ C2))]. }
      assert (Krc : In (rid c) (akeys (vnodes V0))).
      { destruct Hpar_c as (c0 & Ec0 & _). eapply aget_Some_keys; eauto. }
      assert (KeyC : forall k, In k (ids c) -> In k (akeys (vnodes V0))).
      { intros k Hk. destruct (tree_of_keys _ _ Tc k Hk) as [b Eb]. eapply aget_Some_keys; eauto. }
      assert (KeyR : forall k, In k (flat_map ids r) -> In k (akeys (vnodes V0))).
      { intros k Hk. apply in_flat_map in Hk. destruct Hk as (c' & Hc' & Hk). rewrite Forall_forall in Tr.
        destruct (tree_of_keys _ _ (Tr c' Hc') k Hk) as [b Eb]. eapply aget_Some_keys; eauto. }
      assert (Ena : aget n (nodes ga) = Some (with_children a (map (sub bcoff (rid c :: dn)) (children a)))).
      { rewrite E4. unfold pn. cbn [with_children children parent perm shape]. unfold with_children. cbn. f_equal. f_equal.
        apply replace_first_sub; [exact Hch|apply Hdn; left; reflexivity|].
        intros z Hz. apply (fresh_ne bcoff (vnodes V0)); auto. }
      assert (Hun_r : forall k, In k (flat_map ids r) -> unproc ga V0 k).
      { intros k Hk. destruct (Hun k (in_or_app _ _ _ (or_intror Hk))) as [U1 U2]. split.
        - rewrite E5; [exact U1| | |].
          + intros Hc. apply (Ndis k Hc Hk).
          + intros ->. apply Hn. apply in_or_app. right. exact Hk.
          + intros ->. apply (fresh_ne bcoff (vnodes V0) (rid c) (bc (rid c)) F Krc); [apply KeyR; exact Hk|reflexivity].
        - rewrite E7; [exact U2| |].
          + intros Hc. apply (Ndis k Hc Hk).
          + intros Hc. apply in_map_iff in Hc. destruct Hc as (z & Ez & Hz).
            apply (fresh_ne bcoff (vnodes V0) z k F); [apply KeyC; exact Hz|apply KeyR; exact Hk|exact Ez]. }
      assert (Hbc_r : forall k, In k (flat_map ids r) -> aget (bc k) (nodes ga) = None).
      { intros k Hk. rewrite E5.
        - apply Hbcf. apply in_or_app. right. exact Hk.
        - intros Hc. apply (fresh_ne bcoff (vnodes V0) k (bc k) F (KeyR k Hk)); [apply KeyC; exact Hc|reflexivity].
        - intros E. apply (fresh_ne bcoff (vnodes V0) k n F (KeyR k Hk) HnK). exact E.
        - intros E. apply bc_inj in E. subst k. apply (Ndis (rid c) (rid_in_ids c) Hk). }
      assert (Hpar_r : forall c', In c' r -> exists c0, aget (rid c') (vnodes V0) = Some c0 /\ parent c0 = Some n)
        by (intros c' Hc'; apply Hpar; right; exact Hc').
      assert (Hn_r : ~ In n (flat_map ids r)) by (intros Hc; apply Hn; apply in_or_app; right; exact Hc).
      assert (Hdn_r : forall c', In c' r -> ~ In (rid c') (rid c :: dn)).
      { intros c' Hc' [E|Hin].
        - apply (Ndis (rid c)); [apply rid_in_ids|]. rewrite E. apply (in_flat_ids c' r); [exact Hc'|apply rid_in_ids].
        - apply (Hdn c' (or_intror Hc') Hin). }
      assert (Hca_r : forall c', In c' r -> In (rid c') (children a)) by (intros c' Hc'; apply Hca; right; exact Hc').
      assert (Hpp_r : forall c', In c' r -> parent a <> Some (rid c')) by (intros c' Hc'; apply Hpp; right; exact Hc').
      destruct (IH Ar ga cv V0 n a (rid c :: dn) C2ga Tr Ndr Hpar_r Hn_r HnK Hun_r Hbc_r Hch HchK Hdn_r Hca_r Ena Hpp_r)
        as (g2 & E2' & T2 & D2 & B2 & Fin2 & Rng2 & Inj2 & Ts2 & Af2 & Ar2 & Ai2 & Aa2).
      (* the rest of the loop does not touch the finished subtree of c *)
      assert (HPr : Forall (P fixed bcoff tmp) r) by (apply Forall_forall; intros c' _; apply update_node_effect).
      destruct (ctx_tstruct _ _ _ _ _ Cga) as [_ Tcv'].
      destruct (children_loop fixed bcoff tmp r HPr ga g2 cv (Some n) (vnodes V0) n a (rid c :: dn) E2' T0 F Tr Ndr Hpar_r Hn_r HnK E1)
        as (K1 & K2 & K3 & K4 & K5 & K6 & K7 & K8 & K9); auto.
      { intros k Hk. pose proof (KeyR k Hk) as Hkk. apply keys_aget in Hkk. destruct Hkk as [b Eb].
        apply (unproc_agree ga V0 k b (Hun_r k Hk) Eb). }
      { apply (cx_st _ _ _ _ _ C). }
      { apply (cx_tmp _ _ _ _ _ C). }
      assert (KeepC : forall k, In k (ids c) -> keeps ga g2 k).
      { intros k Hk. apply keeps_same.
        - apply K7.
          + intros Hc. apply (Ndis k Hk Hc).
          + intros Hc. apply in_map_iff in Hc. destruct Hc as (z & Ez & Hz).
            apply (fresh_ne bcoff (vnodes V0) z k F); [apply KeyR; exact Hz|apply KeyC; exact Hk|exact Ez].
        - apply K5.
          + intros Hc. apply (Ndis k Hk Hc).
          + intros ->. contradiction.
          + intros Hc. apply in_map_iff in Hc. destruct Hc as (z & Ez & Hz).
            apply (fresh_ne bcoff (vnodes V0) z k F); [apply KeyR; apply in_map_rid_flat; exact Hz|apply KeyC; exact Hk|exact Ez]. }
      pose proof (fin_subtree_frame ga g2 V0 (ids c) Xfin KeepC K8
                    (fun k ka x Hk Eka Hx => post_children bcoff (vnodes V0) (nodes ga) c k ka x E2 Tc Hk Eka Hx)) as FrC.
      assert (Gga : next_wire g <= next_wire ga) by (apply (gr_nw _ _ E8)).
      pose proof (afin_subtree_frame ga g2 (ids c) Xaf KeepC Aa2) as FrA.
      pose proof (aapp_na _ _ Xaa) as Naga.
      exists g2. split; [exact E2'|]. split; [exact T2|]. split; [exact D2|].
      split.
      { intros c' [<-|Hc'].
        + destruct Xbc as (bn & tb & X1 & X2 & X3). exists bn, tb.
          assert (Q1 : ~ In (bc (rid c)) (flat_map ids r)).
          { intros Hc. apply (fresh_ne bcoff (vnodes V0) (rid c) (bc (rid c)) F Krc); [apply KeyR; exact Hc|reflexivity]. }
          assert (Q2 : bc (rid c) <> n) by (apply (fresh_ne bcoff (vnodes V0) (rid c) n F Krc HnK)).
          split.
          { rewrite K5; [exact X1|exact Q1|exact Q2|].
            intros Hc. apply in_map_iff in Hc. destruct Hc as (z & Ez & Hz). apply bc_inj in Ez. subst z.
            apply (Ndis (rid c)); [apply rid_in_ids|]. apply in_map_rid_flat. exact Hz. }
          split.
          { rewrite K7; [exact X2|exact Q1|].
            intros Hc. apply in_map_iff in Hc. destruct Hc as (z & Ez & Hz). apply bc_inj in Ez. subst z.
            apply (Ndis (rid c)); [apply rid_in_ids|exact Hz]. }
          rewrite X3. f_equal. f_equal. symmetry. apply (FrC (rid c) (rid_in_ids c)).
        + destruct (B2 c' Hc') as (bn & tb & Y1 & Y2 & Y3). exists bn, tb. auto. }
      split.
      { intros k Hk. apply in_app_or in Hk. destruct Hk as [Hk|Hk]; [apply (FrC k Hk)|apply Fin2; exact Hk]. }
      split.
      { intros k Hk. apply in_app_or in Hk. destruct Hk as [Hk|Hk].
        - destruct (FrC k Hk) as [_ Ek]. rewrite Ek. apply Xrng. exact Hk.
        - pose proof (Rng2 k Hk). lia. }
      split.
      { intros k k' Hk Hk' Heq. apply in_app_or in Hk. apply in_app_or in Hk'.
        destruct Hk as [Hk|Hk]; destruct Hk' as [Hk'|Hk'].
        + destruct (FrC k Hk) as [_ Ek]. destruct (FrC k' Hk') as [_ Ek']. rewrite Ek, Ek' in Heq. apply (Xinj k k' Hk Hk' Heq).
        + exfalso. destruct (FrC k Hk) as [_ Ek]. pose proof (fin_ew_lt ga V0 k (Xfin k Hk)). pose proof (Rng2 k' Hk'). lia.
        + exfalso. destruct (FrC k' Hk') as [_ Ek']. pose proof (fin_ew_lt ga V0 k' (Xfin k' Hk')). pose proof (Rng2 k Hk). lia.
        + apply (Inj2 k k' Hk Hk' Heq). }
      split; [exact Ts2|].
      split.
      { intros k Hk. apply in_app_or in Hk. destruct Hk as [Hk|Hk]; [apply (FrA k Hk)|apply Af2; exact Hk]. }
      split.
      { intros k Hk. apply in_app_or in Hk. destruct Hk as [Hk|Hk].
        - destruct (FrA k Hk) as [_ Ek]. rewrite Ek. apply Xar. exact Hk.
        - pose proof (Ar2 k Hk). lia. }
      split; [|apply (aapp_trans g ga g2 Xaa Aa2)].
      intros k k' Hk Hk' Heq. apply in_app_or in Hk. apply in_app_or in Hk'.
      destruct Hk as [Hk|Hk]; destruct Hk' as [Hk'|Hk'].
      + destruct (FrA k Hk) as [_ Ek]. destruct (FrA k' Hk') as [_ Ek']. rewrite Ek, Ek' in Heq. apply (Xai k k' Hk Hk' Heq).
      + exfalso. destruct (FrA k Hk) as [_ Ek]. pose proof (afin_lt ga k (Xaf k Hk)). pose proof (Ar2 k' Hk'). lia.
      + exfalso. destruct (FrA k' Hk') as [_ Ek']. pose proof (afin_lt ga k' (Xaf k' Hk')). pose proof (Ar2 k Hk). lia.
      + apply (Ai2 k k' Hk Hk' Heq).
  Qed.
End Main3.

Section Main4.
  Variables (fixed : bool) (bcoff : nat) (tmp : id).
  Notation bc := (bcid bcoff).
  Notation rid := RTree.rid.
  Notation A2 := (A2 fixed bcoff tmp).
  Notation ctx := (ctx bcoff tmp).
  Notation ctx2 := (ctx2 bcoff tmp).
  Notation spost := (spost bcoff).

  Theorem update_node_some2 : forall t, A2 t.
  Proof.
    induction t as [n kids IH] using rtree_ind2.
    intros g pv V0 p pn C2 Htr Hnd (n0 & En0 & Pn0) Hpt HpK Hun Hbcf Ep Hin Hpp.
    rewrite update_node_eq. cbn [RTree.rid] in *.
    inversion Htr as [? ? nd0 End0 Hkids Hforall]; subst. rewrite En0 in End0. injection End0 as <-.
    destruct C2 as [C O0p Ts AO].
    destruct C as [W0 Wp S0p D0p Lv F Ndg Tdg Htmp].
    pose proof (wf_tstruct _ W0) as T0. cbn [focus nodes] in T0.
    destruct (same_tree_some _ _ _ _ S0p En0) as (pn0 & Epv & Ppv & Cpv). rewrite Epv, <- Ppv, Pn0.
    rewrite Nat.eqb_refl. cbn [negb].
    cbn [ids] in Hnd, Hpt, Hun, Hbcf. inversion Hnd as [|? ? Hnk Hndk]; subst.
    assert (HnK : In n (akeys (vnodes V0))) by (eapply aget_Some_keys; eauto).
    assert (Hnp : n <> p) by (intros ->; apply Hpt; left; reflexivity).
    assert (Hbp : bc n <> p) by (apply (fresh_ne bcoff (vnodes V0) n p F HnK HpK)).
    assert (Hbn : bc n <> n) by (apply (fresh_ne bcoff (vnodes V0) n n F HnK HnK)).
    assert (Ebc : aget (bc n) (nodes g) = None) by (apply Hbcf; left; reflexivity).
    (* the re-centring *)
    assert (Hap : amem p (nodes (focus g pv)) = true).
    { apply keys_amem. apply (same_tree_keys _ _ p S0p). exact HpK. }
    assert (Han : amem n (nodes (focus g pv)) = true) by (apply amem_aget; eauto).
    destruct (move_center_ok2 (focus g pv) p n tmp Wp Htmp Hap Han) as (s1 & Em & W1 & S1 & R1 & DKm & OKm).
    match goal with |- context [move_center ?x1 ?x2 ?x3 ?x4] => replace (move_center x1 x2 x3 x4) with (Some (s1, Some n)) by (symmetry; exact Em) end.
    pose proof (move_center_grows _ _ _ _ _ Em) as Gm. cbn [fst] in Gm.
    cbv zeta. set (cv := view_of s1). set (g1 := focus s1 (view_of g)).
    assert (Gr1 : grows g g1).
    { apply grows_focus_r. destruct Gm as [A1 A2' A3 A4]. constructor; assumption. }
    assert (Dk1 : dims_ok g1) by (intros w Hw; apply (wf_dims s1 W1 w Hw)).
    assert (Hs1 : focus g1 cv = s1) by (apply focus_focus_view).
    assert (W0' : wf (focus g1 V0)) by (apply (wf_focus_grows g g1 V0 W0 Gr1 Dk1)).
    assert (Wp' : wf (focus g1 pv)) by (apply (wf_focus_grows g g1 pv Wp Gr1 Dk1)).
    assert (Wc' : wf (focus g1 cv)) by (rewrite Hs1; exact W1).
    assert (Spc : same_tree (vnodes pv) (vnodes cv)) by exact S1.
    assert (S0c : same_tree (vnodes V0) (vnodes cv)) by (apply (same_tree_trans _ _ _ S0p Spc)).
    assert (D0p' : dims_kept (focus g1 V0) (focus g1 pv)).
    { apply (dk_grows_r g g1 pv (focus g1 V0) Wp Gr1 S0p). apply (dk_grows_l g g1 V0 (focus g pv) W0 Gr1 D0p). }
    assert (Dpc' : dims_kept (focus g1 pv) (focus g1 cv)).
    { rewrite Hs1. apply (dk_grows_l g g1 pv s1 Wp Gr1 DKm). }
    assert (D0c' : dims_kept (focus g1 V0) (focus g1 cv)).
    { apply (dims_kept_trans (focus g1 V0) (focus g1 pv) (focus g1 cv) S0p D0p' Dpc'). }
    assert (O0p' : opens_kept (focus g1 V0) (focus g1 pv)) by exact O0p.
    assert (Opc' : opens_kept (focus g1 pv) (focus g1 cv)) by (rewrite Hs1; exact OKm).
    assert (O0c' : opens_kept (focus g1 V0) (focus g1 cv)).
    { apply (opens_kept_trans (focus g1 V0) (focus g1 pv) (focus g1 cv) S0p O0p' Opc'). }
    assert (Ts1 : tsub g1) by exact Ts.
    assert (Ag1 : aapp g g1) by (apply (move_center_aapp _ _ _ _ _ Em)).
    assert (AO1 : aok g1) by (apply (aok_app g g1 Ag1 AO)).
    pose proof (aapp_na _ _ Ag1) as Na1.
    assert (Cg1 : ctx g1 V0 cv) by (constructor; auto).
    assert (C2g1 : ctx2 g1 V0 cv) by (constructor; assumption).
    destruct (same_tree_some _ _ _ _ S0c En0) as (cn & Ecv & Pcv & Ccv).
    change (aget n (vnodes (view_of s1))) with (aget n (vnodes cv)). rewrite Ecv.
    destruct (Hun n (or_introl eq_refl)) as [Un1 Un2].
    pose proof (gr_nw _ _ Gr1) as Nw1.
    destruct (nilb (children cn)) eqn:Hleaf.
    - (* update_leaf_node *)
      assert (Hcn : children cn = []) by (destruct (children cn); [reflexivity|discriminate]).
      assert (C0 : children n0 = []) by (apply Permutation_nil; rewrite <- Hcn; symmetry; exact Ccv).
      assert (Hk0 : kids = []).
      { rewrite C0 in Hkids. apply Permutation_sym, Permutation_nil in Hkids. destruct kids; [reflexivity|discriminate]. }
      subst kids. cbn [nilb].
      assert (O0 : nopen n0 = 1) by (apply (Lv n n0 En0); [congruence|exact C0]).
      destruct (update_leaf_some2 fixed bcoff n p g1 cv pv V0 n0 pn W0' Wp' Wc' S0p Spc D0p' Dpc' O0p' Opc' Ts1 AO1 Un1 Un2 En0 Pn0 C0 O0 Ndg Tdg Ep Hin Hpp Ebc Hnp Hbp)
        as (g' & bn & tb & w' & E' & X1 & X2 & X3 & X4 & X5 & X6 & X7 & X8 & X9 & X10 & X11 & X12 & X13).
      exists g'. split; [exact E'|]. constructor; cbn [RTree.rid ids flat_map app].
      + exists bn, tb. split; [exact X1|]. split; [exact X2|]. rewrite X3, X8. reflexivity.
      + exact X6.
      + exact X5.
      + intros k [<-|[]]. exact X7.
      + intros k [<-|[]]. rewrite X8. lia.
      + intros k k' [<-|[]] [<-|[]] _. reflexivity.
      + exact X10.
      + intros k [<-|[]]. exact X11.
      + intros k [<-|[]]. lia.
      + intros k k' [<-|[]] [<-|[]] _. reflexivity.
      + apply (aapp_trans g g1 g' Ag1 X13).
    - (* update_non_leaf_node *)
      assert (NdC : NoDup (children n0)) by (apply (ts_chnd _ T0 n n0 En0)).
      assert (InA : forall z, In z (children n0) <-> In z (map rid kids)).
      { intros z. split; intros Hz; [apply (Permutation_in _ (Permutation_sym Hkids) Hz)|apply (Permutation_in _ Hkids Hz)]. }
      assert (Pk : perm_ofb (map rid kids) (children cn) = true).
      { apply perm_ofb_complete; [rewrite Hkids; exact Ccv|]. apply (Permutation_NoDup (Permutation_sym Hkids) NdC). }
      rewrite Pk. cbn [negb].
      assert (KeyI : forall k, In k (n :: flat_map ids kids) -> In k (akeys (vnodes V0))).
      { intros k Hk. destruct (tree_of_keys _ _ Htr k Hk) as [b Eb]. eapply aget_Some_keys; eauto. }
      assert (KeyA : forall z, In z (children n0) -> In z (akeys (vnodes V0))).
      { intros z Hz. apply KeyI. right. apply in_map_rid_flat. apply InA. exact Hz. }
      assert (ParK : forall z, In z (children n0) -> exists c0, aget z (vnodes V0) = Some c0 /\ parent c0 = Some n).
      { intros z Hz. apply (ts_ch _ T0 n n0 z En0 Hz). }
      assert (L1 : forall c, In c kids -> exists c0, aget (rid c) (vnodes V0) = Some c0 /\ parent c0 = Some n).
      { intros c Hc. apply ParK. apply InA. apply in_map. exact Hc. }
      assert (L2 : forall k, In k (flat_map ids kids) -> unproc g1 V0 k) by (intros k Hk; apply Hun; right; exact Hk).
      assert (L3 : forall k, In k (flat_map ids kids) -> aget (bc k) (nodes g1) = None) by (intros k Hk; apply Hbcf; right; exact Hk).
      assert (L4 : forall c, In c kids -> ~ In (rid c) (@nil nat)) by (intros c _ []).
      assert (L5 : forall c, In c kids -> In (rid c) (children n0)) by (intros c Hc; apply InA; apply in_map; exact Hc).
      assert (L6 : aget n (nodes g1) = Some (with_children n0 (map (sub bcoff []) (children n0)))).
      { rewrite map_sub_nil, with_children_same. cbn [g1 focus nodes view_of vnodes]. rewrite Un1. exact En0. }
      assert (L7 : forall c, In c kids -> parent n0 <> Some (rid c)).
      { intros c Hc. rewrite Pn0. intros E. injection E as E. apply Hpt. right. rewrite E. apply in_map_rid_flat. apply in_map. exact Hc. }
      destruct (loop_some2 fixed bcoff tmp kids IH g1 cv V0 n n0 [] C2g1 Hforall Hndk L1 Hnk HnK L2 L3 NdC KeyA L4 L5 L6 L7)
        as (g2 & Eloop & T2 & D2 & B2 & Fin2 & Rng2 & Inj2 & Ts2 & Af2 & Ar2 & Ai2 & Aa2).
      assert (AO2 : aok g2) by (apply (aok_app g1 g2 Aa2 AO1)).
      pose proof (aapp_na _ _ Aa2) as Na2.
      match goal with |- context [update_children ?x1 ?x2 ?x3 ?x4 ?x5 ?x6 ?x7] =>
        replace (update_children x1 x2 x3 x4 x5 x6 x7) with (Some g2) by (symmetry; exact Eloop) end.
      assert (HP : Forall (P fixed bcoff tmp) kids) by (apply Forall_forall; intros c _; apply update_node_effect).
      destruct (children_loop fixed bcoff tmp kids HP g1 g2 cv (Some n) (vnodes V0) n n0 [] Eloop T0 F Hforall Hndk L1 Hnk HnK Ndg)
        as (K1 & K2 & K3 & K4 & K5 & K6 & K7 & K8 & K9); auto.
      { intros k Hk. destruct (tree_of_keys _ _ Htr k (or_intror Hk)) as [b Eb]. apply (unproc_agree g1 V0 k b (L2 k Hk) Eb). }
      { apply (wf_tstruct _ Wc'). }
      rewrite app_nil_r in K4.
      rewrite (map_sub_all bcoff _ (children n0)) in K4 by (intros z Hz; rewrite <- in_rev; apply InA; exact Hz).
      set (X := children n0) in *.
      assert (XI : forall x, In x X -> In x (flat_map ids kids)) by (intros x Hx; apply in_map_rid_flat; apply InA; exact Hx).
      assert (Ep2 : aget p (nodes g2) = Some pn).
      { rewrite K5; [exact Ep| | |].
        - intros Hc. apply Hpt. right. exact Hc.
        - congruence.
        - intros Hc. apply in_map_iff in Hc. destruct Hc as (z & Ez & Hz). apply (fresh_ne bcoff (vnodes V0) z p F); [|exact HpK|exact Ez].
          apply KeyI. right. apply in_map_rid_flat. exact Hz. }
      assert (Eb2 : aget (bc n) (nodes g2) = None).
      { rewrite K5; [exact Ebc| | |].
        - intros Hc. apply (fresh_ne bcoff (vnodes V0) n (bc n) F HnK); [apply KeyI; right; exact Hc|reflexivity].
        - exact Hbn.
        - intros Hc. apply in_map_iff in Hc. destruct Hc as (z & Ez & Hz). apply bc_inj in Ez. subst z.
          apply Hnk. apply in_map_rid_flat. exact Hz. }
      assert (A1 : ~ In n X) by (intros Hc; apply Hnk; apply XI; exact Hc).
      assert (A2' : ~ In n (map bc X)).
      { intros Hc. apply in_map_iff in Hc. destruct Hc as (z & Ez & Hz). apply (fresh_ne bcoff (vnodes V0) z n F); auto. }
      assert (A3 : forall x x', In x X -> In x' X -> bc x' <> x) by (intros x x' Hx Hx'; apply (fresh_ne bcoff (vnodes V0)); auto).
      assert (A5 : ~ In p X) by (intros Hc; apply Hpt; right; apply XI; exact Hc).
      assert (A6 : ~ In p (map bc X)).
      { intros Hc. apply in_map_iff in Hc. destruct Hc as (z & Ez & Hz). apply (fresh_ne bcoff (vnodes V0) z p F); auto. }
      assert (A7 : ~ In (bc n) X) by (intros Hc; apply (fresh_ne bcoff (vnodes V0) n (bc n) F HnK); [apply KeyA; exact Hc|reflexivity]).
      assert (Gr12 : grows g1 g2) by exact K8.
      assert (W02 : wf (focus g2 V0)) by (apply (wf_focus_grows g1 g2 V0 W0' Gr12 D2)).
      assert (Wp2 : wf (focus g2 pv)) by (apply (wf_focus_grows g1 g2 pv Wp' Gr12 D2)).
      assert (Wc2 : wf (focus g2 cv)) by (apply (wf_focus_grows g1 g2 cv Wc' Gr12 D2)).
      assert (D0p2 : dims_kept (focus g2 V0) (focus g2 pv)).
      { apply (dk_grows_r g1 g2 pv (focus g2 V0) Wp' Gr12 S0p). apply (dk_grows_l g1 g2 V0 (focus g1 pv) W0' Gr12 D0p'). }
      assert (Dpc2 : dims_kept (focus g2 pv) (focus g2 cv)).
      { apply (dk_grows_r g1 g2 cv (focus g2 pv) Wc' Gr12 Spc). apply (dk_grows_l g1 g2 pv (focus g1 cv) Wp' Gr12 Dpc'). }
      assert (O0p2 : opens_kept (focus g2 V0) (focus g2 pv)) by exact O0p.
      assert (Opc2 : opens_kept (focus g2 pv) (focus g2 cv)) by exact Opc'.
      assert (Hb2 : forall x, In x X -> exists bn tb, aget (bc x) (nodes g2) = Some bn /\ aget (bc x) (tensors g2) = Some tb /\
                         parent bn = Some n /\ children bn = [x] /\ laxes bn tb = [ew (focus g2 cv) x; ew g2 x] /\ ew g2 x < next_wire g2).
      { intros x Hx. pose proof (XI x Hx) as Hxf. apply InA in Hx. apply in_map_iff in Hx. destruct Hx as (c & <- & Hc).
        destruct (B2 c Hc) as (bn & tb & Y1 & Y2 & Y3). destruct (K3 c Hc) as (bn' & Z1 & Z2 & Z3).
        rewrite Y1 in Z1. injection Z1 as <-. exists bn, tb.
        split; [exact Y1|]. split; [exact Y2|]. split; [exact Z2|]. split; [exact Z3|]. split; [exact Y3|].
        apply (fin_ew_lt g2 V0 (rid c) (Fin2 _ Hxf)). }
      assert (Hxs2 : forall x, In x X -> exists xn, aget x (nodes g2) = Some xn).
      { intros x Hx. apply InA in Hx. apply in_map_iff in Hx. destruct Hx as (c & <- & Hc).
        destruct (K2 c Hc (rid c) (rid_in_ids c)) as (a' & b' & Ea' & _). eauto. }
      destruct (update_non_leaf_rest_some2 fixed bcoff n p g2 cv pv V0 n0 pn (ew g2) W02 Wp2 Wc2 S0p Spc D0p2 Dpc2 O0p2 Opc2 Ts2 AO2 En0 Pn0 K4 K1 T2 Hb2 Hxs2
                  (fun x _ => eq_refl) Ep2 Hin Hpp Eb2 Hnp Hbp Hbn A1 A2' A3 A5 A6 A7)
        as (g' & bn & tb & w' & E' & X1 & X2 & X3 & X4 & X5 & X6 & X7 & X8 & X9 & X10 & X11 & X12 & X13 & X14 & X15).
      (* the finished subtrees below n are kept *)
      assert (KeepK : forall k, In k (flat_map ids kids) -> keeps g2 g' k).
      { intros k Hk. apply X11.
        - intros ->. contradiction.
        - intros ->. apply (fresh_ne bcoff (vnodes V0) n (bc n) F HnK); [apply KeyI; right; exact Hk|reflexivity].
        - intros ->. apply Hpt. right. exact Hk.
        - intros Hc. apply in_map_iff in Hc. destruct Hc as (z & Ez & Hz).
          apply (fresh_ne bcoff (vnodes V0) z k F); [apply KeyA; exact Hz|apply KeyI; right; exact Hk|exact Ez]. }
      assert (Clo : forall k ka x, In k (flat_map ids kids) -> aget k (nodes g2) = Some ka -> In x (children ka) -> In x (flat_map ids kids)).
      { intros k ka x Hk Eka Hx. apply in_flat_map in Hk. destruct Hk as (c & Hc & Hk).
        rewrite Forall_forall in Hforall.
        apply (in_flat_ids c kids x Hc). apply (post_children bcoff (vnodes V0) (nodes g2) c k ka x (K2 c Hc) (Hforall c Hc) Hk Eka Hx). }
      pose proof (fin_subtree_frame g2 g' V0 (flat_map ids kids) Fin2 KeepK X12 Clo) as FrK.
      pose proof (afin_subtree_frame g2 g' (flat_map ids kids) Af2 KeepK X15) as FrA.
      pose proof (gr_nw _ _ Gr12) as Nw12.
      exists g'. split; [exact E'|]. constructor; cbn [RTree.rid ids].
      + exists bn, tb. split; [exact X1|]. split; [exact X2|]. rewrite X3, X8. reflexivity.
      + exact X6.
      + exact X5.
      + intros k [<-|Hk]; [exact X7|apply (FrK k Hk)].
      + intros k [<-|Hk]; [rewrite X8; lia|]. destruct (FrK k Hk) as [_ Ek]. rewrite Ek. pose proof (Rng2 k Hk). lia.
      + intros k k' [<-|Hk] [<-|Hk'] Heq.
        * reflexivity.
        * exfalso. destruct (FrK k' Hk') as [_ Ek']. rewrite X8, Ek' in Heq. pose proof (fin_ew_lt g2 V0 k' (Fin2 k' Hk')). lia.
        * exfalso. destruct (FrK k Hk) as [_ Ek]. rewrite X8, Ek in Heq. pose proof (fin_ew_lt g2 V0 k (Fin2 k Hk)). lia.
        * destruct (FrK k Hk) as [_ Ek]. destruct (FrK k' Hk') as [_ Ek']. rewrite Ek, Ek' in Heq. apply (Inj2 k k' Hk Hk' Heq).
      + exact X10.
      + intros k [<-|Hk]; [exact X13|apply (FrA k Hk)].
      + intros k [<-|Hk]; [lia|]. destruct (FrA k Hk) as [_ Ek]. rewrite Ek. pose proof (Ar2 k Hk). lia.
      + intros k k' [<-|Hk] [<-|Hk'] Heq.
        * reflexivity.
        * exfalso. destruct (FrA k' Hk') as [_ Ek']. rewrite Ek' in Heq. pose proof (afin_lt g2 k' (Af2 k' Hk')). lia.
        * exfalso. destruct (FrA k Hk) as [_ Ek]. rewrite Ek in Heq. pose proof (afin_lt g2 k (Af2 k Hk)). lia.
        * destruct (FrA k Hk) as [_ Ek]. destruct (FrA k' Hk') as [_ Ek']. rewrite Ek, Ek' in Heq. apply (Ai2 k k' Hk Hk' Heq).
      + apply (aapp_trans g g1 g' Ag1). apply (aapp_trans g1 g2 g' Aa2 X15).
  Qed.
End Main4.

(* ==== part 9: from the description of every node to the invariant ==== *)
Lemma own_decomp n t (A O : list wire) (f : id -> wire) :
  laxes n t = A ++ map f (children n) ++ O -> length A = nparents n -> own_of n t = A ++ O.
Proof.
  intros HL HA. unfold own_of. rewrite HL. f_equal.
  - rewrite <- HA. apply firstn_app_len.
  - unfold nvirt. rewrite <- HA. rewrite app_assoc.
    replace (length A + length (children n)) with (length (A ++ map f (children n))) by (rewrite app_length, map_length; reflexivity).
    apply skipn_app_len.
Qed.

Lemma assemble_wf (g0 gf : store) (r : id) (rn nd : node) (u : sarr) :
  wf g0 -> tstruct (nodes gf) -> same_tree (nodes g0) (nodes gf) ->
  root gf = Some r -> aget r (nodes g0) = Some rn ->
  NoDup (akeys (tensors gf)) -> tsub gf -> dims_ok gf -> next_wire g0 <= next_wire gf ->
  aget r (nodes gf) = Some nd -> aget r (tensors gf) = Some u -> parent nd = None ->
  laxes nd u = map (ew gf) (children nd) ++ vopen (view_of g0) r rn ->
  Permutation (perm nd) (seq 0 (length (shape nd))) -> shape nd = map (wdim gf) (axes u) ->
  (forall w, In w (axes u) -> w < next_wire gf) ->
  (forall k, In k (akeys (nodes g0)) -> k <> r -> fin gf (view_of g0) k) ->
  (forall k, In k (akeys (nodes g0)) -> k <> r -> next_wire g0 <= ew gf k) ->
  (forall k k', In k (akeys (nodes g0)) -> k <> r -> In k' (akeys (nodes g0)) -> k' <> r -> ew gf k = ew gf k' -> k = k') ->
  wf gf.
Proof.
  intros W0 T ST Hroot Ern Htnd Ts Dk Nw End Eu Pnd Lnd Permnd Shnd Bu Fin Rng Inj.
  set (V0 := view_of g0) in *.
  (* a uniform description of every node *)
  assert (Desc : forall k n, aget k (nodes gf) = Some n ->
            exists t n0 A, aget k (tensors gf) = Some t /\ aget k (nodes g0) = Some n0 /\
              laxes n t = A ++ map (ew gf) (children n) ++ vopen V0 k n0 /\ length A = nparents n /\
              ((A = [] /\ k = r) \/ (A = [ew gf k] /\ k <> r /\ next_wire g0 <= ew gf k)) /\
              Permutation (perm n) (seq 0 (length (shape n))) /\ shape n = map (wdim gf) (axes t) /\
              (forall w, In w (axes t) -> w < next_wire gf)).
  { intros k n E. destruct (Nat.eq_dec k r) as [->|Hkr].
    - rewrite End in E. injection E as <-. exists u, rn, []. split; [exact Eu|]. split; [exact Ern|].
      split; [exact Lnd|]. split; [unfold nparents; rewrite Pnd; reflexivity|]. split; [left; auto|]. auto.
    - assert (Hk : In k (akeys (nodes g0))) by (apply (same_tree_keys _ _ k ST); eapply aget_Some_keys; eauto).
      destruct (Fin k Hk Hkr) as (a & ta & n0 & Ea & Eta & E0 & Hp & L & Pm & Sh & Bd). rewrite E in Ea. injection Ea as <-.
      exists ta, n0, [ew gf k]. split; [exact Eta|]. split; [exact E0|]. split; [exact L|].
      split; [unfold nparents; destruct (parent n); [reflexivity|congruence]|].
      split; [right; split; [reflexivity|split; [exact Hkr|apply Rng; assumption]]|]. auto. }
  assert (Vop : forall k n0 w, aget k (nodes g0) = Some n0 -> In w (vopen V0 k n0) -> w < next_wire g0).
  { intros k n0 w E0 Hw. apply (open_wires_lt g0 k n0 w W0 E0). exact Hw. }
  assert (OwnD : forall k n, aget k (nodes gf) = Some n -> exists n0 A, aget k (nodes g0) = Some n0 /\
             own_of n (tens gf k) = A ++ vopen V0 k n0 /\
             ((A = [] /\ k = r) \/ (A = [ew gf k] /\ k <> r /\ next_wire g0 <= ew gf k))).
  { intros k n E. destruct (Desc k n E) as (t & n0 & A & Et & E0 & L & HA & Hc & _). exists n0, A. split; [exact E0|].
    split; [|exact Hc]. rewrite (tens_aget gf k t Et). apply (own_decomp n t A _ (ew gf) L HA). }
  constructor.
  - apply (ts_nd _ T).
  - exact Htnd.
  - intros k Hk. apply amem_aget in Hk. destruct Hk as [t Et]. apply amem_aget.
    destruct (aget k (nodes gf)) as [n|] eqn:E; [eauto|]. rewrite (Ts k E) in Et. discriminate.
  - exists r, nd. split; [exact Hroot|]. split; [exact End|]. split; [exact Pnd|].
    intros k n E Hp. apply (ts_root _ T k n r nd E Hp End Pnd).
  - intros k n E. destruct (Desc k n E) as (t & n0 & A & Et & E0 & L & HA & Hc & Pm & Sh & Bd).
    assert (HLen : nlegs n = length A + length (children n) + length (vopen V0 k n0)).
    { rewrite <- (laxes_length n t), L, !app_length, map_length. lia. }
    constructor.
    + apply amem_aget. eauto.
    + exact Pm.
    + rewrite (tens_aget gf k t Et). exact Sh.
    + unfold nvirt. rewrite HLen, HA. lia.
    + apply (ts_chnd _ T k n E).
    + intros c Hcin. apply (ts_ch _ T k n c E Hcin).
    + intros p Hp. destruct (ts_par _ T k n p E Hp) as (pn & Ep & Hin).
      destruct (Desc p pn Ep) as (tp & p0 & Ap & Etp & _ & Lp & HAp & _).
      assert (Hpk : parent pn <> Some k).
      { intros Hc'. apply (ts_parent_not_child _ p pn k T Ep Hc'). exact Hin. }
      destruct (child_edge_from_decomp pn (laxes pn tp) Ap (vopen V0 p p0) (ew gf) k Lp HAp Hpk Hin) as (i & Hi & Hw).
      exists pn, i. split; [exact Ep|]. split; [exact Hin|]. split; [exact Hi|].
      unfold lax. rewrite (tens_aget gf p tp Etp), Hw. unfold ew. rewrite E. reflexivity.
  - intros k n E. destruct (OwnD k n E) as (n0 & A & E0 & Ho & Hc). rewrite Ho.
    assert (NdO : NoDup (vopen V0 k n0)).
    { pose proof (wf_own1 g0 W0 k n0 E0) as Hn. unfold own_of in Hn. apply NoDup_app_iff in Hn. apply Hn. }
    destruct Hc as [[-> _]|(-> & _ & Hlo)]; [exact NdO|]. cbn [app]. constructor; [|exact NdO].
    intros Hin. pose proof (Vop k n0 _ E0 Hin). lia.
  - intros k1 n1 k2 n2 w E1 E2 H1 H2.
    destruct (OwnD k1 n1 E1) as (m1 & A1 & F1 & Ho1 & Hc1). destruct (OwnD k2 n2 E2) as (m2 & A2 & F2 & Ho2 & Hc2).
    rewrite Ho1 in H1. rewrite Ho2 in H2. apply in_app_or in H1. apply in_app_or in H2.
    assert (OO : In w (vopen V0 k1 m1) -> In w (vopen V0 k2 m2) -> k1 = k2).
    { intros I1 I2. apply (wf_own2 g0 W0 k1 m1 k2 m2 w F1 F2); unfold own_of; apply in_or_app; right; assumption. }
    assert (K1 : In k1 (akeys (nodes g0))) by (eapply aget_Some_keys; eauto).
    assert (K2 : In k2 (akeys (nodes g0))) by (eapply aget_Some_keys; eauto).
    destruct H1 as [H1|H1]; destruct H2 as [H2|H2].
    + destruct Hc1 as [[-> _]|(-> & R1 & _)]; [destruct H1|]. destruct Hc2 as [[-> _]|(-> & R2 & _)]; [destruct H2|].
      destruct H1 as [<-|[]]. destruct H2 as [H2|[]]. apply (Inj k1 k2 K1 R1 K2 R2). symmetry. exact H2.
    + exfalso. destruct Hc1 as [[-> _]|(-> & _ & Hlo)]; [destruct H1|]. destruct H1 as [<-|[]]. pose proof (Vop k2 m2 _ F2 H2). lia.
    + exfalso. destruct Hc2 as [[-> _]|(-> & _ & Hlo)]; [destruct H2|]. destruct H2 as [<-|[]]. pose proof (Vop k1 m1 _ F1 H1). lia.
    + apply OO; assumption.
  - intros k t w Et Hw. destruct (aget k (nodes gf)) as [n|] eqn:E; [|rewrite (Ts k E) in Et; discriminate].
    destruct (Desc k n E) as (t' & _ & _ & Et' & _ & _ & _ & _ & _ & _ & Bd). rewrite Et in Et'. injection Et' as <-. apply Bd. exact Hw.
  - exact Dk.
  - apply (ts_acyc _ T).
Qed.

(* ==== part 10: root_update ==== *)
Section Root2.
  Variables (fixed : bool) (bcoff : nat) (tmp : id).
  Notation bc := (bcid bcoff).
  Notation rid := RTree.rid.

  Theorem root_update_wfq t cs :
    wfb (fst cs) = true -> bc_fresh bcoff (nodes (fst cs)) -> aget tmp (nodes (fst cs)) = None ->
    root (fst cs) = Some (rid t) -> snd cs = Some (rid t) ->
    tree_of (nodes (fst cs)) t -> NoDup (ids t) -> leaves_ok (view_of (fst cs)) -> aok (fst cs) ->
    exists cs', root_update fixed bcoff tmp t cs = Some cs' /\ wf (fst cs') /\ (Q -> atoms_ok (fst cs')).
  Proof.
    destruct cs as [g oc]. destruct t as [r kids]. cbn [fst snd RTree.rid]. intros Wb F Htmp Hroot Hoc Htr Hnd Lv AOg. subst oc.
    pose proof (wfb_wf g Wb) as W. pose proof (wf_tstruct g W) as T.
    inversion Htr as [? ? rn Ern Hkids Hforall]; subst.
    destruct (wf_root g W) as (r' & rn' & Er' & Ern' & Prn & Huniq). rewrite Hroot in Er'. injection Er' as <-.
    rewrite Ern in Ern'. injection Ern' as <-.
    assert (NdX : NoDup (children rn)) by (apply (ts_chnd _ T r rn Ern)).
    pose proof Hnd as Hnd0.
    cbn [ids] in Hnd. inversion Hnd as [|? ? Hrk Hndk]; subst.
    set (V0 := view_of g).
    assert (C : ctx bcoff tmp g V0 V0).
    { constructor; auto.
      - unfold V0. rewrite focus_view_of. exact W.
      - unfold V0. rewrite focus_view_of. exact W.
      - apply same_tree_refl.
      - apply dims_kept_refl.
      - apply (wf_nd g W).
      - apply (wf_tnd g W). }
    assert (Ts0 : tsub g).
    { intros k Hk. destruct (aget k (tensors g)) as [tk|] eqn:Et; [|reflexivity]. exfalso.
      assert (Hm : amem k (tensors g) = true) by (apply amem_aget; eauto).
      apply (wf_tn g W) in Hm. apply amem_aget in Hm. destruct Hm as [v Ev]. congruence. }
    assert (C2 : ctx2 bcoff tmp g V0 V0) by (constructor; [exact C|apply opens_kept_refl|exact Ts0|exact AOg]).
    assert (HrK : In r (akeys (vnodes V0))) by (eapply aget_Some_keys; eauto).
    assert (InA : forall z, In z (children rn) <-> In z (map rid kids)).
    { intros z. split; intros Hz; [apply (Permutation_in _ (Permutation_sym Hkids) Hz)|apply (Permutation_in _ Hkids Hz)]. }
    assert (KeyT : forall k, In k (r :: flat_map ids kids) -> In k (akeys (nodes g))).
    { intros k Hk. destruct (tree_of_keys _ _ Htr k Hk) as [x Ex]. eapply aget_Some_keys; eauto. }
    assert (KeyA : forall z, In z (children rn) -> In z (akeys (vnodes V0))).
    { intros z Hz. apply KeyT. right. apply in_map_rid_flat. apply InA. exact Hz. }
    assert (L1 : forall c, In c kids -> exists c0, aget (rid c) (vnodes V0) = Some c0 /\ parent c0 = Some r).
    { intros c Hc. apply (ts_ch _ T r rn (rid c) Ern). apply InA. apply in_map. exact Hc. }
    assert (L2 : forall k, In k (flat_map ids kids) -> unproc g V0 k) by (intros k _; split; reflexivity).
    assert (L3 : forall k, In k (flat_map ids kids) -> aget (bc k) (nodes g) = None).
    { intros k Hk. apply F. apply KeyT. right. exact Hk. }
    assert (L4 : forall c, In c kids -> ~ In (rid c) (@nil nat)) by (intros c _ []).
    assert (L5 : forall c, In c kids -> In (rid c) (children rn)) by (intros c Hc; apply InA; apply in_map; exact Hc).
    assert (L6 : aget r (nodes g) = Some (with_children rn (map (sub bcoff []) (children rn)))).
    { rewrite map_sub_nil, with_children_same. exact Ern. }
    assert (L7 : forall c, In c kids -> parent rn <> Some (rid c)) by (intros c _; rewrite Prn; discriminate).
    assert (IH : Forall (A2 fixed bcoff tmp) kids) by (apply Forall_forall; intros c _; apply update_node_some2).
    destruct (loop_some2 fixed bcoff tmp kids IH g V0 V0 r rn [] C2 Hforall Hndk L1 Hrk HrK L2 L3 NdX KeyA L4 L5 L6 L7)
      as (g1 & Eloop & T1 & D1 & B1 & Fin1 & Rng1 & Inj1 & Ts1 & Af1 & Ar1 & Ai1 & Aa1).
    assert (HP : Forall (P fixed bcoff tmp) kids) by (apply Forall_forall; intros c _; apply update_node_effect).
    destruct (children_loop fixed bcoff tmp kids HP g g1 V0 (Some r) (vnodes V0) r rn [] Eloop T F Hforall Hndk L1 Hrk HrK (wf_nd g W))
      as (K1 & K2 & K3 & K4 & K5 & K6 & K7 & K8 & K9); auto.
    { intros k Hk. destruct (tree_of_keys _ _ Htr k (or_intror Hk)) as [b Eb]. apply (unproc_agree g V0 k b (L2 k Hk) Eb). }
    { apply same_tree_refl. }
    rewrite app_nil_r in K4.
    rewrite (map_sub_all bcoff _ (children rn)) in K4 by (intros z Hz; rewrite <- in_rev; apply InA; exact Hz).
    set (X := children rn) in *.
    assert (XI : forall x, In x X -> In x (flat_map ids kids)) by (intros x Hx; apply in_map_rid_flat; apply InA; exact Hx).
    assert (W01 : wf (focus g1 V0)) by (apply (wf_focus_grows g g1 V0 (cx_w0 _ _ _ _ _ C) K8 D1)).
    assert (A1 : ~ In r X) by (intros Hc; apply Hrk; apply XI; exact Hc).
    assert (A2' : ~ In r (map bc X)).
    { intros Hc. apply in_map_iff in Hc. destruct Hc as (z & Ez & Hz). apply (fresh_ne bcoff (nodes g) z r F); auto. }
    assert (A3 : forall x x', In x X -> In x' X -> bc x' <> x) by (intros x x' Hx Hx'; apply (fresh_ne bcoff (nodes g)); auto).
    (* pull_tensor_from_different_ttn(current_state, new_state, root) *)
    pose proof (wf_tens (focus g1 V0) r rn W01 Ern) as Trn.
    pose proof (ni_virt _ _ _ (wf_node _ W01 r rn Ern)) as Vr.
    assert (Np : nparents rn = 0) by (unfold nparents; rewrite Prn; reflexivity).
    assert (PT9 : forall x, In x X -> exists j, index_of x (children rn) = Some j /\
                    nth (j + nparents rn) (laxes rn (tens (focus g1 V0) r)) 0 = ew (focus g1 V0) x).
    { intros x Hx. apply (child_index_wire (focus g1 V0) r rn x W01 Ern Hx). }
    assert (PT10 : node_shape (with_children rn (map bc X)) =
                   map (wdim g1) (firstn (nparents rn) (laxes rn (tens (focus g1 V0) r)) ++ map (ew (focus g1 V0)) X ++
                                  skipn (nvirt rn) (laxes rn (tens (focus g1 V0) r)))).
    { change (node_shape (with_children rn (map bc X))) with (node_shape rn).
      rewrite (node_shape_lax' (focus g1 V0) r rn W01 Ern). f_equal. apply (wf_lax_decomp (focus g1 V0) r rn W01 Ern). }
    destruct (pull_tensor_some bcoff g1 V0 r rn (tens (focus g1 V0) r) (with_children rn (map bc X)) X (ew (focus g1 V0))
                Ern Trn K4 eq_refl eq_refl eq_refl eq_refl Vr PT9 PT10)
      as (gA & nd' & ot & EA & NA & TA & PA & CA & SA & LA & RA & DA & WA & FA & AA & PbA).
    rewrite Np in LA. cbn [firstn app] in LA.
    set (Oc := skipn (nvirt rn) (laxes rn (tens (focus g1 V0) r))) in *.
    assert (HOcV : Oc = vopen V0 r rn) by reflexivity.
    assert (HwdA : forall w, wdim gA w = wdim g1 w) by (apply wdim_dims_eq; exact DA).
    assert (NdA : NoDup (akeys (nodes gA))) by (rewrite NA; apply NoDup_akeys_aset; exact K1).
    assert (TdA : NoDup (akeys (tensors gA))) by (rewrite TA; apply NoDup_akeys_aset; exact T1).
    assert (EnA : aget r (nodes gA) = Some nd') by (rewrite NA; apply aget_aset_same).
    assert (TnA : aget r (tensors gA) = Some ot) by (rewrite TA; apply aget_aset_same).
    (* contract_all_children(root) *)
    assert (HbA : forall x, In x X -> exists bn tb, aget (bc x) (nodes gA) = Some bn /\ aget (bc x) (tensors gA) = Some tb /\
                                       parent bn = Some r /\ children bn = [x] /\ laxes bn tb = [ew (focus g1 V0) x; ew g1 x]).
    { intros x Hx. pose proof Hx as Hx'. apply InA in Hx. apply in_map_iff in Hx. destruct Hx as (c & <- & Hc).
      destruct (B1 c Hc) as (bn & tb & Y1 & Y2 & Y3). destruct (K3 c Hc) as (bn' & Z1 & Z2 & Z3).
      rewrite Y1 in Z1. injection Z1 as <-. exists bn, tb.
      assert (K : bc (rid c) <> r) by (intros E; apply A2'; rewrite <- E; apply in_map; exact Hx').
      rewrite NA, TA, !aget_aset_other by exact K. auto 7. }
    assert (CB1 : laxes nd' ot = [] ++ map (ew (focus g1 V0)) X ++ [] ++ Oc) by (cbn [app]; exact LA).
    assert (CB2 : length (@nil wire) = nparents nd') by (unfold nparents; rewrite PA; cbn; rewrite Prn; reflexivity).
    assert (CB3 : children nd' = map bc X ++ []) by (rewrite app_nil_r; exact CA).
    assert (CB5 : NoDup (children nd')) by (rewrite CA; apply NoDup_map_bc; exact NdX).
    assert (CB6 : forall x, In x X -> parent nd' <> Some (bc x)) by (intros x _; rewrite PA; cbn; rewrite Prn; discriminate).
    assert (CB8 : shape nd' = map (wdim gA) (axes ot)) by (rewrite SA; apply map_ext; intros w; symmetry; apply HwdA).
    destruct (contract_all_bc2 bcoff r (ew (focus g1 V0)) (ew g1) X gA nd' ot [] [] Oc [] NdA TdA EnA TnA CB1 CB2 CB3 eq_refl CB5 CB6 A2' NdX A3
                (fun x _ H => H) CB8 PbA HbA) as (gB & nn' & tn' & EB & EnB & TnB & LB & CB & PB & TdB & SB & PbB & GoneB & FrB).
    cbn [app] in LB, CB.
    destruct (contract_fold bcoff r X gA gB nd' [] EB NdA NdX A1 A2' A3 EnA ltac:(rewrite app_nil_r; exact CA))
      as (nn2 & F1 & F2 & F3 & F4 & F5 & F6 & F7 & F8 & F9 & F10 & F11).
    { intros x Hx. destruct (HbA x Hx) as (bn & tb & Q1 & _ & Q3 & Q4 & _). exists bn. auto. }
    rewrite EnB in F1. injection F1 as <-.
    (* time evolution of the root, replace_tensor *)
    destruct (evolve_some gB r nn' tn' EnB TnB) as (gC & u & Eev).
    destruct (evolve_effect _ _ _ _ Eev) as (nd2 & t2 & V1 & V2 & V3 & V4 & V5 & V6 & V7 & V8 & V9).
    rewrite EnB in V1. injection V1 as <-. rewrite TnB in V2. injection V2 as <-.
    assert (Hs : node_shape (reset_permutation nn') = map (wdim gC) (axes u)).
    { rewrite reset_permutation_shape. unfold node_shape. rewrite SB, V5. cbn [axes s_transpose].
      rewrite (permute_map (wdim gB) 0 0 (perm nn') (axes tn') PbB). apply map_ext. intros w. symmetry. apply wdim_dims_eq. exact V8. }
    set (ndf := reset_permutation (reset_permutation nn')).
    set (gf := upd_tensors (upd_nodes gC (aset r ndf)) (aset r u)).
    assert (Erun : root_update fixed bcoff tmp (RNode r kids) (g, Some r) = Some (gf, Some r)).
    { unfold root_update. cbv zeta. cbn [fst snd]. rewrite Hroot, Nat.eqb_refl. cbn [negb].
      rewrite (tree_of_matchb (nodes g) T _ Htr), (proj2 (nodupb_NoDup _) Hnd0). cbn [andb negb].
      rewrite Ern. fold X.
      rewrite (perm_ofb_complete _ _ Hkids (Permutation_NoDup (Permutation_sym Hkids) NdX)). cbn [negb].
      match goal with |- context [update_children ?x1 ?x2 ?x3 ?x4 ?x5 ?x6 ?x7] =>
        replace (update_children x1 x2 x3 x4 x5 x6 x7) with (Some g1) by (symmetry; exact Eloop) end.
      match goal with |- context [pull_tensor ?x1 ?x2 ?x3 ?x4] =>
        replace (pull_tensor x1 x2 x3 x4) with (Some gA) by (symmetry; exact EA) end.
      unfold contract_all_children. rewrite EnA, CA.
      change (children (with_children rn (map bc X))) with (map bc X).
      change (fold_left _ (map bc X) (Some gA)) with (cfold r (map bc X) gA). rewrite EB.
      rewrite Eev. rewrite V3, aget_aset_same.
      unfold node_replace_tensor. rewrite (proj2 (list_eqb_eq _ _) Hs). reflexivity. }
    exists (gf, Some r). split; [exact Erun|]. cbn [fst].
    (* the structure of the result *)
    destruct (root_update_effect fixed bcoff tmp (RNode r kids) (g, Some r) (gf, Some r) Wb F Htmp Erun)
      as (ST & TS & _ & R1 & _ & R3 & _ & _ & _).
    cbn [fst snd RTree.rid] in ST, TS, R1, R3.
    (* lookups in the result *)
    assert (TenF : forall k, k <> r -> ~ In k (map bc X) -> aget k (tensors gf) = aget k (tensors g1)).
    { intros k Q1 Q2. unfold gf. cbn [upd_tensors upd_nodes tensors]. rewrite aget_aset_other by exact Q1.
      rewrite V4, aget_aset_other by exact Q1. rewrite FrB by assumption. rewrite TA, aget_aset_other by exact Q1. reflexivity. }
    assert (NodF : forall k, k <> r -> aget k (nodes gf) =
              if memb k (map bc X) then None
              else if memb k X then option_map (fun xn => with_parent xn (Some r)) (aget k (nodes g1))
              else aget k (nodes g1)).
    { intros k Hk. unfold gf. cbn [upd_tensors upd_nodes nodes]. rewrite aget_aset_other, V3, aget_aset_other by exact Hk.
      destruct (memb k (map bc X)) eqn:MB.
      - apply memb_In in MB. apply in_map_iff in MB. destruct MB as (z & <- & Hz). apply (F4 z Hz).
      - apply memb_false in MB. destruct (memb k X) eqn:MX.
        + apply memb_In in MX. destruct (F4 k MX) as [_ E]. rewrite E, NA, aget_aset_other by exact Hk. reflexivity.
        + apply memb_false in MX. rewrite F5 by assumption. rewrite NA, aget_aset_other by exact Hk. reflexivity. }
    assert (KeyK : forall k, In k (flat_map ids kids) -> k <> r /\ ~ In k (map bc X)).
    { intros k Hk. split; [intros ->; contradiction|].
      intros Hc. apply in_map_iff in Hc. destruct Hc as (z & Ez & Hz).
      apply (fresh_ne bcoff (nodes g) z k F); [apply KeyA; exact Hz|apply KeyT; right; exact Hk|exact Ez]. }
    assert (KeepK : forall k, In k (flat_map ids kids) -> keeps g1 gf k).
    { intros k Hk. destruct (KeyK k Hk) as [Q1 Q2]. split; [apply TenF; assumption|].
      intros ka Eka. rewrite (NodF k Q1). apply memb_false in Q2. rewrite Q2, Eka. destruct (memb k X).
      - exists (with_parent ka (Some r)). cbn. repeat split; auto. discriminate.
      - exists ka. auto. }
    assert (GrF : grows g1 gf).
    { assert (G1 : grows g1 gC).
      { eapply grows_trans; [apply grows_same; eassumption|]. eapply grows_trans; [exact F8|exact V7]. }
      destruct G1 as [Q1 Q2 Q3 Q4]. constructor; assumption. }
    assert (Clo : forall k ka x, In k (flat_map ids kids) -> aget k (nodes g1) = Some ka -> In x (children ka) -> In x (flat_map ids kids)).
    { intros k ka x Hk Eka Hx. apply in_flat_map in Hk. destruct Hk as (c & Hc & Hk).
      rewrite Forall_forall in Hforall.
      apply (in_flat_ids c kids x Hc). apply (post_children bcoff (vnodes V0) (nodes g1) c k ka x (K2 c Hc) (Hforall c Hc) Hk Eka Hx). }
    pose proof (fin_subtree_frame g1 gf V0 (flat_map ids kids) Fin1 KeepK GrF Clo) as FrK.
    assert (Cover : forall k, In k (akeys (nodes g)) -> k <> r -> In k (flat_map ids kids)).
    { intros k Hk Hkr. destruct (tree_of_cover (nodes g) (RNode r kids) rn T Htr Ern Prn k Hk) as [E|Hfl]; [congruence|exact Hfl]. }
    (* the tables *)
    assert (NwF : next_wire gf = next_wire g1) by (unfold gf; cbn; rewrite V9, F10; exact WA).
    assert (DmF : dims gf = dims g1) by (unfold gf; cbn; rewrite V8, F9; exact DA).
    (* the root node *)
    assert (Lu : axes u = map (ew g1) X ++ Oc) by (rewrite V5; exact LB).
    assert (Lnn : length (perm nn') = length (axes u)).
    { rewrite Lu, <- LB. symmetry. apply (laxes_length nn' tn'). }
    assert (Pndf : perm ndf = seq 0 (length (axes u))).
    { unfold ndf. cbn [reset_permutation perm]. rewrite !seq_length, Lnn. reflexivity. }
    assert (TsF : tsub gf).
    { intros k Hk. destruct (Nat.eq_dec k r) as [->|Hkr]; [unfold gf in Hk; cbn in Hk; rewrite aget_aset_same in Hk; discriminate|].
      rewrite (NodF k Hkr) in Hk. destruct (memb k (map bc X)) eqn:MB.
      + apply memb_In in MB. apply in_map_iff in MB. destruct MB as (z & <- & Hz).
        unfold gf. cbn [upd_tensors upd_nodes tensors]. rewrite aget_aset_other, V4, aget_aset_other by exact Hkr. apply GoneB. exact Hz.
      + apply memb_false in MB. rewrite (TenF k Hkr MB). apply Ts1. destruct (memb k X); [|exact Hk].
        destruct (aget k (nodes g1)); [discriminate|reflexivity]. }
    cut (wf gf).
    { intros WF. split; [exact WF|]. intros HQ.
      (* the atom table *)
      assert (AgB : aapp g1 gB).
      { eapply aapp_trans; [apply (pull_tensor_aapp _ _ _ _ _ EA)|apply (cfold_aapp _ _ _ _ EB)]. }
      pose proof (aok_app _ _ Aa1 AOg) as AO1. pose proof (aok_app _ _ AgB AO1) as AOB.
      destruct (evolve_atab _ _ _ _ Eev) as (AtC & NaC & AuC & BuC).
      assert (AtF : atab gf = atab gC) by reflexivity. assert (NaF : next_atom gf = next_atom gC) by reflexivity.
      assert (AgF : aapp g1 gf).
      { eapply aapp_trans; [exact AgB|]. eapply aapp_trans; [apply (evolve_aapp _ _ _ _ Eev)|apply aapp_same; reflexivity]. }
      pose proof (afin_subtree_frame g1 gf (flat_map ids kids) Af1 KeepK AgF) as FrA.
      pose proof (aapp_na _ _ AgB) as NaB.
      assert (TenR : aget r (tensors gf) = Some u) by (unfold gf; cbn; apply aget_aset_same).
      assert (KF : forall k t, aget k (tensors gf) = Some t -> k <> r -> In k (flat_map ids kids)).
      { intros k t Et Hkr. destruct (aget k (nodes gf)) as [kn|] eqn:Ek; [|rewrite (TsF k Ek) in Et; discriminate].
        apply Cover; [|exact Hkr]. apply (same_tree_keys _ _ k ST). eapply aget_Some_keys; eauto. }
      assert (HdK : forall k t, aget k (tensors gf) = Some t -> k <> r -> hd 0 (atoms t) = atom_of g1 k).
      { intros k t Et Hkr. destruct (FrA k (KF k t Et Hkr)) as [_ E]. rewrite <- E. unfold atom_of. rewrite Et. reflexivity. }
      split; [apply (aok_app g1 gf AgF AO1 HQ)|]. split.
      - intros k t Et. destruct (Nat.eq_dec k r) as [->|Hkr].
        + rewrite TenR in Et. injection Et as <-. exists (axes u). rewrite AuC. cbn [hd].
          split; [reflexivity|]. split; [exact BuC|]. split; [rewrite AtF; apply (atab_new gB gC _ _ (AOB HQ) AtC)|].
          split; [apply incl_refl|]. rewrite NaF, NaC. lia.
        + destruct (FrA k (KF k t Et Hkr)) as [(ta & ws & T' & A' & B' & W' & I' & L') E]. rewrite Et in T'. injection T' as <-.
          assert (Hh : hd 0 (atoms t) = atom_of gf k) by (rewrite A'; reflexivity).
          exists ws. rewrite Hh. split; [exact A'|]. split; [exact B'|]. split; [exact (W' HQ)|]. split; [exact I'|exact L'].
      - intros k k' t t' Et Et' Heq.
        destruct (Nat.eq_dec k r) as [->|Hkr]; destruct (Nat.eq_dec k' r) as [->|Hkr'].
        + reflexivity.
        + exfalso. rewrite TenR in Et. injection Et as <-. rewrite AuC, (HdK k' t' Et' Hkr') in Heq. cbn [hd] in Heq.
          pose proof (afin_lt g1 k' (Af1 k' (KF k' t' Et' Hkr'))). lia.
        + exfalso. rewrite TenR in Et'. injection Et' as <-. rewrite AuC, (HdK k t Et Hkr) in Heq. cbn [hd] in Heq.
          pose proof (afin_lt g1 k (Af1 k (KF k t Et Hkr))). lia.
        + rewrite (HdK k t Et Hkr), (HdK k' t' Et' Hkr') in Heq.
          apply (Ai1 k k' (KF k t Et Hkr) (KF k' t' Et' Hkr') Heq). }
    apply (assemble_wf g gf r rn ndf u W TS ST).
    - rewrite R1. exact Hroot.
    - exact Ern.
    - unfold gf. cbn [upd_tensors upd_nodes tensors]. apply NoDup_akeys_aset. rewrite V4. apply NoDup_akeys_aset. exact TdB.
    - exact TsF.
    - apply (dims_ok_same g1 gf D1 DmF). rewrite NwF. apply le_n.
    - rewrite NwF. apply (gr_nw _ _ K8).
    - unfold gf. cbn. apply aget_aset_same.
    - unfold gf. cbn. apply aget_aset_same.
    - unfold ndf. cbn. rewrite PB, PA. cbn. exact Prn.
    - unfold laxes. rewrite Pndf, permute_seq, Lu. change (children ndf) with (children nn'). rewrite CB, HOcV. f_equal.
      apply map_ext_in. intros x Hx. symmetry. apply (FrK x (XI x Hx)).
    - unfold ndf. cbn [reset_permutation perm shape]. unfold node_shape. cbn [reset_permutation perm shape].
      unfold permute. rewrite !map_length, !seq_length. reflexivity.
    - change (shape ndf) with (node_shape (reset_permutation nn')). rewrite Hs. apply map_ext. intros w. symmetry. apply wdim_dims_eq.
      unfold gf. cbn. reflexivity.
    - intros w Hw. rewrite Lu in Hw. rewrite NwF. apply in_app_or in Hw. destruct Hw as [Hw|Hw].
      + apply in_map_iff in Hw. destruct Hw as (x & <- & Hx). apply (fin_ew_lt g1 V0 x (Fin1 x (XI x Hx))).
      + apply (open_wires_lt (focus g1 V0) r rn w W01 Ern). exact Hw.
    - intros k Hk Hkr. apply (FrK k (Cover k Hk Hkr)).
    - intros k Hk Hkr. destruct (FrK k (Cover k Hk Hkr)) as [_ Ek]. rewrite Ek. apply Rng1. apply Cover; assumption.
    - intros k k' Hk Hkr Hk' Hkr' Heq. destruct (FrK k (Cover k Hk Hkr)) as [_ Ek]. destruct (FrK k' (Cover k' Hk' Hkr')) as [_ Ek'].
      rewrite Ek, Ek' in Heq. apply (Inj1 k k'); [apply Cover| apply Cover|exact Heq]; assumption.
  Qed.
End Root2.

End WithQ.

(* ==== part 11: the statements ==== *)
Section Statements.
  Variables (fixed : bool) (bcoff : nat) (tmp : id).
  Notation bc := (bcid bcoff).
  Notation rid := RTree.rid.

  (* well-formedness needs no hypothesis on the atom table: Q := False *)
  Theorem root_update_wf t cs :
    wfb (fst cs) = true -> bc_fresh bcoff (nodes (fst cs)) -> aget tmp (nodes (fst cs)) = None ->
    root (fst cs) = Some (rid t) -> snd cs = Some (rid t) ->
    tree_of (nodes (fst cs)) t -> NoDup (ids t) -> leaves_ok (view_of (fst cs)) ->
    exists cs', root_update fixed bcoff tmp t cs = Some cs' /\ wf (fst cs').
  Proof.
    intros Wb F Htmp Hroot Hoc Htr Hnd Lv.
    destruct (root_update_wfq False fixed bcoff tmp t cs Wb F Htmp Hroot Hoc Htr Hnd Lv (fun q => match q with end)) as (cs' & E & W & _).
    exists cs'. auto.
  Qed.

  (* the store returned by an accepted step is well-formed *)
  Theorem root_update_wfb t cs cs' :
    wfb (fst cs) = true -> bc_fresh bcoff (nodes (fst cs)) -> aget tmp (nodes (fst cs)) = None ->
    root (fst cs) = Some (rid t) -> snd cs = Some (rid t) ->
    tree_of (nodes (fst cs)) t -> NoDup (ids t) -> leaves_ok (view_of (fst cs)) ->
    root_update fixed bcoff tmp t cs = Some cs' -> wfb (fst cs') = true.
  Proof.
    intros Wb F Htmp Hroot Hoc Htr Hnd Lv E.
    destruct (root_update_wf t cs Wb F Htmp Hroot Hoc Htr Hnd Lv) as (cs2 & E2 & W2).
    rewrite E in E2. injection E2 as <-. apply wf_wfb. exact W2.
  Qed.

  (* the extended invariant of C02 (atom table closed, atoms unique, nothing summed inside a tensor) is preserved *)
  Theorem root_update_wfsb t cs cs' :
    InvSem.wfsb (fst cs) = true -> bc_fresh bcoff (nodes (fst cs)) -> aget tmp (nodes (fst cs)) = None ->
    root (fst cs) = Some (rid t) -> snd cs = Some (rid t) ->
    tree_of (nodes (fst cs)) t -> NoDup (ids t) -> leaves_ok (view_of (fst cs)) ->
    root_update fixed bcoff tmp t cs = Some cs' -> InvSem.wfsb (fst cs') = true.
  Proof.
    intros Ws F Htmp Hroot Hoc Htr Hnd Lv E.
    pose proof (InvSemProofs.wfsb_wfs _ Ws) as WS. pose proof (InvSemProofs.wfsb_wfb _ Ws) as Wb.
    destruct (root_update_wfq True fixed bcoff tmp t cs Wb F Htmp Hroot Hoc Htr Hnd Lv (fun _ => InvSem.ws_atab_lt _ WS)) as (cs2 & E2 & W2 & A2).
    rewrite E in E2. injection E2 as <-. apply InvSemProofs.wfs_wfsb. apply (assemble_wfs _ W2 (A2 I)).
  Qed.

  (* acceptance, well-formedness and the effect theorems together *)
  Theorem root_update_total_wf t cs :
    wfb (fst cs) = true -> bc_fresh bcoff (nodes (fst cs)) -> aget tmp (nodes (fst cs)) = None ->
    root (fst cs) = Some (rid t) -> snd cs = Some (rid t) ->
    tree_of (nodes (fst cs)) t -> NoDup (ids t) -> leaves_ok (view_of (fst cs)) ->
    exists cs', root_update fixed bcoff tmp t cs = Some cs' /\
      wfb (fst cs') = true /\
      same_tree (nodes (fst cs)) (nodes (fst cs')) /\ tstruct (nodes (fst cs')) /\
      (forall k, In k (akeys (nodes (fst cs))) -> aget (bc k) (nodes (fst cs')) = None) /\
      aget tmp (nodes (fst cs')) = None /\
      root (fst cs') = root (fst cs) /\ snd cs' = Some (rid t) /\
      iso_check cs' = true /\ grows (fst cs) (fst cs').
  Proof.
    intros Wb F Htmp Hroot Hoc Htr Hnd Lv.
    destruct (root_update_total fixed bcoff tmp t cs Wb F Htmp Hroot Hoc Htr Hnd Lv) as (cs' & E & Rest).
    exists cs'. split; [exact E|]. split; [|exact Rest].
    apply (root_update_wfb t cs cs' Wb F Htmp Hroot Hoc Htr Hnd Lv E).
  Qed.

  (* the same for stores that satisfy the extended invariant *)
  Theorem root_update_total_wfs t cs :
    InvSem.wfsb (fst cs) = true -> bc_fresh bcoff (nodes (fst cs)) -> aget tmp (nodes (fst cs)) = None ->
    root (fst cs) = Some (rid t) -> snd cs = Some (rid t) ->
    tree_of (nodes (fst cs)) t -> NoDup (ids t) -> leaves_ok (view_of (fst cs)) ->
    exists cs', root_update fixed bcoff tmp t cs = Some cs' /\
      InvSem.wfsb (fst cs') = true /\
      same_tree (nodes (fst cs)) (nodes (fst cs')) /\ tstruct (nodes (fst cs')) /\
      (forall k, In k (akeys (nodes (fst cs))) -> aget (bc k) (nodes (fst cs')) = None) /\
      aget tmp (nodes (fst cs')) = None /\
      root (fst cs') = root (fst cs) /\ snd cs' = Some (rid t) /\
      iso_check cs' = true /\ grows (fst cs) (fst cs').
  Proof.
    intros Ws F Htmp Hroot Hoc Htr Hnd Lv. pose proof (InvSemProofs.wfsb_wfb _ Ws) as Wb.
    destruct (root_update_total fixed bcoff tmp t cs Wb F Htmp Hroot Hoc Htr Hnd Lv) as (cs' & E & Rest).
    exists cs'. split; [exact E|]. split; [|exact Rest].
    apply (root_update_wfsb t cs cs' Ws F Htmp Hroot Hoc Htr Hnd Lv E).
  Qed.
End Statements.

(* with the executable checker of the hypotheses *)
Theorem root_update_total_wf_checked fixed bcoff tmp t cs : bug_hypb bcoff tmp t cs = true ->
  exists cs', root_update fixed bcoff tmp t cs = Some cs' /\ wfb (fst cs') = true /\
    same_tree (nodes (fst cs)) (nodes (fst cs')) /\ iso_check cs' = true /\ snd cs' = Some (RTree.rid t).
Proof.
  intros H. destruct (bug_hypb_sound _ _ _ _ H) as (H1 & H2 & H3 & H4 & H5 & H6 & H7 & H8).
  destruct (root_update_total_wf fixed bcoff tmp t cs H1 H2 H3 H4 H5 H6 H7 H8) as (cs' & E & Wf & ST & _ & _ & _ & _ & C & I & _).
  exists cs'. auto.
Qed.

Theorem root_update_total_wfs_checked fixed bcoff tmp t cs : InvSem.wfsb (fst cs) = true -> bug_hypb bcoff tmp t cs = true ->
  exists cs', root_update fixed bcoff tmp t cs = Some cs' /\ InvSem.wfsb (fst cs') = true /\
    same_tree (nodes (fst cs)) (nodes (fst cs')) /\ iso_check cs' = true /\ snd cs' = Some (RTree.rid t).
Proof.
  intros Ws H. destruct (bug_hypb_sound _ _ _ _ H) as (H1 & H2 & H3 & H4 & H5 & H6 & H7 & H8).
  destruct (root_update_total_wfs fixed bcoff tmp t cs Ws H2 H3 H4 H5 H6 H7 H8) as (cs' & E & Wf & ST & _ & _ & _ & _ & C & I & _).
  exists cs'. auto.
Qed.
