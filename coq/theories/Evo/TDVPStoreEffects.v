(* Store-level effects of the operations of a one-site TDVP sweep (Evo/TDVPStore.v) on the Layer-W store:
   site_update / acc keep the invariant, the tree and the isometry attribute; move_center keeps all of them and
   arrives; the link update (split_node_qr, cache read, link evolution, contract_nodes(link, next)) moves the
   centre along an edge like one canonicalisation step but with ITS OWN child order (weffect).
   Second half: the operations SUCCEED on a well-formed store (split_nodes with the QR leg specifications toward a
   neighbour, contract_nodes of two adjacent nodes, hence qr_to_neighbour, the link update and move_center).
   Third part: tensor shapes - a centre move in KEEP mode registers one fresh wire whose dimension is that of the wire
   it replaces, every other leg keeps its wire (dims_kept).
   Proofs only.  The run-level theorems are in Evo/TDVPStoreProofs.v. *)
From Coq Require Import List Arith Bool Lia Permutation ZArith.
From PTN Require Import TTN.Store TTN.StoreProofs TTN.Canon TTN.CanonProofs TTN.Inv TTN.InvProofs TTN.InvNode TTN.InvBuild
  TTN.InvContract TTN.InvSplit TTN.InvEdit TTN.CanonTree TTN.CanonMore TTN.CanonStep TTN.CanonDist TTN.CanonPath TTN.CanonIso.
From PTN Require Import Evo.TDVPStore.
Import ListNotations.

(* ==== effects, part 1 ==== *)
Ltac nlia := unfold id, wire in *; lia.

(* ---- weak step effect: what one move of the centre along an edge does, children up to order ------------ *)
Record weffect (s : store) (n nb : id) (s' : store) (nd : node) : Prop := {
  we_node : exists nd' t' leg df,
      aget n (nodes s') = Some nd' /\ aget n (tensors s') = Some t' /\ atoms t' = [kq df] /\
      In df (defs s') /\ kkind df = 0 /\ neighbour_index nd' nb = Some leg /\
      nth (nth leg (perm nd') 0) (axes t') 0 = kbond df /\
      parent nd' = parent nd /\ Permutation (children nd') (children nd) /\ kbond df = next_wire s;
  we_defs : incl (defs s) (defs s');
  we_other_n : forall k, k <> n -> k <> nb -> aget k (nodes s') = aget k (nodes s);
  we_other_t : forall k, k <> n -> k <> nb -> In k (akeys (nodes s)) -> aget k (tensors s') = aget k (tensors s);
  we_nb : exists nbn nbn', aget nb (nodes s) = Some nbn /\ aget nb (nodes s') = Some nbn' /\
      parent nbn' = parent nbn /\ Permutation (children nbn') (children nbn);
  we_keys : NoDup (akeys (nodes s')) /\ length (nodes s') = length (nodes s)
}.

Lemma weffect_same_tree s n nb s' nd :
  tstruct (nodes s) -> aget n (nodes s) = Some nd -> n <> nb -> weffect s n nb s' nd ->
  same_tree (nodes s) (nodes s') /\ tstruct (nodes s').
Proof.
  intros T E0 Hne W.
  assert (S : same_tree (nodes s) (nodes s')).
  { split; [symmetry; apply (proj2 (we_keys _ _ _ _ _ W))|].
    intros k. destruct (Nat.eq_dec k n) as [->|Hkn].
    - destruct (we_node _ _ _ _ _ W) as (nd' & t' & leg & df & En' & _ & _ & _ & _ & _ & _ & Hp & Hc & _).
      rewrite E0, En'. split; [symmetry; exact Hp|symmetry; exact Hc].
    - destruct (Nat.eq_dec k nb) as [->|Hkb].
      + destruct (we_nb _ _ _ _ _ W) as (nbn & nbn' & Eb & Eb' & Hp & Hc).
        rewrite Eb, Eb'. split; [symmetry; exact Hp|symmetry; exact Hc].
      + rewrite (we_other_n _ _ _ _ _ W k Hkn Hkb). destruct (aget k (nodes s)); auto. }
  split; [exact S|]. apply (tstruct_same_tree _ _ T S). apply (proj1 (we_keys _ _ _ _ _ W)).
Qed.

Lemma good_preserved_w d s s' n nb nd k :
  weffect s n nb s' nd -> good d s k -> k <> n -> k <> nb -> good d s' k.
Proof.
  intros W (ndk & t & a & leg & x & df & G1 & G2 & G3 & G4 & G5 & G6 & G7 & G8) Hkn Hkb.
  exists ndk, t, a, leg, x, df. rewrite (we_other_n _ _ _ _ _ W k Hkn Hkb).
  rewrite (we_other_t _ _ _ _ _ W k Hkn Hkb (aget_Some_keys _ _ _ G1)).
  repeat split; try tauto. apply (we_defs _ _ _ _ _ W). tauto.
Qed.

Lemma good_new_w d s s' n nb nd :
  weffect s n nb s' nd -> S (dget d nb) = dget d n -> good d s' n.
Proof.
  intros W Hd. destruct (we_node _ _ _ _ _ W) as (nd' & t' & leg & df & E1 & E2 & E3 & E4 & E5 & E6 & E7 & _).
  exists nd', t', (kq df), leg, nb, df. repeat split; auto.
  eapply neighbour_index_In; eauto.
Qed.

(* the centre moves from a to its neighbour b: the isometry attribute moves along *)
Lemma weffect_iso s a b s' na :
  tstruct (nodes s) -> aget a (nodes s) = Some na -> In b (neighbouring_nodes na) ->
  iso_check (s, Some a) = true -> weffect s a b s' na ->
  iso_check (s', Some b) = true /\ tstruct (nodes s') /\ same_tree (nodes s) (nodes s').
Proof.
  intros T Ea Hin Hiso W.
  destruct (ts_neighbour_sym _ _ _ _ T Ea Hin) as (nbn & Eb & Hba & Hne).
  destruct (weffect_same_tree _ _ _ _ _ T Ea (not_eq_sym Hne) W) as [S1 T1].
  assert (Ha : amem a (nodes s) = true) by (apply amem_aget; eauto).
  assert (Hb : amem b (nodes s) = true) by (apply amem_aget; eauto).
  split; [|auto]. apply (good_iso s s' b T Hb T1 S1). intros k Hk Hkb.
  destruct (Nat.eq_dec k a) as [->|Hka].
  - apply (good_new_w _ s s' a b na W).
    rewrite (dist_centre s b Hb), (dist_centre_nbrs s b nbn a T Eb Hba). reflexivity.
  - apply (same_tree_keys _ _ k S1) in Hk.
    apply (good_preserved_w _ s s' a b na k W); [|exact Hka|exact Hkb].
    apply (good_change_d (distance_to_node s a)); [apply iso_good; assumption|].
    intros nk nb Ek Hnb Hd.
    apply (dist_move s a b na k nk nb T Ea Hin Ek Hka Hkb Hnb Hd).
Qed.

(* replacing the centre's tensor (any change confined to the centre that keeps parent and children) *)
Lemma centre_change_iso s s' c :
  tstruct (nodes s) -> amem c (nodes s) = true -> iso_check (s, Some c) = true ->
  NoDup (akeys (nodes s')) -> same_tree (nodes s) (nodes s') ->
  (forall k, k <> c -> aget k (nodes s') = aget k (nodes s)) ->
  (forall k, k <> c -> In k (akeys (nodes s)) -> aget k (tensors s') = aget k (tensors s)) ->
  incl (defs s) (defs s') ->
  iso_check (s', Some c) = true /\ tstruct (nodes s').
Proof.
  intros T Hc Hiso Hnd S Hn Ht Hd.
  assert (T' : tstruct (nodes s')) by (apply (tstruct_same_tree _ _ T S Hnd)).
  split; [|exact T']. apply (good_iso s s' c T Hc T' S). intros k Hk Hkc.
  apply (same_tree_keys _ _ k S) in Hk.
  destruct (iso_good s c T Hc Hiso k Hk Hkc) as (ndk & t & a & leg & x & df & G1 & G2 & G3 & G4 & G5 & G6 & G7 & G8).
  exists ndk, t, a, leg, x, df. rewrite (Hn k Hkc), (Ht k Hkc Hk). repeat split; try tauto. apply Hd. tauto.
Qed.

(* ==== effects, part 2 ==== *)
(* the invariant does not look at atoms, the atom table, the kernel log or the atom counter *)
Lemma wfb_fields s s' :
  nodes s' = nodes s -> tensors s' = tensors s -> root s' = root s -> dims s' = dims s -> next_wire s' = next_wire s ->
  wfb s' = wfb s.
Proof. destruct s, s'; cbn; intros; subst; reflexivity. Qed.

Lemma acc_inv s n s' : acc s n = Some s' -> exists nd t, access s n = Some (s', nd, t).
Proof. unfold acc. destruct (access s n) as [[[s1 nd] t]|]; [|discriminate]. intros [= <-]. eauto. Qed.

Lemma acc_wf s n s' : wf s -> acc s n = Some s' -> wf s'.
Proof. intros W H. destruct (acc_inv _ _ _ H) as (nd & t & Ha). eapply access_preserves_wf; eauto. Qed.

(* everything an access changes *)
Lemma acc_facts s n s' : acc s n = Some s' ->
  exists nd t, aget n (nodes s) = Some nd /\ aget n (tensors s) = Some t /\
    aget n (nodes s') = Some (reset_permutation nd) /\ aget n (tensors s') = Some (s_transpose (perm nd) t) /\
    (forall k, k <> n -> aget k (nodes s') = aget k (nodes s) /\ aget k (tensors s') = aget k (tensors s)) /\
    akeys (nodes s') = akeys (nodes s) /\ length (nodes s') = length (nodes s) /\
    root s' = root s /\ dims s' = dims s /\ next_wire s' = next_wire s /\ defs s' = defs s /\ next_atom s' = next_atom s.
Proof.
  intros H. destruct (acc_inv _ _ _ H) as (nd' & t' & Ha).
  destruct (access_result _ _ _ _ _ Ha) as (R1 & R2 & _ & R4 & R5 & R6 & R7 & R8 & _).
  destruct (access_inv _ _ _ _ _ Ha) as (nd & t & En & Et & -> & -> & Hs).
  exists nd, t. repeat split; auto; try (rewrite Hs; reflexivity).
  - apply (R4 k H0).
  - apply (R4 k H0).
  - rewrite <- !length_akeys, R8. reflexivity.
Qed.

Lemma set_fresh_facts s n s' : set_fresh s n = Some s' ->
  exists t, aget n (tensors s) = Some t /\
    nodes s' = nodes s /\ tensors s' = aset n {| axes := axes t; atoms := [next_atom s]; bnd := [] |} (tensors s) /\
    root s' = root s /\ dims s' = dims s /\ next_wire s' = next_wire s /\ defs s' = defs s /\
    next_atom s' = S (next_atom s).
Proof.
  unfold set_fresh. destruct (aget n (tensors s)) as [t|]; [|discriminate]. cbn. intros [= <-]. exists t. cbn. repeat split.
Qed.

Lemma set_fresh_wf s n s' : wf s -> set_fresh s n = Some s' -> wf s'.
Proof.
  intros W H. destruct (set_fresh_facts _ _ _ H) as (t & Et & Hn & Ht & Hr & Hd & Hw & _).
  assert (In n (akeys (nodes s))).
  { apply amem_true. apply (wf_tn _ W). apply amem_aget. eauto. }
  apply keys_aget in H0. destruct H0 as [nd En].
  set (t' := {| axes := axes t; atoms := [next_atom s]; bnd := [] |}) in *.
  pose proof (wf_node s W n nd En) as Hni.
  assert (X : wf (upd_tensors (upd_nodes s (aset n nd)) (aset n t'))).
  { apply (wf_update_node s n nd t nd t' W En Et); auto.
    - apply (ni_perm _ _ _ Hni).
    - rewrite (ni_shape _ _ _ Hni), (tens_aget _ _ _ Et). reflexivity.
    - intros x Hx. exact Hx. }
  apply wfb_wf. rewrite (wfb_fields (upd_tensors (upd_nodes s (aset n nd)) (aset n t')) s').
  - apply wf_wfb. exact X.
  - rewrite Hn. cbn. symmetry. apply aset_same_id. exact En.
  - rewrite Ht. reflexivity.
  - rewrite Hr. reflexivity.
  - rewrite Hd. reflexivity.
  - rewrite Hw. reflexivity.
Qed.

Lemma site_update_wf s n s' : wf s -> site_update s n = Some s' -> wf s'.
Proof.
  unfold site_update. intros W H. destruct (acc s n) as [s1|] eqn:E; [|discriminate].
  eapply set_fresh_wf; [|exact H]. eapply acc_wf; eauto.
Qed.

(* site_update is the `scramble` of TTN/Canon.v: read (transpose, reset the permutation), then replace the raw array *)
Lemma aset_aset {V} k (v w : V) l : aset k v (aset k w l) = aset k v l.
Proof.
  induction l as [|[k' x] l IH]; cbn; [rewrite Nat.eqb_refl; reflexivity|].
  destruct (Nat.eqb k k') eqn:E; cbn; rewrite ?Nat.eqb_refl, ?E; [reflexivity|]. f_equal. exact IH.
Qed.

Lemma site_update_scramble s n : site_update s n = scramble s n.
Proof.
  unfold site_update, scramble, acc, access, logical, set_fresh.
  destruct (aget n (nodes s)) as [nd|]; [|reflexivity]. destruct (aget n (tensors s)) as [t|]; [|reflexivity].
  cbn [tensors upd_tensors upd_nodes]. rewrite aget_aset_same. cbn. unfold upd_tensors, upd_nodes. cbn.
  rewrite aset_aset. reflexivity.
Qed.

Lemma site_update_facts s n s' : site_update s n = Some s' ->
  exists nd t, aget n (nodes s) = Some nd /\ aget n (tensors s) = Some t /\
    aget n (nodes s') = Some (reset_permutation nd) /\
    aget n (tensors s') = Some {| axes := permute 0 (perm nd) (axes t); atoms := [next_atom s]; bnd := [] |} /\
    (forall k, k <> n -> aget k (nodes s') = aget k (nodes s) /\ aget k (tensors s') = aget k (tensors s)) /\
    akeys (nodes s') = akeys (nodes s) /\ length (nodes s') = length (nodes s) /\
    root s' = root s /\ dims s' = dims s /\ next_wire s' = next_wire s /\ defs s' = defs s.
Proof.
  unfold site_update. intros H. destruct (acc s n) as [s1|] eqn:E; [|discriminate].
  destruct (acc_facts _ _ _ E) as (nd & t & En & Et & En1 & Et1 & Ho & Hk & Hl & Hr & Hd & Hw & Hdf & Hna).
  destruct (set_fresh_facts _ _ _ H) as (t1 & Et1' & Hn' & Ht' & Hr' & Hd' & Hw' & Hdf' & _).
  rewrite Et1 in Et1'. injection Et1' as <-.
  exists nd, t. rewrite Hn', Ht', Hr', Hd', Hw', Hdf', Hna. repeat split; auto.
  - apply aget_aset_same.
  - apply (Ho k H0).
  - rewrite aget_aset_other by exact H0. apply (Ho k H0).
Qed.

(* ==== effects, part 3 ==== *)
Lemma neighbour_index_bound n x i : neighbour_index n x = Some i -> i < nvirt n.
Proof.
  destruct (option_eq_dec_id (parent n) (Some x)) as [E|E].
  - unfold neighbour_index. rewrite E, Nat.eqb_refl. intros [= <-]. unfold nvirt, nparents. rewrite E. lia.
  - intros H. destruct (neighbour_index_lt n x i E H) as [[_ H1] _]. exact H1.
Qed.

Lemma nth_permute leg p (l : list nat) : leg < length p -> nth leg (permute 0 p l) 0 = nth (nth leg p 0) l 0.
Proof.
  intros H. unfold permute. rewrite (nth_indep _ 0 (nth 0 l 0)) by (rewrite map_length; exact H).
  apply (map_nth (fun i => nth i l 0)).
Qed.

Lemma reset_permutation_struct nd : parent (reset_permutation nd) = parent nd /\ children (reset_permutation nd) = children nd.
Proof. split; reflexivity. Qed.

(* a store that differs from s only in the records of n (same parent and children): same tree *)
Lemma same_tree_point l l' n nd nd' :
  aget n l = Some nd -> aget n l' = Some nd' -> parent nd' = parent nd -> children nd' = children nd ->
  (forall k, k <> n -> aget k l' = aget k l) -> length l' = length l -> same_tree l l'.
Proof.
  intros E E' Hp Hc Ho Hl. split; [symmetry; exact Hl|]. intros k. destruct (Nat.eq_dec k n) as [->|Hk].
  - rewrite E, E'. rewrite Hp, Hc. auto.
  - rewrite (Ho k Hk). destruct (aget k l); auto.
Qed.

(* reading a tensor keeps the `good` attribute of every node *)
Lemma good_acc d s s' n k : wf s -> acc s n = Some s' -> good d s k -> good d s' k.
Proof.
  intros W H (ndk & t & a & leg & x & df & G1 & G2 & G3 & G4 & G5 & G6 & G7 & G8 & G9 & G10).
  destruct (acc_facts _ _ _ H) as (nd & t0 & En & Et & En1 & Et1 & Ho & _ & _ & _ & _ & _ & Hdf & _).
  destruct (Nat.eq_dec k n) as [->|Hk].
  - rewrite En in G1. injection G1 as <-. rewrite Et in G2. injection G2 as <-.
    exists (reset_permutation nd), (s_transpose (perm nd) t0), a, leg, x, df.
    rewrite Hdf. repeat split; auto.
    cbn [reset_permutation perm s_transpose axes].
    assert (Hleg : leg < length (perm nd)).
    { pose proof (neighbour_index_bound _ _ _ G6). pose proof (ni_virt _ _ _ (wf_node s W n nd En)). unfold nlegs in *. lia. }
    rewrite seq_nth by exact Hleg. cbn. rewrite nth_permute by exact Hleg. exact G10.
  - exists ndk, t, a, leg, x, df. destruct (Ho k Hk) as [-> ->]. rewrite Hdf. repeat split; auto.
Qed.

Lemma acc_same_tree s n s' : acc s n = Some s' -> same_tree (nodes s) (nodes s') /\ akeys (nodes s') = akeys (nodes s).
Proof.
  intros H. destruct (acc_facts _ _ _ H) as (nd & t0 & En & Et & En1 & Et1 & Ho & Hk & Hl & _).
  split; [|exact Hk]. apply (same_tree_point _ _ n nd (reset_permutation nd)); auto.
  intros k Hk'. apply (Ho k Hk').
Qed.

Lemma acc_iso s c n s' : wf s -> amem c (nodes s) = true -> iso_check (s, Some c) = true -> acc s n = Some s' ->
  iso_check (s', Some c) = true.
Proof.
  intros W Hc Hiso H. pose proof (wf_tstruct s W) as T.
  destruct (acc_same_tree _ _ _ H) as [S K].
  assert (T' : tstruct (nodes s')) by (apply (tstruct_same_tree _ _ T S); rewrite K; apply (ts_nd _ T)).
  apply (good_iso s s' c T Hc T' S). intros k Hk Hkc. rewrite K in Hk.
  apply (good_acc _ s s' n k W H). apply iso_good; assumption.
Qed.

Lemma site_update_same_tree s n s' : site_update s n = Some s' ->
  same_tree (nodes s) (nodes s') /\ akeys (nodes s') = akeys (nodes s).
Proof.
  intros H. destruct (site_update_facts _ _ _ H) as (nd & t0 & En & Et & En1 & Et1 & Ho & Hk & Hl & _).
  split; [|exact Hk]. apply (same_tree_point _ _ n nd (reset_permutation nd)); auto.
  intros k Hk'. apply (Ho k Hk').
Qed.

(* the evolved site tensor sits at the centre: the attribute of the other nodes is untouched *)
Lemma site_update_iso s c s' : wf s -> amem c (nodes s) = true -> iso_check (s, Some c) = true ->
  site_update s c = Some s' -> iso_check (s', Some c) = true.
Proof.
  intros W Hc Hiso H. pose proof (wf_tstruct s W) as T.
  destruct (site_update_same_tree _ _ _ H) as [S K].
  destruct (site_update_facts _ _ _ H) as (nd & t0 & En & Et & En1 & Et1 & Ho & _ & _ & _ & _ & _ & Hdf).
  apply (centre_change_iso s s' c T Hc Hiso); auto.
  - rewrite K. apply (ts_nd _ T).
  - intros k Hk. apply (Ho k Hk).
  - intros k Hk _. apply (Ho k Hk).
  - rewrite Hdf. intros x Hx. exact Hx.
Qed.

(* the root is determined by the tree *)
Lemma same_tree_root s s' : wf s -> wf s' -> same_tree (nodes s) (nodes s') -> root s' = root s.
Proof.
  intros W W' S. destruct (wf_root _ W) as (r & rn & Er & En & Hp & _).
  destruct (wf_root _ W') as (r' & rn' & Er' & En' & Hp' & Hu').
  rewrite Er, Er'. f_equal.
  destruct (same_tree_some _ _ _ _ S En) as (rn2 & E2 & P2 & _). symmetry. apply (Hu' r rn2 E2). congruence.
Qed.

(* ==== effects, part 4 ==== *)
Lemma In_remove_first_in x y l : In x (remove_first y l) -> In x l.
Proof.
  induction l as [|z t IH]; cbn; [auto|]. destruct (Nat.eqb y z); [auto|]. intros [->|H]; auto.
Qed.

(* the leg specifications of _build_qr_leg_specs describe the node truthfully when nb is a neighbour *)
Lemma build_qr_specs_ok nd nb : In nb (neighbouring_nodes nd) ->
  leg_ok nd (fst (build_qr_leg_specs nd nb)) /\ leg_ok nd (snd (build_qr_leg_specs nd nb)).
Proof.
  intros Hin. unfold build_qr_leg_specs.
  destruct (match parent nd with Some p => Nat.eqb p nb | None => false end) eqn:Hco; cbn [fst snd]; unfold leg_ok; cbn.
  - destruct (parent nd) as [p|] eqn:Hp; [|discriminate]. apply Nat.eqb_eq in Hco. subst p. repeat split; try discriminate; auto.
    + unfold is_root. rewrite Hp. discriminate.
    + intros x Hx. exact Hx.
    + intros l Hl. apply in_seq in Hl. lia.
    + intros x [].
    + intros l [].
  - repeat split; try discriminate; auto.
    + apply is_root_spec.
    + intros x Hx. eapply In_remove_first_in; eauto.
    + intros l Hl. apply in_seq in Hl. lia.
    + intros x [<-|[]]. apply in_neighbouring in Hin. destruct Hin as [Hp|Hc]; [|exact Hc].
      rewrite Hp, Nat.eqb_refl in Hco. discriminate.
    + intros l [].
Qed.

Lemma aget_None_notin {V} k (l : list (nat * V)) : aget k l = None -> ~ In k (akeys l).
Proof. apply aget_None. Qed.

Lemma split_site_wf s a b lid s1 nd :
  wf s -> aget a (nodes s) = Some nd -> In b (neighbouring_nodes nd) -> aget lid (nodes s) = None ->
  split_site s a b lid = Some s1 -> wf s1.
Proof.
  intros W Ea Hin Hl H. unfold split_site in H. rewrite Ea in H.
  destruct (build_qr_leg_specs nd b) as [q r] eqn:Eqr.
  pose proof (build_qr_specs_ok nd b Hin) as [Hq Hr]. rewrite Eqr in Hq, Hr. cbn [fst snd] in Hq, Hr.
  apply (split_preserves_wf s a q r a lid 0 Keep 0 s1 W H).
  - intros nd' E'. rewrite Ea in E'. injection E' as <-. auto.
  - split; [left; reflexivity|right; apply aget_None; exact Hl].
Qed.

Lemma qr_to_neighbour_wf s n nb m tmp s' :
  wf s -> aget tmp (nodes s) = None -> qr_to_neighbour s n nb m tmp = Some s' -> wf s'.
Proof.
  intros W Ht H. unfold qr_to_neighbour in H. destruct (aget n (nodes s)) as [nd|] eqn:En; [|discriminate].
  assert (Hin : In nb (neighbouring_nodes nd)).
  { apply (qr_step_neighbour s n nb m tmp s' nd En). unfold qr_to_neighbour. rewrite En. exact H. }
  destruct (build_qr_leg_specs nd nb) as [q r] eqn:Eqr.
  destruct (split_nodes s n q r n tmp 0 m 0) as [s1|] eqn:Es; [|discriminate].
  pose proof (build_qr_specs_ok nd nb Hin) as [Hq Hr]. rewrite Eqr in Hq, Hr. cbn [fst snd] in Hq, Hr.
  assert (W1 : wf s1).
  { apply (split_preserves_wf s n q r n tmp 0 m 0 s1 W Es).
    - intros nd' E'. rewrite En in E'. injection E' as <-. auto.
    - split; [left; reflexivity|right; apply aget_None; exact Ht]. }
  apply (contract_preserves_wf s1 nb tmp nb s' W1 H). left. reflexivity.
Qed.

Lemma move_fold_all m tmp : forall l s cur cs',
  wf s -> aget tmp (nodes s) = None -> iso_check (s, Some cur) = true ->
  fold_left (move_step m tmp) l (Some (s, Some cur)) = Some cs' ->
  wf (fst cs') /\ iso_check cs' = true /\ same_tree (nodes s) (nodes (fst cs')) /\ aget tmp (nodes (fst cs')) = None.
Proof.
  induction l as [|nb t IH]; intros s cur cs' W Hrid Hiso H; cbn [fold_left] in H.
  - injection H as <-. cbn [fst]. split; [exact W|]. split; [exact Hiso|]. split; [apply same_tree_refl|exact Hrid].
  - cbn [move_step] in H. destruct (qr_to_neighbour s cur nb m tmp) as [s2|] eqn:E; [|rewrite move_fold_none in H; discriminate].
    destruct (move_step_iso _ _ _ _ _ _ (wf_tstruct s W) Hrid Hiso E) as (I2 & T2 & R2 & S2).
    pose proof (qr_to_neighbour_wf _ _ _ _ _ _ W Hrid E) as W2.
    destruct (IH s2 nb cs' W2 R2 I2 H) as (W3 & I3 & S3 & R3).
    split; [exact W3|]. split; [exact I3|]. split; [exact (same_tree_trans _ _ _ S2 S3)|exact R3].
Qed.

(* move_orthogonalization_center: every invariant of the sweep survives, and the centre arrives *)
Lemma move_center_all s c0 c m tmp cs' :
  wf s -> aget tmp (nodes s) = None -> iso_check (s, Some c0) = true ->
  amem c0 (nodes s) = true -> amem c (nodes s) = true ->
  move_center (s, Some c0) c m tmp = Some cs' ->
  wf (fst cs') /\ iso_check cs' = true /\ same_tree (nodes s) (nodes (fst cs')) /\ aget tmp (nodes (fst cs')) = None /\
  snd cs' = Some c.
Proof.
  intros W Hrid Hiso Hc0 Hc H.
  assert (Hsnd : snd cs' = Some c).
  { apply (move_center_reaches (s, Some c0) c0 c m tmp cs'); auto. apply (wf_tstruct s W). }
  unfold move_center in H. cbn [fst snd] in H. destruct (Nat.eqb c0 c).
  - injection H as <-. cbn [fst]. split; [exact W|]. split; [exact Hiso|]. split; [apply same_tree_refl|]. split; [exact Hrid|exact Hsnd].
  - destruct (move_fold_all m tmp _ s c0 cs' W Hrid Hiso H) as (A & B & C & D). auto.
Qed.

(* ==== effects, part 5 ==== *)
Lemma node_eq n n' : parent n = parent n' -> children n = children n' -> perm n = perm n' -> shape n = shape n' -> n = n'.
Proof. destruct n, n'; cbn; intros; subst; reflexivity. Qed.

(* contract_nodes, everything spelled out relative to the store BEFORE the call *)
Lemma contract_explicit s x y new s' :
  wf s -> contract_nodes s x y new = Some s' -> (new = x \/ new = y \/ ~ In new (akeys (nodes s))) ->
  exists p c pn0 cn0 nn,
    ((p = x /\ c = y) \/ (p = y /\ c = x)) /\ p <> c /\
    aget p (nodes s) = Some pn0 /\ aget c (nodes s) = Some cn0 /\ parent cn0 = Some p /\
    aget new (nodes s') = Some nn /\ parent nn = parent pn0 /\
    children nn = (if Nat.eqb p x then remove_first c (children pn0) ++ children cn0
                   else children cn0 ++ remove_first c (children pn0)) /\
    NoDup (akeys (nodes s')) /\
    (p <> new -> aget p (nodes s') = None) /\ (c <> new -> aget c (nodes s') = None) /\
    (forall k, k <> p -> k <> c -> k <> new ->
       aget k (nodes s') = option_map (rt p c new (children pn0) (children cn0) (parent pn0) k) (aget k (nodes s))) /\
    (forall k, k <> p -> k <> c -> k <> new -> aget k (tensors s') = aget k (tensors s)) /\
    root s' = (match parent pn0 with None => Some new | Some _ => root s end) /\
    defs s' = defs s /\ dims s' = dims s /\ next_wire s' = next_wire s.
Proof.
  intros W H Hnew. unfold contract_nodes in H.
  destruct (determine_parentage s x y) as [[p c]|] eqn:Edp; [|discriminate].
  destruct (access s p) as [[[s1 pn] pt]|] eqn:A1; [|discriminate].
  destruct (access s1 c) as [[[s2 cn] ct]|] eqn:A2; [|discriminate].
  destruct (neighbour_index pn c) as [ax|] eqn:Eax; [|discriminate].
  destruct (s_tensordot pt ct ax 0) as [nt|] eqn:Etd; [|discriminate].
  destruct (create_contracted_node _ pn cn c (p =? x)) as [nn|] eqn:Enn; [|discriminate].
  match type of H with match ?r with _ => _ end = _ => destruct r as [s4|] eqn:R4; [|discriminate] end.
  destruct (replace_node_in_neighbours s4 new c true) as [s5|] eqn:R5; [|discriminate].
  injection H as <-.
  destruct (determine_parentage_inv s x y p c Edp) as (nx & ny & Ex & Ey & Hcase).
  pose proof (access_preserves_wf s p s1 pn pt W A1) as W1.
  pose proof (access_preserves_wf s1 c s2 cn ct W1 A2) as W2.
  destruct (access_result _ _ _ _ _ A1) as (B1 & B2 & B3 & B4 & B5 & B6 & B7 & B8 & (pn0 & B9 & B10 & B11)).
  destruct (access_result _ _ _ _ _ A2) as (C1 & C2 & C3 & C4 & C5 & C6 & C7 & C8 & (cn0' & C9 & C10 & C11)).
  destruct (access_inv _ _ _ _ _ A1) as (pnx & ptx & _ & _ & _ & _ & Hs1).
  destruct (access_inv _ _ _ _ _ A2) as (cnx & ctx & _ & _ & _ & _ & Hs2).
  assert (Hpcne : p <> c /\ parent cn0' = Some p /\ aget c (nodes s) = Some cn0').
  { destruct Hcase as [(-> & -> & Hp)|(-> & -> & Hp)].
    - assert (x <> y) by (intros ->; apply (wf_not_self_parent s y ny W Ey Hp)).
      destruct (B4 y (not_eq_sym H)) as [B4a _]. rewrite B4a, Ey in C9. injection C9 as <-. auto.
    - assert (y <> x) by (intros ->; apply (wf_not_self_parent s x nx W Ex Hp)).
      destruct (B4 x (not_eq_sym H)) as [B4a _]. rewrite B4a, Ex in C9. injection C9 as <-. auto. }
  destruct Hpcne as (Hpc & Hparc & Ec0).
  destruct (C4 p Hpc) as [C4a C4b].
  assert (Hnew2 : new = p \/ new = c \/ ~ In new (akeys (nodes s2))).
  { rewrite C8, B8. destruct Hcase as [(-> & -> & _)|(-> & -> & _)]; tauto. }
  assert (Hp2 : aget p (nodes s2) = Some pn) by (rewrite C4a; exact B1).
  assert (Hparc2 : parent cn = Some p) by (rewrite C10; exact Hparc).
  destruct (contract_view s2 p c pn cn new nt nn s4 s5 W2 Hp2 C1 Hparc2 Hnew2 R4 R5) as (V1 & V2 & V3 & V4 & V5 & V6 & V7 & V8 & V9).
  destruct (ccn_struct _ _ _ _ _ _ Enn) as [Pnn Cnn].
  exists p, c, pn0, cn0', nn.
  split; [destruct Hcase as [(-> & -> & _)|(-> & -> & _)]; auto|].
  split; [exact Hpc|]. split; [exact B9|]. split; [exact Ec0|]. split; [exact Hparc|].
  split; [exact V2|]. split; [rewrite Pnn; exact B10|].
  split; [rewrite Cnn, B11, C11; reflexivity|].
  split; [exact V1|]. split; [exact V3|]. split; [exact V4|].
  split.
  { intros k K1 K2 K3. rewrite (V5 k K1 K2 K3). rewrite B10, B11, C11.
    destruct (C4 k K2) as [-> _]. destruct (B4 k K1) as [-> _]. reflexivity. }
  split.
  { intros k K1 K2 K3. rewrite V7. rewrite aget_snoc_other by exact K3. rewrite !aget_adel_other by assumption.
    destruct (C4 k K2) as [_ ->]. destruct (B4 k K1) as [_ ->]. reflexivity. }
  split; [rewrite V6, B10, C7, B7; reflexivity|].
  split.
  { assert (D5 : defs (upd_nodes s5 (aset new nn)) = defs s5) by reflexivity. rewrite D5.
    assert (Hrd : forall u nw od dl u', replace_node_in_neighbours u nw od dl = Some u' -> defs u' = defs u).
    { intros u nw od dl u'. unfold replace_node_in_neighbours. destruct (Nat.eqb nw od); [intros [= <-]; reflexivity|].
      destruct (aget od (nodes u)); [|discriminate].
      match goal with |- match ?r with _ => _ end = _ -> _ => destruct r as [[rr ll]|]; [|discriminate] end.
      intros [= <-]. reflexivity. }
    rewrite (Hrd _ _ _ _ _ R5), (Hrd _ _ _ _ _ R4). cbn. rewrite Hs2, Hs1. reflexivity. }
  split; [rewrite V8, C5, B5; reflexivity|rewrite V9, C6, B6; reflexivity].
Qed.

(* ==== effects, part 6 ==== *)
Lemma split_site_parent s a b lid s1 nd0 nbn :
  wf s -> aget a (nodes s) = Some nd0 -> parent nd0 = Some b -> aget b (nodes s) = Some nbn -> aget lid (nodes s) = None ->
  split_site s a b lid = Some s1 ->
  exists na nl tq tr df,
   aget a (nodes s1) = Some na /\ parent na = Some lid /\ children na = children nd0 /\
   aget lid (nodes s1) = Some nl /\ parent nl = Some b /\ children nl = [a] /\
   aget b (nodes s1) = Some (with_children nbn (replace_first a lid (children nbn))) /\
   (forall k, k <> a -> k <> b -> k <> lid -> aget k (nodes s1) = aget k (nodes s)) /\
   aget a (tensors s1) = Some tq /\ atoms tq = [next_atom s] /\ nth 0 (laxes na tq) 0 = next_wire s /\ 1 <= nlegs na /\
   aget lid (tensors s1) = Some tr /\
   (forall k, k <> a -> k <> lid -> aget k (tensors s1) = aget k (tensors s)) /\
   defs s1 = defs s ++ [df] /\ kq df = next_atom s /\ kkind df = 0 /\ kbond df = next_wire s /\
   NoDup (akeys (nodes s1)).
Proof.
  intros W Ea Hp Eb Hl H.
  assert (Hin : In b (neighbouring_nodes nd0)) by (apply in_neighbouring; left; exact Hp).
  assert (Nab : a <> b) by (intros ->; exact (wf_not_self_parent s b nd0 W Ea Hp)).
  assert (Nal : a <> lid) by (intros ->; congruence).
  assert (Nbl : b <> lid) by (intros ->; congruence).
  unfold split_site in H. rewrite Ea in H. unfold build_qr_leg_specs in H. rewrite Hp, Nat.eqb_refl in H.
  set (q := Build_legspec None (children nd0) _ _) in H. set (r := Build_legspec (Some b) [] [] false) in H.
  destruct (split_nodes_inv _ _ _ _ _ _ _ _ _ _ H) as (sa & nd & t & ol & il & on2 & in2 & l2 & bd & Ha & Hbd & I).
  destruct (split_access_facts _ _ _ _ _ W Ha) as (nd0' & t0 & En0 & Et0 & End & Etr & Wa & En & Et & Hid & Hk & Hlax & Ht0).
  rewrite Ea in En0. injection En0 as <-.
  pose proof (build_qr_specs_ok nd0 b Hin) as [Hq Hr]. unfold build_qr_leg_specs in Hq, Hr. rewrite Hp, Nat.eqb_refl in Hq, Hr.
  cbn [fst snd] in Hq, Hr. fold q in Hq. fold r in Hr.
  assert (LO' : leg_ok nd q) by (rewrite End; apply leg_ok_reset; exact Hq).
  assert (LI' : leg_ok nd r) by (rewrite End; apply leg_ok_reset; exact Hr).
  assert (Hids' : ids_ok sa a a lid).
  { split; [left; reflexivity|right]. rewrite Hk. apply aget_None. exact Hl. }
  destruct (split_inv_view _ _ _ _ _ _ _ _ _ _ _ _ _ _ _ _ _ Wa En Et Hid LO' LI' Hids' I) as (cO & cI & Eol & Eil & [[Hab V]|[Hab V]]);
    [|unfold sp_in_above in Hab; cbn in Hab; discriminate].
  destruct (access_result _ _ _ _ _ Ha) as (_ & _ & _ & Ao & _).
  assert (Pnd : parent nd = Some b) by (rewrite End; exact Hp).
  assert (Cnd : children nd = children nd0) by (rewrite End; reflexivity).
  destruct (sp_access_next _ _ _ _ _ Ha) as (Na & Nw & Nd & _).
  exists on2, in2, (sp_ot sa t ol), (sp_it sa t il), (sp_def sa t ol il 0 Keep).
  split; [apply (sv_nL _ _ _ _ _ _ _ _ _ _ _ _ _ _ _ _ V)|].
  split; [apply (sv_nL_par _ _ _ _ _ _ _ _ _ _ _ _ _ _ _ _ V)|].
  split; [rewrite (sv_nL_ch _ _ _ _ _ _ _ _ _ _ _ _ _ _ _ _ V); reflexivity|].
  split; [apply (sv_nU _ _ _ _ _ _ _ _ _ _ _ _ _ _ _ _ V)|].
  split; [rewrite (sv_nU_par _ _ _ _ _ _ _ _ _ _ _ _ _ _ _ _ V); exact Pnd|].
  split; [rewrite (sv_nU_ch _ _ _ _ _ _ _ _ _ _ _ _ _ _ _ _ V); reflexivity|].
  assert (Hold : forall k nk, k <> a -> aget k (nodes s) = Some nk ->
            exists nk', aget k (nodes s1) = Some nk' /\ perm nk' = perm nk /\ shape nk' = shape nk /\ parent nk' = parent nk /\
                        (Some b = Some k -> children nk' = replace_first a lid (children nk)) /\
                        (Some b <> Some k -> children nk' = children nk)).
  { intros k nk Hka Ek. destruct (Ao k Hka) as [Eka _]. rewrite <- Eka in Ek.
    destruct (sv_old _ _ _ _ _ _ _ _ _ _ _ _ _ _ _ _ V k nk Hka Ek) as (nk' & E' & P1 & P2 & P3 & P4 & P5 & P6 & P7).
    exists nk'. split; [exact E'|]. split; [exact P1|]. split; [exact P2|]. rewrite Pnd in P6, P7. split; [|split; [exact P6|exact P7]].
    cbn [r q ls_children] in P3, P4, P5.
    destruct (in_dec Nat.eq_dec k (children nd0)) as [Hc|Hc].
    - rewrite (P4 Hc). rewrite Eka in Ek. destruct (wf_child_parent s a nd0 k W Ea Hc) as (xn & Ex & Hx). unfold id in *. congruence.
    - apply P5; [intros []|exact Hc]. }
  split.
  { destruct (Hold b nbn (not_eq_sym Nab) Eb) as (nk' & E' & P1 & P2 & P3 & P4 & _). rewrite E'. f_equal.
    apply node_eq; cbn; auto. }
  split.
  { intros k Hka Hkb Hkl. destruct (aget k (nodes s)) as [nk|] eqn:Ek.
    - destruct (Hold k nk Hka Ek) as (nk' & E' & P1 & P2 & P3 & _ & P5). rewrite E'. f_equal.
      apply node_eq; auto. apply P5. congruence.
    - destruct (aget k (nodes s1)) as [x|] eqn:E1; [|reflexivity]. exfalso.
      apply aget_Some_keys in E1. destruct (sv_keys _ _ _ _ _ _ _ _ _ _ _ _ _ _ _ _ V k E1) as [K|[K|[_ K]]]; try congruence.
      rewrite Hk in K. apply aget_None in Ek. contradiction. }
  split; [apply (sv_tL _ _ _ _ _ _ _ _ _ _ _ _ _ _ _ _ V)|].
  split; [unfold sp_ot; cbn; f_equal; exact Na|].
  split.
  { rewrite (sv_nL_lax _ _ _ _ _ _ _ _ _ _ _ _ _ _ _ _ V). cbn. exact Nw. }
  split.
  { rewrite <- (laxes_length on2 (sp_ot sa t ol)), (sv_nL_lax _ _ _ _ _ _ _ _ _ _ _ _ _ _ _ _ V). cbn. lia. }
  split; [apply (sv_tU _ _ _ _ _ _ _ _ _ _ _ _ _ _ _ _ V)|].
  split.
  { intros k Hka Hkl. rewrite (sv_told _ _ _ _ _ _ _ _ _ _ _ _ _ _ _ _ V k Hkl Hka). rewrite (eqb_false k a Hka).
    apply (Ao k Hka). }
  split; [rewrite (spf_defs _ _ _ _ _ _ _ _ _ _ _ _ _ _ _ _ _ I), Nd; reflexivity|].
  unfold sp_def. cbn. split; [exact Na|]. split; [reflexivity|]. split; [exact Nw|].
  apply (sv_nd _ _ _ _ _ _ _ _ _ _ _ _ _ _ _ _ V).
Qed.

(* ==== effects, part 7 ==== *)
Lemma split_site_child s a b lid s1 nd0 nbn :
  wf s -> aget a (nodes s) = Some nd0 -> In b (children nd0) -> aget b (nodes s) = Some nbn -> aget lid (nodes s) = None ->
  split_site s a b lid = Some s1 ->
  exists na nl tq tr df,
   aget a (nodes s1) = Some na /\ parent na = parent nd0 /\ children na = lid :: remove_first b (children nd0) /\
   aget lid (nodes s1) = Some nl /\ parent nl = Some a /\ children nl = [b] /\
   aget b (nodes s1) = Some (with_parent nbn (Some lid)) /\
   (forall k, k <> a -> k <> b -> k <> lid -> aget k (nodes s1) = aget k (nodes s)) /\
   aget a (tensors s1) = Some tq /\ atoms tq = [next_atom s] /\
   nth (nparents nd0) (laxes na tq) 0 = next_wire s /\ nparents nd0 < nlegs na /\
   aget lid (tensors s1) = Some tr /\
   (forall k, k <> a -> k <> lid -> aget k (tensors s1) = aget k (tensors s)) /\
   defs s1 = defs s ++ [df] /\ kq df = next_atom s /\ kkind df = 0 /\ kbond df = next_wire s /\
   NoDup (akeys (nodes s1)).
Proof.
  intros W Ea Hc Eb Hl H.
  assert (Hin : In b (neighbouring_nodes nd0)) by (apply in_neighbouring; right; exact Hc).
  destruct (wf_child_parent s a nd0 b W Ea Hc) as (nbn' & Eb' & Hpb). rewrite Eb in Eb'. injection Eb' as <-.
  assert (Nab : a <> b) by (intros ->; exact (wf_not_self_parent s b nbn W Eb Hpb)).
  assert (Nal : a <> lid) by (intros ->; congruence).
  assert (Nbl : b <> lid) by (intros ->; congruence).
  assert (Hpn0 : parent nd0 <> Some b) by (apply (wf_parent_not_child s b nbn a nd0 W Eb Hpb Ea)).
  assert (Hco : match parent nd0 with Some p => Nat.eqb p b | None => false end = false).
  { destruct (parent nd0) as [p|]; [|reflexivity]. apply Nat.eqb_neq. congruence. }
  unfold split_site in H. rewrite Ea in H. unfold build_qr_leg_specs in H. rewrite Hco in H.
  set (q := Build_legspec (parent nd0) (remove_first b (children nd0)) _ _) in H. set (r := Build_legspec None [b] [] false) in H.
  destruct (split_nodes_inv _ _ _ _ _ _ _ _ _ _ H) as (sa & nd & t & ol & il & on2 & in2 & l2 & bd & Ha & Hbd & I).
  destruct (split_access_facts _ _ _ _ _ W Ha) as (nd0' & t0 & En0 & Et0 & End & Etr & Wa & En & Et & Hid & Hk & Hlax & Ht0).
  rewrite Ea in En0. injection En0 as <-.
  pose proof (build_qr_specs_ok nd0 b Hin) as [Hq Hr]. unfold build_qr_leg_specs in Hq, Hr. rewrite Hco in Hq, Hr.
  cbn [fst snd] in Hq, Hr. fold q in Hq. fold r in Hr.
  assert (LO' : leg_ok nd q) by (rewrite End; apply leg_ok_reset; exact Hq).
  assert (LI' : leg_ok nd r) by (rewrite End; apply leg_ok_reset; exact Hr).
  assert (Hids' : ids_ok sa a a lid).
  { split; [left; reflexivity|right]. rewrite Hk. apply aget_None. exact Hl. }
  destruct (split_inv_view _ _ _ _ _ _ _ _ _ _ _ _ _ _ _ _ _ Wa En Et Hid LO' LI' Hids' I) as (cO & cI & Eol & Eil & [[Hab V]|[Hab V]]);
    [unfold sp_in_above in Hab; cbn in Hab; discriminate|].
  destruct (access_result _ _ _ _ _ Ha) as (_ & _ & _ & Ao & _).
  assert (Pnd : parent nd = parent nd0) by (rewrite End; reflexivity).
  assert (Cnd : children nd = children nd0) by (rewrite End; reflexivity).
  destruct (sp_access_next _ _ _ _ _ Ha) as (Na & Nw & Nd & _).
  exists on2, in2, (sp_ot sa t ol), (sp_it sa t il), (sp_def sa t ol il 0 Keep).
  split; [apply (sv_nU _ _ _ _ _ _ _ _ _ _ _ _ _ _ _ _ V)|].
  split; [rewrite (sv_nU_par _ _ _ _ _ _ _ _ _ _ _ _ _ _ _ _ V); exact Pnd|].
  split; [rewrite (sv_nU_ch _ _ _ _ _ _ _ _ _ _ _ _ _ _ _ _ V); reflexivity|].
  split; [apply (sv_nL _ _ _ _ _ _ _ _ _ _ _ _ _ _ _ _ V)|].
  split; [apply (sv_nL_par _ _ _ _ _ _ _ _ _ _ _ _ _ _ _ _ V)|].
  split; [rewrite (sv_nL_ch _ _ _ _ _ _ _ _ _ _ _ _ _ _ _ _ V); reflexivity|].
  assert (Hold : forall k nk, k <> a -> aget k (nodes s) = Some nk ->
            exists nk', aget k (nodes s1) = Some nk' /\ perm nk' = perm nk /\ shape nk' = shape nk /\ children nk' = children nk /\
                        (k = b -> parent nk' = Some lid) /\ (k <> b -> parent nk' = parent nk)).
  { intros k nk Hka Ek. destruct (Ao k Hka) as [Eka _]. rewrite <- Eka in Ek.
    destruct (sv_old _ _ _ _ _ _ _ _ _ _ _ _ _ _ _ _ V k nk Hka Ek) as (nk' & E' & P1 & P2 & P3 & P4 & P5 & P6 & P7).
    exists nk'. split; [exact E'|]. split; [exact P1|]. split; [exact P2|].
    cbn [r q ls_children] in P3, P4, P5. rewrite Eka in Ek.
    split.
    { destruct (option_eq_dec_id (parent nd) (Some k)) as [Epk|Epk].
      - rewrite (P6 Epk). apply replace_first_same.
      - apply (P7 Epk). }
    split.
    { intros ->. apply P4. left. reflexivity. }
    intros Hkb.
    destruct (in_dec Nat.eq_dec k (remove_first b (children nd0))) as [Hc'|Hc'].
    - rewrite (P3 Hc'). apply In_remove_first_in in Hc'.
      destruct (wf_child_parent s a nd0 k W Ea Hc') as (xn & Ex & Hx). unfold id in *. congruence.
    - apply P5; [exact Hc'|]. intros [Hk'|[]]. congruence. }
  split.
  { destruct (Hold b nbn (not_eq_sym Nab) Eb) as (nk' & E' & P1 & P2 & P3 & P4 & _). rewrite E'. f_equal.
    apply node_eq; cbn; auto. }
  split.
  { intros k Hka Hkb Hkl. destruct (aget k (nodes s)) as [nk|] eqn:Ek.
    - destruct (Hold k nk Hka Ek) as (nk' & E' & P1 & P2 & P3 & _ & P5). rewrite E'. f_equal.
      apply node_eq; auto.
    - destruct (aget k (nodes s1)) as [x|] eqn:E1; [|reflexivity]. exfalso.
      apply aget_Some_keys in E1. destruct (sv_keys _ _ _ _ _ _ _ _ _ _ _ _ _ _ _ _ V k E1) as [K|[K|[_ K]]]; try congruence.
      rewrite Hk in K. apply aget_None in Ek. contradiction. }
  split; [apply (sv_tU _ _ _ _ _ _ _ _ _ _ _ _ _ _ _ _ V)|].
  split; [unfold sp_ot; cbn; f_equal; exact Na|].
  assert (Hnp : nparents nd0 <= length (axes t)).
  { pose proof (ni_virt _ _ _ (wf_node sa Wa a nd En)) as Hv. unfold nlegs in Hv. rewrite Hid, seq_length in Hv.
    unfold nvirt in Hv. rewrite End in Hv. cbn in Hv. unfold nparents in *. cbn in Hv. lia. }
  assert (Hfl : length (firstn (nparents nd) (axes t)) = nparents nd0).
  { rewrite firstn_length. rewrite End. unfold nparents at 1. cbn. fold (nparents nd0). lia. }
  split.
  { rewrite (sv_nU_lax _ _ _ _ _ _ _ _ _ _ _ _ _ _ _ _ V). rewrite app_nth2 by lia. rewrite Hfl, Nat.sub_diag. cbn. exact Nw. }
  split.
  { rewrite <- (laxes_length on2 (sp_ot sa t ol)), (sv_nU_lax _ _ _ _ _ _ _ _ _ _ _ _ _ _ _ _ V). rewrite app_length, Hfl. cbn. lia. }
  split; [apply (sv_tL _ _ _ _ _ _ _ _ _ _ _ _ _ _ _ _ V)|].
  split.
  { intros k Hka Hkl. rewrite (sv_told _ _ _ _ _ _ _ _ _ _ _ _ _ _ _ _ V k Hka Hkl). rewrite (eqb_false k a Hka).
    apply (Ao k Hka). }
  split; [rewrite (spf_defs _ _ _ _ _ _ _ _ _ _ _ _ _ _ _ _ _ I), Nd; reflexivity|].
  unfold sp_def. cbn. split; [exact Na|]. split; [reflexivity|]. split; [exact Nw|].
  apply (sv_nd _ _ _ _ _ _ _ _ _ _ _ _ _ _ _ _ V).
Qed.

(* ==== effects, part 8 ==== *)
Lemma In_replace_first k x y l : In k (replace_first x y l) -> k = y \/ In k l.
Proof.
  induction l as [|z t IH]; cbn; [auto|]. destruct (Nat.eqb x z).
  - intros [->|H]; auto.
  - intros [->|H]; auto. destruct (IH H); auto.
Qed.

Lemma keys_same_length {V W} (l : list (nat * V)) (l' : list (nat * W)) :
  NoDup (akeys l) -> NoDup (akeys l') -> (forall k, aget k l = None <-> aget k l' = None) -> length l' = length l.
Proof.
  intros N N' H. rewrite <- (length_akeys l), <- (length_akeys l'). apply Permutation_length. apply NoDup_Permutation; auto.
  intros k. split; intros Hin.
  - destruct (aget k l) eqn:E; [eapply aget_Some_keys; eauto|]. apply H in E. apply aget_None in E. contradiction.
  - destruct (aget k l') eqn:E; [eapply aget_Some_keys; eauto|]. apply H in E. apply aget_None in E. contradiction.
Qed.

Lemma link_update_parent s a b lid s' nd0 :
  wf s -> aget a (nodes s) = Some nd0 -> parent nd0 = Some b -> aget lid (nodes s) = None ->
  link_update s a b lid = Some s' ->
  wf s' /\ weffect s a b s' nd0 /\ aget lid (nodes s') = None.
Proof.
  intros W Ea Hp Hl H. unfold link_update in H.
  destruct (split_site s a b lid) as [s1|] eqn:E1; [|discriminate].
  destruct (acc s1 a) as [s2|] eqn:E2; [|discriminate].
  destruct (site_update s2 lid) as [s3|] eqn:E3; [|discriminate].
  assert (Hin : In b (neighbouring_nodes nd0)) by (apply in_neighbouring; left; exact Hp).
  destruct (wf_parent_child s a nd0 b W Ea Hp) as (nbn & Eb & Hab).
  assert (Nab : a <> b) by (intros ->; exact (wf_not_self_parent s b nd0 W Ea Hp)).
  assert (Nal : a <> lid) by (intros ->; congruence).
  assert (Nbl : b <> lid) by (intros ->; congruence).
  pose proof (split_site_wf _ _ _ _ _ _ W Ea Hin Hl E1) as W1.
  pose proof (acc_wf _ _ _ W1 E2) as W2. pose proof (site_update_wf _ _ _ W2 E3) as W3.
  assert (W' : wf s') by (apply (contract_preserves_wf s3 lid b b s' W3 H); right; left; reflexivity).
  destruct (split_site_parent s a b lid s1 nd0 nbn W Ea Hp Eb Hl E1)
    as (na & nl & tq & tr & df & A1 & A2 & A3 & A4 & A5 & A6 & A7 & A8 & A9 & A10 & A11 & A12 & A13 & A14 & A15 & A16 & A17 & A18 & A19).
  destruct (acc_facts _ _ _ E2) as (na' & tq' & B1 & B2 & B3 & B4 & B5 & B6 & B7 & B8 & B9 & B10 & B11 & B12).
  rewrite A1 in B1. injection B1 as <-. rewrite A9 in B2. injection B2 as <-.
  destruct (site_update_facts _ _ _ E3) as (nl' & tr' & C1 & C2 & C3 & C4 & C5 & C6 & C7 & C8 & C9 & C10 & C11).
  destruct (B5 lid (not_eq_sym Nal)) as [B5l B5lt]. rewrite B5l, A4 in C1. injection C1 as <-.
  (* the three stores agree away from a and lid *)
  assert (N3 : forall k, k <> a -> k <> lid -> aget k (nodes s3) = aget k (nodes s1)).
  { intros k K1 K2. destruct (C5 k K2) as [-> _]. apply (B5 k K1). }
  assert (T3 : forall k, k <> a -> k <> lid -> aget k (tensors s3) = aget k (tensors s1)).
  { intros k K1 K2. destruct (C5 k K2) as [_ ->]. apply (B5 k K1). }
  assert (N3a : aget a (nodes s3) = Some (reset_permutation na)).
  { destruct (C5 a Nal) as [-> _]. exact B3. }
  assert (T3a : aget a (tensors s3) = Some (s_transpose (perm na) tq)).
  { destruct (C5 a Nal) as [_ ->]. exact B4. }
  assert (N3b : aget b (nodes s3) = Some (with_children nbn (replace_first a lid (children nbn)))).
  { rewrite (N3 b (not_eq_sym Nab) Nbl). exact A7. }
  destruct (contract_explicit s3 lid b b s' W3 H ltac:(right; left; reflexivity))
    as (p & c & pn0 & cn0 & nn & Hpc & Hne & Ep & Ec & Hpar & Enn & Pnn & Cnn & Nd' & Gp & Gc & Go & Gt & _ & Gd & _).
  assert (Hpc' : p = b /\ c = lid).
  { destruct Hpc as [[-> ->]|[-> ->]]; [|auto]. exfalso. rewrite N3b in Ec. injection Ec as <-. cbn in Hpar.
    destruct (wf_parent_child s b nbn lid W Eb Hpar) as (x & Ex & _). congruence. }
  destruct Hpc' as [-> ->]. rewrite N3b in Ep. injection Ep as <-. rewrite C3 in Ec. injection Ec as <-.
  cbn [with_children children parent reset_permutation] in *.
  rewrite (eqb_false b lid Nbl) in Cnn. rewrite A6 in Cnn, Go.
  assert (Hla : ~ In lid (children nbn)).
  { intros Hc. destruct (wf_child_parent s b nbn lid W Eb Hc) as (x & Ex & _). congruence. }
  (* the nodes of the result *)
  assert (Ga : aget a (nodes s') = Some (with_parent (reset_permutation na) (Some b))).
  { rewrite (Go a Nab Nal Nab), N3a. cbn. f_equal. apply node_eq; cbn; auto.
    - rewrite Nat.eqb_refl, orb_true_r. reflexivity.
    - destruct (parent nbn) as [qq|]; [|reflexivity]. destruct (Nat.eqb a qq); [apply replace_first_same|reflexivity]. }
  assert (Gl : aget lid (nodes s') = None) by (apply Gc; congruence).
  assert (Gk : forall k, k <> a -> k <> b -> aget k (nodes s') = aget k (nodes s)).
  { intros k Ka Kb. destruct (Nat.eq_dec k lid) as [->|Kl]; [rewrite Gl, Hl; reflexivity|].
    rewrite (Go k Kb Kl Kb), (N3 k Ka Kl), (A8 k Ka Kb Kl). destruct (aget k (nodes s)) as [nk|] eqn:Ek; [|reflexivity].
    cbn. f_equal. apply node_eq; cbn; auto.
    - rewrite (eqb_false k a Ka). cbn. rewrite orb_false_r.
      destruct (memb k (replace_first a lid (children nbn))) eqn:Hm; [|reflexivity].
      apply memb_In in Hm. apply In_replace_first in Hm. destruct Hm as [->|Hm]; [congruence|].
      destruct (wf_child_parent s b nbn k W Eb Hm) as (x & Ex & Hx). unfold id in *. congruence.
    - destruct (parent nbn) as [qq|]; [|reflexivity]. destruct (Nat.eqb k qq); [apply replace_first_same|reflexivity]. }
  split; [exact W'|]. split; [|exact Gl].
  constructor.
  - exists (with_parent (reset_permutation na) (Some b)), (s_transpose (perm na) tq), 0, df.
    split; [exact Ga|]. split; [rewrite (Gt a Nab Nal Nab); exact T3a|].
    split; [cbn; rewrite A10, A16; reflexivity|].
    split; [rewrite Gd, C11, B11, A15; apply in_or_app; right; left; reflexivity|].
    split; [exact A17|].
    split; [unfold neighbour_index; cbn; rewrite Nat.eqb_refl; reflexivity|].
    split.
    { cbn [with_parent reset_permutation perm s_transpose axes]. fold (nlegs na).
      rewrite seq_nth by lia. cbn [plus]. rewrite A18. exact A11. }
    split; [cbn; symmetry; exact Hp|]. split; [cbn; rewrite A3; apply Permutation_refl|exact A18].
  - rewrite Gd, C11, B11, A15. intros x Hx. apply in_or_app. left. exact Hx.
  - exact Gk.
  - intros k Ka Kb Hk. assert (Kl : k <> lid) by (intros ->; apply aget_None in Hl; contradiction).
    rewrite (Gt k Kb Kl Kb), (T3 k Ka Kl). apply (A14 k Ka Kl).
  - exists nbn, nn. split; [exact Eb|]. split; [exact Enn|]. split; [exact Pnn|].
    rewrite Cnn. cbn [app]. rewrite remove_replace_first by exact Hla. symmetry. apply remove_first_perm. exact Hab.
  - split; [exact Nd'|]. apply keys_same_length; [apply (wf_nd s W)|exact Nd'|].
    intros k. destruct (Nat.eq_dec k a) as [->|Ka]; [rewrite Ga, Ea; split; discriminate|].
    destruct (Nat.eq_dec k b) as [->|Kb]; [rewrite Enn, Eb; split; discriminate|].
    rewrite (Gk k Ka Kb). reflexivity.
Qed.

(* ==== effects, part 9 ==== *)
Lemma link_update_child s a b lid s' nd0 :
  wf s -> aget a (nodes s) = Some nd0 -> In b (children nd0) -> aget lid (nodes s) = None ->
  link_update s a b lid = Some s' ->
  wf s' /\ weffect s a b s' nd0 /\ aget lid (nodes s') = None.
Proof.
  intros W Ea Hc Hl H. unfold link_update in H.
  destruct (split_site s a b lid) as [s1|] eqn:E1; [|discriminate].
  destruct (acc s1 a) as [s2|] eqn:E2; [|discriminate].
  destruct (site_update s2 lid) as [s3|] eqn:E3; [|discriminate].
  assert (Hin : In b (neighbouring_nodes nd0)) by (apply in_neighbouring; right; exact Hc).
  destruct (wf_child_parent s a nd0 b W Ea Hc) as (nbn & Eb & Hpb).
  assert (Nab : a <> b) by (intros ->; exact (wf_not_self_parent s b nbn W Eb Hpb)).
  assert (Nal : a <> lid) by (intros ->; congruence).
  assert (Nbl : b <> lid) by (intros ->; congruence).
  assert (Hpn0 : parent nd0 <> Some b) by (apply (wf_parent_not_child s b nbn a nd0 W Eb Hpb Ea)).
  pose proof (split_site_wf _ _ _ _ _ _ W Ea Hin Hl E1) as W1.
  pose proof (acc_wf _ _ _ W1 E2) as W2. pose proof (site_update_wf _ _ _ W2 E3) as W3.
  assert (W' : wf s') by (apply (contract_preserves_wf s3 lid b b s' W3 H); right; left; reflexivity).
  destruct (split_site_child s a b lid s1 nd0 nbn W Ea Hc Eb Hl E1)
    as (na & nl & tq & tr & df & A1 & A2 & A3 & A4 & A5 & A6 & A7 & A8 & A9 & A10 & A11 & A12 & A13 & A14 & A15 & A16 & A17 & A18 & A19).
  destruct (acc_facts _ _ _ E2) as (na' & tq' & B1 & B2 & B3 & B4 & B5 & B6 & B7 & B8 & B9 & B10 & B11 & B12).
  rewrite A1 in B1. injection B1 as <-. rewrite A9 in B2. injection B2 as <-.
  destruct (site_update_facts _ _ _ E3) as (nl' & tr' & C1 & C2 & C3 & C4 & C5 & C6 & C7 & C8 & C9 & C10 & C11).
  destruct (B5 lid (not_eq_sym Nal)) as [B5l B5lt]. rewrite B5l, A4 in C1. injection C1 as <-.
  assert (N3 : forall k, k <> a -> k <> lid -> aget k (nodes s3) = aget k (nodes s1)).
  { intros k K1 K2. destruct (C5 k K2) as [-> _]. apply (B5 k K1). }
  assert (T3 : forall k, k <> a -> k <> lid -> aget k (tensors s3) = aget k (tensors s1)).
  { intros k K1 K2. destruct (C5 k K2) as [_ ->]. apply (B5 k K1). }
  assert (N3a : aget a (nodes s3) = Some (reset_permutation na)).
  { destruct (C5 a Nal) as [-> _]. exact B3. }
  assert (T3a : aget a (tensors s3) = Some (s_transpose (perm na) tq)).
  { destruct (C5 a Nal) as [_ ->]. exact B4. }
  assert (N3b : aget b (nodes s3) = Some (with_parent nbn (Some lid))).
  { rewrite (N3 b (not_eq_sym Nab) Nbl). exact A7. }
  destruct (contract_explicit s3 lid b b s' W3 H ltac:(right; left; reflexivity))
    as (p & c & pn0 & cn0 & nn & Hpc & Hne & Ep & Ec & Hpar & Enn & Pnn & Cnn & Nd' & Gp & Gc & Go & Gt & _ & Gd & _).
  assert (Hpc' : p = lid /\ c = b).
  { destruct Hpc as [[-> ->]|[-> ->]]; [auto|]. exfalso. rewrite C3 in Ec. injection Ec as <-. cbn in Hpar. congruence. }
  destruct Hpc' as [-> ->]. rewrite N3b in Ec. injection Ec as <-. rewrite C3 in Ep. injection Ep as <-.
  cbn [with_parent children parent reset_permutation] in *.
  rewrite Nat.eqb_refl in Cnn. rewrite A6 in Cnn, Go. cbn [remove_first] in Cnn. rewrite Nat.eqb_refl in Cnn. cbn [app] in Cnn.
  rewrite A5 in Go, Pnn.
  assert (Hanc : ~ In a (children nbn)).
  { intros Hx. destruct (wf_child_parent s b nbn a W Eb Hx) as (x & Ex & Hx'). unfold id in *. congruence. }
  set (na' := {| parent := parent na; children := b :: remove_first b (children nd0);
                 perm := seq 0 (length (perm na)); shape := node_shape na |}).
  assert (Ga : aget a (nodes s') = Some na').
  { rewrite (Go a Nal Nab Nab), N3a. cbn. f_equal. apply node_eq; cbn; auto.
    - rewrite (eqb_false a b Nab). cbn. apply memb_false in Hanc. rewrite Hanc. reflexivity.
    - rewrite Nat.eqb_refl, A3. cbn. rewrite Nat.eqb_refl. reflexivity. }
  assert (Gl : aget lid (nodes s') = None) by (apply Gp; congruence).
  assert (Gk : forall k, k <> a -> k <> b -> aget k (nodes s') = aget k (nodes s)).
  { intros k Ka Kb. destruct (Nat.eq_dec k lid) as [->|Kl]; [rewrite Gl, Hl; reflexivity|].
    rewrite (Go k Kl Kb Kb), (N3 k Ka Kl), (A8 k Ka Kb Kl). destruct (aget k (nodes s)) as [nk|] eqn:Ek; [|reflexivity].
    cbn. f_equal. apply node_eq; cbn; auto.
    - rewrite (eqb_false k b Kb). cbn.
      destruct (memb k (children nbn)) eqn:Hm; [|reflexivity].
      apply memb_In in Hm. destruct (wf_child_parent s b nbn k W Eb Hm) as (x & Ex & Hx). unfold id in *. congruence.
    - rewrite (eqb_false k a Ka). reflexivity. }
  split; [exact W'|]. split; [|exact Gl].
  constructor.
  - exists na', (s_transpose (perm na) tq), (nparents nd0), df.
    split; [exact Ga|]. split; [rewrite (Gt a Nal Nab Nab); exact T3a|].
    split; [cbn; rewrite A10, A16; reflexivity|].
    split; [rewrite Gd, C11, B11, A15; apply in_or_app; right; left; reflexivity|].
    split; [exact A17|].
    split.
    { unfold neighbour_index, na'. cbn. rewrite A2, Nat.eqb_refl. unfold nparents. destruct (parent nd0) as [pp|]; [|reflexivity].
      rewrite (eqb_false b pp) by congruence. reflexivity. }
    split.
    { unfold na'. cbn [perm s_transpose axes]. fold (nlegs na).
      rewrite seq_nth by exact A12. cbn [plus]. rewrite A18. exact A11. }
    split; [unfold na'; cbn; exact A2|]. split; [|exact A18]. unfold na'. cbn. symmetry. apply remove_first_perm. exact Hc.
  - rewrite Gd, C11, B11, A15. intros x Hx. apply in_or_app. left. exact Hx.
  - exact Gk.
  - intros k Ka Kb Hk. assert (Kl : k <> lid) by (intros ->; apply aget_None in Hl; contradiction).
    rewrite (Gt k Kl Kb Kb), (T3 k Ka Kl). apply (A14 k Ka Kl).
  - exists nbn, nn. split; [exact Eb|]. split; [exact Enn|]. split; [rewrite Pnn; symmetry; exact Hpb|].
    rewrite Cnn. apply Permutation_refl.
  - split; [exact Nd'|]. apply keys_same_length; [apply (wf_nd s W)|exact Nd'|].
    intros k. destruct (Nat.eq_dec k a) as [->|Ka]; [rewrite Ga, Ea; split; discriminate|].
    destruct (Nat.eq_dec k b) as [->|Kb]; [rewrite Enn, Eb; split; discriminate|].
    rewrite (Gk k Ka Kb). reflexivity.
Qed.

(* the link update along an edge: invariant, centre attribute, link identifier gone *)
Theorem link_update_effect s a b lid s' nd0 :
  wf s -> aget a (nodes s) = Some nd0 -> In b (neighbouring_nodes nd0) -> aget lid (nodes s) = None ->
  link_update s a b lid = Some s' ->
  wf s' /\ weffect s a b s' nd0 /\ aget lid (nodes s') = None.
Proof.
  intros W Ea Hin Hl H. apply in_neighbouring in Hin. destruct Hin as [Hp|Hc].
  - eapply link_update_parent; eauto.
  - eapply link_update_child; eauto.
Qed.

(* ==== success, part 1 ==== *)
(* ---- when the list surgery of Node succeeds ------------------------------------------------------------- *)
Lemma olc_loop_some orig : forall l n, (forall x, In x l -> orig <= snd (fst x)) -> exists n', olc_loop orig n l = Some n'.
Proof.
  induction l as [|[[cid leg] val] l IH]; intros n H; cbn [olc_loop]; [eauto|].
  assert (Hl : orig <= leg) by (apply (H (cid, leg, val)); left; reflexivity).
  destruct (Nat.ltb_spec leg orig) as [|_]; [lia|]. apply IH. intros x Hx. apply H. right. exact Hx.
Qed.

Lemma olc_some n d : (forall x, In x d -> nvirt n <= snd x < nlegs n) -> exists n', open_legs_to_children n d = Some n'.
Proof.
  intros H. unfold open_legs_to_children.
  assert (Hf : forallb (fun cl => Nat.ltb (snd cl) (nlegs n)) d = true).
  { apply forallb_forall. intros x Hx. apply Nat.ltb_lt. apply (H x Hx). }
  rewrite Hf. apply olc_loop_some. intros x Hx. apply in_map_iff in Hx. destruct Hx as (y & <- & Hy). cbn. apply (H y Hy).
Qed.

Lemma oltp_some n pid leg : parent n = None -> nvirt n <= leg < nlegs n -> exists n', open_leg_to_parent n pid leg = Some n'.
Proof.
  intros Hp Hl. unfold open_leg_to_parent. assert (Hr : is_root n = true) by (apply is_root_spec; exact Hp). rewrite Hr. cbn [negb].
  assert (Ho : open_leg_ok n leg = true).
  { unfold open_leg_ok, nopen. rewrite !andb_true_iff, !negb_true_iff. repeat split.
    - apply Nat.eqb_neq. lia.
    - apply Nat.ltb_ge. lia.
    - apply Nat.ltb_lt. lia. }
  rewrite Ho. cbn [negb]. unfold move. destruct (pop_some leg (perm n) ltac:(unfold nlegs in Hl; lia)) as (x & r & E). rewrite E. eauto.
Qed.

Lemma pop_n_some {A} k : forall i (l : list A), i + k <= length l ->
  exists xs r, pop_n k i l = Some (xs, r) /\ length xs = k /\ length r = length l - k.
Proof.
  induction k as [|k IH]; intros i l H; cbn.
  - exists [], l. repeat split. lia.
  - destruct (pop_some i l ltac:(lia)) as (x & l' & E). rewrite E. pose proof (pop_length _ _ _ _ E) as Hl.
    destruct (IH i l' ltac:(lia)) as (xs & r & E' & L1 & L2). rewrite E'. exists (x :: xs), r. repeat split; cbn; lia.
Qed.

Lemma eolr_some n s1 l1 l2 : s1 + l1 + l2 <= nlegs n ->
  exists n', exchange_open_leg_ranges n s1 l1 (s1 + l1) l2 = Some n'.
Proof.
  intros H. unfold exchange_open_leg_ranges.
  destruct (Nat.ltb_spec (s1 + l1) s1) as [|_]; [lia|].
  destruct (Nat.ltb_spec (s1 + l1) (s1 + l1)) as [|_]; [lia|].
  destruct (pop_n_some l2 (s1 + l1) (perm n) ltac:(unfold nlegs in H; lia)) as (v2 & p1 & E1 & _ & L1). rewrite E1.
  destruct (pop_n_some l1 s1 p1 ltac:(unfold nlegs in H; lia)) as (v1 & p2 & E2 & _). rewrite E2. eauto.
Qed.

Lemma new_node_nlegs shp : nlegs (new_node shp) = length shp.
Proof. unfold nlegs. cbn. apply seq_length. Qed.
Lemma new_node_nvirt shp : nvirt (new_node shp) = 0.
Proof. reflexivity. Qed.

Lemma olc_loop_nlegs orig : forall l n n', olc_loop orig n l = Some n' ->
  (forall x, In x l -> In (snd x) (perm n)) -> length (perm n') = length (perm n).
Proof.
  induction l as [|[[cid leg] val] l IH]; intros n n' H Hin; cbn [olc_loop] in H; [injection H as <-; reflexivity|].
  destruct (Nat.ltb leg orig); [discriminate|].
  assert (Hv : In val (perm n)) by (apply (Hin (cid, leg, val)); left; reflexivity).
  assert (Hperm : Permutation (insert (nvirt n) val (remove_first val (perm n))) (perm n)).
  { rewrite insert_perm. symmetry. apply remove_first_perm. exact Hv. }
  rewrite (IH _ _ H).
  - cbn [perm]. apply (Permutation_length Hperm).
  - intros x Hx. cbn [perm]. apply (Permutation_in _ (Permutation_sym Hperm)). apply Hin. right. exact Hx.
Qed.

Lemma olc_nlegs n d n' : open_legs_to_children n d = Some n' -> nlegs n' = nlegs n.
Proof.
  unfold open_legs_to_children. destruct (forallb _ d) eqn:Hf; [|discriminate]. intros H. unfold nlegs.
  apply (olc_loop_nlegs _ _ _ _ H). intros x Hx. apply in_map_iff in Hx. destruct Hx as (y & <- & Hy). cbn [snd].
  apply nth_In. rewrite forallb_forall in Hf. apply Nat.ltb_lt. apply (Hf y Hy).
Qed.

(* ==== success, part 2 ==== *)
Lemma neighbour_index_some n c : In c (neighbouring_nodes n) -> exists i, neighbour_index n c = Some i.
Proof.
  unfold neighbour_index, neighbouring_nodes. destruct (parent n) as [p|].
  - destruct (Nat.eqb_spec c p); [eauto|]. intros [->|Hin]; [congruence|].
    apply index_of_In in Hin. destruct Hin as [i ->]. cbn. eauto.
  - intros Hin. apply index_of_In in Hin. exact Hin.
Qed.

Lemma access_some s n nd : wf s -> aget n (nodes s) = Some nd -> exists s' nd' t', access s n = Some (s', nd', t').
Proof.
  intros W E. unfold access. rewrite E, (wf_tens s n nd W E). eauto.
Qed.

(* create_contracted_node succeeds on two adjacent well-formed nodes *)
Lemma ccn_some pn cn c first (shp : list nat) :
  nvirt pn <= nlegs pn -> nvirt cn <= nlegs cn -> In c (children pn) -> NoDup (children pn) -> parent cn <> None ->
  length shp = (nlegs pn - 1) + (nlegs cn - 1) ->
  exists nn, create_contracted_node shp pn cn c first = Some nn.
Proof.
  intros Vp Vc Hin Hnd Hpc Hlen. unfold create_contracted_node.
  assert (Hchp : length (children pn) = S (length (remove_first c (children pn)))).
  { pose proof (Permutation_length (remove_first_perm c (children pn) Hin)) as E. cbn in E. exact E. }
  assert (Hnvp : nvirt pn = nparents pn + S (length (remove_first c (children pn)))) by (unfold nvirt; rewrite Hchp; reflexivity).
  assert (Hnvc : nvirt cn = 1 + length (children cn)).
  { unfold nvirt, nparents. destruct (parent cn); [reflexivity|congruence]. }
  set (n0 := new_node shp).
  assert (L0 : nlegs n0 = length shp) by apply new_node_nlegs.
  assert (R1 : exists n1, (match parent pn with Some pp => open_leg_to_parent n0 pp 0 | None => Some n0 end) = Some n1 /\
                          nlegs n1 = length shp /\ nvirt n1 = nparents pn /\ node_wf n1).
  { destruct (parent pn) as [pp|] eqn:Hpp.
    - destruct (oltp_some n0 pp 0 eq_refl) as [n1 E1].
      { rewrite L0. cbn. unfold nparents in Hnvp. rewrite Hpp in Hnvp. nlia. }
      exists n1. split; [exact E1|]. destruct (open_leg_to_parent_wf _ _ _ _ (new_node_wf shp) E1) as (W1 & P1 & C1 & _ & Lp & _).
      split; [unfold nlegs; rewrite (Permutation_length Lp); apply L0|].
      split; [unfold nvirt, nparents; rewrite P1, C1; cbn; rewrite Hpp; reflexivity|exact W1].
    - exists n0. split; [reflexivity|]. split; [exact L0|]. split; [unfold nparents; rewrite Hpp; reflexivity|apply new_node_wf]. }
  destruct R1 as (n1 & -> & L1 & V1 & W1).
  set (pch := remove_first c (children pn)) in *.
  set (pd := enum_from (nparents pn) pch). set (cd := enum_from (nlegs pn - 1) (children cn)).
  set (d := if first then pd ++ cd else cd ++ pd).
  assert (Hd : forall x, In x d -> nvirt n1 <= snd x < nlegs n1).
  { assert (Hpd : forall x, In x pd -> nvirt n1 <= snd x < nlegs n1).
    { intros x Hx. assert (Hs : In (snd x) (map snd pd)) by (apply in_map; exact Hx).
      unfold pd in Hs. rewrite enum_from_snd in Hs. apply in_seq in Hs. nlia. }
    assert (Hcd : forall x, In x cd -> nvirt n1 <= snd x < nlegs n1).
    { intros x Hx. assert (Hs : In (snd x) (map snd cd)) by (apply in_map; exact Hx).
      unfold cd in Hs. rewrite enum_from_snd in Hs. apply in_seq in Hs. nlia. }
    intros x Hx. unfold d in Hx. destruct first; apply in_app_or in Hx; destruct Hx; auto. }
  destruct (olc_some n1 d Hd) as [n2 E2]. fold pch. fold pd. fold cd. fold d. rewrite E2.
  destruct first; [eauto|].
  assert (HND : NoDup (map snd d)).
  { unfold d, cd, pd. rewrite map_app, !enum_from_snd. apply NoDup_app_iff. split; [apply seq_NoDup|]. split; [apply seq_NoDup|].
    intros x Hx Hy. apply in_seq in Hx, Hy. nlia. }
  destruct (open_legs_to_children_spec n1 d n2 W1 HND E2) as (P2 & _ & C2 & Lp2 & _).
  assert (V2 : nvirt n2 = nparents pn + (length (children cn) + length pch)).
  { unfold nvirt, nparents. rewrite P2, C2. unfold d, cd, pd. rewrite map_app, !enum_from_fst, !app_length.
    unfold nvirt, nparents in V1. destruct (parent n1); destruct (parent pn); cbn in *; nlia. }
  assert (L2 : nlegs n2 = length shp) by (rewrite (olc_nlegs _ _ _ E2); exact L1).
  apply eolr_some. rewrite L2, V2, Hlen. unfold nopen. fold pch in Hnvp. nlia.
Qed.

(* contract_nodes succeeds on two adjacent nodes of a well-formed store (the new identifier is one of the two) *)
Lemma contract_nodes_some s x y new nx ny :
  wf s -> aget x (nodes s) = Some nx -> aget y (nodes s) = Some ny ->
  parent ny = Some x \/ parent nx = Some y -> new = x \/ new = y ->
  exists s', contract_nodes s x y new = Some s'.
Proof.
  intros W Ex Ey Hadj Hnew. unfold contract_nodes.
  assert (Hdp : exists p c pn0 cn0, determine_parentage s x y = Some (p, c) /\ ((p = x /\ c = y) \/ (p = y /\ c = x)) /\
                  aget p (nodes s) = Some pn0 /\ aget c (nodes s) = Some cn0 /\ parent cn0 = Some p).
  { unfold determine_parentage. rewrite Ex, Ey.
    destruct (parent ny) as [q|] eqn:Py.
    - destruct (Nat.eqb_spec q x) as [->|Hq].
      + exists x, y, nx, ny. auto.
      + destruct Hadj as [Hc|Hc]; [congruence|]. rewrite Hc, Nat.eqb_refl. exists y, x, ny, nx. auto.
    - destruct Hadj as [Hc|Hc]; [congruence|]. rewrite Hc, Nat.eqb_refl. exists y, x, ny, nx. auto. }
  destruct Hdp as (p & c & pn0 & cn0 & -> & Hpc & Ep & Ec & Hpar).
  assert (Hne : p <> c) by (intros ->; apply (wf_not_self_parent s c cn0 W Ec Hpar)).
  destruct (access_some s p pn0 W Ep) as (s1 & pn & pt & A1). rewrite A1.
  pose proof (access_preserves_wf s p s1 pn pt W A1) as W1.
  destruct (access_result _ _ _ _ _ A1) as (B1 & B2 & B3 & B4 & B5 & B6 & B7 & B8 & (pn0' & B9 & B10 & B11)).
  rewrite Ep in B9. injection B9 as <-.
  destruct (B4 c (not_eq_sym Hne)) as [B4n B4t].
  assert (Ec1 : aget c (nodes s1) = Some cn0) by (rewrite B4n; exact Ec).
  destruct (access_some s1 c cn0 W1 Ec1) as (s2 & cn & ct & A2). rewrite A2.
  pose proof (access_preserves_wf s1 c s2 cn ct W1 A2) as W2.
  destruct (access_result _ _ _ _ _ A2) as (C1 & C2 & C3 & C4 & C5 & C6 & C7 & C8 & (cn0' & C9 & C10 & C11)).
  rewrite Ec1 in C9. injection C9 as <-.
  destruct (C4 p Hne) as [C4n C4t].
  assert (Ep2 : aget p (nodes s2) = Some pn) by (rewrite C4n; exact B1).
  assert (Pc2 : parent cn = Some p) by (rewrite C10; exact Hpar).
  (* the leg of the parent toward the child, and the shared wire *)
  destruct (ni_par _ _ _ (wf_node s2 W2 c cn C1) p Pc2) as (pn' & ax & Ep' & Hcin & Hax & Hw).
  rewrite Ep2 in Ep'. injection Ep' as <-. rewrite Hax.
  assert (Lp : length (axes pt) = nlegs pn).
  { rewrite <- (wf_axes_length s2 p pn W2 Ep2). rewrite (tens_aget s2 p pt); [reflexivity|]. rewrite C4t. exact B2. }

  assert (Lc : length (axes ct) = nlegs cn).
  { rewrite <- (wf_axes_length s2 c cn W2 C1). rewrite (tens_aget s2 c ct C2). reflexivity. }
  pose proof (ni_virt _ _ _ (wf_node s2 W2 p pn Ep2)) as Vp. pose proof (ni_virt _ _ _ (wf_node s2 W2 c cn C1)) as Vc.
  pose proof (neighbour_index_bound _ _ _ Hax) as Hab.
  assert (Hvc1 : 1 <= nvirt cn) by (unfold nvirt, nparents; rewrite Pc2; nlia).
  destruct (pop_some ax (axes pt) ltac:(unfold id, wire in *; lia)) as (wa & ra & Pa).
  destruct (pop_some 0 (axes ct) ltac:(unfold id, wire in *; lia)) as (wb & rb & Pb).
  assert (Tp : tens s2 p = pt) by (apply tens_aget; rewrite C4t; exact B2).
  assert (Tc : tens s2 c = ct) by (apply tens_aget; exact C2).
  assert (Hlaxp : lax s2 p pn = axes pt) by (rewrite (lax_identity s2 p pn W2 Ep2 B3), Tp; reflexivity).
  assert (Hlaxc : lax s2 c cn = axes ct) by (rewrite (lax_identity s2 c cn W2 C1 C3), Tc; reflexivity).
  assert (Hwab : wa = wb).
  { rewrite <- (pop_nth _ _ _ _ 0 Pa), <- (pop_nth _ _ _ _ 0 Pb).
    rewrite <- Hlaxp, <- Hlaxc. symmetry. exact Hw. }
  unfold s_tensordot. rewrite Pa, Pb, Hwab, Nat.eqb_refl.
  cbn [axes].
  destruct (ccn_some pn cn c (Nat.eqb p x) (map (wdim s) (ra ++ rb)) Vp Vc Hcin (ni_chnd _ _ _ (wf_node s2 W2 p pn Ep2)) ltac:(congruence))
    as [nn Enn].
  { rewrite map_length, app_length. pose proof (pop_length _ _ _ _ Pa). pose proof (pop_length _ _ _ _ Pb). nlia. }
  rewrite Enn.
  set (s3 := upd_tensors s2 _).
  assert (N3 : nodes s3 = nodes s2) by reflexivity.
  destruct (Nat.eq_dec new p) as [->|Hnp].
  - rewrite rnin_same.
    destruct (replace_node_in_neighbours_some s3 p c true cn (fun e => Hne e)) as [s5 E5].
    + rewrite N3. exact C1.
    + rewrite Pc2. left. reflexivity.
    + rewrite E5. eauto.
  - assert (new = c) as -> by (destruct Hpc as [[-> ->]|[-> ->]]; destruct Hnew; congruence).
    destruct (replace_node_in_neighbours_some s3 c p true pn (fun e => Hne (eq_sym e))) as [s4 E4].
    + rewrite N3. exact Ep2.
    + destruct (parent pn) as [pp|] eqn:Ppp; [|exact I]. right. rewrite N3. apply (wf_parent_child s2 p pn pp W2 Ep2 Ppp).
    + rewrite E4, rnin_same. eauto.
Qed.

(* ==== success, part 3 ==== *)
Lemma build_qr_reset nd0 b : build_qr_leg_specs (reset_permutation nd0) b = build_qr_leg_specs nd0 b.
Proof.
  unfold build_qr_leg_specs, reset_permutation, nvirt, nopen, nlegs, nparents, is_root. cbn. rewrite seq_length. reflexivity.
Qed.

Lemma ris_nil l new old : replace_in_some_neighbours l new old [] = Some l.
Proof. reflexivity. Qed.

(* replacing an identifier by itself in the records of true neighbours changes nothing *)
Lemma ris_same_some : forall ns l n,
  (forall x, In x ns -> exists xn, aget x l = Some xn /\ (parent xn = Some n \/ In n (children xn))) ->
  replace_in_some_neighbours l n n ns = Some l.
Proof.
  unfold replace_in_some_neighbours. induction ns as [|x ns IH]; intros l n H; [reflexivity|]. cbn [fold_left].
  destruct (H x (or_introl eq_refl)) as (xn & Ex & Hx). rewrite Ex.
  assert (Hr : replace_neighbour xn n n = Some xn).
  { unfold replace_neighbour. destruct (parent xn) as [p|] eqn:Hp.
    - destruct (Nat.eqb_spec p n) as [->|Hpn].
      + f_equal. destruct xn; cbn in *; subst; reflexivity.
      + destruct Hx as [Hx|Hx]; [congruence|]. apply memb_In in Hx. rewrite Hx, replace_first_same. f_equal. destruct xn; reflexivity.
    - destruct Hx as [Hx|Hx]; [congruence|]. apply memb_In in Hx. rewrite Hx, replace_first_same. f_equal. destruct xn; reflexivity. }
  rewrite Hr, (aset_same_id x xn l Ex). apply IH. intros y Hy. apply H. right. exact Hy.
Qed.

Lemma ris_single_some l new old x xn :
  aget x l = Some xn -> (parent xn = Some old \/ In old (children xn)) ->
  exists l', replace_in_some_neighbours l new old [x] = Some l'.
Proof.
  intros Ex Hx. unfold replace_in_some_neighbours. cbn [fold_left]. rewrite Ex.
  assert (Hr : exists xn', replace_neighbour xn old new = Some xn').
  { unfold replace_neighbour. destruct (parent xn) as [p|] eqn:Hp.
    - destruct (Nat.eqb_spec p old) as [->|Hpn]; [eauto|].
      destruct Hx as [Hx|Hx]; [congruence|]. apply memb_In in Hx. rewrite Hx. eauto.
    - destruct Hx as [Hx|Hx]; [congruence|]. apply memb_In in Hx. rewrite Hx. eauto. }
  destruct Hr as [xn' ->]. eauto.
Qed.

Lemma split_qr_some s a b lid m nd0 :
  wf s -> aget a (nodes s) = Some nd0 -> In b (neighbouring_nodes nd0) -> aget lid (nodes s) = None ->
  exists s1, split_nodes s a (fst (build_qr_leg_specs nd0 b)) (snd (build_qr_leg_specs nd0 b)) a lid 0 m 0 = Some s1.
Proof.
  intros W Ea Hin Hl. rewrite split_nodes_body.
  destruct (access_some s a nd0 W Ea) as (sa & nd & t & Ha). rewrite Ha.
  destruct (split_access_facts _ _ _ _ _ W Ha) as (nd0' & t0 & En0 & Et0 & End & Etr & Wa & En & Et & Hid & Hk & Hlax & Ht0).
  rewrite Ea in En0. injection En0 as <-.
  assert (Nal : a <> lid) by (intros ->; congruence).
  pose proof (wf_node_wf sa a nd Wa En) as Wnd.
  assert (Hin' : In b (neighbouring_nodes nd)) by (rewrite End; exact Hin).
  assert (Hndn : NoDup (neighbouring_nodes nd)) by (apply (ts_neighbours_nodup _ _ _ (wf_tstruct sa Wa) En)).
  destruct (build_qr_leg_specs nd0 b) as [q r] eqn:Eqr. cbn [fst snd].
  assert (Eqr' : build_qr_leg_specs nd b = (q, r)) by (rewrite End, build_qr_reset; exact Eqr).
  destruct (build_qr_leg_specs_partition nd b q r Wnd Hndn Hin' Eqr') as (leg & ql & Hleg & Fq & Fr & Hperm & Hql).
  rewrite Fq, Fr. unfold split_body. rewrite Fq, Fr.
  assert (Hlen : nlegs nd = length (axes t)) by (unfold nlegs; rewrite Hid, seq_length; reflexivity).
  assert (Hp1 : is_perm_of_seq (ql ++ [leg]) && Nat.eqb (length (ql ++ [leg])) (length (axes t)) = true).
  { apply andb_true_iff. pose proof (Permutation_length Hperm) as HL. rewrite seq_length in HL. split.
    - apply is_perm_of_seq_spec. rewrite HL. exact Hperm.
    - apply Nat.eqb_eq. rewrite HL. exact Hlen. }
  rewrite Hp1. cbn [negb]. rewrite (eqb_false a lid Nal).
  replace (match m with Keep => match [leg] with [] => true | _ :: _ => false end | _ => false end) with false by (destruct m; reflexivity).
  cbv zeta.
  set (s6 := sp_s6 sa t ql [leg] a lid 0 m _).
  set (shpO := map (wdim s6) (axes (sp_ot sa t ql))). set (shpI := map (wdim s6) (axes (sp_it sa t [leg]))).
  assert (LO : length shpO = nlegs nd).
  { unfold shpO, sp_ot. cbn [axes]. rewrite map_length, app_length, permute_length. cbn.
    pose proof (Permutation_length Hperm) as HL. rewrite seq_length, app_length in HL. cbn in HL. nlia. }
  assert (LI : length shpI = 2) by (unfold shpI, sp_it; cbn; reflexivity).
  pose proof (ni_virt _ _ _ (wf_node sa Wa a nd En)) as Vnd.
  assert (Gother : forall x on2 in2, x <> a -> x <> lid ->
            aget x (aset lid in2 (aset a on2 (nodes sa))) = aget x (nodes sa)).
  { intros x on2 in2 H1 H2. rewrite !aget_aset, (eqb_false x lid H2), (eqb_false x a H1). reflexivity. }
  assert (Hlsa : aget lid (nodes sa) = None).
  { apply aget_None. rewrite Hk. apply aget_None. exact Hl. }
  unfold build_qr_leg_specs in Eqr'.
  destruct (match parent nd with Some p => Nat.eqb p b | None => false end) eqn:Hco; injection Eqr' as <- <-.
  - (* the neighbour is the parent *)
    destruct (parent nd) as [p|] eqn:Hp; [|discriminate]. apply Nat.eqb_eq in Hco. subst p.
    assert (Hr : is_root nd = false) by (unfold is_root; rewrite Hp; reflexivity).
    cbn [ls_root ls_parent ls_children ls_open andb orb negb]. rewrite ?Hr. cbn [andb orb negb].
    unfold sp_in1, sp_out1, sp_in_children, sp_out_children, sp_in_above, sp_some. cbn [ls_root ls_parent ls_children ls_open orb app]. rewrite ?Hr.
    destruct (oltp_some (new_node shpI) b 1 eq_refl ltac:(rewrite new_node_nlegs, LI; cbn; lia)) as [in1 Ein1]. rewrite Ein1.
    destruct (open_leg_to_parent_wf _ _ _ _ (new_node_wf shpI) Ein1) as (Win1 & Pin1 & Cin1 & _ & Lin1 & _).
    assert (Nin1 : nlegs in1 = 2) by (unfold nlegs; rewrite (Permutation_length Lin1); fold (nlegs (new_node shpI)); rewrite new_node_nlegs; exact LI).
    assert (Vin1 : nvirt in1 = 1) by (unfold nvirt, nparents; rewrite Pin1, Cin1; reflexivity).
    match goal with |- context [open_legs_to_children in1 ?d] => destruct (olc_some in1 d) as [in2 Ein2] end;
      [intros x [<-|[]]; cbn; lia|]. rewrite Ein2.
    destruct (oltp_some (new_node shpO) lid (nlegs (new_node shpO) - 1) eq_refl) as [on1 Eon1].
    { rewrite new_node_nlegs, LO. cbn. unfold nvirt, nparents in Vnd. rewrite Hp in Vnd. nlia. }
    rewrite Eon1.
    destruct (open_leg_to_parent_wf _ _ _ _ (new_node_wf shpO) Eon1) as (Won1 & Pon1 & Con1 & _ & Lon1 & _).
    assert (Non1 : nlegs on1 = nlegs nd) by (unfold nlegs; rewrite (Permutation_length Lon1); fold (nlegs (new_node shpO)); rewrite new_node_nlegs; exact LO).
    assert (Von1 : nvirt on1 = 1) by (unfold nvirt, nparents; rewrite Pon1, Con1; reflexivity).
    destruct (olc_some on1 (enum_from 1 (children nd))) as [on2 Eon2].
    { intros x Hx. assert (Hs : In (snd x) (map snd (enum_from 1 (children nd)))) by (apply in_map; exact Hx).
      rewrite enum_from_snd in Hs. apply in_seq in Hs. unfold nvirt, nparents in Vnd. rewrite Hp in Vnd. nlia. }
    rewrite Eon2. unfold find_all_neighbour_ids. cbn [ls_parent ls_children app].
    rewrite ris_same_some.
    + destruct (wf_parent_child sa a nd b Wa En Hp) as (nbn & Eb & Hab).
      assert (Nba : b <> a) by (intros ->; exact (wf_not_self_parent sa a nd Wa En Hp)).
      assert (Nbl : b <> lid) by (intros ->; congruence).
      cbv beta iota.
      match goal with |- context [replace_in_some_neighbours ?l ?x ?y ?z] => destruct (ris_single_some l x y b nbn) as [l2 El2] end.
      * rewrite (Gother b on2 in2 Nba Nbl). exact Eb.
      * right. exact Hab.
      * unfold id in *. rewrite El2. eauto.
    + intros x Hx. destruct (wf_child_parent sa a nd x Wa En Hx) as (xn & Ex & Hpx). exists xn. split; [|left; exact Hpx].
      rewrite Gother; [exact Ex| |].
      * intros ->. exact (wf_not_self_parent sa a xn Wa Ex Hpx).
      * intros ->. congruence.
  - (* the neighbour is a child *)
    assert (Hpn : parent nd <> Some b).
    { destruct (parent nd) as [p|]; [|discriminate]. apply Nat.eqb_neq in Hco. congruence. }
    assert (Hc : In b (children nd)).
    { apply in_neighbouring in Hin'. destruct Hin' as [Hp'|Hc']; [congruence|exact Hc']. }
    cbn [ls_root ls_parent ls_children ls_open]. cbn [andb orb negb].
    unfold sp_in1, sp_out1, sp_in_children, sp_out_children, sp_in_above, sp_some. cbn [ls_root ls_parent ls_children ls_open orb app].
    replace (negb (is_root nd) && match parent nd with Some _ => false | None => true end) with false
      by (unfold is_root; destruct (parent nd); reflexivity).
    destruct (oltp_some (new_node shpI) a 0 eq_refl ltac:(rewrite new_node_nlegs, LI; cbn; lia)) as [in1 Ein1]. rewrite Ein1.
    destruct (open_leg_to_parent_wf _ _ _ _ (new_node_wf shpI) Ein1) as (Win1 & Pin1 & Cin1 & _ & Lin1 & _).
    assert (Nin1 : nlegs in1 = 2) by (unfold nlegs; rewrite (Permutation_length Lin1); fold (nlegs (new_node shpI)); rewrite new_node_nlegs; exact LI).
    assert (Vin1 : nvirt in1 = 1) by (unfold nvirt, nparents; rewrite Pin1, Cin1; reflexivity).
    match goal with |- context [open_legs_to_children in1 ?d] => destruct (olc_some in1 d) as [in2 Ein2] end;
      [intros x [<-|[]]; cbn; lia|]. rewrite Ein2.
    assert (Hch : length (children nd) = S (length (remove_first b (children nd)))).
    { pose proof (Permutation_length (remove_first_perm b (children nd) Hc)) as E. cbn in E. exact E. }
    assert (Hon1 : exists on1, (match parent nd with
                                | Some op => open_leg_to_parent (new_node shpO) op 0
                                | None => if is_root nd then Some (new_node shpO) else open_leg_to_parent (new_node shpO) lid (nlegs (new_node shpO) - 1)
                                end) = Some on1 /\ nlegs on1 = nlegs nd /\ nvirt on1 = nparents nd).
    { destruct (parent nd) as [pp|] eqn:Hpp.
      - destruct (oltp_some (new_node shpO) pp 0 eq_refl) as [on1 Eon1].
        { rewrite new_node_nlegs, LO. cbn. unfold nvirt, nparents in Vnd. rewrite Hpp in Vnd. nlia. }
        exists on1. split; [exact Eon1|].
        destruct (open_leg_to_parent_wf _ _ _ _ (new_node_wf shpO) Eon1) as (Won1 & Pon1 & Con1 & _ & Lon1 & _).
        split; [unfold nlegs; rewrite (Permutation_length Lon1); fold (nlegs (new_node shpO)); rewrite new_node_nlegs; exact LO|].
        unfold nvirt, nparents. rewrite Pon1, Con1, Hpp. reflexivity.
      - unfold is_root. rewrite Hpp. exists (new_node shpO). split; [reflexivity|]. split; [rewrite new_node_nlegs; exact LO|].
        unfold nparents. rewrite Hpp. reflexivity. }
    destruct Hon1 as (on1 & -> & Non1 & Von1).
    assert (Hnp : (if is_root nd then 0 else 1) = nparents nd) by (unfold is_root, nparents; destruct (parent nd); reflexivity).
    rewrite Hnp.
    match goal with |- context [open_legs_to_children on1 ?d] => destruct (olc_some on1 d) as [on2 Eon2] end.
    { unfold nvirt in Vnd. intros x [<-|Hx]; [cbn; nlia|].
      assert (Hs : In (snd x) (map snd (enum_from (nparents nd) (remove_first b (children nd))))) by (apply in_map; exact Hx).
      rewrite enum_from_snd in Hs. apply in_seq in Hs. nlia. }
    rewrite Eon2. unfold find_all_neighbour_ids. cbn [ls_parent ls_children app].
    rewrite ris_same_some.
    + destruct (wf_child_parent sa a nd b Wa En Hc) as (nbn & Eb & Hpb).
      assert (Nba : b <> a) by (intros ->; exact (wf_not_self_parent sa a nbn Wa Eb Hpb)).
      assert (Nbl : b <> lid) by (intros ->; congruence).
      cbv beta iota.
      match goal with |- context [replace_in_some_neighbours ?l ?x ?y ?z] => destruct (ris_single_some l x y b nbn) as [l2 El2] end.
      * rewrite (Gother b on2 in2 Nba Nbl). exact Eb.
      * left. exact Hpb.
      * unfold id in *. rewrite El2. eauto.
    + intros x Hx. apply in_app_or in Hx. destruct Hx as [Hx|Hx].
      * destruct (parent nd) as [pp|] eqn:Hpp; [|destruct Hx]. destruct Hx as [<-|[]].
        destruct (wf_parent_child sa a nd pp Wa En Hpp) as (ppn & Epp & Happ). exists ppn. split; [|right; exact Happ].
        rewrite Gother; [exact Epp| |].
        -- intros ->. exact (wf_not_self_parent sa a nd Wa En Hpp).
        -- intros ->. congruence.
      * apply In_remove_first_in in Hx. destruct (wf_child_parent sa a nd x Wa En Hx) as (xn & Ex & Hpx). exists xn. split; [|left; exact Hpx].
        rewrite Gother; [exact Ex| |].
        -- intros ->. exact (wf_not_self_parent sa a xn Wa Ex Hpx).
        -- intros ->. congruence.
Qed.

(* ==== success, part 4 ==== *)
Lemma split_site_some s a b lid nd0 :
  wf s -> aget a (nodes s) = Some nd0 -> In b (neighbouring_nodes nd0) -> aget lid (nodes s) = None ->
  exists s1, split_site s a b lid = Some s1.
Proof.
  intros W Ea Hin Hl. unfold split_site. rewrite Ea.
  destruct (split_qr_some s a b lid Keep nd0 W Ea Hin Hl) as [s1 E]. destruct (build_qr_leg_specs nd0 b). eauto.
Qed.

Lemma acc_some s n : wf s -> amem n (nodes s) = true -> exists s', acc s n = Some s'.
Proof.
  intros W H. apply amem_aget in H. destruct H as [nd E]. destruct (access_some s n nd W E) as (s' & nd' & t' & A).
  unfold acc. rewrite A. eauto.
Qed.

Lemma site_update_some s n : wf s -> amem n (nodes s) = true -> exists s', site_update s n = Some s'.
Proof.
  intros W H. destruct (acc_some s n W H) as [s1 E]. unfold site_update. rewrite E.
  destruct (acc_facts _ _ _ E) as (nd & t & _ & _ & _ & Et & _). unfold set_fresh. rewrite Et. cbn. eauto.
Qed.

(* after the split the link node and the neighbour are adjacent *)
Lemma split_site_adjacent s a b lid s1 nd0 :
  wf s -> aget a (nodes s) = Some nd0 -> In b (neighbouring_nodes nd0) -> aget lid (nodes s) = None ->
  split_site s a b lid = Some s1 ->
  exists nl nb1, aget lid (nodes s1) = Some nl /\ aget b (nodes s1) = Some nb1 /\ aget a (nodes s1) <> None /\
                 (parent nl = Some b \/ parent nb1 = Some lid) /\ a <> lid /\ b <> lid /\ a <> b.
Proof.
  intros W Ea Hin Hl H. assert (Nal : a <> lid) by (intros ->; congruence).
  apply in_neighbouring in Hin. destruct Hin as [Hp|Hc].
  - destruct (wf_parent_child s a nd0 b W Ea Hp) as (nbn & Eb & Hab).
    destruct (split_site_parent s a b lid s1 nd0 nbn W Ea Hp Eb Hl H)
      as (na & nl & tq & tr & df & A1 & A2 & A3 & A4 & A5 & A6 & A7 & _).
    exists nl, (with_children nbn (replace_first a lid (children nbn))). repeat split; auto; try congruence.
    intros ->. exact (wf_not_self_parent s b nd0 W Ea Hp).
  - destruct (wf_child_parent s a nd0 b W Ea Hc) as (nbn & Eb & Hpb).
    destruct (split_site_child s a b lid s1 nd0 nbn W Ea Hc Eb Hl H)
      as (na & nl & tq & tr & df & A1 & A2 & A3 & A4 & A5 & A6 & A7 & _).
    exists nl, (with_parent nbn (Some lid)). repeat split; auto; try congruence.
    intros ->. exact (wf_not_self_parent s b nbn W Eb Hpb).
Qed.

Lemma qr_keep_split s a b tmp : qr_to_neighbour s a b Keep tmp =
  match split_site s a b tmp with Some s1 => contract_nodes s1 b tmp b | None => None end.
Proof.
  unfold qr_to_neighbour, split_site. destruct (aget a (nodes s)) as [nd|]; [|reflexivity].
  destruct (build_qr_leg_specs nd b). reflexivity.
Qed.

Lemma qr_to_neighbour_some s a b tmp nd0 :
  wf s -> aget a (nodes s) = Some nd0 -> In b (neighbouring_nodes nd0) -> aget tmp (nodes s) = None ->
  exists s', qr_to_neighbour s a b Keep tmp = Some s'.
Proof.
  intros W Ea Hin Hl. rewrite qr_keep_split. destruct (split_site_some s a b tmp nd0 W Ea Hin Hl) as [s1 E1]. rewrite E1.
  pose proof (split_site_wf _ _ _ _ _ _ W Ea Hin Hl E1) as W1.
  destruct (split_site_adjacent s a b tmp s1 nd0 W Ea Hin Hl E1) as (nl & nb1 & El & Eb & _ & Hadj & _).
  apply (contract_nodes_some s1 b tmp b nb1 nl W1 Eb El); [tauto|left; reflexivity].
Qed.

Lemma link_update_some s a b lid nd0 :
  wf s -> aget a (nodes s) = Some nd0 -> In b (neighbouring_nodes nd0) -> aget lid (nodes s) = None ->
  exists s', link_update s a b lid = Some s'.
Proof.
  intros W Ea Hin Hl. unfold link_update. destruct (split_site_some s a b lid nd0 W Ea Hin Hl) as [s1 E1]. rewrite E1.
  pose proof (split_site_wf _ _ _ _ _ _ W Ea Hin Hl E1) as W1.
  destruct (split_site_adjacent s a b lid s1 nd0 W Ea Hin Hl E1) as (nl & nb1 & El & Eb & Ea1 & Hadj & Nal & Nbl & Nab).
  destruct (acc_some s1 a W1) as [s2 E2].
  { unfold amem. destruct (aget a (nodes s1)); [reflexivity|congruence]. }
  rewrite E2. pose proof (acc_wf _ _ _ W1 E2) as W2.
  destruct (acc_facts _ _ _ E2) as (na & tq & B1 & B2 & B3 & B4 & B5 & _).
  destruct (B5 lid (not_eq_sym Nal)) as [B5l _]. destruct (B5 b (not_eq_sym Nab)) as [B5b _].
  destruct (site_update_some s2 lid W2) as [s3 E3].
  { apply amem_aget. exists nl. rewrite B5l. exact El. }
  rewrite E3. pose proof (site_update_wf _ _ _ W2 E3) as W3.
  destruct (site_update_facts _ _ _ E3) as (nl' & tr' & C1 & C2 & C3 & C4 & C5 & _).
  rewrite B5l, El in C1. injection C1 as <-.
  destruct (C5 b Nbl) as [C5b _].
  apply (contract_nodes_some s3 lid b b (reset_permutation nl) nb1 W3 C3); [rewrite C5b, B5b; exact Eb| |right; reflexivity].
  cbn. tauto.
Qed.

(* move_orthogonalization_center succeeds between any two nodes of a well-formed tree *)
Lemma move_fold_some tmp : forall l s cur,
  wf s -> aget tmp (nodes s) = None -> iso_check (s, Some cur) = true -> walk s (cur :: l) ->
  exists cs', fold_left (move_step Keep tmp) l (Some (s, Some cur)) = Some cs'.
Proof.
  induction l as [|nb l IH]; intros s cur W Ht Hiso Hw; cbn [fold_left]; [eauto|].
  cbn [move_step]. destruct Hw as [(nd & Ec & Hin) Hw].
  destruct (qr_to_neighbour_some s cur nb tmp nd W Ec Hin Ht) as [s2 E]. rewrite E.
  destruct (move_step_iso _ _ _ _ _ _ (wf_tstruct s W) Ht Hiso E) as (I2 & T2 & R2 & S2).
  pose proof (qr_to_neighbour_wf _ _ _ _ _ _ W Ht E) as W2.
  apply (IH s2 nb W2 R2 I2).
  (* the rest of the walk is a walk in the new store: same tree *)
  clear -Hw S2 T2. revert nb Hw. induction l as [|y l IHl]; intros nb Hw; [exact I|].
  destruct Hw as [(n & En & Hy) Hw]. split; [|apply IHl; exact Hw].
  destruct (same_tree_some _ _ _ _ S2 En) as (n' & En' & _). exists n'. split; [exact En'|].
  apply (Permutation_in _ (same_tree_neighbours _ _ _ _ _ S2 En En')). exact Hy.
Qed.

Lemma move_center_some s c0 c tmp :
  wf s -> aget tmp (nodes s) = None -> iso_check (s, Some c0) = true ->
  amem c0 (nodes s) = true -> amem c (nodes s) = true ->
  exists cs', move_center (s, Some c0) c Keep tmp = Some cs'.
Proof.
  intros W Ht Hiso Hc0 Hc. unfold move_center. cbn [fst snd]. destruct (Nat.eqb c0 c); [eauto|].
  pose proof (wf_tstruct s W) as T.
  destruct (path_from_to_head s c0 c T Hc0 Hc) as [l El]. rewrite El. cbn [tl].
  apply (move_fold_some tmp l s c0 W Ht Hiso).
  pose proof (path_from_to_walk s c0 c T Hc0 Hc) as Hw. rewrite El in Hw. exact Hw.
Qed.

(* ==== shapes, part 1 ==== *)
(* ---- tensor shapes: every edge keeps its dimension, every open leg too ------------------------------------------- *)
(* the wire on the leg toward the parent is the edge's wire (both ends carry it, wf) *)
Definition dims_kept (s s' : store) : Prop :=
  (forall k nk nk', aget k (nodes s) = Some nk -> aget k (nodes s') = Some nk' ->
      map (wdim s') (open_of nk' (tens s' k)) = map (wdim s) (open_of nk (tens s k))) /\
  (forall k nk nk', aget k (nodes s) = Some nk -> aget k (nodes s') = Some nk' -> parent nk <> None ->
      wdim s' (nth 0 (lax s' k nk') 0) = wdim s (nth 0 (lax s k nk) 0)).

Lemma dims_kept_refl s : dims_kept s s.
Proof. split; intros k nk nk' E E'; rewrite E in E'; injection E' as <-; reflexivity. Qed.

Lemma dims_kept_trans s1 s2 s3 : same_tree (nodes s1) (nodes s2) -> dims_kept s1 s2 -> dims_kept s2 s3 -> dims_kept s1 s3.
Proof.
  intros S [A1 A2] [B1 B2]. split.
  - intros k n1 n3 E1 E3. destruct (same_tree_some _ _ _ _ S E1) as (n2 & E2 & _). rewrite (B1 k n2 n3 E2 E3). apply (A1 k n1 n2 E1 E2).
  - intros k n1 n3 E1 E3 Hp. destruct (same_tree_some _ _ _ _ S E1) as (n2 & E2 & P2 & _).
    rewrite (B2 k n2 n3 E2 E3 ltac:(congruence)). apply (A2 k n1 n2 E1 E2 Hp).
Qed.

(* operations that keep every logical axis list and the dimension table *)
Lemma dims_kept_lax s s' :
  (forall k nk nk', aget k (nodes s) = Some nk -> aget k (nodes s') = Some nk' ->
     lax s' k nk' = lax s k nk /\ parent nk' = parent nk /\ children nk' = children nk) ->
  dims s' = dims s -> dims_kept s s'.
Proof.
  intros H Hd. assert (Hw : forall w, wdim s' w = wdim s w) by (intros w; unfold wdim; rewrite Hd; reflexivity).
  split.
  - intros k nk nk' E E'. destruct (H k nk nk' E E') as (L & P & C).
    unfold open_of. fold (lax s' k nk'). fold (lax s k nk). rewrite L, (nvirt_ext nk' nk P C). apply map_ext. exact Hw.
  - intros k nk nk' E E' _. destruct (H k nk nk' E E') as (L & _). rewrite L. apply Hw.
Qed.

Lemma acc_lax s n s' : wf s -> acc s n = Some s' ->
  forall k nk nk', aget k (nodes s) = Some nk -> aget k (nodes s') = Some nk' ->
     lax s' k nk' = lax s k nk /\ parent nk' = parent nk /\ children nk' = children nk.
Proof.
  intros W H k nk nk' E E'. destruct (acc_inv _ _ _ H) as (nd & t & Ha).
  destruct (access_lax s n s' nd t k nk W Ha E) as (nk2 & E2 & P & C & L). rewrite E' in E2. injection E2 as <-. auto.
Qed.

Lemma set_fresh_lax s n s' : set_fresh s n = Some s' ->
  forall k nk nk', aget k (nodes s) = Some nk -> aget k (nodes s') = Some nk' ->
     lax s' k nk' = lax s k nk /\ parent nk' = parent nk /\ children nk' = children nk.
Proof.
  intros H k nk nk' E E'. destruct (set_fresh_facts _ _ _ H) as (t & Et & Hn & Ht & _).
  rewrite Hn, E in E'. injection E' as <-. split; [|auto]. unfold lax, tens. rewrite Ht, aget_aset.
  destruct (Nat.eqb_spec k n) as [->|_]; [rewrite Et; reflexivity|reflexivity].
Qed.

Lemma acc_dims_kept s n s' : wf s -> acc s n = Some s' -> dims_kept s s'.
Proof.
  intros W H. apply dims_kept_lax; [apply (acc_lax s n s' W H)|]. destruct (acc_facts _ _ _ H) as (_ & _ & _ & _ & _ & _ & _ & _ & _ & _ & D & _). exact D.
Qed.

Lemma site_update_lax s n s' : wf s -> site_update s n = Some s' ->
  forall k nk nk', aget k (nodes s) = Some nk -> aget k (nodes s') = Some nk' ->
     lax s' k nk' = lax s k nk /\ parent nk' = parent nk /\ children nk' = children nk.
Proof.
  unfold site_update. intros W H k nk nk' E E'. destruct (acc s n) as [s1|] eqn:E1; [|discriminate].
  destruct (acc_same_tree _ _ _ E1) as [S1 _]. destruct (same_tree_some _ _ _ _ S1 E) as (n1 & En1 & _).
  destruct (acc_lax s n s1 W E1 k nk n1 E En1) as (L1 & P1 & C1).
  destruct (set_fresh_lax s1 n s' H k n1 nk' En1 E') as (L2 & P2 & C2). repeat split; congruence.
Qed.

Lemma site_update_dims_kept s n s' : wf s -> site_update s n = Some s' -> dims_kept s s'.
Proof.
  intros W H. apply dims_kept_lax; [apply (site_update_lax s n s' W H)|].
  destruct (site_update_facts _ _ _ H) as (_ & _ & _ & _ & _ & _ & _ & _ & _ & _ & D & _). exact D.
Qed.

(* a wire that existed before a fresh one was registered keeps its dimension *)
Lemma wdim_old s s' bd w : dims s' = dims s ++ [(next_wire s, bd)] -> w < next_wire s -> wdim s' w = wdim s w.
Proof.
  intros Hd Hw. unfold wdim. rewrite Hd, aget_app. destruct (aget w (dims s)); [reflexivity|]. cbn.
  destruct (Nat.eqb_spec w (next_wire s)); [lia|reflexivity].
Qed.

Lemma wdim_new s s' bd : wf s -> dims s' = dims s ++ [(next_wire s, bd)] -> wdim s' (next_wire s) = bd.
Proof.
  intros W Hd. unfold wdim. rewrite Hd, aget_app.
  assert (Hn : aget (next_wire s) (dims s) = None).
  { apply aget_None. intros Hin. pose proof (wf_dims s W _ Hin). lia. }
  rewrite Hn. cbn. rewrite Nat.eqb_refl. reflexivity.
Qed.

Lemma lax_wires s k nk w : wf s -> aget k (nodes s) = Some nk -> In w (lax s k nk) -> w < next_wire s.
Proof.
  intros W E Hin. pose proof (wf_tens s k nk W E) as Et. apply (wf_wires s W k (tens s k) w Et).
  unfold lax, laxes in Hin. apply (permute_incl 0 (perm nk) (axes (tens s k))); [|exact Hin].
  intros i Hi. pose proof (wf_axes_length s k nk W E) as HL. pose proof (wf_node_wf s k nk W E) as Hwf.
  pose proof (nlegs_shape nk Hwf) as HS. destruct Hwf as [Hp _]. pose proof (perm_bound _ _ Hp i Hi) as Hb.
  unfold wire, id in *. lia.
Qed.

(* ---- the move of the centre along the edge {a, b} -------------------------------------------------------------- *)
Record deffect (s : store) (a b : id) (s' : store) : Prop := {
  de_dims : exists bd nd leg, dims s' = dims s ++ [(next_wire s, bd)] /\ aget a (nodes s) = Some nd /\
              neighbour_index nd b = Some leg /\ bd = wdim s (nth leg (lax s a nd) 0);
  de_wire : exists nd' leg', aget a (nodes s') = Some nd' /\ neighbour_index nd' b = Some leg' /\
              nth leg' (lax s' a nd') 0 = next_wire s;
  de_open : forall k nk nk', aget k (nodes s) = Some nk -> aget k (nodes s') = Some nk' ->
              open_of nk' (tens s' k) = open_of nk (tens s k);
  de_other : forall k, k <> a -> k <> b -> aget k (nodes s') = aget k (nodes s) /\
              (In k (akeys (nodes s)) -> aget k (tensors s') = aget k (tensors s));
  de_tree : same_tree (nodes s) (nodes s')
}.

Lemma open_of_incl nk t : incl (open_of nk t) (laxes nk t).
Proof. unfold open_of. intros x Hx. rewrite <- (firstn_skipn (nvirt nk) (laxes nk t)). apply in_or_app. right. exact Hx. Qed.

Lemma deffect_dims_kept s a b s' : wf s -> wf s' -> a <> b -> deffect s a b s' -> dims_kept s s'.
Proof.
  intros W W' Nab [(bd & nd & leg & Hd & Ea & Hleg & Hbd) (nd' & leg' & Ea' & Hleg' & Hnw) Hopen Hother Htree].
  assert (Hold : forall w, w < next_wire s -> wdim s' w = wdim s w) by (intros w; apply (wdim_old s s' bd w Hd)).
  split.
  - intros k nk nk' E E'. rewrite (Hopen k nk nk' E E'). apply map_ext_in. intros w Hw. apply Hold.
    apply (lax_wires s k nk w W E). apply open_of_incl. exact Hw.
  - intros k nk nk' E E' Hp. destruct (parent nk) as [p|] eqn:Pk; [clear Hp|congruence].
    destruct (same_tree_some _ _ _ _ Htree E) as (nk2 & E2 & P2 & _). rewrite E' in E2. injection E2 as <-.
    assert (Pk' : parent nk' = Some p) by congruence.
    (* the wire toward the parent, seen from the parent *)
    destruct (ni_par _ _ _ (wf_node s W k nk E) p Pk) as (pn & i & Ep & Hin & Hi & Hw).
    destruct (ni_par _ _ _ (wf_node s' W' k nk' E') p Pk') as (pn' & i' & Ep' & Hin' & Hi' & Hw').
    assert (Hunt : forall x nx nx', x <> a -> x <> b -> aget x (nodes s) = Some nx -> aget x (nodes s') = Some nx' ->
                     nx' = nx /\ lax s' x nx' = lax s x nx).
    { intros x nx nx' Xa Xb Ex Ex'. destruct (Hother x Xa Xb) as [On Ot]. rewrite On, Ex in Ex'. injection Ex' as <-.
      split; [reflexivity|]. unfold lax, tens. rewrite (Ot (aget_Some_keys _ _ _ Ex)). reflexivity. }
    assert (Hwold : forall x nx j, aget x (nodes s) = Some nx -> j < nlegs nx -> nth j (lax s x nx) 0 < next_wire s).
    { intros x nx j Ex Hj. apply (lax_wires s x nx _ W Ex). apply nth_In. unfold lax. rewrite laxes_length. exact Hj. }
    assert (Hk0 : 0 < nlegs nk).
    { pose proof (ni_virt _ _ _ (wf_node s W k nk E)). unfold nvirt, nparents in H. rewrite Pk in H. lia. }
    destruct (Nat.eq_dec k a) as [->|Hka]; [|destruct (Nat.eq_dec k b) as [->|Hkb]].
    + (* k = a *)
      rewrite Ea in E. injection E as <-. rewrite Ea' in E'. injection E' as <-.
      destruct (Nat.eq_dec p b) as [->|Hpb].
      * (* the moved edge, seen from a *)
        assert (leg = 0) by (unfold neighbour_index in Hleg; rewrite Pk, Nat.eqb_refl in Hleg; congruence).
        assert (leg' = 0) by (unfold neighbour_index in Hleg'; rewrite Pk', Nat.eqb_refl in Hleg'; congruence).
        subst leg leg'. rewrite Hnw, (wdim_new s s' bd W Hd). exact Hbd.
      * assert (Hpa : p <> a) by (intros ->; exact (wf_not_self_parent s a nd W Ea Pk)).
        destruct (Hunt p pn pn' Hpa Hpb Ep Ep') as [-> Lp]. rewrite Hi in Hi'. injection Hi' as <-.
        rewrite Hw', Lp, <- Hw. apply Hold. apply (Hwold a nd 0 Ea Hk0).
    + (* k = b *)
      destruct (Nat.eq_dec p a) as [->|Hpa].
      * (* the moved edge, seen from b: the parent is a *)
        rewrite Ea in Ep. injection Ep as <-. rewrite Ea' in Ep'. injection Ep' as <-.
        rewrite Hleg in Hi. injection Hi as <-. rewrite Hleg' in Hi'. injection Hi' as <-.
        rewrite Hw', Hnw, (wdim_new s s' bd W Hd), Hw. exact Hbd.
      * assert (Hpb : p <> b) by (intros ->; exact (wf_not_self_parent s b nk W E Pk)).
        destruct (Hunt p pn pn' Hpa Hpb Ep Ep') as [-> Lp]. rewrite Hi in Hi'. injection Hi' as <-.
        rewrite Hw', Lp, <- Hw. apply Hold. apply (Hwold b nk 0 E Hk0).
    + destruct (Hunt k nk nk' Hka Hkb E E') as [-> L]. rewrite L. apply Hold. apply (Hwold k nk 0 E Hk0).
Qed.

(* ==== shapes, part 2 ==== *)
(* ---- the split of the centre toward a neighbour in KEEP mode: bond dimension and open legs ---------------------- *)
Lemma split_site_dims_open s a b lid s1 nd0 :
  wf s -> aget a (nodes s) = Some nd0 -> In b (neighbouring_nodes nd0) -> aget lid (nodes s) = None ->
  split_site s a b lid = Some s1 ->
  exists leg na nl,
    neighbour_index nd0 b = Some leg /\
    dims s1 = dims s ++ [(next_wire s, wdim s (nth leg (lax s a nd0) 0))] /\
    aget a (nodes s1) = Some na /\ open_of na (tens s1 a) = open_of nd0 (tens s a) /\
    aget lid (nodes s1) = Some nl /\ open_of nl (tens s1 lid) = [] /\
    (forall k nk, k <> a -> aget k (nodes s) = Some nk ->
       exists nk', aget k (nodes s1) = Some nk' /\ open_of nk' (tens s1 k) = open_of nk (tens s k)).
Proof.
  intros W Ea Hin Hl H. unfold split_site in H. rewrite Ea in H.
  destruct (build_qr_leg_specs nd0 b) as [q r] eqn:Eqr.
  pose proof (build_qr_specs_ok nd0 b Hin) as [Hq Hr]. rewrite Eqr in Hq, Hr. cbn [fst snd] in Hq, Hr.
  assert (Hspec : spec_ok s a q r) by (intros nd' E'; rewrite Ea in E'; injection E' as <-; auto).
  assert (Hids : ids_ok s a a lid) by (split; [left; reflexivity|right; apply aget_None; exact Hl]).
  destruct (split_open_legs s a q r a lid 0 Keep 0 s1 nd0 W H Hspec Hids Ea) as (no & ni & Eno & Eni & Oo & Oi & Ooth).
  destruct (split_new_def s a q r a lid 0 Keep 0 s1 {| kq := 0; kr := 0; kbond := 0; kinput := empty_sarr; kkind := 0; kmode := None |} W H)
    as (sa & nd & t & ol & il & bd & Ha & Hlog & Fo & Fi & _ & Hbd & _ & _ & _ & _ & _ & _ & Hdims & _).
  destruct (split_access_facts _ _ _ _ _ W Ha) as (nd0' & t0 & En0 & Et0 & End & Etr & Wa & En & Et & Hid & Hk & Hlax & Ht0).
  rewrite Ea in En0. injection En0 as <-.
  pose proof (wf_node_wf sa a nd Wa En) as Wnd.
  assert (Hin' : In b (neighbouring_nodes nd)) by (rewrite End; exact Hin).
  assert (Hndn : NoDup (neighbouring_nodes nd)) by (apply (ts_neighbours_nodup _ _ _ (wf_tstruct sa Wa) En)).
  assert (Eqr' : build_qr_leg_specs nd b = (q, r)) by (rewrite End, build_qr_reset; exact Eqr).
  destruct (build_qr_leg_specs_partition nd b q r Wnd Hndn Hin' Eqr') as (leg & ql & Hleg & Fq & Fr & Hperm & Hql).
  rewrite Fi in Fr. injection Fr as ->.
  assert (Hleg0 : neighbour_index nd0 b = Some leg).
  { rewrite <- Hleg. rewrite End. apply neighbour_index_ext; reflexivity. }
  exists leg, no, ni. split; [exact Hleg0|]. split.
  { rewrite Hdims, Hbd. unfold sp_bd. cbn [qr_bond_dim permute map prod_list fold_right]. rewrite Nat.mul_1_r, Hlax. reflexivity. }
  split; [exact Eno|]. split.
  { rewrite Oo. assert (Hop : ls_open q = seq (nvirt nd0) (nopen nd0)).
    { unfold build_qr_leg_specs in Eqr. destruct (match parent nd0 with Some p => Nat.eqb p b | None => false end); injection Eqr as <- _; reflexivity. }
    rewrite Hop. unfold open_of. fold (lax s a nd0).
    assert (HL : length (lax s a nd0) = nlegs nd0) by (unfold lax; apply laxes_length).
    pose proof (ni_virt _ _ _ (wf_node s W a nd0 Ea)) as Hv.
    rewrite map_nth_seq by (unfold nopen; lia). apply firstn_all2. rewrite skipn_length. unfold nopen. lia. }
  split; [exact Eni|]. split.
  { rewrite Oi. assert (Hop : ls_open r = []).
    { unfold build_qr_leg_specs in Eqr. destruct (match parent nd0 with Some p => Nat.eqb p b | None => false end); injection Eqr as _ <-; reflexivity. }
    rewrite Hop. reflexivity. }
  intros k nk Hka Ek. destruct (Ooth k nk Hka Ek) as (nk' & E' & O' & _). eauto.
Qed.

(* open legs survive a read / a raw replacement *)
Lemma open_of_lax s s' k nk nk' :
  lax s' k nk' = lax s k nk /\ parent nk' = parent nk /\ children nk' = children nk ->
  open_of nk' (tens s' k) = open_of nk (tens s k).
Proof. intros (L & P & C). apply open_of_ext; assumption. Qed.

(* a step_effect is a weffect *)
Lemma step_effect_weffect s n nb tmp s' nd :
  tstruct (nodes s) -> aget tmp (nodes s) = None -> aget n (nodes s) = Some nd -> In nb (neighbouring_nodes nd) ->
  step_effect s n nb tmp s' nd -> weffect s n nb s' nd.
Proof.
  intros T Ht En Hin SE. destruct (se_node _ _ _ _ _ _ SE) as (nd' & t' & leg & A1 & A2 & A3 & A4 & A5 & A6 & A7).
  destruct (se_defs _ _ _ _ _ _ SE) as (df & D1 & D2 & D3 & D4).
  destruct (se_nb _ _ _ _ _ _ SE) as (nbn & nbn' & B1 & B2 & B3 & B4).
  constructor.
  - exists nd', t', leg, df. split; [exact A1|]. split; [exact A2|]. split; [rewrite A3, D2; reflexivity|].
    split; [rewrite D1; apply in_or_app; right; left; reflexivity|]. split; [exact D3|]. split; [exact A4|].
    split; [rewrite A5, D4; reflexivity|]. split; [exact A6|]. split; [|exact D4]. rewrite A7.
    destruct (match parent nd with Some p => Nat.eqb p nb | None => false end) eqn:Hco; [apply Permutation_refl|].
    symmetry. apply remove_first_perm. apply in_neighbouring in Hin. destruct Hin as [Hp|Hc]; [|exact Hc].
    rewrite Hp, Nat.eqb_refl in Hco. discriminate.
  - rewrite D1. intros x Hx. apply in_or_app. left. exact Hx.
  - apply (se_other_n _ _ _ _ _ _ SE).
  - intros k K1 K2 Hk. apply (se_other_t _ _ _ _ _ _ SE k K1 K2). intros ->. apply aget_None in Ht. contradiction.
  - exists nbn, nbn'. split; [exact B1|]. split; [exact B2|]. split; [exact B3|]. rewrite B4.
    destruct (match parent nd with Some p => Nat.eqb p nb | None => false end) eqn:Hco; [|apply Permutation_refl].
    destruct (parent nd) as [p|] eqn:Hpn; [|discriminate]. apply Nat.eqb_eq in Hco. subst p.
    destruct (ts_par _ T _ _ _ En Hpn) as (pn & Epn & Hnin). rewrite B1 in Epn. injection Epn as <-.
    rewrite (remove_first_perm n (children nbn) Hnin) at 2. symmetry. apply Permutation_cons_append.
  - split; [rewrite (se_keys _ _ _ _ _ _ SE); apply (ts_nd _ T)|].
    rewrite <- !length_akeys, (se_keys _ _ _ _ _ _ SE). reflexivity.
Qed.

(* ==== shapes, part 3 ==== *)
Lemma acc_open s n s' : wf s -> acc s n = Some s' ->
  forall k nk, aget k (nodes s) = Some nk ->
  exists nk', aget k (nodes s') = Some nk' /\ open_of nk' (tens s' k) = open_of nk (tens s k).
Proof.
  intros W H k nk E. destruct (acc_same_tree _ _ _ H) as [S _]. destruct (same_tree_some _ _ _ _ S E) as (nk' & E' & _).
  exists nk'. split; [exact E'|]. apply open_of_lax. apply (acc_lax s n s' W H k nk nk' E E').
Qed.

Lemma site_update_open s n s' : wf s -> site_update s n = Some s' ->
  forall k nk, aget k (nodes s) = Some nk ->
  exists nk', aget k (nodes s') = Some nk' /\ open_of nk' (tens s' k) = open_of nk (tens s k).
Proof.
  intros W H k nk E. destruct (site_update_same_tree _ _ _ H) as [S _]. destruct (same_tree_some _ _ _ _ S E) as (nk' & E' & _).
  exists nk'. split; [exact E'|]. apply open_of_lax. apply (site_update_lax s n s' W H k nk nk' E E').
Qed.

(* the bond wire in logical-axis form *)
Lemma weffect_wire s a b s' nd : wf s' -> weffect s a b s' nd ->
  exists nd' leg', aget a (nodes s') = Some nd' /\ neighbour_index nd' b = Some leg' /\ nth leg' (lax s' a nd') 0 = next_wire s.
Proof.
  intros W' WE. destruct (we_node _ _ _ _ _ WE) as (nd' & t' & leg & df & E1 & E2 & _ & _ & _ & E6 & E7 & _ & _ & E10).
  exists nd', leg. split; [exact E1|]. split; [exact E6|].
  unfold lax, laxes. rewrite (tens_aget _ _ _ E2). rewrite nth_permute; [transitivity (kbond df); [exact E7|exact E10]|].
  pose proof (neighbour_index_bound _ _ _ E6). pose proof (ni_virt _ _ _ (wf_node s' W' a nd' E1)). unfold nlegs in *. lia.
Qed.

Lemma link_update_deffect s a b lid s' nd0 :
  wf s -> aget a (nodes s) = Some nd0 -> In b (neighbouring_nodes nd0) -> aget lid (nodes s) = None ->
  link_update s a b lid = Some s' -> deffect s a b s'.
Proof.
  intros W Ea Hin Hl H.
  destruct (link_update_effect s a b lid s' nd0 W Ea Hin Hl H) as (W' & WE & Gl).
  destruct (ts_neighbour_sym _ _ _ _ (wf_tstruct s W) Ea Hin) as (nbn & Eb & _ & Nba).
  destruct (weffect_same_tree _ _ _ _ _ (wf_tstruct s W) Ea (not_eq_sym Nba) WE) as [S' _].
  unfold link_update in H.
  destruct (split_site s a b lid) as [s1|] eqn:E1; [|discriminate].
  destruct (acc s1 a) as [s2|] eqn:E2; [|discriminate].
  destruct (site_update s2 lid) as [s3|] eqn:E3; [|discriminate].
  pose proof (split_site_wf _ _ _ _ _ _ W Ea Hin Hl E1) as W1.
  pose proof (acc_wf _ _ _ W1 E2) as W2. pose proof (site_update_wf _ _ _ W2 E3) as W3.
  assert (Nal : a <> lid) by (intros ->; congruence). assert (Nbl : b <> lid) by (intros ->; congruence).
  destruct (split_site_dims_open s a b lid s1 nd0 W Ea Hin Hl E1) as (leg & na & nl & Hleg & Hd1 & Ena & Oa & Enl & Ol & Ooth).
  destruct (acc_facts _ _ _ E2) as (_ & _ & _ & _ & _ & _ & _ & _ & _ & _ & D2 & _).
  destruct (site_update_facts _ _ _ E3) as (_ & _ & _ & _ & _ & _ & _ & _ & _ & _ & D3 & _).
  destruct (contract_explicit s3 lid b b s' W3 H ltac:(right; left; reflexivity))
    as (p & c & pn0 & cn0 & nn & _ & _ & _ & _ & _ & _ & _ & _ & _ & _ & _ & _ & _ & _ & _ & D4 & _).
  (* open legs in s3 *)
  assert (O3 : forall k nk1, aget k (nodes s1) = Some nk1 ->
            exists nk3, aget k (nodes s3) = Some nk3 /\ open_of nk3 (tens s3 k) = open_of nk1 (tens s1 k)).
  { intros k nk1 Ek1. destruct (acc_open s1 a s2 W1 E2 k nk1 Ek1) as (nk2 & Ek2 & O2).
    destruct (site_update_open s2 lid s3 W2 E3 k nk2 Ek2) as (nk3 & Ek3 & O3). exists nk3. split; [exact Ek3|congruence]. }
  destruct (O3 lid nl Enl) as (nl3 & Enl3 & Ol3). rewrite Ol in Ol3.
  destruct (Ooth b nbn Nba Eb) as (nb1 & Enb1 & Ob1). destruct (O3 b nb1 Enb1) as (nb3 & Enb3 & Ob3).
  destruct (contract_open_rule s3 lid b b s' nl3 nb3 W3 H ltac:(right; left; reflexivity) Enl3 Enb3) as (nn' & Enn' & Onn & Orest).
  constructor.
  - exists (wdim s (nth leg (lax s a nd0) 0)), nd0, leg. split; [rewrite D4, D3, D2; exact Hd1|]. auto.
  - apply (weffect_wire s a b s' nd0 W' WE).
  - intros k nk nk' Ek Ek'. destruct (Nat.eq_dec k b) as [->|Hkb].
    + rewrite Eb in Ek. injection Ek as <-. rewrite Enn' in Ek'. injection Ek' as <-.
      rewrite Onn, Ol3. cbn [app]. congruence.
    + assert (Hkl : k <> lid) by (intros ->; congruence).
      assert (Hk1 : exists nk1, aget k (nodes s1) = Some nk1 /\ open_of nk1 (tens s1 k) = open_of nk (tens s k)).
      { destruct (Nat.eq_dec k a) as [->|Hka].
        - rewrite Ea in Ek. injection Ek as <-. eauto.
        - apply (Ooth k nk Hka Ek). }
      destruct Hk1 as (nk1 & Ek1 & Ok1). destruct (O3 k nk1 Ek1) as (nk3 & Ek3 & Ok3).
      destruct (Orest k nk3 Ek3 Hkl Hkb) as (nk4 & Ek4 & _ & Ok4). rewrite Ek' in Ek4. injection Ek4 as <-. congruence.
  - intros k Ka Kb. split; [apply (we_other_n _ _ _ _ _ WE k Ka Kb)|apply (we_other_t _ _ _ _ _ WE k Ka Kb)].
  - exact S'.
Qed.

(* the same for one step of move_orthogonalization_center in KEEP mode *)
Lemma qr_keep_deffect s a b tmp s' :
  wf s -> aget tmp (nodes s) = None -> qr_to_neighbour s a b Keep tmp = Some s' ->
  a <> b /\ wf s' /\ deffect s a b s'.
Proof.
  intros W Ht H. pose proof (wf_tstruct s W) as T.
  destruct (qr_step_effect _ _ _ _ _ _ T Ht H) as (nd0 & Ea & Hin & SE).
  pose proof (step_effect_weffect s a b tmp s' nd0 T Ht Ea Hin SE) as WE.
  pose proof (qr_to_neighbour_wf _ _ _ _ _ _ W Ht H) as W'.
  destruct (ts_neighbour_sym _ _ _ _ T Ea Hin) as (nbn & Eb & _ & Nba).
  destruct (weffect_same_tree _ _ _ _ _ T Ea (not_eq_sym Nba) WE) as [S' _].
  split; [exact (not_eq_sym Nba)|]. split; [exact W'|].
  rewrite qr_keep_split in H. destruct (split_site s a b tmp) as [s1|] eqn:E1; [|discriminate].
  pose proof (split_site_wf _ _ _ _ _ _ W Ea Hin Ht E1) as W1.
  assert (Nal : a <> tmp) by (intros ->; congruence). assert (Nbl : b <> tmp) by (intros ->; congruence).
  destruct (split_site_dims_open s a b tmp s1 nd0 W Ea Hin Ht E1) as (leg & na & nl & Hleg & Hd1 & Ena & Oa & Enl & Ol & Ooth).
  destruct (contract_explicit s1 b tmp b s' W1 H ltac:(left; reflexivity))
    as (p & c & pn0 & cn0 & nn & _ & _ & _ & _ & _ & _ & _ & _ & _ & _ & _ & _ & _ & _ & _ & D4 & _).
  destruct (Ooth b nbn Nba Eb) as (nb1 & Enb1 & Ob1).
  destruct (contract_open_rule s1 b tmp b s' nb1 nl W1 H ltac:(left; reflexivity) Enb1 Enl) as (nn' & Enn' & Onn & Orest).
  constructor.
  - exists (wdim s (nth leg (lax s a nd0) 0)), nd0, leg. split; [rewrite D4; exact Hd1|]. auto.
  - apply (weffect_wire s a b s' nd0 W' WE).
  - intros k nk nk' Ek Ek'. destruct (Nat.eq_dec k b) as [->|Hkb].
    + rewrite Eb in Ek. injection Ek as <-. rewrite Enn' in Ek'. injection Ek' as <-.
      rewrite Onn, Ol, app_nil_r. exact Ob1.
    + assert (Hkl : k <> tmp) by (intros ->; congruence).
      assert (Hk1 : exists nk1, aget k (nodes s1) = Some nk1 /\ open_of nk1 (tens s1 k) = open_of nk (tens s k)).
      { destruct (Nat.eq_dec k a) as [->|Hka].
        - rewrite Ea in Ek. injection Ek as <-. eauto.
        - apply (Ooth k nk Hka Ek). }
      destruct Hk1 as (nk1 & Ek1 & Ok1).
      destruct (Orest k nk1 Ek1 Hkb Hkl) as (nk4 & Ek4 & _ & Ok4). rewrite Ek' in Ek4. injection Ek4 as <-. congruence.
  - intros k Ka Kb. split; [apply (we_other_n _ _ _ _ _ WE k Ka Kb)|apply (we_other_t _ _ _ _ _ WE k Ka Kb)].
  - exact S'.
Qed.

Lemma link_update_dims_kept s a b lid s' nd0 :
  wf s -> aget a (nodes s) = Some nd0 -> In b (neighbouring_nodes nd0) -> aget lid (nodes s) = None ->
  link_update s a b lid = Some s' -> dims_kept s s'.
Proof.
  intros W Ea Hin Hl H. destruct (link_update_effect s a b lid s' nd0 W Ea Hin Hl H) as (W' & _ & _).
  destruct (ts_neighbour_sym _ _ _ _ (wf_tstruct s W) Ea Hin) as (nbn & Eb & _ & Nba).
  apply (deffect_dims_kept s a b s' W W' (not_eq_sym Nba)). eapply link_update_deffect; eauto.
Qed.

Lemma move_fold_dims tmp : forall l s cur cs',
  wf s -> aget tmp (nodes s) = None -> iso_check (s, Some cur) = true ->
  fold_left (move_step Keep tmp) l (Some (s, Some cur)) = Some cs' -> dims_kept s (fst cs').
Proof.
  induction l as [|nb l IH]; intros s cur cs' W Ht Hiso H; cbn [fold_left] in H.
  - injection H as <-. apply dims_kept_refl.
  - cbn [move_step] in H. destruct (qr_to_neighbour s cur nb Keep tmp) as [s2|] eqn:E; [|rewrite move_fold_none in H; discriminate].
    destruct (move_step_iso _ _ _ _ _ _ (wf_tstruct s W) Ht Hiso E) as (I2 & T2 & R2 & S2).
    destruct (qr_keep_deffect s cur nb tmp s2 W Ht E) as (Hne & W2 & DE).
    apply (dims_kept_trans s s2 (fst cs') S2); [apply (deffect_dims_kept s cur nb s2 W W2 Hne DE)|].
    apply (IH s2 nb cs' W2 R2 I2 H).
Qed.

Lemma move_center_dims_kept s c0 c tmp cs' :
  wf s -> aget tmp (nodes s) = None -> iso_check (s, Some c0) = true ->
  move_center (s, Some c0) c Keep tmp = Some cs' -> dims_kept s (fst cs').
Proof.
  intros W Ht Hiso H. unfold move_center in H. cbn [fst snd] in H. destruct (Nat.eqb c0 c).
  - injection H as <-. apply dims_kept_refl.
  - apply (move_fold_dims tmp _ s c0 cs' W Ht Hiso H).
Qed.

