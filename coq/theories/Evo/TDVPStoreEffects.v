(* Store-level effects of the operations of a one-site TDVP sweep (Evo/TDVPStore.v) on the Layer-W store:
   site_update / acc keep the invariant, the tree and the isometry attribute; move_center keeps all of them and
   arrives; the link update (split_node_qr, cache read, link evolution, contract_nodes(link, next)) moves the
   centre along an edge like one canonicalisation step but with ITS OWN child order (weffect).
   Proofs only.  The run-level theorems are in Evo/TDVPStoreProofs.v. *)
From Coq Require Import List Arith Bool Lia Permutation ZArith.
From PTN Require Import TTN.Store TTN.StoreProofs TTN.Canon TTN.CanonProofs TTN.Inv TTN.InvProofs TTN.InvNode TTN.InvBuild
  TTN.InvContract TTN.InvSplit TTN.CanonTree TTN.CanonMore TTN.CanonStep TTN.CanonDist TTN.CanonPath TTN.CanonIso.
From PTN Require Import Evo.TDVPStore.
Import ListNotations.

(* ==== part 1 ==== *)
Ltac nlia := unfold id, wire in *; lia.

(* ---- weak step effect: what one move of the centre along an edge does, children up to order ------------ *)
Record weffect (s : store) (n nb : id) (s' : store) (nd : node) : Prop := {
  we_node : exists nd' t' leg df,
      aget n (nodes s') = Some nd' /\ aget n (tensors s') = Some t' /\ atoms t' = [kq df] /\
      In df (defs s') /\ kkind df = 0 /\ neighbour_index nd' nb = Some leg /\
      nth (nth leg (perm nd') 0) (axes t') 0 = kbond df /\
      parent nd' = parent nd /\ Permutation (children nd') (children nd);
  we_defs : incl (defs s) (defs s');
  we_other_n : forall k, k <> n -> k <> nb -> aget k (nodes s') = aget k (nodes s);
  we_other_t : forall k, k <> n -> k <> nb -> In k (akeys (nodes s)) -> aget k (tensors s') = aget k (tensors s);
  we_nb : exists nbn nbn', aget nb (nodes s) = Some nbn /\ aget nb (nodes s') = Some nbn' /\
      parent nbn' = parent nbn /\ Permutation (children nbn') (children nbn);
  we_keys : NoDup (akeys (nodes s')) /\ length (nodes s') = length (nodes s)
}.

Lemma weffect_same_tree s n nb s' nd :
  tstruct (nodes s) -> aget n (nodes s) = Some nd -> n <> nb -> weffect s n nb s' nd ->
  same_tree (nodes s) (nodes s') /\ tstruct (nodes s').
Proof.
  intros T E0 Hne W.
  assert (S : same_tree (nodes s) (nodes s')).
  { split; [symmetry; apply (proj2 (we_keys _ _ _ _ _ W))|].
    intros k. destruct (Nat.eq_dec k n) as [->|Hkn].
    - destruct (we_node _ _ _ _ _ W) as (nd' & t' & leg & df & En' & _ & _ & _ & _ & _ & _ & Hp & Hc).
      rewrite E0, En'. split; [symmetry; exact Hp|symmetry; exact Hc].
    - destruct (Nat.eq_dec k nb) as [->|Hkb].
      + destruct (we_nb _ _ _ _ _ W) as (nbn & nbn' & Eb & Eb' & Hp & Hc).
        rewrite Eb, Eb'. split; [symmetry; exact Hp|symmetry; exact Hc].
      + rewrite (we_other_n _ _ _ _ _ W k Hkn Hkb). destruct (aget k (nodes s)); auto. }
  split; [exact S|]. apply (tstruct_same_tree _ _ T S). apply (proj1 (we_keys _ _ _ _ _ W)).
Qed.

Lemma good_preserved_w d s s' n nb nd k :
  weffect s n nb s' nd -> good d s k -> k <> n -> k <> nb -> good d s' k.
Proof.
  intros W (ndk & t & a & leg & x & df & G1 & G2 & G3 & G4 & G5 & G6 & G7 & G8) Hkn Hkb.
  exists ndk, t, a, leg, x, df. rewrite (we_other_n _ _ _ _ _ W k Hkn Hkb).
  rewrite (we_other_t _ _ _ _ _ W k Hkn Hkb (aget_Some_keys _ _ _ G1)).
  repeat split; try tauto. apply (we_defs _ _ _ _ _ W). tauto.
Qed.

Lemma good_new_w d s s' n nb nd :
  weffect s n nb s' nd -> S (dget d nb) = dget d n -> good d s' n.
Proof.
  intros W Hd. destruct (we_node _ _ _ _ _ W) as (nd' & t' & leg & df & E1 & E2 & E3 & E4 & E5 & E6 & E7 & _).
  exists nd', t', (kq df), leg, nb, df. repeat split; auto.
  eapply neighbour_index_In; eauto.
Qed.

(* the centre moves from a to its neighbour b: the isometry attribute moves along *)
Lemma weffect_iso s a b s' na :
  tstruct (nodes s) -> aget a (nodes s) = Some na -> In b (neighbouring_nodes na) ->
  iso_check (s, Some a) = true -> weffect s a b s' na ->
  iso_check (s', Some b) = true /\ tstruct (nodes s') /\ same_tree (nodes s) (nodes s').
Proof.
  intros T Ea Hin Hiso W.
  destruct (ts_neighbour_sym _ _ _ _ T Ea Hin) as (nbn & Eb & Hba & Hne).
  destruct (weffect_same_tree _ _ _ _ _ T Ea (not_eq_sym Hne) W) as [S1 T1].
  assert (Ha : amem a (nodes s) = true) by (apply amem_aget; eauto).
  assert (Hb : amem b (nodes s) = true) by (apply amem_aget; eauto).
  split; [|auto]. apply (good_iso s s' b T Hb T1 S1). intros k Hk Hkb.
  destruct (Nat.eq_dec k a) as [->|Hka].
  - apply (good_new_w _ s s' a b na W).
    rewrite (dist_centre s b Hb), (dist_centre_nbrs s b nbn a T Eb Hba). reflexivity.
  - apply (same_tree_keys _ _ k S1) in Hk.
    apply (good_preserved_w _ s s' a b na k W); [|exact Hka|exact Hkb].
    apply (good_change_d (distance_to_node s a)); [apply iso_good; assumption|].
    intros nk nb Ek Hnb Hd.
    apply (dist_move s a b na k nk nb T Ea Hin Ek Hka Hkb Hnb Hd).
Qed.

(* replacing the centre's tensor (any change confined to the centre that keeps parent and children) *)
Lemma centre_change_iso s s' c :
  tstruct (nodes s) -> amem c (nodes s) = true -> iso_check (s, Some c) = true ->
  NoDup (akeys (nodes s')) -> same_tree (nodes s) (nodes s') ->
  (forall k, k <> c -> aget k (nodes s') = aget k (nodes s)) ->
  (forall k, k <> c -> In k (akeys (nodes s)) -> aget k (tensors s') = aget k (tensors s)) ->
  incl (defs s) (defs s') ->
  iso_check (s', Some c) = true /\ tstruct (nodes s').
Proof.
  intros T Hc Hiso Hnd S Hn Ht Hd.
  assert (T' : tstruct (nodes s')) by (apply (tstruct_same_tree _ _ T S Hnd)).
  split; [|exact T']. apply (good_iso s s' c T Hc T' S). intros k Hk Hkc.
  apply (same_tree_keys _ _ k S) in Hk.
  destruct (iso_good s c T Hc Hiso k Hk Hkc) as (ndk & t & a & leg & x & df & G1 & G2 & G3 & G4 & G5 & G6 & G7 & G8).
  exists ndk, t, a, leg, x, df. rewrite (Hn k Hkc), (Ht k Hkc Hk). repeat split; try tauto. apply Hd. tauto.
Qed.

(* ==== part 2 ==== *)
(* the invariant does not look at atoms, the atom table, the kernel log or the atom counter *)
Lemma wfb_fields s s' :
  nodes s' = nodes s -> tensors s' = tensors s -> root s' = root s -> dims s' = dims s -> next_wire s' = next_wire s ->
  wfb s' = wfb s.
Proof. destruct s, s'; cbn; intros; subst; reflexivity. Qed.

Lemma acc_inv s n s' : acc s n = Some s' -> exists nd t, access s n = Some (s', nd, t).
Proof. unfold acc. destruct (access s n) as [[[s1 nd] t]|]; [|discriminate]. intros [= <-]. eauto. Qed.

Lemma acc_wf s n s' : wf s -> acc s n = Some s' -> wf s'.
Proof. intros W H. destruct (acc_inv _ _ _ H) as (nd & t & Ha). eapply access_preserves_wf; eauto. Qed.

(* everything an access changes *)
Lemma acc_facts s n s' : acc s n = Some s' ->
  exists nd t, aget n (nodes s) = Some nd /\ aget n (tensors s) = Some t /\
    aget n (nodes s') = Some (reset_permutation nd) /\ aget n (tensors s') = Some (s_transpose (perm nd) t) /\
    (forall k, k <> n -> aget k (nodes s') = aget k (nodes s) /\ aget k (tensors s') = aget k (tensors s)) /\
    akeys (nodes s') = akeys (nodes s) /\ length (nodes s') = length (nodes s) /\
    root s' = root s /\ dims s' = dims s /\ next_wire s' = next_wire s /\ defs s' = defs s /\ next_atom s' = next_atom s.
Proof.
  intros H. destruct (acc_inv _ _ _ H) as (nd' & t' & Ha).
  destruct (access_result _ _ _ _ _ Ha) as (R1 & R2 & _ & R4 & R5 & R6 & R7 & R8 & _).
  destruct (access_inv _ _ _ _ _ Ha) as (nd & t & En & Et & -> & -> & Hs).
  exists nd, t. repeat split; auto; try (rewrite Hs; reflexivity).
  - apply (R4 k H0).
  - apply (R4 k H0).
  - rewrite <- !length_akeys, R8. reflexivity.
Qed.

Lemma set_fresh_facts s n s' : set_fresh s n = Some s' ->
  exists t, aget n (tensors s) = Some t /\
    nodes s' = nodes s /\ tensors s' = aset n {| axes := axes t; atoms := [next_atom s]; bnd := [] |} (tensors s) /\
    root s' = root s /\ dims s' = dims s /\ next_wire s' = next_wire s /\ defs s' = defs s /\
    next_atom s' = S (next_atom s).
Proof.
  unfold set_fresh. destruct (aget n (tensors s)) as [t|]; [|discriminate]. cbn. intros [= <-]. exists t. cbn. repeat split.
Qed.

Lemma set_fresh_wf s n s' : wf s -> set_fresh s n = Some s' -> wf s'.
Proof.
  intros W H. destruct (set_fresh_facts _ _ _ H) as (t & Et & Hn & Ht & Hr & Hd & Hw & _).
  assert (In n (akeys (nodes s))).
  { apply amem_true. apply (wf_tn _ W). apply amem_aget. eauto. }
  apply keys_aget in H0. destruct H0 as [nd En].
  set (t' := {| axes := axes t; atoms := [next_atom s]; bnd := [] |}) in *.
  pose proof (wf_node s W n nd En) as Hni.
  assert (X : wf (upd_tensors (upd_nodes s (aset n nd)) (aset n t'))).
  { apply (wf_update_node s n nd t nd t' W En Et); auto.
    - apply (ni_perm _ _ _ Hni).
    - rewrite (ni_shape _ _ _ Hni), (tens_aget _ _ _ Et). reflexivity.
    - intros x Hx. exact Hx. }
  apply wfb_wf. rewrite (wfb_fields (upd_tensors (upd_nodes s (aset n nd)) (aset n t')) s').
  - apply wf_wfb. exact X.
  - rewrite Hn. cbn. symmetry. apply aset_same_id. exact En.
  - rewrite Ht. reflexivity.
  - rewrite Hr. reflexivity.
  - rewrite Hd. reflexivity.
  - rewrite Hw. reflexivity.
Qed.

Lemma site_update_wf s n s' : wf s -> site_update s n = Some s' -> wf s'.
Proof.
  unfold site_update. intros W H. destruct (acc s n) as [s1|] eqn:E; [|discriminate].
  eapply set_fresh_wf; [|exact H]. eapply acc_wf; eauto.
Qed.

(* site_update is the `scramble` of TTN/Canon.v: read (transpose, reset the permutation), then replace the raw array *)
Lemma aset_aset {V} k (v w : V) l : aset k v (aset k w l) = aset k v l.
Proof.
  induction l as [|[k' x] l IH]; cbn; [rewrite Nat.eqb_refl; reflexivity|].
  destruct (Nat.eqb k k') eqn:E; cbn; rewrite ?Nat.eqb_refl, ?E; [reflexivity|]. f_equal. exact IH.
Qed.

Lemma site_update_scramble s n : site_update s n = scramble s n.
Proof.
  unfold site_update, scramble, acc, access, logical, set_fresh.
  destruct (aget n (nodes s)) as [nd|]; [|reflexivity]. destruct (aget n (tensors s)) as [t|]; [|reflexivity].
  cbn [tensors upd_tensors upd_nodes]. rewrite aget_aset_same. cbn. unfold upd_tensors, upd_nodes. cbn.
  rewrite aset_aset. reflexivity.
Qed.

Lemma site_update_facts s n s' : site_update s n = Some s' ->
  exists nd t, aget n (nodes s) = Some nd /\ aget n (tensors s) = Some t /\
    aget n (nodes s') = Some (reset_permutation nd) /\
    aget n (tensors s') = Some {| axes := permute 0 (perm nd) (axes t); atoms := [next_atom s]; bnd := [] |} /\
    (forall k, k <> n -> aget k (nodes s') = aget k (nodes s) /\ aget k (tensors s') = aget k (tensors s)) /\
    akeys (nodes s') = akeys (nodes s) /\ length (nodes s') = length (nodes s) /\
    root s' = root s /\ dims s' = dims s /\ next_wire s' = next_wire s /\ defs s' = defs s.
Proof.
  unfold site_update. intros H. destruct (acc s n) as [s1|] eqn:E; [|discriminate].
  destruct (acc_facts _ _ _ E) as (nd & t & En & Et & En1 & Et1 & Ho & Hk & Hl & Hr & Hd & Hw & Hdf & Hna).
  destruct (set_fresh_facts _ _ _ H) as (t1 & Et1' & Hn' & Ht' & Hr' & Hd' & Hw' & Hdf' & _).
  rewrite Et1 in Et1'. injection Et1' as <-.
  exists nd, t. rewrite Hn', Ht', Hr', Hd', Hw', Hdf', Hna. repeat split; auto.
  - apply aget_aset_same.
  - apply (Ho k H0).
  - rewrite aget_aset_other by exact H0. apply (Ho k H0).
Qed.

(* ==== part 3 ==== *)
Lemma neighbour_index_bound n x i : neighbour_index n x = Some i -> i < nvirt n.
Proof.
  destruct (option_eq_dec_id (parent n) (Some x)) as [E|E].
  - unfold neighbour_index. rewrite E, Nat.eqb_refl. intros [= <-]. unfold nvirt, nparents. rewrite E. lia.
  - intros H. destruct (neighbour_index_lt n x i E H) as [[_ H1] _]. exact H1.
Qed.

Lemma nth_permute leg p (l : list nat) : leg < length p -> nth leg (permute 0 p l) 0 = nth (nth leg p 0) l 0.
Proof.
  intros H. unfold permute. rewrite (nth_indep _ 0 (nth 0 l 0)) by (rewrite map_length; exact H).
  apply (map_nth (fun i => nth i l 0)).
Qed.

Lemma reset_permutation_struct nd : parent (reset_permutation nd) = parent nd /\ children (reset_permutation nd) = children nd.
Proof. split; reflexivity. Qed.

(* a store that differs from s only in the records of n (same parent and children): same tree *)
Lemma same_tree_point l l' n nd nd' :
  aget n l = Some nd -> aget n l' = Some nd' -> parent nd' = parent nd -> children nd' = children nd ->
  (forall k, k <> n -> aget k l' = aget k l) -> length l' = length l -> same_tree l l'.
Proof.
  intros E E' Hp Hc Ho Hl. split; [symmetry; exact Hl|]. intros k. destruct (Nat.eq_dec k n) as [->|Hk].
  - rewrite E, E'. rewrite Hp, Hc. auto.
  - rewrite (Ho k Hk). destruct (aget k l); auto.
Qed.

(* reading a tensor keeps the `good` attribute of every node *)
Lemma good_acc d s s' n k : wf s -> acc s n = Some s' -> good d s k -> good d s' k.
Proof.
  intros W H (ndk & t & a & leg & x & df & G1 & G2 & G3 & G4 & G5 & G6 & G7 & G8 & G9 & G10).
  destruct (acc_facts _ _ _ H) as (nd & t0 & En & Et & En1 & Et1 & Ho & _ & _ & _ & _ & _ & Hdf & _).
  destruct (Nat.eq_dec k n) as [->|Hk].
  - rewrite En in G1. injection G1 as <-. rewrite Et in G2. injection G2 as <-.
    exists (reset_permutation nd), (s_transpose (perm nd) t0), a, leg, x, df.
    rewrite Hdf. repeat split; auto.
    cbn [reset_permutation perm s_transpose axes].
    assert (Hleg : leg < length (perm nd)).
    { pose proof (neighbour_index_bound _ _ _ G6). pose proof (ni_virt _ _ _ (wf_node s W n nd En)). unfold nlegs in *. lia. }
    rewrite seq_nth by exact Hleg. cbn. rewrite nth_permute by exact Hleg. exact G10.
  - exists ndk, t, a, leg, x, df. destruct (Ho k Hk) as [-> ->]. rewrite Hdf. repeat split; auto.
Qed.

Lemma acc_same_tree s n s' : acc s n = Some s' -> same_tree (nodes s) (nodes s') /\ akeys (nodes s') = akeys (nodes s).
Proof.
  intros H. destruct (acc_facts _ _ _ H) as (nd & t0 & En & Et & En1 & Et1 & Ho & Hk & Hl & _).
  split; [|exact Hk]. apply (same_tree_point _ _ n nd (reset_permutation nd)); auto.
  intros k Hk'. apply (Ho k Hk').
Qed.

Lemma acc_iso s c n s' : wf s -> amem c (nodes s) = true -> iso_check (s, Some c) = true -> acc s n = Some s' ->
  iso_check (s', Some c) = true.
Proof.
  intros W Hc Hiso H. pose proof (wf_tstruct s W) as T.
  destruct (acc_same_tree _ _ _ H) as [S K].
  assert (T' : tstruct (nodes s')) by (apply (tstruct_same_tree _ _ T S); rewrite K; apply (ts_nd _ T)).
  apply (good_iso s s' c T Hc T' S). intros k Hk Hkc. rewrite K in Hk.
  apply (good_acc _ s s' n k W H). apply iso_good; assumption.
Qed.

Lemma site_update_same_tree s n s' : site_update s n = Some s' ->
  same_tree (nodes s) (nodes s') /\ akeys (nodes s') = akeys (nodes s).
Proof.
  intros H. destruct (site_update_facts _ _ _ H) as (nd & t0 & En & Et & En1 & Et1 & Ho & Hk & Hl & _).
  split; [|exact Hk]. apply (same_tree_point _ _ n nd (reset_permutation nd)); auto.
  intros k Hk'. apply (Ho k Hk').
Qed.

(* the evolved site tensor sits at the centre: the attribute of the other nodes is untouched *)
Lemma site_update_iso s c s' : wf s -> amem c (nodes s) = true -> iso_check (s, Some c) = true ->
  site_update s c = Some s' -> iso_check (s', Some c) = true.
Proof.
  intros W Hc Hiso H. pose proof (wf_tstruct s W) as T.
  destruct (site_update_same_tree _ _ _ H) as [S K].
  destruct (site_update_facts _ _ _ H) as (nd & t0 & En & Et & En1 & Et1 & Ho & _ & _ & _ & _ & _ & Hdf).
  apply (centre_change_iso s s' c T Hc Hiso); auto.
  - rewrite K. apply (ts_nd _ T).
  - intros k Hk. apply (Ho k Hk).
  - intros k Hk _. apply (Ho k Hk).
  - rewrite Hdf. intros x Hx. exact Hx.
Qed.

(* the root is determined by the tree *)
Lemma same_tree_root s s' : wf s -> wf s' -> same_tree (nodes s) (nodes s') -> root s' = root s.
Proof.
  intros W W' S. destruct (wf_root _ W) as (r & rn & Er & En & Hp & _).
  destruct (wf_root _ W') as (r' & rn' & Er' & En' & Hp' & Hu').
  rewrite Er, Er'. f_equal.
  destruct (same_tree_some _ _ _ _ S En) as (rn2 & E2 & P2 & _). symmetry. apply (Hu' r rn2 E2). congruence.
Qed.

(* ==== part 4 ==== *)
Lemma In_remove_first x y l : In x (remove_first y l) -> In x l.
Proof.
  induction l as [|z t IH]; cbn; [auto|]. destruct (Nat.eqb y z); [auto|]. intros [->|H]; auto.
Qed.

(* the leg specifications of _build_qr_leg_specs describe the node truthfully when nb is a neighbour *)
Lemma build_qr_specs_ok nd nb : In nb (neighbouring_nodes nd) ->
  leg_ok nd (fst (build_qr_leg_specs nd nb)) /\ leg_ok nd (snd (build_qr_leg_specs nd nb)).
Proof.
  intros Hin. unfold build_qr_leg_specs.
  destruct (match parent nd with Some p => Nat.eqb p nb | None => false end) eqn:Hco; cbn [fst snd]; unfold leg_ok; cbn.
  - destruct (parent nd) as [p|] eqn:Hp; [|discriminate]. apply Nat.eqb_eq in Hco. subst p. repeat split; try discriminate; auto.
    + unfold is_root. rewrite Hp. discriminate.
    + intros x Hx. exact Hx.
    + intros l Hl. apply in_seq in Hl. lia.
    + intros x [].
    + intros l [].
  - repeat split; try discriminate; auto.
    + apply is_root_spec.
    + intros x Hx. eapply In_remove_first; eauto.
    + intros l Hl. apply in_seq in Hl. lia.
    + intros x [<-|[]]. apply in_neighbouring in Hin. destruct Hin as [Hp|Hc]; [|exact Hc].
      rewrite Hp, Nat.eqb_refl in Hco. discriminate.
    + intros l [].
Qed.

Lemma aget_None_notin {V} k (l : list (nat * V)) : aget k l = None -> ~ In k (akeys l).
Proof. apply aget_None. Qed.

Lemma split_site_wf s a b lid s1 nd :
  wf s -> aget a (nodes s) = Some nd -> In b (neighbouring_nodes nd) -> aget lid (nodes s) = None ->
  split_site s a b lid = Some s1 -> wf s1.
Proof.
  intros W Ea Hin Hl H. unfold split_site in H. rewrite Ea in H.
  destruct (build_qr_leg_specs nd b) as [q r] eqn:Eqr.
  pose proof (build_qr_specs_ok nd b Hin) as [Hq Hr]. rewrite Eqr in Hq, Hr. cbn [fst snd] in Hq, Hr.
  apply (split_preserves_wf s a q r a lid 0 Keep 0 s1 W H).
  - intros nd' E'. rewrite Ea in E'. injection E' as <-. auto.
  - split; [left; reflexivity|right; apply aget_None; exact Hl].
Qed.

Lemma qr_to_neighbour_wf s n nb m tmp s' :
  wf s -> aget tmp (nodes s) = None -> qr_to_neighbour s n nb m tmp = Some s' -> wf s'.
Proof.
  intros W Ht H. unfold qr_to_neighbour in H. destruct (aget n (nodes s)) as [nd|] eqn:En; [|discriminate].
  assert (Hin : In nb (neighbouring_nodes nd)).
  { apply (qr_step_neighbour s n nb m tmp s' nd En). unfold qr_to_neighbour. rewrite En. exact H. }
  destruct (build_qr_leg_specs nd nb) as [q r] eqn:Eqr.
  destruct (split_nodes s n q r n tmp 0 m 0) as [s1|] eqn:Es; [|discriminate].
  pose proof (build_qr_specs_ok nd nb Hin) as [Hq Hr]. rewrite Eqr in Hq, Hr. cbn [fst snd] in Hq, Hr.
  assert (W1 : wf s1).
  { apply (split_preserves_wf s n q r n tmp 0 m 0 s1 W Es).
    - intros nd' E'. rewrite En in E'. injection E' as <-. auto.
    - split; [left; reflexivity|right; apply aget_None; exact Ht]. }
  apply (contract_preserves_wf s1 nb tmp nb s' W1 H). left. reflexivity.
Qed.

Lemma move_fold_all m tmp : forall l s cur cs',
  wf s -> aget tmp (nodes s) = None -> iso_check (s, Some cur) = true ->
  fold_left (move_step m tmp) l (Some (s, Some cur)) = Some cs' ->
  wf (fst cs') /\ iso_check cs' = true /\ same_tree (nodes s) (nodes (fst cs')) /\ aget tmp (nodes (fst cs')) = None.
Proof.
  induction l as [|nb t IH]; intros s cur cs' W Hrid Hiso H; cbn [fold_left] in H.
  - injection H as <-. cbn [fst]. split; [exact W|]. split; [exact Hiso|]. split; [apply same_tree_refl|exact Hrid].
  - cbn [move_step] in H. destruct (qr_to_neighbour s cur nb m tmp) as [s2|] eqn:E; [|rewrite move_fold_none in H; discriminate].
    destruct (move_step_iso _ _ _ _ _ _ (wf_tstruct s W) Hrid Hiso E) as (I2 & T2 & R2 & S2).
    pose proof (qr_to_neighbour_wf _ _ _ _ _ _ W Hrid E) as W2.
    destruct (IH s2 nb cs' W2 R2 I2 H) as (W3 & I3 & S3 & R3).
    split; [exact W3|]. split; [exact I3|]. split; [exact (same_tree_trans _ _ _ S2 S3)|exact R3].
Qed.

(* move_orthogonalization_center: every invariant of the sweep survives, and the centre arrives *)
Lemma move_center_all s c0 c m tmp cs' :
  wf s -> aget tmp (nodes s) = None -> iso_check (s, Some c0) = true ->
  amem c0 (nodes s) = true -> amem c (nodes s) = true ->
  move_center (s, Some c0) c m tmp = Some cs' ->
  wf (fst cs') /\ iso_check cs' = true /\ same_tree (nodes s) (nodes (fst cs')) /\ aget tmp (nodes (fst cs')) = None /\
  snd cs' = Some c.
Proof.
  intros W Hrid Hiso Hc0 Hc H.
  assert (Hsnd : snd cs' = Some c).
  { apply (move_center_reaches (s, Some c0) c0 c m tmp cs'); auto. apply (wf_tstruct s W). }
  unfold move_center in H. cbn [fst snd] in H. destruct (Nat.eqb c0 c).
  - injection H as <-. cbn [fst]. split; [exact W|]. split; [exact Hiso|]. split; [apply same_tree_refl|]. split; [exact Hrid|exact Hsnd].
  - destruct (move_fold_all m tmp _ s c0 cs' W Hrid Hiso H) as (A & B & C & D). auto.
Qed.

(* ==== part 5 ==== *)
Lemma node_eq n n' : parent n = parent n' -> children n = children n' -> perm n = perm n' -> shape n = shape n' -> n = n'.
Proof. destruct n, n'; cbn; intros; subst; reflexivity. Qed.

(* contract_nodes, everything spelled out relative to the store BEFORE the call *)
Lemma contract_explicit s x y new s' :
  wf s -> contract_nodes s x y new = Some s' -> (new = x \/ new = y \/ ~ In new (akeys (nodes s))) ->
  exists p c pn0 cn0 nn,
    ((p = x /\ c = y) \/ (p = y /\ c = x)) /\ p <> c /\
    aget p (nodes s) = Some pn0 /\ aget c (nodes s) = Some cn0 /\ parent cn0 = Some p /\
    aget new (nodes s') = Some nn /\ parent nn = parent pn0 /\
    children nn = (if Nat.eqb p x then remove_first c (children pn0) ++ children cn0
                   else children cn0 ++ remove_first c (children pn0)) /\
    NoDup (akeys (nodes s')) /\
    (p <> new -> aget p (nodes s') = None) /\ (c <> new -> aget c (nodes s') = None) /\
    (forall k, k <> p -> k <> c -> k <> new ->
       aget k (nodes s') = option_map (rt p c new (children pn0) (children cn0) (parent pn0) k) (aget k (nodes s))) /\
    (forall k, k <> p -> k <> c -> k <> new -> aget k (tensors s') = aget k (tensors s)) /\
    root s' = (match parent pn0 with None => Some new | Some _ => root s end) /\
    defs s' = defs s /\ dims s' = dims s /\ next_wire s' = next_wire s.
Proof.
  intros W H Hnew. unfold contract_nodes in H.
  destruct (determine_parentage s x y) as [[p c]|] eqn:Edp; [|discriminate].
  destruct (access s p) as [[[s1 pn] pt]|] eqn:A1; [|discriminate].
  destruct (access s1 c) as [[[s2 cn] ct]|] eqn:A2; [|discriminate].
  destruct (neighbour_index pn c) as [ax|] eqn:Eax; [|discriminate].
  destruct (s_tensordot pt ct ax 0) as [nt|] eqn:Etd; [|discriminate].
  destruct (create_contracted_node _ pn cn c (p =? x)) as [nn|] eqn:Enn; [|discriminate].
  match type of H with match ?r with _ => _ end = _ => destruct r as [s4|] eqn:R4; [|discriminate] end.
  destruct (replace_node_in_neighbours s4 new c true) as [s5|] eqn:R5; [|discriminate].
  injection H as <-.
  destruct (determine_parentage_inv s x y p c Edp) as (nx & ny & Ex & Ey & Hcase).
  pose proof (access_preserves_wf s p s1 pn pt W A1) as W1.
  pose proof (access_preserves_wf s1 c s2 cn ct W1 A2) as W2.
  destruct (access_result _ _ _ _ _ A1) as (B1 & B2 & B3 & B4 & B5 & B6 & B7 & B8 & (pn0 & B9 & B10 & B11)).
  destruct (access_result _ _ _ _ _ A2) as (C1 & C2 & C3 & C4 & C5 & C6 & C7 & C8 & (cn0' & C9 & C10 & C11)).
  destruct (access_inv _ _ _ _ _ A1) as (pnx & ptx & _ & _ & _ & _ & Hs1).
  destruct (access_inv _ _ _ _ _ A2) as (cnx & ctx & _ & _ & _ & _ & Hs2).
  assert (Hpcne : p <> c /\ parent cn0' = Some p /\ aget c (nodes s) = Some cn0').
  { destruct Hcase as [(-> & -> & Hp)|(-> & -> & Hp)].
    - assert (x <> y) by (intros ->; apply (wf_not_self_parent s y ny W Ey Hp)).
      destruct (B4 y (not_eq_sym H)) as [B4a _]. rewrite B4a, Ey in C9. injection C9 as <-. auto.
    - assert (y <> x) by (intros ->; apply (wf_not_self_parent s x nx W Ex Hp)).
      destruct (B4 x (not_eq_sym H)) as [B4a _]. rewrite B4a, Ex in C9. injection C9 as <-. auto. }
  destruct Hpcne as (Hpc & Hparc & Ec0).
  destruct (C4 p Hpc) as [C4a C4b].
  assert (Hnew2 : new = p \/ new = c \/ ~ In new (akeys (nodes s2))).
  { rewrite C8, B8. destruct Hcase as [(-> & -> & _)|(-> & -> & _)]; tauto. }
  assert (Hp2 : aget p (nodes s2) = Some pn) by (rewrite C4a; exact B1).
  assert (Hparc2 : parent cn = Some p) by (rewrite C10; exact Hparc).
  destruct (contract_view s2 p c pn cn new nt nn s4 s5 W2 Hp2 C1 Hparc2 Hnew2 R4 R5) as (V1 & V2 & V3 & V4 & V5 & V6 & V7 & V8 & V9).
  destruct (ccn_struct _ _ _ _ _ _ Enn) as [Pnn Cnn].
  exists p, c, pn0, cn0', nn.
  split; [destruct Hcase as [(-> & -> & _)|(-> & -> & _)]; auto|].
  split; [exact Hpc|]. split; [exact B9|]. split; [exact Ec0|]. split; [exact Hparc|].
  split; [exact V2|]. split; [rewrite Pnn; exact B10|].
  split; [rewrite Cnn, B11, C11; reflexivity|].
  split; [exact V1|]. split; [exact V3|]. split; [exact V4|].
  split.
  { intros k K1 K2 K3. rewrite (V5 k K1 K2 K3). rewrite B10, B11, C11.
    destruct (C4 k K2) as [-> _]. destruct (B4 k K1) as [-> _]. reflexivity. }
  split.
  { intros k K1 K2 K3. rewrite V7. rewrite aget_snoc_other by exact K3. rewrite !aget_adel_other by assumption.
    destruct (C4 k K2) as [_ ->]. destruct (B4 k K1) as [_ ->]. reflexivity. }
  split; [rewrite V6, B10, C7, B7; reflexivity|].
  split.
  { assert (D5 : defs (upd_nodes s5 (aset new nn)) = defs s5) by reflexivity. rewrite D5.
    assert (Hrd : forall u nw od dl u', replace_node_in_neighbours u nw od dl = Some u' -> defs u' = defs u).
    { intros u nw od dl u'. unfold replace_node_in_neighbours. destruct (Nat.eqb nw od); [intros [= <-]; reflexivity|].
      destruct (aget od (nodes u)); [|discriminate].
      match goal with |- match ?r with _ => _ end = _ -> _ => destruct r as [[rr ll]|]; [|discriminate] end.
      intros [= <-]. reflexivity. }
    rewrite (Hrd _ _ _ _ _ R5), (Hrd _ _ _ _ _ R4). cbn. rewrite Hs2, Hs1. reflexivity. }
  split; [rewrite V8, C5, B5; reflexivity|rewrite V9, C6, B6; reflexivity].
Qed.

(* ==== part 6 ==== *)
Lemma split_site_parent s a b lid s1 nd0 nbn :
  wf s -> aget a (nodes s) = Some nd0 -> parent nd0 = Some b -> aget b (nodes s) = Some nbn -> aget lid (nodes s) = None ->
  split_site s a b lid = Some s1 ->
  exists na nl tq tr df,
   aget a (nodes s1) = Some na /\ parent na = Some lid /\ children na = children nd0 /\
   aget lid (nodes s1) = Some nl /\ parent nl = Some b /\ children nl = [a] /\
   aget b (nodes s1) = Some (with_children nbn (replace_first a lid (children nbn))) /\
   (forall k, k <> a -> k <> b -> k <> lid -> aget k (nodes s1) = aget k (nodes s)) /\
   aget a (tensors s1) = Some tq /\ atoms tq = [next_atom s] /\ nth 0 (laxes na tq) 0 = next_wire s /\ 1 <= nlegs na /\
   aget lid (tensors s1) = Some tr /\
   (forall k, k <> a -> k <> lid -> aget k (tensors s1) = aget k (tensors s)) /\
   defs s1 = defs s ++ [df] /\ kq df = next_atom s /\ kkind df = 0 /\ kbond df = next_wire s /\
   NoDup (akeys (nodes s1)).
Proof.
  intros W Ea Hp Eb Hl H.
  assert (Hin : In b (neighbouring_nodes nd0)) by (apply in_neighbouring; left; exact Hp).
  assert (Nab : a <> b) by (intros ->; exact (wf_not_self_parent s b nd0 W Ea Hp)).
  assert (Nal : a <> lid) by (intros ->; congruence).
  assert (Nbl : b <> lid) by (intros ->; congruence).
  unfold split_site in H. rewrite Ea in H. unfold build_qr_leg_specs in H. rewrite Hp, Nat.eqb_refl in H.
  set (q := Build_legspec None (children nd0) _ _) in H. set (r := Build_legspec (Some b) [] [] false) in H.
  destruct (split_nodes_inv _ _ _ _ _ _ _ _ _ _ H) as (sa & nd & t & ol & il & on2 & in2 & l2 & bd & Ha & Hbd & I).
  destruct (split_access_facts _ _ _ _ _ W Ha) as (nd0' & t0 & En0 & Et0 & End & Etr & Wa & En & Et & Hid & Hk & Hlax & Ht0).
  rewrite Ea in En0. injection En0 as <-.
  pose proof (build_qr_specs_ok nd0 b Hin) as [Hq Hr]. unfold build_qr_leg_specs in Hq, Hr. rewrite Hp, Nat.eqb_refl in Hq, Hr.
  cbn [fst snd] in Hq, Hr. fold q in Hq. fold r in Hr.
  assert (LO' : leg_ok nd q) by (rewrite End; apply leg_ok_reset; exact Hq).
  assert (LI' : leg_ok nd r) by (rewrite End; apply leg_ok_reset; exact Hr).
  assert (Hids' : ids_ok sa a a lid).
  { split; [left; reflexivity|right]. rewrite Hk. apply aget_None. exact Hl. }
  destruct (split_inv_view _ _ _ _ _ _ _ _ _ _ _ _ _ _ _ _ _ Wa En Et Hid LO' LI' Hids' I) as (cO & cI & Eol & Eil & [[Hab V]|[Hab V]]);
    [|unfold sp_in_above in Hab; cbn in Hab; discriminate].
  destruct (access_result _ _ _ _ _ Ha) as (_ & _ & _ & Ao & _).
  assert (Pnd : parent nd = Some b) by (rewrite End; exact Hp).
  assert (Cnd : children nd = children nd0) by (rewrite End; reflexivity).
  destruct (sp_access_next _ _ _ _ _ Ha) as (Na & Nw & Nd & _).
  exists on2, in2, (sp_ot sa t ol), (sp_it sa t il), (sp_def sa t ol il 0 Keep).
  split; [apply (sv_nL _ _ _ _ _ _ _ _ _ _ _ _ _ _ _ _ V)|].
  split; [apply (sv_nL_par _ _ _ _ _ _ _ _ _ _ _ _ _ _ _ _ V)|].
  split; [rewrite (sv_nL_ch _ _ _ _ _ _ _ _ _ _ _ _ _ _ _ _ V); reflexivity|].
  split; [apply (sv_nU _ _ _ _ _ _ _ _ _ _ _ _ _ _ _ _ V)|].
  split; [rewrite (sv_nU_par _ _ _ _ _ _ _ _ _ _ _ _ _ _ _ _ V); exact Pnd|].
  split; [rewrite (sv_nU_ch _ _ _ _ _ _ _ _ _ _ _ _ _ _ _ _ V); reflexivity|].
  assert (Hold : forall k nk, k <> a -> aget k (nodes s) = Some nk ->
            exists nk', aget k (nodes s1) = Some nk' /\ perm nk' = perm nk /\ shape nk' = shape nk /\ parent nk' = parent nk /\
                        (Some b = Some k -> children nk' = replace_first a lid (children nk)) /\
                        (Some b <> Some k -> children nk' = children nk)).
  { intros k nk Hka Ek. destruct (Ao k Hka) as [Eka _]. rewrite <- Eka in Ek.
    destruct (sv_old _ _ _ _ _ _ _ _ _ _ _ _ _ _ _ _ V k nk Hka Ek) as (nk' & E' & P1 & P2 & P3 & P4 & P5 & P6 & P7).
    exists nk'. split; [exact E'|]. split; [exact P1|]. split; [exact P2|]. rewrite Pnd in P6, P7. split; [|split; [exact P6|exact P7]].
    cbn [r q ls_children] in P3, P4, P5.
    destruct (in_dec Nat.eq_dec k (children nd0)) as [Hc|Hc].
    - rewrite (P4 Hc). rewrite Eka in Ek. destruct (wf_child_parent s a nd0 k W Ea Hc) as (xn & Ex & Hx). unfold id in *. congruence.
    - apply P5; [intros []|exact Hc]. }
  split.
  { destruct (Hold b nbn (not_eq_sym Nab) Eb) as (nk' & E' & P1 & P2 & P3 & P4 & _). rewrite E'. f_equal.
    apply node_eq; cbn; auto. }
  split.
  { intros k Hka Hkb Hkl. destruct (aget k (nodes s)) as [nk|] eqn:Ek.
    - destruct (Hold k nk Hka Ek) as (nk' & E' & P1 & P2 & P3 & _ & P5). rewrite E'. f_equal.
      apply node_eq; auto. apply P5. congruence.
    - destruct (aget k (nodes s1)) as [x|] eqn:E1; [|reflexivity]. exfalso.
      apply aget_Some_keys in E1. destruct (sv_keys _ _ _ _ _ _ _ _ _ _ _ _ _ _ _ _ V k E1) as [K|[K|[_ K]]]; try congruence.
      rewrite Hk in K. apply aget_None in Ek. contradiction. }
  split; [apply (sv_tL _ _ _ _ _ _ _ _ _ _ _ _ _ _ _ _ V)|].
  split; [unfold sp_ot; cbn; f_equal; exact Na|].
  split.
  { rewrite (sv_nL_lax _ _ _ _ _ _ _ _ _ _ _ _ _ _ _ _ V). cbn. exact Nw. }
  split.
  { rewrite <- (laxes_length on2 (sp_ot sa t ol)), (sv_nL_lax _ _ _ _ _ _ _ _ _ _ _ _ _ _ _ _ V). cbn. lia. }
  split; [apply (sv_tU _ _ _ _ _ _ _ _ _ _ _ _ _ _ _ _ V)|].
  split.
  { intros k Hka Hkl. rewrite (sv_told _ _ _ _ _ _ _ _ _ _ _ _ _ _ _ _ V k Hkl Hka). rewrite (eqb_false k a Hka).
    apply (Ao k Hka). }
  split; [rewrite (spf_defs _ _ _ _ _ _ _ _ _ _ _ _ _ _ _ _ _ I), Nd; reflexivity|].
  unfold sp_def. cbn. split; [exact Na|]. split; [reflexivity|]. split; [exact Nw|].
  apply (sv_nd _ _ _ _ _ _ _ _ _ _ _ _ _ _ _ _ V).
Qed.

(* ==== part 7 ==== *)
Lemma split_site_child s a b lid s1 nd0 nbn :
  wf s -> aget a (nodes s) = Some nd0 -> In b (children nd0) -> aget b (nodes s) = Some nbn -> aget lid (nodes s) = None ->
  split_site s a b lid = Some s1 ->
  exists na nl tq tr df,
   aget a (nodes s1) = Some na /\ parent na = parent nd0 /\ children na = lid :: remove_first b (children nd0) /\
   aget lid (nodes s1) = Some nl /\ parent nl = Some a /\ children nl = [b] /\
   aget b (nodes s1) = Some (with_parent nbn (Some lid)) /\
   (forall k, k <> a -> k <> b -> k <> lid -> aget k (nodes s1) = aget k (nodes s)) /\
   aget a (tensors s1) = Some tq /\ atoms tq = [next_atom s] /\
   nth (nparents nd0) (laxes na tq) 0 = next_wire s /\ nparents nd0 < nlegs na /\
   aget lid (tensors s1) = Some tr /\
   (forall k, k <> a -> k <> lid -> aget k (tensors s1) = aget k (tensors s)) /\
   defs s1 = defs s ++ [df] /\ kq df = next_atom s /\ kkind df = 0 /\ kbond df = next_wire s /\
   NoDup (akeys (nodes s1)).
Proof.
  intros W Ea Hc Eb Hl H.
  assert (Hin : In b (neighbouring_nodes nd0)) by (apply in_neighbouring; right; exact Hc).
  destruct (wf_child_parent s a nd0 b W Ea Hc) as (nbn' & Eb' & Hpb). rewrite Eb in Eb'. injection Eb' as <-.
  assert (Nab : a <> b) by (intros ->; exact (wf_not_self_parent s b nbn W Eb Hpb)).
  assert (Nal : a <> lid) by (intros ->; congruence).
  assert (Nbl : b <> lid) by (intros ->; congruence).
  assert (Hpn0 : parent nd0 <> Some b) by (apply (wf_parent_not_child s b nbn a nd0 W Eb Hpb Ea)).
  assert (Hco : match parent nd0 with Some p => Nat.eqb p b | None => false end = false).
  { destruct (parent nd0) as [p|]; [|reflexivity]. apply Nat.eqb_neq. congruence. }
  unfold split_site in H. rewrite Ea in H. unfold build_qr_leg_specs in H. rewrite Hco in H.
  set (q := Build_legspec (parent nd0) (remove_first b (children nd0)) _ _) in H. set (r := Build_legspec None [b] [] false) in H.
  destruct (split_nodes_inv _ _ _ _ _ _ _ _ _ _ H) as (sa & nd & t & ol & il & on2 & in2 & l2 & bd & Ha & Hbd & I).
  destruct (split_access_facts _ _ _ _ _ W Ha) as (nd0' & t0 & En0 & Et0 & End & Etr & Wa & En & Et & Hid & Hk & Hlax & Ht0).
  rewrite Ea in En0. injection En0 as <-.
  pose proof (build_qr_specs_ok nd0 b Hin) as [Hq Hr]. unfold build_qr_leg_specs in Hq, Hr. rewrite Hco in Hq, Hr.
  cbn [fst snd] in Hq, Hr. fold q in Hq. fold r in Hr.
  assert (LO' : leg_ok nd q) by (rewrite End; apply leg_ok_reset; exact Hq).
  assert (LI' : leg_ok nd r) by (rewrite End; apply leg_ok_reset; exact Hr).
  assert (Hids' : ids_ok sa a a lid).
  { split; [left; reflexivity|right]. rewrite Hk. apply aget_None. exact Hl. }
  destruct (split_inv_view _ _ _ _ _ _ _ _ _ _ _ _ _ _ _ _ _ Wa En Et Hid LO' LI' Hids' I) as (cO & cI & Eol & Eil & [[Hab V]|[Hab V]]);
    [unfold sp_in_above in Hab; cbn in Hab; discriminate|].
  destruct (access_result _ _ _ _ _ Ha) as (_ & _ & _ & Ao & _).
  assert (Pnd : parent nd = parent nd0) by (rewrite End; reflexivity).
  assert (Cnd : children nd = children nd0) by (rewrite End; reflexivity).
  destruct (sp_access_next _ _ _ _ _ Ha) as (Na & Nw & Nd & _).
  exists on2, in2, (sp_ot sa t ol), (sp_it sa t il), (sp_def sa t ol il 0 Keep).
  split; [apply (sv_nU _ _ _ _ _ _ _ _ _ _ _ _ _ _ _ _ V)|].
  split; [rewrite (sv_nU_par _ _ _ _ _ _ _ _ _ _ _ _ _ _ _ _ V); exact Pnd|].
  split; [rewrite (sv_nU_ch _ _ _ _ _ _ _ _ _ _ _ _ _ _ _ _ V); reflexivity|].
  split; [apply (sv_nL _ _ _ _ _ _ _ _ _ _ _ _ _ _ _ _ V)|].
  split; [apply (sv_nL_par _ _ _ _ _ _ _ _ _ _ _ _ _ _ _ _ V)|].
  split; [rewrite (sv_nL_ch _ _ _ _ _ _ _ _ _ _ _ _ _ _ _ _ V); reflexivity|].
  assert (Hold : forall k nk, k <> a -> aget k (nodes s) = Some nk ->
            exists nk', aget k (nodes s1) = Some nk' /\ perm nk' = perm nk /\ shape nk' = shape nk /\ children nk' = children nk /\
                        (k = b -> parent nk' = Some lid) /\ (k <> b -> parent nk' = parent nk)).
  { intros k nk Hka Ek. destruct (Ao k Hka) as [Eka _]. rewrite <- Eka in Ek.
    destruct (sv_old _ _ _ _ _ _ _ _ _ _ _ _ _ _ _ _ V k nk Hka Ek) as (nk' & E' & P1 & P2 & P3 & P4 & P5 & P6 & P7).
    exists nk'. split; [exact E'|]. split; [exact P1|]. split; [exact P2|].
    cbn [r q ls_children] in P3, P4, P5. rewrite Eka in Ek.
    split.
    { destruct (option_eq_dec_id (parent nd) (Some k)) as [Epk|Epk].
      - rewrite (P6 Epk). apply replace_first_same.
      - apply (P7 Epk). }
    split.
    { intros ->. apply P4. left. reflexivity. }
    intros Hkb.
    destruct (in_dec Nat.eq_dec k (remove_first b (children nd0))) as [Hc'|Hc'].
    - rewrite (P3 Hc'). apply In_remove_first in Hc'.
      destruct (wf_child_parent s a nd0 k W Ea Hc') as (xn & Ex & Hx). unfold id in *. congruence.
    - apply P5; [exact Hc'|]. intros [Hk'|[]]. congruence. }
  split.
  { destruct (Hold b nbn (not_eq_sym Nab) Eb) as (nk' & E' & P1 & P2 & P3 & P4 & _). rewrite E'. f_equal.
    apply node_eq; cbn; auto. }
  split.
  { intros k Hka Hkb Hkl. destruct (aget k (nodes s)) as [nk|] eqn:Ek.
    - destruct (Hold k nk Hka Ek) as (nk' & E' & P1 & P2 & P3 & _ & P5). rewrite E'. f_equal.
      apply node_eq; auto.
    - destruct (aget k (nodes s1)) as [x|] eqn:E1; [|reflexivity]. exfalso.
      apply aget_Some_keys in E1. destruct (sv_keys _ _ _ _ _ _ _ _ _ _ _ _ _ _ _ _ V k E1) as [K|[K|[_ K]]]; try congruence.
      rewrite Hk in K. apply aget_None in Ek. contradiction. }
  split; [apply (sv_tU _ _ _ _ _ _ _ _ _ _ _ _ _ _ _ _ V)|].
  split; [unfold sp_ot; cbn; f_equal; exact Na|].
  assert (Hnp : nparents nd0 <= length (axes t)).
  { pose proof (ni_virt _ _ _ (wf_node sa Wa a nd En)) as Hv. unfold nlegs in Hv. rewrite Hid, seq_length in Hv.
    unfold nvirt in Hv. rewrite End in Hv. cbn in Hv. unfold nparents in *. cbn in Hv. lia. }
  assert (Hfl : length (firstn (nparents nd) (axes t)) = nparents nd0).
  { rewrite firstn_length. rewrite End. unfold nparents at 1. cbn. fold (nparents nd0). lia. }
  split.
  { rewrite (sv_nU_lax _ _ _ _ _ _ _ _ _ _ _ _ _ _ _ _ V). rewrite app_nth2 by lia. rewrite Hfl, Nat.sub_diag. cbn. exact Nw. }
  split.
  { rewrite <- (laxes_length on2 (sp_ot sa t ol)), (sv_nU_lax _ _ _ _ _ _ _ _ _ _ _ _ _ _ _ _ V). rewrite app_length, Hfl. cbn. lia. }
  split; [apply (sv_tL _ _ _ _ _ _ _ _ _ _ _ _ _ _ _ _ V)|].
  split.
  { intros k Hka Hkl. rewrite (sv_told _ _ _ _ _ _ _ _ _ _ _ _ _ _ _ _ V k Hka Hkl). rewrite (eqb_false k a Hka).
    apply (Ao k Hka). }
  split; [rewrite (spf_defs _ _ _ _ _ _ _ _ _ _ _ _ _ _ _ _ _ I), Nd; reflexivity|].
  unfold sp_def. cbn. split; [exact Na|]. split; [reflexivity|]. split; [exact Nw|].
  apply (sv_nd _ _ _ _ _ _ _ _ _ _ _ _ _ _ _ _ V).
Qed.

(* ==== part 8 ==== *)
Lemma In_replace_first k x y l : In k (replace_first x y l) -> k = y \/ In k l.
Proof.
  induction l as [|z t IH]; cbn; [auto|]. destruct (Nat.eqb x z).
  - intros [->|H]; auto.
  - intros [->|H]; auto. destruct (IH H); auto.
Qed.

Lemma keys_same_length {V W} (l : list (nat * V)) (l' : list (nat * W)) :
  NoDup (akeys l) -> NoDup (akeys l') -> (forall k, aget k l = None <-> aget k l' = None) -> length l' = length l.
Proof.
  intros N N' H. rewrite <- (length_akeys l), <- (length_akeys l'). apply Permutation_length. apply NoDup_Permutation; auto.
  intros k. split; intros Hin.
  - destruct (aget k l) eqn:E; [eapply aget_Some_keys; eauto|]. apply H in E. apply aget_None in E. contradiction.
  - destruct (aget k l') eqn:E; [eapply aget_Some_keys; eauto|]. apply H in E. apply aget_None in E. contradiction.
Qed.

Lemma link_update_parent s a b lid s' nd0 :
  wf s -> aget a (nodes s) = Some nd0 -> parent nd0 = Some b -> aget lid (nodes s) = None ->
  link_update s a b lid = Some s' ->
  wf s' /\ weffect s a b s' nd0 /\ aget lid (nodes s') = None.
Proof.
  intros W Ea Hp Hl H. unfold link_update in H.
  destruct (split_site s a b lid) as [s1|] eqn:E1; [|discriminate].
  destruct (acc s1 a) as [s2|] eqn:E2; [|discriminate].
  destruct (site_update s2 lid) as [s3|] eqn:E3; [|discriminate].
  assert (Hin : In b (neighbouring_nodes nd0)) by (apply in_neighbouring; left; exact Hp).
  destruct (wf_parent_child s a nd0 b W Ea Hp) as (nbn & Eb & Hab).
  assert (Nab : a <> b) by (intros ->; exact (wf_not_self_parent s b nd0 W Ea Hp)).
  assert (Nal : a <> lid) by (intros ->; congruence).
  assert (Nbl : b <> lid) by (intros ->; congruence).
  pose proof (split_site_wf _ _ _ _ _ _ W Ea Hin Hl E1) as W1.
  pose proof (acc_wf _ _ _ W1 E2) as W2. pose proof (site_update_wf _ _ _ W2 E3) as W3.
  assert (W' : wf s') by (apply (contract_preserves_wf s3 lid b b s' W3 H); right; left; reflexivity).
  destruct (split_site_parent s a b lid s1 nd0 nbn W Ea Hp Eb Hl E1)
    as (na & nl & tq & tr & df & A1 & A2 & A3 & A4 & A5 & A6 & A7 & A8 & A9 & A10 & A11 & A12 & A13 & A14 & A15 & A16 & A17 & A18 & A19).
  destruct (acc_facts _ _ _ E2) as (na' & tq' & B1 & B2 & B3 & B4 & B5 & B6 & B7 & B8 & B9 & B10 & B11 & B12).
  rewrite A1 in B1. injection B1 as <-. rewrite A9 in B2. injection B2 as <-.
  destruct (site_update_facts _ _ _ E3) as (nl' & tr' & C1 & C2 & C3 & C4 & C5 & C6 & C7 & C8 & C9 & C10 & C11).
  destruct (B5 lid (not_eq_sym Nal)) as [B5l B5lt]. rewrite B5l, A4 in C1. injection C1 as <-.
  (* the three stores agree away from a and lid *)
  assert (N3 : forall k, k <> a -> k <> lid -> aget k (nodes s3) = aget k (nodes s1)).
  { intros k K1 K2. destruct (C5 k K2) as [-> _]. apply (B5 k K1). }
  assert (T3 : forall k, k <> a -> k <> lid -> aget k (tensors s3) = aget k (tensors s1)).
  { intros k K1 K2. destruct (C5 k K2) as [_ ->]. apply (B5 k K1). }
  assert (N3a : aget a (nodes s3) = Some (reset_permutation na)).
  { destruct (C5 a Nal) as [-> _]. exact B3. }
  assert (T3a : aget a (tensors s3) = Some (s_transpose (perm na) tq)).
  { destruct (C5 a Nal) as [_ ->]. exact B4. }
  assert (N3b : aget b (nodes s3) = Some (with_children nbn (replace_first a lid (children nbn)))).
  { rewrite (N3 b (not_eq_sym Nab) Nbl). exact A7. }
  destruct (contract_explicit s3 lid b b s' W3 H ltac:(right; left; reflexivity))
    as (p & c & pn0 & cn0 & nn & Hpc & Hne & Ep & Ec & Hpar & Enn & Pnn & Cnn & Nd' & Gp & Gc & Go & Gt & _ & Gd & _).
  assert (Hpc' : p = b /\ c = lid).
  { destruct Hpc as [[-> ->]|[-> ->]]; [|auto]. exfalso. rewrite N3b in Ec. injection Ec as <-. cbn in Hpar.
    destruct (wf_parent_child s b nbn lid W Eb Hpar) as (x & Ex & _). congruence. }
  destruct Hpc' as [-> ->]. rewrite N3b in Ep. injection Ep as <-. rewrite C3 in Ec. injection Ec as <-.
  cbn [with_children children parent reset_permutation] in *.
  rewrite (eqb_false b lid Nbl) in Cnn. rewrite A6 in Cnn, Go.
  assert (Hla : ~ In lid (children nbn)).
  { intros Hc. destruct (wf_child_parent s b nbn lid W Eb Hc) as (x & Ex & _). congruence. }
  (* the nodes of the result *)
  assert (Ga : aget a (nodes s') = Some (with_parent (reset_permutation na) (Some b))).
  { rewrite (Go a Nab Nal Nab), N3a. cbn. f_equal. apply node_eq; cbn; auto.
    - rewrite Nat.eqb_refl, orb_true_r. reflexivity.
    - destruct (parent nbn) as [qq|]; [|reflexivity]. destruct (Nat.eqb a qq); [apply replace_first_same|reflexivity]. }
  assert (Gl : aget lid (nodes s') = None) by (apply Gc; congruence).
  assert (Gk : forall k, k <> a -> k <> b -> aget k (nodes s') = aget k (nodes s)).
  { intros k Ka Kb. destruct (Nat.eq_dec k lid) as [->|Kl]; [rewrite Gl, Hl; reflexivity|].
    rewrite (Go k Kb Kl Kb), (N3 k Ka Kl), (A8 k Ka Kb Kl). destruct (aget k (nodes s)) as [nk|] eqn:Ek; [|reflexivity].
    cbn. f_equal. apply node_eq; cbn; auto.
    - rewrite (eqb_false k a Ka). cbn. rewrite orb_false_r.
      destruct (memb k (replace_first a lid (children nbn))) eqn:Hm; [|reflexivity].
      apply memb_In in Hm. apply In_replace_first in Hm. destruct Hm as [->|Hm]; [congruence|].
      destruct (wf_child_parent s b nbn k W Eb Hm) as (x & Ex & Hx). unfold id in *. congruence.
    - destruct (parent nbn) as [qq|]; [|reflexivity]. destruct (Nat.eqb k qq); [apply replace_first_same|reflexivity]. }
  split; [exact W'|]. split; [|exact Gl].
  constructor.
  - exists (with_parent (reset_permutation na) (Some b)), (s_transpose (perm na) tq), 0, df.
    split; [exact Ga|]. split; [rewrite (Gt a Nab Nal Nab); exact T3a|].
    split; [cbn; rewrite A10, A16; reflexivity|].
    split; [rewrite Gd, C11, B11, A15; apply in_or_app; right; left; reflexivity|].
    split; [exact A17|].
    split; [unfold neighbour_index; cbn; rewrite Nat.eqb_refl; reflexivity|].
    split.
    { cbn [with_parent reset_permutation perm s_transpose axes]. fold (nlegs na).
      rewrite seq_nth by lia. cbn [plus]. rewrite A18. exact A11. }
    split; [cbn; symmetry; exact Hp|]. cbn. rewrite A3. apply Permutation_refl.
  - rewrite Gd, C11, B11, A15. intros x Hx. apply in_or_app. left. exact Hx.
  - exact Gk.
  - intros k Ka Kb Hk. assert (Kl : k <> lid) by (intros ->; apply aget_None in Hl; contradiction).
    rewrite (Gt k Kb Kl Kb), (T3 k Ka Kl). apply (A14 k Ka Kl).
  - exists nbn, nn. split; [exact Eb|]. split; [exact Enn|]. split; [exact Pnn|].
    rewrite Cnn. cbn [app]. rewrite remove_replace_first by exact Hla. symmetry. apply remove_first_perm. exact Hab.
  - split; [exact Nd'|]. apply keys_same_length; [apply (wf_nd s W)|exact Nd'|].
    intros k. destruct (Nat.eq_dec k a) as [->|Ka]; [rewrite Ga, Ea; split; discriminate|].
    destruct (Nat.eq_dec k b) as [->|Kb]; [rewrite Enn, Eb; split; discriminate|].
    rewrite (Gk k Ka Kb). reflexivity.
Qed.

(* ==== part 9 ==== *)
Lemma link_update_child s a b lid s' nd0 :
  wf s -> aget a (nodes s) = Some nd0 -> In b (children nd0) -> aget lid (nodes s) = None ->
  link_update s a b lid = Some s' ->
  wf s' /\ weffect s a b s' nd0 /\ aget lid (nodes s') = None.
Proof.
  intros W Ea Hc Hl H. unfold link_update in H.
  destruct (split_site s a b lid) as [s1|] eqn:E1; [|discriminate].
  destruct (acc s1 a) as [s2|] eqn:E2; [|discriminate].
  destruct (site_update s2 lid) as [s3|] eqn:E3; [|discriminate].
  assert (Hin : In b (neighbouring_nodes nd0)) by (apply in_neighbouring; right; exact Hc).
  destruct (wf_child_parent s a nd0 b W Ea Hc) as (nbn & Eb & Hpb).
  assert (Nab : a <> b) by (intros ->; exact (wf_not_self_parent s b nbn W Eb Hpb)).
  assert (Nal : a <> lid) by (intros ->; congruence).
  assert (Nbl : b <> lid) by (intros ->; congruence).
  assert (Hpn0 : parent nd0 <> Some b) by (apply (wf_parent_not_child s b nbn a nd0 W Eb Hpb Ea)).
  pose proof (split_site_wf _ _ _ _ _ _ W Ea Hin Hl E1) as W1.
  pose proof (acc_wf _ _ _ W1 E2) as W2. pose proof (site_update_wf _ _ _ W2 E3) as W3.
  assert (W' : wf s') by (apply (contract_preserves_wf s3 lid b b s' W3 H); right; left; reflexivity).
  destruct (split_site_child s a b lid s1 nd0 nbn W Ea Hc Eb Hl E1)
    as (na & nl & tq & tr & df & A1 & A2 & A3 & A4 & A5 & A6 & A7 & A8 & A9 & A10 & A11 & A12 & A13 & A14 & A15 & A16 & A17 & A18 & A19).
  destruct (acc_facts _ _ _ E2) as (na' & tq' & B1 & B2 & B3 & B4 & B5 & B6 & B7 & B8 & B9 & B10 & B11 & B12).
  rewrite A1 in B1. injection B1 as <-. rewrite A9 in B2. injection B2 as <-.
  destruct (site_update_facts _ _ _ E3) as (nl' & tr' & C1 & C2 & C3 & C4 & C5 & C6 & C7 & C8 & C9 & C10 & C11).
  destruct (B5 lid (not_eq_sym Nal)) as [B5l B5lt]. rewrite B5l, A4 in C1. injection C1 as <-.
  assert (N3 : forall k, k <> a -> k <> lid -> aget k (nodes s3) = aget k (nodes s1)).
  { intros k K1 K2. destruct (C5 k K2) as [-> _]. apply (B5 k K1). }
  assert (T3 : forall k, k <> a -> k <> lid -> aget k (tensors s3) = aget k (tensors s1)).
  { intros k K1 K2. destruct (C5 k K2) as [_ ->]. apply (B5 k K1). }
  assert (N3a : aget a (nodes s3) = Some (reset_permutation na)).
  { destruct (C5 a Nal) as [-> _]. exact B3. }
  assert (T3a : aget a (tensors s3) = Some (s_transpose (perm na) tq)).
  { destruct (C5 a Nal) as [_ ->]. exact B4. }
  assert (N3b : aget b (nodes s3) = Some (with_parent nbn (Some lid))).
  { rewrite (N3 b (not_eq_sym Nab) Nbl). exact A7. }
  destruct (contract_explicit s3 lid b b s' W3 H ltac:(right; left; reflexivity))
    as (p & c & pn0 & cn0 & nn & Hpc & Hne & Ep & Ec & Hpar & Enn & Pnn & Cnn & Nd' & Gp & Gc & Go & Gt & _ & Gd & _).
  assert (Hpc' : p = lid /\ c = b).
  { destruct Hpc as [[-> ->]|[-> ->]]; [auto|]. exfalso. rewrite C3 in Ec. injection Ec as <-. cbn in Hpar. congruence. }
  destruct Hpc' as [-> ->]. rewrite N3b in Ec. injection Ec as <-. rewrite C3 in Ep. injection Ep as <-.
  cbn [with_parent children parent reset_permutation] in *.
  rewrite Nat.eqb_refl in Cnn. rewrite A6 in Cnn, Go. cbn [remove_first] in Cnn. rewrite Nat.eqb_refl in Cnn. cbn [app] in Cnn.
  rewrite A5 in Go, Pnn.
  assert (Hanc : ~ In a (children nbn)).
  { intros Hx. destruct (wf_child_parent s b nbn a W Eb Hx) as (x & Ex & Hx'). unfold id in *. congruence. }
  set (na' := {| parent := parent na; children := b :: remove_first b (children nd0);
                 perm := seq 0 (length (perm na)); shape := node_shape na |}).
  assert (Ga : aget a (nodes s') = Some na').
  { rewrite (Go a Nal Nab Nab), N3a. cbn. f_equal. apply node_eq; cbn; auto.
    - rewrite (eqb_false a b Nab). cbn. apply memb_false in Hanc. rewrite Hanc. reflexivity.
    - rewrite Nat.eqb_refl, A3. cbn. rewrite Nat.eqb_refl. reflexivity. }
  assert (Gl : aget lid (nodes s') = None) by (apply Gp; congruence).
  assert (Gk : forall k, k <> a -> k <> b -> aget k (nodes s') = aget k (nodes s)).
  { intros k Ka Kb. destruct (Nat.eq_dec k lid) as [->|Kl]; [rewrite Gl, Hl; reflexivity|].
    rewrite (Go k Kl Kb Kb), (N3 k Ka Kl), (A8 k Ka Kb Kl). destruct (aget k (nodes s)) as [nk|] eqn:Ek; [|reflexivity].
    cbn. f_equal. apply node_eq; cbn; auto.
    - rewrite (eqb_false k b Kb). cbn.
      destruct (memb k (children nbn)) eqn:Hm; [|reflexivity].
      apply memb_In in Hm. destruct (wf_child_parent s b nbn k W Eb Hm) as (x & Ex & Hx). unfold id in *. congruence.
    - rewrite (eqb_false k a Ka). reflexivity. }
  split; [exact W'|]. split; [|exact Gl].
  constructor.
  - exists na', (s_transpose (perm na) tq), (nparents nd0), df.
    split; [exact Ga|]. split; [rewrite (Gt a Nal Nab Nab); exact T3a|].
    split; [cbn; rewrite A10, A16; reflexivity|].
    split; [rewrite Gd, C11, B11, A15; apply in_or_app; right; left; reflexivity|].
    split; [exact A17|].
    split.
    { unfold neighbour_index, na'. cbn. rewrite A2, Nat.eqb_refl. unfold nparents. destruct (parent nd0) as [pp|]; [|reflexivity].
      rewrite (eqb_false b pp) by congruence. reflexivity. }
    split.
    { unfold na'. cbn [perm s_transpose axes]. fold (nlegs na).
      rewrite seq_nth by exact A12. cbn [plus]. rewrite A18. exact A11. }
    split; [unfold na'; cbn; exact A2|]. unfold na'. cbn. symmetry. apply remove_first_perm. exact Hc.
  - rewrite Gd, C11, B11, A15. intros x Hx. apply in_or_app. left. exact Hx.
  - exact Gk.
  - intros k Ka Kb Hk. assert (Kl : k <> lid) by (intros ->; apply aget_None in Hl; contradiction).
    rewrite (Gt k Kl Kb Kb), (T3 k Ka Kl). apply (A14 k Ka Kl).
  - exists nbn, nn. split; [exact Eb|]. split; [exact Enn|]. split; [rewrite Pnn; symmetry; exact Hpb|].
    rewrite Cnn. apply Permutation_refl.
  - split; [exact Nd'|]. apply keys_same_length; [apply (wf_nd s W)|exact Nd'|].
    intros k. destruct (Nat.eq_dec k a) as [->|Ka]; [rewrite Ga, Ea; split; discriminate|].
    destruct (Nat.eq_dec k b) as [->|Kb]; [rewrite Enn, Eb; split; discriminate|].
    rewrite (Gk k Ka Kb). reflexivity.
Qed.

(* the link update along an edge: invariant, centre attribute, link identifier gone *)
Theorem link_update_effect s a b lid s' nd0 :
  wf s -> aget a (nodes s) = Some nd0 -> In b (neighbouring_nodes nd0) -> aget lid (nodes s) = None ->
  link_update s a b lid = Some s' ->
  wf s' /\ weffect s a b s' nd0 /\ aget lid (nodes s') = None.
Proof.
  intros W Ea Hin Hl H. apply in_neighbouring in Hin. destruct Hin as [Hp|Hc].
  - eapply link_update_parent; eauto.
  - eapply link_update_child; eauto.
Qed.

