(* C09 at the store (Layer W) level: the STRUCTURAL effect of one BUG / fixed-rank BUG step
   (pytreenet/time_evolution/time_evo_util/common_bug.py, bug_util.py) as a program over the store
   model TTN/Store.v + TTN/Canon.v.  Definitions only; proofs are in BUGStoreProofs.v.

   Several TreeTensorNetworkStates are alive during a step (the caller's state, one re-centred copy per
   node on the recursion stack, the state `new_state` collecting the new bases).  They are modelled as
   `view`s (node dictionary, tensor dictionary, root) over ONE set of global tables (dims, atab, defs and the
   fresh counters): `focus g v` is the store with the tables of g and the dictionaries of v.  Every frozen
   store operation only appends to the tables, so running it on a focused store and keeping the resulting
   tables is sound, and atoms / wires created in one state keep their meaning when a tensor is pulled into
   another state (pull_tensor_from_different_ttn).

   What is literal: the assertions of update_node / root_update, deepcopy / deepcopy_parts as value copies,
   move_orthogonalization_center(node, KEEP) (Canon.move_center), the iteration over frozenset(children)
   (the observed order is an INPUT: the `rtree` handed to the model lists every node's children in the order
   the loop visited them; the model checks it is a permutation of the children of the node),
   pull_tensor_from_different_ttn + relative_leg_permutation + Node.replace_tensor, contract_all_children
   (Store.contract_nodes), every TensorDict access made on new_state, concat_along_parent_leg /
   numpy.concat along axis 0, new_basis_tensor_qr_legs, tensor_qr_decomposition (REDUCED / KEEP bond
   dimension), make_last_leg_first / `.T`, split_node_replace with idiots_splitting's shape checks and
   the node surgery of split_nodes, the final replace_tensor at the root.
   Opaque (fresh atoms with the prescribed axes): the time-evolved tensor, the concatenated tensor, the Q
   and R factors, the basis-change matrix (its diagram is the separate program `bc_diagram` below).
   Not modelled here: the SandwichCache (Sched/BUG.v), the truncation (C10) and the canonical_form after it
   (C03).  Accesses on the re-centred copies and on parent_state only change raw layouts of those copies;
   the model reads them through `vlogical`.
   Also here: `dtree_of` / `shapes_agree` (the shapes of a store in the vocabulary of Sched/BUG.v's rank
   arithmetic, and the per-instance agreement of the two models), `bc_diagram` / `bc_okb` (the basis-change
   matrix of a node as the block recursion of Contr/Blocks.v between the old bases and the conjugated new
   bases, and the hypothesis checker of its diagram theorem), `bug_case` / `bc_case` (what the harness
   evaluates per explored step). *)
From Coq Require Import List Arith Bool.
From PTN Require Import TTN.Store TTN.Canon TTN.Inv Tree.RTree Contr.Blocks.
From PTN Require Sched.BUG Contr.Closed.
Import ListNotations.

(* ---- views ------------------------------------------------------------------------------------------ *)
Record view := { vnodes : list (id * node); vtensors : list (id * sarr); vroot : option id }.

Definition view_of (s : store) : view := {| vnodes := nodes s; vtensors := tensors s; vroot := root s |}.

Definition focus (g : store) (v : view) : store :=
  {| nodes := vnodes v; tensors := vtensors v; root := vroot v; dims := dims g;
     next_wire := next_wire g; next_atom := next_atom g; defs := defs g; atab := atab g |}.

(* state.tensors[n] read without side effect *)
Definition vlogical (v : view) (n : id) : option sarr :=
  match aget n (vnodes v), aget n (vtensors v) with
  | Some nd, Some t => Some (s_transpose (perm nd) t)
  | _, _ => None
  end.

Definition nilb {A} (l : list A) : bool := match l with [] => true | _ => false end.

(* frozenset(a) == frozenset(b) for a duplicate-free a *)
Definition perm_ofb (a b : list nat) : bool :=
  Nat.eqb (length a) (length b) && nodupb a && forallb (fun x => memb x b) a.

(* ---- kernels (opaque atoms with the shapes the code prescribes) ------------------------------------------ *)
(* kinds recorded in `defs`: 0 QR (as split_nodes), 4 / 5 the two blocks of a concatenation,
   6 time evolution of kinput, 7 basis-change matrix (kinput: its two legs) *)

(* single_site_time_evolution(n, state, ...): reads state.tensors[n]; the result has the same legs *)
Definition evolve (s : store) (n : id) : option (store * sarr) :=
  match access s n with
  | Some (s1, nd, t) =>
      let '(s2, a) := fresh_atom s1 (axes t) in
      Some (add_def s2 {| kq := a; kr := a; kbond := 0; kinput := t; kkind := 6; kmode := None |},
            {| axes := axes t; atoms := [a]; bnd := [] |})
  | None => None
  end.

(* numpy.concatenate((a, b), axis=ax): equal number of legs, equal dimensions off the axis *)
Definition concat_axis (g : store) (ax : nat) (a b : sarr) : option (store * sarr) :=
  if negb (Nat.eqb (length (axes a)) (length (axes b)) && Nat.ltb ax (length (axes a))) then None else
  let sa := map (wdim g) (axes a) in
  let sb := map (wdim g) (axes b) in
  if negb (list_eqb (set_nth ax 0 sa) (set_nth ax 0 sb)) then None else
  let '(g1, ws) := fresh_wires g [nth ax sa 0 + nth ax sb 0] in
  let w := hd 0 ws in
  let ax' := set_nth ax w (axes a) in
  let '(g2, c) := fresh_atom g1 ax' in
  let g3 := add_def g2 {| kq := c; kr := c; kbond := w; kinput := a; kkind := 4; kmode := None |} in
  let g4 := add_def g3 {| kq := c; kr := c; kbond := w; kinput := b; kkind := 5; kmode := None |} in
  Some (g4, {| axes := ax'; atoms := [c]; bnd := [] |}).

(* tensor_qr_decomposition(t, ql, rl, mode): Q has legs (ql..., new), R has legs (new, rl...) *)
Definition qr_kernel (g : store) (t : sarr) (ql rl : list nat) (m : mode) : option (store * sarr * sarr) :=
  if negb (is_perm_of_seq (ql ++ rl) && Nat.eqb (length (ql ++ rl)) (length (axes t))) then None else
  if (match m, rl with Keep, [] => true | _, _ => false end) then None else
  let ow := permute 0 ql (axes t) in
  let iw := permute 0 rl (axes t) in
  let bd := qr_bond_dim m (prod_list (map (wdim g) ow)) (prod_list (map (wdim g) iw)) in
  let '(g2, bw) := fresh_wires g [bd] in
  let b := hd 0 bw in
  let '(g3, qa) := fresh_atom g2 (ow ++ [b]) in
  let '(g4, ra) := fresh_atom g3 (b :: iw) in
  Some (add_def g4 {| kq := qa; kr := ra; kbond := b; kinput := s_transpose (ql ++ rl) t; kkind := 0; kmode := Some m |},
        {| axes := ow ++ [b]; atoms := [qa]; bnd := [] |},
        {| axes := b :: iw; atoms := [ra]; bnd := [] |}).

(* make_last_leg_first *)
Definition last_leg_first (t : sarr) : sarr :=
  match length (axes t) with
  | 0 | 1 => t
  | S k => s_transpose (k :: seq 0 k) t
  end.

(* the basis-change matrix: legs (old parent wire, new parent wire) *)
Definition bc_atom (g : store) (wold wnew : wire) : store * sarr :=
  let '(g1, a) := fresh_atom g [wold; wnew] in
  (add_def g1 {| kq := a; kr := a; kbond := wnew; kinput := {| axes := [wold; wnew]; atoms := []; bnd := [] |};
                 kkind := 7; kmode := None |},
   {| axes := [wold; wnew]; atoms := [a]; bnd := [] |}).

(* ---- split_node_replace ------------------------------------------------------------------------------- *)
(* split_nodes with idiots_splitting: the two given tensors replace the node; only shapes are checked.
   The node surgery is that of Store.split_nodes, line by line. *)
Definition nth_all {A} (l : list A) (idx : list nat) : option (list A) := all_some (map (nth_error l) idx).

Definition split_replace (s : store) (n : id) (o i : legspec) (oid iid : id) (ta tb : sarr) : option store :=
  match access s n with
  | None => None
  | Some (s1, nd, t) =>
      match find_leg_values nd o, find_leg_values nd i with
      | Some ol, Some il =>
          let tsh := map (wdim s) (axes t) in
          let sha := map (wdim s) (axes ta) in
          let shb := map (wdim s) (axes tb) in
          (* idiots_splitting *)
          match nth_all tsh ol, nth_all tsh il with
          | Some tsa, Some tsb =>
              if negb (list_eqb tsa (removelast sha)) then None else
              if negb (list_eqb tsb (tl shb)) then None else
              if negb (Nat.eqb (length sha) (length ol + 1)) then None else
              if negb (Nat.eqb (length shb) (length il + 1)) then None else
              if negb (Nat.eqb (last sha 0) (hd 0 shb)) then None else
              if Nat.eqb oid iid then None else
              let s6 := upd_tensors s1 (fun l => aset iid tb (aset oid ta l)) in
              let on0 := new_node sha in
              let in0 := new_node shb in
              (* _set_in_parent_leg_after_split *)
              let r_in1 := match ls_parent i with
                           | Some ip => open_leg_to_parent in0 ip 1
                           | None => if ls_root i then Some in0 else open_leg_to_parent in0 oid 0
                           end in
              (* _find_in_children *)
              let in_children :=
                (if ls_root i then [(oid, 0)] else match ls_parent i with Some _ => [(oid, 1)] | None => [] end)
                ++ enum_from (match ls_parent i with Some _ => if ls_root i then 1 else 2 | None => 1 end) (ls_children i) in
              if (ls_root i && match ls_parent o with Some _ => true | None => false end) then None else
              if (ls_root i && ls_root o) then None else
              if ((ls_root i || match ls_parent i with Some _ => true | None => false end)
                  && match ls_parent o with Some _ => true | None => false end) then None else
              if (negb (ls_root i) && match ls_parent i with None => true | _ => false end
                  && negb (ls_root o) && match ls_parent o with None => true | _ => false end) then None else
              match r_in1 with
              | None => None
              | Some in1 =>
                  match open_legs_to_children in1 in_children with
                  | None => None
                  | Some in2 =>
                      (* _set_out_parent_leg_after_split *)
                      let r_out1 := match ls_parent o with
                                    | Some op => open_leg_to_parent on0 op 0
                                    | None => if ls_root o then Some on0 else open_leg_to_parent on0 iid (nlegs on0 - 1)
                                    end in
                      match r_out1 with
                      | None => None
                      | Some on1 =>
                          let in_is_above := ls_root i || match ls_parent i with Some _ => true | None => false end in
                          let out_children :=
                            (if in_is_above then [] else [(iid, nlegs on1 - 1)])
                            ++ enum_from (if in_is_above then 1 else if ls_root o then 0 else 1) (ls_children o) in
                          match open_legs_to_children on1 out_children with
                          | None => None
                          | Some on2 =>
                              let l0 := aset iid in2 (aset oid on2 (nodes s6)) in
                              match replace_in_some_neighbours l0 oid n (find_all_neighbour_ids o) with
                              | None => None
                              | Some l1 =>
                                  match replace_in_some_neighbours l1 iid n (find_all_neighbour_ids i) with
                                  | None => None
                                  | Some l2 =>
                                      let r := if ls_root i then Some iid else if ls_root o then Some oid else root s6 in
                                      let keep := Nat.eqb n oid || Nat.eqb n iid in
                                      let s7 := set_root (upd_nodes s6 (fun _ => if keep then l2 else adel n l2)) r in
                                      Some (if keep then s7 else upd_tensors s7 (adel n))
                                  end
                              end
                          end
                      end
                  end
              end
          | _, _ => None
          end
      | _, _ => None
      end
  end.

(* the visiting order handed to the model: `t` lists, for every node of the state, its children in the order the
   loop `for child_id in frozenset(children)` visited them; identifiers occur once *)
Fixpoint tree_matchb (l : list (id * node)) (t : rtree) {struct t} : bool :=
  match t with
  | RNode n kids =>
      match aget n l with
      | Some nd => perm_ofb (map RTree.rid kids) (children nd) && forallb (tree_matchb l) kids
      | None => false
      end
  end.

Section BUG.
  Variable fixed : bool.      (* FixedBUG / rank-adaptive BUG *)
  Variable bcoff : nat.       (* identifier of "<n>_basis_change_tensor" is n + bcoff *)
  Variable rid : id.          (* the temporary identifier of an R factor in move_orthogonalization_center (a uuid) *)

  Definition bcid (n : id) : id := n + bcoff.                                  (* basis_change_tensor_id *)
  Definition unbc (k : id) : option id := if Nat.leb bcoff k then Some (k - bcoff) else None.  (* reverse_... *)

  (* relative_leg_permutation(old_node, new_node, modify_function = reverse_basis_change_tensor_id) *)
  Definition rel_leg_perm (oldn newn : node) : option (list nat) :=
    if negb (Nat.eqb (length (children oldn)) (length (children newn))) then None else
    match all_some (map (fun c => match unbc c with Some c0 => index_of c0 (children oldn) | None => None end)
                        (children newn)) with
    | None => None
    | Some cp =>
        if negb (Nat.eqb (nparents oldn) (nparents newn)) then None else
        Some ((if is_root newn then [] else [0]) ++ map (fun j => j + nparents oldn) cp ++ seq (nvirt newn) (nopen newn))
    end.

  (* pull_tensor_from_different_ttn(old_ttn = cv, new_ttn = g, n, reverse_basis_change_tensor_id) *)
  Definition pull_tensor (g : store) (cv : view) (n : id) : option store :=
    match aget n (vnodes cv), aget n (nodes g), vlogical cv n with
    | Some oldn, Some newn, Some ot =>
        match rel_leg_perm oldn newn with
        | Some q =>
            match node_replace_tensor newn (map (wdim g) (axes ot)) (Some q) with
            | Some nd' => Some (upd_tensors (upd_nodes g (aset n nd')) (aset n ot))
            | None => None
            end
        | None => None
        end
    | _, _, _ => None
    end.

  (* contract_all_children(n): for child in copy(node.children): contract_nodes(n, child, new_identifier = n) *)
  Definition contract_all_children (g : store) (n : id) : option store :=
    match aget n (nodes g) with
    | None => None
    | Some nd => fold_left (fun acc c => match acc with Some g' => contract_nodes g' n c n | None => None end)
                           (children nd) (Some g)
    end.

  (* the new basis tensor of a non-leaf node from the evolved tensor u (legs of the node nd in the usual
     order): compute_fixed_size_new_basis_tensor / compute_new_basis_tensor *)
  Definition new_basis (g : store) (nd : node) (oldt u : sarr) : option (store * sarr) :=
    if is_root nd then None else      (* new_basis_tensor_qr_legs: assert not node.is_root() *)
    let ql := seq (nparents nd) (length (children nd)) ++ seq (nvirt nd) (nopen nd) in
    if fixed then
      match qr_kernel g u ql [0] Keep with
      | Some (g1, q, _) =>
          let nb := last_leg_first q in
          if list_eqb (map (wdim g1) (axes nb)) (map (wdim g1) (axes u)) then Some (g1, nb) else None
      | None => None
      end
    else
      match concat_axis g 0 oldt u with
      | Some (g1, cc) =>
          match qr_kernel g1 cc ql [0] Reduced with
          | Some (g2, q, _) => Some (g2, last_leg_first q)
          | None => None
          end
      | None => None
      end.

  (* update_leaf_node after the re-centring.  cv: current_state, pv: parent_state *)
  Definition update_leaf (n : id) (g : store) (cv pv : view) : option store :=
    let nv := view_of g in
    match evolve (focus g cv) n with
    | None => None
    | Some (s1, u) =>
        let cv1 := view_of s1 in
        let g1 := focus s1 nv in
        match vlogical pv n with
        | None => None
        | Some oldb =>
            match (if fixed then qr_kernel g1 u [1] [0] Keep
                   else match concat_axis g1 0 oldb u with
                        | Some (g2, cc) => qr_kernel g2 cc [1] [0] Reduced
                        | None => None
                        end) with
            | None => None
            | Some (g3, q, _) =>
                let newb := s_transpose [1; 0] q in            (* .T *)
                (* tensordot(old_basis_tensor, new_basis_tensor.conj(), axes=([1],[1])) *)
                if negb (Nat.eqb (length (axes oldb)) 2
                         && Nat.eqb (wdim g3 (nth 1 (axes oldb) 0)) (wdim g3 (nth 1 (axes newb) 0))) then None else
                let '(g4, m) := bc_atom g3 (nth 0 (axes oldb) 0) (nth 0 (axes newb) 0) in
                match aget n (vnodes cv1) with
                | None => None
                | Some cn =>
                    match parent cn with
                    | None => None                                  (* assert not is_root *)
                    | Some pid =>
                        match split_replace g4 n
                                {| ls_parent := Some pid; ls_children := []; ls_open := []; ls_root := false |}
                                {| ls_parent := None; ls_children := []; ls_open := [1]; ls_root := false |}
                                (bcid n) n m newb with
                        | Some g5 => option_map (fun r => fst (fst r)) (access g5 n)     (* new_state[n] for contract_leaf *)
                        | None => None
                        end
                    end
                end
            end
        end
    end.

  (* update_non_leaf_node after the children loop *)
  Definition update_non_leaf_rest (n : id) (g : store) (cv pv : view) : option store :=
    match pull_tensor g cv n with
    | None => None
    | Some g1 =>
        match contract_all_children g1 n with
        | None => None
        | Some g2 =>
            match evolve g2 n with
            | None => None
            | Some (g3, u) =>
                match aget n (nodes g3), aget n (tensors g3), vlogical pv n with
                | Some nd, Some oldt, Some oldb =>            (* new_state_node, new_state.tensors[n], parent_state[n] *)
                    match new_basis g3 nd oldt u with
                    | None => None
                    | Some (g4, newb) =>
                        (* compute_basis_change_tensor: a matrix (old parent leg, new parent leg) *)
                        match option_map parent (aget n (vnodes pv)) with
                        | None | Some None => None                  (* node_old.parent: assert parent_id is not None *)
                        | Some (Some _) =>
                            let '(g5, m) := bc_atom g4 (nth 0 (axes oldb) 0) (nth 0 (axes newb) 0) in
                            match split_replace g5 n
                                    {| ls_parent := parent nd; ls_children := []; ls_open := []; ls_root := false |}
                                    {| ls_parent := None; ls_children := children nd;
                                       ls_open := seq (nvirt nd) (nopen nd); ls_root := false |}
                                    (bcid n) n m newb with
                            | Some g6 => option_map (fun r => fst (fst r)) (access g6 n)   (* contract_any reads new_state[n] *)
                            | None => None
                            end
                        end
                    end
                | _, _, _ => None
                end
            end
        end
    end.

  (* update_node(node_id = rid t, new_state = g, parent_state = (pv, pc)) *)
  Fixpoint update_node (t : rtree) (g : store) (pv : view) (pc : option id) {struct t} : option store :=
    match t with
    | RNode n kids =>
        match aget n (vnodes pv) with
        | None => None
        | Some pn0 =>
            match parent pn0 with
            | None => None                                            (* "There is no basis change for the root node!" *)
            | Some p =>
                if negb (match pc with Some c0 => Nat.eqb c0 p | None => false end) then None else   (* parent is the centre *)
                let nv := view_of g in
                (* current_state = copy of parent_state; move_orthogonalization_center(n, KEEP) *)
                match move_center (focus g pv, pc) n Keep rid with
                | None => None
                | Some (s1, cc) =>
                    let cv := view_of s1 in
                    let g1 := focus s1 nv in
                    match aget n (vnodes cv) with
                    | None => None
                    | Some cn =>
                        if nilb (children cn) then
                          if nilb kids then update_leaf n g1 cv pv else None
                        else
                          if negb (perm_ofb (map RTree.rid kids) (children cn)) then None else
                          match (fix loop (l : list rtree) (g' : store) {struct l} : option store :=
                                   match l with
                                   | [] => Some g'
                                   | c :: r => match update_node c g' cv cc with
                                               | Some g'' => loop r g''
                                               | None => None
                                               end
                                   end) kids g1 with
                          | None => None
                          | Some g2 => update_non_leaf_rest n g2 cv pv
                          end
                    end
                end
            end
        end
    end.

  Fixpoint update_children (l : list rtree) (g : store) (cv : view) (cc : option id) : option store :=
    match l with
    | [] => Some g
    | c :: r => match update_node c g cv cc with
                | Some g' => update_children r g' cv cc
                | None => None
                end
    end.

  (* root_update(current_state = cs): the returned state and its recorded orthogonality centre *)
  Definition root_update (t : rtree) (cs : cstore) : option cstore :=
    match t with
    | RNode r kids =>
        let g := fst cs in
        match root g with
        | None => None                                                    (* "The state has no root node!" *)
        | Some r0 =>
            if negb (Nat.eqb r0 r) then None else
            if negb (match snd cs with Some c => Nat.eqb c r | None => false end) then None else
            if negb (tree_matchb (nodes g) t && nodupb (ids t)) then None else       (* guard on the input encoding *)
            let pv := view_of g in                                        (* new_state = deepcopy(current_state) *)
            match aget r (nodes g) with
            | None => None
            | Some rn =>
                if negb (perm_ofb (map RTree.rid kids) (children rn)) then None else
                match update_children kids g pv (snd cs) with
                | None => None
                | Some g1 =>
                    match pull_tensor g1 pv r with
                    | None => None
                    | Some g2 =>
                        match contract_all_children g2 r with
                        | None => None
                        | Some g3 =>
                            match evolve g3 r with
                            | None => None
                            | Some (g4, u) =>
                                (* new_state.replace_tensor(root_id, updated_tensor) *)
                                match aget r (nodes g4) with
                                | None => None
                                | Some nd =>
                                    match node_replace_tensor nd (map (wdim g4) (axes u)) None with
                                    | Some nd' => Some (upd_tensors (upd_nodes g4 (aset r nd')) (aset r u), snd cs)
                                    | None => None
                                    end
                                end
                            end
                        end
                    end
                end
            end
        end
    end.
End BUG.

(* ---- observation used by the correspondence (small: no dims / atab tables) ------------------------------ *)
Definition obs_shape (s : store) (kt : id * sarr) := (fst kt, map (wdim s) (axes (snd kt))).
Definition bug_observe (cs : cstore) :=
  (map (obs_node (fst cs)) (nodes (fst cs)), map (obs_shape (fst cs)) (tensors (fst cs)),
   match root (fst cs) with Some r => [r] | None => [] end,
   match snd cs with Some c => [c] | None => [] end).

(* ---- shapes: the view of a store that Sched/BUG.v's rank arithmetic works on ---------------------------------- *)
(* a node: identifier, dimension of the parent leg (1 at the root), product of the open dimensions, children in
   the order of t *)
Fixpoint dtree_of (g : store) (t : rtree) {struct t} : BUG.dtree :=
  match t with
  | RNode n kids =>
      match aget n (nodes g) with
      | Some nd =>
          let sh := node_shape nd in
          BUG.DNode n (if is_root nd then 1 else nth 0 sh 0) (prod_list (skipn (nvirt nd) sh)) (map (dtree_of g) kids)
      | None => BUG.DNode n 0 0 []
      end
  end.

Fixpoint dtree_eqb (a b : BUG.dtree) {struct a} : bool :=
  match a, b with
  | BUG.DNode i r d cs, BUG.DNode i' r' d' cs' =>
      Nat.eqb i i' && Nat.eqb r r' && Nat.eqb d d' && BUG.forall2b dtree_eqb cs cs'
  end.

(* the rank arithmetic of Sched/BUG.v (shape_root) predicts exactly the shapes of the store model's result *)
Definition shapes_agree (fixed : bool) (t : rtree) (g g' : store) : bool :=
  match BUG.shape_root fixed (dtree_of g t) with
  | Some d => dtree_eqb d (dtree_of g' t)
  | None => false
  end.

(* ---- the basis-change matrices as diagrams ---------------------------------------------------------------------- *)
(* compute_basis_change_tensor(node_old, node_new, tensor_old, tensor_new.conj(), cache of the children's matrices)
   = contract_any_nodes(parent, ...) = contract_leafs / contract_subtrees_using_dictionary, i.e. the block
   recursion Blocks.block_two of contract_two_ttns between the state of OLD bases (the ket: below the centre the
   parent_state still holds the caller's tensors) and the conjugated copy of the state of NEW bases (the bra; the
   conjugated copy gets offset wires and atoms as in Contr/Blocks.v, so the diagram records which open leg met
   which).  The children's matrices are the recursive calls (the code caches them).  update_leaf_node's
   tensordot(old, new.conj(), ([1],[1])) is the leaf case. *)
Definition conj_sarr (woff aoff : nat) (t : sarr) : sarr :=
  {| axes := map (Nat.add woff) (axes t); atoms := map (Nat.add aoff) (atoms t); bnd := map (Nat.add woff) (bnd t) |}.
Definition conj_store (woff aoff : nat) (s : store) : store :=
  upd_tensors s (map (fun kt => (fst kt, conj_sarr woff aoff (snd kt)))).

Definition bc_diagram (woff aoff : nat) (old new : store) (n p : id) : option garr :=
  block_two (length (nodes old)) old (conj_store woff aoff new) n p.

(* hypothesis checker of the diagram theorem for the matrix of node n: the subtree of n in the old state (in its own
   child order) and in the new state (any child order) is a consistent pair of states with one open leg per node *)
Definition bc_okb (woff aoff : nat) (old new : store) (n : id) : bool :=
  match aget n (nodes old) with
  | Some nd =>
      match parent nd, Closed.tree_of (S (length (nodes old))) old n with
      | Some p, Some t =>
          Closed.wf_subb old (conj_store woff aoff new) (Some p) t
          && Nat.leb (length (Closed.rnodes t)) (length (nodes old))
      | _, _ => false
      end
  | None => false
  end.

(* all non-root nodes *)
Definition bc_all_okb (woff aoff : nat) (old new : store) : bool :=
  forallb (fun kn => if is_root (snd kn) then true else bc_okb woff aoff old new (fst kn)) (nodes old).

(* one explored instance: the literal of the caller's state must be a well-formed store; the step; the
   observation of the returned state, its isometry check, its well-formedness, agreement with Sched/BUG.v's shapes *)
Definition bug_case (fixed : bool) (bcoff : nat) (rid : id) (woff aoff : nat) (t : rtree) (cs : cstore) :=
  (wfb (fst cs),
   match root_update fixed bcoff rid t cs with
   | Some cs' => Some (bug_observe cs', iso_check cs', wfb (fst cs'), shapes_agree fixed t (fst cs) (fst cs'),
                       bc_all_okb woff aoff (fst cs) (fst cs'))
   | None => None
   end).

(* the diagrams of all basis-change matrices of one explored instance (value-level tie): per non-root node the
   summary (axes, atoms, bound wires, glued pairs) of its matrix, and the tensors of the returned store *)
Definition bc_values (woff aoff : nat) (old new : store) :=
  map (fun kn => (fst kn, match parent (snd kn) with
                          | Some p => option_map summary (bc_diagram woff aoff old new (fst kn) p)
                          | None => None
                          end)) (nodes old).
Definition bc_case (fixed : bool) (bcoff : nat) (rid : id) (woff aoff : nat) (t : rtree) (cs : cstore) :=
  match root_update fixed bcoff rid t cs with
  | Some cs' => Some (map obs_tensor (tensors (fst cs')), bc_values woff aoff (fst cs) (fst cs'))
  | None => None
  end.
