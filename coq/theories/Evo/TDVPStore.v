(* One time step of the one-site TDVP classes as a program over the Layer-W store (TTN/Store.v, TTN/Canon.v):
   the events of the trace models Sched/TDVP.v (trace1 = FirstOrderOneSiteTDVP.run_one_time_step, trace2 =
   SecondOrderOneSiteTDVP.run_one_time_step) are interpreted as the store operations the Python performs
   (pytreenet/time_evolution/tdvp_algorithms/{tdvp_algorithm,onesitetdvp,firstorderonesite,secondorderonesite}.py):

     Site n         _update_site: `state.tensors[n]` is READ (TensorDict.__getitem__: transposes the stored array by the
                    node's leg permutation and resets the permutation) and handed to time_evolve, then
                    `state.tensors[n] = updated` is a plain UserDict.__setitem__: the RAW array is replaced, the node
                    record (permutation, recorded shape) is NOT touched (no replace_tensor).  The evolved tensor is an
                    opaque fresh atom on the same wires.
     Split a b      _split_updated_site: split_node_qr(a, q_legs, r_legs, q_identifier = a, r_identifier = link_a_with_b,
                    mode = KEEP) with the leg specifications of _build_qr_leg_specs (the same case split)
     Cache n m      contract_any(n, m, state, ...) reads `state[n]`: an access of n (this is how leg permutations of
                    nodes off the centre get reset during a sweep)
     Link a b       _time_evolve_link_tensor: read `state.tensors[link]`, store the evolved array: as Site on the link
     Absorb a b     contract_nodes(link_a_with_b, b, new_identifier = b) -- NOTE the argument order (link first), the
                    opposite of split_qr_contract_r_to_neighbour; then orthogonality_center_id = b
     Move a b       state.move_orthogonalization_center(b, mode = KEEP)
     AssertCentre n assert state.orthogonality_center_id == n  (a failing assertion makes the step fail)
     AssertLeaf / AssertEnd / Reinit: no effect on the state (their validity is a theorem about the trace,
                    C06_trace_no_failing_assert); a fresh SandwichCache (Reinit) does not touch the state.
   The two-site events (TwoSite) are not interpreted here (truncated SVD: the bond dimension is data dependent).

   The trace is a function of a rooted ordered tree.  The Python computes update path and orthogonalisation paths
   ONCE, in the constructor, from the initial state; later steps run on a state whose children lists have been
   re-ordered by the contractions.  Hence the step takes the tree as an argument (tdvp1_step_t / tdvp2_step_t);
   tdvp1_step / tdvp2_step extract it from the store itself (tree_of).  Definitions only. *)
From Coq Require Import List Arith Bool ZArith.
From PTN Require Import TTN.Store TTN.Canon Tree.RTree Tree.Nav Tree.UpdatePath Tree.CachePath Sched.TDVP.
Import ListNotations.

(* ---- the rooted ordered tree of a store -------------------------------------------------------------- *)
Fixpoint tree_rec (fuel : nat) (l : list (id * node)) (k : id) : rtree :=
  match fuel with
  | O => RNode k []
  | S f => match aget k l with
           | Some n => RNode k (map (tree_rec f l) (children n))
           | None => RNode k []
           end
  end.

Definition tree_of (s : store) : option rtree :=
  match root s with
  | Some r => Some (tree_rec (length (nodes s)) (nodes s) r)
  | None => None
  end.

(* ---- elementary state changes ------------------------------------------------------------------------ *)
(* reading state.tensors[n] / state[n] *)
Definition acc (s : store) (n : id) : option store :=
  match access s n with Some (s', _, _) => Some s' | None => None end.

(* `state.tensors[n] = new_array` (UserDict.__setitem__) with an opaque array of the same raw shape *)
Definition set_fresh (s : store) (n : id) : option store :=
  match aget n (tensors s) with
  | Some t =>
      let '(s1, a) := fresh_atom s (axes t) in
      Some (upd_tensors s1 (aset n {| axes := axes t; atoms := [a]; bnd := [] |}))
  | None => None
  end.

(* read, evolve, store back *)
Definition site_update (s : store) (n : id) : option store :=
  match acc s n with Some s1 => set_fresh s1 n | None => None end.

(* _split_updated_site without the cache update *)
Definition split_site (s : store) (a b lid : id) : option store :=
  match aget a (nodes s) with
  | Some nd => let '(q, r) := build_qr_leg_specs nd b in split_nodes s a q r a lid 0 Keep 0
  | None => None
  end.

(* _update_link as one operation: split, cache update (reads the Q node), evolve the link tensor, absorb it *)
Definition link_update (s : store) (a b lid : id) : option store :=
  match split_site s a b lid with
  | Some s1 =>
      match acc s1 a with
      | Some s2 =>
          match site_update s2 lid with
          | Some s3 => contract_nodes s3 lid b b
          | None => None
          end
      | None => None
      end
  | None => None
  end.

Definition lift (cs : cstore) (o : option store) : option cstore :=
  match o with Some s' => Some (s', snd cs) | None => None end.

(* lk a b: the identifier "link_a_with_b"; tmp: the uuid of split_qr_contract_r_to_neighbour *)
Definition ev_step (lk : id -> id -> id) (tmp : id) (cs : cstore) (e : ev) : option cstore :=
  let s := fst cs in
  match e with
  | Site n _ => lift cs (site_update s n)
  | SiteBack n _ => lift cs (site_update s n)
  | TDVP.Split a b => lift cs (split_site s a b (lk a b))
  | Link a b _ => lift cs (site_update s (lk a b))
  | Absorb a b => match contract_nodes s (lk a b) b b with Some s' => Some (s', Some b) | None => None end
  | TwoSite _ _ _ => None
  | TDVP.Move _ b => move_center cs b Keep tmp
  | Cache n _ => lift cs (acc s n)
  | Reinit => Some cs
  | AssertCentre n => match snd cs with Some c => if Nat.eqb c n then Some cs else None | None => None end
  | AssertLeaf _ => Some cs
  | AssertEnd _ => Some cs
  end.

Definition ev_fold (lk : id -> id -> id) (tmp : id) (acc0 : option cstore) (e : ev) : option cstore :=
  match acc0 with Some cs => ev_step lk tmp cs e | None => None end.

Definition tdvp_run (lk : id -> id -> id) (tmp : id) (cs : cstore) (tr : list ev) : option cstore :=
  fold_left (ev_fold lk tmp) tr (Some cs).

(* ---- the steps -------------------------------------------------------------------------------------------- *)
Definition tdvp1_step_t (lk : id -> id -> id) (tmp : id) (t : rtree) (cs : cstore) : option cstore :=
  match trace1 t with Some tr => tdvp_run lk tmp cs tr | None => None end.

Definition tdvp2_step_t (lk : id -> id -> id) (tmp : id) (t : rtree) (cs : cstore) : option cstore :=
  match trace2 t with Some tr => tdvp_run lk tmp cs tr | None => None end.

Definition tdvp1_step (lk : id -> id -> id) (tmp : id) (cs : cstore) : option cstore :=
  match tree_of (fst cs) with Some t => tdvp1_step_t lk tmp t cs | None => None end.

Definition tdvp2_step (lk : id -> id -> id) (tmp : id) (cs : cstore) : option cstore :=
  match tree_of (fst cs) with Some t => tdvp2_step_t lk tmp t cs | None => None end.

(* TDVPAlgorithm.__init__ after the paths are known: _orthogonalize_init (canonical_form when no centre is recorded,
   a move otherwise), then _init_partial_tree_cache (the blocks of init_cache_but_one: one access per block) *)
Definition tdvp_init (lk : id -> id -> id) (tmp : id) (t : rtree) (cs : cstore) : option cstore :=
  match update_path t, init_trace t with
  | Some (u :: _), Some ini =>
      match ensure_center cs u Keep tmp with
      | Some cs1 => tdvp_run lk tmp cs1 ini
      | None => None
      end
  | _, _ => None
  end.

(* ---- what the correspondence compares ------------------------------------------------------------------- *)
Definition first_of (t : rtree) : option nat :=
  match update_path t with Some (u :: _) => Some u | _ => None end.

(* per-edge / open-leg dimensions in a form independent of leg order: for every node the dimension toward each
   neighbour and the dimensions of its open legs in node order *)
Definition leg_dims (s : store) (kn : id * node) : id * list (id * nat) * list nat :=
  let '(k, n) := kn in
  let shp := node_shape n in
  (k, combine (neighbouring_nodes n) (firstn (nvirt n) shp), skipn (nvirt n) shp).

Definition cobs (cs : cstore) :=
  (observe (fst cs), match snd cs with Some c => [c] | None => [] end, iso_check cs).

(* the state after the constructor and after each of `k` steps; kind 1 = first order, 2 = second order.
   A failing stage ends the list with None. *)
Fixpoint steps_obs (lk : id -> id -> id) (tmp : id) (kind : nat) (t : rtree) (cs : cstore) (k : nat) :=
  match k with
  | O => []
  | S k' =>
      match (if Nat.eqb kind 1 then tdvp1_step_t lk tmp t cs else tdvp2_step_t lk tmp t cs) with
      | Some cs' => Some (cobs cs') :: steps_obs lk tmp kind t cs' k'
      | None => [None]
      end
  end.

Fixpoint rtree_eqb (a b : rtree) : bool :=
  match a, b with
  | RNode i cs, RNode j ds =>
      Nat.eqb i j &&
      (fix go (l : list rtree) (m : list rtree) : bool :=
         match l, m with
         | [], [] => true
         | x :: l', y :: m' => rtree_eqb x y && go l' m'
         | _, _ => false
         end) cs ds
  end.

(* ops: AddRoot/AddChild programme of the initial state; t: the tree the harness read off the live state.
   Result: (tree_of the built store = t, all build operations accepted, state after the constructor,
            states after the steps, first node of the sweep) *)
Definition tdvp_case (lk : id -> id -> id) (tmp : id) (kind : nat) (ops : list op) (t : rtree) (k : nat) :=
  let '(s0, oks) := Store.run empty_store ops in
  (match tree_of s0 with Some t' => rtree_eqb t' t | None => false end,
   forallb (fun b => b) oks,
   match tdvp_init lk tmp t (s0, None) with
   | Some cs1 => (Some (cobs cs1), steps_obs lk tmp kind t cs1 k)
   | None => (None, [])
   end,
   first_of t).
