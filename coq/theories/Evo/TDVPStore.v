(* One time step of the one-site TDVP classes as a program over the Layer-W store (TTN/Store.v, TTN/Canon.v):
   the events of the trace models Sched/TDVP.v (trace1 = FirstOrderOneSiteTDVP.run_one_time_step, trace2 =
   SecondOrderOneSiteTDVP.run_one_time_step) are interpreted as the store operations the Python performs
   (pytreenet/time_evolution/tdvp_algorithms/{tdvp_algorithm,onesitetdvp,firstorderonesite,secondorderonesite}.py):

     Site n         _update_site: `state.tensors[n]` is READ (TensorDict.__getitem__: transposes the stored array by the
                    node's leg permutation and resets the permutation) and handed to time_evolve, then
                    `state.tensors[n] = updated` is a plain UserDict.__setitem__: the RAW array is replaced, the node
                    record (permutation, recorded shape) is NOT touched (no replace_tensor).  The evolved tensor is an
                    opaque fresh atom on the same wires.
     Split a b      _split_updated_site: split_node_qr(a, q_legs, r_legs, q_identifier = a, r_identifier = link_a_with_b,
                    mode = KEEP) with the leg specifications of _build_qr_leg_specs (the same case split)
     Cache n m      contract_any(n, m, state, ...) reads `state[n]`: an access of n (this is how leg permutations of
                    nodes off the centre get reset during a sweep)
     Link a b       _time_evolve_link_tensor: read `state.tensors[link]`, store the evolved array: as Site on the link
     Absorb a b     contract_nodes(link_a_with_b, b, new_identifier = b) -- NOTE the argument order (link first), the
                    opposite of split_qr_contract_r_to_neighbour; then orthogonality_center_id = b
     Move a b       state.move_orthogonalization_center(b, mode = KEEP)
     AssertCentre n assert state.orthogonality_center_id == n  (a failing assertion makes the step fail)
     AssertLeaf / AssertEnd / Reinit: no effect on the state (their validity is a theorem about the trace,
                    C06_trace_no_failing_assert); a fresh SandwichCache (Reinit) does not touch the state.
   The two-site events (TwoSite) are not interpreted here (truncated SVD: the bond dimension is data dependent).

   The trace is a function of a rooted ordered tree.  The Python computes update path and orthogonalisation paths
   ONCE, in the constructor, from the initial state; later steps run on a state whose children lists have been
   re-ordered by the contractions.  Hence the step takes the tree as an argument (tdvp1_step_t / tdvp2_step_t);
   tdvp1_step / tdvp2_step extract it from the store itself (tree_of).  Definitions only. *)
From Coq Require Import List Arith Bool ZArith.
From PTN Require Import TTN.Store TTN.Canon Tree.RTree Tree.Nav Tree.UpdatePath Tree.CachePath Sched.TDVP.
From PTN Require TEBD.Trotter.     (* legs_before_combination (shared with the two-site gate of TEBD) *)
Import ListNotations.

(* ---- the rooted ordered tree of a store -------------------------------------------------------------- *)
Fixpoint tree_rec (fuel : nat) (l : list (id * node)) (k : id) : rtree :=
  match fuel with
  | O => RNode k []
  | S f => match aget k l with
           | Some n => RNode k (map (tree_rec f l) (children n))
           | None => RNode k []
           end
  end.

Definition tree_of (s : store) : option rtree :=
  match root s with
  | Some r => Some (tree_rec (length (nodes s)) (nodes s) r)
  | None => None
  end.

(* ---- elementary state changes ------------------------------------------------------------------------ *)
(* reading state.tensors[n] / state[n] *)
Definition acc (s : store) (n : id) : option store :=
  match access s n with Some (s', _, _) => Some s' | None => None end.

(* `state.tensors[n] = new_array` (UserDict.__setitem__) with an opaque array of the same raw shape *)
Definition set_fresh (s : store) (n : id) : option store :=
  match aget n (tensors s) with
  | Some t =>
      let '(s1, a) := fresh_atom s (axes t) in
      Some (upd_tensors s1 (aset n {| axes := axes t; atoms := [a]; bnd := [] |}))
  | None => None
  end.

(* read, evolve, store back *)
Definition site_update (s : store) (n : id) : option store :=
  match acc s n with Some s1 => set_fresh s1 n | None => None end.

(* _split_updated_site without the cache update *)
Definition split_site (s : store) (a b lid : id) : option store :=
  match aget a (nodes s) with
  | Some nd => let '(q, r) := build_qr_leg_specs nd b in split_nodes s a q r a lid 0 Keep 0
  | None => None
  end.

(* _update_link as one operation: split, cache update (reads the Q node), evolve the link tensor, absorb it *)
Definition link_update (s : store) (a b lid : id) : option store :=
  match split_site s a b lid with
  | Some s1 =>
      match acc s1 a with
      | Some s2 =>
          match site_update s2 lid with
          | Some s3 => contract_nodes s3 lid b b
          | None => None
          end
      | None => None
      end
  | None => None
  end.

Definition lift (cs : cstore) (o : option store) : option cstore :=
  match o with Some s' => Some (s', snd cs) | None => None end.

(* lk a b: the identifier "link_a_with_b"; tmp: the uuid of split_qr_contract_r_to_neighbour *)
Definition ev_step (lk : id -> id -> id) (tmp : id) (cs : cstore) (e : ev) : option cstore :=
  let s := fst cs in
  match e with
  | Site n _ => lift cs (site_update s n)
  | SiteBack n _ => lift cs (site_update s n)
  | TDVP.Split a b => lift cs (split_site s a b (lk a b))
  | Link a b _ => lift cs (site_update s (lk a b))
  | Absorb a b => match contract_nodes s (lk a b) b b with Some s' => Some (s', Some b) | None => None end
  | TwoSite _ _ _ => None
  | TDVP.Move _ b => move_center cs b Keep tmp
  | Cache n _ => lift cs (acc s n)
  | Reinit => Some cs
  | AssertCentre n => match snd cs with Some c => if Nat.eqb c n then Some cs else None | None => None end
  | AssertLeaf _ => Some cs
  | AssertEnd _ => Some cs
  end.

Definition ev_fold (lk : id -> id -> id) (tmp : id) (acc0 : option cstore) (e : ev) : option cstore :=
  match acc0 with Some cs => ev_step lk tmp cs e | None => None end.

Definition tdvp_run (lk : id -> id -> id) (tmp : id) (cs : cstore) (tr : list ev) : option cstore :=
  fold_left (ev_fold lk tmp) tr (Some cs).

(* ---- the steps -------------------------------------------------------------------------------------------- *)
Definition tdvp1_step_t (lk : id -> id -> id) (tmp : id) (t : rtree) (cs : cstore) : option cstore :=
  match trace1 t with Some tr => tdvp_run lk tmp cs tr | None => None end.

Definition tdvp2_step_t (lk : id -> id -> id) (tmp : id) (t : rtree) (cs : cstore) : option cstore :=
  match trace2 t with Some tr => tdvp_run lk tmp cs tr | None => None end.

Definition tdvp1_step (lk : id -> id -> id) (tmp : id) (cs : cstore) : option cstore :=
  match tree_of (fst cs) with Some t => tdvp1_step_t lk tmp t cs | None => None end.

Definition tdvp2_step (lk : id -> id -> id) (tmp : id) (cs : cstore) : option cstore :=
  match tree_of (fst cs) with Some t => tdvp2_step_t lk tmp t cs | None => None end.

(* TDVPAlgorithm.__init__ after the paths are known: _orthogonalize_init (canonical_form when no centre is recorded,
   a move otherwise), then _init_partial_tree_cache (the blocks of init_cache_but_one: one access per block) *)
Definition tdvp_init (lk : id -> id -> id) (tmp : id) (t : rtree) (cs : cstore) : option cstore :=
  match update_path t, init_trace t with
  | Some (u :: _), Some ini =>
      match ensure_center cs u Keep tmp with
      | Some cs1 => tdvp_run lk tmp cs1 ini
      | None => None
      end
  | _, _ => None
  end.

(* ---- what the correspondence compares ------------------------------------------------------------------- *)
Definition first_of (t : rtree) : option nat :=
  match update_path t with Some (u :: _) => Some u | _ => None end.

(* per-edge / open-leg dimensions in a form independent of leg order: for every node the dimension toward each
   neighbour and the dimensions of its open legs in node order *)
Definition leg_dims (s : store) (kn : id * node) : id * list (id * nat) * list nat :=
  let '(k, n) := kn in
  let shp := node_shape n in
  (k, combine (neighbouring_nodes n) (firstn (nvirt n) shp), skipn (nvirt n) shp).

Definition cobs (cs : cstore) :=
  (observe (fst cs), match snd cs with Some c => [c] | None => [] end, iso_check cs).

(* the state after the constructor and after each of `k` steps; kind 1 = first order, 2 = second order.
   A failing stage ends the list with None. *)
Fixpoint steps_obs (lk : id -> id -> id) (tmp : id) (kind : nat) (t : rtree) (cs : cstore) (k : nat) :=
  match k with
  | O => []
  | S k' =>
      match (if Nat.eqb kind 1 then tdvp1_step_t lk tmp t cs else tdvp2_step_t lk tmp t cs) with
      | Some cs' => Some (cobs cs') :: steps_obs lk tmp kind t cs' k'
      | None => [None]
      end
  end.

Fixpoint rtree_eqb (a b : rtree) : bool :=
  match a, b with
  | RNode i cs, RNode j ds =>
      Nat.eqb i j &&
      (fix go (l : list rtree) (m : list rtree) : bool :=
         match l, m with
         | [], [] => true
         | x :: l', y :: m' => rtree_eqb x y && go l' m'
         | _, _ => false
         end) cs ds
  end.

(* ops: AddRoot/AddChild programme of the initial state; t: the tree the harness read off the live state.
   Result: (tree_of the built store = t, all build operations accepted, state after the constructor,
            states after the steps, first node of the sweep) *)
Definition tdvp_case (lk : id -> id -> id) (tmp : id) (kind : nat) (ops : list op) (t : rtree) (k : nat) :=
  let '(s0, oks) := Store.run empty_store ops in
  (match tree_of s0 with Some t' => rtree_eqb t' t | None => false end,
   forallb (fun b => b) oks,
   match tdvp_init lk tmp t (s0, None) with
   | Some cs1 => (Some (cobs cs1), steps_obs lk tmp kind t cs1 k)
   | None => (None, [])
   end,
   first_of t).

(* ==== two-site TDVP (secondordertwosite.py, twositetdvp.py) ============================================================ *)
(* TwoSite a b = _update_two_site_nodes(a, b): legs_before_combination(a, b); contract_nodes(a, b, "TwoSite_a_contr_b");
   the contracted tensor is read and replaced by the evolved one (an opaque tensor of the same shape);
   split_node_svd(new, u_legs, v_legs, u_identifier = a, v_identifier = b, svd_params); orthogonality_center_id = b.
   The SVD is truncated: the bond dimension is data.  It is an argument (`bd`, read off the real run by the harness);
   the split is recorded with kind 4 = "truncated SVD: first factor U (an isometry by the kernel contract), second
   factor S Vh" (split_nodes treats every kind >= 2 as a replacement with the given bond dimension).
   SiteBack n = _single_site_backwards_update = _update_site with a negative factor: the same store operation as Site. *)
Definition two_site_update (s : store) (a b new : id) (bd : nat) : option store :=
  match Trotter.legs_before_combination s a b with
  | Some (u, v) =>
      match contract_nodes s a b new with
      | Some s1 =>
          match site_update s1 new with
          | Some s2 => split_nodes s2 new u v a b 4 Keep bd
          | None => None
          end
      | None => None
      end
  | None => None
  end.

(* the state of a two-site step: the store with its recorded centre and the bond dimensions still to be consumed *)
Definition ev_step2 (lk tw : id -> id -> id) (tmp : id) (st : cstore * list nat) (e : ev) : option (cstore * list nat) :=
  let '(cs, bds) := st in
  match e with
  | TwoSite a b _ =>
      match bds with
      | bd :: rest => match two_site_update (fst cs) a b (tw a b) bd with
                      | Some s' => Some ((s', Some b), rest)
                      | None => None
                      end
      | [] => None
      end
  | _ => match ev_step lk tmp cs e with Some cs' => Some (cs', bds) | None => None end
  end.

Definition ev_fold2 (lk tw : id -> id -> id) (tmp : id) (acc0 : option (cstore * list nat)) (e : ev) :=
  match acc0 with Some st => ev_step2 lk tw tmp st e | None => None end.

Definition tdvp_run2 (lk tw : id -> id -> id) (tmp : id) (st : cstore * list nat) (tr : list ev) : option (cstore * list nat) :=
  fold_left (ev_fold2 lk tw tmp) tr (Some st).

Definition tdvp2s_step_t (lk tw : id -> id -> id) (tmp : id) (t : rtree) (cs : cstore) (bds : list nat) : option (cstore * list nat) :=
  match trace2s t with Some tr => tdvp_run2 lk tw tmp (cs, bds) tr | None => None end.

(* isometry attribute with SVD factors: every non-centre node is a single atom that is the first factor of a QR call
   (kind 0) or of a truncated SVD (kind 4) whose bond sits on the node's leg toward the centre *)
Definition iso_node2 (s : store) (d : list (id * nat)) (kn : id * node) : bool :=
  let '(k, nd) := kn in
  match aget k (tensors s), toward s d nd with
  | Some t, Some nb =>
      match atoms t, neighbour_index nd nb with
      | [a], Some leg =>
          existsb (fun df => Nat.eqb (kq df) a && (Nat.eqb (kkind df) 0 || Nat.eqb (kkind df) 4)
                             && Nat.eqb (kbond df) (nth (nth leg (perm nd) 0) (axes t) 0)) (defs s)
      | _, _ => false
      end
  | _, _ => false
  end.
Definition iso_check2 (cs : cstore) : bool :=
  match snd cs with
  | None => false
  | Some c =>
      let s := fst cs in
      let d := Canon.distance_to_node s c in
      forallb (fun kn => Nat.eqb (fst kn) c || iso_node2 s d kn) (nodes s)
  end.

Definition cobs2 (cs : cstore) :=
  (observe (fst cs), match snd cs with Some c => [c] | None => [] end, iso_check2 cs).

(* bss: the bond dimensions of the consecutive steps *)
Fixpoint steps_obs2 (lk tw : id -> id -> id) (tmp : id) (t : rtree) (cs : cstore) (bss : list (list nat)) :=
  match bss with
  | [] => []
  | bds :: rest =>
      match tdvp2s_step_t lk tw tmp t cs bds with
      | Some (cs', unused) => Some (cobs2 cs', length unused) :: steps_obs2 lk tw tmp t cs' rest
      | None => [None]
      end
  end.

Definition tdvp2s_case (lk tw : id -> id -> id) (tmp : id) (ops : list op) (t : rtree) (bss : list (list nat)) :=
  let '(s0, oks) := Store.run empty_store ops in
  (match tree_of s0 with Some t' => rtree_eqb t' t | None => false end,
   forallb (fun b => b) oks,
   match tdvp_init lk tmp t (s0, None) with
   | Some cs1 => (Some (cobs2 cs1), steps_obs2 lk tw tmp t cs1 bss)
   | None => (None, [])
   end,
   first_of t).
