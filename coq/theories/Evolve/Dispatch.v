(* Model of the local propagator
     pytreenet/time_evolution/time_evolution.py : TimeEvoMode (value, fastest_equivalent, is_scipy),
                                                  time_evolve
     pytreenet/util/std_utils.py                : fast_exp_action (mode dispatch)
   The numerical kernels (scipy.integrate.solve_ivp, scipy.linalg.expm, scipy.sparse.linalg.eigsh /
   expm_multiply / expm) are never modelled: they are arguments of [time_evolve] (Section
   variables).  Two instances are used:
     - the abstract one (DispatchProofs.v): kernels with contracts, for the semantic theorems;
     - the symbolic one ([observe], below): every kernel returns a record of the arguments it was
       called with; this is what the harness compares with the calls recorded on the real code.
   Definitions only; proofs are in DispatchProofs.v. *)
From Coq Require Import ZArith QArith List Bool Arith String.
Import ListNotations.
Local Close Scope Q_scope.
Local Open Scope string_scope.

(* ---- TimeEvoMode -------------------------------------------------------------------- *)
Inductive mode := FASTEST | EXPM | EIGSH | CHEBYSHEV | SPARSE | RK45 | RK23 | DOP853 | BDF.

Definition all_modes : list mode := [FASTEST; EXPM; EIGSH; CHEBYSHEV; SPARSE; RK45; RK23; DOP853; BDF].

(* the enum values: they are what is passed on as `method=` / `mode=` *)
Definition value (m : mode) : string :=
  match m with
  | FASTEST => "fastest" | EXPM => "expm" | EIGSH => "eigsh" | CHEBYSHEV => "chebyshev"
  | SPARSE => "sparse" | RK45 => "RK45" | RK23 => "RK23" | DOP853 => "DOP853" | BDF => "BDF"
  end.

Definition mode_index (m : mode) : nat :=
  match m with
  | FASTEST => 0 | EXPM => 1 | EIGSH => 2 | CHEBYSHEV => 3 | SPARSE => 4
  | RK45 => 5 | RK23 => 6 | DOP853 => 7 | BDF => 8
  end.

Definition mode_eqb (a b : mode) : bool := Nat.eqb (mode_index a) (mode_index b).   (* enum identity *)

Definition fastest_equivalent : mode := CHEBYSHEV.

(* is_scipy calls itself on fastest_equivalent() when self == FASTEST: fuelled recursion *)
Fixpoint is_scipy_fuel (fuel : nat) (m : mode) : option bool :=
  match fuel with
  | O => None
  | S f =>
      if mode_eqb m FASTEST then is_scipy_fuel f fastest_equivalent
      else Some (existsb (mode_eqb m) [RK45; RK23; DOP853; BDF])
  end.

Definition is_scipy (m : mode) : option bool := is_scipy_fuel 2 m.

(* ---- scalars: sign, sign * 1.0j, (sign * 1.0j * H) * t ------------------------------- *)
Definition sign (forward : bool) : Z := (-2 * (if forward then 1 else 0) + 1)%Z.   (* -2 * forward + 1 *)

Definition gi := (Z * Z)%type.                          (* Gaussian integer (re, im) *)
Definition gi_mul (a b : gi) : gi :=
  (fst a * fst b - snd a * snd b, fst a * snd b + snd a * fst b)%Z.
Definition gi_neg (a : gi) : gi := (- fst a, - snd a)%Z.
Definition gi_conj (a : gi) : gi := (fst a, - snd a)%Z.
Definition gi_of_Z (z : Z) : gi := (z, 0%Z).
Definition gi_I : gi := (0%Z, 1%Z).                     (* 1.0j *)

Definition rhs_coeff (forward : bool) : gi := gi_mul (gi_of_Z (sign forward)) gi_I.   (* sign * 1.0j *)

Definition gq := (Q * Q)%type.                          (* Gaussian rational (re, im) *)
Definition gq_one : gq := (1%Q, 0%Q).
Definition gq_mul_gi (g : gi) (c : gq) : gq :=
  (inject_Z (fst g) * fst c - inject_Z (snd g) * snd c,
   inject_Z (fst g) * snd c + inject_Z (snd g) * fst c)%Q.
Definition gq_scale (c : gq) (t : Q) : gq := (fst c * t, snd c * t)%Q.
Definition gq_eq (a b : gq) : Prop := (fst a == fst b)%Q /\ (snd a == snd b)%Q.
Definition gq_neg (a : gq) : gq := (- fst a, - snd a)%Q.

(* the scalar the exponent carries: exponent = exponent_coeff * H *)
Definition exponent_coeff (forward : bool) (t : Q) : gq :=
  gq_scale (gq_mul_gi (rhs_coeff forward) gq_one) t.

(* ---- which kernel ---------------------------------------------------------------------- *)
Inductive kernel :=
| SolveIvp (method : string)      (* scipy.integrate.solve_ivp(rhs, (0, t), y0, method=)  (no t_eval) *)
| Expm                            (* scipy.linalg.expm(exponent) @ vector *)
| Eigsh (k : nat)                 (* scipy.sparse.linalg.eigsh(exponent, k=k), then v diag(exp w) pinv(v) vector *)
| ExpmMultiply                    (* scipy.sparse.linalg.expm_multiply(exponent, vector, traceA=trace(exponent)) *)
| ExpmSparse                      (* scipy.sparse.linalg.expm(csr(exponent)).dot(csr(vector).T).toarray() *)
| NoAction.                       (* mode "none": the vector is returned *)

(* fast_exp_action's chain of string comparisons; n = exponent.shape[0]; None = NotImplementedError *)
Definition fast_exp_action_kernel (md : string) (n : nat) : option kernel :=
  let md := if String.eqb md "fastest" then "chebyshev" else md in
  if String.eqb md "expm" then Some Expm
  else if String.eqb md "eigsh" then
         (if Nat.ltb n 4 then Some Expm else Some (Eigsh (Nat.min (n - 2) 8)))
  else if String.eqb md "chebyshev" then Some ExpmMultiply
  else if String.eqb md "sparse" then Some ExpmSparse
  else if String.eqb md "none" then Some NoAction
  else None.

Definition time_evolve_kernel (m : mode) (n : nat) : option kernel :=
  match is_scipy m with
  | Some true => Some (SolveIvp (value m))
  | Some false => fast_exp_action_kernel (value m) n
  | None => None
  end.

(* ---- tensors: shape + row-major data; flatten / reshape ------------------------------- *)
Definition prod_shape (s : list nat) : nat := fold_right Nat.mul 1 s.

Record tensor (X : Type) := mkT { shape : list nat; data : list X }.
Arguments mkT {X}. Arguments shape {X}. Arguments data {X}.

Definition wf {X} (t : tensor X) : Prop := List.length (data t) = prod_shape (shape t).
Definition flatten {X} (t : tensor X) : list X := data t.
(* np.reshape: ValueError (None) unless the sizes agree *)
Definition reshape {X} (v : list X) (s : list nat) : option (tensor X) :=
  if Nat.eqb (List.length v) (prod_shape s) then Some (mkT s v) else None.

(* ---- time_evolve and fast_exp_action over abstract kernels ----------------------------- *)
Section Evolve.
  Variables X M : Type.                       (* vector entries; matrices *)
  Variable gscale : gi -> M -> M.             (* Gaussian-integer multiple of a matrix *)
  Variable tscale : M -> Q -> M.              (* matrix * time_difference *)
  Variable dim : M -> nat.                    (* .shape[0] *)
  (* kernels *)
  Variable k_solve_ivp : string -> M -> Q * Q -> list Q -> list X -> list (list X).
        (* method, matrix of the linear right-hand side, t_span, t_eval ([] = not given), y0 |-> columns of solution.y *)
  Variable k_expm : M -> M.
  Variable matvec : M -> list X -> list X.    (* @ *)
  Variable k_eigsh : nat -> M -> list X -> list X.
  Variable k_expm_multiply : M -> list X -> list X.
  Variable k_expm_sparse : M -> list X -> list X.

  Definition apply_exp_kernel (k : kernel) (exponent : M) (vector : list X) : option (list X) :=
    match k with
    | Expm => Some (matvec (k_expm exponent) vector)
    | Eigsh kk => Some (k_eigsh kk exponent vector)
    | ExpmMultiply => Some (k_expm_multiply exponent vector)
    | ExpmSparse => Some (k_expm_sparse exponent vector)
    | NoAction => Some vector
    | SolveIvp _ => None
    end.

  Definition fast_exp_action (exponent : M) (vector : list X) (md : string) : option (list X) :=
    match fast_exp_action_kernel md (dim exponent) with
    | Some k => apply_exp_kernel k exponent vector
    | None => None                                          (* NotImplementedError *)
    end.

  Definition time_evolve (psi : tensor X) (H : M) (t : Q) (forward : bool) (m : mode) : option (tensor X) :=
    let rhs_matrix := gscale (rhs_coeff forward) H in
    match is_scipy m with
    | None => None
    | Some true =>
        match rev (k_solve_ivp (value m) rhs_matrix (0%Q, t) [] (flatten psi)) with
        | column :: _ => reshape column (shape psi)         (* solution.y[:,-1] *)
        | [] => None                                        (* no column: the subscript raises *)
        end
    | Some false =>
        match fast_exp_action (tscale rhs_matrix t) (flatten psi) (value m) with
        | Some v => reshape v (shape psi)
        | None => None
        end
    end.
End Evolve.

(* ---- the contracts under which the semantic theorems are proved (statements only) ------ *)
Section Contracts.
  Variables X M : Type.
  Variable gscale : gi -> M -> M.
  Variable tscale : M -> Q -> M.
  Variable k_solve_ivp : string -> M -> Q * Q -> list Q -> list X -> list (list X).
  Variable k_expm : M -> M.
  Variable matvec : M -> list X -> list X.
  Variable k_eigsh : nat -> M -> list X -> list X.
  Variable k_expm_multiply : M -> list X -> list X.
  Variable k_expm_sparse : M -> list X -> list X.
  Variables (mzero mone : M) (mmul : M -> M -> M).
  Variable E : M -> M.                          (* the matrix exponential *)

  (* matrices: a module over the Gaussian integers and the durations, acting on vectors *)
  Definition module_laws : Prop :=
    (forall g h A, gscale g (gscale h A) = gscale (gi_mul g h) A) /\
    (forall A, gscale (1, 0)%Z A = A) /\
    (forall g A t, tscale (gscale g A) t = gscale g (tscale A t)) /\
    (forall A t, (t == 0)%Q -> tscale A t = mzero) /\
    (forall v, matvec mone v = v) /\
    (forall A B v, matvec (mmul A B) v = matvec A (matvec B v)) /\
    (forall A v, List.length (matvec A v) = List.length v).

  (* exp(0) = 1 and exp(-A) exp(A) = 1 *)
  Definition exp_laws : Prop :=
    E mzero = mone /\ (forall A, mmul (E (gscale (-1, 0)%Z A)) (E A) = mone).

  (* every kernel computes the exponential action; the last column of solve_ivp is the solution at t *)
  Definition kernel_contracts : Prop :=
    (forall A, k_expm A = E A) /\
    (forall k A v, k_eigsh k A v = matvec (E A) v) /\
    (forall A v, k_expm_multiply A v = matvec (E A) v) /\
    (forall A v, k_expm_sparse A v = matvec (E A) v) /\
    (forall me A t v, exists pre, k_solve_ivp me A (0%Q, t) [] v = (pre ++ [matvec (E (tscale A t)) v])%list).

  Variable S : Type.
  Variable ip : list X -> list X -> S.         (* inner product *)
  Variable adj : M -> M.                        (* adjoint *)
  Definition adjoint_laws : Prop :=
    (forall A, adj (E A) = E (adj A)) /\
    (forall g A, adj (gscale g A) = gscale (gi_conj g) (adj A)) /\
    (forall A t, adj (tscale A t) = tscale (adj A) t) /\
    (forall A u w, ip (matvec A u) w = ip u (matvec (adj A) w)).
End Contracts.

(* ---- symbolic instance: kernels return the record of their call ----------------------- *)
Inductive call :=
| CInput                                                       (* an untouched entry of psi *)
| CSolveIvp (method : string) (coef : gq) (t_span : Q * Q) (t_eval : list Q)
| CExpm (coef : gq)
| CEigsh (k : nat) (coef : gq)
| CExpmMultiply (coef : gq)
| CExpmSparse (coef : gq).

Definition sM := (nat * gq)%type.              (* (dimension n, scalar c): the matrix c * H, H of size n x n *)
Definition s_gscale (g : gi) (A : sM) : sM := (fst A, gq_mul_gi g (snd A)).
Definition s_tscale (A : sM) (t : Q) : sM := (fst A, gq_scale (snd A) t).
Definition s_dim (A : sM) : nat := fst A.
(* ncols = number of columns solve_ivp returned on the real run (an input of the observation) *)
Definition s_solve_ivp (ncols : nat) (method : string) (A : sM) (t_span : Q * Q) (t_eval : list Q)
           (y0 : list call) : list (list call) :=
  repeat (repeat (CSolveIvp method (snd A) t_span t_eval) (List.length y0)) ncols.
Definition s_expm (A : sM) : sM := A.
Definition s_matvec (A : sM) (v : list call) : list call := repeat (CExpm (snd A)) (fst A).
Definition s_eigsh (k : nat) (A : sM) (v : list call) : list call := repeat (CEigsh k (snd A)) (fst A).
Definition s_expm_multiply (A : sM) (v : list call) : list call := repeat (CExpmMultiply (snd A)) (fst A).
Definition s_expm_sparse (A : sM) (v : list call) : list call := repeat (CExpmSparse (snd A)) (fst A).

Definition s_psi (s : list nat) : tensor call := mkT s (repeat CInput (prod_shape s)).

Definition s_time_evolve (ncols : nat) (s : list nat) (n : nat) (t : Q) (forward : bool) (m : mode)
  : option (tensor call) :=
  time_evolve call sM s_gscale s_tscale s_dim (s_solve_ivp ncols) s_expm s_matvec s_eigsh
              s_expm_multiply s_expm_sparse (s_psi s) (n, gq_one) t forward m.

Definition s_fast_exp_action (n : nat) (c : gq) (md : string) : option (list call) :=
  fast_exp_action call sM s_dim s_expm s_matvec s_eigsh s_expm_multiply s_expm_sparse
                  (n, c) (repeat CInput n) md.

(* printable form: rationals reduced and written as lists of integers *)
Definition qout (q : Q) : list Z := let r := Qred q in [Qnum r; Zpos (Qden r)].         (* [num; den] *)
Definition gqout (c : gq) : list Z := qout (fst c) ++ qout (snd c).                      (* re ++ im *)

Inductive call_out :=
| OInput
| OSolveIvp (method : string) (coef : list Z) (t_span : list Z) (t_eval : list (list Z))
| OExpm (coef : list Z)
| OEigsh (k : nat) (coef : list Z)
| OExpmMultiply (coef : list Z)
| OExpmSparse (coef : list Z).

Definition call_print (c : call) : call_out :=
  match c with
  | CInput => OInput
  | CSolveIvp me co ts te => OSolveIvp me (gqout co) (qout (fst ts) ++ qout (snd ts)) (map qout te)
  | CExpm co => OExpm (gqout co)
  | CEigsh k co => OEigsh k (gqout co)
  | CExpmMultiply co => OExpmMultiply (gqout co)
  | CExpmSparse co => OExpmSparse (gqout co)
  end.

(* run-length encoding of the per-entry calls (keeps the printed observation small) *)
Fixpoint list_eqb {A} (eqb : A -> A -> bool) (l1 l2 : list A) : bool :=
  match l1, l2 with
  | [], [] => true
  | a :: t1, b :: t2 => eqb a b && list_eqb eqb t1 t2
  | _, _ => false
  end.

Definition call_out_eqb (a b : call_out) : bool :=
  match a, b with
  | OInput, OInput => true
  | OSolveIvp m1 c1 s1 e1, OSolveIvp m2 c2 s2 e2 =>
      String.eqb m1 m2 && list_eqb Z.eqb c1 c2 && list_eqb Z.eqb s1 s2 && list_eqb (list_eqb Z.eqb) e1 e2
  | OExpm c1, OExpm c2 => list_eqb Z.eqb c1 c2
  | OEigsh k1 c1, OEigsh k2 c2 => Nat.eqb k1 k2 && list_eqb Z.eqb c1 c2
  | OExpmMultiply c1, OExpmMultiply c2 => list_eqb Z.eqb c1 c2
  | OExpmSparse c1, OExpmSparse c2 => list_eqb Z.eqb c1 c2
  | _, _ => false
  end.

Fixpoint rle (l : list call_out) : list (call_out * nat) :=
  match l with
  | [] => []
  | h :: t =>
      match rle t with
      | (h', c) :: r => if call_out_eqb h h' then (h', S c) :: r else (h, 1) :: (h', c) :: r
      | [] => [(h, 1)]
      end
  end.

(* what the harness compares: None = time_evolve raises; Some (shape of the result, the calls the
   entries of the result come from, run-length encoded) *)
Definition observe (m : mode) (forward : bool) (n : nat) (s : list nat) (t : Q) (ncols : nat)
  : option (list nat * list (call_out * nat)) :=
  match s_time_evolve ncols s n t forward m with
  | Some r => Some (shape r, rle (map call_print (data r)))
  | None => None
  end.

Definition observe_fea (md : string) (n : nat) (c : gq) : option (list (call_out * nat)) :=
  match s_fast_exp_action n c md with
  | Some v => Some (rle (map call_print v))
  | None => None
  end.

(* the inputs numpy / scipy accept: a square H (rows = cols = n) whose size is psi's size *)
Definition accepted (rows cols : nat) (s : list nat) : bool :=
  Nat.eqb rows cols && Nat.eqb (prod_shape s) rows.

(* the call a kernel of the table receives (used to state that [observe] is the table) *)
Definition kernel_call (k : kernel) (f : bool) (t : Q) : call :=
  match k with
  | SolveIvp me => CSolveIvp me (gq_mul_gi (rhs_coeff f) gq_one) (0%Q, t) []
  | Expm => CExpm (exponent_coeff f t)
  | Eigsh kk => CEigsh kk (exponent_coeff f t)
  | ExpmMultiply => CExpmMultiply (exponent_coeff f t)
  | ExpmSparse => CExpmSparse (exponent_coeff f t)
  | NoAction => CInput
  end.

(* ---- a toy instance of the kernels (consistency of the contracts of DispatchProofs.v) ---- *)
(* scalar matrices e^(a+ib) 1 in the logarithmic domain: (a, b); vectors of phases; integer times *)
Definition tM := (Z * Z)%type.
Definition toy_gscale (g : gi) (A : tM) : tM := gi_mul g A.
Definition toy_tscale (A : tM) (t : Q) : tM := (Qnum t * fst A, Qnum t * snd A)%Z.
Definition toy_dim (A : tM) : nat := 5.
Definition toy_zero : tM := (0, 0)%Z.
Definition toy_one : tM := (0, 0)%Z.
Definition toy_mul (A B : tM) : tM := (fst A + fst B, snd A + snd B)%Z.
Definition toy_E (A : tM) : tM := A.
Definition toy_matvec (A : tM) (v : list Z) : list Z := map (fun x => (x + snd A)%Z) v.
Definition toy_expm (A : tM) : tM := toy_E A.
Definition toy_eigsh (k : nat) (A : tM) (v : list Z) : list Z := toy_matvec (toy_E A) v.
Definition toy_expm_multiply (A : tM) (v : list Z) : list Z := toy_matvec (toy_E A) v.
Definition toy_expm_sparse (A : tM) (v : list Z) : list Z := toy_matvec (toy_E A) v.
Definition toy_solve_ivp (me : string) (A : tM) (ts : Q * Q) (te : list Q) (v : list Z) : list (list Z) :=
  [v; toy_matvec (toy_E (toy_tscale A (snd ts))) v].
Definition toy_adj (A : tM) : tM := (fst A, - snd A)%Z.
Definition toy_ip (u w : list Z) : list Z := map (fun p => (snd p - fst p)%Z) (combine u w).
Definition toy_time_evolve :=
  time_evolve Z tM toy_gscale toy_tscale toy_dim toy_solve_ivp toy_expm toy_matvec toy_eigsh
              toy_expm_multiply toy_expm_sparse.
