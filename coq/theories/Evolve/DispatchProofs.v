From Coq Require Import ZArith QArith List Bool Arith String Lia Lqa.
From PTN Require Import Evolve.Dispatch.
Import ListNotations.
Local Close Scope Q_scope.
Local Open Scope string_scope.

(* ======================================================================================== *)
(* 1. the finite part: modes, is_scipy, the dispatch table                                    *)
(* ======================================================================================== *)
Lemma all_modes_complete (m : mode) : In m all_modes.
Proof. destruct m; cbn; tauto. Qed.

Lemma mode_eqb_eq a b : mode_eqb a b = true <-> a = b.
Proof. split; [destruct a, b; cbn; congruence | intros ->; destruct b; reflexivity]. Qed.

Lemma value_injective a b : value a = value b -> a = b.
Proof. destruct a, b; cbn; congruence. Qed.

Lemma is_scipy_table (m : mode) :
  is_scipy m = Some (match m with RK45 | RK23 | DOP853 | BDF => true | _ => false end).
Proof. destruct m; reflexivity. Qed.

(* the fuel of the model is enough: more fuel never changes the answer *)
Lemma is_scipy_fuel_enough (fuel : nat) (m : mode) : 2 <= fuel -> is_scipy_fuel fuel m = is_scipy m.
Proof.
  intros H. destruct fuel as [|[|f]]; try lia. destruct m; reflexivity.
Qed.

Lemma dispatch_table (m : mode) (n : nat) :
  time_evolve_kernel m n =
  Some (match m with
        | RK45 => SolveIvp "RK45" | RK23 => SolveIvp "RK23" | DOP853 => SolveIvp "DOP853" | BDF => SolveIvp "BDF"
        | EXPM => Expm
        | EIGSH => if Nat.ltb n 4 then Expm else Eigsh (Nat.min (n - 2) 8)
        | CHEBYSHEV | FASTEST => ExpmMultiply
        | SPARSE => ExpmSparse
        end).
Proof.
  destruct m; try reflexivity.
  change (time_evolve_kernel EIGSH n) with (if Nat.ltb n 4 then Some Expm else Some (Eigsh (Nat.min (n - 2) 8))).
  destruct (Nat.ltb n 4); reflexivity.
Qed.

Lemma fea_kernel_eigsh (n : nat) :
  fast_exp_action_kernel (value EIGSH) n = if Nat.ltb n 4 then Some Expm else Some (Eigsh (Nat.min (n - 2) 8)).
Proof. reflexivity. Qed.

Lemma dispatch_unique (m : mode) (n : nat) : exists! k, time_evolve_kernel m n = Some k.
Proof.
  rewrite dispatch_table. eexists. split; [reflexivity|]. intros k' [= <-]. reflexivity.
Qed.

Lemma fastest_kernel (n : nat) : time_evolve_kernel FASTEST n = time_evolve_kernel CHEBYSHEV n.
Proof. reflexivity. Qed.

Lemma ode_iff_is_scipy (m : mode) (n : nat) :
  (exists me, time_evolve_kernel m n = Some (SolveIvp me)) <-> is_scipy m = Some true.
Proof.
  rewrite dispatch_table, is_scipy_table. split.
  - intros [me H]. destruct m; try reflexivity; try discriminate.
    destruct (Nat.ltb n 4); discriminate.
  - intros H. destruct m; try discriminate; eexists; reflexivity.
Qed.

Lemma ode_method_is_value (m : mode) (n : nat) (me : string) :
  time_evolve_kernel m n = Some (SolveIvp me) -> me = value m.
Proof.
  rewrite dispatch_table. destruct m; try (intros [= <-]; reflexivity); try discriminate.
  destruct (Nat.ltb n 4); discriminate.
Qed.

(* eigsh: dense expm below dimension 4, otherwise 2 <= k = min(n-2, 8) < n eigenpairs *)
Lemma eigsh_k (n k : nat) : time_evolve_kernel EIGSH n = Some (Eigsh k) -> 4 <= n /\ k = Nat.min (n - 2) 8 /\ 2 <= k < n.
Proof.
  rewrite dispatch_table. destruct (Nat.ltb_spec n 4); [discriminate|]. intros [= <-]. lia.
Qed.

(* the string dispatch of fast_exp_action accepts exactly six mode strings *)
Lemma fast_exp_action_kernel_domain (md : string) (n : nat) :
  fast_exp_action_kernel md n <> None <->
  In md ["fastest"; "expm"; "eigsh"; "chebyshev"; "sparse"; "none"].
Proof.
  unfold fast_exp_action_kernel. cbn [In].
  destruct (String.eqb_spec md "fastest") as [->|N1]; [cbn; split; [tauto|discriminate]|].
  destruct (String.eqb_spec md "expm") as [->|N2]; [split; [tauto|discriminate]|].
  destruct (String.eqb_spec md "eigsh") as [->|N3]; [split; [tauto|destruct (Nat.ltb n 4); discriminate]|].
  destruct (String.eqb_spec md "chebyshev") as [->|N4]; [split; [tauto|discriminate]|].
  destruct (String.eqb_spec md "sparse") as [->|N5]; [split; [tauto|discriminate]|].
  destruct (String.eqb_spec md "none") as [->|N6]; [split; [tauto|discriminate]|].
  split; [congruence|]. intros [H|[H|[H|[H|[H|[H|[]]]]]]]; congruence.
Qed.

(* ======================================================================================== *)
(* 2. sign algebra                                                                            *)
(* ======================================================================================== *)
Lemma sign_forward : sign true = (-1)%Z.  Proof. reflexivity. Qed.
Lemma sign_backward : sign false = 1%Z.   Proof. reflexivity. Qed.

Lemma rhs_coeff_forward : rhs_coeff true = (0, -1)%Z.   Proof. reflexivity. Qed.    (* -i *)
Lemma rhs_coeff_backward : rhs_coeff false = (0, 1)%Z.  Proof. reflexivity. Qed.    (* +i *)

Lemma rhs_coeff_sign (f : bool) : rhs_coeff f = (0%Z, sign f).
Proof. destruct f; reflexivity. Qed.

Lemma rhs_coeff_negb (f : bool) : rhs_coeff (negb f) = gi_mul (-1, 0)%Z (rhs_coeff f).
Proof. destruct f; reflexivity. Qed.

Lemma rhs_coeff_neg (f : bool) : rhs_coeff (negb f) = gi_neg (rhs_coeff f).
Proof. destruct f; reflexivity. Qed.

Lemma rhs_coeff_conj (f : bool) : gi_conj (rhs_coeff f) = gi_mul (-1, 0)%Z (rhs_coeff f).
Proof. destruct f; reflexivity. Qed.

Lemma rhs_coeff_square (f : bool) : gi_mul (rhs_coeff f) (rhs_coeff f) = (-1, 0)%Z.
Proof. destruct f; reflexivity. Qed.

Lemma gi_mul_assoc (a b c : gi) : gi_mul a (gi_mul b c) = gi_mul (gi_mul a b) c.
Proof. destruct a, b, c; unfold gi_mul; cbn [fst snd]. f_equal; ring. Qed.

Lemma gi_mul_m1_m1 : gi_mul (-1, 0)%Z (-1, 0)%Z = (1, 0)%Z.
Proof. reflexivity. Qed.

Lemma exponent_coeff_value (f : bool) (t : Q) :
  gq_eq (exponent_coeff f t) (0%Q, (inject_Z (sign f) * t)%Q).
Proof.
  unfold gq_eq, exponent_coeff, gq_scale, gq_mul_gi, gq_one. rewrite rhs_coeff_sign. cbn [fst snd].
  change (inject_Z 0) with 0%Q. split; ring.
Qed.

Lemma exponent_coeff_negb (f : bool) (t : Q) :
  gq_eq (exponent_coeff (negb f) t) (gq_neg (exponent_coeff f t)).
Proof.
  destruct (exponent_coeff_value f t) as [A B]. destruct (exponent_coeff_value (negb f) t) as [C D].
  unfold gq_eq, gq_neg in *. cbn [fst snd] in *. rewrite A, B, C, D.
  destruct f; cbn [negb]; change (inject_Z (sign true)) with (-1 # 1)%Q;
    change (inject_Z (sign false)) with 1%Q; split; ring.
Qed.

Lemma exponent_coeff_zero (f : bool) (t : Q) : (t == 0)%Q -> gq_eq (exponent_coeff f t) (0%Q, 0%Q).
Proof.
  intros H. destruct (exponent_coeff_value f t) as [A B]. unfold gq_eq in *. cbn [fst snd] in *.
  rewrite A, B, H. split; ring.
Qed.

(* the scalar carried by the matrices of the symbolic instance is the one above *)
Lemma symbolic_exponent (f : bool) (n : nat) (t : Q) :
  s_tscale (s_gscale (rhs_coeff f) (n, gq_one)) t = (n, exponent_coeff f t).
Proof. reflexivity. Qed.

(* ======================================================================================== *)
(* 3. flatten / reshape                                                                       *)
(* ======================================================================================== *)
Lemma reshape_flatten {X} (t : tensor X) : wf t -> reshape (flatten t) (shape t) = Some t.
Proof.
  unfold wf, reshape, flatten. intros H. rewrite H, Nat.eqb_refl. destruct t; reflexivity.
Qed.

Lemma reshape_some {X} (v : list X) (s : list nat) (r : tensor X) :
  reshape v s = Some r -> shape r = s /\ flatten r = v /\ wf r.
Proof.
  unfold reshape. destruct (Nat.eqb_spec (List.length v) (prod_shape s)) as [E|]; [|discriminate].
  intros [= <-]. unfold wf, flatten. cbn. auto.
Qed.

Lemma reshape_length {X} (v : list X) (s : list nat) :
  List.length v = prod_shape s -> reshape v s = Some (mkT s v).
Proof. unfold reshape. intros ->. rewrite Nat.eqb_refl. reflexivity. Qed.

Lemma reshape_none {X} (v : list X) (s : list nat) :
  List.length v <> prod_shape s -> reshape v s = None.
Proof. unfold reshape. intros H. destruct (Nat.eqb_spec (List.length v) (prod_shape s)); congruence. Qed.

(* ======================================================================================== *)
(* 4. time_evolve over abstract kernels                                                       *)
(* ======================================================================================== *)
Section Sem.
  Variables X M : Type.
  Variable gscale : gi -> M -> M.
  Variable tscale : M -> Q -> M.
  Variable dim : M -> nat.
  Variable k_solve_ivp : string -> M -> Q * Q -> list Q -> list X -> list (list X).
  Variable k_expm : M -> M.
  Variable matvec : M -> list X -> list X.
  Variable k_eigsh : nat -> M -> list X -> list X.
  Variable k_expm_multiply : M -> list X -> list X.
  Variable k_expm_sparse : M -> list X -> list X.

  Notation time_evolve :=
    (time_evolve X M gscale tscale dim k_solve_ivp k_expm matvec k_eigsh k_expm_multiply k_expm_sparse).
  Notation fast_exp_action :=
    (fast_exp_action X M dim k_expm matvec k_eigsh k_expm_multiply k_expm_sparse).
  Notation apply_exp_kernel :=
    (apply_exp_kernel X M k_expm matvec k_eigsh k_expm_multiply k_expm_sparse).

  (* ---- facts that need no contract ---- *)
  (* whatever the kernels return: a result has psi's shape and as many entries *)
  Theorem time_evolve_shape psi H t f m r :
    time_evolve psi H t f m = Some r -> shape r = shape psi /\ wf r.
  Proof.
    unfold Dispatch.time_evolve. destruct (is_scipy m) as [[|]|]; [| |discriminate].
    - destruct (rev (k_solve_ivp _ _ _ _ _)) as [|c0 ?]; [discriminate|].
      intros Hr. apply reshape_some in Hr. tauto.
    - destruct (Dispatch.fast_exp_action _ _ _ _ _ _ _ _ _ _ _) as [v|]; [|discriminate].
      intros Hr. apply reshape_some in Hr. tauto.
  Qed.

  Theorem fastest_as_chebyshev psi H t f :
    time_evolve psi H t f FASTEST = time_evolve psi H t f CHEBYSHEV.
  Proof. reflexivity. Qed.

  (* time_evolve is: pick the kernel of the table, call it, reshape *)
  Theorem time_evolve_unfold psi H t f m :
    time_evolve psi H t f m =
    match time_evolve_kernel m (dim (tscale (gscale (rhs_coeff f) H) t)) with
    | Some (SolveIvp me) =>
        match rev (k_solve_ivp me (gscale (rhs_coeff f) H) (0%Q, t) [] (flatten psi)) with
        | c0 :: _ => reshape c0 (shape psi)
        | [] => None
        end
    | Some k =>
        match apply_exp_kernel k (tscale (gscale (rhs_coeff f) H) t) (flatten psi) with
        | Some v => reshape v (shape psi)
        | None => None
        end
    | None => None
    end.
  Proof.
    destruct m; try reflexivity.
    unfold Dispatch.time_evolve, time_evolve_kernel, Dispatch.fast_exp_action.
    change (is_scipy EIGSH) with (Some false). cbv iota. rewrite fea_kernel_eigsh.
    destruct (Nat.ltb _ 4); reflexivity.
  Qed.

  (* ---- contracts ---- *)
  Variables (mzero mone : M) (mmul : M -> M -> M).
  Variable E : M -> M.                                        (* the matrix exponential *)
  (* the matrices form a module over the Gaussian integers and the durations *)
  Hypothesis gscale_gscale : forall g h A, gscale g (gscale h A) = gscale (gi_mul g h) A.
  Hypothesis gscale_one : forall A, gscale (1, 0)%Z A = A.
  Hypothesis tscale_gscale : forall g A t, tscale (gscale g A) t = gscale g (tscale A t).
  Hypothesis tscale_zero : forall A t, (t == 0)%Q -> tscale A t = mzero.
  Hypothesis matvec_one : forall v, matvec mone v = v.
  Hypothesis matvec_mul : forall A B v, matvec (mmul A B) v = matvec A (matvec B v).
  Hypothesis matvec_length : forall A v, List.length (matvec A v) = List.length v.
  (* the exponential *)
  Hypothesis E_zero : E mzero = mone.
  Hypothesis E_neg : forall A, mmul (E (gscale (-1, 0)%Z A)) (E A) = mone.
  (* every kernel computes the exponential action *)
  Hypothesis c_expm : forall A, k_expm A = E A.
  Hypothesis c_eigsh : forall k A v, k_eigsh k A v = matvec (E A) v.
  Hypothesis c_expm_multiply : forall A v, k_expm_multiply A v = matvec (E A) v.
  Hypothesis c_expm_sparse : forall A v, k_expm_sparse A v = matvec (E A) v.
  Hypothesis c_solve_ivp : forall me A t v, exists pre, k_solve_ivp me A (0%Q, t) [] v = (pre ++ [matvec (E (tscale A t)) v])%list.

  Theorem evolve_semantics psi H t f m : wf psi ->
    time_evolve psi H t f m =
    Some (mkT (shape psi) (matvec (E (tscale (gscale (rhs_coeff f) H) t)) (flatten psi))).
  Proof.
    intros Hwf. rewrite time_evolve_unfold, dispatch_table.
    assert (R : reshape (matvec (E (tscale (gscale (rhs_coeff f) H) t)) (flatten psi)) (shape psi) =
                Some (mkT (shape psi) (matvec (E (tscale (gscale (rhs_coeff f) H) t)) (flatten psi)))).
    { apply reshape_length. rewrite matvec_length. exact Hwf. }
    assert (RS : forall me, match rev (k_solve_ivp me (gscale (rhs_coeff f) H) (0%Q, t) [] (flatten psi)) with
                 | c0 :: _ => reshape c0 (shape psi) | [] => None end =
                 Some (mkT (shape psi) (matvec (E (tscale (gscale (rhs_coeff f) H) t)) (flatten psi)))).
    { intros me. destruct (c_solve_ivp me (gscale (rhs_coeff f) H) t (flatten psi)) as [pre ->].
      rewrite rev_app_distr. cbn [rev app]. exact R. }
    destruct m; cbn [Dispatch.apply_exp_kernel];
      rewrite ?RS, ?c_expm, ?c_expm_multiply, ?c_expm_sparse; try reflexivity; try exact R.
    destruct (Nat.ltb _ 4); cbn [Dispatch.apply_exp_kernel]; rewrite ?c_expm, ?c_eigsh; exact R.
  Qed.

  Lemma inverse_pair f H t v :
    matvec (E (tscale (gscale (rhs_coeff (negb f)) H) t)) (matvec (E (tscale (gscale (rhs_coeff f) H) t)) v) = v.
  Proof.
    rewrite <- matvec_mul, rhs_coeff_negb, <- gscale_gscale, tscale_gscale, E_neg. apply matvec_one.
  Qed.

  (* evolving in one direction and then in the other (any two modes) gives psi back *)
  Theorem forward_backward_id psi H t f m1 m2 r : wf psi ->
    time_evolve psi H t f m1 = Some r -> time_evolve r H t (negb f) m2 = Some psi.
  Proof.
    intros Hwf H1. rewrite evolve_semantics in H1 by exact Hwf. injection H1 as <-.
    rewrite evolve_semantics.
    - cbn [shape flatten data]. rewrite inverse_pair. destruct psi; reflexivity.
    - unfold wf. cbn [shape data]. rewrite matvec_length. exact Hwf.
  Qed.

  Theorem zero_duration_id psi H t f m : wf psi -> (t == 0)%Q -> time_evolve psi H t f m = Some psi.
  Proof.
    intros Hwf Ht. rewrite evolve_semantics by exact Hwf.
    rewrite (tscale_zero _ _ Ht), E_zero, matvec_one. destruct psi; reflexivity.
  Qed.

  (* ---- Hermitian H: the inner product (hence the norm) is preserved ---- *)
  Variable S : Type.
  Variable ip : list X -> list X -> S.
  Variable adj : M -> M.
  Hypothesis adj_E : forall A, adj (E A) = E (adj A).
  Hypothesis adj_gscale : forall g A, adj (gscale g A) = gscale (gi_conj g) (adj A).
  Hypothesis adj_tscale : forall A t, adj (tscale A t) = tscale (adj A) t.
  Hypothesis ip_adj : forall A u w, ip (matvec A u) w = ip u (matvec (adj A) w).

  Theorem hermitian_norm psi H t f m r u : wf psi -> adj H = H ->
    time_evolve psi H t f m = Some r ->
    ip (flatten r) (matvec (E (tscale (gscale (rhs_coeff f) H) t)) u) = ip (flatten psi) u.
  Proof.
    intros Hwf Hh H1. rewrite evolve_semantics in H1 by exact Hwf. injection H1 as <-.
    cbn [flatten data]. rewrite ip_adj, adj_E, adj_tscale, adj_gscale, Hh, rhs_coeff_conj.
    rewrite <- rhs_coeff_negb, inverse_pair. reflexivity.
  Qed.

  Corollary hermitian_norm_self psi H t f m r : wf psi -> adj H = H ->
    time_evolve psi H t f m = Some r -> ip (flatten r) (flatten r) = ip (flatten psi) (flatten psi).
  Proof.
    intros Hwf Hh H1. pose proof (hermitian_norm psi H t f m r (flatten psi) Hwf Hh H1) as P.
    rewrite evolve_semantics in H1 by exact Hwf. injection H1 as <-. exact P.
  Qed.
End Sem.

(* the same theorems with the hypotheses bundled as in Dispatch.v (Section Contracts) *)
Section Bundled.
  Variables X M : Type.
  Variable gscale : gi -> M -> M.
  Variable tscale : M -> Q -> M.
  Variable dim : M -> nat.
  Variable k_solve_ivp : string -> M -> Q * Q -> list Q -> list X -> list (list X).
  Variable k_expm : M -> M.
  Variable matvec : M -> list X -> list X.
  Variable k_eigsh : nat -> M -> list X -> list X.
  Variable k_expm_multiply : M -> list X -> list X.
  Variable k_expm_sparse : M -> list X -> list X.
  Variables (mzero mone : M) (mmul : M -> M -> M).
  Variable E : M -> M.
  Notation time_evolve :=
    (time_evolve X M gscale tscale dim k_solve_ivp k_expm matvec k_eigsh k_expm_multiply k_expm_sparse).
  Hypothesis ML : module_laws X M gscale tscale matvec mzero mone mmul.
  Hypothesis EL : exp_laws M gscale mzero mone mmul E.
  Hypothesis KC : kernel_contracts X M tscale k_solve_ivp k_expm matvec k_eigsh k_expm_multiply k_expm_sparse E.

  Theorem evolve_semantics_b psi H t f m : wf psi ->
    time_evolve psi H t f m =
    Some (mkT (shape psi) (matvec (E (tscale (gscale (rhs_coeff f) H) t)) (flatten psi))).
  Proof.
    destruct ML as (m1 & m2 & m3 & m4 & m5 & m6 & m7). destruct KC as (k1 & k2 & k3 & k4 & k5).
    apply evolve_semantics; assumption.
  Qed.

  Theorem forward_backward_id_b psi H t f m1 m2 r : wf psi ->
    time_evolve psi H t f m1 = Some r -> time_evolve r H t (negb f) m2 = Some psi.
  Proof.
    destruct ML as (l1 & l2 & l3 & l4 & l5 & l6 & l7). destruct KC as (k1 & k2 & k3 & k4 & k5).
    destruct EL as (e1 & e2).
    apply (forward_backward_id X M gscale tscale dim k_solve_ivp k_expm matvec k_eigsh k_expm_multiply
             k_expm_sparse mone mmul E); assumption.
  Qed.

  Theorem zero_duration_id_b psi H t f m : wf psi -> (t == 0)%Q -> time_evolve psi H t f m = Some psi.
  Proof.
    destruct ML as (l1 & l2 & l3 & l4 & l5 & l6 & l7). destruct KC as (k1 & k2 & k3 & k4 & k5).
    destruct EL as (e1 & e2).
    apply (zero_duration_id X M gscale tscale dim k_solve_ivp k_expm matvec k_eigsh k_expm_multiply
             k_expm_sparse mzero mone E); assumption.
  Qed.

  Variable S : Type.
  Variable ip : list X -> list X -> S.
  Variable adj : M -> M.
  Hypothesis AL : adjoint_laws X M gscale tscale matvec E S ip adj.

  Theorem hermitian_norm_b psi H t f m r : wf psi -> adj H = H ->
    time_evolve psi H t f m = Some r -> ip (flatten r) (flatten r) = ip (flatten psi) (flatten psi).
  Proof.
    destruct ML as (l1 & l2 & l3 & l4 & l5 & l6 & l7). destruct KC as (k1 & k2 & k3 & k4 & k5).
    destruct EL as (e1 & e2). destruct AL as (a1 & a2 & a3 & a4).
    apply (hermitian_norm_self X M gscale tscale dim k_solve_ivp k_expm matvec k_eigsh k_expm_multiply
             k_expm_sparse mone mmul E l1 l3 l5 l6 l7 e2 k1 k2 k3 k4 k5 S ip adj a1 a2 a3 a4).
  Qed.
End Bundled.

(* ======================================================================================== *)
(* 5. the symbolic instance: what the harness observes is the dispatch table                  *)
(* ======================================================================================== *)
Lemma map_repeat' {A B} (g : A -> B) (a : A) n : map g (repeat a n) = repeat (g a) n.
Proof. induction n as [|n IH]; cbn; [reflexivity|]. f_equal. exact IH. Qed.

Lemma list_eqb_refl {A} (eqb : A -> A -> bool) (l : list A) :
  (forall a, eqb a a = true) -> list_eqb eqb l l = true.
Proof. intros H. induction l as [|a l IH]; cbn; [reflexivity|]. rewrite H, IH. reflexivity. Qed.

Lemma call_out_eqb_refl (c : call_out) : call_out_eqb c c = true.
Proof.
  destruct c; cbn; rewrite ?String.eqb_refl, ?Nat.eqb_refl, ?(list_eqb_refl Z.eqb) by apply Z.eqb_refl; try reflexivity.
  cbn. apply list_eqb_refl. intros a. apply list_eqb_refl, Z.eqb_refl.
Qed.

(* n equal entries are one run of length n *)
Lemma rle_repeat (c : call_out) (n : nat) : rle (repeat c (S n)) = [(c, S n)].
Proof.
  induction n as [|n IH]; [reflexivity|].
  change (repeat c (S (S n))) with (c :: repeat c (S n)). cbn [rle]. rewrite IH, call_out_eqb_refl. reflexivity.
Qed.

Theorem observe_table (m : mode) (f : bool) (n : nat) (s : list nat) (t : Q) (ncols : nat) :
  prod_shape s = n ->
  observe m f n s t ncols =
  match time_evolve_kernel m n with
  | Some k =>
      match k, ncols with
      | SolveIvp _, O => None
      | _, _ => Some (s, rle (repeat (call_print (kernel_call k f t)) n))
      end
  | None => None
  end.
Proof.
  intros Hs. unfold observe, s_time_evolve. rewrite time_evolve_unfold.
  cbn [s_dim s_tscale s_gscale fst]. rewrite dispatch_table.
  assert (R : forall c : call, reshape (repeat c n) s = Some (mkT s (repeat c n))).
  { intros c. apply reshape_length. rewrite repeat_length. symmetry. exact Hs. }
  assert (RR : forall (A : Type) (x : A) k, rev (repeat x k) = repeat x k).
  { intros A x k. induction k as [|k IHk]; [reflexivity|]. cbn [repeat rev]. rewrite IHk.
    clear. induction k as [|k IHk]; [reflexivity|]. cbn [repeat app]. f_equal. exact IHk. }
  assert (Q1 : forall me, match rev (s_solve_ivp ncols me (s_gscale (rhs_coeff f) (n, gq_one)) (0%Q, t) [] (flatten (s_psi s))) with
               | c0 :: _ => reshape c0 (shape (s_psi s)) | [] => None end =
               match ncols with O => None | _ => Some (mkT s (repeat (CSolveIvp me (gq_mul_gi (rhs_coeff f) gq_one) (0%Q, t) []) n)) end).
  { intros me. unfold s_solve_ivp, s_psi, flatten. cbn [data shape snd s_gscale]. rewrite repeat_length, Hs, RR.
    destruct ncols; cbn [repeat]; [reflexivity|apply R]. }
  destruct m; cbn [apply_exp_kernel]; rewrite ?Q1;
    try (destruct ncols; cbn [shape data]; rewrite ?map_repeat'; reflexivity);
    try (unfold s_matvec, s_expm, s_expm_multiply, s_expm_sparse, s_eigsh; cbn [fst snd shape s_psi s_tscale s_gscale];
         rewrite R; cbn [shape data]; rewrite map_repeat'; destruct ncols; reflexivity).
  destruct (Nat.ltb n 4); cbn [apply_exp_kernel];
    unfold s_matvec, s_expm, s_eigsh; cbn [fst snd shape s_psi s_tscale s_gscale]; rewrite R; cbn [shape data];
    rewrite map_repeat'; destruct ncols; reflexivity.
Qed.

(* ======================================================================================== *)
(* 6. the contracts are consistent: a toy instance (1 x 1 phases in the logarithmic domain)   *)
(* ======================================================================================== *)
Lemma toy_contracts :
  module_laws Z tM toy_gscale toy_tscale toy_matvec toy_zero toy_one toy_mul /\
  exp_laws tM toy_gscale toy_zero toy_one toy_mul toy_E /\
  kernel_contracts Z tM toy_tscale toy_solve_ivp toy_expm toy_matvec toy_eigsh toy_expm_multiply
                   toy_expm_sparse toy_E /\
  adjoint_laws Z tM toy_gscale toy_tscale toy_matvec toy_E (list Z) toy_ip toy_adj.
Proof.
  unfold module_laws, exp_laws, kernel_contracts, adjoint_laws.
  repeat match goal with |- _ /\ _ => split end.
  - intros g h A. unfold toy_gscale. apply gi_mul_assoc.
  - intros [a b]. unfold toy_gscale, gi_mul. cbn [fst snd]. f_equal; ring.
  - intros [g1 g2] [a b] t. unfold toy_tscale, toy_gscale, gi_mul. cbn [fst snd]. f_equal; ring.
  - intros [a b] t Ht. unfold toy_tscale, toy_zero. cbn [fst snd].
    assert (Qnum t = 0%Z) as ->. { unfold Qeq in Ht. cbn in Ht. lia. } reflexivity.
  - intros v. unfold toy_matvec, toy_one. cbn [snd]. rewrite <- (map_id v) at 2. apply map_ext. intros; lia.
  - intros [a b] [c d] v. unfold toy_matvec, toy_mul. cbn [fst snd]. rewrite map_map. apply map_ext. intros; lia.
  - intros A v. unfold toy_matvec. apply map_length.
  - reflexivity.
  - intros [a b]. unfold toy_mul, toy_E, toy_gscale, gi_mul, toy_one. cbn [fst snd]. f_equal; ring.
  - reflexivity.
  - reflexivity.
  - reflexivity.
  - reflexivity.
  - intros me A t v. exists [v]. reflexivity.
  - reflexivity.
  - intros [g1 g2] [a b]. unfold toy_adj, toy_gscale, gi_mul, gi_conj. cbn [fst snd]. f_equal; ring.
  - intros [a b] t. unfold toy_adj, toy_tscale. cbn [fst snd]. f_equal; ring.
  - intros [a b] u. unfold toy_ip, toy_matvec, toy_adj. cbn [fst snd].
    induction u as [|x u IH]; intros [|y w]; cbn; try reflexivity.
    f_equal; [lia|apply IH].
Qed.
