(* SGE/Model.v -- executable Gallina model of
   /repo/pytreenet/ttno/symbolic_gaussian_elimination_fraction.py
   (everything reachable from `gaussian_elimination`; the *_brute variants, row_scale,
   col_scale and print_matrix are not reachable and not modelled).

   Representation
   * a Python entry is a `Fraction`, the stray `int 0` written by `_row_add/_col_add`, or a
     tuple `(Fraction, str)`.  `Num q` stands for the first two (they are indistinguishable for
     every test the code performs: `== 0`, `!= 0`, truthiness, `+=`), `Sym q s` for the tuple,
     the symbol string being numbered by `s`.  An entry can therefore never mix two symbols.
   * rationals are canonical (`Qc`), so Leibniz equality is Python's `==` on Fractions.
   * Python mutates `matrix`, `Op_l`, `Op_r` in place; every function here returns the new
     values.  `while` loops whose bound can change during the loop run on explicit fuel and
     return `None` when it is exhausted; `for .. in range(..)` loops (bound fixed when the
     loop starts) and the inner `while j < len(matrix)` loops (nothing is deleted inside them)
     are folds over `seq`.
   No proofs in this file. *)
From Coq Require Import ZArith QArith Qcanon List Arith Bool.
Import ListNotations.
Local Close Scope Q_scope.
Local Open Scope nat_scope.

Inductive ent := Num (q : Qc) | Sym (q : Qc) (s : nat).

Definition mat := list (list ent).      (* matrix / Gamma *)
Definition qmat := list (list Qc).      (* Op_l, Op_r *)

Notation q0 := (Q2Qc 0).
Notation q1 := (Q2Qc 1).

(* ---------------------------------------------------------------- list primitives *)

Fixpoint mem (k : nat) (l : list nat) : bool :=          (* `k in l` *)
  match l with [] => false | x :: l' => if x =? k then true else mem k l' end.

Fixpoint upd {A} (k : nat) (x : A) (l : list A) : list A :=   (* l[k] = x *)
  match l with
  | [] => []
  | y :: l' => match k with 0 => x :: l' | S k' => y :: upd k' x l' end
  end.

Fixpoint mapi_from {A B} (k : nat) (f : nat -> A -> B) (l : list A) : list B :=
  match l with [] => [] | x :: l' => f k x :: mapi_from (S k) f l' end.

(* l[i], l[j] = l[j], l[i] *)
Definition swap_nth {A} (i j : nat) (l : list A) : list A :=
  mapi_from 0 (fun k x => if k =? i then nth j l x else if k =? j then nth i l x else x) l.

(* `for z in sorted(Z, reverse=True): del l[z]` for a duplicate-free Z: drop the positions in Z *)
Fixpoint del_from {A} (k : nat) (Z : list nat) (l : list A) : list A :=
  match l with
  | [] => []
  | x :: l' => if mem k Z then del_from (S k) Z l' else x :: del_from (S k) Z l'
  end.
Definition del_idx {A} (Z : list nat) (l : list A) : list A := del_from 0 Z l.

Definition get (M : mat) (i j : nat) : ent := nth j (nth i M []) (Num q0).
Definition qget (L : qmat) (i j : nat) : Qc := nth j (nth i L []) q0.
Definition ncols {A} (M : list (list A)) : nat := length (hd [] M).     (* len(matrix[0]) *)
Definition col (k : nat) (M : mat) : list ent := map (fun row => nth k row (Num q0)) M.

Definition identity (n : nat) : qmat :=
  map (fun i => map (fun j => if i =? j then q1 else q0) (seq 0 n)) (seq 0 n).

(* ---------------------------------------------------------------- entry tests *)

Definition ent_is_zero (e : ent) : bool :=               (* e == 0 ; `not e` *)
  match e with Num q => Qc_eq_bool q q0 | Sym _ _ => false end.
Definition all_zero (l : list ent) : bool := forallb ent_is_zero l.    (* not any(l) *)

(* ---------------------------------------------------------------- swaps *)

Definition row_swap (M : mat) (L : qmat) (i j : nat) : mat * qmat :=
  (swap_nth i j M, map (swap_nth i j) L).               (* _row_swap(matrix); _col_swap(Op_l) *)
Definition col_swap (M : mat) (R : qmat) (i j : nat) : mat * qmat :=
  (map (swap_nth i j) M, swap_nth i j R).               (* _col_swap(matrix); _row_swap(Op_r) *)

(* ---------------------------------------------------------------- numeric line additions *)

(* _col_add_float(L, t, s, f): for row in L: row[t] += f * row[s] *)
Definition col_add_float (L : qmat) (t s : nat) (f : Qc) : qmat :=
  map (fun row => upd t (nth t row q0 + f * nth s row q0)%Qc row) L.

(* _row_add_float(R, t, s, f): for i in range(len(R[t])): R[t][i] += f * R[s][i] *)
Definition row_add_float (R : qmat) (t s : nat) (f : Qc) : qmat :=
  upd t (mapi_from 0 (fun i x => (x + f * nth i (nth s R []) q0)%Qc) (nth t R [])) R.

(* ---------------------------------------------------------------- symbolic line additions *)

(* one iteration of the loop in _row_add / _col_add; None = `return (False, False)` *)
Definition add_entry (f : Qc) (t s : ent) : option ent :=
  match s with
  | Sym sc sv =>
      match t with
      | Sym tc tv =>
          if tv =? sv then
            let nc := (tc + f * sc)%Qc in
            if Qc_eq_bool nc q0 then Some (Num q0) else Some (Sym nc sv)
          else None
      | Num tq => if Qc_eq_bool tq q0 then Some (Sym (f * sc)%Qc sv) else None
      end
  | Num sq =>
      match t with
      | Num tq => Some (Num (tq + f * sq)%Qc)
      | Sym _ _ => if Qc_eq_bool sq q0 then Some t else None
      end
  end.

(* the whole loop: the new line, or None as soon as one position is incompatible
   (the Python code returns before it has written anything back) *)
Fixpoint add_line (f : Qc) (tl sl : list ent) : option (list ent) :=
  match tl with
  | [] => Some []
  | t :: tl' =>
      match sl with
      | [] => None
      | s :: sl' =>
          match add_entry f t s with
          | None => None
          | Some e => match add_line f tl' sl' with None => None | Some r => Some (e :: r) end
          end
      end
  end.

Definition set_col (k : nat) (c : list ent) (M : mat) : mat :=
  map (fun rc => upd k (snd rc) (fst rc)) (combine M c).

(* row_add(matrix, Op_l, target, source, factor) -> (matrix, Op_l, is_zero).
   `factor` is always a Fraction at the two call sites, so the isinstance test is true. *)
Definition row_add (M : mat) (L : qmat) (tgt src : nat) (f : Qc) : mat * qmat * bool :=
  match add_line f (nth tgt M []) (nth src M []) with
  | None => (M, L, false)
  | Some r => (upd tgt r M, col_add_float L src tgt (- f)%Qc, all_zero r)
  end.

Definition col_add (M : mat) (R : qmat) (tgt src : nat) (f : Qc) : mat * qmat * bool :=
  match add_line f (col tgt M) (col src M) with
  | None => (M, R, false)
  | Some c => (set_col tgt c M, row_add_float R src tgt (- f)%Qc, all_zero c)
  end.

(* ---------------------------------------------------------------- parallel lines *)

Definition coeff_var (e : ent) : Qc * option nat :=     (* (a, '') if Fraction else a *)
  match e with Num q => (q, None) | Sym q s => (q, Some s) end.
Definition var_eqb (a b : option nat) : bool :=
  match a, b with
  | None, None => true
  | Some x, Some y => x =? y
  | _, _ => false
  end.

(* loop of are_parallel_row / are_parallel_col; result 0 = "not parallel" *)
Fixpoint par_fold (ratio : Qc) (ps : list (ent * ent)) : Qc :=
  match ps with
  | [] => ratio
  | (a, b) :: ps' =>
      let (ac, av) := coeff_var a in
      let (bc, bv) := coeff_var b in
      if negb (var_eqb av bv) then q0
      else if Qc_eq_bool ac q0 && Qc_eq_bool bc q0 then par_fold ratio ps'
      else if Qc_eq_bool ac q0 || Qc_eq_bool bc q0 then q0
      else let cur := (bc / ac)%Qc in
           if Qc_eq_bool ratio q0 then par_fold cur ps'
           else if negb (Qc_eq_bool cur ratio) then q0
           else par_fold ratio ps'
  end.

Definition are_parallel_row (r1 r2 : list ent) : Qc := par_fold q0 (combine r1 r2).
Definition are_parallel_col (M : mat) (c1 c2 : nat) : Qc :=
  par_fold q0 (map (fun row => (nth c1 row (Num q0), nth c2 row (Num q0))) M).

(* deparallelize_rows: inner `for j in range(i+1, len(matrix))` *)
Fixpoint depar_rows_inner (M : mat) (i : nat) (js : list nat) (L : qmat) (Z : list nat)
  : qmat * list nat :=
  match js with
  | [] => (L, Z)
  | j :: js' =>
      if mem j Z then depar_rows_inner M i js' L Z
      else let mult := are_parallel_row (nth i M []) (nth j M []) in
           if Qc_eq_bool mult q0 then depar_rows_inner M i js' L Z
           else depar_rows_inner M i js' (col_add_float L i j mult) (Z ++ [j])
  end.
Fixpoint depar_rows_outer (M : mat) (is : list nat) (L : qmat) (Z : list nat) : qmat * list nat :=
  match is with
  | [] => (L, Z)
  | i :: is' =>
      if mem i Z then depar_rows_outer M is' L Z
      else let '(L', Z') := depar_rows_inner M i (seq (S i) (length M - S i)) L Z in
           depar_rows_outer M is' L' Z'
  end.
Definition deparallelize_rows (L : qmat) (M : mat) : qmat * mat :=
  let '(L', Z) := depar_rows_outer M (seq 0 (length M)) L [] in
  (map (del_idx Z) L', del_idx Z M).

Fixpoint depar_cols_inner (M : mat) (i : nat) (js : list nat) (R : qmat) (Z : list nat)
  : qmat * list nat :=
  match js with
  | [] => (R, Z)
  | j :: js' =>
      if mem j Z then depar_cols_inner M i js' R Z
      else let mult := are_parallel_col M i j in
           if Qc_eq_bool mult q0 then depar_cols_inner M i js' R Z
           else depar_cols_inner M i js' (row_add_float R i j mult) (Z ++ [j])
  end.
Fixpoint depar_cols_outer (M : mat) (is : list nat) (R : qmat) (Z : list nat) : qmat * list nat :=
  match is with
  | [] => (R, Z)
  | i :: is' =>
      if mem i Z then depar_cols_outer M is' R Z
      else let '(R', Z') := depar_cols_inner M i (seq (S i) (ncols M - S i)) R Z in
           depar_cols_outer M is' R' Z'
  end.
Definition deparallelize_cols (R : qmat) (M : mat) : qmat * mat :=
  let '(R', Z) := depar_cols_outer M (seq 0 (ncols M)) R [] in
  (del_idx Z R', map (del_idx Z) M).

(* ---------------------------------------------------------------- row elimination *)

(* `for j in range(i+1, len(matrix)): if matrix[j][i] != 0: swap; break` *)
Definition find_row_pivot (M : mat) (i : nat) : option nat :=
  find (fun j => negb (ent_is_zero (get M j i))) (seq (S i) (length M - S i)).

(* body of `while j < len(matrix)` for one j; the state is (matrix, Op_l, zero_rows) *)
Definition row_elim_target (pivot : ent) (i : nat) (st : mat * qmat * list nat) (j : nat)
  : mat * qmat * list nat :=
  let '(M, L, Z) := st in
  let e := get M j i in
  if negb (j =? i) && negb (ent_is_zero e) then
    let '(M', L', iz) :=
      match pivot, e with
      | Sym pc pv, Sym ec ev =>
          if pv =? ev then row_add M L j i (- ec / pc)%Qc else (M, L, false)
      | Num pq, Num eq => row_add M L j i (- eq / pq)%Qc
      | _, _ => (M, L, false)
      end in
    (M', L', if iz then Z ++ [j] else Z)
  else st.

(* one iteration of the outer `while i < min(len(matrix), len(matrix[0]))` (i += 1 is done by
   the caller) *)
Definition row_elim_step (i : nat) (L : qmat) (M : mat) : qmat * mat :=
  let '(M1, L1) :=
    if ent_is_zero (get M i i) then
      match find_row_pivot M i with Some j => row_swap M L i j | None => (M, L) end
    else (M, L) in
  let pivot := get M1 i i in
  if ent_is_zero pivot then (L1, M1)
  else
    let '(M2, L2, Z) := fold_left (row_elim_target pivot i) (seq 0 (length M1)) (M1, L1, []) in
    (map (del_idx Z) L2, del_idx Z M2).

Fixpoint row_elim_loop (fuel i : nat) (L : qmat) (M : mat) : option (qmat * mat) :=
  if i <? Nat.min (length M) (ncols M) then
    match fuel with
    | 0 => None
    | S fuel' => let '(L', M') := row_elim_step i L M in row_elim_loop fuel' (S i) L' M'
    end
  else Some (L, M).

Definition row_elimination (L : qmat) (M : mat) : option (qmat * mat) :=
  row_elim_loop (length M) 0 L M.

(* ---------------------------------------------------------------- column elimination *)

Definition find_col_pivot (M : mat) (j : nat) : option nat :=
  find (fun i => negb (ent_is_zero (get M j i))) (seq (S j) (ncols M - S j)).

Definition col_elim_target (pivot : ent) (j : nat) (st : mat * qmat * list nat) (i : nat)
  : mat * qmat * list nat :=
  let '(M, R, Z) := st in
  let e := get M j i in
  if negb (i =? j) && negb (ent_is_zero e) then
    let '(M', R', iz) :=
      match pivot, e with
      | Sym pc pv, Sym ec ev =>
          if pv =? ev then col_add M R i j (- ec / pc)%Qc else (M, R, false)
      | Num pq, Num eq => col_add M R i j (- eq / pq)%Qc
      | _, _ => (M, R, false)
      end in
    (M', R', if iz then Z ++ [i] else Z)
  else st.

Definition col_elim_step (j : nat) (R : qmat) (M : mat) : qmat * mat :=
  let '(M1, R1) :=
    if ent_is_zero (get M j j) then
      match find_col_pivot M j with Some i => col_swap M R j i | None => (M, R) end
    else (M, R) in
  let pivot := get M1 j j in
  if ent_is_zero pivot then (R1, M1)
  else
    let '(M2, R2, Z) := fold_left (col_elim_target pivot j) (seq 0 (ncols M1)) (M1, R1, []) in
    (del_idx Z R2, map (del_idx Z) M2).

Fixpoint col_elim_loop (fuel j : nat) (R : qmat) (M : mat) : option (qmat * mat) :=
  if j <? Nat.min (length M) (ncols M) then
    match fuel with
    | 0 => None
    | S fuel' => let '(R', M') := col_elim_step j R M in col_elim_loop fuel' (S j) R' M'
    end
  else Some (R, M).

Definition column_elimination (R : qmat) (M : mat) : option (qmat * mat) :=
  col_elim_loop (ncols M) 0 R M.

(* ---------------------------------------------------------------- the driver *)

(* `while n_rows != n_rows_old or n_cols != n_cols_old` *)
Fixpoint ge_loop (fuel r c r_old c_old : nat) (L : qmat) (M : mat) (R : qmat)
  : option (qmat * mat * qmat) :=
  if (r =? r_old) && (c =? c_old) then Some (L, M, R)
  else
    match fuel with
    | 0 => None
    | S fuel' =>
        match row_elimination L M with
        | None => None
        | Some (L', M1) =>
            match column_elimination R M1 with
            | None => None
            | Some (R', M2) => ge_loop fuel' (length M2) (ncols M2) r c L' M2 R'
            end
        end
    end.

(* None = IndexError of `len(matrix[0])` on an empty list, or fuel exhausted *)
Definition gaussian_elimination (M : mat) : option (qmat * mat * qmat) :=
  match M with
  | [] => None
  | row0 :: _ =>
      let m := length M in
      let n := length row0 in
      let '(L1, M1) := deparallelize_rows (identity m) M in
      let '(R1, M2) := deparallelize_cols (identity n) M1 in
      ge_loop (m + n + 1) m n 0 0 L1 M2 R1
  end.

(* ---------------------------------------------------------------- coefficient semantics *)

(* an entry as a linear form: coefficient of the constant (None) or of symbol s (Some s) *)
Definition coef (e : ent) (s : option nat) : Qc :=
  match e, s with
  | Num q, None => q
  | Sym q t, Some t' => if t =? t' then q else q0
  | _, _ => q0
  end.

Fixpoint sumn (n : nat) (f : nat -> Qc) : Qc :=
  match n with 0 => q0 | S k => (sumn k f + f k)%Qc end.

(* entry (i,j) of L * M * R (M an m x n matrix), coefficient of s *)
Definition prod3 (m n : nat) (L : qmat) (M : mat) (R : qmat) (i j : nat) (s : option nat) : Qc :=
  sumn m (fun k => sumn n (fun l => (qget L i k * coef (get M k l) s * qget R l j)%Qc)).

Definition rectE (n : nat) (M : mat) : Prop := Forall (fun r => length r = n) M.
Definition rectQ (n : nat) (M : qmat) : Prop := Forall (fun r => length r = n) M.
Definition ent_wf (e : ent) : Prop := match e with Num _ => True | Sym q _ => q <> q0 end.
Definition mat_wf (M : mat) : Prop := Forall (Forall ent_wf) M.

(* ---------------------------------------------------------------- harness encoding *)

(* flat integer encoding of a result, compared verbatim with the same encoding of the
   Python result *)
Definition encQ (q : Qc) : list Z := [Qnum (this q); Zpos (Qden (this q))].
Definition encE (e : ent) : list Z :=
  match e with
  | Num q => 0%Z :: encQ q ++ [0%Z]
  | Sym q s => 1%Z :: encQ q ++ [Z.of_nat s]
  end.
Definition enc_rows {A} (f : A -> list Z) (M : list (list A)) : list Z :=
  Z.of_nat (length M) :: flat_map (fun r => Z.of_nat (length r) :: flat_map f r) M.
Definition enc_result (r : option (qmat * mat * qmat)) : list Z :=
  match r with
  | None => [(-1)%Z]
  | Some (L, M, R) => enc_rows encQ L ++ enc_rows encE M ++ enc_rows encQ R
  end.

(* matrices from a code number: digits in base |alphabet|, row-major, least significant first *)
Fixpoint decode_line (alph : list ent) (c : nat) (code : N) : list ent * N :=
  match c with
  | 0 => ([], code)
  | S c' =>
      let b := N.of_nat (length alph) in
      let e := nth (N.to_nat (N.modulo code b)) alph (Num q0) in
      let '(l, rest) := decode_line alph c' (N.div code b) in
      (e :: l, rest)
  end.
Fixpoint decode_mat (alph : list ent) (r c : nat) (code : N) : mat :=
  match r with
  | 0 => []
  | S r' => let '(l, rest) := decode_line alph c code in l :: decode_mat alph r' c rest
  end.
(* compact printable form of a list of integers: a chain of unary constructors, one per decimal
   digit (Coq prints constructor chains an order of magnitude faster than numerals).
   K = digit, the number continues; X = last digit of a number; Mi = minus sign. *)
Inductive ostr :=
  | OE
  | K0 (o : ostr) | K1 (o : ostr) | K2 (o : ostr) | K3 (o : ostr) | K4 (o : ostr)
  | K5 (o : ostr) | K6 (o : ostr) | K7 (o : ostr) | K8 (o : ostr) | K9 (o : ostr)
  | X0 (o : ostr) | X1 (o : ostr) | X2 (o : ostr) | X3 (o : ostr) | X4 (o : ostr)
  | X5 (o : ostr) | X6 (o : ostr) | X7 (o : ostr) | X8 (o : ostr) | X9 (o : ostr)
  | Mi (o : ostr) | Sl (o : ostr) | St (o : ostr).     (* '-', '/', '*' *)
Definition kdig (d : N) (o : ostr) : ostr :=
  match d with
  | 0 => K0 o | 1 => K1 o | 2 => K2 o | 3 => K3 o | 4 => K4 o
  | 5 => K5 o | 6 => K6 o | 7 => K7 o | 8 => K8 o | _ => K9 o
  end%N.
Definition xdig (d : N) (o : ostr) : ostr :=
  match d with
  | 0 => X0 o | 1 => X1 o | 2 => X2 o | 3 => X3 o | 4 => X4 o
  | 5 => X5 o | 6 => X6 o | 7 => X7 o | 8 => X8 o | _ => X9 o
  end%N.
Fixpoint emit_hi (fuel : nat) (n : N) (o : ostr) : ostr :=
  match fuel with
  | 0 => o
  | S f => if (n =? 0)%N then o else emit_hi f (n / 10)%N (kdig (n mod 10)%N o)
  end.
Definition emitN (n : N) (o : ostr) : ostr :=
  emit_hi (S (N.to_nat (N.size n))) (n / 10)%N (xdig (n mod 10)%N o).
Definition emitZ (z : Z) (o : ostr) : ostr :=
  match z with
  | Z0 => X0 o
  | Zpos p => emitN (Npos p) o
  | Zneg p => Mi (emitN (Npos p) o)
  end.
Definition ostr_of (l : list Z) : ostr := fold_right emitZ OE l.

(* compact result: "p m' n' q" then the entries of L, M', R row by row; a rational is "n" or "n/d",
   a symbolic entry "n*s" or "n/d*s".  Ragged results (never produced) fall back to "-2" followed by
   the verbose encoding; None is "-1". *)
Definition emitQ (q : Qc) (o : ostr) : ostr :=
  match Qden (this q) with
  | xH => emitZ (Qnum (this q)) o
  | d => emitZ (Qnum (this q)) (Sl (emitN (Npos d) o))
  end.
Definition emitE (e : ent) (o : ostr) : ostr :=
  match e with
  | Num q => emitQ q o
  | Sym q s => emitQ q (St (emitN (N.of_nat s) o))
  end.
Definition out_result (r : option (qmat * mat * qmat)) : ostr :=
  match r with
  | None => Mi (X1 OE)
  | Some (L, M, R) =>
      let p := length L in let m' := length M in let n' := ncols M in let q := ncols R in
      if forallb (fun r => length r =? m') L && forallb (fun r => length r =? n') M &&
         (length R =? n') && forallb (fun r => length r =? q) R
      then emitN (N.of_nat p) (emitN (N.of_nat m') (emitN (N.of_nat n') (emitN (N.of_nat q)
             (fold_right (fun row o => fold_right emitQ o row)
               (fold_right (fun row o => fold_right emitE o row)
                 (fold_right (fun row o => fold_right emitQ o row) OE R) M) L))))
      else Mi (X2 (ostr_of (enc_result r)))
  end.

Definition ge_block (alph : list ent) (r c : nat) (start : N) (count : nat) : list ostr :=
  map (fun k => out_result (gaussian_elimination (decode_mat alph r c (start + N.of_nat k)%N)))
      (seq 0 count).
Definition ge_list (Ms : list mat) : list ostr :=
  map (fun M => out_result (gaussian_elimination M)) Ms.
(* echo of the decoded inputs of a block (entry encodings only), to tie the two decoders *)
Definition echo_block (alph : list ent) (r c : nat) (start : N) (count : nat) : list ostr :=
  map (fun k => ostr_of (enc_rows encE (decode_mat alph r c (start + N.of_nat k)%N))) (seq 0 count).
